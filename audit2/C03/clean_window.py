"""clean tree: Tn gate of the C03 harness (own oracle) with NON-default (tmax, tmin) of Hydrodynamics; usage: clean_window.py <repo>/src"""
import sys, random
sys.path.insert(0, sys.argv[1]); sys.path.insert(0, "/verif/tools"); sys.path.insert(0, "/verif/tools/props")
import warnings; warnings.filterwarnings("ignore")
import C03 as H
specs=[dict(kind="twostep", ab=0.2, asy=0.1, musq=0.4, Tn=0.6), dict(kind="twostep", ab=0.2, asy=0.1, musq=0.4, Tn=0.5), dict(kind="bag", psi=0.8, Tn=0.8), dict(kind='template', psiN=0.9, alN=0.1, cs2=0.32, cb2=0.29, Tn=100.0)]
for tmax,tmin in ((10,0.01),(2.0,0.5),(3.0,0.5),(2.0,0.3),(1.5,0.8)):
    for spec in specs:
        try:
            th,hy=H.make_hydro(spec,tmax=tmax,tmin=tmin)
        except Exception as ex:
            print(tmax,tmin,spec['kind'],spec['Tn'],'ctor raised',repr(ex)[:100]); continue
        eos=H.OwnEOS(spec)
        out=[]
        lo=H.gate_lo(hy)
        for vw in [lo, 0.01, 0.05, 0.2, 0.4, 0.55, hy.vJ-0.05, hy.vJ-1e-3, hy.vJ]:
            if not lo<=vw<=hy.vJ: continue
            try:
                vp,vm,Tp,Tm=hy.findMatching(vw)
                if vp is None: out.append((round(vw,4),'None')); continue
                tn,_=H.oracle_Tn(eos,vw,vp,Tp)
                out.append((round(vw,4),'%.1e'%abs(tn/hy.Tnucl-1)))
            except Exception as ex:
                out.append((round(vw,4),'RAISE '+repr(ex)[:60]))
        print(tmax,tmin,spec['kind'],spec['Tn'],'vMin %.4f vJ %.4f'%(hy.vMin,hy.vJ),out)
