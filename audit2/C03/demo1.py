"""C03 audit2 demo 1: very slow deflagrations (2e-3 <= vw <= 3e-3) of template equations of state.

Run with PYTHONPATH=<repo>/src.  Exit 0: for every sampled input the flow integrated from the
returned state in front of the wall to the shock front, crossed with energy-flux conservation,
ends at the nucleation temperature to 5e-5 (the check's own default tolerance).  Exit 1 otherwise.
Independent integration in the similarity variable xi with scipy's DOP853 at rtol 1e-11.
The inputs are inside the window the check gates (it starts at 2e-3 when vMin = vBracketLow).
"""
import sys
import warnings
from dataclasses import dataclass

from scipy.integrate import solve_ivp
from scipy.optimize import brentq

import WallGo

warnings.filterwarnings("ignore")


@dataclass
class FE:
    minPossibleTemperature: list
    maxPossibleTemperature: list


class Template(WallGo.Thermodynamics):
    """p+ = a+ T^mu / 3 - eps, p- = a- T^nu / 3 (tests/test_HydroTemplateModel.py)"""

    def __init__(s, alN, psiN, cb2, cs2, Tn, wn=1.0):
        s.nu, s.mu, s.Tnucl = 1 + 1 / cb2, 1 + 1 / cs2, Tn
        s.ap = 3 * wn / (s.mu * Tn ** s.mu)
        s.am = 3 * wn * psiN / (s.nu * Tn ** s.nu)
        s.eps = 0
        s.eps = (s.pHighT(Tn) - s.pLowT(Tn) - cb2 * (
            s.eHighT(Tn) - s.eLowT(Tn) - 3 * wn * alN)) / (1 + cb2)
        s.freeEnergyHigh = FE([0.01 * Tn, False], [10.0 * Tn, False])
        s.freeEnergyLow = FE([0.01 * Tn, False], [10.0 * Tn, False])
        s.TMinLowT = s.TMinHighT = 0.01 * Tn
        s.TMaxLowT = s.TMaxHighT = 10.0 * Tn

    def pHighT(s, T):
        return s.ap * T ** s.mu / 3 - s.eps

    def dpHighT(s, T):
        return s.mu * s.ap * T ** (s.mu - 1) / 3

    def ddpHighT(s, T):
        return s.mu * (s.mu - 1) * s.ap * T ** (s.mu - 2) / 3

    def pLowT(s, T):
        return s.am * T ** s.nu / 3

    def dpLowT(s, T):
        return s.nu * s.am * T ** (s.nu - 1) / 3

    def ddpLowT(s, T):
        return s.nu * (s.nu - 1) * s.am * T ** (s.nu - 2) / 3


def mu(xi, v):
    return (xi - v) / (1 - xi * v)


def temperature_ahead(th, vw, vp, Tp):
    """integrate dv/dxi, dT/dxi from the wall to the front mu(xi,v) xi = cs^2(T); cross it"""
    def rhs(xi, y):
        v, T = y
        g2 = 1 / (1 - v * v)
        m = mu(xi, v)
        dv = 2 * v / xi / (g2 * (1 - v * xi) * (m * m / float(th.csqHighT(T)) - 1))
        return [dv, T * g2 * m * dv]

    def front(xi, y):
        # weak shocks approach the front asymptotically (v -> 0): stop once the fluid is at
        # rest to 1e-10, the jump there is negligible
        return max(mu(xi, y[0]) * xi - float(th.csqHighT(y[1])), 1e-10 - y[0])
    front.terminal = True
    sol = solve_ivp(rhs, [vw, 0.999], [mu(vw, vp), Tp], events=front, method="DOP853",
                    rtol=1e-11, atol=0)
    assert sol.status == 1, "front not reached"
    xiS, (vS, TS) = sol.t_events[0][0], sol.y_events[0][0]
    m = mu(xiS, vS)
    target = float(th.wHighT(TS)) * m / (1 - m * m) * (1 - xiS * xiS) / xiS
    return brentq(lambda t: float(th.wHighT(t)) - target, 0.3 * TS, 1.5 * TS, xtol=1e-300,
                  rtol=1e-14)


CASES = [  # (alN, psiN, cb2, cs2, Tn, wall velocities)
    (0.16917, 0.5089, 0.2791, 0.3304, 1.0, (0.002, 0.003, 0.0039)),
    (0.08731, 0.7797, 0.2668, 0.3202, 100.0, (0.002, 0.003, 0.0039)),
    (0.10458, 0.7501, 0.282, 0.3052, 1.0, (0.002, 0.003, 0.0039)),
]
bad = 0
for alN, psiN, cb2, cs2, Tn, vws in CASES:
    th = Template(alN, psiN, cb2, cs2, Tn)
    hy = WallGo.Hydrodynamics(th, 10.0, 0.01, 1e-6, 1e-10)
    assert hy.vMin <= 1e-3 + 1e-12 and hy.vJ > 0.5      # slow walls are inside [vMin, vJ)
    for vw in vws:
        vp, vm, Tp, Tm = hy.findMatching(vw)
        tn = temperature_ahead(th, vw, vp, Tp)
        r = abs(tn - Tn) / Tn
        flag = "" if r <= 5e-5 else "   <-- nucleation temperature NOT reached"
        bad += r > 5e-5
        print("alN=%.4f Tn=%g vw=%.4f: v+=%.8f T+=%.8f success=%s -> T ahead of the front "
              "%.8f (rel %.2e)%s" % (alN, Tn, vw, vp, Tp, hy.success, tn, r, flag))
sys.exit(1 if bad else 0)
