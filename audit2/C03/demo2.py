"""C03 audit2 demo 2: the solver built the way WallGoManager._initHydrodynamics builds it.

Run with PYTHONPATH=<repo>/src.  Hydrodynamics is constructed from the DEFAULTS of
WallGo.Config().configHydrodynamics (tmax, tmin, relativeTol, absoluteTol), exactly as the
manager does for every user who does not override them.  Exit 0: for every sampled
deflagration/hybrid the flow integrated from the returned state in front of the wall to the
shock front, crossed with energy-flux conservation, ends at the nucleation temperature to 5e-5.
Exit 1 otherwise.  Independent integration in xi with scipy's DOP853 at rtol 1e-11.
"""
import sys
import warnings
from dataclasses import dataclass

from scipy.integrate import solve_ivp
from scipy.optimize import brentq

import WallGo

warnings.filterwarnings("ignore")


@dataclass
class FE:
    minPossibleTemperature: list
    maxPossibleTemperature: list


class Bag(WallGo.Thermodynamics):
    def __init__(s, psi, Tn):
        s.psi, s.eps, s.Tnucl = psi, 1.0 - psi, Tn
        s.freeEnergyHigh = FE([0.1, False], [500.0, False])
        s.freeEnergyLow = FE([0.1, False], [500.0, False])
        s.TMinLowT = s.TMinHighT = 0.01
        s.TMaxLowT = s.TMaxHighT = 5.0

    def pHighT(s, T):
        return T ** 4 - s.eps

    def dpHighT(s, T):
        return 4 * T ** 3

    def ddpHighT(s, T):
        return 12 * T ** 2

    def pLowT(s, T):
        return s.psi * T ** 4

    def dpLowT(s, T):
        return 4 * s.psi * T ** 3

    def ddpLowT(s, T):
        return 12 * s.psi * T ** 2


class Template(WallGo.Thermodynamics):
    """p+ = a+ T^mu / 3 - eps, p- = a- T^nu / 3 (tests/test_HydroTemplateModel.py)"""

    def __init__(s, alN, psiN, cb2, cs2, Tn, wn=1.0):
        s.nu, s.mu, s.Tnucl = 1 + 1 / cb2, 1 + 1 / cs2, Tn
        s.ap = 3 * wn / (s.mu * Tn ** s.mu)
        s.am = 3 * wn * psiN / (s.nu * Tn ** s.nu)
        s.eps = 0
        s.eps = (s.pHighT(Tn) - s.pLowT(Tn) - cb2 * (
            s.eHighT(Tn) - s.eLowT(Tn) - 3 * wn * alN)) / (1 + cb2)
        s.freeEnergyHigh = FE([0.01 * Tn, False], [10.0 * Tn, False])
        s.freeEnergyLow = FE([0.01 * Tn, False], [10.0 * Tn, False])
        s.TMinLowT = s.TMinHighT = 0.01 * Tn
        s.TMaxLowT = s.TMaxHighT = 10.0 * Tn

    def pHighT(s, T):
        return s.ap * T ** s.mu / 3 - s.eps

    def dpHighT(s, T):
        return s.mu * s.ap * T ** (s.mu - 1) / 3

    def ddpHighT(s, T):
        return s.mu * (s.mu - 1) * s.ap * T ** (s.mu - 2) / 3

    def pLowT(s, T):
        return s.am * T ** s.nu / 3

    def dpLowT(s, T):
        return s.nu * s.am * T ** (s.nu - 1) / 3

    def ddpLowT(s, T):
        return s.nu * (s.nu - 1) * s.am * T ** (s.nu - 2) / 3


def mu(xi, v):
    return (xi - v) / (1 - xi * v)


def temperature_ahead(th, vw, vp, Tp):
    """integrate dv/dxi, dT/dxi from the wall to the front mu(xi,v) xi = cs^2(T); cross it"""
    def rhs(xi, y):
        v, T = y
        g2 = 1 / (1 - v * v)
        m = mu(xi, v)
        dv = 2 * v / xi / (g2 * (1 - v * xi) * (m * m / float(th.csqHighT(T)) - 1))
        return [dv, T * g2 * m * dv]

    def front(xi, y):
        # weak shocks approach the front asymptotically (v -> 0): stop once the fluid is at
        # rest to 1e-10, the jump there is negligible
        return max(mu(xi, y[0]) * xi - float(th.csqHighT(y[1])), 1e-10 - y[0])
    front.terminal = True
    sol = solve_ivp(rhs, [vw, 0.999], [mu(vw, vp), Tp], events=front, method="DOP853",
                    rtol=1e-11, atol=0)
    assert sol.status == 1, "front not reached"
    xiS, (vS, TS) = sol.t_events[0][0], sol.y_events[0][0]
    m = mu(xiS, vS)
    target = float(th.wHighT(TS)) * m / (1 - m * m) * (1 - xiS * xiS) / xiS
    return brentq(lambda t: float(th.wHighT(t)) - target, 0.3 * TS, 1.5 * TS, xtol=1e-300,
                  rtol=1e-14)


cfg = WallGo.Config().configHydrodynamics
print("ConfigHydrodynamics defaults: tmax=%g tmin=%g relativeTol=%g absoluteTol=%g" % (
    cfg.tmax, cfg.tmin, cfg.relativeTol, cfg.absoluteTol))
CASES = [
    ("bag psi=0.8 Tn=0.8", Bag(0.8, 0.8), (0.2, 0.3, 0.4, 0.55)),
    ("bag psi=0.9 Tn=0.9", Bag(0.9, 0.9), (0.2, 0.4, 0.55)),
    ("template alN=0.1 Tn=100", Template(0.1, 0.9, 0.29, 0.32, 100.0), (0.01, 0.05, 0.2, 0.4)),
]
bad = 0
for name, th, vws in CASES:
    Tn = th.Tnucl
    # WallGoManager._initHydrodynamics: Hydrodynamics(thermodynamics, tmax, tmin, rtol, atol)
    hy = WallGo.Hydrodynamics(th, cfg.tmax, cfg.tmin, cfg.relativeTol, cfg.absoluteTol)
    for vw in vws:
        assert hy.vMin < vw < hy.vJ
        vp, vm, Tp, Tm = hy.findMatching(vw)
        tn = temperature_ahead(th, vw, vp, Tp)
        r = abs(tn - Tn) / Tn
        flag = "" if r <= 5e-5 else "   <-- nucleation temperature NOT reached"
        bad += r > 5e-5
        print("%s vw=%.3f: v+=%.8f T+=%.8f T-=%.8f success=%s -> T ahead of the front %.8f "
              "(rel %.2e)%s" % (name, vw, vp, Tp, Tm, hy.success, tn, r, flag))
sys.exit(1 if bad else 0)
