"""Which edits do the structural recognisers of tools/gen_hydro_shock.generate_c03 accept (no TranslateError,
generated text unchanged => all 12 obligations still hold)?  usage: recogniser_probe.py <repo>/src"""
import sys
sys.path.insert(0, "/verif/tools")
import gen_hydro_shock as G, pyrx
src = sys.argv[1] + "/WallGo/"
H, T, P = (open(src + n).read() for n in ("hydrodynamics.py", "hydrodynamicsTemplateModel.py", "helpers.py"))
base, _ = G.generate_c03(H, T, P)


def probe(name, old, new, count=1):
    assert H.count(old) >= 1, name
    h = H.replace(old, new, count)
    try:
        text, _ = G.generate_c03(h, T, P)
        print("%-58s ACCEPTED%s" % (name, " (model text identical)" if text == base else " (model text differs -> Coq decides)"))
    except pyrx.TranslateError as e:
        print("%-58s fail-closed: %s" % (name, str(e)[:90]))


probe("findMatching: root_scalar(..., maxiter=8) on shockTnuclDiff",
      "                    bracket=[vpmin, vpmax],\n                    xtol=self.atol,\n                    rtol=self.rtol,\n                )",
      "                    bracket=[vpmin, vpmax],\n                    xtol=self.atol,\n                    rtol=self.rtol,\n                    maxiter=8,\n                )")
probe("findMatching: method='bisect' on shockTnuclDiff",
      "                    bracket=[vpmin, vpmax],\n                    xtol=self.atol,",
      "                    bracket=[vpmin, vpmax],\n                    method='bisect',\n                    xtol=self.atol,")
probe("findMatching: vpmax shrunk by 1e-3 (els[1] is any Assign)",
      "vpmax = min(vwTry, self.thermodynamics.csqHighT(self.Tnucl) / vwTry)",
      "vpmax = min(vwTry, self.thermodynamics.csqHighT(self.Tnucl) / vwTry) - 1e-3")
probe("findMatching: side-effect call before the bracket (Expr stmt)",
      "            vpmin = self.vBracketLow\n",
      "            vpmin = self.vBracketLow\n            self.template.__init__(self.thermodynamics, 1e-3, 1e-3)\n")
probe("solveHydroShock: shock.direction = -1",
      "        shock.terminal = True\n        xi0T0 = [vw, Tp]\n        vpcent = boostVelocity(vw, vp)\n        if shock(vpcent, xi0T0) > 0:",
      "        shock.terminal = True\n        shock.direction = -1\n        xi0T0 = [vw, Tp]\n        vpcent = boostVelocity(vw, vp)\n        if shock(vpcent, xi0T0) > 0:")
probe("solveHydroShock: TmShock reassigned AFTER TiiShock is defined",
      "        Tmin, Tmax = max(self.Tnucl / 2, self.TMinHydro), TmShock\n",
      "        TmShock = min(TmShock, 1.2 * self.Tnucl)\n        Tmin, Tmax = max(self.Tnucl / 2, self.TMinHydro), TmShock\n")
probe("solveHydroShock: brentq(..., maxiter=3) on TiiShock",
      "                bracket=[Tmin, Tmax],\n                method=\"brentq\",",
      "                bracket=[Tmin, Tmax],\n                maxiter=3,\n                method=\"brentq\",")
probe("solveHydroShock: @functools.lru_cache decorator",
      "    def solveHydroShock(self, vw: float, vp: float, Tp: float) -> float:",
      "    @functools.lru_cache(maxsize=None)\n    def solveHydroShock(self, vw: float, vp: float, Tp: float) -> float:")
probe("efficiencyFactor: kappaSW clipped after the quadrature",
      "        # If hybrid or detonation, computes the rarefaction wave contribution\n",
      "        kappaSW = min(kappaSW, 0.5)\n        # If hybrid or detonation, computes the rarefaction wave contribution\n")
probe("efficiencyFactor: shock.direction = -1",
      "            shock.terminal = True\n            xi0T0 = [vw, Tp]\n            vpcent = boostVelocity(vw, vp)\n            if shock(vpcent, xi0T0) < 0 and vw != vp:",
      "            shock.terminal = True\n            shock.direction = -1\n            xi0T0 = [vw, Tp]\n            vpcent = boostVelocity(vw, vp)\n            if shock(vpcent, xi0T0) < 0 and vw != vp:")
probe("efficiencyFactor: simpson(..., axis=0) extra keyword",
      "                    x=xi\n                ) / (vw**3*self.thermodynamics.wHighT(self.Tnucl)*self.template.alN)\n\n        # If hybrid",
      "                    x=xi, axis=0\n                ) / (vw**3*self.thermodynamics.wHighT(self.Tnucl)*self.template.alN)\n\n        # If hybrid")
probe("matchDeton: Tp overwritten inside a nested if (second store)",
      "        if vp == 1:\n            vm = 1\n",
      "        if vp == 1:\n            vm = 1\n            Tp = Tm\n")
probe("findMatching: result post-processed before the final return",
      "        return (vp, vm, Tp, Tm)\n\n    def findHydroBoundaries(",
      "        Tp = max(Tp, self.Tnucl)\n        return (vp, vm, Tp, Tm)\n\n    def findHydroBoundaries(")
