"""C01 demo 2: "an unsuccessful run is always labelled as an error" / "the wall widths returned are
those of the converged solution".  Run with PYTHONPATH=<tree>/src.  Exit 0 = holds, 1 = broken.

configEOM.wallThicknessBounds = [0.1, 7.0] (units 1/Tn; a documented setting) on the one-field quartic
model, Tn = 83, equilibrium mode.  The unconstrained wall is 8.75/Tn thick, so the solver runs into
the upper bound.  A run whose returned width sits ON the configured bound is not a solution of the
equation of motion (the action is not stationary in the width) and must be labelled ERROR.  As a
cross-check the pressure is re-evaluated at the reported velocity with the default (wide) bounds."""
import logging, math, sys
import numpy as np
import WallGo
from WallGo import EffectivePotential, Fields, GenericModel
from WallGo.containers import WallParams

P = dict(D=0.2, E=0.05, lam=0.1, T0=80.0, g=100.0)
TN, ERRTOL, BOUNDS = 83.0, 1e-3, [0.1, 7.0]


class QPot(EffectivePotential):
    fieldCount = 1
    effectivePotentialError = 1e-15

    def evaluate(self, fields, temperature):
        phi = Fields(fields).getField(0)
        T = np.asarray(temperature)
        return (P["D"] * (T**2 - P["T0"]**2) * phi**2 - P["E"] * T * phi**3
                + P["lam"] / 4 * phi**4 - P["g"] * math.pi**2 / 90 * T**4)


class QModel(GenericModel):
    def __init__(self):
        self.potential = QPot()

    @property
    def fieldCount(self):
        return 1

    def getEffectivePotential(self):
        return self.potential


def manager(bounds):
    m = WallGo.WallGoManager()
    m.setVerbosity(logging.ERROR)
    m.config.configGrid.spatialGridSize = 20
    m.config.configEOM.errTol = ERRTOL
    if bounds is not None:
        m.config.configEOM.wallThicknessBounds = list(bounds)
    m.registerModel(QModel())
    disc = 9 * P["E"]**2 * TN**2 - 8 * P["lam"] * P["D"] * (TN**2 - P["T0"]**2)
    phiB = (3 * P["E"] * TN + math.sqrt(disc)) / (2 * P["lam"])
    m.setupThermodynamicsHydrodynamics(
        WallGo.PhaseInfo(temperature=TN, phaseLocation1=Fields([0.0]), phaseLocation2=Fields([phiB])),
        WallGo.VeffDerivativeSettings(temperatureVariationScale=2.0, fieldValueVariationScale=[50.0]))
    return m


S = WallGo.WallSolverSettings(bIncludeOffEquilibrium=False, meanFreePathScale=50.0, wallThicknessGuess=5.0)
res = manager(BOUNDS).solveWall(S)
w = float(res.wallWidths[0])
print("solveWall with wallThicknessBounds=%s: success=%s type=%s vw=%r" % (
    BOUNDS, res.success, res.solutionType.name, res.wallVelocity))
print("  message:", res.message[:110])
print("  returned width * Tn = %.15g   (upper bound %.15g; |difference| = %.3g)" % (
    w * TN, BOUNDS[1], abs(w * TN - BOUNDS[1])))
pinned = abs(w * TN - BOUNDS[1]) < 1e-9 * BOUNDS[1] or abs(w * TN - BOUNDS[0]) < 1e-9 * BOUNDS[0]
ok = not (res.success and pinned)
if res.success and res.wallVelocity is not None:
    vw = float(res.wallVelocity)
    ps = []
    for k in (-2, 2):
        eom = manager(None).setupWallSolver(S).eom      # default bounds [0.1, 100]
        eom.maxIterations = 50
        g = WallParams(widths=np.array(res.wallWidths, dtype=float).copy(),
                       offsets=np.array(res.wallOffsets, dtype=float).copy())
        t = eom.wallPressure(vw + k * ERRTOL, g, atol=1e-10, rtol=1e-6)
        ps.append((float(t[0]), float(t[1].widths[0]) * TN))
    print("  unconstrained pressure at vw -+ 2 errTol: %.6g (width*Tn %.4f) / %.6g (width*Tn %.4f)" % (
        ps[0][0], ps[0][1], ps[1][0], ps[1][1]))
    if not ps[0][0] < 0 < ps[1][0]:
        ok = False
print("PROPERTY HOLDS" if ok else "PROPERTY BROKEN: success reported for a wall whose width is pinned at the "
      "configured bound (not a solution of the equation of motion)")
sys.exit(0 if ok else 1)
