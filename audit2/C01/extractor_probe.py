import sys
sys.path.insert(0, "/verif/tools")
import gen_eom_facts as g
eom = open("/tmp/wt2/C01/src/WallGo/equationOfMotion.py").read()
mgr = open("/tmp/wt2/C01/src/WallGo/manager.py").read()
def tryit(name, e, m, keys=()):
    try:
        text, info = g.generate(e, m)
        f = info["facts"]; mm = info["manager"]
        print(name, "-> extractor OK;", {k: (f.get(k) if k in f else mm.get(k)) for k in keys})
        return text
    except g.TranslateError as ex:
        print(name, "-> TranslateError:", str(ex)[:120])
base = tryit("baseline", eom, mgr, ("attr_stores",))
# 1. side channel through an assignment statement in solveWall
a = "        # return collected results\n        return results\n"
assert eom.count(a) == 1
t = tryit("assign-call side channel", eom.replace(a, "        _ = self._finalise(results)\n" + a), mgr, ("attr_stores",))
print("   generated facts identical to baseline:", t == base)
# 2. side channel in an if test
t = tryit("if-test call side channel", eom.replace(a, "        if self._finalise(results):\n            pass\n" + a), mgr, ("attr_stores",))
print("   generated facts identical to baseline:", t == base)
# 3. stores in manager.solveWallDetonation (patch1) 
b = "        solver: WallSolver = self.setupWallSolver(wallSolverSettings)\n        assert solver.initialWallThickness\n"
assert mgr.count(b) == 1
t = tryit("config store in solveWallDetonation", eom, mgr.replace(b, "        self.config.configEOM.maxIterations = 40\n" + b + "        solver.eom.pressRelErrTol = 0.5\n"), ("setup_stores", "local_stores"))
print("   generated facts identical to baseline:", t == base)
# 4. store on the fresh EOM of a non-protected attribute inside setupWallSolver
c = "        eom.includeOffEq = wallSolverSettings.bIncludeOffEquilibrium\n"
assert mgr.count(c) == 1
t = tryit("eom.nbrFields / forceImproveConvergence store in setupWallSolver", eom, mgr.replace(c, c + "        eom.forceImproveConvergence = True\n        eom.nbrFields = 1\n"), ("local_stores",))
