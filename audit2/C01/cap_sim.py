import sys, random, logging
sys.path.insert(0, "/verif/tools"); 
import importlib.util
spec = importlib.util.spec_from_file_location("c01", "/verif/tools/props/C01.py"); c01 = importlib.util.module_from_spec(spec); spec.loader.exec_module(c01)
from fractions import Fraction
scen = ["root", "runaway", "doubling", "positive", "multi", "zero_end", "nonconv", "degenerate"]
dscen = ["root", "runaway", "positive", "posneg", "multi", "late"]
dist = {}
bad = []
seeds = [str(s) for s in range(1, 101)] + ["0"]
for seed in seeds:
    rng = random.Random("%s:C01" % seed)
    for i in range(260):
        c01.gen_case(rng, scenario=scen[i] if i < len(scen) else None)
    hits = 1  # witness
    for i in range(60):
        case = c01.gen_deton_case(rng, scenario=dscen[i] if i < len(dscen) else None)
        out = c01.run_deton(case)
        if out["raised"] and "ZeroDivisionError" in out["raised"]:
            scan0 = [e for e in out["log"] if e["atol"] == 0.0]
            zero = [e["v"] for e in scan0 if c01.find_seg(case["segs"], Fraction(e["v"])).p(Fraction(e["v"])) == 0]
            if zero: hits += 1
    dist[hits] = dist.get(hits, 0) + 1
    if hits > 2: bad.append((seed, hits))
print("hits distribution over", len(seeds), "seeds:", sorted(dist.items()))
print("seeds exceeding the quick cap of 2:", bad)
