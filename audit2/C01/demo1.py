"""C01 demo 1: "interleaving other solver calls on the same manager returns the identical result".
Run with PYTHONPATH=<tree>/src.  Exit 0 = property holds, 1 = broken.

One manager, user setting configEOM.maxIterations = 3 (equilibrium mode, one-field quartic model):
  r1 = solveWall(S); solveWallDetonation(S); r2 = solveWall(S); rf = solveWall(S) on a FRESH manager.
All three must be the same result, and the user's configuration must be what the user set."""
import json, logging, math, sys
import numpy as np
import WallGo
from WallGo import EffectivePotential, Fields, GenericModel

P = dict(D=0.2, E=0.05, lam=0.1, T0=80.0, g=100.0)
TN, MAXIT, ERRTOL = 83.0, 3, 1e-3


class QPot(EffectivePotential):
    fieldCount = 1
    effectivePotentialError = 1e-15

    def evaluate(self, fields, temperature):
        phi = Fields(fields).getField(0)
        T = np.asarray(temperature)
        return (P["D"] * (T**2 - P["T0"]**2) * phi**2 - P["E"] * T * phi**3
                + P["lam"] / 4 * phi**4 - P["g"] * math.pi**2 / 90 * T**4)


class QModel(GenericModel):
    def __init__(self):
        self.potential = QPot()

    @property
    def fieldCount(self):
        return 1

    def getEffectivePotential(self):
        return self.potential


def manager():
    m = WallGo.WallGoManager()
    m.setVerbosity(logging.ERROR)
    m.config.configGrid.spatialGridSize = 20
    m.config.configEOM.errTol = ERRTOL
    m.config.configEOM.maxIterations = MAXIT
    m.registerModel(QModel())
    disc = 9 * P["E"]**2 * TN**2 - 8 * P["lam"] * P["D"] * (TN**2 - P["T0"]**2)
    phiB = (3 * P["E"] * TN + math.sqrt(disc)) / (2 * P["lam"])
    m.setupThermodynamicsHydrodynamics(
        WallGo.PhaseInfo(temperature=TN, phaseLocation1=Fields([0.0]), phaseLocation2=Fields([phiB])),
        WallGo.VeffDerivativeSettings(temperatureVariationScale=2.0, fieldValueVariationScale=[50.0]))
    return m


def summ(r):
    return dict(success=bool(r.success), type=r.solutionType.name, vw=r.wallVelocity,
                Tplus=float(r.temperaturePlus), widths=[float(x) for x in r.wallWidths],
                message=r.message[:60])


S = WallGo.WallSolverSettings(bIncludeOffEquilibrium=False, meanFreePathScale=50.0, wallThicknessGuess=5.0)
m = manager()
r1 = summ(m.solveWall(S))
det = m.solveWallDetonation(S)
r2 = summ(m.solveWall(S))
rf = summ(manager().solveWall(S))
print("first solveWall          :", r1)
print("solveWallDetonation      :", [(d.success, d.solutionType.name, d.wallVelocity) for d in det])
print("solveWall after it       :", r2)
print("fresh manager, same setup:", rf)
print("configEOM.maxIterations now:", m.config.configEOM.maxIterations, "(user set %d)" % MAXIT)
same = lambda a, b: json.dumps(a, sort_keys=True) == json.dumps(b, sort_keys=True)
ok = same(r1, r2) and same(r1, rf) and m.config.configEOM.maxIterations == MAXIT
print("PROPERTY HOLDS" if ok else "PROPERTY BROKEN: the result of solveWall depends on whether "
      "solveWallDetonation was called before")
sys.exit(0 if ok else 1)
