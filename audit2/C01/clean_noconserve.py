import sys, time, logging
import numpy as np
sys.path.insert(0, "/verif/tools")
import importlib.util
spec = importlib.util.spec_from_file_location("c01", "/verif/tools/props/C01.py"); c01 = importlib.util.module_from_spec(spec); spec.loader.exec_module(c01)
from WallGo.containers import WallParams
A = c01.POINT_A; errTol = 1e-4
def mgr():
    m, model = c01.new_manager(A, errTol, 20)
    m.config.configEOM.conserveEnergyMomentum = False
    c01.set_point(m, model, A, c01.TN)
    return m
m = mgr(); S = c01.settings()
r, calls = c01.recorded_solve(m, S)
print("result", c01.summary(r))
for c in calls: print("  call v=%.6f atol=%.3g guess=%s -> P=%.6g widths_out=%s ok=%s" % (c["v"], c["atol"], c["guess"][0], c["pressure"], c["out"][0], c["pressOk"]))
vw = r.wallVelocity; last = calls[-1]
def fresh(): 
    e = mgr().setupWallSolver(S).eom; return e
mk = lambda g: WallParams(widths=np.array(g[0], dtype=float), offsets=np.array(g[1], dtype=float))
e = fresh(); print("re-eval last call on fresh EOM:", float(e.wallPressure(vw, mk(last["guess"]), atol=last["atol"])[0]), "solver saw", last["pressure"])
for k in (-2, 2):
    e = fresh(); print("solver's guess, k=%d:" % k, float(e.wallPressure(vw + k*errTol, mk(last["guess"]), atol=last["atol"])[0]))
for k in (-2, 2):
    e = fresh(); e.maxIterations = 50
    print("returned params, k=%d:" % k, float(e.wallPressure(vw + k*errTol, mk((list(r.wallWidths), list(r.wallOffsets))), atol=1e-10, rtol=1e-6)[0]), e.successWallPressure)
for w in (0.03, 0.06, 0.0602, 0.08, 0.105, 0.15):
    e = fresh(); e.maxIterations = 50
    t = e.wallPressure(vw, mk(([w],[0.0])), atol=1e-10, rtol=1e-6)
    print("guess width %.4f: P(vw)=%.6g widths_out=%s ok=%s" % (w, float(t[0]), [float(x) for x in t[1].widths], e.successWallPressure))
