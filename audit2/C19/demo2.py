"""C19 audit2 demo 2: `Results have the shape of the input (plus the gradient/Hessian axes)`
at the EffectivePotential entry points (observe_at: derivT / derivField / deriv2Field2 /
allSecondDerivatives).

Run as  PYTHONPATH=<tree>/src python demo2.py .  Exit 0 = property holds, 1 = broken.

For every kind of (fields, temperature) input the result must have the lead shape of the
input: a scalar temperature with one FieldPoint gives a 0-d dV/dT, (nf,) gradient, (nf, nf)
Hessian; N points with N temperatures give (N,), (N, nf), (N, nf, nf).  Values are compared
with the exact derivatives of the polynomial as well.
"""
import sys
import warnings

import numpy as np

import WallGo
from WallGo import Fields, EffectivePotential
from WallGo.fields import FieldPoint

warnings.simplefilter("ignore")


class Poly(EffectivePotential):
    fieldCount = 2
    effectivePotentialError = 1e-15

    def evaluate(self, fields, temperature):
        f = np.asarray(fields)
        T = np.asarray(temperature, dtype=float)
        a, b = f[..., 0], f[..., 1]
        return a ** 2 * T + b ** 3 + a * b * T ** 2


def exact(a, b, T):
    return dict(derivT=a ** 2 + 2 * a * b * T,
                derivField=[2 * a * T + b * T ** 2, 3 * b ** 2 + a * T ** 2],
                deriv2FieldT=[2 * a + 2 * b * T, 2 * a * T],
                deriv2Field2=[[2 * T, T ** 2], [T ** 2, 6 * b]])


pot = Poly()
pot.configureDerivatives(WallGo.VeffDerivativeSettings(1.0, [1.0, 1.0]))
tail = dict(derivT=(), derivField=(2,), deriv2FieldT=(2,), deriv2Field2=(2, 2))
inputs = [("FieldPoint, scalar T", FieldPoint(np.array([1.0, 2.0])), 1.5, ()),
          ("FieldPoint, 0-d array T", FieldPoint(np.array([1.0, 2.0])), np.array(1.5), ()),
          ("1 point, T of shape (1,)", Fields([1.0, 2.0]), np.array([1.5]), (1,)),
          ("3 points, T of shape (3,)", Fields([1.0, 2.0], [0.5, -1.0], [2.0, 2.0]),
           np.array([1.5, 0.7, 2.0]), (3,))]
bad = 0
for label, F, T, lead in inputs:
    pts = np.atleast_2d(np.asarray(F))
    Ts = np.broadcast_to(np.asarray(T, dtype=float), (len(pts),))
    for name in ("derivT", "derivField", "deriv2FieldT", "deriv2Field2"):
        got = np.asarray(getattr(pot, name)(F, T))
        want = np.array([exact(p[0], p[1], t)[name] for p, t in zip(pts, Ts)]
                        ).reshape(lead + tail[name])
        ok_shape = got.shape == want.shape
        ok_val = got.size == want.size and np.allclose(got.ravel(), want.ravel(),
                                                        rtol=1e-6, atol=1e-6)
        if not (ok_shape and ok_val):
            bad += 1
            print("%-28s %-13s shape %s, expected %s%s" % (
                label, name, got.shape, want.shape, "" if ok_val else "  VALUES WRONG"))
    h, g, tt = pot.allSecondDerivatives(F, T)
    for nm, arr, tl in (("hess", h, (2, 2)), ("dgraddT", g, (2,)), ("d2VdT2", tt, ())):
        if np.shape(arr) != lead + tl:
            bad += 1
            print("%-28s allSecond.%-8s shape %s, expected %s" % (label, nm, np.shape(arr),
                                                                  lead + tl))
print("PROPERTY BROKEN (%d results with the wrong shape)" % bad if bad else "property holds")
sys.exit(1 if bad else 0)
