"""Margin probe for the tolerances of tools/props/C19.py (audit2): every tolerance literal is
multiplied by S; a failing input at S=0.3 means a recorded margin above 0.3 on the clean tree."""
import sys, re, random, types
sys.path.insert(0, "/verif/tools")
S = float(sys.argv[1]); seed = int(sys.argv[2])
src = open("/verif/tools/props/C19.py").read()
rep = [
 ("tol = Fraction(1, 10 ** 9) * mag * 64 + Fraction(1, 10 ** 300)", "tol = Fraction(SS) * (Fraction(1, 10 ** 9) * mag * 64) + Fraction(1, 10 ** 300)"),
 ("return 2e-13 * size(point) / den + 1e-9 * abs(want)", "return SS * (2e-13 * size(point) / den + 1e-9 * abs(want))"),
 ("> Fraction(64, 10 ** 9) * mag", "> Fraction(SS) * Fraction(64, 10 ** 9) * mag"),
 ("> 1e-12 * mag + 1e-9 * abs(", "> SS * 1e-12 * mag + SS * 1e-9 * abs("),
 ('tl = 1e-6 if name in ("derivT", "derivField") else 2e-4', 'tl = SS * (1e-6 if name in ("derivT", "derivField") else 2e-4)'),
 ("tol = 1e-6\n", "tol = SS * 1e-6\n"),
 ('("derivField", got_g, g, 1e-7)', '("derivField", got_g, g, SS * 1e-7)'),
 ('np.ravel(H), 1e-4)', 'np.ravel(H), SS * 1e-4)'),
 ('got_gt, gt, 1e-4)', 'got_gt, gt, SS * 1e-4)'),
]
for a, b in rep:
    assert a in src, a
    src = src.replace(a, b)
m = types.ModuleType("C19m"); m.SS = S
exec(compile(src, "C19m", "exec"), m.__dict__)
class Ctx:
    def __init__(s): s.rng = random.Random(seed); s.fails = {}; s.cov = {}; s.assumptions = []
    def n(s, q, t): return q
    def count(s, *a, **k): pass
    def sample(s, *a): pass
    def log(s, *a): pass
    def fail_input(s, what, rep, key=None):
        s.fails.setdefault(key, []).append(what)
ctx = Ctx()
def one(case):
    try:
        res, pts, f = m.run_impl(case)
    except Exception as e:
        ctx.fail_input("raise %r" % e, {}, key="raises"); return
    m.check_direct(ctx, case, res, pts, f)
for i in range(300): one(m.gen_case(ctx.rng, dyadic=True))
for i in range(120): one(m.gen_case(ctx.rng, dyadic=True, narrow=True))
for i in range(1500): one(m.gen_case(ctx.rng, dyadic=False))
for i in range(250): one(m.gen_case(ctx.rng, dyadic=False, narrow=True))
for i in range(300): one(m.gen_case(ctx.rng, dyadic=False, critical=True))
m.array_family(ctx, ctx.rng, 40); m.misc_inputs(ctx, ctx.rng, 40); m.step_limits(ctx, ctx.rng, 40)
m.shape_values(ctx, ctx.rng, 40); m.grad_hess_points(ctx, ctx.rng, 40)
m.potential_level(ctx, ctx.rng, 60); m.potential_history(ctx, ctx.rng, 12)
print("S=%g seed=%d" % (S, seed), {k: len(v) for k, v in ctx.fails.items()})
for k, v in ctx.fails.items():
    if k != "narrow-bounds": print("  ", k, v[0][:300])
