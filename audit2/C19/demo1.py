"""C19 audit2 demo 1: `never evaluate the function outside the stated bounds`.

Run as  PYTHONPATH=<tree>/src python demo1.py .  Exit 0 = property holds, 1 = broken.

A point a rounding error below the lower bound (T = -5e-11 with bounds (0, inf), what
EffectivePotential.derivT passes) must not make helpers.derivative call f below the bound.
The unchanged code refuses the call (AssertionError `must be inside bounds`); a relaxed
guard lets it through and the fully one-sided row [0,1,2,3] evaluates f AT x, i.e. at T < 0,
where a thermal potential (T**1.5, sqrt, log) is undefined: the result is nan.
"""
import sys
import warnings

import numpy as np

import WallGo
from WallGo import helpers, Fields, EffectivePotential

warnings.simplefilter("ignore")
bad = 0
seen = []


def f(T):
    T = np.asarray(T, dtype=float)
    seen.append(T.copy())
    return T ** 1.5 + 2.0 * T          # undefined (nan) for T < 0


for x, bounds in ((-5e-11, (0, np.inf)), (1.0 + 5e-11, (0.0, 1.0)),
                  (np.array([0.0, 0.3, -3e-11]), (0, np.inf))):
    seen.clear()
    try:
        r = helpers.derivative(f, x, n=1, order=4, bounds=bounds, dx=1e-3)
    except AssertionError as e:
        print("x=%r bounds=%r: refused (%s)" % (x, bounds, str(e)[:40]))
        continue
    lo = min(float(np.min(s)) for s in seen)
    hi = max(float(np.max(s)) for s in seen)
    out = lo < bounds[0] or hi > bounds[1]
    print("x=%r bounds=%r: result %r, f evaluated on [%r, %r]%s" % (
        x, bounds, r, lo, hi, "  <-- OUTSIDE the stated bounds" if out else ""))
    bad += out


class Thermal(EffectivePotential):
    fieldCount = 1
    effectivePotentialError = 1e-15
    minT = np.inf

    def evaluate(self, fields, temperature):
        T = np.asarray(temperature, dtype=float)
        Thermal.minT = min(Thermal.minT, float(np.min(T)))
        phi = np.asarray(fields)[..., 0]
        return -T ** 4 + phi ** 2 * T ** 1.5


pot = Thermal()
pot.configureDerivatives(WallGo.VeffDerivativeSettings(1.0, 1.0))
try:
    r = pot.derivT(Fields([1.0]), -5e-11)
    print("derivT(T=-5e-11) = %r, potential evaluated down to T=%r" % (r, Thermal.minT))
    bad += Thermal.minT < 0
except AssertionError:
    print("derivT(T=-5e-11): refused")
print("PROPERTY BROKEN" if bad else "property holds")
sys.exit(1 if bad else 0)
