import sys, random
sys.path.insert(0, "/verif/tools"); sys.path.insert(0, "/verif/tools/props")
from fractions import Fraction
import C19 as m
for seed in (11, 12, 13, 14):
    rng = random.Random(seed)
    tot = {}
    def cls(case, fam):
        b = case["bounds"]
        if b is None or b[0] is None or b[1] is None or case["dx"] <= 0: return
        x = Fraction(float(case["x"])); dxe = Fraction(float(float(x) + float(case["dx"]))) - x
        K = m.K_WIDE[(case["order"], case["n"])]
        if Fraction(float(b[1])) - Fraction(float(b[0])) < K * dxe:
            tot[fam] = tot.get(fam, 0) + 1
    for i in range(300): cls(m.gen_case(rng, dyadic=True), "dyadic")
    for i in range(120): cls(m.gen_case(rng, dyadic=True, narrow=True), "dyadic_narrow")
    for i in range(60): cls(m.gen_case(rng, dyadic=True, negdx=True, narrow=rng.random() < 0.3), "negdx")
    for i in range(1500): cls(m.gen_case(rng, dyadic=False), "float")
    for i in range(250): cls(m.gen_case(rng, dyadic=False, narrow=True), "float_narrow")
    for i in range(300): cls(m.gen_case(rng, dyadic=False, critical=True), "critical")
    print(seed, tot, "class total", sum(tot.values()) + 6)
