"""demo2 (C08, second audit): field space re-parametrised as fluctuations around the false
vacuum AT THE NUCLEATION TEMPERATURE, i.e. translated by minus the high-T phase at Tn (as
found by WallGo itself in the original coordinates: (0, 93.9795...)), potential and phase
guesses transformed consistently.  In the new coordinates the high-T phase is at the origin
at Tn and moves away from it as T changes (it is NOT a symmetric phase).
Clean tree: vw / T+- / widths unchanged, phases and profiles moved by the shift -> exit 0.
Changed tree: the high-T phase is reported at the origin for every T (its T+ location is off
by 2.5 field units), widths, vw and T+- change -> exit 1.

Run:  PYTHONPATH=<tree>/src:/verif/tools /venv/bin/python demo2.py
"""
import sys
import numpy as np
sys.path.insert(0, "/verif/tools")
sys.path.insert(0, "/verif/tools/props")
import C08 as H   # the harness' model builder and runner (xsm2, run_e2e)

base = H.run_e2e("xsm2")
SHIFT = tuple(-x for x in base["phaseHigh"])
print("original coordinates: vw=%.8f T-=%.5f T+=%.5f widths=%r\n   phaseHigh(Tn)=%r phaseHigh(T+)=%r"
      % (base["vw"], base["Tminus"], base["Tplus"], base["widths"], base["phaseHigh"],
         base["vevHighTp"]))
new = H.run_e2e("xsm2", (0, 1), (1, 1), SHIFT)
print("translated by %r:\n   vw=%.8f T-=%.5f T+=%.5f widths=%r\n   phaseHigh(Tn)=%r phaseHigh(T+)=%r"
      % (SHIFT, new["vw"], new["Tminus"], new["Tplus"], new["widths"], new["phaseHigh"],
         new["vevHighTp"]))
bad = []
if not new["success"]:
    bad.append("success=False")
if abs(new["vw"] - base["vw"]) > 2e-5:
    bad.append("vw %.8f vs %.8f" % (new["vw"], base["vw"]))
for k in ("Tplus", "Tminus"):
    if abs(new[k] / base[k] - 1) > 1e-5:
        bad.append("%s %.6f vs %.6f" % (k, new[k], base[k]))
for j in range(2):
    if abs(new["widths"][j] / base["widths"][j] - 1) > 5e-4:
        bad.append("width%d %.6g vs %.6g" % (j, new["widths"][j], base["widths"][j]))
    for k in ("phaseLow", "phaseHigh", "vevHighTp", "vevLowTm"):
        if abs(new[k][j] - (base[k][j] + SHIFT[j])) > 0.025:
            bad.append("%s[%d] %.6f, expected %.6f" % (k, j, new[k][j], base[k][j] + SHIFT[j]))
P0, P1 = np.array(base["profiles"]), np.array(new["profiles"])
if P0.shape != P1.shape or np.max(np.abs(P1 - (P0 + np.array(SHIFT)))) > 0.5:
    bad.append("fieldProfiles are not the translated ones (max diff %.3g)" % (
        np.max(np.abs(P1 - (P0 + np.array(SHIFT)))) if P0.shape == P1.shape else float("nan")))
if bad:
    print("PROPERTY BROKEN:\n  " + "\n  ".join(bad))
    sys.exit(1)
print("covariant within solver tolerance")
sys.exit(0)
