"""Probes of the site scan / translator of tools/gen_fields.py on MODIFIED SOURCE TEXT (nothing
is written to any checkout): which edits keep the tie (PASS = identical generated model, no
TranslateError) and which harmless edits break it.  Run: /venv/bin/python scan_probe.py"""
import sys
sys.path.insert(0, "/verif/tools")
import gen_fields, pyrx
R = "/repo/src/WallGo/"
def src(f): return open(R + f).read()
def run(mod):
    e = src("equationOfMotion.py"); f = src("fields.py"); o = {k: src(k) for k in gen_fields.SCAN_FILES}
    for fn, (a, b) in mod.items():
        t = e if fn == "equationOfMotion.py" else o[fn]
        assert t.count(a) == 1, (fn, a[:40], t.count(a))
        t = t.replace(a, b)
        if fn == "equationOfMotion.py": e = t
        o[fn] = t
    try:
        text, _ = gen_fields.generate(e, f, o); return "PASS (model sha %s)" % gen_fields._sha(text)
    except pyrx.TranslateError as ex: return "FAIL-CLOSED: " + str(ex)[:170]
ALLC = "        if np.allclose(phaseLocation1, phaseLocation2, rtol=1e-05, atol=1e-05):"
GRID = "        ## Update the grid\n        self._updateGrid(wallParams, velocityMid)\n"
print("clean:", run({}))
print("--- edits that single out the origin / an index and KEEP the tie")
print("1  np.linalg.norm(phaseLocation1 - guess) > np.linalg.norm(guess) in validatePhaseInput:", run({"manager.py": (ALLC,
    "        if np.linalg.norm(phaseLocation1 - phaseInput.phaseLocation1) > np.linalg.norm(phaseInput.phaseLocation1):\n            raise WallGoError('x')\n" + ALLC)}))
print("1b same written np.sqrt(np.sum(..**2)):", run({"manager.py": (ALLC,
    "        if np.sqrt(np.sum((phaseLocation1 - phaseInput.phaseLocation1)**2)) > 1:\n            raise WallGoError('x')\n" + ALLC)}))
print("2  np.all(np.abs(phase0) < 1.0) in tracePhase:", run({"freeEnergy.py": ("        tolAbsolute = rTol * max(*abs(phase0), T0)\n",
    "        tolAbsolute = rTol * max(*abs(phase0), T0)\n        if np.all(np.abs(phase0) < 1.0):\n            phase0 = phase0 * 0\n")}))
print("3  options={initial_simplex.., maxiter: 20} of scipy.optimize.minimize:", run({"equationOfMotion.py": ('            method="Nelder-Mead",\n            bounds=bounds,\n',
    '            method="Nelder-Mead",\n            bounds=bounds,\n            options={"initial_simplex": wallArray[None, :] * (1 + 0.3 * np.eye(wallArray.size + 1, wallArray.size, k=-1)), "maxiter": 20},\n')}))
print("6  vevs snapped through a module-level helper _denoise(v, T):", run({"equationOfMotion.py": ("        vevHighT = self.thermo.freeEnergyHigh(TplusEval).fieldsAtMinimum\n",
    "        vevHighT = self.thermo.freeEnergyHigh(TplusEval).fieldsAtMinimum\n        vevLowT, vevHighT = _denoise(vevLowT, self.thermo.Tnucl), _denoise(vevHighT, self.thermo.Tnucl)\n")}))
print("7  first-field test on a local alias in findPlasmaProfile:", run({"equationOfMotion.py": ("            T, vPlasma = self.findPlasmaProfilePoint(\n                index,",
    "            gradient = dPhidz.getFieldPoint(index)\n            if abs(gradient[0]) < 1e-12:\n                pass\n            T, vPlasma = self.findPlasmaProfilePoint(\n                index,")}))
print("8  threshold on a renamed vev in wallPressure:", run({"equationOfMotion.py": (GRID,
    "        brokenVev = vevLowT\n        if np.any(np.abs(brokenVev) < 1e-2 * self.thermo.Tnucl):\n            pass\n" + GRID)}))
print("--- harmless edits that BREAK the tie (exit 1, no-failing-input-found)")
print("h1 `if wallParams is None` guard:", run({"equationOfMotion.py": (GRID, "        if wallParams is None:\n            raise ValueError('wallParams missing')\n" + GRID)}))
print("h2 `assert vevLowT.shape == vevHighT.shape`:", run({"equationOfMotion.py": (GRID, "        assert vevLowT.shape == vevHighT.shape\n" + GRID)}))
print("h3 logging.debug of np.max(wallParams.widths):", run({"equationOfMotion.py": (GRID, "        logging.debug(f'{np.max(wallParams.widths)=}')\n" + GRID)}))
