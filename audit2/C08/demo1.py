"""demo1 (C08, second audit): translation of the origin of field space to the tree-level
Higgs vev, h = 195 + h' (shift (-195, 0)), with the potential and the phase guesses
transformed consistently.  The low-T guess (195, 0) becomes (0, 0), the low-T phase sits at
h' = -31.7.  Clean tree: same vw / T+- / widths as in the original coordinates, phases moved
by the shift -> exit 0.  Changed tree: setupThermodynamicsHydrodynamics raises
WallGoPhaseValidationError for the translated model only -> exit 1.

Run:  PYTHONPATH=<tree>/src:/verif/tools /venv/bin/python demo1.py
"""
import sys
import numpy as np
sys.path.insert(0, "/verif/tools")
sys.path.insert(0, "/verif/tools/props")
import C08 as H   # the harness' model builder and runner (xsm2, run_e2e)

SHIFT = (-195.0, 0.0)
base = H.run_e2e("xsm2")
print("original coordinates : vw=%.8f T-=%.5f T+=%.5f widths=%r phaseLow=%r phaseHigh=%r" % (
    base["vw"], base["Tminus"], base["Tplus"], base["widths"], base["phaseLow"],
    base["phaseHigh"]))
try:
    new = H.run_e2e("xsm2", (0, 1), (1, 1), SHIFT)
except Exception as ex:      # noqa: BLE001
    print("translated by %r     : RAISED %s: %s" % (SHIFT, type(ex).__name__, str(ex)[:300]))
    print("PROPERTY BROKEN: the translated model cannot be set up although the original can")
    sys.exit(1)
print("translated by %r: vw=%.8f T-=%.5f T+=%.5f widths=%r phaseLow=%r phaseHigh=%r" % (
    SHIFT, new["vw"], new["Tminus"], new["Tplus"], new["widths"], new["phaseLow"],
    new["phaseHigh"]))
bad = []
if abs(new["vw"] - base["vw"]) > 2e-5:
    bad.append("vw")
for k in ("Tplus", "Tminus"):
    if abs(new[k] / base[k] - 1) > 1e-5:
        bad.append(k)
for j in range(2):
    if abs(new["widths"][j] / base["widths"][j] - 1) > 5e-4:
        bad.append("width%d" % j)
    for k in ("phaseLow", "phaseHigh"):
        if abs(new[k][j] - (base[k][j] + SHIFT[j])) > 0.025:
            bad.append("%s[%d]" % (k, j))
if bad:
    print("PROPERTY BROKEN:", bad)
    sys.exit(1)
print("covariant within solver tolerance")
sys.exit(0)
