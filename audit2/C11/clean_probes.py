"""C11 audit2: behaviour of the UNCHANGED tree on inputs the generators do not produce, and the
two clean-tree alarms.  Run:
  cd /tmp/wt2/C11 && PYTHONPATH=/tmp/wt2/C11/src:/tmp/wt2/C11:/verif/tools:/verif/tools/props \
      /venv/bin/python -W ignore /verif/audit2/C11/clean_probes.py"""
import logging, json
logging.getLogger().setLevel(logging.CRITICAL)
import numpy as np
import C11 as H
from WallGo import Fields, Thermodynamics
from WallGo.freeEnergy import FreeEnergy


class Ctx:
    def __init__(self): self.cov, self.keys = {}, []
    def count(self, *a, **k): pass
    def log(self, *a): pass
    def fail_input(self, what, rec, key=None): self.keys.append(key); print("   [%s] %s" % (key, what[:230]))


Q = {"model": "quartic1", "D": 0.2, "E": 0.05, "lam": 0.1, "T0": 80.0, "g": 100.0, "unit": 1.0}
print("A. VERIF_SEED=14 exits 1 on the unchanged tree: two-field model, paranoid, hop to phase A")
c = Ctx(); H.run_trace_case(c, {"model": {"model": "twofield", "theta": 0.0, "unit": 1.0}, "phase": "B",
    "Tstart": 104.0, "TMin": 76.4, "TMax": 132.0, "dT": 0.48, "rTol": 1e-05, "paranoid": True}, "probe")
print("B. history family, 1 of 300 random cases: a hop of the RECORDED class in the first trace is"
      " re-labelled hop-after-history because direct evaluations follow")
c = Ctx(); H.run_history_case(c, {"model": {"model": "quartic1", "D": 0.3, "E": 0.03, "lam": 0.08,
    "T0": 60.0, "g": 100.0, "unit": 1.0}, "phase": "broken", "Tstart": 51.0,
    "ops": [["trace", 42.0, 67.30713202551664], ["eval", 30.0, 67.30713202551664, 500]],
    "dT": 0.36, "rTol": 1e-06, "paranoid": True})
print("C. start within ONE solver step of TMin: the one-node downward sweep is dropped"
      " (`if len(TList) > 1`), lower end flagged as a genuine disappearance")
m = H.build_model(Q); ph = m.phases["broken"]
for Tstart, fs in ((70.001, None), (70.5, 1.0)):
    fe = FreeEnergy(m.pot, Tstart, Fields(ph.loc(Tstart)))
    fe.tracePhase(70.0, 80.0, 0.5, rTol=1e-6, paranoid=True, phaseTracerFirstStep=fs)
    T = np.asarray(fe._interpolationPoints)
    print("   start %g firstStep %s: table [%.6g, %.6g], minPossibleTemperature=%r (phase exists down to 0)"
          % (Tstart, fs, T.min(), T.max(), fe.minPossibleTemperature))
    c = Ctx(); n, w = H.check_table(m, "broken", fe, dict(model=Q, phase="broken", Tstart=Tstart, TMin=70.0,
        TMax=80.0, dT=0.5, rTol=1e-6, paranoid=True), lambda k, what, e: print("   harness would say [%s]" % k))
print("D. phaseTracerFirstStep * dT longer than the distance to an end: ValueError from scipy")
fe = FreeEnergy(m.pot, 70.3, Fields(ph.loc(70.3)))
try:
    fe.tracePhase(70.0, 80.0, 0.5, rTol=1e-6, phaseTracerFirstStep=1.0); print("   ok")
except Exception as ex:
    print("   raised %r" % ex)
print("E. findCriticalTemperature on a fresh Thermodynamics (window [0, inf], what the harness never"
      " does: it pokes min/maxPossibleTemperature[0] first)")
for desc, Tn in ((Q, 83.0), ({"model": "twofield", "theta": 0.6, "unit": 1.0}, 95.0)):
    mm = H.build_model(desc); lo, hi = mm.phases[mm.low], mm.phases[mm.high]
    th = Thermodynamics(mm.pot, Tn, Fields(lo.loc(Tn)), Fields(hi.loc(Tn)))
    try:
        with H.time_limit(30):
            print("   Tc", th.findCriticalTemperature(0.5, 1e-6, True))
    except H.CaseTimeout:
        print("   %s: no return within 30 s of CPU time (upward sweep towards TMax = inf)" % desc["model"])
