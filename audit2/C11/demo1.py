"""C11 audit2 patch1: a start temperature at (or within 2 dT of) an end of the requested range.
Run: cd <tree> && PYTHONPATH=<tree>/src:<tree>:/verif/tools /venv/bin/python -W ignore demo1.py
Exit 0: every valid request is traced and covered; exit 1: a valid request is refused."""
import sys, logging
logging.getLogger().setLevel(logging.CRITICAL)
import numpy as np
import wgmodels
import WallGo
from WallGo import Fields
from WallGo.freeEnergy import FreeEnergy

pot = wgmodels.quartic1(D=0.2, E=0.05, lam=0.1, T0=80.0, g=100.0)
pot.configureDerivatives(WallGo.VeffDerivativeSettings(
    temperatureVariationScale=1.0, fieldValueVariationScale=10.0))
ex = wgmodels.quartic1_exact(**pot.params)
bad = 0
# broken phase: a genuine minimum for 0 < T < 86.3; every request below lies inside that range
for Tstart, TMin, TMax, dT in [(70.0, 70.0, 80.0, 0.5),    # start AT the lower end (boundary case
                               (80.0, 70.0, 80.0, 0.5),    #  of the harness) / at the upper end
                               (70.6, 70.0, 80.0, 0.5),    # start 1.2 dT above the lower end
                               (84.0, 60.0, 90.0, 1.0)]:   # upper spinodal 2.3 dT above the start
    fe = FreeEnergy(pot, Tstart, Fields([ex["phi_broken"](Tstart)]))
    try:
        fe.tracePhase(TMin, TMax, dT, rTol=1e-6, paranoid=True)
    except Exception as e:
        print("start %g, request [%g, %g], dT %g: REFUSED: %r" % (Tstart, TMin, TMax, dT, e))
        bad += 1
        continue
    T = np.asarray(fe._interpolationPoints)
    hi = min(TMax, ex["Tspin_broken"])
    ok = abs(T.min() - TMin) < 1e-9 and T.max() > hi - 2 * dT - 1.6
    print("start %g, request [%g, %g], dT %g: table [%.6g, %.6g], reported %r %r %s" % (
        Tstart, TMin, TMax, dT, T.min(), T.max(), fe.minPossibleTemperature,
        fe.maxPossibleTemperature, "ok" if ok else "NOT COVERED"))
    bad += 0 if ok else 1
sys.exit(1 if bad else 0)
