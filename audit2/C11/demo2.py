"""C11 audit2 patch2: one-field model, re-minimisation at each step, range far past the
first-order spinodal of the broken phase.  Exit 0: the table stops at the spinodal and the end is
flagged; exit 1: the table continues beyond it on another phase, end not flagged."""
import sys, logging
logging.getLogger().setLevel(logging.CRITICAL)
import numpy as np
import wgmodels
import WallGo
from WallGo import Fields
from WallGo.freeEnergy import FreeEnergy

bad = 0
for D, E, lam, T0, Tstart, dT, rTol in [(0.2, 0.05, 0.1, 80.0, 70.0, 0.5, 1e-6),
                                        (0.3, 0.03, 0.08, 60.0, 51.0, 0.36, 1e-8),
                                        (0.15, 0.05, 0.15, 100.0, 85.0, 1.0, 1e-5),
                                        (0.2, 0.03, 0.1, 80.0, 72.0, 0.32, 1e-6)]:
    pot = wgmodels.quartic1(D=D, E=E, lam=lam, T0=T0, g=100.0)
    pot.configureDerivatives(WallGo.VeffDerivativeSettings(
        temperatureVariationScale=1.0, fieldValueVariationScale=10.0))
    ex = wgmodels.quartic1_exact(**pot.params)
    T1 = ex["Tspin_broken"]
    fe = FreeEnergy(pot, Tstart, Fields([ex["phi_broken"](Tstart)]))
    fe.tracePhase(0.7 * T0, T1 + 0.3 * T0, dT, rTol=rTol, paranoid=True)
    T = np.asarray(fe._interpolationPoints)
    X = np.asarray(fe._interpolationValues)[:, 0]
    beyond = T > T1 * (1 + 1e-3)
    ok = (not beyond.any()) and fe.maxPossibleTemperature[1]
    print("D=%g E=%g lam=%g T0=%g: broken phase ends at %.4f; table to %.4f, %d nodes beyond "
          "(fields there %s), maxPossibleTemperature=%r %s" % (
              D, E, lam, T0, T1, T.max(), beyond.sum(),
              np.round(X[beyond][:2], 4).tolist(), fe.maxPossibleTemperature,
              "ok" if ok else "HOPPED / NOT FLAGGED"))
    bad += 0 if ok else 1
sys.exit(1 if bad else 0)
