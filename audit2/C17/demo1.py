"""C17 audit2 demo 1: after EOM.action() (the objective the wall solver minimises thousands of
times per pressure evaluation) the grid must still report, through getCompactificationDerivatives,
the derivative of its own map, and be the grid a constructor call with its scales gives.
Exit 0 when that holds, 1 otherwise.  Run with PYTHONPATH=<tree>/src."""
import sys
from types import SimpleNamespace

import numpy as np

from WallGo.containers import WallParams
from WallGo.equationOfMotion import EOM
from WallGo.fields import Fields
from WallGo.grid3Scales import Grid3Scales

M, N = 20, 11
# the shape WallGoManager.buildGrid makes (tails 5 L ... here 1.0, L = 0.1), then one re-map
grid = Grid3Scales(M, N, 1.0, 1.0, 0.1, 100.0, 0.5, 0.1)
eom = EOM.__new__(EOM)          # action() reads only these attributes
eom.grid = grid
eom.meanFreePathScale, eom.includeOffEq = 1.0, True
eom.particles = []
eom.thermo = SimpleNamespace(effectivePotential=SimpleNamespace(
    evaluate=lambda f, T: np.sum(np.asarray(f) ** 2 * (np.asarray(f) - 1.0) ** 2, axis=-1)
    - 1e-3 * np.sum(np.asarray(f), axis=-1)))
wp = WallParams(widths=np.array([0.1]), offsets=np.array([0.0]))
eom._updateGrid(wp, 0.5)        # what wallPressure does before every evaluation
vevLow, vevHigh = Fields([1.0]), Fields([0.0])
T = np.full(M - 1, 100.0)

a1 = eom.action(wp, vevLow, vevHigh, T, None)
a2 = eom.action(wp, vevLow, vevHigh, T, None)

chi, rz, rp = grid.getCompactCoordinates()
reported = grid.getCompactificationDerivatives()[0]
derivative = grid.compactificationDerivatives(chi, rz, rp)[0]
fresh = Grid3Scales(M, N, grid.tailLengthInside, grid.tailLengthOutside, grid.wallThickness,
                    grid.momentumFalloffT, grid.ratioPointsWall, grid.smoothing, grid.wallCenter)
e1 = float(np.max(np.abs(reported / derivative - 1)))
e2 = float(np.max(np.abs(reported / fresh.getCompactificationDerivatives()[0] - 1)))
print("action, evaluated twice on the same input: %r %r" % (a1, a2))
print("max rel. |reported Jacobian / d(xi)/d(chi) - 1| after two action() calls: %.3g" % e1)
print("max rel. difference from a newly constructed grid with the same scales: %.3g" % e2)
bad = e1 > 1e-12 or e2 > 1e-12 or abs(a1 - a2) > 1e-12 * abs(a1)
print("PROPERTY BROKEN" if bad else "ok")
sys.exit(1 if bad else 0)
