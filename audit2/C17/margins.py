"""measure how close the unchanged tree comes to the harness tolerances (seeds 11..14)"""
import sys, random, math
import numpy as np
sys.path.insert(0, "/verif/tools"); sys.path.insert(0, "/verif/tools/props")
import importlib.util
spec = importlib.util.spec_from_file_location("c17", "/verif/tools/props/C17.py")
H = importlib.util.module_from_spec(spec); spec.loader.exec_module(H)
worst = dict(fd=0, centre=0, slope=0, cache=0, nodes=0, mom_fd=0, mom_inv=0, getters=0)
arg = {}
def upd(k, v, a):
    if v > worst[k]:
        worst[k] = v; arg[k] = a
for seed in (11, 12, 13, 14):
    rng = random.Random(seed)
    for m in range(200):
        three = m % 4 != 3
        M, N = rng.choice([(6, 5), (8, 5), (11, 7), (20, 11), (40, 11), (50, 21)])
        sp = rng.choice(["Spectral", "Uniform"])
        if three:
            p = H.rand_g3(rng, dyadic=(m % 2 == 0)); g = H.mk_g3(p, M, N, sp)
        else:
            p = [H.dy(rng, 16, 31, -11, 3), H.dy(rng, 8, 31, -6, 3)]; g = H.mk_g1(*p, M, N, sp)
        chi = np.unique(np.concatenate([np.linspace(-0.999, 0.999, 201), g.chiValues]))
        inner = chi[np.abs(chi) <= 0.99]
        zf = lambda x: g.decompactify(x, np.zeros_like(x), np.zeros_like(x))[0]
        sx = 1 - np.abs(inner)
        if three:
            r = float(g.ratioPointsWall)
            sx = np.minimum(sx, np.sqrt(float(g.aIn) ** 2 + (inner + r) ** 2))
            sx = np.minimum(sx, np.sqrt(float(g.aOut) ** 2 + (inner - r) ** 2))
        h = 2e-2 * sx
        fd, fd2 = H.fd5(zf, inner, h), H.fd5(zf, inner, 2 * h)
        J = g.compactificationDerivatives(inner, 0 * inner, 0 * inner)[0]
        allow = 1e-4 * np.abs(J) + 4 * np.abs(fd - fd2)
        upd("fd", float(np.max(np.abs(fd - J) / allow)), (seed, m))
        scale = abs(float(getattr(g, "wallThickness", g.positionFalloff)))
        if three:
            scale += abs(g.tailLengthInside) + abs(g.tailLengthOutside) + abs(g.wallCenter)
        zc = float(g.decompactify(np.array(0.0), np.array(0.0), np.array(0.0))[0])
        want = float(g.wallCenter) if three else 0.0
        upd("centre", abs(zc - want) / (1e-12 * scale), (seed, m))
        if three:
            j0 = float(g.compactificationDerivatives(np.array(0.0), np.array(0.0), np.array(0.0))[0])
            w = g.wallThickness / g.ratioPointsWall
            upd("slope", abs(j0 - w) / (1e-9 * w), (seed, m))
        # momentum FD and inverse
        for idx, xs in ((1, np.linspace(-0.989, 0.989, 101)), (2, np.linspace(-0.989, 0.989, 101))):
            def f(x): a = [np.zeros_like(x)] * 3; a[idx] = x; return g.decompactify(*a)[idx]
            def fj(x): a = [np.zeros_like(x)] * 3; a[idx] = x; return g.compactificationDerivatives(*a)[idx]
            def fc(x): a = [np.zeros_like(x)] * 3; a[idx] = x; return g.compactify(*a)[idx]
            hh = 2e-2 * (1 - np.abs(xs))
            upd("mom_fd", float(np.max(np.abs(H.fd5(f, xs, hh) - fj(xs)) / np.abs(fj(xs))) / 1e-4), (seed, m, idx))
            xs2 = np.linspace(-0.999, 0.999, 101)
            upd("mom_inv", float(np.max(np.abs(fc(f(xs2)) - xs2)) / 1e-9), (seed, m, idx))
        # nodes formula (Uniform)
        if sp == "Uniform":
            want_ = (-1 + 2 * np.arange(1, M) / M, -1 + 2 * np.arange(1, N) / N, -1 + 2 * np.arange(0, N - 1) / (N - 1))
            for a, w_ in zip((g.chiValues, g.rzValues, g.rpValues), want_):
                upd("nodes", float(np.max(np.abs(a - w_)) / 1.6e-15), (seed, m))
print({k: round(v, 4) for k, v in worst.items()})
print(arg)
