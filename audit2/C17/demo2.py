"""C17 audit2 demo 2: a fast wall (gamma = 10, long inside tail as EOM._updateGrid sets it).
After the field profile has been evaluated on the grid (EOM.wallProfile(self.grid.xiValues, ...),
as EOM.action / the pressure evaluation do) the coordinates the grid reports must still be the
strictly increasing map of its compact nodes and equal those of a newly constructed grid.
Exit 0 when that holds, 1 otherwise.  Run with PYTHONPATH=<tree>/src."""
import sys

import numpy as np

from WallGo.containers import WallParams
from WallGo.equationOfMotion import EOM
from WallGo.fields import Fields
from WallGo.grid3Scales import Grid3Scales

M, N = 20, 11
grid = Grid3Scales(M, N, 10.0, 10.0, 0.1, 100.0, 0.5, 0.1)     # as buildGrid: mfp 10 = 100 L
eom = EOM.__new__(EOM)
eom.grid, eom.meanFreePathScale, eom.includeOffEq = grid, 10.0, True
wp = WallParams(widths=np.array([0.1]), offsets=np.array([0.0]))
eom._updateGrid(wp, 0.995)       # gamma ~ 10: inside tail 100 = 1000 wall widths
fields, dPhidz = eom.wallProfile(eom.grid.xiValues, Fields([1.0]), Fields([0.0]), wp)

xi = grid.getCoordinates()[0]
mapped = grid.decompactify(*grid.getCompactCoordinates())[0]
fresh = Grid3Scales(M, N, grid.tailLengthInside, grid.tailLengthOutside, grid.wallThickness,
                    grid.momentumFalloffT, grid.ratioPointsWall, grid.smoothing, grid.wallCenter)
e1 = float(np.max(np.abs(xi - mapped)))
e2 = float(np.max(np.abs(xi - fresh.getCoordinates()[0])))
inc = bool(np.all(np.diff(xi) > 0))
print("tails %.4g / %.4g, thickness %.3g" % (grid.tailLengthInside, grid.tailLengthOutside,
                                             grid.wallThickness))
print("reported xi[:3] =", xi[:3], " map of the nodes[:3] =", mapped[:3])
print("max |getCoordinates - decompactify(getCompactCoordinates)| = %.3g" % e1)
print("max difference from a newly constructed grid = %.3g ; strictly increasing: %s" % (e2, inc))
bad = e1 > 1e-9 or e2 > 1e-9 or not inc
print("PROPERTY BROKEN" if bad else "ok")
sys.exit(1 if bad else 0)
