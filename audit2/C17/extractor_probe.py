"""Probes of the recognisers added since the first audit (generator / fact extractor only; no Coq).
Run: PYTHONPATH=/verif/tools /venv/bin/python extractor_probe.py /tmp/wt2/C17/src/WallGo"""
import glob, os, sys
import gen_grid
from pyrx import TranslateError
src = sys.argv[1]
S = {os.path.basename(f): open(f).read() for f in glob.glob(os.path.join(src, "*.py"))}

def writes(mod):
    s = dict(S); s.update(mod)
    return gen_grid.foreign_grid_writes(s)

def gen(g1=None, g3=None):
    try:
        gen_grid.generate(g1 or S["grid.py"], g3 or S["grid3Scales.py"])
        return "ACCEPTED"
    except TranslateError as e:
        return "REJECTED: %s" % str(e)[:110]

def facts(mod):
    s = dict(S); s.update(mod)
    try:
        gen_grid.generate_facts(s)
        return "ACCEPTED"
    except (TranslateError, KeyError, SyntaxError) as e:
        return "REJECTED: %s" % str(e)[:110]

def rep(fname, old, new):
    assert S[fname].count(old) == 1, (fname, old)
    return {fname: S[fname].replace(old, new)}

print("unchanged tree: foreign writes", writes({}), "| generate", gen(), "| facts", facts({}))
print("\n--- slips of foreign_grid_writes (should be flagged, are not) ---")
E1 = "        dzdchi, _, _ = self.grid.getCompactificationDerivatives()\n        pressure = eomPoly.integrate(weight=-dzdchi)"
print("S1 alias from a getter + augmented assignment:",
      writes(rep("equationOfMotion.py", E1, "        dzdchi, _, _ = self.grid.getCompactificationDerivatives()\n        dzdchi *= -1\n        pressure = eomPoly.integrate(weight=dzdchi)")))
print("S2 alias of an attribute + element store:",
      writes(rep("equationOfMotion.py", E1, "        dzdchi = self.grid.dxidchi\n        dzdchi[0] = 0.0\n        pressure = eomPoly.integrate(weight=-dzdchi)")))
print("S3 function-style in-place np.copyto(self.grid.xiValues, ...):",
      writes(rep("equationOfMotion.py", E1, "        np.copyto(self.grid.xiValues, 0.0)\n" + E1)))
print("S4 positional out: np.negative(self.grid.dxidchi, self.grid.dxidchi):",
      writes(rep("equationOfMotion.py", E1, "        np.negative(self.grid.dxidchi, self.grid.dxidchi)\n" + E1)))
print("S5 class-level rebinding in another module, `Grid3Scales.getCoordinates = f` (name does not end in 'grid'):",
      writes({"__init__.py": S["__init__.py"] + "\nGrid3Scales.getCoordinates = lambda self, endpoints=False: None\n"}))
print("   ... whereas `Grid.getCoordinates = f`:",
      writes({"__init__.py": S["__init__.py"] + "\nGrid.getCoordinates = lambda self, endpoints=False: None\n"}))
print("S6 grid passed under another name: def f(mesh): mesh.wallCenter = 0:",
      writes({"helpers.py": S["helpers.py"] + "\ndef recenter(mesh):\n    mesh.wallCenter = 0.0\n"}))

print("\n--- slips of check_methods (unknown method of a grid class that changes the object) ---")
G = S["grid.py"]
tail = "\n    def %s(self):\n        %s\n"
for nm, body in (("zeroTails", "self.xiValues.fill(0.0)"),
                 ("flipJacobian", "np.negative(self.dxidchi, out=self.dxidchi)"),
                 ("wallFrame", "xi = self.getCoordinates()[0]\n        xi -= 1.0\n        return xi"),
                 ("resize", "Grid.__init__(self, self.M + 2, self.N, self.positionFalloff, self.momentumFalloffT)"),
                 ("store", "self.positionFalloff = 2.0")):
    print("M:%-13s %-70s %s" % (nm, body.replace("\n        ", "; "), gen(g1=G + tail % (nm, body))))

print("\n--- the spacing block may read modelled parameters (same_compact is a HYPOTHESIS of rescale_equals_new) ---")
g1 = G.replace('            "Uniform",\n        ]', '            "Uniform",\n            "Physical",\n        ]')
g1 = g1.replace("        self._cacheCoordinates()\n\n    def _cacheCoordinates",
                '        if self.spacing == "Physical":\n            self.chiValues = np.tanh(np.linspace(-3, 3, self.M - 1) / self.positionFalloff)\n'
                "        self._cacheCoordinates()\n\n    def _cacheCoordinates")
print("new spacing option whose chi nodes depend on positionFalloff (never recomputed by a rescale):", gen(g1=g1))

print("\n--- harmless edits rejected (false alarms, fail-closed) ---")
print("H1 getters return copies (the natural upstream fix of S1):",
      gen(g1=G.replace("        return self.dxidchi, self.dpzdrz, self.dppdrp",
                       "        return self.dxidchi.copy(), self.dpzdrz.copy(), self.dppdrp.copy()")))
print("H2 np.concatenate in a getter:",
      gen(g1=G.replace("np.array([np.inf] + list(self.dxidchi) + [np.inf])",
                       "np.concatenate(([np.inf], self.dxidchi, [np.inf]))")))
print("H3 `with np.errstate(...)` around _cacheCoordinates body:",
      gen(g1=G.replace("        (self.xiValues, self.pzValues, self.ppValues) = self.decompactify(\n            self.chiValues, self.rzValues, self.rpValues\n        )",
                       "        with np.errstate(over='ignore'):\n            (self.xiValues, self.pzValues, self.ppValues) = self.decompactify(\n                self.chiValues, self.rzValues, self.rpValues\n            )")))
print("H4 `assert wallThicknessGrid > 0` in EOM._updateGrid:",
      facts(rep("equationOfMotion.py", "        gammaWall = 1 / np.sqrt(1 - velocityMid**2)\n",
                "        assert wallThicknessGrid > 0\n        gammaWall = 1 / np.sqrt(1 - velocityMid**2)\n")))
print("H5 module-level helper function in grid3Scales.py:",
      gen(g3=S["grid3Scales.py"] + "\n\ndef _unused(x):\n    return x\n"))
