import sys, itertools, math
sys.path.insert(0, "/verif/tools")
import importlib.util
spec = importlib.util.spec_from_file_location("C09h", "/verif/tools/props/C09.py")
H = importlib.util.module_from_spec(spec); spec.loader.exec_module(H)
bad = 0; tot = 0
for muh2, lh, mus2, ls, a, TN in itertools.product([0.7,0.78,0.9],[0.1,0.13],[0.8,0.9],[0.8,1.0],[5.0,10.0],[1.0]):
    p = dict(muh2=muh2-0.35, lh=lh, mus2=mus2-0.25, ls=ls, lhs=1.2, ch=0.0, cs=0.0, a=a)
    m = H.Model("twofield", p, TN)
    lo, hi = m.ends()
    dV = m.V(lo, TN) - m.V(hi, TN)
    for case in [dict(branch="detonation", vw=v) for v in (0.75, 0.85)] + [dict(branch="deflagration", vw=0.4, Tplus=t, vplus=v) for t in (1.02,1.05) for v in (0.2,0.35)]:
        tot += 1
        r = H.driver_boundaries(m, lo, hi, case)
        if r is None:
            bad += 1; print("None:", p, case, "dV", dV)
print(tot, bad)
