import sys, random
sys.path.insert(0, "/verif/tools")
import importlib.util
spec = importlib.util.spec_from_file_location("C09h", "/verif/tools/props/C09.py")
H = importlib.util.module_from_spec(spec); spec.loader.exec_module(H)
class C:
    def __init__(self): self.f = []
    def fail_input(self, what, replay, key=None): self.f.append(key)
rng = random.Random("20260930:C09")
tier_M = [40, 41, 44, 48, 50, 55, 60, 70, 80, 100, 120, 140, 160, 200]
n = flagged = hidden1 = hidden10 = unres = 0
for k in range(200):
    case = H.gen_case(rng, tier_M)
    res = H.run_case(case)
    c = C(); H.judge(c, case, res)
    n += 1
    if c.f: flagged += 1
    else:
        if res["rel"] > 1e-2: hidden1 += 1
        if res["rel"] > 1e-1: hidden10 += 1
    unres += (not res.get("resolved", True))
print("inputs %d flagged %d; NOT flagged with |p/dV-1|>1%%: %d, >10%%: %d; unresolved %d" % (n, flagged, hidden1, hidden10, unres))
