import sys
sys.path.insert(0, "/verif/tools")
import gen_eom_profile as G, pyrx
src = open("/tmp/wt2/C09/src/WallGo/equationOfMotion.py").read()
def tryit(name, s):
    try:
        t, info = G.generate(s)
        print(name, "-> OK wall", info["result"]["wall"], "grid final", info["result"]["grid"], "quad", info["result"]["quad_grid"], "gridversions", sorted(info["grid_versions"]), "guards", [g["guard"] for g in info["guards"]])
    except RecursionError:
        print(name, "-> RecursionError (generator crash)")
    except pyrx.TranslateError as e:
        print(name, "-> TranslateError:", str(e)[:150])
anchor = "        dVdPhi = self.thermo.effectivePotential.derivField(fields, temperatureProfile)\n"
assert anchor in src
tryit("clean", src)
# fail-open candidates
tryit("alias grid remap", src.replace(anchor, anchor + "        g = self.grid\n        g.changePositionFalloffScale(g.tailLengthInside, g.tailLengthOutside, 2 * g.wallThickness, g.wallCenter)\n"))
tryit("getattr remap", src.replace(anchor, anchor + "        getattr(self, '_updateGrid')(wallParams, velocityMid)\n"))
tryit("module-level fn gets eom", src.replace(anchor, anchor + "        followWall(eom=self)\n"))
tryit("module-level fn gets self positional", src.replace(anchor, anchor + "        followWall(self)\n"))
tryit("inplace clip fields", src.replace(anchor, "        np.clip(fields, 0.0, None, out=fields)\n" + anchor))
tryit("inplace wallParams via fn", src.replace(anchor, anchor + "        clampWallParams(wallParams, bounds)\n"))
tryit("solver alias under other guard", src.replace("        if self.includeOffEq:\n            ## ---- Solve", "        solver = self.boltzmannSolver\n        if self.includeOffEq:\n            ## ---- Solve"))
tryit("br inplace under if particles", src.replace(anchor, "        if self.particles:\n            boltzmannResults.Deltas.Delta00.coefficients[:] = self.boltzmannSolver.getDeltas().Deltas.Delta00.coefficients\n" + anchor))
tryit("Delta00 reassigned under if", src.replace(anchor, "        if self.particles:\n            Delta00 = self.boltzmannSolver.getDeltas().Deltas.Delta00\n" + anchor))
tryit("temperature changed under if", src.replace(anchor, "        if self.forceEnergyConservation:\n            temperatureProfile = 0.5 * (temperatureProfile + self.thermo.Tnucl)\n" + anchor))
tryit("dVdPhi modified under if", src.replace(anchor, anchor + "        if self.forceEnergyConservation:\n            dVdPhi = dVdPhi * 1.1\n"))
tryit("dPhidz modified inplace", src.replace(anchor, anchor + "        dPhidz *= 1.1\n"))
tryit("dVdz inplace slice", src.replace("        # Create a Polynomial object to represent dVdz.", "        dVdz[0] = 0.0\n        # Create a Polynomial object to represent dVdz."))
# harmless
tryit("harmless alias Polynomial(dVdz, grid)", src.replace("eomPoly = Polynomial(dVdz, self.grid)", "grid = self.grid\n        eomPoly = Polynomial(dVdz, grid)"))
tryit("harmless xi local", src.replace("        fields, dPhidz = self.wallProfile(\n            self.grid.xiValues, vevLowT, vevHighT, wallParams\n        )", "        xi = self.grid.xiValues\n        fields, dPhidz = self.wallProfile(xi, vevLowT, vevHighT, wallParams)"))
tryit("harmless logging via self", src.replace(anchor, anchor + "        self._logStep(wallParams)\n"))
tryit("harmless np.sum positional axis", src.replace("dVdz = np.sum(np.array(dVfull * dPhidz), axis=1)", "dVdz = np.sum(dVfull * dPhidz, 1)"))
