import sys, random, json
sys.path.insert(0, "/verif/tools")
import importlib.util
spec = importlib.util.spec_from_file_location("C09h", "/verif/tools/props/C09.py")
H = importlib.util.module_from_spec(spec); spec.loader.exec_module(H)
rng = random.Random("probe")
tier_M = [40, 41, 44, 48, 50, 55, 60, 70, 80, 100]
worst = []
for k in range(400):
    case = H.gen_case(rng, tier_M)
    if case["offEq"]: continue
    try:
        res = H.run_case(case)
    except Exception as e:
        print("raise", e); continue
    if res.get("ref") is None: continue
    worst.append((res["rel"], res["intrinsic"], res["M"], case["kind"], case["widthsT"], case["offsets"], case["mode"], res["returned"], case["ratio"], case["smoothing"]))
worst.sort(key=lambda t: -t[0])
for w in worst[:12]: print(w)
print(len(worst), sum(1 for w in worst if w[1] > 1e-3))
