import sys, random, json
sys.path.insert(0, "/verif/tools")
import importlib.util
spec = importlib.util.spec_from_file_location("C09h", "/verif/tools/props/C09.py")
H = importlib.util.module_from_spec(spec); spec.loader.exec_module(H)
rng = random.Random("drv")
import WallGo.equationOfMotion as E
orig = E.EOM._getNextPressure
log = []
def wrapped(self, p1, wp1, *a, **k):
    out = orig(self, p1, wp1, *a, **k)
    log.append((float(p1), float(out[0]), [float(x) for x in out[1].widths], float(out[4])))
    return out
E.EOM._getNextPressure = wrapped
for k in range(14):
    case = H.gen_driver_case(rng)
    case["improve"] = True
    log.clear()
    try:
        outs = H.run_driver_case(case)
    except Exception as e:
        print("raise", repr(e)); continue
    TN = case["TN"]
    for o in outs:
        print(k, case["branch"], case["M"], "rel %.2e intrinsic %.2e resolved %s returned %s success %s" % (o["rel"], o["intrinsic"], o["resolved"], [[round(x,3) for x in r] for r in o["returned"]], o["success"]))
    print("   getNext calls:", len(log), [(round((b-a)/abs(a),14)) for a,b,_,_ in log])
