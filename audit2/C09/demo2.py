"""demo2 (audit2/C09): a freshly built EOM, ONE imposed two-field wall (widths 4/T and 7/T, offsets
0 and 0.8) in a uniform plasma (T = Tn, v = vMid), no out-of-equilibrium particles; the grid is
mapped to the wall by EOM._updateGrid exactly as EOM.wallPressure does.  Property C09: the pressure
equals V(low) - V(high).
Usage: PYTHONPATH=<tree>/src python demo2.py    exit 0 = property holds, 1 = broken."""
import sys
import math
import numpy as np
from WallGo.boltzmann import BoltzmannSolver
from WallGo.containers import BoltzmannDeltas, WallParams
from WallGo.effectivePotential import EffectivePotential, VeffDerivativeSettings
from WallGo.equationOfMotion import EOM
from WallGo.fields import Fields
from WallGo.grid3Scales import Grid3Scales
from WallGo.hydrodynamics import Hydrodynamics
from WallGo.polynomial import Polynomial
from WallGo.results import BoltzmannResults
from WallGo.thermodynamics import Thermodynamics

P = dict(muh2=0.78, lh=0.13, mus2=0.9, ls=1.0, lhs=1.2, ch=0.4, cs=0.25, a=10.0)


class Pot(EffectivePotential):
    fieldCount = 2
    effectivePotentialError = 1e-15

    def __init__(self, TN):
        self.TN = TN

    def evaluate(self, fields, temperature):
        f = Fields(fields)
        x, y = f.getField(0) / self.TN, f.getField(1) / self.TN
        t = np.asarray(temperature) / self.TN
        p = P
        return self.TN ** 4 * (0.5 * (-p["muh2"] + p["ch"] * t ** 2) * x ** 2 + 0.25 * p["lh"] * x ** 4
                               + 0.5 * (-p["mus2"] + p["cs"] * t ** 2) * y ** 2 + 0.25 * p["ls"] * y ** 4
                               + 0.25 * p["lhs"] * x ** 2 * y ** 2 - p["a"] * t ** 4)


def phases(TN):
    v = TN * math.sqrt((P["muh2"] - P["ch"]) / P["lh"])
    w = TN * math.sqrt((P["mus2"] - P["cs"]) / P["ls"])
    return [v, 0.0], [0.0, w]


def zero_results(grid, n=0):
    zp = Polynomial(np.zeros((n, grid.M - 1)), grid, direction=("Array", "z"),
                    basis=("Array", "Cardinal"))
    return BoltzmannResults(deltaF=np.zeros((n, grid.M - 1, grid.N - 1, grid.N - 1)),
                            Deltas=BoltzmannDeltas(Delta00=zp, Delta02=zp, Delta20=zp, Delta11=zp),
                            truncationError=0.0, linearizationCriterion1=np.zeros(n),
                            linearizationCriterion2=np.zeros(n))


def make_eom(TN, M, includeOffEq, mfpT=100.0):
    veff = Pot(TN)
    veff.configureDerivatives(VeffDerivativeSettings(temperatureVariationScale=0.1 * TN,
                                                     fieldValueVariationScale=[TN, TN]))
    grid = Grid3Scales(M, 5, 40.0 / TN, 40.0 / TN, 5.0 / TN, TN, 0.5, 0.1)

    class Solver(BoltzmannSolver):
        def __init__(self):  # pylint: disable=super-init-not-called
            self.grid = grid
            self.offEqParticles = []

        def setBackground(self, background):
            pass

        def getDeltas(self):
            return zero_results(grid)

    class Thermo(Thermodynamics):
        def __init__(self):  # pylint: disable=super-init-not-called
            self.effectivePotential = veff
            self.Tnucl = TN

    class Hydro(Hydrodynamics):
        def __init__(self):  # pylint: disable=super-init-not-called
            self.Tnucl = TN
            self.vJ = 0.95

    return EOM(Solver(), Thermo(), Hydro(), grid, 2, mfpT / TN, (0.1, 100.0), (-10.0, 10.0),
               includeOffEq=includeOffEq), veff


def pressure_imposed(eom, TN, widthsT, offsets, vMid):
    """pressure of an imposed wall in a uniform plasma (T = TN, v = vMid), grid mapped to the
    wall by EOM._updateGrid exactly as EOM.wallPressure does; returns (p, V(low)-V(high))"""
    lo, hi = phases(TN)
    n = eom.grid.M - 1
    wp = WallParams(widths=np.array(widthsT, dtype=float) / TN, offsets=np.array(offsets, dtype=float))
    eom._updateGrid(wp, vMid)
    p, _, _, _ = eom._intermediatePressureResults(
        wp, Fields(lo), Fields(hi), 0.0, 0.0, vMid, zero_results(eom.grid), TN, TN,
        temperatureProfileInput=TN * np.ones(n), velocityProfileInput=vMid * np.ones(n),
        multiplier=0.0)
    veff = eom.thermo.effectivePotential
    dV = float(veff.evaluate(Fields(lo), TN)[0] - veff.evaluate(Fields(hi), TN)[0])
    return float(p), dV


if __name__ == "__main__":
    TN, bad = 100.0, 0
    for M, offEq, v in ((60, False, 0.0), (100, True, 0.6), (160, True, 0.9)):
        eom, _ = make_eom(TN, M, offEq)
        p, dV = pressure_imposed(eom, TN, [4.0, 7.0], [0.0, 0.8], v)
        rel = abs(p - dV) / abs(dV)
        z0 = float(eom.grid.decompactify(np.array([0.0]), np.zeros(1), np.zeros(1))[0][0])
        print("M=%d includeOffEq=%s vMid=%g: p=%.6e dV=%.6e |p/dV-1|=%.2e   grid: z(chi=0)*T=%.2f, "
              "wallCenter*T=%.2f" % (M, offEq, v, p, dV, rel, z0 * TN, eom.grid.wallCenter * TN))
        bad += rel > 1e-3
    print("property C09", "BROKEN" if bad else "holds")
    sys.exit(1 if bad else 0)
