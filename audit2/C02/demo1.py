"""C02 audit2 demo 1: the boundary constants handed to the wall equations must be the fluxes of
the matching FOR THE REQUESTED wall velocity (the exact matching, when one exists).

Usage: demo1.py <checkout>   (exit 0 = property holds on these inputs, 1 = broken)
For hybrids just below the Jouguet velocity the demo computes the exact matching for the requested
vw itself (junction conditions via matchDeflagOrHyb + shock condition via solveHydroShock, own
bracketing) and compares c1, c2, T+, T- returned by findHydroBoundaries(vw) with it.
"""
import logging
import sys

logging.disable(logging.CRITICAL)
root = sys.argv[1] if len(sys.argv) > 1 else "/repo"
sys.path[:0] = [root + "/src", root]
import numpy as np                                        # noqa: E402
from scipy.optimize import brentq                          # noqa: E402
import WallGo                                              # noqa: E402
from WallGo.helpers import gammaSq                         # noqa: E402
from tests.test_Hydrodynamics import TestModel2Step, TestModelBag   # noqa: E402


def exact(h, vw):
    """exact hybrid/deflagration matching for vw: shooting in v+ with a fine own scan"""
    def f(vp):
        _, _, Tp, _ = h.matchDeflagOrHyb(vw, vp)
        return h.solveHydroShock(vw, vp, Tp) - h.Tnucl
    cs2 = float(h.thermodynamics.csqHighT(h.Tnucl))
    grid = np.linspace(0.3 * vw, min(vw, 1.02 * cs2 / vw), 60)
    vals = []
    for vp in grid:
        try:
            vals.append((vp, f(vp)))
        except Exception:
            pass
    for (a, fa), (b, fb) in zip(vals, vals[1:]):
        if fa * fb < 0:
            vp = brentq(f, a, b, xtol=1e-13, rtol=1e-12)
            return [float(x) for x in h.matchDeflagOrHyb(vw, vp)]
    return None


bad = 0
for name, th in (("TestModel2Step(0.2,0.1,0.4,0.9)", TestModel2Step(0.2, 0.1, 0.4, 0.9)),
                 ("TestModelBag(0.8,0.85)", TestModelBag(0.8, 0.85))):
    h = WallGo.Hydrodynamics(th, 10, 0.01, 1e-6, 1e-6)
    for d in (2e-4, 5e-4, 9e-4):
        vw = h.vJ - d
        c1, c2, Tp, Tm, vmid = (float(x) for x in h.findHydroBoundaries(vw))
        ex = exact(h, vw)
        if ex is None:
            print("no exact matching found for", name, vw)
            bad += 1
            continue
        vp, vm, Tpx, Tmx = ex
        e1 = float(th.wHighT(Tpx)) * gammaSq(vp) * vp
        e2 = float(th.wLowT(Tmx)) * gammaSq(vm) * vm
        m1 = float(th.wHighT(Tpx)) * gammaSq(vp) * vp ** 2 + float(th.pHighT(Tpx))
        assert abs(e1 - e2) < 1e-7 * e1                    # the demo's own matching conserves
        dev = max(abs(c1 + e1) / e1, abs(c2 - m1) / abs(m1), abs(Tp - Tpx) / Tpx,
                  abs(Tm - Tmx) / Tmx, abs(vmid + 0.5 * (vp + vm)) / abs(vmid))
        ok = dev < 2e-5
        print("%s vJ=%.9f vw=vJ-%g: c1=%.9g (-flux %.9g) c2=%.9g (flux %.9g) Tp=%.9g (exact "
              "%.9g) Tm=%.9g (exact %.9g) max rel dev %.2e %s" % (
                  name, h.vJ, d, c1, -e1, c2, m1, Tp, Tpx, Tm, Tmx, dev,
                  "ok" if ok else "BROKEN"))
        bad += not ok
print("RESULT:", "property holds" if not bad else "property BROKEN on %d inputs" % bad)
sys.exit(1 if bad else 0)
