"""C02 audit2 demo 2: slow walls (v+ of a few 1e-3).

(a) the matching returned by findMatching(vw) and the constants of findHydroBoundaries(vw) must
    conserve energy and momentum flux with the model's own equation of state (first clause);
(b) where an exact matching exists for the requested wall velocity it must be returned: the demo
    constructs one itself (junction conditions through matchDeflagOrHyb(vw, v+), shock condition
    through solveHydroShock, own bracket for v+ from vw/20), checks that it conserves both fluxes
    to 1e-7, and then expects findHydroBoundaries(vw) not to answer with zeros / None.

Usage: demo2.py <checkout>   (exit 0 = property holds on these inputs, 1 = broken)
"""
import logging
import sys

logging.disable(logging.CRITICAL)
root = sys.argv[1] if len(sys.argv) > 1 else "/repo"
sys.path[:0] = [root + "/src", root]
import numpy as np                                        # noqa: E402
from scipy.optimize import brentq                          # noqa: E402
import WallGo                                              # noqa: E402
from WallGo.helpers import gammaSq                         # noqa: E402
from tests.test_Hydrodynamics import TestModel2Step       # noqa: E402


def fluxes(th, vp, vm, Tp, Tm):
    wp, wm = float(th.wHighT(Tp)), float(th.wLowT(Tm))
    return (wp * gammaSq(vp) * vp, wm * gammaSq(vm) * vm,
            wp * gammaSq(vp) * vp ** 2 + float(th.pHighT(Tp)),
            wm * gammaSq(vm) * vm ** 2 + float(th.pLowT(Tm)))


def exact(h, vw):
    def f(vp):
        _, _, Tp, _ = h.matchDeflagOrHyb(vw, vp)
        return h.solveHydroShock(vw, vp, Tp) - h.Tnucl
    vals = []
    for vp in np.linspace(0.05 * vw, vw, 40):
        try:
            y = f(vp)
            if h.success and np.isfinite(y):
                vals.append((vp, y))
        except Exception:
            pass
    for (a, fa), (b, fb) in zip(vals, vals[1:]):
        if fa * fb < 0:
            vp = brentq(f, a, b, xtol=1e-14, rtol=1e-12)
            r = [float(x) for x in h.matchDeflagOrHyb(vw, vp)]
            return r if h.success else None
    return None


bad = 0
# (a) conservation of what is returned ------------------------------------------------------
th = TestModel2Step(0.288, 0.114, 0.339, 0.579)
h = WallGo.Hydrodynamics(th, 10, 0.01, 1e-6, 1e-6)
print("TestModel2Step(0.288,0.114,0.339,0.579), Hydrodynamics(.,10,0.01,1e-6,1e-6): vJ=%.6f "
      "vMin=%.6g" % (h.vJ, h.vMin))
for vw in (0.0055, 0.007, 0.009, 0.012):
    c1, c2, Tpb, Tmb, vmid = (float(x) for x in h.findHydroBoundaries(vw))
    vp, vm, Tp, Tm = (float(x) for x in h.findMatching(vw))
    e1, e2, m1, m2 = fluxes(th, vp, vm, Tp, Tm)
    re_, rm_ = abs(e1 - e2) / e1, abs(m1 - m2) / abs(m1)
    rc1, rc2 = abs(c1 + e2) / e1, abs(c2 - m2) / abs(m1)
    ok = max(re_, rm_, rc1, rc2) < 1e-5
    print("  vw=%g -> v+=%.6g v-=%.6g T+=%.7g T-=%.7g: energy flux %.9g | %.9g (rel %.1e), "
          "momentum flux %.9g | %.9g (rel %.1e), c1=%.9g c2=%.9g  %s" % (
              vw, vp, vm, Tp, Tm, e1, e2, re_, m1, m2, rm_, c1, c2, "ok" if ok else "BROKEN"))
    bad += not ok
# (b) an exact matching exists but nothing is returned -------------------------------------
for pars, vws in (((0.261, 0.148, 0.419, 0.73), (0.003, 0.0045)),
                  ((0.2, 0.1, 0.4, 0.9), (0.003,))):
    th = TestModel2Step(*pars)
    h = WallGo.Hydrodynamics(th, 10, 0.01, 1e-6, 1e-6)
    print("TestModel2Step%r: vJ=%.6f vMin=%.6g" % (pars, h.vJ, h.vMin))
    for vw in vws:
        ex = exact(h, vw)
        if ex is None:
            print("  vw=%g: the demo found no exact matching (not judged)" % vw)
            continue
        e1, e2, m1, m2 = fluxes(th, *ex)
        assert abs(e1 - e2) < 1e-7 * e1 and abs(m1 - m2) < 1e-7 * abs(m1), "demo's matching"
        hb = h.findHydroBoundaries(vw)
        none = hb[0] is None or all(float(x) == 0 for x in hb)
        print("  vw=%g: exact matching (v+,v-,T+,T-)=(%.6g, %.6g, %.8g, %.8g) exists, fluxes "
              "equal to %.0e; findHydroBoundaries -> %s  %s" % (
                  vw, ex[0], ex[1], ex[2], ex[3], abs(e1 - e2) / e1,
                  tuple(None if x is None else float("%.6g" % float(x)) for x in hb),
                  "BROKEN (no result)" if none else "ok"))
        bad += none
print("RESULT:", "property holds" if not bad else "property BROKEN on %d inputs" % bad)
sys.exit(1 if bad else 0)
