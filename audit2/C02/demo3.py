"""C02 audit2 demo 3: what the wall equations actually RECEIVE.

EOM.wallPressure(vw, ...) obtains c1, c2, T+, T-, vMid from Hydrodynamics and hands them to the
scalar/plasma equations (EOM._intermediatePressureResults -> findPlasmaProfile).  The demo runs
the real EOM.wallPressure up to that hand-over (an EOM instance without Boltzmann solver: the
constant attributes of EOM.__init__ are replayed, the potential is stubbed, the hand-over method
is intercepted) and checks clause 2 of the property on the values handed over:
    c1 = -w+ g+^2 v+ = -w- g-^2 v- ,  c2 = p+ + w+ g+^2 v+^2 = p- + w- g-^2 v-^2
with (v+, v-, T+, T-) a matching of the requested wall velocity, equation of state = the model's.

Usage: demo3.py <checkout>   (exit 0 = property holds on these inputs, 1 = broken)
"""
import ast
import inspect
import logging
import sys
import textwrap
import types

logging.disable(logging.CRITICAL)
root = sys.argv[1] if len(sys.argv) > 1 else "/repo"
sys.path[:0] = [root + "/src", root]
import numpy as np                                        # noqa: E402
import WallGo                                              # noqa: E402
from WallGo.helpers import gammaSq                         # noqa: E402
from WallGo.equationOfMotion import EOM                    # noqa: E402
from tests.test_Hydrodynamics import TestModel2Step, TestModelBag   # noqa: E402


class HandOver(Exception):
    pass


def make_eom(th, h):
    eom = object.__new__(EOM)
    # replay the constant attribute initialisations of EOM.__init__
    tree = ast.parse(textwrap.dedent(inspect.getsource(EOM.__init__)))
    for st in ast.walk(tree):
        tgt = val = None
        if isinstance(st, ast.Assign) and len(st.targets) == 1:
            tgt, val = st.targets[0], st.value
        elif isinstance(st, ast.AnnAssign) and st.value is not None:
            tgt, val = st.target, st.value
        if isinstance(tgt, ast.Attribute) and isinstance(val, ast.Constant):
            setattr(eom, tgt.attr, val.value)
    eom.hydrodynamics, eom.thermo, eom.particles = h, None, []
    eom.includeOffEq, eom.forceImproveConvergence = False, False
    eom.forceEnergyConservation, eom.pressRelErrTol, eom.nbrFields = True, 0.3679, 1
    eom.grid = WallGo.Grid3Scales(20, 11, 50.0, 50.0, 5.0, 100.0)
    phase = types.SimpleNamespace(
        interpolationRangeMax=lambda: np.inf, interpolationRangeMin=lambda: 0.0)
    fe = type("FE", (), {
        "interpolationRangeMax": staticmethod(lambda: np.inf),
        "interpolationRangeMin": staticmethod(lambda: 0.0),
        "__call__": lambda self, T: types.SimpleNamespace(fieldsAtMinimum=None)})
    eom.thermo = types.SimpleNamespace(freeEnergyLow=fe(), freeEnergyHigh=fe(),
                                       Tnucl=h.Tnucl)
    eom._updateGrid = lambda *a, **k: None

    def intercept(wallParams, vevLowT, vevHighT, c1, c2, velocityMid, boltzmannResults,
                  Tplus, Tminus, *a, **k):
        raise HandOver((float(c1), float(c2), float(Tplus), float(Tminus),
                        float(velocityMid)))
    eom._intermediatePressureResults = intercept
    return eom


def handed_over(eom, vw):
    wp = WallGo.WallParams(widths=np.array([5.0]), offsets=np.array([0.0]))
    try:
        eom.wallPressure(vw, wp)
    except HandOver as ho:
        return ho.args[0]
    raise RuntimeError("wallPressure did not reach the hand-over")


bad = 0
for name, th in (("TestModel2Step(0.2,0.1,0.4,0.9)", TestModel2Step(0.2, 0.1, 0.4, 0.9)),
                 ("TestModelBag(0.8,0.85)", TestModelBag(0.8, 0.85))):
    h = WallGo.Hydrodynamics(th, 10, 0.01, 1e-6, 1e-6)
    eom = make_eom(th, h)
    cb = float(np.sqrt(th.csqLowT(h.Tnucl)))
    print("%s: vMin=%.4g cb=%.6f vJ=%.6f" % (name, h.vMin, cb, h.vJ))
    for vw in (0.3, 0.45, cb - 0.004, cb + 0.004, 0.5 * (cb + h.vJ), 0.9):
        c1, c2, Tp, Tm, vmid = handed_over(eom, vw)
        vp, vm, Tpx, Tmx = (float(x) for x in h.findMatching(vw))    # matching of THIS vw
        # fluxes with the model's own equation of state, at the temperatures handed over
        wp_, wm_ = float(th.wHighT(Tp)), float(th.wLowT(Tm))
        eF, eB = wp_ * gammaSq(vp) * vp, wm_ * gammaSq(vm) * vm
        mF = wp_ * gammaSq(vp) * vp ** 2 + float(th.pHighT(Tp))
        mB = wm_ * gammaSq(vm) * vm ** 2 + float(th.pLowT(Tm))
        dev = max(abs(c1 + eF) / eF, abs(c1 + eB) / eF, abs(c2 - mF) / abs(mF),
                  abs(c2 - mB) / abs(mF), abs(Tp - Tpx) / Tpx, abs(Tm - Tmx) / Tmx)
        ok = dev < 2e-5
        print("  vw=%.6f handed over: c1=%.9g c2=%.9g T+=%.8g T-=%.8g | fluxes in front %.9g, "
              "%.9g behind %.9g, %.9g | max rel dev %.1e  %s" % (
                  vw, c1, c2, Tp, Tm, -eF, mF, -eB, mB, dev, "ok" if ok else "BROKEN"))
        bad += not ok
print("RESULT:", "property holds" if not bad else "property BROKEN on %d inputs" % bad)
sys.exit(1 if bad else 0)
