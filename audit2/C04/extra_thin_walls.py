"""Unchanged tree: findPlasmaProfile on walls thinner than the harness ever draws (its widths are
3-8/Tn, offsets +-0.3; the EOM's own bounds are 0.1-100/Tn, -10..10). NO moments. Uses the
harness' own run_profile (independent recomputation of T30/T33).
Run: WALLGO_REPO=/tmp/wt2/C04 PYTHONPATH=$WALLGO_REPO/src:$WALLGO_REPO:/verif/tools python extra_thin_walls.py"""
import sys
sys.path[:0] = ["/verif/tools", "/verif/tools/props"]
import C04 as H
for name, vw, widths, offsets in (
        ("xSM_BM1", 0.5983, [2.0, 2.0], [0.0, 2.0]), ("xSM_BM1", 0.5983, [1.0, 1.0], [0.0, 0.0]),
        ("xSM_BM1", 0.5983, [0.6, 0.6], [0.0, 2.0]), ("xSM_BM1", 0.68, [0.6, 0.6], [0.0, 2.0]),
        ("quartic1_TeV", 0.5853, [1.0], [0.0]), ("quartic1_TeV", 0.6549, [0.6], [0.0]),
        ("quartic1_TeV", 0.3, [0.15], [0.0]), ("xSM_BM1", 0.5983, [3.0, 3.0], [0.0, 0.3])):
    res = H.run_profile(name, vw, widths + widths, offsets + offsets, "none", 1, 0.0, errTol=1e-6)
    early = [d for d in res["points"] if d["path"] == "early"]
    worst = max(res["points"], key=lambda d: abs(d["r33"]))
    print("%-13s vw=%.4f %-12s widths*Tn=%s offsets=%s success=%s points on the no-root path=%d "
          "max|dT33|/|c2|=%.2e (min LHS/|c2|=%.2e) max|dT30|/|c1|=%.1e junction defects %.0e" % (
              name, vw, res["branch"], widths, offsets, res["success"], len(early),
              abs(worst["r33"]), worst["fmin_rel"], max(abs(d["r30"]) for d in res["points"]),
              max(abs(res["hyp"]["j1"]), abs(res["hyp"]["j2"]))))
