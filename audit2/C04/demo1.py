"""
C04 second audit, demo 1 -- the plasma profile handed back by EOM.wallPressure() in the PRODUCTION
configuration (includeOffEq=True: WallGoManager.buildEOM always builds the EOM that way) must
conserve T^{30}, T^{33} and tend to (T-,-v-), (T+,-v+).

No collision files are available offline, so BoltzmannSolver.getDeltas is replaced by a stub that
returns vanishing moments (every other line of the run is the shipped code: _updateGrid,
_intermediatePressureResults, findPlasmaProfile, BoltzmannSolver.setBackground, action, ...).
With vanishing moments the returned BoltzmannBackground (what solveWall copies into
WallGoResults.temperatureProfile / velocityProfile / fieldProfiles) must satisfy, at every
interior grid point,   w(phi_k,T_k) gamma^2(v_k) v_k = c1   and the T33 equation, in the WALL frame.

Exit 0 = conserved (unchanged tree: T30 ~1e-12, T33 < 1e-4), 1 = violated.
"""
import sys
import numpy as np
import WallGo
from WallGo import Fields, EffectivePotential
from WallGo.containers import BoltzmannDeltas, WallParams
from WallGo.results import BoltzmannResults
from WallGo.polynomial import Polynomial


class Veff(EffectivePotential):
    """xSM-like two-field potential, high-T expansion, fully analytic in T."""
    fieldCount = 2
    effectivePotentialError = 1e-15
    lHH = 0.12910272655165576
    lSS, lHS = 1.0, 0.9
    cH, cS = 0.4338, 0.4
    aRad = 107.75 * np.pi**2 / 90
    muHsq, muSsq = -7812.5, -12832.2

    def evaluate(self, fields, temperature):
        fields = Fields(fields)
        return self.exactV(fields.getField(0), fields.getField(1), temperature)

    def exactV(self, v, x, T):
        return (0.5 * (self.muHsq + self.cH * T**2) * v**2 + 0.25 * self.lHH * v**4
                + 0.5 * (self.muSsq + self.cS * T**2) * x**2 + 0.25 * self.lSS * x**4
                + 0.25 * self.lHS * v**2 * x**2 - self.aRad * T**4)

    def exactW(self, v, x, T):
        return -T * (self.cH * T * v**2 + self.cS * T * x**2 - 4 * self.aRad * T**3)


def build(**eomKwargs):
    Tn = 100.0
    veff = Veff()
    veff.configureDerivatives(WallGo.VeffDerivativeSettings(10.0, 50.0))
    thermo = WallGo.Thermodynamics(veff, Tn, Fields([195.0, 0.0]), Fields([0.0, 105.0]))
    thermo.freeEnergyHigh.disableAdaptiveInterpolation()
    thermo.freeEnergyLow.disableAdaptiveInterpolation()
    thermo.freeEnergyHigh.tracePhase(75.0, 125.0, 0.1)
    thermo.freeEnergyLow.tracePhase(75.0, 125.0, 0.1)
    thermo.setExtrapolate()
    hydro = WallGo.Hydrodynamics(thermo, 10.0, 0.01, 1e-6, 1e-6)
    grid = WallGo.grid3Scales.Grid3Scales(22, 11, 0.2, 0.2, 0.05, Tn)
    bs = WallGo.BoltzmannSolver(grid, basisM="Cardinal", basisN="Chebyshev")
    top = WallGo.Particle("top", 0, lambda f: 0.5 * 0.99**2 * f.getField(0) ** 2,
                          lambda f: np.transpose([0.99**2 * f.getField(0), 0 * f.getField(1)]),
                          "Fermion", 12)
    bs.updateParticleList([top])
    # as WallGoManager.buildEOM does: includeOffEq=True, forceEnergyConservation=True
    eom = WallGo.EOM(bs, thermo, hydro, grid, 2, 0.01, (0.1, 100.0), (-10.0, 10.0),
                     includeOffEq=True, forceEnergyConservation=True, **eomKwargs)

    def getDeltasStub(deltaF=None):
        """stands in for the collision-file dependent Boltzmann solve: delta f = 0"""
        z = Polynomial(np.zeros((1, grid.M - 1)), grid, direction=("Array", "z"),
                       basis=("Array", "Cardinal"))
        return BoltzmannResults(
            deltaF=np.zeros((1, grid.M - 1, grid.N - 1, grid.N - 1)),
            Deltas=BoltzmannDeltas(Delta00=z, Delta02=z, Delta20=z, Delta11=z),
            truncationError=0.0, linearizationCriterion1=np.zeros(1),
            linearizationCriterion2=np.zeros(1))
    bs.getDeltas = getDeltasStub
    return veff, thermo, hydro, grid, bs, eom


def main():
    veff, thermo, hydro, grid, bs, eom = build(errTol=1e-5)
    bad = []
    for vw in (0.35, 0.60, 0.80):
        guess = WallParams(widths=np.array([0.05, 0.05]), offsets=np.array([0.0, 0.0]))
        _, wp, _, bg, _ = eom.wallPressure(vw, guess)
        c1, c2, Tp, Tm, vmid = hydro.findHydroBoundaries(vw)
        vp, vm, _, _ = hydro.findMatching(vw)
        T, v, f = np.asarray(bg.temperatureProfile), np.asarray(bg.velocityProfile), bg.fieldProfiles
        r30 = 0.0
        for k in range(1, len(T) - 1):
            w = veff.exactW(float(f[k, 0]), float(f[k, 1]), T[k])
            r30 = max(r30, abs(w * v[k] / (1 - v[k] ** 2) - c1) / abs(c1))
        eb = max(abs(T[1] / Tm - 1), abs(v[1] + vm))
        ef = max(abs(T[-2] / Tp - 1), abs(v[-2] + vp))
        ok = eom.successTemperatureProfile and r30 < 1e-8 and max(eb, ef) < 1e-3
        print("%s wallPressure(vw=%.2f, includeOffEq=True): success=%s max|dT30|/|c1|=%.1e, "
              "behind (T=%.4f v=%.4f) vs (T-=%.4f,-v-=%.4f), in front (T=%.4f v=%.4f) vs "
              "(T+=%.4f,-v+=%.4f)" % ("ok  " if ok else "FAIL", vw, eom.successTemperatureProfile,
                                      r30, T[1], v[1], Tm, -vm, T[-2], v[-2], Tp, -vp))
        if not ok:
            bad.append((vw, r30, eb, ef))
    if bad:
        print("PROPERTY C04 VIOLATED: the profile returned with success does not reproduce c1 / "
              "the matching values:", bad)
        return 1
    print("all fine")
    return 0


if __name__ == "__main__":
    sys.exit(main())
