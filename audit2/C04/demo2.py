"""
C04 second audit, demo 2 -- the plasma profile in the WallGoResults / BoltzmannBackground that a
WallGoManager with DEFAULT configuration hands back must conserve T^{30} with the wall it is
returned with, and tend to (T-,-v-), (T+,-v+).

The whole production path is used: WallGoManager.registerModel, setupThermodynamicsHydrodynamics
(phase tracing, Hydrodynamics), setupWallSolver (buildGrid, BoltzmannSolver, buildEOM with the
values of Config()), then eom.wallPressure and manager.solveWall, in LTE
(WallSolverSettings.bIncludeOffEquilibrium=False: no collision files are needed).
Model: analytic xSM-like two-field potential.

Exit 0 = conserved (unchanged tree: T30 ~1e-12), 1 = violated.
"""
import sys
import logging
import numpy as np
import WallGo
from WallGo import Fields, EffectivePotential, GenericModel
from WallGo.containers import WallParams


class Veff(EffectivePotential):
    fieldCount = 2
    effectivePotentialError = 1e-15
    lHH = 0.12910272655165576
    lSS, lHS = 1.0, 0.9
    cH, cS = 0.4338, 0.4
    aRad = 107.75 * np.pi**2 / 90
    muHsq, muSsq = -7812.5, -12832.2

    def evaluate(self, fields, temperature):
        fields = Fields(fields)
        return self.exactV(fields.getField(0), fields.getField(1), temperature)

    def exactV(self, v, x, T):
        return (0.5 * (self.muHsq + self.cH * T**2) * v**2 + 0.25 * self.lHH * v**4
                + 0.5 * (self.muSsq + self.cS * T**2) * x**2 + 0.25 * self.lSS * x**4
                + 0.25 * self.lHS * v**2 * x**2 - self.aRad * T**4)

    def exactW(self, v, x, T):
        return -T * (self.cH * T * v**2 + self.cS * T * x**2 - 4 * self.aRad * T**3)


class Model(GenericModel):
    def __init__(self):
        self.veff = Veff()
        self.clearParticles()
        self.addParticle(WallGo.Particle(
            "top", 0, lambda f: 0.5 * 0.99**2 * f.getField(0) ** 2,
            lambda f: np.transpose([0.99**2 * f.getField(0), 0 * f.getField(1)]), "Fermion", 12))

    @property
    def fieldCount(self):
        return 2

    def getEffectivePotential(self):
        return self.veff


def residual(veff, hydro, vw, f, T, v):
    c1, c2, Tp, Tm, vmid = hydro.findHydroBoundaries(vw)
    vp, vm, _, _ = hydro.findMatching(vw)
    T, v = np.asarray(T), np.asarray(v)
    r30 = 0.0
    for k in range(1, len(T) - 1):
        w = veff.exactW(float(f[k, 0]), float(f[k, 1]), T[k])
        r30 = max(r30, abs(w * v[k] / (1 - v[k] ** 2) - c1) / abs(c1))
    asym = max(abs(T[1] / Tm - 1), abs(v[1] + vm), abs(T[-2] / Tp - 1), abs(v[-2] + vp))
    return r30, asym


def main():
    manager = WallGo.WallGoManager()          # Config() defaults, no .ini file
    manager.setVerbosity(logging.ERROR)
    model = Model()
    manager.registerModel(model)
    manager.setupThermodynamicsHydrodynamics(
        WallGo.PhaseInfo(temperature=100.0, phaseLocation1=Fields([0.0, 105.0]),
                         phaseLocation2=Fields([195.0, 0.0])),
        WallGo.VeffDerivativeSettings(temperatureVariationScale=10.0,
                                      fieldValueVariationScale=[50.0, 50.0]))
    settings = WallGo.WallSolverSettings(bIncludeOffEquilibrium=False, meanFreePathScale=50.0,
                                         wallThicknessGuess=5.0)
    bad = []
    solver = manager.setupWallSolver(settings)
    eom, hydro = solver.eom, manager.hydrodynamics
    print("EOM built by the manager: includeOffEq=%s forceEnergyConservation=%s" % (
        eom.includeOffEq, eom.forceEnergyConservation))
    for vw in (0.35, 0.80):
        guess = WallParams(widths=np.array([0.05, 0.05]), offsets=np.array([0.0, 0.0]))
        _, wp, _, bg, _ = eom.wallPressure(vw, guess)
        r30, asym = residual(model.veff, hydro, vw, bg.fieldProfiles, bg.temperatureProfile,
                             bg.velocityProfile)
        ok = eom.successTemperatureProfile and r30 < 1e-6 and asym < 1e-3
        print("%s wallPressure(vw=%.2f): success=%s widths*Tn=%s max|dT30|/|c1|=%.1e asymptotes %.1e"
              % ("ok  " if ok else "FAIL", vw, eom.successTemperatureProfile,
                 np.round(wp.widths * 100, 3), r30, asym))
        if not ok:
            bad.append(("wallPressure", vw, r30, asym))
    res = manager.solveWall(settings)
    r30, asym = residual(model.veff, hydro, res.wallVelocity, res.fieldProfiles,
                         res.temperatureProfile, res.velocityProfile)
    ok = res.success and r30 < 1e-6 and asym < 1e-3
    print("%s manager.solveWall: vw=%.6f success=%s WallGoResults profile max|dT30|/|c1|=%.1e "
          "asymptotes %.1e" % ("ok  " if ok else "FAIL", res.wallVelocity, res.success, r30, asym))
    if not ok:
        bad.append(("solveWall", res.wallVelocity, r30, asym))
    if bad:
        print("PROPERTY C04 VIOLATED: profile reported with success does not reproduce c1:", bad)
        return 1
    print("all fine")
    return 0


if __name__ == "__main__":
    sys.exit(main())
