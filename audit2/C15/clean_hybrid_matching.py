import sys, warnings
warnings.filterwarnings('ignore')
tree=sys.argv[1]
sys.path.insert(0,tree+'/src'); sys.path.insert(0,tree)
import numpy as np, WallGo
from tests.test_HydroTemplateModel import TestModelTemplate
alN,psiN,cb2,cs2,Tn=0.02136,0.960,0.2433,0.3256,87.6
th=TestModelTemplate(alN,psiN,cb2,cs2,Tn,Tn)
hg=WallGo.Hydrodynamics(th,10.,0.01,1e-10,1e-10); ht=WallGo.HydrodynamicsTemplateModel(th,1e-10,1e-10)
vw=0.97*min(hg.vJ,ht.vJ)
mg=[float(x) for x in hg.findMatching(vw)]; mt=[float(x) for x in ht.findMatching(vw)]
print('vw',vw,'general',mg,'\n template',mt)
for name,m in (('general',mg),('template',mt)):
    vp=m[0]
    a=hg.matchDeflagOrHyb(vw,vp); 
    print(name,'v+',vp,'general residual Tshock/Tn-1 =',hg.solveHydroShock(vw,vp,float(a[2]))/Tn-1,' template shooting residual',ht._shooting(vw,vp), 'succ',hg.success)
# scan the general residual
for vp in np.linspace(0.500,0.512,25):
    a=hg.matchDeflagOrHyb(vw,vp); s=hg.success
    print('%.5f %.3e %s %.3e'%(vp, hg.solveHydroShock(vw,vp,float(a[2]))/Tn-1, s, ht._shooting(vw,vp)))
