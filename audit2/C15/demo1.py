"""C15 demo 1: a template equation of state inside the quantifier (cb2 > cs2, psiN near 1, small alN;
the recorded input of the known finding template-alpha-below-threshold).  On the unchanged tree the two
solvers agree there on the Jouguet velocity, the minimal velocity and on every detonation quantity
(matching, boundary constants, efficiency factor), and the general solver's deflagration is a genuine
solution.  Exit 0 if that holds, 1 if either class cannot even be constructed or they disagree.
Usage: PYTHONPATH=<tree>/src:<tree> python demo1.py"""
import sys, warnings
warnings.filterwarnings("ignore")
import WallGo
from tests.test_HydroTemplateModel import TestModelTemplate

def rel(a, b):
    return abs(a - b) / max(abs(a), abs(b), 1e-300)

bad = 0
for alN, psiN, cb2, cs2, Tn in [(0.01551, 0.988, 0.3209, 0.2812, 188.3),
                                (0.02, 0.97, 0.33, 0.21, 1.0)]:
    th = TestModelTemplate(alN, psiN, cb2, cs2, Tn, Tn)
    try:
        hg = WallGo.Hydrodynamics(th, 10.0, 0.01, 1e-6, 1e-6)
        ht = WallGo.HydrodynamicsTemplateModel(th, 1e-6, 1e-6)
    except Exception as ex:
        print("alN=%g psiN=%g cb2=%g cs2=%g Tn=%g: constructing the solvers raised %r" % (
            alN, psiN, cb2, cs2, Tn, ex))
        bad = 1
        continue
    vJg, vJt = hg.findJouguetVelocity(), ht.findJouguetVelocity()
    vmg, vmt = max(1e-3, hg.minVelocity()), max(1e-3, ht.minVelocity())
    vw = 0.5 * (max(vJg, vJt) + 0.99)
    mg, mt = hg.findMatching(vw), ht.findMatching(vw)
    bg, bt = hg.findHydroBoundaries(vw), ht.findHydroBoundaries(vw)
    kg, kt = hg.efficiencyFactor(vw), ht.efficiencyFactor(vw)
    d = dict(vJ=rel(vJg, vJt), vMin=rel(vmg, vmt),
             matching=max(rel(a, b) for a, b in zip(mg, mt)),
             boundaries=max(rel(a, b) for a, b in zip(bg, bt)), kappa=rel(kg, kt))
    print("alN=%g psiN=%g cb2=%g cs2=%g Tn=%g: vJ %.9g | %.9g, detonation vw=%.4f matching %s | %s, "
          "kappa %.6g | %.6g; relative differences %s" % (
              alN, psiN, cb2, cs2, Tn, vJg, vJt, vw, [float(x) for x in mg],
              [float(x) for x in mt], kg, kt, {k: "%.2g" % v for k, v in d.items()}))
    if not (d["vJ"] < 1e-6 and d["vMin"] < 1e-4 and d["matching"] < 1e-4
            and d["boundaries"] < 1e-3 and d["kappa"] < 0.05):
        bad = 1
    # the general solver alone still solves deflagrations here (the template does not: known finding)
    vp, vm, Tp, Tm = (float(x) for x in hg.findMatching(0.3))
    sh = hg.solveHydroShock(0.3, vp, Tp) / Tn - 1
    print("   general deflagration vw=0.3: v+=%.6g T+=%.6g T-=%.6g, shock reaches Tn to %.2g" % (
        vp, Tp, Tm, sh))
    if not abs(sh) < 1e-4:
        bad = 1
print("PROPERTY BROKEN" if bad else "ok")
sys.exit(bad)
