"""C15 demo 2: ordinary template parameter sets (no recorded finding applies: alN above (mu-nu)/(3mu),
walls 3..10 times faster than the bracket floor 1e-3).  The general solver and the template solver must
return the same matching (v+, v-, T+, T-) and boundary constants for slow deflagrations.
Exit 0 if they agree to 1e-2 everywhere below (unchanged tree: <= 1.1e-3 at rtol=atol=1e-6, <= 4e-8 at 1e-10), 1 otherwise.
Usage: PYTHONPATH=<tree>/src:<tree> python demo2.py"""
import sys, warnings
warnings.filterwarnings("ignore")
import WallGo
from tests.test_HydroTemplateModel import TestModelTemplate

def rel(a, b):
    return abs(a - b) / max(abs(a), abs(b), 1e-300)

bad = 0
for alN, psiN, cb2, cs2, Tn in [(0.05, 0.9, 0.3, 0.26, 10.0), (0.04, 0.92, 0.25, 0.3, 1.0)]:
    th = TestModelTemplate(alN, psiN, cb2, cs2, Tn, Tn)
    for rtol, atol in ((1e-6, 1e-6), (1e-10, 1e-10)):
        hg = WallGo.Hydrodynamics(th, 10.0, 0.01, rtol, atol)
        ht = WallGo.HydrodynamicsTemplateModel(th, rtol, atol)
        for vw in (0.004, 0.008, 0.01, 0.03, 0.1):
            mg = [float(x) for x in hg.findMatching(vw)]
            mt = [float(x) for x in ht.findMatching(vw)]
            bg = [float(x) for x in hg.findHydroBoundaries(vw)]
            bt = [float(x) for x in ht.findHydroBoundaries(vw)]
            w = max(rel(a, b) for a, b in zip(mg + bg, mt + bt))
            flag = ""
            if not w < 1e-2:
                bad = 1
                flag = "  <-- DISAGREE: general (v+,v-,T+,T-) = %s, template %s%s" % (
                    mg, mt, "; general T+ < Tn" if mg[2] < Tn else "")
            print("alN=%g psiN=%g cb2=%g cs2=%g Tn=%g rtol=atol=%g vw=%g: worst relative difference "
                  "%.2g%s" % (alN, psiN, cb2, cs2, Tn, rtol, vw, w, flag))
print("PROPERTY BROKEN" if bad else "ok")
sys.exit(bad)
