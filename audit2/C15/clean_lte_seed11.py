import sys, math
sys.path.insert(0,'/tmp/wt2/C15/src'); sys.path.insert(0,'/tmp/wt2/C15')
import numpy as np, WallGo
from tests.test_HydroTemplateModel import TestModelTemplate
case=dict(alN=0.01813, psiN=0.954, cb2=0.2026, cs2=0.244, Tn=0.10720000000000002, wn=0.0538)
for rt,at in ((1e-6,1e-6),(1e-10,1e-10)):
    th=TestModelTemplate(case['alN'],case['psiN'],case['cb2'],case['cs2'],case['Tn'],case['Tn'],case['wn'])
    hg=WallGo.Hydrodynamics(th,10.0,0.01,rt,at); ht=WallGo.HydrodynamicsTemplateModel(th,rt,at)
    print('cb',ht.cb,'cs',ht.cs,'vJ',ht.vJ, hg.vJ)
    lg,lt=hg.findvwLTE(),ht.findvwLTE()
    print(rt,'vwLTE',lg,lt)
    def tres(v):
        return float(ht._shooting(v, ht.getVp(min(ht.cb, v), ht.solveAlpha(v))))
    for v in (lt, lg):
        print('  template residual at',v,tres(v))
    from WallGo.helpers import gammaSq
    for v in (lg, lt):
        vp,vm,Tp,Tm=(float(x) for x in hg.matchDeflagOrHyb(v))
        print('  general at',v,'succ',hg.success,'entropy',Tp*math.sqrt(gammaSq(vp))/(Tm*math.sqrt(gammaSq(vm)))-1,'shock',hg.solveHydroShock(v,vp,Tp)/case['Tn']-1, 'vp*vw-cs2', vp*v-case['cs2'])
    for v in np.linspace(0.44,0.56,25):
        try:
            r=tres(v)
        except Exception as e:
            r=repr(e)
        try:
            vp,vm,Tp,Tm=(float(x) for x in hg.matchDeflagOrHyb(v)); g=hg.solveHydroShock(v,vp,Tp)/case['Tn']-1
        except Exception as e:
            g=repr(e)
        print('   scan %.4f'%v, r, g)
