"""C06 second audit, change 2: detonations of a STRONG transition (T- behind the wall above 2 Tn).
Bag equation of state psi = 0.3, Tn = 0.7 (alpha_n ~ 0.97; T-(Chapman-Jouguet) = 2.29 Tn), ample
tables, Hydrodynamics(model, 10, 0.01, 1e-8, 1e-8) -- one of the models of the check's own
"strong family".  Checked:
  (1) the Jouguet clause: a detonation at vJ(1+1e-6) exists and has v- = cs(T-) (2e-3);
  (2) every velocity on a grid from vJ+1e-3 to 0.999 has a returned detonation matching with
      v+ = vw, T+ = Tn, cs(T-) <= v- < v+, that solves the junction condition written with p, e only;
  (3) slowestDeton() (nothing limits the branch) returns vJ.
Exit 0 if all hold, 1 otherwise.  Run: PYTHONPATH=<tree>/src:<tree> python demo2.py"""
import sys, os, math, logging, warnings
warnings.filterwarnings("ignore")
logging.disable(logging.CRITICAL)
import numpy as np
import WallGo
root = os.path.dirname(os.path.dirname(os.path.dirname(os.path.abspath(WallGo.__file__))))
sys.path.insert(0, os.path.join(root, "tests"))
from test_Hydrodynamics import TestModelBag

PSI, TN = 0.3, 0.7
M = TestModelBag(PSI, TN)
h = WallGo.Hydrodynamics(M, 10, 0.01, 1e-8, 1e-8)
pH = M.pHighT(TN)
eH = TN * M.dpHighT(TN) - pH


def residual(vw, t):
    pL = M.pLowT(t)
    eL = t * M.dpLowT(t) - pL
    return vw ** 2 * (eH - eL) - (pH - pL) * (eL + pH) / (eH + pL)


print("vJ = %.6f (template %.6f), vMin = %.6f" % (h.vJ, h.template.vJ, h.vMin))
bad = False
try:
    vp, vm, Tp, Tm = (float(x) for x in h.matchDeton(h.vJ * (1 + 1e-6)))
    cs = math.sqrt(M.dpLowT(Tm) / (Tm * M.ddpLowT(Tm)))
    print("(1) detonation at vJ(1+1e-6): v- = %.6f, cs(T-) = %.6f, T- = %.4f = %.3f Tn" % (vm, cs, Tm, Tm / TN))
    if abs(vm - cs) > 2e-3:
        bad = True
except Exception as ex:
    print("(1) matchDeton(vJ(1+1e-6)) raised %s: %s" % (type(ex).__name__, str(ex)[:70]))
    bad = True
nfail = 0
for vw in np.linspace(h.vJ + 1e-3, 0.999, 12):
    try:
        vp, vm, Tp, Tm = (float(x) for x in h.findMatching(float(vw)))
    except Exception as ex:
        print("(2) findMatching(%.6f) raised %s: %s" % (vw, type(ex).__name__, str(ex)[:60]))
        nfail += 1
        continue
    cs = math.sqrt(M.dpLowT(Tm) / (Tm * M.ddpLowT(Tm)))
    ok = (vp == vw and Tp == TN and cs * (1 - 2e-4) <= vm < vp and
          abs(residual(vw, Tm)) < 1e-6 * abs(residual(vw, TN)))
    if not ok:
        print("(2) findMatching(%.6f) = (%.6f, %.6f, %.6f, %.6f), cs=%.6f: not an admissible detonation"
              % (vw, vp, vm, Tp, Tm, cs))
        nfail += 1
print("(2) %d of 12 detonation velocities without an admissible returned matching" % nfail)
bad = bad or nfail > 0
try:
    v = float(h.slowestDeton())
    print("(3) slowestDeton() = %.6f" % v)
    if abs(v - h.vJ) > 1e-9:
        bad = True
except Exception as ex:
    print("(3) slowestDeton() raised %s: %s" % (type(ex).__name__, str(ex)[:70]))
    bad = True
print("PROPERTY BROKEN" if bad else "ok")
sys.exit(1 if bad else 0)
