"""C06 second audit, change 1: the advertised slowest detonation when the low-T table ends
inside the detonation branch.
Two-step toy model, Tn = 0.6, Hydrodynamics(model, 10, 0.01, 1e-8, 1e-8).  T-(vw) of the
detonation branch is computed INDEPENDENTLY of WallGo's matchDeton (first zero above Tn of the
junction residual written with p and e of the model only).  The low-T table is cut at
TMaxLowT = T-(v*) for a velocity v* in the middle of the detonation branch, so detonations
slower than v* have T- above the table and v* is the slowest admissible one.
Checked (the last sentence of C06, "likewise for the advertised slowest detonation"):
  (1) every detonation from the advertised slowestDeton() up to 0.999 has its true T- <= TMaxLowT;
  (2) slowestDeton() is where the range is reached (v* + 0.01, the documented offset);
  (3) the matching returned at the advertised velocity solves the junction condition and has
      v- >= cs(T-) (weak/Jouguet branch) -- "every returned matching is admissible".
Exit 0 if all hold, 1 otherwise.  Run: PYTHONPATH=<tree>/src:<tree> python demo1.py"""
import sys, os, math, logging, warnings
warnings.filterwarnings("ignore")
logging.disable(logging.CRITICAL)
import numpy as np
from scipy.optimize import brentq
import WallGo
root = os.path.dirname(os.path.dirname(os.path.dirname(os.path.abspath(WallGo.__file__))))
sys.path.insert(0, os.path.join(root, "tests"))
from test_Hydrodynamics import TestModel2Step, FreeEnergyHack

TN = 0.6


def model(TMaxLow=5.0):
    m = TestModel2Step(0.2, 0.1, 0.4, TN)
    m.freeEnergyLow = FreeEnergyHack(minPossibleTemperature=[0.01, False],
                                     maxPossibleTemperature=[TMaxLow, False])
    m.TMaxLowT = TMaxLow
    return m


M = model()
pH = M.pHighT(TN)
eH = TN * M.dpHighT(TN) - pH


def residual(vw, t):
    """junction condition of a detonation (v+ = vw, T+ = Tn), p and e of the model only"""
    pL = M.pLowT(t)
    eL = t * M.dpLowT(t) - pL
    return vw ** 2 * (eH - eL) - (pH - pL) * (eL + pH) / (eH + pL)


def true_Tm(vw):
    """weak branch: first zero above Tn"""
    ts = np.linspace(TN, 3 * TN, 6001)
    r = np.array([residual(vw, t) for t in ts])
    k = int(np.argmax(r < 0))
    assert r[0] > 0 and k > 0, "no detonation at vw=%r" % vw
    return brentq(lambda t: residual(vw, t), ts[k - 1], ts[k], xtol=1e-14)


ample = WallGo.Hydrodynamics(model(), 10, 0.01, 1e-8, 1e-8)
vJ = ample.vJ
vstar = vJ + 0.45 * (1 - vJ)
TML = true_Tm(vstar)
print("vJ=%.6f  v*=%.6f  TMaxLowT := T-(v*) = %.6f   [true T-(vJ+1e-3)=%.6f, T-(0.999)=%.6f]" % (
    vJ, vstar, TML, true_Tm(vJ + 1e-3), true_Tm(0.999)))

h = WallGo.Hydrodynamics(model(TML), 10, 0.01, 1e-8, 1e-8)
adv = float(h.slowestDeton())
print("slowestDeton() = %.6f   (expected v* + 0.01 = %.6f)" % (adv, vstar + 0.01))
bad = False
for vw in np.linspace(adv, 0.999, 12):
    t = true_Tm(float(vw))
    if t > TML * (1 + 1e-6):
        print("  (1) detonation vw=%.6f >= slowestDeton() has T- = %.6f > TMaxLowT = %.6f" % (vw, t, TML))
        bad = True
        break
if abs(adv - (vstar + 0.01)) > 1e-4:
    print("  (2) slowestDeton() is not where T- reaches TMaxLowT")
    bad = True
vp, vm, Tp, Tm = (float(x) for x in h.findMatching(adv))
sc = abs(residual(adv, TN))
cs = math.sqrt(M.dpLowT(Tm) / (Tm * M.ddpLowT(Tm)))
print("findMatching(%.6f) = (v+=%.6f, v-=%.6f, T+=%.6f, T-=%.6f); true T- = %.6f; junction "
      "residual/scale = %.2e; cs(T-) = %.6f" % (adv, vp, vm, Tp, Tm, true_Tm(adv),
                                                residual(adv, Tm) / sc, cs))
if abs(residual(adv, Tm)) > 1e-6 * sc or vm < cs * (1 - 2e-4):
    print("  (3) the returned matching does not solve the junction condition / is not on the weak branch")
    bad = True
print("PROPERTY BROKEN" if bad else "ok")
sys.exit(1 if bad else 0)
