"""C18 audit2 demo 1: the table must be the class's own.

A user fills ONE work buffer with the values of two different functions in turn and hands it to two
InterpolatableFunction objects (newInterpolationTableFromValues is the entry FreeEnergy.tracePhase
uses).  Later a mode change on the first object rebuilds its spline from the stored values.  On the
unchanged tree the stored table is a private copy, so f keeps agreeing with sin(0.7 x); with the
change the stored values alias the user's buffer and f silently turns into the other function.

exit 0: property holds, exit 1: broken.
Run: PYTHONPATH=<tree>/src /venv/bin/python demo1.py
"""
import logging
import sys
import numpy as np
from WallGo import InterpolatableFunction, EExtrapolationType as E

logging.disable(logging.CRITICAL)


class Sin(InterpolatableFunction):
    def _functionImplementation(self, x):
        return np.sin(0.7 * np.asarray(x, dtype=float))


class Cos(InterpolatableFunction):
    def _functionImplementation(self, x):
        return np.cos(0.7 * np.asarray(x, dtype=float))


T = np.linspace(0.0, 4.0, 33)
buf = np.empty_like(T)

f = Sin(bUseAdaptiveInterpolation=False)
buf[:] = np.sin(0.7 * T)
f.newInterpolationTableFromValues(T, buf)

g = Cos(bUseAdaptiveInterpolation=False)
buf[:] = np.cos(0.7 * T)                      # the buffer is reused for the second function
g.newInterpolationTableFromValues(T, buf)

xs = np.array([0.3, 1.7, 3.1])
before = float(np.max(np.abs(f(xs) - np.sin(0.7 * xs))))
f.setExtrapolationType(E.CONSTANT, E.CONSTANT)          # "changing it rebuilds the spline"
after_modes = float(np.max(np.abs(f(xs) - np.sin(0.7 * xs))))
f.extendInterpolationTable(-1.0, 5.0, 8, 8)             # old rows are kept by an extension
after_extend = float(np.max(np.abs(f(xs) - np.sin(0.7 * xs))))
stored = float(np.max(np.abs(np.asarray(f._interpolationValues)[8:-8] - np.sin(0.7 * T))))
print("max |f - sin(0.7x)| at", xs.tolist())
print("  after building both tables :", before)
print("  after setExtrapolationType :", after_modes)
print("  after extendInterpolation  :", after_extend)
print("  stored values vs function  :", stored)
print("  f(0.3) =", float(f(0.3)), " sin(0.21) =", float(np.sin(0.21)), " cos(0.21) =", float(np.cos(0.21)))
bad = max(before, after_modes, after_extend, stored) > 1e-6
print("PROPERTY BROKEN: value returned does not agree with the underlying function" if bad else "ok")
sys.exit(1 if bad else 0)
