"""C18 audit2 demo 2: derivatives follow the per-side mode rule -- also through FreeEnergy.derivative.

FreeEnergy (the subclass WallGo actually uses, ERROR mode on both sides by default) over a stub
potential with a closed-form phase, table on [0.5, 2].  Outside the table
  * ERROR mode must raise,
  * NONE mode must differentiate the function itself (dV/dT = -4 T^3 + 0.6 T),
  * a point 0.5 beyond the table is not "a rounding error outside".
exit 0: property holds, exit 1: broken.
Run: PYTHONPATH=<tree>/src /venv/bin/python demo2.py
"""
import logging
import sys
import numpy as np
import WallGo
from WallGo import EExtrapolationType as E
from WallGo.freeEnergy import FreeEnergy

logging.disable(logging.CRITICAL)


class StubPotential:
    class DS:
        temperatureVariationScale = 1.0
    derivativeSettings = DS()

    def getInherentRelativeError(self):
        return 1e-12

    def findLocalMinimum(self, guess, T):
        T = np.atleast_1d(np.asarray(T, dtype=float)).ravel()
        return np.stack([np.sqrt(4 - 0.1 * T ** 2)], axis=-1), -T ** 4 + 0.3 * T ** 2


fe = FreeEnergy(StubPotential(), 1.0, WallGo.Fields([2.0]), initialInterpolationPointCount=50)
fe.disableAdaptiveInterpolation()
fe.newInterpolationTable(0.5, 2.0, 61)
problems = []

inside = float(fe.derivative(1.25).veffValue)
print("inside  dV/dT(1.25) =", inside, "exact", -4 * 1.25 ** 3 + 0.6 * 1.25)

try:                                                       # modes (ERROR, ERROR)
    r = fe.derivative(np.array([1.0, 2.5]))
    problems.append("ERROR mode: derivative at T=2.5 (table ends at 2.0) returned %s instead of "
                    "raising" % np.asarray(r.veffValue).tolist())
except (ValueError, WallGo.WallGoError) as e:
    print("ERROR mode outside: raises", type(e).__name__)

fe.setExtrapolationType(E.NONE, E.NONE)
# (scalar inputs: FreeEnergy's finite-difference path does not support arrays, see
#  clean_tree_freeenergy_fd_array.py)
for T in (0.25, 2.5):
    got = float(fe.derivative(T).veffValue)
    want = -4 * T ** 3 + 0.6 * T
    print("NONE mode outside: dV/dT(%g) = %r, function: %r" % (T, got, want))
    if abs(got - want) > 1e-4:
        problems.append("NONE mode: derivative at T=%g outside the table [0.5, 2] is %r, the function's "
                        "derivative is %r" % (T, got, want))
    got2 = float(fe.derivative(T, order=2).veffValue)
    want2 = -12 * T ** 2 + 0.6
    if abs(got2 - want2) > 1e-2:
        problems.append("NONE mode: second derivative at T=%g is %r, exact %r" % (T, got2, want2))

for p in problems:
    print("PROPERTY BROKEN:", p)
print("ok" if not problems else "")
sys.exit(1 if problems else 0)
