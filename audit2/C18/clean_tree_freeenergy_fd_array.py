"""UNCHANGED tree: FreeEnergy.derivative through the finite-difference path (no table yet /
bUseInterpolation=False / outside the table in mode NONE) on ARRAY input, with a real
EffectivePotential (default findLocalMinimum).  helpers.derivative hands _functionImplementation a
2-D stencil array (P, m); EffectivePotential.findLocalMinimum keeps only T.shape[0] = P entries
(np.resize), so the stencil of point i is evaluated at the wrong temperatures."""
import logging
import sys
import numpy as np
import WallGo
from WallGo import EExtrapolationType as E
from WallGo.freeEnergy import FreeEnergy

logging.disable(logging.CRITICAL)


class Pot(WallGo.EffectivePotential):
    fieldCount = 1
    effectivePotentialError = 1e-12

    def evaluate(self, fields, temperature):
        v = fields.getField(0)
        T = np.asarray(temperature, dtype=float)
        return -T ** 4 + 0.3 * T ** 2 + 0.25 * (v ** 2 - (4 - 0.1 * T ** 2)) ** 2


pot = Pot()
pot.configureDerivatives(WallGo.VeffDerivativeSettings(temperatureVariationScale=1.0,
                                                       fieldValueVariationScale=1.0))
fe = FreeEnergy(pot, 1.0, WallGo.Fields([2.0]), initialInterpolationPointCount=50)
fe.disableAdaptiveInterpolation()
exact = lambda T: -4 * np.asarray(T) ** 3 + 0.6 * np.asarray(T)
bad = []
for label, setup in (("no table", None), ("table [0.5,2], mode NONE, points outside", "none"),
                     ("table [0.5,4], bUseInterpolation=False", "direct")):
    if setup == "none":
        fe.newInterpolationTable(0.5, 2.0, 31)
        fe.setExtrapolationType(E.NONE, E.NONE)
    if setup == "direct":
        fe.newInterpolationTable(0.5, 4.0, 31)
    for x in (2.5, np.array([2.5]), np.array([2.25, 2.5]), np.array([2.25, 2.5, 2.75, 3.0, 3.25])):
        xa = np.atleast_1d(np.asarray(x, dtype=float))
        try:
            r = np.atleast_1d(np.asarray(fe.derivative(x, bUseInterpolation=(setup != "direct")).veffValue,
                                         dtype=float))
            err = float(np.max(np.abs(r - exact(xa)))) if r.shape == xa.shape else float("nan")
            print("%-45s x=%-32s -> %s  (exact %s)" % (label, xa.tolist(), np.round(r, 4).tolist(),
                                                     np.round(exact(xa), 4).tolist()))
            if not err < 1e-3:
                bad.append((label, xa.tolist()))
        except Exception as e:  # noqa
            print("%-45s x=%-32s -> raises %s: %s" % (label, xa.tolist(), type(e).__name__, str(e)[:70]))
            bad.append((label, xa.tolist()))
print("DEVIATIONS:", bad)
sys.exit(1 if bad else 0)
