"""UNCHANGED tree: modes (NONE, CONSTANT), adaptive on, one pending point left from an earlier
direct evaluation.  evaluate([-1.0, 2.5]) on a table over [0, 2]: the lower side's direct
evaluation reaches the threshold, the adaptive update extends the table to [-1, 3] in the middle
of the call, and the upper side (mask computed with the OLD range) is then answered with the
spline at the NEW upper end: f(2.5) = f(3.0).  Neither the boundary value the mode prescribes at
call time (f(2.0)) nor the value of the table the point now lies in (f(2.5)).
The model reproduces this (all_spec with the free state s1 of dispatch_all_histories); pass B skips
out-of-range elements whenever the call changed the table."""
import logging
import sys
import numpy as np
from WallGo import InterpolatableFunction, EExtrapolationType as E

logging.disable(logging.CRITICAL)


class F(InterpolatableFunction):
    def _functionImplementation(self, x):
        return np.sin(0.7 * np.asarray(x, dtype=float))


f = F(bUseAdaptiveInterpolation=True, initialInterpolationPointCount=20)
f._evaluationsUntilAdaptiveUpdate = 2
f.newInterpolationTable(0.0, 2.0, 17)
f(3.0)                                           # mode NONE: direct, pending = [3.0]
f.setExtrapolationType(E.NONE, E.CONSTANT)
r = f(np.array([-1.0, 2.5]))
print("f([-1, 2.5]) =", r.tolist())
print("boundary value at call time f(2.0) =", np.sin(1.4), "| function f(2.5) =", np.sin(1.75),
      "| returned = f(3.0) =", np.sin(2.1))
print("table after the call: [%g, %g]" % (f.interpolationRangeMin(), f.interpolationRangeMax()))
off = abs(r[1] - np.sin(1.4)) > 1e-6 and abs(r[1] - np.sin(1.75)) > 1e-3
sys.exit(1 if off else 0)
