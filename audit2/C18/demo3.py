"""C18 audit2 demo 3: a point a few ulp outside the table is OUTSIDE: the mode of that side decides.

Table of sin(0.7 x) over [50, 150] (a temperature range in GeV), points 1 and 3 ulp beyond the ends.
  CONSTANT -> boundary value, NONE -> direct evaluation, ERROR -> ValueError.
With the change such points are sent to the spline, which does not extrapolate: silent nan.
exit 0: property holds, exit 1: broken.
"""
import logging
import sys
import numpy as np
from WallGo import InterpolatableFunction, EExtrapolationType as E

logging.disable(logging.CRITICAL)


class F(InterpolatableFunction):
    def _functionImplementation(self, x):
        return np.sin(0.7 * np.asarray(x, dtype=float))


f = F(bUseAdaptiveInterpolation=False)
f.newInterpolationTable(50.0, 150.0, 401)
hi1 = float(np.nextafter(150.0, np.inf))
lo3 = float(50.0 - 3 * np.spacing(50.0))
x = np.array([lo3, 100.0, hi1])
problems = []
for lo, hi in ((E.CONSTANT, E.CONSTANT), (E.NONE, E.NONE), (E.CONSTANT, E.NONE)):
    f.setExtrapolationType(lo, hi)
    r = np.asarray(f(x))
    d = np.asarray(f.derivative(x))
    print(lo.name, hi.name, "f =", r.tolist(), " f' =", d.tolist())
    if not np.all(np.isfinite(r)) or np.max(np.abs(r - np.sin(0.7 * x))) > 1e-6:
        problems.append("modes (%s, %s): f(%r) = %s, expected about %s" % (
            lo.name, hi.name, x.tolist(), r.tolist(), np.sin(0.7 * x).tolist()))
    if not np.all(np.isfinite(d)):
        problems.append("modes (%s, %s): derivative non-finite %s" % (lo.name, hi.name, d.tolist()))
f.setExtrapolationType(E.ERROR, E.ERROR)
try:
    r = f(hi1)
    problems.append("ERROR mode: f(150 + 1 ulp) returned %r instead of raising" % (np.asarray(r).tolist(),))
except ValueError:
    print("ERROR mode: raises")
for p in problems:
    print("PROPERTY BROKEN:", p)
sys.exit(1 if problems else 0)
