"""C05 demo 2: bag equation of state p+ = T^4 - (1-psi), p- = psi T^4 with psi = 0.4, Tn = 0.6 Tc
(a point of the harness's fixed 8x6 grid), package-default solver parameters.
Property C05: the static sentinel 0 is only allowed when the entropy mismatch T+g+/(T-g-)-1 of
the Tn-reaching matching already has the stopping (negative) sign at the smallest allowed velocity;
an interior answer must conserve entropy and reach Tn.  Exit 0 = holds, 1 = violated.
Run: PYTHONPATH=<tree>/src python demo2.py"""
import math
import sys
import warnings

warnings.filterwarnings("ignore")
import WallGo  # noqa: E402


class FE:
    def __init__(s, lo, hi):
        s.minPossibleTemperature, s.maxPossibleTemperature = [lo, False], [hi, False]


class Bag(WallGo.Thermodynamics):
    def __init__(s, psi, Tn):
        s.psi, s.eps, s.Tnucl = psi, 1.0 - psi, Tn
        s.freeEnergyHigh = s.freeEnergyLow = FE(0.1, 500.0)
        s.TMinLowT = s.TMinHighT = 0.01
        s.TMaxLowT = s.TMaxHighT = 5.0

    def pHighT(s, T): return T ** 4 - s.eps
    def dpHighT(s, T): return 4 * T ** 3
    def ddpHighT(s, T): return 12 * T ** 2
    def pLowT(s, T): return s.psi * T ** 4
    def dpLowT(s, T): return 4 * s.psi * T ** 3
    def ddpLowT(s, T): return 12 * s.psi * T ** 2


def gam(v):
    return 1 / math.sqrt(1 - v * v)


def mismatch(hy, vw):
    """entropy mismatch of the matching that reaches Tn (findMatching); the matching is
    accepted only if it conserves the energy and momentum fluxes of the bag EOS"""
    vp, vm, Tp, Tm = hy.findMatching(vw)
    psi, eps = hy.thermodynamics.psi, hy.thermodynamics.eps
    wp, wm, pp, pm = 4 * Tp ** 4, 4 * psi * Tm ** 4, Tp ** 4 - eps, psi * Tm ** 4
    ef = wp * gam(vp) ** 2 * vp - wm * gam(vm) ** 2 * vm
    mf = wp * gam(vp) ** 2 * vp ** 2 + pp - wm * gam(vm) ** 2 * vm ** 2 - pm
    assert abs(ef) < 1e-6 * wp and abs(mf) < 1e-6 * wp, "findMatching: fluxes not conserved"
    return Tp * gam(vp) / (Tm * gam(vm)) - 1


PSI, TN = 0.4, 0.6
hy = WallGo.Hydrodynamics(Bag(PSI, TN), 10.0, 0.01, 1e-6, 1e-10)
v = float(hy.findvwLTE())
print("bag psi=%.1f Tn=%.1f: vMin=%.8f (template vMin=%.8f) vJ=%.6f  findvwLTE() = %r" % (
    PSI, TN, hy.vMin, hy.template.vMin, hy.vJ, v))
lo = hy.vMin + 1e-2
scan = [(lo + (hy.vJ - 1e-3 - lo) * k / 7.0) for k in range(8)]
vals = [mismatch(hy, x) for x in scan]
print("mismatch over the window:", " ".join("%.3f:%+.3f" % t for t in zip(scan, vals)))
bad = False
if 0 < v < 1:
    vp, vm, Tp, Tm = hy.matchDeflagOrHyb(v)
    ent = abs(Tp * gam(vp) / (Tm * gam(vm)) - 1)
    tn = hy.solveHydroShock(v, vp, Tp)
    E = mismatch(hy, v)
    print("interior: |T+g+/(T-g-)-1| = %.1e, Tn reached %.8f, mismatch of findMatching %.1e" % (
        ent, tn, E))
    bad = ent > 1e-9 or abs(tn / TN - 1) > 5e-5 or abs(E) > 5e-5
elif v == 0:
    bad = vals[0] > 3e-4
    if bad:
        print("VIOLATION: static sentinel 0, but the mismatch is %+.3f > 0 at vMin+0.01 and "
              "changes sign inside the window" % vals[0])
elif v == 1:
    bad = min(vals) < -3e-4
sys.exit(1 if bad else 0)
