"""C05 demo 1: a temperature scan that re-uses ONE equation-of-state object (as
tests/test_Hydrodynamics.py::test_JouguetVelocity does): model.Tnucl = 0.5 -> solver A,
then model.Tnucl = 0.8 -> solver B.  Property C05 for solver B: findvwLTE() strictly between
0 and 1 must conserve entropy/fluxes/Tn; the static sentinel 0 is only allowed when the entropy
mismatch T+g+/(T-g-)-1 of findMatching already has the stopping (negative) sign at the smallest
allowed velocity.  Exit 0 = property holds for solver B, 1 = violated.
Run: PYTHONPATH=<tree>/src python demo1.py"""
import math
import sys
import warnings

warnings.filterwarnings("ignore")
import WallGo  # noqa: E402


class FE:
    def __init__(s, lo, hi):
        s.minPossibleTemperature, s.maxPossibleTemperature = [lo, False], [hi, False]


class Bag(WallGo.Thermodynamics):
    """p+ = T^4 - (1-psi), p- = psi T^4 (Tc = 1)"""

    def __init__(s, psi, Tn):
        s.psi, s.eps, s.Tnucl = psi, 1.0 - psi, Tn
        s.freeEnergyHigh = s.freeEnergyLow = FE(0.1, 500.0)
        s.TMinLowT = s.TMinHighT = 0.01
        s.TMaxLowT = s.TMaxHighT = 5.0

    def pHighT(s, T): return T ** 4 - s.eps
    def dpHighT(s, T): return 4 * T ** 3
    def ddpHighT(s, T): return 12 * T ** 2
    def pLowT(s, T): return s.psi * T ** 4
    def dpLowT(s, T): return 4 * s.psi * T ** 3
    def ddpLowT(s, T): return 12 * s.psi * T ** 2


def gam(v):
    return 1 / math.sqrt(1 - v * v)


def mismatch(hy, vw):
    vp, vm, Tp, Tm = hy.findMatching(vw)
    return Tp * gam(vp) / (Tm * gam(vm)) - 1


PSI, TN_FIRST, TN_SECOND = 0.2, 0.5, 0.8
model = Bag(PSI, TN_FIRST)
first = WallGo.Hydrodynamics(model, 10.0, 0.01, 1e-6, 1e-10)
print("solver A (Tn=%.2f): findvwLTE = %r" % (TN_FIRST, first.findvwLTE()))
model.Tnucl = TN_SECOND                       # the scan moves on, same model object
second = WallGo.Hydrodynamics(model, 10.0, 0.01, 1e-6, 1e-10)
v = float(second.findvwLTE())
print("solver B (Tn=%.2f): findvwLTE = %r   [vMin=%.6f vJ=%.6f, template built for Tn=%r]" % (
    TN_SECOND, v, second.vMin, second.vJ, second.template.Tnucl))

# referee: an independent object for the same EOS at Tn = 0.8 (never shared with solver A)
ref = WallGo.Hydrodynamics(Bag(PSI, TN_SECOND), 10.0, 0.01, 1e-6, 1e-10)
lo = ref.vMin + 1e-2
E = mismatch(ref, lo)
print("referee: entropy mismatch at vMin+0.01 = %.6f is %+.4f; referee's own vwLTE = %r" % (
    lo, E, ref.findvwLTE()))
bad = False
if 0 < v < 1:
    vp, vm, Tp, Tm = second.matchDeflagOrHyb(v)
    ent = abs(Tp * gam(vp) / (Tm * gam(vm)) - 1)
    tn = second.solveHydroShock(v, vp, Tp)
    Ef = mismatch(ref, v)
    print("interior: |T+g+/(T-g-)-1| = %.2e, Tn reached %.8f, mismatch of findMatching %.2e" % (
        ent, tn, Ef))
    bad = ent > 1e-9 or abs(tn / TN_SECOND - 1) > 5e-5 or abs(Ef) > 5e-5
elif v == 0:
    bad = E > 3e-4        # static sentinel although the mismatch is positive at the low end
    if bad:
        print("VIOLATION: static sentinel 0 but the mismatch is positive at the smallest "
              "allowed velocity (an LTE solution exists inside the window)")
elif v == 1:
    bad = E < -3e-4
sys.exit(1 if bad else 0)
