"""C20 audit2 demo 2 -- "for every real argument including negative ones ... and beyond both ends":
the direct thermal integrals far below the table (m^2/T^2 < -100) still have to be the real and
imaginary parts of the defining integral, and they have to keep depending on the argument.

Run:  PYTHONPATH=<tree>/src python demo2.py      exit 0 = property holds, 1 = broken
"""
import logging
import math
import sys
import warnings

import numpy as np
import scipy.integrate

warnings.simplefilter("ignore")
logging.disable(logging.CRITICAL)
from WallGo.PotentialTools import (EffectivePotentialNoResum, EImaginaryOption,  # noqa: E402
                                    Integrals, JbIntegral, JfIntegral)


def ref(kind, x):
    """(Re J, Im J) for x < 0: quadrature of y^2 Log(1 -+ exp(-i s)), s = sqrt(|x| - y^2), with break
    points at the branch points, plus the ordinary piece beyond sqrt|x|"""
    sgn, pref = (-1.0, 1.0) if kind == "b" else (1.0, -1.0)
    c = math.sqrt(-x)
    brk, k = [], 0
    while True:
        s0 = 2 * math.pi * k if kind == "b" else (2 * k + 1) * math.pi
        if s0 * s0 >= -x:
            break
        if s0 > 0:
            brk.append(math.sqrt(-x - s0 * s0))
        k += 1
    edges = sorted([0.0] + brk + [c])
    q = lambda f, a, b: scipy.integrate.quad(f, a, b, limit=400, epsabs=1e-13, epsrel=1e-13)[0]
    z = lambda y: 1 + sgn * np.exp(-1j * math.sqrt(max(c * c - y * y, 0.0)))
    re = sum(q(lambda y: pref * y * y * math.log(abs(z(y))), a, b)
             for a, b in zip(edges[:-1], edges[1:]))
    im = sum(q(lambda y: pref * y * y * float(np.angle(z(y))), a, b)
             for a, b in zip(edges[:-1], edges[1:]))
    re += q(lambda y: pref * y * y * math.log1p(sgn * math.exp(-math.sqrt(max(y * y + x, 0.0)))),
            c, np.inf)
    return re, im


class Pot(EffectivePotentialNoResum):
    fieldCount = 1

    def evaluate(self, fields, temperature):
        raise NotImplementedError

    def bosonInformation(self, fields, temperature):
        raise NotImplementedError

    def fermionInformation(self, fields, temperature):
        raise NotImplementedError


bad = 0
objs = {"b": JbIntegral(bUseAdaptiveInterpolation=False),
        "f": JfIntegral(bUseAdaptiveInterpolation=False)}
# tolerance 2 %: far looser than the recorded quadrature finding (quad-unresolved-kink, <= 1e-3 here)
for kind, x in (("b", -120.0), ("b", -170.0), ("b", -250.0), ("f", -120.0), ("f", -180.0),
                ("f", -300.0)):
    got = np.asarray(objs[kind](x), dtype=float).ravel()
    want = ref(kind, x)
    ok = all(abs(g - w) <= 2e-2 * max(1.0, abs(w)) for g, w in zip(got, want))
    print("J%s(%7.1f) = (%.6f, %.6f)   defining integral (%.6f, %.6f)   %s"
          % (kind, x, got[0], got[1], want[0], want[1], "ok" if ok else "WRONG"))
    bad += not ok
# the potential: one tachyonic scalar, m^2/T^2 = -160 and -260 must give different V_T / T^4
pot = Pot(integrals=Integrals(), imaginaryOption=EImaginaryOption.PRINCIPAL_PART)
vals = []
for x in (-160.0, -260.0):
    T = 50.0
    bos = (np.array([x * T * T]), np.array([1.0]), np.full(1, 1.5), np.full(1, 1.0))
    fer = (np.array([0.0]), np.array([0.0]), np.full(1, 1.5), np.full(1, 1.0))
    v = float(pot.potentialOneLoopThermal(bos, fer, T)) / T ** 4 * (2 * math.pi ** 2)
    w = ref("b", x)[0]
    ok = abs(v - w) <= 2e-2 * abs(w)
    print("V_T 2pi^2/T^4 at m^2/T^2 = %.0f: %.6f, expected %.6f   %s" % (x, v, w,
                                                                         "ok" if ok else "WRONG"))
    bad += not ok
print("property %s below the table" % ("BROKEN" if bad else "holds"))
sys.exit(1 if bad else 0)
