"""C20 audit2 demo 1 -- the shipped path (EffectivePotentialNoResum(useDefaultInterpolation=True)) must
reproduce the thermal integrals INSIDE the tabulated interval too, value and first derivative.
The potential works on a private deep copy of the default tables whose spline is REBUILT by
setExtrapolationType(CONSTANT, CONSTANT); that rebuilt object is what every shipped model uses.

Run:  PYTHONPATH=<tree>/src python demo1.py      exit 0 = property holds, 1 = broken
"""
import math
import sys
import warnings

import numpy as np
import scipy.integrate

warnings.simplefilter("ignore")
from WallGo.PotentialTools import EffectivePotentialNoResum, EImaginaryOption  # noqa: E402


class Pot(EffectivePotentialNoResum):
    fieldCount = 1

    def evaluate(self, fields, temperature):
        raise NotImplementedError

    def bosonInformation(self, fields, temperature):
        raise NotImplementedError

    def fermionInformation(self, fields, temperature):
        raise NotImplementedError


def re_jb(x):
    """Re Jb(x), x < 0, x > -4 pi^2: independent quadrature of Re y^2 Log(1 - exp(-sqrt(y^2+x)))"""
    c = math.sqrt(-x)
    q = lambda f, a, b: scipy.integrate.quad(f, a, b, limit=400, epsabs=1e-13, epsrel=1e-13)[0]
    neg = q(lambda y: y * y * math.log(abs(2 * math.sin(0.5 * math.sqrt(max(c * c - y * y, 0.0))))
                                       + 1e-300), 0.0, c)
    pos = q(lambda y: y * y * math.log1p(-math.exp(-math.sqrt(max(y * y + x, 0.0)))), c, np.inf)
    return neg + pos


pot = Pot(useDefaultInterpolation=True, imaginaryOption=EImaginaryOption.PRINCIPAL_PART)
bad = 0
T = 100.0
for x in (-19.97, -19.9, -19.8, -19.5, -15.0, -3.0):
    want = re_jb(x)
    h = 1e-4
    dwant = (re_jb(x + h) - re_jb(x - h)) / (2 * h)
    got = float(np.asarray(pot.integrals.Jb(x)).ravel()[0])
    dgot = float(np.asarray(pot.integrals.Jb.derivative(x, 1, True)).ravel()[0])
    # three bosonic degrees of freedom with m^2 = x T^2 through the potential itself
    bos = (np.array([x * T * T]), np.array([3.0]), np.full(1, 1.5), np.full(1, 1.0))
    fer = (np.array([1.0e9]), np.array([0.0]), np.full(1, 1.5), np.full(1, 1.0))
    v = float(pot.potentialOneLoopThermal(bos, fer, T))
    vwant = T ** 4 / (2 * math.pi ** 2) * 3.0 * want
    ok = abs(got - want) <= 1e-5 * abs(want) and abs(dgot - dwant) <= 1e-3 * abs(dwant) and \
        abs(v - vwant) <= 1e-5 * abs(vwant)
    print("x = %7.2f  Re Jb: shipped path %.9f  integral %.9f | d/dx %.6f vs %.6f | V_T %.6e vs %.6e  %s"
          % (x, got, want, dgot, dwant, v, vwant, "ok" if ok else "WRONG"))
    bad += not ok
print("property %s on the shipped path inside the table" % ("BROKEN" if bad else "holds"))
sys.exit(1 if bad else 0)
