import numpy as np, math, sys
sys.path.insert(0,'/verif/tools')
from props import C20 as H
import WallGo.PotentialTools as PT
D=PT.defaultIntegrals
def dref(kind,x,h=1e-5):
    a=H.ref_J(kind,x+h); b=H.ref_J(kind,x-h); return np.array([(a[0]-b[0])/(2*h),(a[1]-b[1])/(2*h)])
for tag,kind,T in (('Jb','b',D.Jb),('Jf','f',D.Jf)):
    xs=np.asarray(T._interpolationPoints); i0=int(np.searchsorted(xs,0.0))
    print(tag,'nodes around 0:',xs[i0-2:i0+3])
    worst=(0,None); worstv=(0,None); worst_mid=(0,None)
    for i in range(i0-4,i0+4):
        for f in (0.0,0.1,0.25,0.5,0.75,0.9):
            x=float(xs[i]+f*(xs[i+1]-xs[i]))
            if abs(x)<2e-5: continue
            d=np.asarray(T.derivative(x,1,True)).ravel(); w=dref(kind,x)
            e=max(abs(d-w)/np.maximum(1,abs(w)))
            v=np.asarray(T(x)).ravel(); wv=np.array(H.ref_J(kind,x)); ev=max(abs(v-wv)/np.maximum(1,abs(wv)))
            if e>worst[0]: worst=(e,x,f)
            if ev>worstv[0]: worstv=(ev,x,f)
            if f==0.5 and e>worst_mid[0]: worst_mid=(e,x)
    print(tag,'worst derivative error (rel to max(1,|d|)):',worst,' at midpoints only:',worst_mid,' worst value error',worstv)
