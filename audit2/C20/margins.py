"""margins of the harness tolerances on the unchanged tree, seed independent (scan instead of sample)"""
import numpy as np, math, sys, warnings
sys.path.insert(0,'/verif/tools')
from props import C20 as H
import WallGo.PotentialTools as PT
from WallGo.PotentialTools import JbIntegral, JfIntegral
D=PT.defaultIntegrals
warnings.simplefilter('ignore')
KINK=H.KINK
out={}
for tag,kind,T in (('Jb','b',D.Jb),('Jf','f',D.Jf)):
    xs=np.asarray(T._interpolationPoints); vs=np.asarray(T._interpolationValues); n=len(xs)
    # (iii) rows
    worst=(0,None)
    for i in list(range(0,n)) if False else [i for i in range(n) if xs[i]<=60.0]:
        x=float(xs[i])
        if x<KINK[kind]: continue
        w=H.ref_J(kind,x)
        r=max(abs(vs[i,0]-w[0])/(2e-8*max(1,abs(w[0]))), abs(vs[i,1]-w[1])/(2e-8*max(1,abs(w[1]))))
        if r>worst[0]: worst=(r,x)
    print(tag,'(iii) row vs integral, x in [KINK,60]: max err/tol',worst,flush=True)
    # (iv) midpoints
    h=1e-3
    cls={'generic':(0,None,0,None),'near0':(0,None,0,None),'nearpi':(0,None,0,None)}
    idx=[i for i in range(n-1) if xs[i]<100.0 and xs[i]>=KINK[kind]+15*(xs[1]-xs[0])]+list(range(int(np.searchsorted(xs,100.0)),n-1,40))
    for i in idx:
        x=float(0.5*(xs[i]+xs[i+1]))
        near0=abs(x)<1.0; nearpi=tag=='Jf' and abs(x+math.pi**2)<1.0
        tolv=2e-3 if near0 else 6e-3 if nearpi else 1e-6
        told=2e-2 if near0 else 8e-2 if nearpi else 2e-5
        w=H.ref_J(kind,x); g=np.asarray(T(x)).ravel(); dg=np.asarray(T.derivative(x,1,True)).ravel()
        wp,wm=H.ref_J(kind,x+h),H.ref_J(kind,x-h)
        dw=[(wp[0]-wm[0])/(2*h),(wp[1]-wm[1])/(2*h)]
        rv=max(abs(g[p]-w[p])/(tolv*max(1,abs(w[p]))) for p in (0,1))
        rd=max(abs(dg[p]-dw[p])/(told*max(1,abs(dw[p]))) for p in (0,1))
        k='near0' if near0 else 'nearpi' if nearpi else 'generic'
        a=cls[k]
        cls[k]=(max(a[0],rv), x if rv>a[0] else a[1], max(a[2],rd), x if rd>a[2] else a[3])
    print(tag,'(iv) midpoints: class -> (max value err/tol, at x, max deriv err/tol, at x)',cls,flush=True)
# heavy envelope
for tag,kind,cls_ in (('Jb','b',JbIntegral),('Jf','f',JfIntegral)):
    o=cls_(bUseAdaptiveInterpolation=False)
    lo=(9,None); hi=(0,None)
    for x in np.concatenate([np.linspace(50,1000,96),np.linspace(1000,3000,21)]):
        env=math.sqrt(math.pi/2)*x**0.75*math.exp(-math.sqrt(x))*(1+15/(8*math.sqrt(x)))
        j=abs(H.impl_J(o,float(x))[0])
        if env>1e-9:
            r=j/env
            if r<lo[0]: lo=(r,x)
            if r>hi[0]: hi=(r,x)
    print(tag,'heavy: |J|/envelope min',lo,'max',hi,' (accepted 0.9..1.05 up to 3e-11)',flush=True)
# SB on tables
for tag,exact,T in (('Jb',-math.pi**4/45,D.Jb),('Jf',-7*math.pi**4/360,D.Jf)):
    g=float(np.asarray(T(0.0)).ravel()[0]); print(tag,'table J(0) rel err',abs(g-exact)/abs(exact),'tol 5e-4 (sum)')
