import sys, types, random, os, importlib, collections
sys.path.insert(0,'/verif/tools')
C13 = importlib.import_module('props.C13')
scale = float(sys.argv[1]); seed = sys.argv[2]
orig = C13.c_round
C13.c_round = lambda grid: scale*orig(grid)
fails = collections.Counter()
class Ctx:
    quick=True
    def __init__(s): s.rng=random.Random("%s:C13"%seed); s.cov={}; s.broken=[]
    def count(s,*a,**k): pass
    def sample(s,*a): pass
    def log(s,*a): print("LOG",*[str(x)[:200] for x in a])
    def fail_input(s, what, rep, key=None): fails[key]+=1; 
    def n(s,q,t): return q
ctx=Ctx()
cfgs=C13.configs(ctx)
for k,cfg in enumerate(cfgs):
    C13.check_exact(ctx,cfg)
    if k%2==0 or cfg.get("derivatives"): C13.check_generic(ctx,cfg)
for cfg in C13.implicit_configs(ctx): C13.check_implicit(ctx,cfg)
C13.check_gcl(ctx,[3,5,7,9,11]); C13.check_U_orthogonality(ctx,20)
print("scale",scale,"seed",seed,"fails",dict(fails),"broken",ctx.broken,"worst",ctx.cov.get("worst_rounding_ratio"))
