"""C13 demo 1 (second audit): the mass profile that getDeltas integrates with is the one of the
background that was INSTALLED with setBackground.

A script (or EOM) keeps its own Fields object for the wall profile and updates it in place
between iterations (Fields.setField is documented to operate in place).  setBackground is
specified to install a deep copy of the whole background, so editing the caller's array
afterwards must not change the moments of a given deviation: they must stay the quadrature sums
of  pp dpz dpp/(4 pi^2 E) {1, pz^2, E^2, E pz} deltaF  with E built from the masses of the
installed profile (reference written out from the definitions: own nodes, maps, Jacobians,
masses), and T30/T33 assembled from them must stay the boosted direct sums.
Exit 0 when everything agrees to 1e-10 of the sum of absolute terms, else 1.
"""
import sys
import types
import numpy as np
import WallGo
from WallGo.collisionArray import CollisionArray

M, N, T0, v = 8, 7, 100.0, -0.55
rng = np.random.default_rng(5)
top = WallGo.Particle(
    name="top", index=0,
    msqVacuum=lambda f: 0.5 * f.getField(0) ** 2,
    msqDerivative=lambda f: np.transpose([f.getField(0)]),
    statistics="Fermion", totalDOFs=12)
grid = WallGo.Grid3Scales(M, N, 2.5, 3.0, 1.0, T0, 0.5)
chi, rz, rp = grid.getCompactCoordinates()
x = np.linspace(-2, 2, M + 1)
phiInstalled = 75.0 * (1 + np.tanh(x)) + 1.0           # the wall of this iteration
phiNext = 110.0 * (1 + np.tanh(2.5 * x)) + 1.0          # the caller's next iterate

fields = WallGo.Fields(phiInstalled[:, None].copy())    # the caller's own profile object
bg = WallGo.BoltzmannBackground(
    velocityMid=v, velocityProfile=v * np.ones(M + 1), fieldProfiles=fields,
    temperatureProfile=T0 * np.ones(M + 1))

solver = WallGo.BoltzmannSolver(grid, "Cardinal", "Chebyshev", "Spectral")
solver.updateParticleList([top])
coll = CollisionArray(grid, "Chebyshev", [top])
coll.polynomialData.coefficients[...] = 0.0
solver.setCollisionArray(coll)
solver.setBackground(bg)

nodal = rng.standard_normal((1, M - 1, N - 1, N - 1))
poly = WallGo.Polynomial(nodal.copy(), grid, ("Array", "Cardinal", "Cardinal", "Cardinal"),
                         ("Array", "z", "pz", "pp"), False)
poly.changeBasis(("Array", "Cardinal", "Chebyshev", "Chebyshev"))
deltaF = np.array(poly.coefficients)

before = solver.getDeltas(deltaF.copy()).Deltas
fields.setField(0, phiNext)          # caller prepares its next iterate; nothing is re-installed
after = solver.getDeltas(deltaF.copy()).Deltas

# ---- reference for the installed profile, from the definitions only
pz = 2 * T0 * np.arctanh(rz)[None, :, None]
pp = -T0 * np.log((1 - rp) / 2)[None, None, :]
msq = (0.5 * phiInstalled[1:-1] ** 2)[:, None, None]
E = np.sqrt(msq + pz ** 2 + pp ** 2)
qz = (np.pi / N * np.sqrt(1 - rz ** 2) * 2 * T0 / (1 - rz ** 2))[None, :, None]
qp = np.pi / (N - 1) * np.sqrt(1 - rp ** 2) * T0 / (1 - rp)
qp[0] *= 0.5
meas = qz * qp[None, None, :] * pp / (4 * np.pi ** 2 * E)
ws = dict(Delta00=np.ones_like(E), Delta02=pz ** 2 * np.ones_like(E), Delta20=E ** 2, Delta11=E * pz)
bad = 0
for name, w in ws.items():
    ref = np.sum(meas * w * nodal[0], axis=(1, 2))
    scale = np.sum(np.abs(meas * w * nodal[0]), axis=(1, 2))
    for tag, D in (("right after setBackground", before), ("after the caller edited ITS array", after)):
        got = np.asarray(getattr(D, name).coefficients, dtype=float)[0]
        err = float(np.max(np.abs(got - ref) / scale))
        ok = err < 1e-10
        bad += not ok
        print("%-8s %-34s max |moment - integral| / sum|terms| = %.3e  %s" % (
            name, tag, err, "ok" if ok else "NOT the integral with the installed mass profile"))
# T30/T33 from the moments vs the boosted direct sums
u0 = 1 / np.sqrt(1 - v * v)
u3 = u0 * v
p0, p3 = u0 * E + u3 * pz, u3 * E + u0 * pz
eom = types.SimpleNamespace(particles=[top])
i = (M - 1) // 2
T30, T33 = WallGo.EOM.deltaToTmunu(eom, i, WallGo.Fields(phiInstalled[:, None]).getFieldPoint(i + 1),
                                   v, after)
r30 = 12 * float(np.sum(meas[i] * (p3 * p0)[i] * nodal[0, i]))
r33 = 12 * float(np.sum(meas[i] * (p3 * p3)[i] * nodal[0, i]))
sc = 12 * float(np.sum(np.abs(meas[i]) * (E[i] ** 2 + pz[0] ** 2) * np.abs(nodal[0, i]))) * 4 * (u0 + abs(u3)) ** 2
for nm, a, b in (("T30", float(np.ravel(T30)[0]), r30), ("T33", float(np.ravel(T33)[0]), r33)):
    ok = abs(a - b) < 1e-10 * sc
    bad += not ok
    print("%s(z_%d) = %.10g   boosted direct sum = %.10g   %s" % (nm, i, a, b, "ok" if ok else "WRONG"))
print("demo1:", "property holds" if not bad else "property VIOLATED (%d comparisons)" % bad)
sys.exit(1 if bad else 0)
