import sys, os
sys.path.insert(0,'/verif/tools')
import gen_moments, pyrx
SRC='/tmp/wt2/C13/src/WallGo'
def rd(f): return open(os.path.join(SRC,f)).read()
files=("grid.py","polynomial.py","boltzmann.py","equationOfMotion.py","helpers.py")
base={f:rd(f) for f in os.listdir(SRC) if f.endswith('.py')}
def gen(pk):
    return gen_moments.generate(*[pk[f] for f in files], package=pk)[0]
ref=gen(base)
def probe(name, f, old, new, count=1):
    pk=dict(base)
    assert old in pk[f], (name,'anchor missing')
    pk[f]=pk[f].replace(old,new,count)
    try:
        compile(pk[f], f, 'exec')
    except SyntaxError as e:
        print(name,'SYNTAX',e); return
    try:
        t=gen(pk)
        print("%-52s %s" % (name, "IDENTICAL model (slips)" if t==ref else "model differs (left to the proofs)"))
    except pyrx.TranslateError as e:
        print("%-52s FAIL-CLOSED: %s" % (name, str(e)[:90]))
B='boltzmann.py'
probe("observer added: _ = self._fix(deltaF)", B, "        particles = self.offEqParticles\n\n        # constructing Polynomial class from deltaF", "        particles = self.offEqParticles\n        _u = self._fix(deltaF)\n\n        # constructing Polynomial class from deltaF")
probe("bare call self._fix(deltaF)", B, "        particles = self.offEqParticles\n\n        # constructing Polynomial class from deltaF", "        particles = self.offEqParticles\n        self._fix(deltaF)\n\n        # constructing Polynomial class from deltaF")
probe("np.nan_to_num(deltaF, copy=False) bare", B, "        particles = self.offEqParticles\n\n        # constructing Polynomial class from deltaF", "        particles = self.offEqParticles\n        np.nan_to_num(deltaF, copy=False)\n\n        # constructing Polynomial class from deltaF")
probe("x = np.clip(deltaF,...,out=deltaF)", B, "        particles = self.offEqParticles\n\n        # constructing Polynomial class from deltaF", "        particles = self.offEqParticles\n        clipped = np.clip(deltaF, -1, 1, out=deltaF)\n\n        # constructing Polynomial class from deltaF")
probe("observer with extra arg self.f(deltaF, True)", B, "self.estimateTruncationError(deltaF)", "self.estimateTruncationError(deltaF, True)")
probe("in-place inside estimateTruncationError", B, "        deltaFMeanAbs = np.sum(\n            np.abs(deltaFPoly.coefficients),", "        np.abs(deltaFPoly.coefficients, out=deltaFPoly.coefficients)\n        deltaFMeanAbs = np.sum(\n            np.abs(deltaFPoly.coefficients),")
probe("energy with np.maximum(msq,0)", B, "energy = np.sqrt(msq + pz**2 + pp**2)\n\n        _, dpzdrz", "energy = np.sqrt(np.maximum(msq, 0) + pz**2 + pp**2)\n\n        _, dpzdrz")
probe("integrand.astype(float32)", B, "integrand = dpzdrz * dppdrp * pp / (4 * np.pi**2 * energy)\n\n        Delta00", "integrand = (dpzdrz * dppdrp * pp / (4 * np.pi**2 * energy)).astype(np.float32)\n\n        Delta00")
probe("integrate axes (3,2)", B, "(2, 3), integrand\n        )\n        Delta02", "(3, 2), integrand\n        )\n        Delta02")
probe("msq from self.background.fieldProfiles[1:-1]", B, "particle.msqVacuum(field) for particle in particles", "particle.msqVacuum(self.background.fieldProfiles[1:-1]) for particle in particles")
probe("field slice (1,-1) -> (0,-2)", B, "fieldProfiles.takeSlice(\n            1, -1,", "fieldProfiles.takeSlice(\n            0, -2,")
probe("pz from getCoordinates()", B, "pz = self.grid.pzValues[None, None, :, None]\n        pp = self.grid.ppValues[None, None, None, :]\n        msq = np.array([particle.msqVacuum(field)", "_, pz, pp = self.grid.getCoordinates()\n        pz = pz[None, None, :, None]\n        pp = pp[None, None, None, :]\n        msq = np.array([particle.msqVacuum(field)")
probe("return Deltas=Deltas*1 ", B, "            Deltas=Deltas,\n            truncationError", "            Deltas=1.0 * Deltas,\n            truncationError")
probe("setBackground: copy.copy", B, "self.background = deepcopy(\n            background\n        )", "self.background = copy(background)")
probe("second def getDeltas later in class (shadowing)", B, "    def solveBoltzmannEquations(self)", "    def getDeltas(self, deltaF=None):\n        return None\n\n    def solveBoltzmannEquations(self)")
probe("__init__ copies the grid", B, "        self.grid = grid\n        BoltzmannSolver._checkDerivatives", "        self.grid = deepcopy(grid)\n        BoltzmannSolver._checkDerivatives")
G='grid.py'
probe("Grid new method slice-store pzValues[:]", G, "    def getCompactCoordinates(", "    def rescaleMomenta(self, f):\n        self.pzValues[:] = self.pzValues * f\n        self.ppValues[:] = self.ppValues * f\n\n    def getCompactCoordinates(")
probe("Grid new method np.multiply(out=self.dpzdrz)", G, "    def getCompactCoordinates(", "    def rescaleMomenta(self, f):\n        np.multiply(self.dpzdrz, f, out=self.dpzdrz)\n\n    def getCompactCoordinates(")
probe("Grid new method AugAssign self.pzValues *= f", G, "    def getCompactCoordinates(", "    def rescaleMomenta(self, f):\n        self.pzValues *= f\n\n    def getCompactCoordinates(")
probe("getCompactificationDerivatives early return", G, "        if endpoints:\n            dxidchi = np.array([np.inf] + list(self.dxidchi) + [np.inf])", "        if self.N > 15:\n            return self.dxidchi, np.abs(self.dpzdrz), self.dppdrp\n        if endpoints:\n            dxidchi = np.array([np.inf] + list(self.dxidchi) + [np.inf])")
probe("__init__ nudges rpValues after caching", G, "        self._cacheCoordinates()\n\n    def _cacheCoordinates", "        self._cacheCoordinates()\n        self.rpValues = self.rpValues + 1e-9\n\n    def _cacheCoordinates")
G3='grid3Scales.py'
probe("G3 _updateParameters slice-store", G3, "        assert wallThickness > 0", "        self.pzValues[:] = 0\n        assert wallThickness > 0")
P='polynomial.py'
probe("integrate: weight=np.abs(weight) before", P, "        # Express the integrated axes in the cardinal basis\n        basis = []", "        weight = np.abs(weight)\n        # Express the integrated axes in the cardinal basis\n        basis = []")
probe("integrate: result clipped after np.sum", P, "        result = np.sum(integrand, axis)\n", "        result = np.sum(integrand, axis)\n        if np.asanyarray(result).ndim > 0:\n            result[np.abs(result) < 1e-300] = 0.0\n")
probe("integrate: returned Polynomial(np.abs(result))", P, "        return Polynomial(\n            result,\n            self.grid,\n            tuple(newBasis),", "        return Polynomial(\n            np.abs(result),\n            self.grid,\n            tuple(newBasis),")
probe("integrate: newBasis.append('Cardinal')", P, "                newBasis.append(self.basis[i])", "                newBasis.append(\"Cardinal\")")
E='equationOfMotion.py'
probe("EOM local gammaSq shadows helpers'", E, "class EOM:", "def gammaSq(v):\n    return 1.0 / (1.0 - min(v * v, 0.98))\n\n\nclass EOM:")
probe("deltaToTmunu index+1", E, "Delta00 = offEquilDeltas.Delta00.coefficients[  # pylint: disable=invalid-name\n            :, index\n        ]", "Delta00 = offEquilDeltas.Delta00.coefficients[  # pylint: disable=invalid-name\n            :, index + 1\n        ]")
