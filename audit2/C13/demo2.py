"""C13 demo 2 (second audit): the moments returned by getDeltas(deltaF) are the momentum integrals
of the deviation THAT WAS HANDED IN, for every solver basis, and the caller's array is not
modified.

A class deviation is built on a solver in the (Chebyshev, Chebyshev) representation (the basis in
which getDeltas' own truncation estimate needs no change of basis): its integrand is
T0^3/pi^2 sqrt(1-rz^2) A(rz) sqrt(1-rp^2) B(rp) g(chi)  with polynomials A, B inside the exactness
degree of the grid, so every moment must equal  g(chi_i) * int A * int B * T0^3/pi^2  (closed
form).  The same deviation on a (Cardinal, Chebyshev) solver is the control.
Exit 0 when all moments agree with the closed form to 1e-9 and deltaF comes back untouched, else 1.
"""
import math
import sys
import numpy as np
from numpy.polynomial import chebyshev as npcheb
import WallGo
from WallGo.collisionArray import CollisionArray

M, N, T0 = 6, 7, 100.0
top = WallGo.Particle(
    name="top", index=0,
    msqVacuum=lambda f: 0.5 * f.getField(0) ** 2,
    msqDerivative=lambda f: np.transpose([f.getField(0)]),
    statistics="Fermion", totalDOFs=12)
grid = WallGo.Grid3Scales(M, N, 2.5, 3.0, 1.0, T0, 0.5)
chi, rz, rp = grid.getCompactCoordinates()
x = np.linspace(-2, 2, M + 1)
phi = 60.0 * (1 + np.tanh(x)) + 1.0
bg = WallGo.BoltzmannBackground(
    velocityMid=-0.5, velocityProfile=-0.5 * np.ones(M + 1),
    fieldProfiles=WallGo.Fields(phi[:, None]), temperatureProfile=T0 * np.ones(M + 1))


def wmoment(j):        # int_{-1}^{1} sqrt(1-x^2) x^j dx
    if j % 2:
        return 0.0
    m = j // 2
    return math.pi * math.factorial(2 * m) / (2 ** (2 * m + 1) * math.factorial(m) * math.factorial(m + 1))


A = [5.0, 1.0, -0.5, 0.75, 0.25]          # degree 4 <= 2N-3
B = [4.0, -1.0, 0.5]                      # degree 2 <= 2(N-1)-3
intA = sum(c * wmoment(j) for j, c in enumerate(A))
intB = sum(c * wmoment(j) for j, c in enumerate(B))
g = (1 - chi ** 2) * (1 + 0.5 * chi)
closed = g * intA * intB * T0 ** 3 / math.pi ** 2

pz = 2 * T0 * np.arctanh(rz)[None, :, None]
pp = -T0 * np.log((1 - rp) / 2)[None, None, :]
E = np.sqrt((0.5 * phi[1:-1] ** 2)[:, None, None] + pz ** 2 + pp ** 2)
rz3, rp3 = rz[None, :, None], rp[None, None, :]
with np.errstate(divide="ignore", invalid="ignore"):
    base = (2 * E * (1 - rz3 ** 2) * (1 - rp3 ** 2)
            * np.sqrt((1 - rz3 ** 2) * (1 - rp3) ** 2 / (1 - rp3 ** 2)) / np.log(2 / (1 - rp3)))
base = np.where(np.isfinite(base), base, 0.0)
base = base * np.polyval(A[::-1], rz3) * np.polyval(B[::-1], rp3) * g[:, None, None]
ws = dict(Delta00=np.ones_like(E), Delta02=pz ** 2 * np.ones_like(E), Delta20=E ** 2, Delta11=E * pz)


def restricted(xx, orders, full):
    cols = []
    for n in orders:
        tn = npcheb.chebval(xx, [0] * n + [1])
        cols.append(tn - ((1 if n % 2 == 0 else xx) if full else 1))
    return np.array(cols).T


def to_repr(nodal, bM, bN):        # nodal values -> coefficients, independent of WallGo
    out = nodal
    if bM == "Chebyshev":
        out = np.einsum("ni,aijk->anjk", np.linalg.inv(restricted(chi, range(2, M + 1), True)), out)
    if bN == "Chebyshev":
        out = np.einsum("nj,aijk->aink", np.linalg.inv(restricted(rz, range(2, N + 1), True)), out)
        out = np.einsum("nk,aijk->aijn", np.linalg.inv(restricted(rp, range(1, N), False)), out)
    return out


bad = 0
for bM, bN in (("Cardinal", "Chebyshev"), ("Chebyshev", "Chebyshev")):
    solver = WallGo.BoltzmannSolver(grid, bM, bN, "Spectral")
    solver.updateParticleList([top])
    solver.setBackground(bg)
    coll = CollisionArray(grid, bN, [top])
    coll.polynomialData.coefficients[...] = 0.0
    solver.setCollisionArray(coll)
    for name, w in ws.items():
        deltaF = to_repr((base / w)[None], bM, bN)
        handed = deltaF.copy()
        D = solver.getDeltas(deltaF).Deltas
        got = np.asarray(getattr(D, name).coefficients, dtype=float)[0]
        err = float(np.max(np.abs(got / closed - 1)))
        same = bool(np.array_equal(handed, deltaF))
        ok = err < 1e-9 and same
        bad += not ok
        print("%-9s/%-9s %s: max |moment/integral - 1| = %.2e, caller's deltaF %s   %s" % (
            bM, bN, name, err, "untouched" if same else "OVERWRITTEN", "ok" if ok else "WRONG"))
print("demo2:", "property holds" if not bad else "property VIOLATED (%d comparisons)" % bad)
sys.exit(1 if bad else 0)
