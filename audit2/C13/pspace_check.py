import numpy as np, WallGo
from scipy.integrate import dblquad
from WallGo.collisionArray import CollisionArray
T0=100.0; M=3
for N in (11, 21, 35):
    grid=WallGo.Grid3Scales(M,N,2.5,3.0,1.0,T0,0.5)
    top=WallGo.Particle(name="top",index=0,msqVacuum=lambda f:0.5*f.getField(0)**2,msqDerivative=lambda f:np.transpose([f.getField(0)]),statistics="Fermion",totalDOFs=12)
    phi=np.array([0.0,0.0,120.0,120.0])
    bg=WallGo.BoltzmannBackground(velocityMid=-0.5,velocityProfile=-0.5*np.ones(M+1),fieldProfiles=WallGo.Fields(phi[:,None]),temperatureProfile=T0*np.ones(M+1))
    s=WallGo.BoltzmannSolver(grid,"Cardinal","Cardinal","Spectral"); s.updateParticleList([top]); s.setBackground(bg)
    c=CollisionArray(grid,"Cardinal",[top]); c.polynomialData.coefficients[...]=0; s.setCollisionArray(c)
    _,pz,pp=grid.getCoordinates()
    def df(pz,pp,msq): 
        E=np.sqrt(msq+pz**2+pp**2); return np.exp(-4*E/T0)*(1+0.3*pz/T0)*(pp/T0)**2
    msqs=0.5*phi[1:-1]**2
    dF=np.array([[df(pz[:,None],pp[None,:],m) for m in msqs]])
    D=s.getDeltas(dF).Deltas
    for iz,m in enumerate(msqs):
        for name,w in (("Delta00",lambda E,pz:1.0),("Delta02",lambda E,pz:pz**2),("Delta20",lambda E,pz:E**2),("Delta11",lambda E,pz:E*pz)):
            f=lambda pp_,pz_: pp_/(4*np.pi**2*np.sqrt(m+pz_**2+pp_**2))*w(np.sqrt(m+pz_**2+pp_**2),pz_)*df(pz_,pp_,m)
            ref,err=dblquad(f,-60*T0,60*T0,0,60*T0,epsabs=0,epsrel=1e-10)
            got=getattr(D,name).coefficients[0,iz]
            print("N=%d msq=%g %s getDeltas=%.10g  p-space dblquad=%.10g  rel diff %.2e"%(N,m,name,got,ref,abs(got/ref-1)))
