import sys, os
os.environ["WALLGO_REPO"] = "/tmp/wt2/C12"
sys.path.insert(0, "/verif/tools")
import vlib, gen_boltz, pyrx
def gen(b=None, e=None, c=None, k=None, extra=None):
    b = b or vlib.read_src("boltzmann.py"); e = e or vlib.read_src("equationOfMotion.py")
    c = c or vlib.read_src("collisionArray.py"); k = k or vlib.read_src("containers.py")
    reach = {f: vlib.read_src(f) for f in gen_boltz.REACHABLE}
    reach["boltzmann.py"], reach["containers.py"], reach["collisionArray.py"] = b, k, c
    if extra: reach.update(extra)
    try:
        return gen_boltz.generate(b, e, c, k, reach)[0]
    except pyrx.TranslateError as ex:
        return "FAILCLOSED: %s" % ex
import re
strip=lambda t: re.sub(r"\(\*.*?\*\)", "", t, flags=re.S)
base = strip(gen())
B, E, C, K = (vlib.read_src(f) for f in ("boltzmann.py", "equationOfMotion.py", "collisionArray.py", "containers.py"))
def rep(s, a, b_):
    assert a in s, a
    return s.replace(a, b_, 1)
def show(name, out):
    print("%-60s %s" % (name, "IDENTICAL MODEL (slips)" if strip(out) == base else (out[:110] if out.startswith("FAIL") else "model differs")))
show("S1a FD path sets derivatives='Spectral'", gen(e=rep(E, 'boltzmannSolverFiniteDifference.derivatives = "Finite Difference"', 'boltzmannSolverFiniteDifference.derivatives = "Spectral"')))
show("S1b FD path changeBasis('Chebyshev')", gen(e=rep(E, 'boltzmannSolverFiniteDifference.collisionArray.changeBasis("Cardinal")', 'boltzmannSolverFiniteDifference.collisionArray.changeBasis("Chebyshev")')))
show("S2a __deepcopy__ attached after the class body", gen(k=K + "\n\ndef _bgcopy(self, memo):\n    return BoltzmannBackground(self.velocityMid, self.velocityProfile, self.fieldProfiles, self.temperatureProfile)\nBoltzmannBackground.__deepcopy__ = _bgcopy\n"))
show("S2b hook inherited from a mixin in helpers.py", gen(k=rep(K, "class BoltzmannBackground:", "class BoltzmannBackground(helpers.CopyMixin):")))
show("S3a collision rebound after build in checkLinearization", gen(b=rep(B, "        collisionDeltaF = np.sum(", "        collision = self.collisionMultiplier * (temperature**2)[:, :, :, :, None, None, None, None] * np.identity(self.grid.M - 1)[None, :, None, None, None, :, None, None] * self.collisionArray[:, None, :, :, :, None, :, :]\n        collisionDeltaF = np.sum(")))
show("S3b second raw solution under another name in getDeltas", gen(b=rep(B, "        particles = self.offEqParticles\n\n        # constructing Polynomial class from deltaF array", "        raw = self.solveBoltzmannEquations()\n        truncationError = float(np.abs(raw[:, -1]).sum() / np.abs(raw).sum())\n        particles = self.offEqParticles\n\n        # constructing Polynomial class from deltaF array")))
show("S3c deltaFPoly converted back to the solver basis later", gen(b=rep(B, "        # Take all field-space points, but throw the boundary points away", '        deltaFPoly.changeBasis(("Array", self.basisM, "Cardinal", "Cardinal"))\n        # Take all field-space points, but throw the boundary points away')))
show("S4a lru_cache decorator on buildLinearEquations", gen(b=rep(B, "    def buildLinearEquations(", "    @functools.lru_cache(maxsize=1)\n    def buildLinearEquations(")))
show("S4b __setattr__ hook on BoltzmannSolver", gen(b=rep(B, "    def setBackground(self, background", "    def __setattr__(self, k, v):\n        object.__setattr__(self, k, v)\n\n    def setBackground(self, background")))
show("S4c basisN turned into a property", gen(b=rep(B, "    def setBackground(self, background", "    @property\n    def basisN(self):\n        return self._basisN\n\n    @basisN.setter\n    def basisN(self, v):\n        self._basisN = v\n\n    def setBackground(self, background")))
show("S5a spectral T profile reversed before differentiation", gen(b=rep(B, "                temperatureFull,\n                self.grid,", "                temperatureFull[::-1],\n                self.grid,")))
show("S5b FD uses transposed matrix", gen(b=rep(B, "dvdChi = (derivMatrixChi @ vFull)[None, 1:-1, None, None]", "dvdChi = (derivMatrixChi.T @ vFull)[None, 1:-1, None, None]")))
show("S5c findiff acc=1", gen(b=rep(B, "derivOperatorChi = findiff.FinDiff((0, chiFull, 1), acc=2)", "derivOperatorChi = findiff.FinDiff((0, chiFull, 1), acc=1)")))
show("S6 setBackground: boost called twice", gen(b=rep(B, "        self.background.boostToPlasmaFrame()\n", "        self.background.boostToPlasmaFrame()\n        self.background.boostToPlasmaFrame()\n")))
show("S7 second np.linalg.solve refinement in solve", gen(b=rep(B, "        deltaF = np.linalg.solve(operator, source)\n", "        deltaF = np.linalg.solve(operator, source)\n        deltaF = deltaF.astype(np.float32)\n")))
show("S8 updateParticleList copies/filters the list", gen(b=rep(B, "        self.offEqParticles = offEqParticles\n", "        self.offEqParticles = sorted(offEqParticles, key=lambda p: p.index)\n")))
show("S9 setCollisionArray converts a shallow copy", gen(b=rep(B, "        self.collisionArray = collisionArray\n", "        self.collisionArray = copy.copy(collisionArray).changeBasis(self.basisN)\n")))
