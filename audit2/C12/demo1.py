"""C12, clause 4: the source and Liouville terms built with finite-difference derivatives converge
to the spectral ones as the spatial grid is refined -- for EVERY set of particles.
Two particles (a boson and a fermion with different couplings) in a wall where only the field
varies: the FD source must approach the spectral source (2nd order) for M = 10, 20, 40.
Exit 0 if it converges (rel. difference at M=40 below 2e-2 and falling by > 2.5 per doubling), else 1.
Run:  PYTHONPATH=<tree>/src python demo1.py"""
import sys
import numpy as np
import WallGo
from WallGo.grid import Grid
from WallGo.collisionArray import CollisionArray


def particle(i, stat, c):
    return WallGo.Particle(name="p%d" % i, index=i, msqVacuum=lambda phi: c * phi.getField(0) ** 2,
                           msqDerivative=lambda phi: 2 * c * phi.getField(0), statistics=stat,
                           totalDOFs=12)


def terms(M, mode, ps):
    grid = Grid(M, 3, 1.0, 100.0)
    xi = np.concatenate(([-np.inf], grid.xiValues, [np.inf]))
    prof = 0.5 * (1 + np.tanh(xi / 1.0))
    bg = WallGo.BoltzmannBackground(velocityMid=-0.5, velocityProfile=np.full(M + 1, -0.5),
                                    fieldProfiles=WallGo.Fields(np.transpose([50.0 * (1 - 0.8 * prof)])),
                                    temperatureProfile=np.full(M + 1, 100.0))
    s = WallGo.BoltzmannSolver(grid, "Cardinal", "Cardinal", mode)
    s.updateParticleList(ps)
    s.setBackground(bg)
    ca = CollisionArray(grid, "Cardinal", ps)
    ca.polynomialData.coefficients[...] = 0.0
    s.setCollisionArray(ca)
    _, src, liou, _ = s.buildLinearEquations()
    chi, rz, rp = grid.getCompactCoordinates(endpoints=False)
    g = ((1 - chi ** 2)[None, :, None, None] * (1 - rz ** 2)[None, None, :, None]
         * (1 - rp)[None, None, None, :] * np.ones((len(ps), 1, 1, 1)))
    return src.reshape(len(ps), -1), np.sum(liou * g[None, None, None, None], axis=(4, 5, 6, 7)).reshape(len(ps), -1)


rel = lambda a, b: float(np.linalg.norm(a - b) / np.linalg.norm(b))
bad = False
for label, ps in (("one particle", [particle(0, "Boson", 0.9)]),
                  ("two particles", [particle(0, "Boson", 0.9), particle(1, "Fermion", 0.3)])):
    es, el = [], []
    for M in (10, 20, 40):
        (s, l), (sf, lf) = terms(M, "Spectral", ps), terms(M, "Finite Difference", ps)
        es.append(rel(sf, s))
        el.append(rel(lf, l))
    print("%-14s source    FD vs spectral at M=10,20,40: %s" % (label, ["%.2e" % e for e in es]))
    print("%-14s liouville FD vs spectral at M=10,20,40: %s" % (label, ["%.2e" % e for e in el]))
    for e in (es, el):
        if not (e[2] < 2e-2 and e[1] < e[0] / 2.5 and e[2] < e[1] / 2.5):
            bad = True
print("NOT CONVERGING: the finite-difference terms do not approach the spectral ones" if bad
      else "ok: finite-difference terms converge to the spectral ones")
sys.exit(1 if bad else 0)
