"""C12: the finite-difference cross-check EOM.getBoltzmannFiniteDifference() must be the
finite-difference solve of the SAME problem (same background, same collision operator), so that
its source/Liouville/solution converge to the spectral ones.  A solver in the default bases
(Cardinal, Chebyshev) is cross-checked through the real EOM method and compared with an
independently built finite-difference solver.  Exit 0 if they agree to 1e-9, else 1.
Run:  PYTHONPATH=<tree>/src python demo2.py"""
import copy
import sys
import numpy as np
import WallGo
from WallGo.grid import Grid
from WallGo.polynomial import Polynomial
from WallGo.collisionArray import CollisionArray
from WallGo.equationOfMotion import EOM

M, N = 10, 5
grid = Grid(M, N, 1.0, 100.0)
ps = [WallGo.Particle(name="top", index=0, msqVacuum=lambda phi: 0.5 * phi.getField(0) ** 2,
                      msqDerivative=lambda phi: phi.getField(0), statistics="Fermion", totalDOFs=12)]
xi = np.concatenate(([-np.inf], grid.xiValues, [np.inf]))
prof = 0.5 * (1 + np.tanh(xi))
bg = WallGo.BoltzmannBackground(velocityMid=-0.5, velocityProfile=-0.5 + 0.05 * (prof - 0.5),
                                fieldProfiles=WallGo.Fields(np.transpose([60.0 * (1 - 0.9 * prof)])),
                                temperatureProfile=100.0 * (1 + 0.1 * (prof - 0.5)))
n = N - 1
rng = np.random.default_rng(7)
data = 0.02 * (np.eye(n * n) + 0.2 * rng.normal(size=(n * n, n * n)) / n).reshape(1, n, n, 1, n, n)
collCardinal = CollisionArray.newFromPolynomial(
    Polynomial(data.copy(), grid, ("Array", "Cardinal", "Cardinal", "Array", "Cardinal", "Cardinal"),
               CollisionArray.AXIS_TYPES, endpoints=False), ps)


def solver(basisN, mode):
    s = WallGo.BoltzmannSolver(grid, "Cardinal", basisN, mode)
    c = copy.deepcopy(collCardinal)
    c.changeBasis(basisN)
    s.updateParticleList(ps)
    s.setBackground(bg)
    s.setCollisionArray(c)
    return s


main = solver("Chebyshev", "Spectral")
eom = object.__new__(EOM)
eom.boltzmannSolver = main
eom.includeOffEq = True
spectral = main.getDeltas()
crossCheck = eom.getBoltzmannFiniteDifference()
reference = solver("Cardinal", "Finite Difference").getDeltas()
rel = lambda a, b: float(np.linalg.norm(a - b) / np.linalg.norm(b))
d = rel(crossCheck.deltaF, reference.deltaF)
d00 = rel(crossCheck.Deltas.Delta00.coefficients, reference.Deltas.Delta00.coefficients)
print("cross-check vs independent finite-difference solver: deltaF %.2e, Delta00 %.2e" % (d, d00))
print("spectral solver unchanged by the cross-check:", rel(main.getDeltas().deltaF, spectral.deltaF) == 0.0)
bad = not (d < 1e-9 and d00 < 1e-9)
print("CROSS-CHECK SOLVES A DIFFERENT PROBLEM" if bad else "ok")
sys.exit(1 if bad else 0)
