"""
C10 audit-2 demo 2: inside each phase's tabulated range the pressure reported by Thermodynamics is
minus the effective potential at the phase's minimum -- also when ONE Thermodynamics object is used
for several points of a parameter scan: the potential's parameters are updated in place, both
phases are traced again over the same windows and setExtrapolate() is called again (what a scan
that does not rebuild its objects does; seeded change C10-3 names the same history).

Exits 0 if the equation of state belongs to the CURRENT potential, 1 otherwise.
"""
import math
import sys
import numpy as np
from WallGo import Fields, EffectivePotential, VeffDerivativeSettings, Thermodynamics


class Quartic(EffectivePotential):
    """V = D (T^2-T0^2) phi^2 - E T phi^3 + lam/4 phi^4 - g pi^2/90 T^4 (phases in closed form);
    the parameters live on the object and may be updated in place"""
    fieldCount = 1
    effectivePotentialError = 1e-15

    def __init__(self, D, E, lam, T0, g):
        super().__init__()
        self.par = dict(D=D, E=E, lam=lam, T0=T0, g=g)

    def evaluate(self, fields, temperature):
        q = self.par
        phi = Fields(fields).getField(0)
        T = np.asarray(temperature)
        return (q["D"] * (T**2 - q["T0"]**2) * phi**2 - q["E"] * T * phi**3
                + q["lam"] / 4 * phi**4 - q["g"] * math.pi**2 / 90 * T**4)


def phiBroken(q, T):
    D, E, lam, T0 = q["D"], q["E"], q["lam"], q["T0"]
    return (3 * E * T + math.sqrt(9 * E**2 * T**2 - 8 * lam * D * (T**2 - T0**2))) / (2 * lam)


def Vex(q, phi, T):
    return (q["D"] * (T**2 - q["T0"]**2) * phi**2 - q["E"] * T * phi**3 + q["lam"] / 4 * phi**4
            - q["g"] * math.pi**2 / 90 * T**4)


V = Quartic(D=0.2, E=0.05, lam=0.1, T0=80.0, g=100.0)
V.configureDerivatives(VeffDerivativeSettings(temperatureVariationScale=1.0,
                                              fieldValueVariationScale=10.0))
Tn = 83.0
th = Thermodynamics(V, Tn, Fields([phiBroken(V.par, Tn)]), Fields([0.0]))
for fe in (th.freeEnergyHigh, th.freeEnergyLow):
    fe.disableAdaptiveInterpolation()

failures = []


def setUpAndLook(tag):
    # each phase over its own window, as WallGoManager.initTemperatureRange does
    th.freeEnergyHigh.tracePhase(81.0, 100.0, 0.25, rTol=1e-8)
    th.freeEnergyLow.tracePhase(60.0, 86.0, 0.25, rTol=1e-8)
    th.setExtrapolate()
    q = V.par
    for ph, phi, fe in (("High", lambda T: 0.0, th.freeEnergyHigh),
                        ("Low", lambda T: phiBroken(q, T), th.freeEnergyLow)):
        p = getattr(th, "p" + ph + "T")
        lo, hi = fe.minPossibleTemperature[0], fe.maxPossibleTemperature[0]
        worst = 0.0
        for x in (0.0, 0.1, 0.3, 0.5, 0.7, 0.9, 1.0):
            T = lo + (hi - lo) * x
            got, want = float(p(T)), -Vex(q, phi(T), T)
            worst = max(worst, abs(got / want - 1))
            if abs(got - want) > 1e-7 * abs(want):
                failures.append("%s p%sT(%.4f) = %.12g but -Veff(min) = %.12g (rel %.1e), table "
                                "range [%.4f, %.4f]" % (tag, ph, T, got, want,
                                                        abs(got / want - 1), lo, hi))
        print("%s %s phase: range [%.3f, %.3f], max |p/(-Veff(min)) - 1| = %.2e" % (
            tag, ph, lo, hi, worst))
    print("%s alpha(Tn) = %.6e" % (tag, float(th.alpha(Tn))))
    return float(th.alpha(Tn))


a1 = setUpAndLook("[D=0.20]")
# next point of the scan: same objects, parameters updated in place
V.par["D"] = 0.21
a2 = setUpAndLook("[D=0.21]")
if a1 == a2:
    failures.append("alpha(Tn) did not change at all when D went from 0.20 to 0.21: %r" % a1)

for f in failures:
    print("FAIL", f)
print("%d inconsistencies" % len(failures))
sys.exit(1 if failures else 0)
