"""Which edits leave the generated model AND the generated writer facts byte-identical?
Runs gen_thermo.generate + gen_thermo.frame_facts on edited copies of src/WallGo (no Coq needed).
usage: /venv/bin/python recogniser_slips.py /tmp/wt2/C10/src/WallGo"""
import sys, os, shutil, hashlib, tempfile
sys.path.insert(0, '/verif/tools')
import gen_thermo, pyrx
clean = sys.argv[1]
tmp = tempfile.mkdtemp(prefix="c10slips")
HOOK = ("        # getting range over which both phases are stable\n"
        "        TMin, TMax = self._getCoexistenceRange()\n")


def run(srcdir):
    src = open(os.path.join(srcdir, 'thermodynamics.py')).read()
    try:
        text, tr = gen_thermo.generate(src)
    except pyrx.TranslateError as e:
        return 'TranslateError: %s' % e
    ftext, info = gen_thermo.frame_facts(srcdir)
    return (hashlib.sha1(text.encode()).hexdigest()[:10], hashlib.sha1(ftext.encode()).hexdigest()[:10],
            info['foreign'], info['dynamic'],
            {k: v for k, v in info['writers'].items() if k not in ('__init__', 'setExtrapolate')})


base = run(clean)
print('clean', base)


def variant(name, edit, extra=None):
    d = os.path.join(tmp, name)
    shutil.copytree(clean, d)
    p = os.path.join(d, 'thermodynamics.py')
    s = open(p).read(); s2 = edit(s); assert s2 != s; open(p, 'w').write(s2)
    for f, fn in (extra or {}).items():
        q = os.path.join(d, f); t = open(q).read(); t2 = fn(t); assert t2 != t; open(q, 'w').write(t2)
    r = run(d)
    print('%-18s' % name, 'SAME AS CLEAN (slips both recognisers)' if r == base else r)


variant('inst_rebind', lambda s: s.replace(
    "        self.epsilonMaxLowT = 0.0\n\n    def setExtrapolate",
    "        self.epsilonMaxLowT = 0.0\n        self.csqLowT = functools.lru_cache(maxsize=None)(self.csqLowT)\n\n    def setExtrapolate"
).replace("import logging\n", "import logging\nimport functools\n"))
variant('module_patch', lambda s: s + "\n\nThermodynamics.csqLowT = functools.lru_cache(maxsize=None)(Thermodynamics.csqLowT)\n")
variant('module_self_fn', lambda s: s.replace(
    "class Thermodynamics:",
    "def _syncRange(self, TMin, TMax):\n    self.TMinLowT = TMin\n    self.TMaxLowT = TMax\n\n\nclass Thermodynamics:"
).replace(HOOK, HOOK + "        _syncRange(self, TMin, TMax)\n"))
variant('obj_setattr', lambda s: s.replace(HOOK, HOOK + "        object.__setattr__(self, 'TMinLowT', TMin)\n"))
variant('base_hook', lambda s: s.replace(
    "class Thermodynamics:",
    "class _Tracked:\n    def __setattr__(self, k, v):\n        object.__setattr__(self, k, round(v, 6) if isinstance(v, float) else v)\n\n\nclass Thermodynamics(_Tracked):"))
variant('subclass_override', lambda s: s + "\n\nclass ThermodynamicsFast(Thermodynamics):\n    def csqLowT(self, temperature):\n        return 1/3\n")
variant('rebind_fe', lambda s: s.replace(HOOK, HOOK + "        self.freeEnergyLow, self.freeEnergyHigh = self.freeEnergyHigh, self.freeEnergyLow\n"))
variant('harmless_setattr', lambda s: s + "\n", {
    'helpers.py': lambda t: t + "\n\ndef _applyOptions(obj, **kw):\n    for k, v in kw.items():\n        setattr(obj, k, v)\n"})
shutil.rmtree(tmp)
