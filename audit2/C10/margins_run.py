import sys, random, json
sys.path.insert(0, '/verif/tools'); sys.path.insert(0, '/tmp/a2c10/marg')
import C10m, wgmodels
class Ctx:
    def __init__(s): s.fails=[]
    def count(s,*a,**k): pass
    def log(s,*a): pass
    def sample(s,*a): pass
    def fail_input(s, what, replay, key=None): s.fails.append(what); return True
ctx = Ctx()
seed = int(sys.argv[1])
rng = random.Random(seed)
for m in range(150):
    cH, rH = C10m.rand_stub(rng); cL, rL = C10m.rand_stub(rng)
    hrng = random.Random(rng.random())
    case = {}
    th = wgmodels.stub_thermodynamics(cH, rH, cL, rL, float(rH[0]))
    th.setExtrapolate()
    C10m.direct_checks(ctx, th, "stub", case)
    C10m.stub_history(ctx, th, hrng, case)
for it in range(int(sys.argv[2])):
    trng = random.Random(rng.random())
    try:
        C10m.traced_model(ctx, trng, variant=it % 2)
    except Exception as e:
        print("traced raised", repr(e))
print("seed", seed, "fails", len(ctx.fails), ctx.fails[:3])
for k, v in sorted(C10m.MARG.items()):
    print("%-28s %.3g %s" % (k, v[0], v[1:]))
