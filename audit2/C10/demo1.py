"""
C10 audit-2 demo 1: inside each phase's tabulated range the pressure is minus the effective
potential at THAT phase's minimum (and the transition strength alpha(Tn) is the one of the two
phases the object was built for) -- also when the user LOOKS at both phases over a generous
temperature range before deciding which ranges to tabulate (Thermodynamics works without tables:
its docstring says the ranges "are obtained by FreeEnergy.tracePhase()"; WallGoManager itself
evaluates p, w, cs^2 at Tn through HydrodynamicsTemplateModel before it traces).

Exits 0 if the traced low-T phase is the low-T phase, 1 otherwise.
"""
import math
import sys
import numpy as np
from WallGo import Fields, EffectivePotential, VeffDerivativeSettings, Thermodynamics

D, E, lam, T0, g = 0.2, 0.05, 0.1, 80.0, 100.0


class Quartic(EffectivePotential):
    """V = D (T^2-T0^2) phi^2 - E T phi^3 + lam/4 phi^4 - g pi^2/90 T^4 (phases in closed form)"""
    fieldCount = 1
    effectivePotentialError = 1e-15

    def evaluate(self, fields, temperature):
        phi = Fields(fields).getField(0)
        T = np.asarray(temperature)
        return (D * (T**2 - T0**2) * phi**2 - E * T * phi**3 + lam / 4 * phi**4
                - g * math.pi**2 / 90 * T**4)


def phiBroken(T):
    return (3 * E * T + math.sqrt(9 * E**2 * T**2 - 8 * lam * D * (T**2 - T0**2))) / (2 * lam)


def Vex(phi, T):
    return (D * (T**2 - T0**2) * phi**2 - E * T * phi**3 + lam / 4 * phi**4
            - g * math.pi**2 / 90 * T**4)


Tspin = math.sqrt(8 * lam * D * T0**2 / (8 * lam * D - 9 * E**2))     # 86.30: end of the low-T phase
Tn = 83.0
V = Quartic()
V.configureDerivatives(VeffDerivativeSettings(temperatureVariationScale=1.0,
                                              fieldValueVariationScale=10.0))
th = Thermodynamics(V, Tn, Fields([phiBroken(Tn)]), Fields([0.0]))
for fe in (th.freeEnergyHigh, th.freeEnergyLow):
    fe.disableAdaptiveInterpolation()          # as WallGoManager does

# 1. a first look at both phases, 70 ... 95 (no tables yet: every value is a direct minimisation
#    from the phase location given to the constructor); above 86.3 the low-T phase does not exist
#    and the numbers there are meaningless, which is what the look is for
look = [(T, float(th.pLowT(T)), float(th.pHighT(T))) for T in np.linspace(70.0, 95.0, 26)]

# 2. tabulate each phase over its own window and set up the extrapolation
th.freeEnergyHigh.tracePhase(81.0, 100.0, 0.25, rTol=1e-8)
th.freeEnergyLow.tracePhase(70.0, 86.0, 0.25, rTol=1e-8)
th.setExtrapolate()

failures = []
for ph, phi, fe in (("High", lambda T: 0.0, th.freeEnergyHigh), ("Low", phiBroken, th.freeEnergyLow)):
    p = getattr(th, "p" + ph + "T")
    lo, hi = fe.minPossibleTemperature[0], fe.maxPossibleTemperature[0]
    worst = 0.0
    for x in (0.0, 0.1, 0.3, 0.5, 0.7, 0.9, 1.0):
        T = lo + (hi - lo) * x
        got, want = float(p(T)), -Vex(phi(T), T)
        worst = max(worst, abs(got / want - 1))
        if abs(got - want) > 1e-7 * abs(want):
            failures.append("p%sT(%.4f) = %.12g but -Veff at the %s-T minimum = %.12g (rel %.1e), "
                            "table range [%.4f, %.4f]" % (ph, T, got, ph.lower(), want,
                                                          abs(got / want - 1), lo, hi))
    print("%s phase: range [%.3f, %.3f], max |p/(-Veff(min)) - 1| = %.2e" % (ph, lo, hi, worst))
vev = float(np.ravel(th.freeEnergyLow(Tn).fieldsAtMinimum)[0])
print("tabulated low-T phase at Tn: phi = %.6g (closed form %.6g)" % (vev, phiBroken(Tn)))
# alpha(Tn) from the closed forms: (eH - eL - (pH - pL)/csqL) / (3 wH)
h = 1e-4


def eos(phi):
    p = lambda T: -Vex(phi(T), T)
    dp = (p(Tn + h) - p(Tn - h)) / (2 * h)
    ddp = (p(Tn + h) - 2 * p(Tn) + p(Tn - h)) / h**2
    return p(Tn), Tn * dp - p(Tn), Tn * dp, dp / (Tn * ddp)


pH, eH, wH, _ = eos(lambda T: 0.0)
pL, eL, _, cL = eos(phiBroken)
alphaWant = (eH - eL - (pH - pL) / cL) / 3 / wH
alphaGot = float(th.alpha(Tn))
print("alpha(Tn) = %.6e, closed form %.6e" % (alphaGot, alphaWant))
if abs(alphaGot - alphaWant) > 1e-3 * abs(alphaWant):
    failures.append("alpha(Tn) = %.6e but the closed form gives %.6e" % (alphaGot, alphaWant))

for f in failures:
    print("FAIL", f)
print("%d inconsistencies" % len(failures))
sys.exit(1 if failures else 0)
