"""
[audit 2: this is audit/C10/demo1.py unchanged, re-used for patch3 (per-instance memoisation created in __init__)]

C10 audit demo 1: cs^2 must equal (dp/dT)/(de/dT) at every temperature, also after the
free-energy tables of the SAME Thermodynamics object have been rebuilt over a wider range and
setExtrapolate() has been run again (scan / "range was too narrow, trace again" history).

Exits 0 if the equation of state is consistent, 1 otherwise.
"""
import sys
import numpy as np
from WallGo import Fields, EffectivePotential, VeffDerivativeSettings, Thermodynamics


class TwoField(EffectivePotential):
    """Z2xZ2 two-scalar model with high-T masses only: both phases known in closed form"""

    fieldCount = 2
    effectivePotentialError = 1e-15

    def __init__(self):
        self.g, self.muh2, self.ch, self.lh = 30.0, -8000.0, 0.4, 0.13
        self.mus2, self.cs, self.ls, self.lhs = -6000.0, 0.35, 0.1, 0.9

    def evaluate(self, fields, temperature):
        fields = Fields(fields)
        h, s = fields.getField(0), fields.getField(1)
        T = np.asarray(temperature)
        mh2 = self.muh2 + self.ch * T**2
        ms2 = self.mus2 + self.cs * T**2
        return (-self.g * T**4 + 0.5 * mh2 * h**2 + 0.25 * self.lh * h**4
                + 0.5 * ms2 * s**2 + 0.25 * self.ls * s**4
                + 0.25 * self.lhs * h**2 * s**2)

    def exactCsq(self, phase, T):
        m0, c, lam = (self.mus2, self.cs, self.ls) if phase == "High" else \
            (self.muh2, self.ch, self.lh)
        m2 = m0 + c * T**2
        dp = 4 * self.g * T**3 + m2 * c * T / lam
        ddp = 12 * self.g * T**2 + (m2 * c + 2 * c**2 * T**2) / lam
        return dp / (T * ddp)


Tn = 100.0
V = TwoField()
V.configureDerivatives(VeffDerivativeSettings(temperatureVariationScale=10.0,
                                              fieldValueVariationScale=[50.0, 50.0]))
sN = np.sqrt(-(V.mus2 + V.cs * Tn**2) / V.ls)
hN = np.sqrt(-(V.muh2 + V.ch * Tn**2) / V.lh)
th = Thermodynamics(V, Tn, Fields([hN, 0.0]), Fields([0.0, sN]))
for fe in (th.freeEnergyHigh, th.freeEnergyLow):
    fe.disableAdaptiveInterpolation()

probe = [75.0, 80.0, 85.0, 90.0, 110.0, 112.0]
failures = []


def look(tag):
    for ph in ("High", "Low"):
        csq, dp, de = (getattr(th, f + ph + "T") for f in ("csq", "dp", "de"))
        lo, hi = getattr(th, "TMin" + ph + "T"), getattr(th, "TMax" + ph + "T")
        for T in probe:
            got, want = float(csq(T)), float(dp(T)) / float(de(T))
            if abs(got - want) > 1e-8 * abs(want):
                failures.append("%s csq%sT(%g) = %.10g but dp/de = %.10g" % (tag, ph, T, got, want))
            if lo <= T <= hi and abs(got - V.exactCsq(ph, T)) > 1e-5 * got:
                failures.append("%s csq%sT(%g) = %.10g but exact cs^2 = %.10g (inside the table)"
                                % (tag, ph, T, got, V.exactCsq(ph, T)))


# 1: a first, narrow look around Tn
for fe in (th.freeEnergyHigh, th.freeEnergyLow):
    fe.tracePhase(95.0, 105.0, 0.1)
th.setExtrapolate()
look("[first trace 95..105]")

# 2: the range was too narrow: lift the limits, trace wider, match the extrapolation again
for fe in (th.freeEnergyHigh, th.freeEnergyLow):
    fe.minPossibleTemperature = [0.0, False]
    fe.maxPossibleTemperature = [np.inf, False]
    fe.tracePhase(70.0, 115.0, 0.1)
th.setExtrapolate()
look("[re-traced 70..115]")

for f in failures:
    print("FAIL", f)
print("%d inconsistencies" % len(failures))
sys.exit(1 if failures else 0)
