"""C07 audit2 demo 2: the LTE wall velocity with the SHIPPED hydrodynamics tolerances must
not depend on the units.

Yukawa-type model of the check (Tn = 1 presentation: sigma=0, msq=1/64, gamma=-0.15, lam=0.1,
y=0.55, mf=0.0375), WallGoManager() whose configHydrodynamics is left exactly as shipped (the
check overrides relativeTol/absoluteTol in every quick run); only phaseTracerTol is set to
1e-8 as in the check.  Units x1 (Tn = 1) and x0.01 (Tn = 0.01); every dimensionful parameter
rescaled.  wallSpeedLTE() must agree to 1e-4 relative (100 x the hydrodynamics relative
tolerance 1e-6).  Exit 0 = covariant, 1 = not.  Unchanged tree: 0.43452229 in both systems.
`demo2.py --shipped` leaves phaseTracerTol at its shipped value 1e-6 as well (see report F2:
on the UNCHANGED tree that alone gives a deviation of 4.1e-4).
"""
import logging
import sys

import numpy as np

import WallGo
from WallGo import Fields, GenericModel, Particle

SPEC = dict(Tn=1.0, sigma=0.0, msq=1.0 / 64, gamma=-0.15, lam=0.10, y=0.55, mf=0.0375,
            phase1=0.05, phase2=3.375, dTscale=0.125, phiscale=12.5)


def lte(u):
    p = dict(sigma=SPEC["sigma"] * u ** 3, msq=SPEC["msq"] * u ** 2, gamma=SPEC["gamma"] * u,
             lam=SPEC["lam"], y=SPEC["y"], mf=SPEC["mf"] * u)

    class Pot(WallGo.EffectivePotential):
        fieldCount = 1
        effectivePotentialError = 1e-15

        def evaluate(self, fields, temperature):
            phi = Fields(fields).getField(0)
            f0 = -np.pi ** 2 / 90 * (1 + 4 * 7 / 8) * temperature ** 4
            sigmaEff = p["sigma"] + (p["gamma"] + 4 * p["y"] * p["mf"]) * temperature ** 2 / 24
            msqEff = p["msq"] + (p["lam"] + 4 * p["y"] ** 2) * temperature ** 2 / 24
            return np.array(f0 + sigmaEff * phi + msqEff * phi ** 2 / 2
                            + p["gamma"] * phi ** 3 / 6 + p["lam"] * phi ** 4 / 24)
    pot = Pot()

    class Model(GenericModel):
        def __init__(self):
            self.effectivePotential = pot
            self.clearParticles()
            for i, nm in enumerate(["psiL", "psiR"]):
                self.addParticle(Particle(
                    nm, index=i + 1, msqVacuum=lambda f: (p["mf"] + p["y"] * f.getField(0)) ** 2,
                    msqDerivative=lambda f: 2 * p["y"] * (p["mf"] + p["y"] * f.getField(0)),
                    statistics="Fermion", totalDOFs=2))

        @property
        def fieldCount(self):
            return 1

        def getEffectivePotential(self):
            return self.effectivePotential

    manager = WallGo.WallGoManager()          # configHydrodynamics exactly as shipped
    manager.setVerbosity(logging.ERROR)
    if "--shipped" not in sys.argv:
        manager.config.configThermodynamics.phaseTracerTol = 1e-8
    manager.registerModel(Model())
    manager.setupThermodynamicsHydrodynamics(
        WallGo.PhaseInfo(temperature=SPEC["Tn"] * u, phaseLocation1=Fields([SPEC["phase1"] * u]),
                         phaseLocation2=Fields([SPEC["phase2"] * u])),
        WallGo.VeffDerivativeSettings(temperatureVariationScale=SPEC["dTscale"] * u,
                                      fieldValueVariationScale=[SPEC["phiscale"] * u]))
    return float(manager.wallSpeedLTE()), float(manager.hydrodynamics.template.alN)


def main():
    a, b = lte(1.0), lte(0.01)
    print("units x1   : vwLTE = %.8f  alphaN = %.8f" % a)
    print("units x0.01: vwLTE = %.8f  alphaN = %.8f" % b)
    dev = abs(a[0] - b[0]) / a[0]
    print("relative deviation of the LTE wall velocity: %.3g" % dev)
    if dev > 1e-4:
        print("NOT COVARIANT")
        return 1
    print("covariant")
    return 0


if __name__ == "__main__":
    sys.exit(main())
