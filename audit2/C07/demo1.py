"""C07 audit2 demo 1: the OUT-OF-EQUILIBRIUM wall velocity must not depend on the units.

One-field model V = D (T^2-T0^2) phi^2 - E T phi^3 + lam/4 phi^4 - g pi^2/90 T^4 (the check's own
"quarticwide": both phases exist from 0.8 Tn to 2.2 Tn), one out-of-equilibrium fermion "top",
and a synthetic relaxation-time collision operator C = -Gamma * identity written in the format
of the shipped collision files (collision integrals are in units of T: the same file serves
every unit system).  solveWall(bIncludeOffEquilibrium=True) in units x1 (Tn = 1.8) and x100
(Tn = 180): wall velocity, width*Tn, T+/Tn must agree.  Exit 0 = covariant, 1 = not.
Unchanged tree: vw = 0.60445 / 0.60446.
"""
import logging
import math
import pathlib
import sys
import tempfile

import h5py
import numpy as np

import WallGo
from WallGo import Fields, GenericModel, Particle

SPEC = dict(Tn=1.8, D=0.2, E=0.12, lam=0.1, T0=1.0, g=100.0, dTscale=0.02, phiscale=1.0)
GAMMA, N = 3.0, 11


def collisions(directory):
    with h5py.File(str(pathlib.Path(directory) / "collisions_top_top.hdf5"), "w") as f:
        md = f.create_group("metadata")
        md.attrs["Basis Size"] = N
        md.attrs["Basis Type"] = "Cardinal"
        C = np.zeros((N - 1,) * 4)
        for i in range(N - 1):
            for j in range(N - 1):
                C[i, j, i, j] = -GAMMA
        f.create_dataset("top, top", data=C)


def solve(u, directory):
    T0 = SPEC["T0"] * u

    class Pot(WallGo.EffectivePotential):
        fieldCount = 1
        effectivePotentialError = 1e-15

        def evaluate(self, fields, temperature):
            phi = Fields(fields).getField(0)
            T = np.asarray(temperature)
            return (SPEC["D"] * (T ** 2 - T0 ** 2) * phi ** 2 - SPEC["E"] * T * phi ** 3
                    + SPEC["lam"] / 4 * phi ** 4 - SPEC["g"] * math.pi ** 2 / 90 * T ** 4)
    pot = Pot()

    class Model(GenericModel):
        def __init__(self):
            self.effectivePotential = pot
            self.clearParticles()
            self.addParticle(Particle(
                "top", index=1, msqVacuum=lambda f: 0.25 * f.getField(0) ** 2,
                msqDerivative=lambda f: 0.5 * f.getField(0), statistics="Fermion",
                totalDOFs=12))

        @property
        def fieldCount(self):
            return 1

        def getEffectivePotential(self):
            return self.effectivePotential

    manager = WallGo.WallGoManager()
    manager.setVerbosity(logging.ERROR)
    manager.config.configGrid.spatialGridSize = 20
    manager.config.configEOM.maxIterations = 25
    manager.config.configThermodynamics.phaseTracerTol = 1e-8
    manager.registerModel(Model())
    Tn = SPEC["Tn"] * u
    # broken minimum of the tree-level potential at Tn
    a, b, c = SPEC["lam"], -3 * SPEC["E"] * Tn, 2 * SPEC["D"] * (Tn ** 2 - T0 ** 2)
    phib = (-b + math.sqrt(b * b - 4 * a * c)) / (2 * a)
    manager.setupThermodynamicsHydrodynamics(
        WallGo.PhaseInfo(temperature=Tn, phaseLocation1=Fields([0.0]),
                         phaseLocation2=Fields([phib])),
        WallGo.VeffDerivativeSettings(temperatureVariationScale=SPEC["dTscale"] * u,
                                      fieldValueVariationScale=[SPEC["phiscale"] * u]))
    manager.setPathToCollisionData(pathlib.Path(directory))
    res = manager.solveWall(WallGo.WallSolverSettings(
        bIncludeOffEquilibrium=True, meanFreePathScale=50.0, wallThicknessGuess=5.0))
    return dict(vw=res.wallVelocity, widthTn=float(res.wallWidths[0]) * Tn,
                TplusTn=float(res.temperaturePlus) / Tn, success=res.success,
                delta00=float(np.max(np.abs(res.Deltas.Delta00.coefficients))) / Tn ** 2)


def main():
    d = tempfile.mkdtemp(prefix="c07_coll_")
    collisions(d)
    a, b = solve(1.0, d), solve(100.0, d)
    print("units x1  :", a)
    print("units x100:", b)
    bad = []
    if a["vw"] is None or b["vw"] is None:
        bad.append("no wall velocity")
    else:
        if abs(a["vw"] - b["vw"]) > 3e-3:                       # 3 * errTol
            bad.append("vw %.5f vs %.5f" % (a["vw"], b["vw"]))
        if abs(a["widthTn"] / b["widthTn"] - 1) > 1e-2:
            bad.append("width*Tn %.4f vs %.4f" % (a["widthTn"], b["widthTn"]))
        if abs(a["TplusTn"] / b["TplusTn"] - 1) > 2e-3:
            bad.append("T+/Tn %.5f vs %.5f" % (a["TplusTn"], b["TplusTn"]))
        if abs(a["delta00"] / b["delta00"] - 1) > 5e-2:
            bad.append("max|Delta00|/Tn^2 %.3e vs %.3e" % (a["delta00"], b["delta00"]))
    if bad:
        print("NOT COVARIANT:", "; ".join(bad))
        return 1
    print("covariant")
    return 0


if __name__ == "__main__":
    sys.exit(main())
