"""The counterfactual job (variant "scaledstep") replaces scipy.optimize.minimize and never
restores it.  A pool worker that runs it and then a plain job (thorough: 70 jobs on 16 workers;
the counterfactual job has cost 1 and is followed by ~12 cost-0 jobs, among them the plain
yukawa4 x100 reference of the "typed" pairs) computes the plain job with the patched minimiser.
Same job, fresh process vs. process that ran the counterfactual job first:"""
import multiprocessing
import C07 as H

PLAIN = H.J("yukawa4", 100.0)
CF = H.J("yukawa4", 100.0, "default", ("lte",), variant="scaledstep")


def seq(jobs):
    return [H.solve_case(j) for j in jobs]


if __name__ == "__main__":
    ctx = multiprocessing.get_context("fork")
    with ctx.Pool(1) as p:
        fresh = p.apply(seq, ([PLAIN],))[0]
    with ctx.Pool(1) as p:
        after = p.apply(seq, ([CF, PLAIN],))[1]
    for k in ("alphaN", "csqLow", "ddpLow", "vJ", "TMaxHighT", "TMaxLowT"):
        print("%-10s fresh worker %-14.9g after the counterfactual job %-14.9g rel.diff %.2g" % (
            k, fresh[k], after[k], abs(fresh[k] - after[k]) / abs(fresh[k])))
