"""In-memory edits of the sources (nothing is written) against the AST recognisers of
tools/gen_units.py: does the edit change the emitted facts (sites / flows / solver_state)?"""
import os, sys
sys.path.insert(0, "/verif/tools")
import gen_units as G
ROOT = os.environ.get("WALLGO_REPO", "/tmp/wt2/C07")
SRC = {f: open(os.path.join(ROOT, "src/WallGo", f)).read() for f in set(G.SIG_FILES)}
BASE = (G.tolerance_sites(SRC), G.input_flows(SRC), G.cached_attributes(SRC)[0])


def probe(name, file, old, new, count=1):
    assert SRC[file].count(old) >= 1, (name, "anchor not found")
    src = dict(SRC)
    src[file] = SRC[file].replace(old, new, count)
    compile(src[file], file, "exec")
    got = (G.tolerance_sites(src), G.input_flows(src), G.cached_attributes(src)[0])
    ch = [n for n, a, b in zip(("sites", "flows", "solver_state"), BASE, got) if a != b]
    bad_flow = [f for f in got[1] if not f[2]]
    bad_attr = [a for a in got[2] if a[2] and not a[1]]
    print("%-62s -> %s" % (name, ("facts change: " + ",".join(ch) + (
        " (theorem breaks)" if "sites" in ch or bad_flow or bad_attr else " (theorems still hold)"))
        if ch else "NO FACT CHANGES"))


E1 = "        if abs(self.hydrodynamics.Tnucl - Tplus) < 1e-10 * self.hydrodynamics.Tnucl:"
probe("absolute T test, literal (control)", "equationOfMotion.py", E1,
      "        if abs(self.hydrodynamics.Tnucl - Tplus) < 1e-6:")
probe("same test inside a generator expression", "equationOfMotion.py", E1,
      "        if any(abs(t - Tplus) < 1e-6 for t in (self.hydrodynamics.Tnucl,)):")
probe("same test against a module-level named constant", "equationOfMotion.py", E1,
      "        if abs(self.hydrodynamics.Tnucl - Tplus) < _DETONATION_EPS:")
probe("same test via np.isclose defaults (atol=1e-8 absolute)", "equationOfMotion.py", E1,
      "        if np.isclose(Tplus, self.hydrodynamics.Tnucl):")
probe("same test via np.isclose positional rtol, atol", "equationOfMotion.py", E1,
      "        if np.isclose(Tplus, self.hydrodynamics.Tnucl, 0.0, 1e-6):")
probe("same test via math.isclose(abs_tol=1e-6)", "equationOfMotion.py", E1,
      "        if math.isclose(Tplus, self.hydrodynamics.Tnucl, rel_tol=0.0, abs_tol=1e-6):")
probe("same test, threshold from an untyped default argument", "equationOfMotion.py", E1,
      "        if abs(self.hydrodynamics.Tnucl - Tplus) < detonationEps:")
probe("drop options={'xatol': 1e-7*T} of the T-profile minimiser (scipy: 1e-5 absolute)",
      "equationOfMotion.py",
      '            options={"xatol": 1e-7 * max(Tplus, Tminus)},\n', "")
probe("shock ODE: drop atol=0 (scipy default 1e-6 absolute on T)", "hydrodynamics.py",
      "                rtol=self.rtol,\n                atol=0,\n", "                rtol=self.rtol,\n", 3)
probe("config default absoluteTol 1e-10 -> 1e-5 (flows into xtol=self.atol)", "config.py",
      "absoluteTol: float = 1e-10", "absoluteTol: float = 1e-5")
probe("template default atol 1e-10 -> 1e-5", "hydrodynamicsTemplateModel.py",
      "rtol: float = 1e-6, atol: float = 1e-10", "rtol: float = 1e-6, atol: float = 1e-5")
probe("tracer: round temperatures to 6 decimals", "freeEnergy.py",
      "                TList = np.append(TList, [ode.t], axis=0)",
      "                TList = np.append(TList, [round(ode.t, 6)], axis=0)")
M1 = "        eom.includeOffEq = wallSolverSettings.bIncludeOffEquilibrium\n"
probe("solver cached as self._solver (control)", "manager.py", M1,
      M1 + "        self._solver = eom\n        print(self._solver)\n")
probe("solver cached in a dict made in __init__: self._cache[k] = eom", "manager.py", M1,
      M1 + "        self._cache[id(wallSolverSettings)] = eom\n        print(self._cache)\n")
probe("solver cached on the model: self.model.lastSolver = eom", "manager.py", M1,
      M1 + "        self.model.lastSolver = eom\n        print(self.model.lastSolver)\n")
probe("solver cached with setattr(self, '_solver', eom)", "manager.py", M1,
      M1 + "        setattr(self, '_solver', eom)\n        print(getattr(self, '_solver'))\n")
probe("settings = settings or self._last (input 'used' unconditionally)", "manager.py",
      "        solver: WallSolver = self.setupWallSolver(wallSolverSettings)\n\n        return solver.eom.findWallVelocityDeflagrationHybrid(",
      "        wallSolverSettings = self.config.lastSettings or wallSolverSettings\n        solver: WallSolver = self.setupWallSolver(wallSolverSettings)\n\n        return solver.eom.findWallVelocityDeflagrationHybrid(")
probe("momentumFalloffT no longer passed, parameter left in buildGrid (patch1 removes it too: flows 17->16, all consumed)", "manager.py",
      "            initialMomentumFalloffScale,\n            ratioPointsWall,\n            smoothing,\n",
      "            ratioPointsWall=ratioPointsWall,\n            smoothing=smoothing,\n")
