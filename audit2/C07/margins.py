"""Audit helper (read-only w.r.t. /verif): run the QUICK plan of tools/props/C07.py against the
tree given by WALLGO_REPO and print, for every compared pair, the largest deviation/tolerance
ratio per quantity ("margin"; > 1 would be a failing input, > 0.3 is flagged).
usage: WALLGO_REPO=<tree> PYTHONPATH=<tree>/src:<tree>:/verif/tools:/verif/tools/props \
       /venv/bin/python -W ignore margins.py [nproc]"""
import multiprocessing
import sys

import C07 as H

W, L, Hh = ("lte", "wall", "wall2"), ("lte", "wall"), ()
J = H.J
PAIRS = [
    (J("yukawa4", 1.0, "default", Hh), J("yukawa4", 100.0, "default", Hh)),
    (J("yukawa", 1.0, "default", W), J("yukawa", 1e-2, "default", W)),
    (J("yukawa", 1.0, "default", W), J("yukawa", 10.0, "default", W)),
    (J("quarticlog", 1.0, "default", L), J("quarticlog", 1e-2, "default", L)),
    (J("quarticwide", 1.0, "default", Hh), J("quarticwide", 100.0, "default", Hh)),
    (J("xsm", 1.0, "default", L), J("xsm", 1e-2, "default", L)),
    (J("yukawa", 1e-2, "default", W), J("yukawa", 1e-2, "default", L, (1.0,), "manager", L)),
    (J("yukawa", 1.0, "default", W), J("yukawa", 1.0, "default", (), (1e-2,), "model")),
    (J("quarticlog", 1e-2, "default", L), J("quarticlog", 1e-2, "default", (), (100.0,), "model")),
]


def main():
    jobs = []
    for a, b in PAIRS:
        for j in (a, b):
            if j not in jobs:
                jobs.append(j)
    n = int(sys.argv[1]) if len(sys.argv) > 1 else 6
    with multiprocessing.Pool(n) as pool:
        res = dict(zip(jobs, pool.map(H.solve_case, jobs, chunksize=1)))
    for a, b in PAIRS:
        ref, run = res[a], res[b]
        tols = H.TOLSETS[b[2]]
        print("== %s %s vs %s  (%.0fs/%.0fs) raised=%s|%s" % (
            b[0], H.describe(ref), H.describe(run), ref["seconds"], run["seconds"],
            ref.get("raised"), run.get("raised")))
        if "raised" in ref or "raised" in run:
            continue
        lam = run["unit"] / ref["unit"]
        rows = []
        for q in H.DIMLESS + list(H.DIMFUL):
            if q not in ref or q not in run:
                continue
            d = H.DIMFUL.get(q, 0)
            x, y = ref[q], run[q] / lam ** d
            tol = H.tolerance_for(q, tols)
            dev = abs(x - y) if q in H.ABSOLUTE else abs(x - y) / max(abs(x), 1e-300)
            rows.append((dev / tol, q, x, y, dev, tol))
        rows.sort(reverse=True)
        for m, q, x, y, dev, tol in rows[:8]:
            print("   %-14s margin %-9.3g dev %-9.3g tol %-8.2g  %.8g vs %.8g%s" % (
                q, m, dev, tol, x, y, "   <-- above 0.3" if m > 0.3 else ""))
        probe = max(abs(ref[k] - run[k]) / abs(ref[k]) for k in ("alpha0", "csqHigh0", "csqLow0"))
        rd = [e for e in ("TMinHighT", "TMaxHighT", "TMinLowT", "TMaxLowT")
              if abs(ref[e] / ref["Tn"] - run[e] / run["Tn"]) > 0.02 * abs(ref[e] / ref["Tn"])]
        print("   class-rule state: probe=%.3g (>=1e-4: %s) ranges_differ=%s early=%s|%s" % (
            probe, probe >= 1e-4, rd, ref["early"], run["early"]))


if __name__ == "__main__":
    main()
