import sys, multiprocessing, C07 as H
L=("lte","wall")
jobs=[H.J("yukawa",u,"shipped",L) for u in (1.0,0.01,10.0)]
if __name__=="__main__":
    with multiprocessing.Pool(3) as pool:
        res=dict(zip(jobs,pool.map(H.solve_case,jobs,chunksize=1)))
    ref=res[jobs[0]]
    tols=H.TOLSETS["shipped"]
    for j in jobs[1:]:
        run=res[j]
        print("== yukawa [shipped] x1 vs x%g raised=%s|%s (%.0fs)"%(j[1],ref.get("raised"),run.get("raised"),run["seconds"]))
        if "raised" in ref or "raised" in run: continue
        devs=H.deviations(ref,run,tols)
        print("   deviations beyond tolerance (what compare_runs would report):",[(d[0],"%.3g>%.3g"%(d[4],d[5])) for d in devs])
        lam=run["unit"]/ref["unit"]; rows=[]
        for q in H.DIMLESS+list(H.DIMFUL):
            if q in ref and q in run and not (q=="vJ"):
                d=H.DIMFUL.get(q,0); x,y=ref[q],run[q]/lam**d; tol=H.tolerance_for(q,tols)
                dev=abs(x-y) if q in H.ABSOLUTE else abs(x-y)/max(abs(x),1e-300)
                rows.append((dev/tol,q,dev,tol,x,y))
        for m,q,dev,tol,x,y in sorted(rows,reverse=True)[:7]:
            print("   %-10s margin %-8.3g dev %-9.3g tol %-8.2g %.8g vs %.8g"%(q,m,dev,tol,x,y))
