"""extractor-only probes (tools/gen_poly.generate on edited copies of polynomial.py)"""
import sys
sys.path.insert(0, "/verif/tools")
import gen_poly
src = open('/tmp/wt2/C16/src/WallGo/polynomial.py').read()
t0, _ = gen_poly.generate(src)
def probe(name, old, new):
    assert old in src, name
    try:
        t, f = gen_poly.generate(src.replace(old, new))
        print(name, "-> accepted;", "PolyCfg.v byte-identical" if t == t0 else "PolyCfg.v DIFFERS")
    except gen_poly.TranslateError as e:
        print(name, "-> TranslateError:", e)
    except Exception as e:
        print(name, "-> uncaught", type(e).__name__ + ":", e, "(harness-exception; direct validation does not run)")
ONES = "        polynomials = np.ones((compactCoord.shape[1],) + self.coefficients.shape)\n"
HEAD = "        self._checkBasis(newBasis)\n\n        for i in range(self.rank):\n            if (\n                newBasis[i] != self.basis[i]"
CON = "                # Contracting M with self.coefficient\n"
print("== harmful edits the extractor does not see")
probe("(c) evaluate: data-dependent early return (`if compactCoord.shape[1] > 64: return 0.0 * compactCoord[0]`)", ONES, "        if compactCoord.shape[1] > 64:\n            return 0.0 * compactCoord[0]\n" + ONES)
probe("(d) changeBasis: `if self.coefficients.size > 4096: self.basis = newBasis; return` (relabel, no transform)", HEAD, HEAD.replace("\n\n        for", "\n        if self.coefficients.size > 4096:\n            self.basis = newBasis\n            return\n\n        for"))
probe("(e1) changeBasis: `if self.rank == 3: tnMatrix = np.transpose(tnMatrix)` (rank is concrete 1/2 in the extractor)", CON, "                if self.rank == 3:\n                    tnMatrix = np.transpose(tnMatrix)\n" + CON)
probe("(e2) changeBasis: `if self.rank not in (1, 2): ...`", CON, "                if self.rank not in (1, 2):\n                    tnMatrix = np.transpose(tnMatrix)\n" + CON)
probe("(g) module level: `eval_chebyt = lambda n, x: np.cos(n * np.arccos(x))` after the imports", "from .grid import Grid\n", "from .grid import Grid\neval_chebyt = lambda n, x: np.cos(n * np.arccos(x))\n")
probe("(h) a base class that defines chebyshev()", "class Polynomial:", "class _Base:\n    def chebyshev(self, *a, **k):\n        return 0\n\nclass Polynomial(_Base):")
probe("(i) integrate: `if np.ndim(weight) == 0: return float(weight) ** len(axis) * self.integrate(axis)`", "        # Express the integrated axes in the cardinal basis\n", "        if np.ndim(weight) == 0 and weight != 1:\n            return float(weight) ** len(axis) * self.integrate(axis)\n        # Express the integrated axes in the cardinal basis\n")
print("== harmless edits the extractor rejects")
probe("(a) _cardinalMatrix: np.eye instead of np.identity", "return np.identity(self.grid.N - 1 + endpoints)", "return np.eye(self.grid.N - 1 + endpoints)")
probe("(b) _cardinalMatrix: np.identity(self.grid.N - 1 + int(endpoints))", "return np.identity(self.grid.N - 1 + endpoints)", "return np.identity(self.grid.N - 1 + int(endpoints))")
probe("(e3) changeBasis: a dead branch `if self.rank >= 7: raise NotImplementedError`", CON, "                if self.rank >= 7:\n                    raise NotImplementedError\n" + CON)
probe("(f) evaluate: `for _k in range(compactCoord.shape[1]): pass`", ONES, "        for _k in range(compactCoord.shape[1]):\n            pass\n" + ONES)
"""alias-scan probes: in-place updates of the operand that gen_poly.alias_scan does not report"""
import sys
sys.path.insert(0, "/verif/tools")
import gen_poly
src = open('/tmp/wt2/C16/src/WallGo/polynomial.py').read()
OLD = "        coeffDeriv = np.array(self.coefficients)\n"
def probe(name, new):
    s = src.replace(OLD, new)
    assert s != src
    try:
        t, f = gen_poly.generate(s)
        print(name, "-> gen_inplace_on_operand =", len(f["inplace_on_operand"]), f["inplace_on_operand"][:1])
    except gen_poly.TranslateError as e:
        print(name, "-> TranslateError:", e)
print("== derivative(): `coeffDeriv = np.array(self.coefficients)` replaced by")
probe("(j) np.array(self.coefficients, copy=False); coeffDeriv *= 1.0", "        coeffDeriv = np.array(self.coefficients, copy=False)\n        coeffDeriv *= 1.0\n")
probe("(k) np.multiply(self.coefficients, 2.0, self.coefficients)  [positional out]", OLD + "        np.multiply(self.coefficients, 2.0, self.coefficients)\n")
probe("(l) np.negative.at(self.coefficients, 0)  [ufunc.at]", OLD + "        np.negative.at(self.coefficients, 0)\n")
probe("(m) np.nan_to_num(self.coefficients, copy=False)", OLD + "        np.nan_to_num(self.coefficients, copy=False)\n")
probe("(n) control: self.coefficients *= 2.0", OLD + "        self.coefficients *= 2.0\n")
