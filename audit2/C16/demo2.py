"""
C16 second audit, demo 2 -- "converting between the cardinal and Chebyshev representations and back
returns the same coefficients ... and [the operations] are linear".

Linearity includes homogeneity: the same polynomial expressed in another unit system (all grid values
multiplied by a constant s) must have s times the Chebyshev coefficients, must come back from the round
trip, and must integrate to s times the integral.  The check only ever feeds integer coefficients in
[-9, 9] (values of order 1 - 100); here s = 1e-10, 1e-13 and 1e-16 (an out-of-equilibrium perturbation or an
energy density in a unit system with a large unit).

f(x) = (1 - x^2)(2 + x - 3 x^3 + x^5) on the z grid of Grid(8, 9) without end points.
Exit 0 = property holds, 1 = violated.
"""
import sys
import numpy as np
from WallGo.grid import Grid
from WallGo.polynomial import Polynomial

grid = Grid(8, 9, 1.0, 1.0)
x = np.asarray(grid.getCompactCoordinates(False, "z"))
f = (1 - x**2) * (2 + x - 3 * x**3 + x**5)

ref = Polynomial(f.copy(), grid, "Cardinal", "z", False)
ref.changeBasis("Chebyshev")
refInt = Polynomial(ref.coefficients.copy(), grid, "Chebyshev", "z", False).integrate()

bad = 0
for s in (1.0, 1e-10, 1e-13, 1e-16):
    p = Polynomial(s * f, grid, "Cardinal", "z", False)
    p.changeBasis("Chebyshev")
    cheb = p.coefficients / s
    errLin = float(np.max(np.abs(cheb - ref.coefficients)) / np.max(np.abs(ref.coefficients)))
    integral = Polynomial(p.coefficients.copy(), grid, "Chebyshev", "z", False).integrate() / s
    p.changeBasis("Cardinal")
    errBack = float(np.max(np.abs(p.coefficients / s - f)) / np.max(np.abs(f)))
    errInt = abs(integral - refInt) / abs(refInt)
    ok = errLin < 1e-9 and errBack < 1e-9 and errInt < 1e-9
    print("scale %-6g  changeBasis(s f)/s vs changeBasis(f): rel. error %.2e; round trip: %.2e; "
          "integrate(s f)/s: %.2e  %s" % (s, errLin, errBack, errInt, "" if ok else "VIOLATED"))
    if not ok:
        bad += 1
        print("   Chebyshev coefficients / s :", np.array2string(cheb, precision=6))
        print("   expected                   :", np.array2string(ref.coefficients, precision=6))
print("violations:", bad)
sys.exit(1 if bad else 0)
