"""
C16 second audit, demo 1 -- "evaluation returns the polynomial's value at any point in either
representation", for ANY number of points.

The input is the production call of CollisionArray.interpolateCollisionArray (collisionArray.py:463-473):
a polynomial with axes (Array, pz, pp) is evaluated along axes (1, 2) on the meshgrid of the momentum
nodes of a target grid, i.e. at (N_target - 1)^2 points at once.  Here N_target = 11 -> 100 points
(the check never evaluates at more than max(M, N) + 1 <= 31 points in one call).

f_a(x, y) = (a + 1) (1 - x^2)(1 - y)(1 + x y + x^2/2) is representable on the grid (vanishes at the
dropped boundary points x = +-1, y = +1, degree <= N - 1), so its grid values ARE its cardinal
coefficients and evaluate() must return f_a at every point, in the Cardinal and, after changeBasis,
in the Chebyshev representation.  Exit 0 = property holds, 1 = violated.
"""
import sys
import numpy as np
from WallGo.grid import Grid
from WallGo.polynomial import Polynomial


def f(a, x, y):
    return (a + 1.0) * (1 - x**2) * (1 - y) * (1 + x * y + 0.5 * x**2)


src = Grid(4, 13, 1.0, 1.0)            # grid of the stored collision integrals
bad = 0
rz = np.asarray(src.getCompactCoordinates(False, "pz"))
rp = np.asarray(src.getCompactCoordinates(False, "pp"))
coeff = np.array([f(a, rz[:, None], rp[None, :]) for a in range(2)])
for nTarget in (5, 9, 11):
    tgt = Grid(4, nTarget, 1.0, 1.0)
    pts = np.array(np.meshgrid(tgt.rzValues, tgt.rpValues, indexing="ij")).reshape(
        (2, (nTarget - 1) ** 2))                     # exactly as collisionArray.py:463
    want = np.array([f(a, pts[0], pts[1]) for a in range(2)]).T      # (points, a)
    for basis in ("Cardinal", "Chebyshev"):
        p = Polynomial(coeff.copy(), src, ("Array", "Cardinal", "Cardinal"), ("z", "pz", "pp"),
                       (False, False, False))
        p.changeBasis(("Array", basis, basis))
        got = np.asarray(p.evaluate(pts, (1, 2)))
        ok = got.shape == want.shape and bool(np.all(np.abs(got - want) <= 1e-9))
        if not ok:
            bad += 1
            wrong = np.flatnonzero(np.any(np.abs(got - want) > 1e-9, axis=1)) \
                if got.shape == want.shape else []
            print("VIOLATED target N=%d (%d points) basis %s: %d points wrong, first at point %s "
                  "(rho_z=%.4f, rho_par=%.4f): evaluate gives %s, polynomial is %s" % (
                      nTarget, pts.shape[1], basis, len(wrong), wrong[:1],
                      pts[0, wrong[0]], pts[1, wrong[0]], got[wrong[0]], want[wrong[0]]))
print("violations:", bad)
sys.exit(1 if bad else 0)
