import sys, random, numpy as np
sys.path.insert(0, "/verif/tools"); sys.path.insert(0, "/verif/tools/props")
import importlib.util
spec = importlib.util.spec_from_file_location("C16", "/verif/tools/props/C16.py"); m = importlib.util.module_from_spec(spec); spec.loader.exec_module(m)
worst = {"r": 0.0}
def close(a, b, scale=None):
    a = np.asarray(a, dtype=float); b = np.asarray(b, dtype=float)
    if a.shape != b.shape: return False
    if scale is None: scale = 1.0 + (np.max(np.abs(b)) if b.size else 0.0)
    if a.size:
        r = float(np.max(np.abs(a - b)) / (m.TOL * scale))
        if r > worst["r"]: worst["r"] = r; worst["shape"] = a.shape
    return bool(np.all(np.abs(a - b) <= m.TOL * scale))
m.close = close
class Ctx:
    tier = "quick"; quick = True
    def __init__(s, seed): s.rng = random.Random(seed); s.fails = []
    def n(s, q, t): return q
    def count(s, *a, **k): pass
    def sample(s, *a): pass
    def fail_input(s, what, r, key=None): s.fails.append((key, what))
    def log(s, *a): pass
for seed in (11, 12):
    c = Ctx(seed); worst["r"] = 0.0
    specs = m.gen_specs(c, c.rng); big = (0, None)
    for sp in specs:
        w0 = worst["r"]; worst["r"] = 0.0
        m.direct_config(c, sp, c.rng)
        if worst["r"] > big[0]: big = (worst["r"], m.spec_name(sp))
        worst["r"] = max(w0, worst["r"])
    print("seed", seed, "configs", len(specs), "fails", len(c.fails), "worst |err|/tol = %.3g" % worst["r"], "at", big[1])
