"""C14 demo 1: a collision directory whose files are regenerated in place (the shipped
workflow: Models/wallGoExampleBase.py writes every benchmark point's collision integrals into the
same `CollisionOutput_N<N>_UserGenerated` directory and loads them again through
WallGoManager.setupWallSolver -> BoltzmannSolver.loadCollisions).

Property C14: "Loading a directory of collision files yields, for every ordered particle pair,
exactly the numbers stored for that pair, and either a complete array is installed or a
collision-load error is raised".

exit 0: every load returns the numbers that are in the files at the time of the load, and a
        directory that lost a file raises CollisionLoadError;  exit 1 otherwise.
Run:  PYTHONPATH=<tree>/src python demo1.py
"""
import itertools
import pathlib
import shutil
import sys
import tempfile
import warnings

import h5py
import numpy as np

warnings.simplefilter("ignore")
import WallGo  # noqa: E402

NAMES = ["top", "gluon"]
N = 5


def particle(name):
    return WallGo.Particle(name=name, index=0, msqVacuum=lambda f: 0.0,
                           msqDerivative=lambda f: 0.0, statistics="Fermion", totalDOFs=1)


def write_files(directory, seed):
    """what WallGoCollision does: one hdf5 per ordered pair, overwriting what is there"""
    rs = np.random.default_rng(seed)
    stored = {}
    for p1, p2 in itertools.product(NAMES, repeat=2):
        data = rs.normal(size=(N - 1,) * 4)
        stored[(p1, p2)] = data
        with h5py.File(str(directory / f"collisions_{p1}_{p2}.hdf5"), "w") as h:
            m = h.create_dataset("metadata", data=np.zeros(1))
            m.attrs["Basis Size"] = N
            m.attrs["Basis Type"] = "Chebyshev"
            h.create_dataset(f"{p1}, {p2}", data=data)
    return stored


def fresh_solver():
    solver = WallGo.BoltzmannSolver(WallGo.Grid(3, N, 1.0, 1.0), "Cardinal", "Chebyshev")
    solver.updateParticleList([particle(n) for n in NAMES])
    return solver


def holds(solver, stored):
    arr = np.asarray(solver.collisionArray[:])
    return all(np.array_equal(arr[i, :, :, j], stored[(a, b)])
               for (i, a), (j, b) in itertools.product(enumerate(NAMES), repeat=2))


bad = []
root = pathlib.Path(tempfile.mkdtemp(prefix="c14demo1_"))
try:
    d = root / "CollisionOutput_N5_UserGenerated"
    d.mkdir()
    # benchmark point 1
    first = write_files(d, seed=1)
    s1 = fresh_solver()
    s1.loadCollisions(d)
    print("load 1 holds the numbers of the files:", holds(s1, first))
    if not holds(s1, first):
        bad.append("first load")
    # benchmark point 2: other couplings, collision integrals regenerated into the same directory
    second = write_files(d, seed=2)
    s2 = fresh_solver()
    s2.loadCollisions(d)
    ok2 = holds(s2, second)
    print("load 2 (files regenerated in place) holds the numbers now in the files:", ok2,
          "| still the numbers of the OLD files:", holds(s2, first))
    if not ok2:
        bad.append("load after regeneration returns numbers that are not in the files")
    # same solver object loading again (the op-sequence of the property)
    s1.loadCollisions(d)
    if not holds(s1, second):
        print("re-load on the first solver: not the numbers in the files")
        bad.append("re-load on the same solver is stale")
    # a file disappears: complete array or CollisionLoadError
    (d / "collisions_gluon_top.hdf5").unlink()
    s3 = fresh_solver()
    try:
        s3.loadCollisions(d)
        print("load 3 (collisions_gluon_top.hdf5 deleted): NO error, collisionArray installed:",
              s3.collisionArray is not None)
        bad.append("missing file not reported")
    except WallGo.CollisionLoadError as e:
        print("load 3 (file deleted): CollisionLoadError:", " ".join(str(e).split())[:70])
finally:
    shutil.rmtree(root, ignore_errors=True)

if bad:
    print("PROPERTY VIOLATED:", "; ".join(bad))
    sys.exit(1)
print("property holds on this input")
sys.exit(0)
