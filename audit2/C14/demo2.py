"""C14 demo 2: collision files stored on the shipped large grid (N=21, as in
Models/SingletStandardModel_Z2/CollisionOutput_N21) loaded by a solver on the smaller momentum
grid N=11 -- the interpolation path of CollisionArray.newFromDirectory at production size.

Property C14: "Interpolating to a smaller momentum grid gives, for each particle pair ..., the
original operator's action on every low-order distribution evaluated at the new grid points."

Independent reference (numpy only): the stored block is a polynomial in (rz, rp) through its values
at the source nodes (vanishing at the dropped end points rz=+-1, rp=+1); its values at the target
nodes are given by Lagrange interpolation.

exit 0: loaded operator == reference (block and action on a low-order distribution), exit 1 otherwise.
Run:  PYTHONPATH=<tree>/src python demo2.py
"""
import pathlib
import shutil
import sys
import tempfile
import warnings

import h5py
import numpy as np

warnings.simplefilter("ignore")
import WallGo  # noqa: E402

NS, NT = 21, 11


def nodes(N):
    rz = -np.cos(np.arange(1, N) * np.pi / N)
    rp = -np.cos(np.arange(0, N - 1) * np.pi / (N - 1))
    return rz, rp


def lagrange(xs, targets):
    L = np.ones((len(targets), len(xs)))
    for s in range(len(xs)):
        for m in range(len(xs)):
            if m != s:
                L[:, s] *= (targets - xs[m]) / (xs[s] - xs[m])
    return L


def tbar(n, x):     # Chebyshev polynomial vanishing at +-1
    t = np.cos(n * np.arccos(np.clip(x, -1, 1)))
    return t - (1.0 if n % 2 == 0 else x)


def ttil(n, y):     # vanishing at +1
    return np.cos(n * np.arccos(np.clip(y, -1, 1))) - 1.0


root = pathlib.Path(tempfile.mkdtemp(prefix="c14demo2_"))
try:
    rs = np.random.default_rng(7)
    D = rs.normal(size=(NS - 1,) * 4)
    with h5py.File(str(root / "collisions_top_top.hdf5"), "w") as h:
        m = h.create_dataset("metadata", data=np.zeros(1))
        m.attrs["Basis Size"] = NS
        m.attrs["Basis Type"] = "Chebyshev"
        h.create_dataset("top, top", data=D)
    solver = WallGo.BoltzmannSolver(WallGo.Grid(3, NT, 1.0, 1.0), "Cardinal", "Chebyshev")
    solver.updateParticleList([WallGo.Particle(
        name="top", index=0, msqVacuum=lambda f: 0.0, msqDerivative=lambda f: 0.0,
        statistics="Fermion", totalDOFs=12)])
    solver.loadCollisions(root)
    L = np.asarray(solver.collisionArray[:])[0, :, :, 0]
finally:
    shutil.rmtree(root, ignore_errors=True)

rzs, rps = nodes(NS)
rzt, rpt = nodes(NT)
lz = lagrange(np.concatenate(([-1.0], rzs, [1.0])), rzt)[:, 1:-1]
lp = lagrange(np.concatenate((rps, [1.0])), rpt)[:, :-1]
ref = np.einsum("ta,ub,abjk->tujk", lz, lp, D)[..., :NT - 1, :NT - 1]
err_rows = np.max(np.abs(L - ref), axis=(1, 2, 3)) / np.max(np.abs(ref))
print("block error per target pz node (rel. to max|ref|):")
print("  " + " ".join("%.1e" % e for e in err_rows))

# action on a low-order distribution  delta f = sum_{j,k<NT-1} c[j,k] Tbar_{j+2}(rz) Ttil_{k+1}(rp)
c = rs.normal(size=(NT - 1, NT - 1))
c_src = np.zeros((NS - 1, NS - 1))
c_src[:NT - 1, :NT - 1] = c
act_src = np.einsum("abjk,jk->ab", D, c_src)              # at the source nodes
act_ref = np.einsum("ta,ub,ab->tu", lz, lp, act_src)      # evaluated at the target nodes
act_got = np.einsum("abjk,jk->ab", L, c)
err_act = float(np.max(np.abs(act_got - act_ref)) / np.max(np.abs(act_ref)))
worst = np.unravel_index(np.argmax(np.abs(act_got - act_ref)), act_ref.shape)
print("operator action on a low-order distribution: max rel. error %.3e at target point %s "
      "(got %.6g, source operator gives %.6g)" % (err_act, tuple(int(i) for i in worst),
                                                  act_got[worst], act_ref[worst]))
if float(np.max(err_rows)) > 1e-9 or err_act > 1e-9:
    print("PROPERTY VIOLATED: files N=%d Chebyshev -> grid N=%d Chebyshev, 1 particle" % (NS, NT))
    sys.exit(1)
print("property holds on this input")
sys.exit(0)
