(** Cached coordinate arrays of a WallGo grid object, generic in the parameter record [P]
    (the pyrx state record of the class).  The methods that manage the cache are generated
    from grid.py / grid3Scales.py by tools/gen_grid.py as transformers of [cache P]; this
    file only fixes the meaning of "store an attribute", "call a translated point function
    on the three compact arrays" (numpy broadcasting of an elementwise function whose i-th
    output depends on its i-th input only: component-wise map). *)
From Coq Require Import Reals List.
Import ListNotations.
Local Open Scope R_scope.

(** entries of the arrays handed out by the getters: reals, or the -inf / +inf that numpy
    puts at the ends when `endpoints=True` *)
Inductive ext : Type := NegInf | Fin (x : R) | PosInf.

Record cache (P : Type) := mk_cache {
  params : P;
  chiValues : list R; rzValues : list R; rpValues : list R;   (* compact grids *)
  xiValues : list R; pzValues : list R; ppValues : list R;    (* cached physical coordinates *)
  dxidchi : list R; dpzdrz : list R; dppdrp : list R }.       (* cached Jacobians *)
Arguments params {P}. Arguments chiValues {P}. Arguments rzValues {P}. Arguments rpValues {P}.
Arguments xiValues {P}. Arguments pzValues {P}. Arguments ppValues {P}.
Arguments dxidchi {P}. Arguments dpzdrz {P}. Arguments dppdrp {P}.
Arguments mk_cache {P}.

(** components of a translated point function  (z, pz, pp) |-> (a, b, c) *)
Definition comp1 (f : R -> R -> R -> R * R * R) (x : R) : R := fst (fst (f x 0 0)).
Definition comp2 (f : R -> R -> R -> R * R * R) (x : R) : R := snd (fst (f 0 x 0)).
Definition comp3 (f : R -> R -> R -> R * R * R) (x : R) : R := snd (f 0 0 x).

(** a point function is separable when each output depends on its own input only; this is
    what makes the component-wise map the meaning of the array call (proved for every
    generated point function in Props/C17.v) *)
Definition separable (f : R -> R -> R -> R * R * R) : Prop :=
  forall x y z, f x y z = (comp1 f x, comp2 f y, comp3 f z).

Section Cache.
Context {P : Type}.

Definition upd_params (g : P -> P) (c : cache P) : cache P :=
  mk_cache (g (params c)) (chiValues c) (rzValues c) (rpValues c)
           (xiValues c) (pzValues c) (ppValues c) (dxidchi c) (dpzdrz c) (dppdrp c).

(** (self.xiValues, self.pzValues, self.ppValues) = f(self.chiValues, self.rzValues, self.rpValues) *)
Definition set_phys (f : R -> R -> R -> R * R * R) (c : cache P) : cache P :=
  mk_cache (params c) (chiValues c) (rzValues c) (rpValues c)
           (map (comp1 f) (chiValues c)) (map (comp2 f) (rzValues c)) (map (comp3 f) (rpValues c))
           (dxidchi c) (dpzdrz c) (dppdrp c).

(** (self.dxidchi, self.dpzdrz, self.dppdrp) = f(self.chiValues, self.rzValues, self.rpValues) *)
Definition set_jac (f : R -> R -> R -> R * R * R) (c : cache P) : cache P :=
  mk_cache (params c) (chiValues c) (rzValues c) (rpValues c)
           (xiValues c) (pzValues c) (ppValues c)
           (map (comp1 f) (chiValues c)) (map (comp2 f) (rzValues c)) (map (comp3 f) (rpValues c)).

(** self.<array> = <list> for the six cached arrays *)
Definition set_xiValues (l : list R) (c : cache P) : cache P :=
  mk_cache (params c) (chiValues c) (rzValues c) (rpValues c)
           l (pzValues c) (ppValues c) (dxidchi c) (dpzdrz c) (dppdrp c).
Definition set_pzValues (l : list R) (c : cache P) : cache P :=
  mk_cache (params c) (chiValues c) (rzValues c) (rpValues c)
           (xiValues c) l (ppValues c) (dxidchi c) (dpzdrz c) (dppdrp c).
Definition set_ppValues (l : list R) (c : cache P) : cache P :=
  mk_cache (params c) (chiValues c) (rzValues c) (rpValues c)
           (xiValues c) (pzValues c) l (dxidchi c) (dpzdrz c) (dppdrp c).
Definition set_dxidchi (l : list R) (c : cache P) : cache P :=
  mk_cache (params c) (chiValues c) (rzValues c) (rpValues c)
           (xiValues c) (pzValues c) (ppValues c) l (dpzdrz c) (dppdrp c).
Definition set_dpzdrz (l : list R) (c : cache P) : cache P :=
  mk_cache (params c) (chiValues c) (rzValues c) (rpValues c)
           (xiValues c) (pzValues c) (ppValues c) (dxidchi c) l (dppdrp c).
Definition set_dppdrp (l : list R) (c : cache P) : cache P :=
  mk_cache (params c) (chiValues c) (rzValues c) (rpValues c)
           (xiValues c) (pzValues c) (ppValues c) (dxidchi c) (dpzdrz c) l.

(** the cache a grid with parameters [p] and compact arrays of [c] must hold *)
Definition recache (dec jac : P -> R -> R -> R -> R * R * R) (p : P) (c : cache P) : cache P :=
  set_jac (jac p) (set_phys (dec p) (upd_params (fun _ => p) c)).

(** all six cached arrays are those of the current parameters *)
Definition coherent (dec jac : P -> R -> R -> R -> R * R * R) (c : cache P) : Prop :=
  xiValues c = map (comp1 (dec (params c))) (chiValues c) /\
  pzValues c = map (comp2 (dec (params c))) (rzValues c) /\
  ppValues c = map (comp3 (dec (params c))) (rpValues c) /\
  dxidchi c = map (comp1 (jac (params c))) (chiValues c) /\
  dpzdrz c = map (comp2 (jac (params c))) (rzValues c) /\
  dppdrp c = map (comp3 (jac (params c))) (rpValues c).

Definition same_compact (c c' : cache P) : Prop :=
  chiValues c = chiValues c' /\ rzValues c = rzValues c' /\ rpValues c = rpValues c'.

Lemma recache_coherent dec jac p c : coherent dec jac (recache dec jac p c).
Proof. unfold coherent, recache, set_jac, set_phys, upd_params; cbn. repeat split. Qed.

Lemma recache_compact dec jac p c : same_compact (recache dec jac p c) c.
Proof. unfold same_compact, recache, set_jac, set_phys, upd_params; cbn. repeat split. Qed.

Lemma recache_params dec jac p c : params (recache dec jac p c) = p.
Proof. reflexivity. Qed.

(** two caches over the same compact arrays whose point functions agree hold the same arrays *)
Definition same_arrays (c c' : cache P) : Prop :=
  xiValues c = xiValues c' /\ pzValues c = pzValues c' /\ ppValues c = ppValues c' /\
  dxidchi c = dxidchi c' /\ dpzdrz c = dpzdrz c' /\ dppdrp c = dppdrp c'.

Lemma coherent_same_arrays dec jac c c' :
  coherent dec jac c -> coherent dec jac c' -> same_compact c c' ->
  (forall x y z, dec (params c) x y z = dec (params c') x y z) ->
  (forall x y z, jac (params c) x y z = jac (params c') x y z) ->
  same_arrays c c'.
Proof.
  intros (A1 & A2 & A3 & A4 & A5 & A6) (B1 & B2 & B3 & B4 & B5 & B6) (C1 & C2 & C3) Hd Hj.
  unfold same_arrays. rewrite A1, A2, A3, A4, A5, A6, B1, B2, B3, B4, B5, B6, C1, C2, C3.
  repeat split; apply map_ext; intro t; unfold comp1, comp2, comp3; rewrite ?Hd, ?Hj; reflexivity.
Qed.
End Cache.
