(** Link between the model of [Polynomial.integrate] (Lib.Spectral: weights pi/n, halved
    end weights, dropped end points, factor sqrt(1-x^2)) and the Gauss-Chebyshev-Lobatto
    theorems of Lib.Quadrature.  Repo independent. *)
From Coq Require Import Reals List Lra Lia ZArith Arith Bool.
Set Warnings "-ambiguous-paths".
From Coquelicot Require Import Coquelicot.
From WG Require Import Lib.Lagrange Lib.Cheb Lib.Spectral Lib.Quadrature.
Import ListNotations.
Local Open Scope R_scope.

(** the rule of the model, divided by pi: sum over the selected nodes of
    (w_k/pi) (1 - x_k^2) g(x_k); the code multiplies coefficients c_k = sqrt(1-x_k^2) g(x_k)
    by sqrt(1-x_k^2) w_k *)
Definition ruleRH (halved : list Z) (divisor : nat) (d : dir) (ep : bool) (grid : list R)
           (g : R -> R) : R :=
  let sel := trim d ep grid in
  Rsum (map (fun xw => snd xw * ((1 - fst xw * fst xw) * g (fst xw)))
            (combine sel (intWeightsH ROps halved divisor (length sel)))).
Definition ruleR (d : dir) (ep : bool) (grid : list R) (M N : nat) (g : R -> R) : R :=
  ruleRH (int_halved d ep) (wdiv d M N) d ep grid g.

(** a halved entry is harmless when it is the first entry and the first node is kept, or the
    last entry and the last node is kept (the summand vanishes at the end points) *)
Definition halved_ok (d : dir) (ep : bool) (halved : list Z) : Prop :=
  List.Forall (fun z => (z = 0%Z /\ fst (trim_rows d ep) = 0%nat) \/
                        (z = (-1)%Z /\ snd (trim_rows d ep) = 0%nat)) halved.
Lemma int_halved_ok d ep : halved_ok d ep (int_halved d ep).
Proof.
  unfold halved_ok, int_halved, trim_rows.
  destruct ep; [|destruct d]; repeat (constructor; [cbn; tauto|]); constructor.
Qed.

(** weights that equal b wherever the summand does not vanish can be replaced by b *)
Lemma Rsum_combine_weights (l : list R) (w : nat -> R) (a : nat) (b : R) (t : R -> R) :
  (forall k x, nth_error l k = Some x -> t x <> 0 -> w (a + k)%nat = b) ->
  Rsum (map (fun xw => snd xw * t (fst xw)) (combine l (map w (seq a (length l)))))
  = b * Rsum (map t l).
Proof.
  revert a. induction l as [|x l IH]; intros a H.
  - cbn. ring.
  - cbn [length seq map combine]. rewrite !Rsum_cons. cbn [fst snd].
    rewrite (IH (S a)).
    + destruct (Req_EM_T (t x) 0) as [E|E].
      * rewrite E. ring.
      * rewrite <- (H 0%nat x eq_refl E). rewrite Nat.add_0_r. ring.
    + intros k y Hk Hy. rewrite <- (H (S k) y Hk Hy). f_equal. lia.
Qed.

Lemma nth_error_0_hd (l : list R) x : nth_error l 0 = Some x -> hd 0 l = x.
Proof. destruct l; cbn; congruence. Qed.
Lemma nth_error_last (l : list R) x :
  nth_error l (length l - 1) = Some x -> last l 0 = x.
Proof.
  induction l as [|a l IH]; [cbn; congruence|].
  destruct l as [|b l].
  - cbn. congruence.
  - change (last (a :: b :: l) 0) with (last (b :: l) 0).
    replace (length (a :: b :: l) - 1)%nat with (S (length (b :: l) - 1)) by (cbn; lia).
    cbn [nth_error]. exact IH.
Qed.

Lemma Rsum_app (l1 l2 : list R) : Rsum (l1 ++ l2) = Rsum l1 + Rsum l2.
Proof.
  induction l1 as [|a l IH]; [change (Rsum l2 = 0 + Rsum l2); ring|]. cbn [app]. rewrite !Rsum_cons, IH. ring.
Qed.

Lemma Rsum_removelast (t : R -> R) (l : list R) :
  l <> [] -> Rsum (map t l) = Rsum (map t (removelast l)) + t (last l 0).
Proof.
  intro H. rewrite (app_removelast_last 0 H) at 1. rewrite map_app, Rsum_app.
  cbn [map]. rewrite Rsum_cons. change (Rsum []) with 0. ring.
Qed.

Definition tfun (g : R -> R) (x : R) : R := (1 - x * x) * g x.
Lemma tfun_m1 g : tfun g (-1) = 0. Proof. unfold tfun. ring. Qed.
Lemma tfun_1 g : tfun g 1 = 0. Proof. unfold tfun. ring. Qed.
Lemma tfun_nz g x : tfun g x <> 0 -> x <> -1 /\ x <> 1.
Proof. intro H. split; intro E; subst x; apply H; [apply tfun_m1|apply tfun_1]. Qed.

(** the selected-node sum equals the complete-grid sum (dropped points contribute 0) *)
Lemma trim_sum d ep (grid : list R) g :
  hd 0 grid = -1 -> last grid 0 = 1 -> (2 <= length grid)%nat ->
  Rsum (map (tfun g) (trim d ep grid)) = Rsum (map (tfun g) grid).
Proof.
  intros Hh Hl Hlen. unfold trim. destruct ep; [reflexivity|].
  destruct grid as [|a t]; [cbn in Hlen; lia|]. cbn [hd] in Hh. subst a.
  destruct t as [|b t]; [cbn in Hlen; lia|].
  assert (Ht : b :: t <> []) by discriminate.
  change (last (-1 :: b :: t) 0) with (last (b :: t) 0) in Hl.
  destruct d; cbn [tl].
  - change (map (tfun g) (-1 :: b :: t)) with (tfun g (-1) :: map (tfun g) (b :: t)).
    rewrite Rsum_cons, tfun_m1.
    rewrite (Rsum_removelast (tfun g) (b :: t) Ht), Hl, tfun_1. ring.
  - change (map (tfun g) (-1 :: b :: t)) with (tfun g (-1) :: map (tfun g) (b :: t)).
    rewrite Rsum_cons, tfun_m1.
    rewrite (Rsum_removelast (tfun g) (b :: t) Ht), Hl, tfun_1. ring.
  - assert (Hg : -1 :: b :: t <> []) by discriminate.
    rewrite (Rsum_removelast (tfun g) (-1 :: b :: t) Hg).
    change (last (-1 :: b :: t) 0) with (last (b :: t) 0). rewrite Hl, tfun_1. ring.
Qed.

Lemma trim_hd_last d ep (grid : list R) :
  (3 <= length grid)%nat ->
  (fst (trim_rows d ep) = 0%nat -> hd 0 (trim d ep grid) = hd 0 grid) /\
  (snd (trim_rows d ep) = 0%nat -> last (trim d ep grid) 0 = last grid 0).
Proof.
  intro H. unfold trim, trim_rows. destruct ep.
  - split; intros _; reflexivity.
  - destruct d; cbn [fst snd]; split; intro E; try discriminate E.
    destruct grid as [|a [|b t]]; [cbn in H; lia|cbn in H; lia|reflexivity].
Qed.

(** every weight that multiplies a non-vanishing summand is 1/n *)
Lemma weights_base halved divisor d ep (grid : list R) g k x :
  halved_ok d ep halved ->
  hd 0 grid = -1 -> last grid 0 = 1 -> (3 <= length grid)%nat ->
  nth_error (trim d ep grid) k = Some x -> tfun g x <> 0 ->
  fold_right (fun z w => if (pyidx (length (trim d ep grid)) z =? k)%nat then half ROps w else w)
             (odiv ROps (o1 ROps) (onat ROps divisor)) halved
  = / INR divisor.
Proof.
  intros Hok Hh Hl Hlen Hk Hx. apply tfun_nz in Hx. destruct Hx as [Hx1 Hx2].
  assert (Hb : odiv ROps (o1 ROps) (onat ROps divisor) = / INR divisor)
    by (cbn; unfold Rdiv; ring).
  rewrite Hb. clear Hb.
  destruct (trim_hd_last d ep grid Hlen) as [Th Tl].
  assert (Hpos : (1 <= length (trim d ep grid))%nat).
  { destruct (trim d ep grid); [destruct k; discriminate Hk|cbn; lia]. }
  induction Hok as [|z halved Hz _ IH]; [reflexivity|].
  cbn [fold_right]. rewrite IH.
  assert (E : (pyidx (length (trim d ep grid)) z =? k)%nat = false); [|now rewrite E].
  apply Nat.eqb_neq. destruct Hz as [[-> F]|[-> B]].
  - unfold pyidx. cbn [Z.ltb Z.compare]. replace (Z.to_nat 0) with 0%nat by reflexivity.
    intro E. subst k. apply nth_error_0_hd in Hk. rewrite (Th F), Hh in Hk. congruence.
  - unfold pyidx. cbn [Z.ltb Z.compare].
    replace (Z.to_nat (Z.of_nat (length (trim d ep grid)) + -1)) with (length (trim d ep grid) - 1)%nat by lia.
    intro E. subst k. apply nth_error_last in Hk. rewrite (Tl B), Hl in Hk. congruence.
Qed.

(** ** the model's rule (any direction, with or without end points, halved or dropped end
    weights) is the uniform-weight rule on the complete grid: the end-point terms vanish *)
Theorem rule_is_uniform_gen halved divisor d ep grid g :
  halved_ok d ep halved ->
  hd 0 grid = -1 -> last grid 0 = 1 -> (3 <= length grid)%nat ->
  ruleRH halved divisor d ep grid g = / INR divisor * Rsum (map (tfun g) grid).
Proof.
  intros Hok Hh Hl Hlen. unfold ruleRH, intWeightsH.
  rewrite <- (trim_sum d ep grid g Hh Hl) by lia.
  apply (Rsum_combine_weights (trim d ep grid) _ 0 (/ INR divisor) (tfun g)).
  intros k x Hk Hx. cbn [Nat.add]. now apply (weights_base halved divisor d ep grid g k x).
Qed.
Theorem rule_is_uniform d ep grid M N g :
  hd 0 grid = -1 -> last grid 0 = 1 -> (3 <= length grid)%nat ->
  ruleR d ep grid M N g = / INR (wdiv d M N) * Rsum (map (tfun g) grid).
Proof. intros. apply rule_is_uniform_gen; try assumption. apply int_halved_ok. Qed.

(** ** on the Gauss-Lobatto nodes x_k = -cos(k pi/n) *)
Definition gcl_grid (n : nat) : list R :=
  map (fun k => - cos (INR k * PI / INR n)) (seq 0 (S n)).

Lemma Rsum_seq (f : nat -> R) n : Rsum (map f (seq 0 (S n))) = sum_f_R0 f n.
Proof.
  induction n as [|n IH]; [cbn; ring|].
  rewrite seq_S, map_app, Rsum_app. cbn [sum_f_R0]. rewrite <- IH. cbn [Nat.add map].
  rewrite Rsum_cons. change (Rsum []) with 0. ring.
Qed.

Lemma gcl_grid_ends n : (1 <= n)%nat ->
  hd 0 (gcl_grid n) = -1 /\ last (gcl_grid n) 0 = 1 /\ length (gcl_grid n) = S n.
Proof.
  intro Hn. unfold gcl_grid. repeat split.
  - cbn [seq map hd]. replace (INR 0 * PI / INR n) with 0 by (cbn; unfold Rdiv; ring).
    rewrite cos_0. ring.
  - rewrite seq_S, map_app. cbn [map]. rewrite last_last. cbn [Nat.add].
    replace (INR n * PI / INR n) with PI.
    + rewrite cos_PI. ring.
    + field. apply not_0_INR. lia.
  - now rewrite map_length, seq_length.
Qed.

(** ** integrate is exact: for q with q(-cos t) = sum_j b_j cos(j t), at most 2n-2 terms
    (degree <= 2n-3), pi * rule = int_0^pi sin^2 t q(-cos t) dt
    ( = int_{-1}^{1} sqrt(1-x^2) q(x) dx by x = -cos t; that substitution is not proved) *)
Theorem integrate_exact_gen halved n d ep b q :
  halved_ok d ep halved ->
  (2 <= n)%nat -> (length b <= 2 * n - 2)%nat ->
  (forall t, q (- cos t) = trigpoly b t) ->
  is_RInt (fun t => sin t ^ 2 * trigpoly b t) 0 PI
          (PI * ruleRH halved n d ep (gcl_grid n) q).
Proof.
  intros Hok Hn Hb Hq.
  destruct (gcl_grid_ends n) as [Hh [Hl Hlen]]; [lia|].
  rewrite (rule_is_uniform_gen halved n d ep (gcl_grid n) q Hok Hh Hl) by lia.
  unfold gcl_grid. rewrite map_map, Rsum_seq.
  pose proof (gcl_weighted_exact_plain n b Hn Hb) as H.
  replace (PI * (/ INR n * sum_f_R0 (fun x => tfun q (- cos (INR x * PI / INR n))) n))
    with (PI / INR n * sum_f_R0 (fun k => sin (INR k * PI / INR n) ^ 2 *
                                          trigpoly b (INR k * PI / INR n)) n).
  - exact H.
  - unfold Rdiv. rewrite Rmult_assoc. f_equal. f_equal.
    apply sum_eq. intros k _. unfold tfun. rewrite Hq.
    replace (1 - - cos (INR k * PI * / INR n) * - cos (INR k * PI * / INR n))
      with (sin (INR k * PI * / INR n) ^ 2); [reflexivity|].
    pose proof (sin2_cos2 (INR k * PI * / INR n)) as S2. unfold Rsqr in S2. cbn [pow]. lra.
Qed.
Theorem integrate_exact_R d ep M N b q :
  (2 <= wdiv d M N)%nat -> (length b <= 2 * wdiv d M N - 2)%nat ->
  (forall t, q (- cos t) = trigpoly b t) ->
  is_RInt (fun t => sin t ^ 2 * trigpoly b t) 0 PI
          (PI * ruleR d ep (gcl_grid (wdiv d M N)) M N q).
Proof. intros. apply integrate_exact_gen; try assumption. apply int_halved_ok. Qed.
