(** Mathematics behind the plasma-profile equations of WallGo.EOM (property C04).
    Nothing here is about the code: the generated model (GenC04.EomPlasma) is tied to these
    facts in Props/C04.v.  Contents:
    - the vocabulary the translator emits (field points, particles, Delta columns, sums);
    - the quadratic  w v/(1-v^2) = s1  and its unique subluminal root;
    - Lorentz kinematics: boost to the wall frame, metric, momentum flux of an ensemble of
      on-shell momenta, its moments Delta_mn, and Eq.(14) of arXiv:2204.13120. *)
From Coq Require Import Reals Lra Lia List Psatz.
Import ListNotations.
Local Open Scope R_scope.

(** * Vocabulary of the generated model *)
Definition FieldPt := list R.
Record particle := mk_particle { totalDOFs : R; msqVacuum : FieldPt -> R }.
(** [DeltaXY d i k] = offEquilDeltas.DeltaXY.coefficients[i, k] (particle i, grid point k) *)
Record Deltas := mk_Deltas { Delta00 : nat -> nat -> R; Delta02 : nat -> nat -> R;
                             Delta20 : nat -> nat -> R; Delta11 : nat -> nat -> R }.
Definition sum_list (l : list R) : R := fold_right Rplus 0 l.
Definition enumerate {A} (l : list A) : list (nat * A) := combine (seq 0 (length l)) l.

Lemma sum_list_nil : sum_list [] = 0.
Proof. reflexivity. Qed.
Lemma sum_list_cons a l : sum_list (a :: l) = a + sum_list l.
Proof. reflexivity. Qed.
Global Opaque sum_list.
Ltac sl := rewrite ?map_cons, ?sum_list_cons; cbn [map]; rewrite ?sum_list_nil.

Lemma sum_list_app l1 l2 : sum_list (l1 ++ l2) = sum_list l1 + sum_list l2.
Proof. induction l1; cbn [app]; sl; [ring|]. rewrite IHl1. ring. Qed.

Lemma sum_list_map_ext {A} (f g : A -> R) l :
  (forall a, In a l -> f a = g a) -> sum_list (map f l) = sum_list (map g l).
Proof. intro H. f_equal. apply map_ext_in. exact H. Qed.

Lemma sum_list_map_zero {A} (f : A -> R) l :
  (forall a, In a l -> f a = 0) -> sum_list (map f l) = 0.
Proof.
  induction l as [|a l IH]; intro H; sl; [reflexivity|].
  rewrite (H a (or_introl eq_refl)). rewrite IH; [ring|].
  intros b Hb. apply H. right. exact Hb.
Qed.

Lemma sum_list_map_plus {A} (f g : A -> R) l :
  sum_list (map (fun a => f a + g a) l) = sum_list (map f l) + sum_list (map g l).
Proof. induction l; sl; [ring|]. rewrite IHl. ring. Qed.

Lemma sum_list_map_scal {A} (c : R) (f : A -> R) l :
  sum_list (map (fun a => c * f a) l) = c * sum_list (map f l).
Proof. induction l; sl; [ring|]. rewrite IHl. ring. Qed.

Lemma sum_sq_nonneg l : 0 <= sum_list (map (fun x : R => x ^ 2) l).
Proof. induction l; sl; [lra|]. nra. Qed.

Lemma sum_sq_zero l : Forall (fun x => x = 0) l -> sum_list (map (fun x : R => x ^ 2) l) = 0.
Proof. induction 1; sl; [reflexivity|]. subst. rewrite IHForall. ring. Qed.

(** * The fluid velocity from the T^{30} equation *)
Section Velocity.
Variables w s1 : R.
Hypothesis Hw : 0 < w.
Hypothesis Hs : s1 <> 0.
Let S := sqrt (4 * s1 ^ 2 + w ^ 2).
Definition vroot := (- w + sqrt (4 * s1 ^ 2 + w ^ 2)) / (2 * s1).

Lemma S_sq : S * S = 4 * s1 ^ 2 + w ^ 2.
Proof. unfold S. apply sqrt_sqrt. nra. Qed.
Lemma S_pos : 0 < S.
Proof. unfold S. apply sqrt_lt_R0. nra. Qed.
Lemma S_gt_w : w < S.
Proof.
  pose proof S_sq. pose proof S_pos.
  assert (0 < s1 ^ 2) by (assert (s1 < 0 \/ 0 < s1) as [|] by lra; nra).
  nra.
Qed.

Lemma one_minus_vsq : 1 - vroot * vroot = w * (S - w) / (2 * s1 ^ 2).
Proof.
  unfold vroot. fold S. pose proof S_sq as H.
  assert (E : (- w + S) * (- w + S) = 4 * s1 ^ 2 - 2 * w * (S - w)) by nra.
  replace ((- w + S) / (2 * s1) * ((- w + S) / (2 * s1)))
    with (((- w + S) * (- w + S)) / (4 * s1 ^ 2)) by (field; exact Hs).
  rewrite E. field. exact Hs.
Qed.

Lemma vroot_subluminal : -1 < vroot < 1.
Proof.
  pose proof one_minus_vsq as H. pose proof S_gt_w.
  assert (0 < s1 ^ 2) by (assert (s1 < 0 \/ 0 < s1) as [|] by lra; nra).
  assert (0 < w * (S - w) / (2 * s1 ^ 2)).
  { apply Rdiv_lt_0_compat; nra. }
  nra.
Qed.

(** w gamma^2(v) v = s1 *)
Lemma vroot_solves : w * (1 / (1 - vroot * vroot)) * vroot = s1.
Proof.
  pose proof S_gt_w. rewrite one_minus_vsq. unfold vroot. fold S.
  field. repeat split; lra.
Qed.

(** w gamma^2(v) v^2 = (sqrt(4 s1^2+w^2) - w)/2 : the form used in the T^{33} equation *)
Lemma vroot_T33 : w * (1 / (1 - vroot * vroot)) * (vroot * vroot) = (S - w) / 2.
Proof.
  replace (w * (1 / (1 - vroot * vroot)) * (vroot * vroot))
    with ((w * (1 / (1 - vroot * vroot)) * vroot) * vroot) by ring.
  rewrite vroot_solves. unfold vroot. fold S. field. exact Hs.
Qed.

(** it is the ONLY subluminal solution *)
Lemma vroot_unique v : -1 < v < 1 -> w * (1 / (1 - v * v)) * v = s1 -> v = vroot.
Proof.
  intros Hv E. pose proof vroot_subluminal as Hr. pose proof vroot_solves as Er.
  assert (Q : forall x, -1 < x < 1 -> w * (1 / (1 - x * x)) * x = s1 ->
                         s1 * (x * x) + w * x - s1 = 0).
  { intros x Hx Ex. assert (1 - x * x <> 0) by nra.
    rewrite <- Ex. field. assumption. }
  pose proof (Q v Hv E) as Q1. pose proof (Q vroot Hr Er) as Q2.
  (* difference of the two quadratics: (v - r)(s1 (v + r) + w) = 0; the second factor
     vanishes only if v r = -1, impossible for two subluminal numbers *)
  assert (D : (v - vroot) * (s1 * (v + vroot) + w) = 0) by nra.
  apply Rmult_integral in D. destruct D as [D|D]; [lra|].
  exfalso.
  (* from Q2: s1 r^2 + w r - s1 = 0 and s1 (v+r) + w = 0  =>  s1 (1 + v r) = 0 *)
  assert (s1 * (1 + v * vroot) = 0) by nra.
  assert (0 < 1 + v * vroot) by nra.
  assert (s1 = 0) by nra. contradiction.
Qed.
End Velocity.

(** * Lorentz kinematics in the (t,z) plane *)
Definition g2 (v : R) := 1 / (1 - v * v).
Definition gam (v : R) := sqrt (g2 v).

Lemma g2_pos v : -1 < v < 1 -> 0 < g2 v.
Proof. intro H. unfold g2. apply Rdiv_lt_0_compat; nra. Qed.
Lemma gam_sq v : -1 < v < 1 -> gam v * gam v = g2 v.
Proof. intro H. unfold gam. apply sqrt_sqrt. apply Rlt_le, g2_pos, H. Qed.
Lemma g2_id v : -1 < v < 1 -> g2 v - g2 v * (v * v) = 1.
Proof. intro H. unfold g2. field. nra. Qed.

(** four-vectors are functions of the index 0..3 *)
Definition vec := nat -> R.
Definition mkvec (a b c d : R) : vec :=
  fun mu => match mu with 0%nat => a | 1%nat => b | 2%nat => c | 3%nat => d | _ => 0 end.
(** active boost with velocity v along z: a momentum (E,px,py,pz) measured in the plasma
    frame has these components in the frame where the plasma moves with velocity v *)
Definition boost (v : R) (p : vec) : vec :=
  mkvec (gam v * (p 0%nat + v * p 3%nat)) (p 1%nat) (p 2%nat) (gam v * (v * p 0%nat + p 3%nat)).
Definition eta (mu nu : nat) : R :=
  if Nat.eqb mu nu then (if Nat.eqb mu 0 then 1 else -1) else 0.
(** contraction with the metric over the four indices *)
Definition contract (T : nat -> nat -> R) : R :=
  T 0%nat 0%nat - T 1%nat 1%nat - T 2%nat 2%nat - T 3%nat 3%nat.
Definition dot (p q : vec) : R := contract (fun mu nu => p mu * q nu).

(** the plasma four-velocity and the unit vector along z in the plasma frame, boosted *)
Definition uvec (v : R) : vec := boost v (mkvec 1 0 0 0).
Definition ubar (v : R) : vec := boost v (mkvec 0 0 0 1).

Lemma uvec_0 v : uvec v 0%nat = gam v. Proof. unfold uvec, boost, mkvec. ring. Qed.
Lemma uvec_3 v : uvec v 3%nat = gam v * v. Proof. unfold uvec, boost, mkvec. ring. Qed.
Lemma ubar_0 v : ubar v 0%nat = gam v * v. Proof. unfold ubar, boost, mkvec. ring. Qed.
Lemma ubar_3 v : ubar v 3%nat = gam v. Proof. unfold ubar, boost, mkvec. ring. Qed.

Lemma boost_preserves_dot v p q : -1 < v < 1 -> dot (boost v p) (boost v q) = dot p q.
Proof.
  intro H. unfold dot, contract, boost, mkvec.
  pose proof (gam_sq v H) as G. pose proof (g2_id v H) as I.
  replace (gam v * (p 0%nat + v * p 3%nat) * (gam v * (q 0%nat + v * q 3%nat)) - p 1%nat * q 1%nat -
           p 2%nat * q 2%nat - gam v * (v * p 0%nat + p 3%nat) * (gam v * (v * q 0%nat + q 3%nat)))
    with ((gam v * gam v) * (1 - v * v) * (p 0%nat * q 0%nat - p 3%nat * q 3%nat)
          - p 1%nat * q 1%nat - p 2%nat * q 2%nat) by ring.
  rewrite G. replace (g2 v * (1 - v * v)) with (g2 v - g2 v * (v * v)) by ring. rewrite I. ring.
Qed.

Lemma u_dot_u v : -1 < v < 1 -> dot (uvec v) (uvec v) = 1.
Proof. intro H. unfold uvec. rewrite boost_preserves_dot by exact H. unfold dot, contract, mkvec. ring. Qed.
Lemma ubar_dot_ubar v : -1 < v < 1 -> dot (ubar v) (ubar v) = -1.
Proof. intro H. unfold ubar. rewrite boost_preserves_dot by exact H. unfold dot, contract, mkvec. ring. Qed.
Lemma u_dot_ubar v : -1 < v < 1 -> dot (uvec v) (ubar v) = 0.
Proof. intro H. unfold uvec, ubar. rewrite boost_preserves_dot by exact H. unfold dot, contract, mkvec. ring. Qed.

(** * An ensemble of momenta (a discretised deviation delta f) and its moments *)
Record mom := mk_mom { wt : R; En : R; px : R; py : R; pz : R }.
Definition pvec (k : mom) : vec := mkvec (En k) (px k) (py k) (pz k).
Definition on_shell (m2 : R) (k : mom) : Prop := En k * En k = px k * px k + py k * py k + pz k * pz k + m2.
(** Delta_mn = sum of  weight * E^m * pz^n   (the weight contains d^3p/((2 pi)^3 E) delta f) *)
Definition moment (m n : nat) (ens : list mom) : R :=
  sum_list (map (fun k => wt k * En k ^ m * pz k ^ n) ens).
(** momentum flux of the ensemble seen from the frame where the plasma has velocity v *)
Definition flux (v : R) (ens : list mom) (mu nu : nat) : R :=
  sum_list (map (fun k => wt k * boost v (pvec k) mu * boost v (pvec k) nu) ens).

(** the (t,z) block of the momentum flux in terms of the moments and u, ubar *)
Lemma flux_tz v ens mu nu : (mu = 0 \/ mu = 3)%nat -> (nu = 0 \/ nu = 3)%nat ->
  flux v ens mu nu =
    moment 2 0 ens * (uvec v mu * uvec v nu) + moment 0 2 ens * (ubar v mu * ubar v nu)
    + moment 1 1 ens * (uvec v mu * ubar v nu + ubar v mu * uvec v nu).
Proof.
  intros Hm Hn. unfold flux, moment.
  induction ens as [|k ens IH]; sl; [ring|].
  rewrite IH.
  destruct Hm as [-> | ->]; destruct Hn as [-> | ->];
    rewrite ?uvec_0, ?uvec_3, ?ubar_0, ?ubar_3; unfold boost, pvec, mkvec; ring.
Qed.

(** Lorentz-invariant trace of the momentum flux of an on-shell ensemble: m^2 Delta00 *)
Lemma flux_trace v m2 ens : -1 < v < 1 -> Forall (on_shell m2) ens ->
  contract (flux v ens) = m2 * moment 0 0 ens.
Proof.
  intros Hv H. unfold contract, flux, moment.
  induction H as [|k ens Hk _ IH]; sl; [ring|].
  pose proof (boost_preserves_dot v (pvec k) (pvec k) Hv) as B.
  unfold dot, contract in B.
  assert (D : pvec k 0%nat * pvec k 0%nat - pvec k 1%nat * pvec k 1%nat - pvec k 2%nat * pvec k 2%nat
              - pvec k 3%nat * pvec k 3%nat = m2).
  { unfold pvec, mkvec. unfold on_shell in Hk. lra. }
  rewrite D in B. clear D Hk.
  set (b0 := boost v (pvec k) 0%nat) in *. set (b1 := boost v (pvec k) 1%nat) in *.
  set (b2 := boost v (pvec k) 2%nat) in *. set (b3 := boost v (pvec k) 3%nat) in *.
  match goal with |- ?a + ?s0 - (?b + ?s1) - (?c + ?s2) - (?d + ?s3) = _ =>
    replace (a + s0 - (b + s1) - (c + s2) - (d + s3))
      with (wt k * (b0 * b0 - b1 * b1 - b2 * b2 - b3 * b3) + (s0 - s1 - s2 - s3)) by ring end.
  rewrite IH, B. ring.
Qed.

(** transverse pressure of an on-shell ensemble: T^11 + T^22 = Delta20 - Delta02 - m^2 Delta00 *)
Lemma flux_transverse v m2 ens : Forall (on_shell m2) ens ->
  flux v ens 1%nat 1%nat + flux v ens 2%nat 2%nat = moment 2 0 ens - moment 0 2 ens - m2 * moment 0 0 ens.
Proof.
  intros H. unfold flux, moment.
  induction H as [|k ens Hk _ IH]; sl; [ring|].
  unfold on_shell in Hk.
  match goal with |- ?a + ?s1 + (?b + ?s2) = _ => replace (a + s1 + (b + s2)) with ((s1 + s2) + (a + b)) by ring end.
  rewrite IH. unfold boost, pvec, mkvec.
  replace (wt k * px k * px k + wt k * py k * py k)
    with (wt k * (En k * En k - pz k * pz k - m2)) by (rewrite Hk; ring).
  ring.
Qed.

(** * Eq.(14) of arXiv:2204.13120: the out-of-equilibrium stress tensor of one species *)
Definition Tout14 (N m2 d00 d02 d20 d11 v : R) (mu nu : nat) : R :=
  N / 2 * ((3 * d20 - d02 - m2 * d00) * (uvec v mu * uvec v nu)
           + (3 * d02 - d20 + m2 * d00) * (ubar v mu * ubar v nu)
           + 2 * d11 * (uvec v mu * ubar v nu + ubar v mu * uvec v nu)
           + (m2 * d00 + d02 - d20) * eta mu nu).

(** its trace is N m^2 Delta00, whatever the moments *)
Lemma Tout14_trace N m2 d00 d02 d20 d11 v : -1 < v < 1 ->
  contract (Tout14 N m2 d00 d02 d20 d11 v) = N * m2 * d00.
Proof.
  intro H. pose proof (u_dot_u v H) as A. pose proof (ubar_dot_ubar v H) as B.
  pose proof (u_dot_ubar v H) as C. unfold dot, contract in A, B, C.
  unfold contract, Tout14, eta. cbn [Nat.eqb].
  match goal with |- ?L = _ =>
    replace L with (N / 2 * ((3 * d20 - d02 - m2 * d00) *
        (uvec v 0%nat * uvec v 0%nat - uvec v 1%nat * uvec v 1%nat - uvec v 2%nat * uvec v 2%nat - uvec v 3%nat * uvec v 3%nat)
      + (3 * d02 - d20 + m2 * d00) *
        (ubar v 0%nat * ubar v 0%nat - ubar v 1%nat * ubar v 1%nat - ubar v 2%nat * ubar v 2%nat - ubar v 3%nat * ubar v 3%nat)
      + 4 * d11 *
        (uvec v 0%nat * ubar v 0%nat - uvec v 1%nat * ubar v 1%nat - uvec v 2%nat * ubar v 2%nat - uvec v 3%nat * ubar v 3%nat)
      + 4 * (m2 * d00 + d02 - d20))) by ring end.
  rewrite A, B, C. field.
Qed.

(** its (t,z) block is the plain combination of the moments (the m^2 Delta00 pieces and the
    metric piece cancel there because u u - ubar ubar - eta vanishes on that block) *)
Lemma Tout14_tz N m2 d00 d02 d20 d11 v mu nu : -1 < v < 1 ->
  (mu = 0 \/ mu = 3)%nat -> (nu = 0 \/ nu = 3)%nat ->
  Tout14 N m2 d00 d02 d20 d11 v mu nu =
  N * (d20 * (uvec v mu * uvec v nu) + d02 * (ubar v mu * ubar v nu)
       + d11 * (uvec v mu * ubar v nu + ubar v mu * uvec v nu)).
Proof.
  intros H Hm Hn. pose proof (gam_sq v H) as G. pose proof (g2_id v H) as I.
  assert (K : gam v * gam v * (1 - v * v) - 1 = 0) by (rewrite G; lra).
  unfold Tout14, eta.
  destruct Hm as [-> | ->]; destruct Hn as [-> | ->]; cbn [Nat.eqb];
    rewrite ?uvec_0, ?uvec_3, ?ubar_0, ?ubar_3; apply Rminus_diag_uniq.
  - match goal with |- ?X = 0 => replace X with
      (N / 2 * (d20 - d02 - m2 * d00) * (gam v * gam v * (1 - v * v) - 1)) by field end.
    rewrite K. ring.
  - field.
  - field.
  - match goal with |- ?X = 0 => replace X with
      (- (N / 2 * (d20 - d02 - m2 * d00) * (gam v * gam v * (1 - v * v) - 1))) by field end.
    rewrite K. ring.
Qed.

(** hence: Eq.(14) evaluated on the moments of an ensemble IS N times its momentum flux in the
    (t,z) block, for any value given to Delta00 *)
Lemma Tout14_is_flux N m2 d00 v ens mu nu : -1 < v < 1 ->
  (mu = 0 \/ mu = 3)%nat -> (nu = 0 \/ nu = 3)%nat ->
  Tout14 N m2 d00 (moment 0 2 ens) (moment 2 0 ens) (moment 1 1 ens) v mu nu = N * flux v ens mu nu.
Proof. intros H Hm Hn. rewrite Tout14_tz by assumption. rewrite flux_tz by assumption. ring. Qed.
