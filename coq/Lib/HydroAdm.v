(** Source-independent algebra and analysis used by C06 (admissibility / classification of
    hydrodynamic matchings).  Nothing here mentions the generated model; Props/C06.v
    instantiates these lemmas on the definitions regenerated from hydrodynamics.py and
    hydrodynamicsTemplateModel.py. *)
From Coq Require Import Reals Lra Psatz.
From Coquelicot Require Import Coquelicot.
Local Open Scope R_scope.

(** * 1. The rule v-^2 = min(vw^2, cs^2), v- = sqrt(max(.,0)) *)

Lemma sqrt_sq_nonneg x : 0 <= x -> sqrt (x ^ 2) = x.
Proof. intro H. replace (x ^ 2) with (Rsqr x) by (unfold Rsqr; ring). apply sqrt_Rsqr, H. Qed.

Lemma sqrt_pow2 x : 0 <= x -> sqrt x ^ 2 = x.
Proof. intro H. replace (sqrt x ^ 2) with (Rsqr (sqrt x)) by (unfold Rsqr; ring). apply Rsqr_sqrt, H. Qed.

Lemma vm_rule_deflag vw c : 0 <= vw -> vw ^ 2 <= c ->
  sqrt (Rmax (Rmin (vw ^ 2) c) 0) = vw.
Proof.
  intros H0 H. rewrite Rmin_left by exact H.
  rewrite Rmax_left by nra. apply sqrt_sq_nonneg, H0.
Qed.

Lemma vm_rule_hybrid vw c : 0 <= c -> c <= vw ^ 2 ->
  sqrt (Rmax (Rmin (vw ^ 2) c) 0) = sqrt c.
Proof. intros H0 H. rewrite Rmin_right by exact H. rewrite Rmax_left by exact H0. reflexivity. Qed.

(** whatever the branch: 0 <= v- <= vw, v-^2 <= cs^2 (never supersonic behind the wall), and
    v-^2 is exactly the min *)
Lemma vm_rule_bounds vw c : 0 <= vw -> 0 <= c ->
  let vm := sqrt (Rmax (Rmin (vw ^ 2) c) 0) in
  0 <= vm <= vw /\ vm ^ 2 = Rmin (vw ^ 2) c /\ vm ^ 2 <= c.
Proof.
  intros H0 Hc vm.
  assert (Hm : 0 <= Rmin (vw ^ 2) c) by (apply Rmin_glb; nra).
  assert (E : vm ^ 2 = Rmin (vw ^ 2) c).
  { unfold vm. rewrite Rmax_left by exact Hm.
    replace (sqrt (Rmin (vw ^ 2) c) ^ 2) with (Rsqr (sqrt (Rmin (vw ^ 2) c))) by (unfold Rsqr; ring).
    apply Rsqr_sqrt, Hm. }
  assert (Hv : 0 <= vm) by apply sqrt_pos.
  repeat split; try assumption.
  - assert (vm ^ 2 <= vw ^ 2) by (rewrite E; apply Rmin_l). nra.
  - rewrite E. apply Rmin_r.
Qed.

(** * 2. Derivative of v+^2(T-) at fixed (p+,e+) and the Chapman-Jouguet factorisation *)

Definition vpsqNum (pH eH pL eL dp de : R) : R :=
  (- dp) * (pH + eL) * (eH - eL) * (eH + pL)
  + (pH - pL) * de * (eH - eL) * (eH + pL)
  - (pH - pL) * (pH + eL) * (- de) * (eH + pL)
  - (pH - pL) * (pH + eL) * (eH - eL) * dp.

Lemma vpsq_is_derive (pL eL : R -> R) pH eH tm dp de :
  is_derive pL tm dp -> is_derive eL tm de ->
  eH - eL tm <> 0 -> eH + pL tm <> 0 ->
  is_derive (fun t => (pH - pL t) * (pH + eL t) / (eH - eL t) / (eH + pL t)) tm
    (vpsqNum pH eH (pL tm) (eL tm) dp de / ((eH - eL tm) * (eH + pL tm)) ^ 2).
Proof.
  intros Hp He H1 H2. unfold vpsqNum.
  auto_derive.
  - repeat split; try (eexists; eassumption); assumption.
  - replace (Derive (fun x : R => pL x) tm) with dp by (symmetry; apply is_derive_unique; exact Hp).
    replace (Derive (fun x : R => eL x) tm) with de by (symmetry; apply is_derive_unique; exact He).
    field. split; assumption.
Qed.

Lemma vpsq_derivable_pt_lim (pL eL : R -> R) pH eH tm dp de :
  derivable_pt_lim pL tm dp -> derivable_pt_lim eL tm de ->
  eH - eL tm <> 0 -> eH + pL tm <> 0 ->
  derivable_pt_lim (fun t => (pH - pL t) * (pH + eL t) / (eH - eL t) / (eH + pL t)) tm
    (vpsqNum pH eH (pL tm) (eL tm) dp de / ((eH - eL tm) * (eH + pL tm)) ^ 2).
Proof.
  intros Hp He H1 H2. apply is_derive_Reals.
  apply vpsq_is_derive; try assumption; apply is_derive_Reals; assumption.
Qed.

(** the numerator factorises through (v-^2 - cs^2), v-^2 = (v+v-)/(v+/v-) and cs^2 = p'/e' *)
Lemma CJ_factor pH eH pL eL dp de :
  de <> 0 -> pH + eL <> 0 -> eH - eL <> 0 -> eH + pL <> 0 ->
  vpsqNum pH eH pL eL dp de =
  (eH + pH) * de * (pH + eL) * (eH - eL) *
  ((pH - pL) / (eH - eL) / ((eL + pH) / (eH + pL)) - dp / de).
Proof. intros. unfold vpsqNum. field. repeat split; try assumption. lra. Qed.

(** residual handed to the root finder for detonations:  g(T-) = vw^2 (e+ - e-) - (p+ - p-)(e- + p+)/(e+ + p-).
    Its slope AT A ROOT is  - w+ e-' (e- + p+) (v-^2 - cs^2) / (e+ + p-)^2. *)
Definition detonRes (vw pH eH pL eL : R) : R :=
  vw ^ 2 * (eH - eL) - (pH - pL) * (eL + pH) / (eH + pL).

Lemma detonRes_is_derive (pL eL : R -> R) vw pH eH tm dp de :
  is_derive pL tm dp -> is_derive eL tm de -> eH + pL tm <> 0 ->
  is_derive (fun t => detonRes vw pH eH (pL t) (eL t)) tm
    (vw ^ 2 * (- de) - (((- dp) * (eL tm + pH) + (pH - pL tm) * de) * (eH + pL tm)
                         - (pH - pL tm) * (eL tm + pH) * dp) / (eH + pL tm) ^ 2).
Proof.
  intros Hp He H2. unfold detonRes.
  auto_derive.
  - repeat split; try (eexists; eassumption); assumption.
  - replace (Derive (fun x : R => pL x) tm) with dp by (symmetry; apply is_derive_unique; exact Hp).
    replace (Derive (fun x : R => eL x) tm) with de by (symmetry; apply is_derive_unique; exact He).
    field. assumption.
Qed.

Lemma derivable_pt_lim_ext (f g : R -> R) x l :
  (forall t, f t = g t) -> derivable_pt_lim f x l -> derivable_pt_lim g x l.
Proof.
  intros E D eps He. destruct (D eps He) as [d Hd]. exists d. intros h H0 H1.
  rewrite <- !E. apply Hd; assumption.
Qed.

Lemma detonRes_derivable_pt_lim (pL eL : R -> R) vw pH eH tm dp de :
  derivable_pt_lim pL tm dp -> derivable_pt_lim eL tm de -> eH + pL tm <> 0 ->
  derivable_pt_lim (fun t => detonRes vw pH eH (pL t) (eL t)) tm
    (vw ^ 2 * (- de) - (((- dp) * (eL tm + pH) + (pH - pL tm) * de) * (eH + pL tm)
                         - (pH - pL tm) * (eL tm + pH) * dp) / (eH + pL tm) ^ 2).
Proof.
  intros Hp He H2. apply is_derive_Reals.
  apply detonRes_is_derive; try assumption; apply is_derive_Reals; assumption.
Qed.

Lemma detonRes_slope_at_root vw pH eH pL eL dp de :
  de <> 0 -> pH + eL <> 0 -> eH - eL <> 0 -> eH + pL <> 0 ->
  detonRes vw pH eH pL eL = 0 ->
  vw ^ 2 * (- de) - (((- dp) * (eL + pH) + (pH - pL) * de) * (eH + pL)
                       - (pH - pL) * (eL + pH) * dp) / (eH + pL) ^ 2
  = - ((eH + pH) * de * (pH + eL) / (eH + pL) ^ 2) *
      ((pH - pL) / (eH - eL) / ((eL + pH) / (eH + pL)) - dp / de).
Proof.
  intros Hde H1 H2 H3 Hroot. unfold detonRes in Hroot.
  assert (Hv : vw ^ 2 = (pH - pL) * (eL + pH) / (eH + pL) / (eH - eL)).
  { assert (E : vw ^ 2 * (eH - eL) = (pH - pL) * (eL + pH) / (eH + pL)) by lra.
    rewrite <- E. field. assumption. }
  rewrite Hv. field. repeat split; try assumption. lra.
Qed.

(** a function that is >= 0 on [a, r) and vanishes at r has a non-positive slope at r *)
Lemma first_root_slope (g : R -> R) a r l :
  a < r -> (forall t, a <= t < r -> 0 <= g t) -> g r = 0 ->
  derivable_pt_lim g r l -> l <= 0.
Proof.
  intros Har Hpos Hr Hd.
  destruct (Rle_dec l 0) as [|Hl]; [assumption|exfalso].
  assert (Hl' : 0 < l) by lra.
  destruct (Hd (l / 2)) as [delta Hdelta]; [lra|].
  set (h := - Rmin (delta / 2) ((r - a) / 2)).
  assert (Hdp : 0 < delta) by apply delta.
  assert (Hm : 0 < Rmin (delta / 2) ((r - a) / 2)) by (apply Rmin_glb_lt; lra).
  assert (Hm1 : Rmin (delta / 2) ((r - a) / 2) <= delta / 2) by apply Rmin_l.
  assert (Hm2 : Rmin (delta / 2) ((r - a) / 2) <= (r - a) / 2) by apply Rmin_r.
  assert (Hh : h <> 0) by (unfold h; lra).
  assert (Hhd : Rabs h < delta).
  { unfold h. rewrite Rabs_Ropp, Rabs_pos_eq; lra. }
  specialize (Hdelta h Hh Hhd). rewrite Hr in Hdelta.
  assert (Hg : 0 <= g (r + h)) by (apply Hpos; unfold h; lra).
  apply Rabs_def2 in Hdelta. destruct Hdelta as [_ Hlow].
  (* (g(r+h) - 0)/h > l/2 > 0 with h < 0 and g(r+h) >= 0 : impossible *)
  assert (Hneg : (g (r + h) - 0) / h <= 0).
  { unfold Rdiv. rewrite Rminus_0_r.
    assert (/ h < 0) by (apply Rinv_lt_0_compat; unfold h; lra). nra. }
  lra.
Qed.

(** a function whose derivative is <= 0 before m and >= 0 after m (on [a,b]) is minimal at m *)
Lemma local_min_of_sign_change (f f' : R -> R) a b m :
  a <= m <= b -> (forall c, a <= c <= b -> derivable_pt_lim f c (f' c)) ->
  (forall c, a <= c < m -> f' c <= 0) -> (forall c, m < c <= b -> 0 <= f' c) ->
  forall t, a <= t <= b -> f m <= f t.
Proof.
  intros Hm Hd Hneg Hpos t Ht.
  destruct (Rtotal_order t m) as [L|[E|G]].
  - destruct (MVT_cor2 f f' t m L) as [c [Hc1 Hc2]].
    { intros c Hc. apply Hd. lra. }
    assert (f' c <= 0) by (apply Hneg; lra). nra.
  - subst. lra.
  - destruct (MVT_cor2 f f' m t G) as [c [Hc1 Hc2]].
    { intros c Hc. apply Hd. lra. }
    assert (0 <= f' c) by (apply Hpos; lra). nra.
Qed.

(** sign chain used by the bracket search: same strict sign on [a,m], sign change on [m,b] *)
Lemma sign_chain x y z : 0 < x * y -> y * z <= 0 -> x * z <= 0.
Proof.
  intros H1 H2.
  destruct (Rle_dec (x * z) 0) as [|N]; [assumption|exfalso].
  assert (0 < x * z) by lra.
  assert (0 < (x * y) * (x * z)) by (apply Rmult_lt_0_compat; assumption).
  assert (E : (x * y) * (x * z) = (x * x) * (y * z)) by ring.
  assert (0 <= x * x) by nra. nra.
Qed.
Lemma sign_chain_pos x y z : 0 < x * y -> 0 < y * z -> 0 < x * z.
Proof.
  intros H1 H2.
  assert (P : 0 < (x * y) * (y * z)) by (apply Rmult_lt_0_compat; assumption).
  assert (E : (x * y) * (y * z) = (y * y) * (x * z)) by ring.
  assert (0 <= y * y) by nra.
  destruct (Rlt_dec 0 (x * z)); [assumption|exfalso]. nra.
Qed.

(** * 3. Template model: detonation branch and Jouguet velocity (cb2 = cb^2, alpha = alN) *)

Lemma tvJ_root_poly c a S : S ^ 2 = 3 * a * (1 - c ^ 2 + 3 * c ^ 2 * a) ->
  1 + 3 * c ^ 2 * a <> 0 ->
  (c * (1 + S) / (1 + 3 * c ^ 2 * a)) ^ 2
    + c ^ 2 * (1 - 3 * (1 - (c * (1 + S) / (1 + 3 * c ^ 2 * a)) ^ 2) * a)
  = 2 * c * (c * (1 + S) / (1 + 3 * c ^ 2 * a)).
Proof.
  intros HS D. apply Rminus_diag_uniq.
  match goal with |- ?L - ?R = 0 =>
    replace (L - R) with (c ^ 2 * (S ^ 2 - 3 * a * (1 - c ^ 2 + 3 * c ^ 2 * a)) / (1 + 3 * c ^ 2 * a))
      by (field; exact D) end.
  rewrite HS. unfold Rdiv. ring.
Qed.

Lemma quad_root_poly v p c2 s : s ^ 2 = p ^ 2 - 4 * c2 * v ^ 2 -> v <> 0 ->
  v * ((p + s) / (2 * v)) ^ 2 - p * ((p + s) / (2 * v)) + v * c2 = 0.
Proof.
  intros HS D.
  replace (v * ((p + s) / (2 * v)) ^ 2 - p * ((p + s) / (2 * v)) + v * c2)
    with ((s ^ 2 - (p ^ 2 - 4 * c2 * v ^ 2)) / (4 * v)) by (field; exact D).
  rewrite HS. unfold Rdiv. ring.
Qed.

Section Template.
Variables cb cb2 al : R.
Hypothesis Hcb : cb = sqrt cb2.
Hypothesis Hcb2 : 0 < cb2 < 1.
Hypothesis Hal : 0 <= al.

Let S := sqrt (3 * al * (1 - cb2 + 3 * cb2 * al)).
Definition tvJ := cb * (1 + sqrt (3 * al * (1 - cb2 + 3 * cb2 * al))) / (1 + 3 * cb2 * al).
Definition tpart (vw : R) := vw ^ 2 + cb2 * (1 - 3 * (1 - vw ^ 2) * al).
Definition tvm (vw : R) := (tpart vw + sqrt (tpart vw ^ 2 - 4 * cb2 * vw ^ 2)) / (2 * vw).

Lemma cb_sq : cb ^ 2 = cb2.
Proof.
  rewrite Hcb. replace (sqrt cb2 ^ 2) with (Rsqr (sqrt cb2)) by (unfold Rsqr; ring).
  apply Rsqr_sqrt; lra.
Qed.
Lemma cb_pos : 0 < cb.
Proof. rewrite Hcb. apply sqrt_lt_R0; lra. Qed.
Lemma cb_lt1 : cb < 1.
Proof. pose proof cb_sq. pose proof cb_pos. nra. Qed.

Lemma S_sq : S ^ 2 = 3 * al * (1 - cb2 + 3 * cb2 * al).
Proof.
  unfold S. apply sqrt_pow2. nra.
Qed.
Lemma S_nonneg : 0 <= S.
Proof. apply sqrt_pos. Qed.

Lemma tvJ_eq : tvJ = cb * (1 + S) / (1 + 3 * cb2 * al).
Proof. reflexivity. Qed.

(** vJ is the larger root of (1+3 cb2 al) v^2 - 2 cb v + cb2 (1 - 3 al) = 0, i.e. of
    part(v) = 2 cb v : the discriminant of the v- quadratic vanishes there *)
Lemma tvJ_root : tpart tvJ = 2 * cb * tvJ.
Proof.
  pose proof cb_sq as C. pose proof S_sq as HS.
  assert (D : 1 + 3 * cb ^ 2 * al <> 0) by nra.
  rewrite tvJ_eq. unfold tpart. rewrite <- C in *.
  apply tvJ_root_poly; assumption.
Qed.

Lemma tvJ_ge_cb : cb <= tvJ.
Proof.
  pose proof cb_sq as C. pose proof S_sq as HS. pose proof S_nonneg as S0. pose proof cb_pos as P.
  assert (D : 0 < 1 + 3 * cb2 * al) by nra.
  rewrite tvJ_eq. apply Rmult_le_reg_r with (1 + 3 * cb2 * al); [exact D|].
  replace (cb * (1 + S) / (1 + 3 * cb2 * al) * (1 + 3 * cb2 * al)) with (cb * (1 + S)) by (field; lra).
  (* S >= 3 cb2 al  since  S^2 - (3 cb2 al)^2 = 3 al (1-cb2)(1+3 cb2 al) >= 0 *)
  assert (3 * cb2 * al <= S).
  { destruct (Rle_dec (3 * cb2 * al) S); [assumption|exfalso].
    assert (S ^ 2 < (3 * cb2 * al) ^ 2) by nra.
    assert (0 <= 3 * al * (1 - cb2) * (1 + 3 * cb2 * al)) by nra. nra. }
  nra.
Qed.

Lemma tvJ_lt1 : tvJ < 1.
Proof.
  pose proof cb_sq as C. pose proof S_sq as HS. pose proof S_nonneg as S0. pose proof cb_pos as P.
  pose proof cb_lt1 as L.
  assert (D : 0 < 1 + 3 * cb2 * al) by nra.
  rewrite tvJ_eq. apply Rmult_lt_reg_r with (1 + 3 * cb2 * al); [exact D|].
  replace (cb * (1 + S) / (1 + 3 * cb2 * al) * (1 + 3 * cb2 * al)) with (cb * (1 + S)) by (field; lra).
  (* cb S < 1 + 3 cb2 al - cb : square both sides *)
  assert (Hr : 0 < 1 + 3 * cb2 * al - cb) by nra.
  assert ((cb * S) ^ 2 < (1 + 3 * cb2 * al - cb) ^ 2).
  { replace ((cb * S) ^ 2) with (cb ^ 2 * S ^ 2) by ring. rewrite HS. rewrite <- C.
    assert (E : (1 + 3 * cb ^ 2 * al - cb) ^ 2 - cb ^ 2 * (3 * al * (1 - cb ^ 2 + 3 * cb ^ 2 * al))
                = (1 - cb) ^ 2 * (1 + 3 * al * cb ^ 2)) by ring.
    assert (0 < (1 - cb) ^ 2 * (1 + 3 * al * cb ^ 2)).
    { apply Rmult_lt_0_compat; nra. }
    lra. }
  nra.
Qed.

(** for vw >= vJ : part >= 2 cb vw, hence the discriminant is >= 0 *)
Lemma tpart_ge vw : tvJ <= vw -> 2 * cb * vw <= tpart vw.
Proof.
  intro Hv. pose proof tvJ_root as R0. pose proof tvJ_ge_cb as G.
  pose proof cb_sq as C. pose proof cb_pos as P.
  unfold tpart in *.
  (* q(v) = (1+3 cb2 al) v^2 - 2 cb v + cb2(1-3al); q(vJ)=0, q'(v) >= 0 for v >= cb/(1+3cb2 al) *)
  assert (Q : (1 + 3 * cb2 * al) * tvJ ^ 2 - 2 * cb * tvJ + cb2 * (1 - 3 * al) = 0) by lra.
  fold (tpart vw).
  assert (0 <= (vw - tvJ) * ((1 + 3 * cb2 * al) * (vw + tvJ) - 2 * cb)).
  { apply Rmult_le_pos; [lra|].
    assert (0 <= 3 * cb2 * al) by (apply Rmult_le_pos; lra).
    assert (0 <= 3 * cb2 * al * (vw + tvJ)) by (apply Rmult_le_pos; lra).
    lra. }
  assert (E : tpart vw - 2 * cb * vw =
              (vw - tvJ) * ((1 + 3 * cb2 * al) * (vw + tvJ) - 2 * cb)
              + ((1 + 3 * cb2 * al) * tvJ ^ 2 - 2 * cb * tvJ + cb2 * (1 - 3 * al))) by (unfold tpart; ring).
  lra.
Qed.

Lemma tdisc_nonneg vw : tvJ <= vw -> 0 <= tpart vw ^ 2 - 4 * cb2 * vw ^ 2.
Proof.
  intro Hv. pose proof (tpart_ge vw Hv). pose proof cb_sq as C. pose proof cb_pos.
  pose proof tvJ_ge_cb. rewrite <- C.
  assert (0 <= 2 * cb * vw) by nra. nra.
Qed.

(** the detonation root: cb <= v- (never subsonic behind the wall: weak/Jouguet detonation),
    v- < v+ = vw when alpha > 0, and v- solves the junction quadratic *)
Lemma tvm_ge_cb vw : tvJ <= vw -> cb <= tvm vw.
Proof.
  intro Hv. pose proof (tpart_ge vw Hv) as G. pose proof cb_pos as P. pose proof tvJ_ge_cb as J.
  assert (V : 0 < vw) by lra.
  unfold tvm. apply Rmult_le_reg_r with (2 * vw); [lra|].
  match goal with |- _ <= ?x / ?d * ?d => replace (x / d * d) with x by (field; lra) end.
  pose proof (sqrt_pos (tpart vw ^ 2 - 4 * cb2 * vw ^ 2)). lra.
Qed.

Lemma tvm_quadratic vw : tvJ <= vw ->
  vw * tvm vw ^ 2 - tpart vw * tvm vw + vw * cb2 = 0.
Proof.
  intro Hv. pose proof (tdisc_nonneg vw Hv) as D. pose proof cb_pos as P. pose proof tvJ_ge_cb as J.
  assert (V : vw <> 0) by lra.
  unfold tvm. set (s := sqrt (tpart vw ^ 2 - 4 * cb2 * vw ^ 2)).
  assert (Hs : s ^ 2 = tpart vw ^ 2 - 4 * cb2 * vw ^ 2).
  { unfold s. apply sqrt_pow2, D. }
  apply quad_root_poly; assumption.
Qed.

Lemma tvm_lt_vw vw : 0 < al -> tvJ <= vw -> vw < 1 -> tvm vw < vw.
Proof.
  intros A Hv H1. pose proof (tdisc_nonneg vw Hv) as D. pose proof cb_pos as P.
  pose proof tvJ_ge_cb as J. pose proof cb_sq as C.
  assert (V : 0 < vw) by lra.
  unfold tvm. set (s := sqrt (tpart vw ^ 2 - 4 * cb2 * vw ^ 2)).
  assert (Hs : s ^ 2 = tpart vw ^ 2 - 4 * cb2 * vw ^ 2).
  { unfold s. apply sqrt_pow2, D. }
  assert (S0 : 0 <= s) by apply sqrt_pos.
  apply Rmult_lt_reg_r with (2 * vw); [lra|].
  match goal with |- ?x / ?d * ?d < _ => replace (x / d * d) with x by (field; lra) end.
  (* s < 2 vw^2 - part ; (2vw^2-part)^2 - s^2 = 12 vw^2 cb2 (1-vw^2) al > 0 *)
  assert (Hq : 0 < 2 * vw ^ 2 - tpart vw).
  { unfold tpart.
    assert (X0 : 0 < 3 * (1 - vw ^ 2) * al) by (apply Rmult_lt_0_compat; nra).
    assert (X1 : 0 < cb2 * (3 * (1 - vw ^ 2) * al)) by (apply Rmult_lt_0_compat; lra).
    assert (cb2 <= vw ^ 2) by nra. lra. }
  assert (Hd : s ^ 2 < (2 * vw ^ 2 - tpart vw) ^ 2).
  { rewrite Hs. unfold tpart.
    assert (X : 0 < 12 * vw ^ 2 * cb2 * (1 - vw ^ 2) * al).
    { repeat apply Rmult_lt_0_compat; nra. }
    assert (E : (2 * vw ^ 2 - (vw ^ 2 + cb2 * (1 - 3 * (1 - vw ^ 2) * al))) ^ 2
                - ((vw ^ 2 + cb2 * (1 - 3 * (1 - vw ^ 2) * al)) ^ 2 - 4 * cb2 * vw ^ 2)
                = 12 * vw ^ 2 * cb2 * (1 - vw ^ 2) * al) by ring.
    lra. }
  nra.
Qed.

(** at the Jouguet velocity the detonation has v- = cb : the Chapman-Jouguet point *)
Lemma tvm_at_vJ : tvm tvJ = cb.
Proof.
  pose proof tvJ_root as R0. pose proof cb_sq as C. pose proof cb_pos as P. pose proof tvJ_ge_cb as J.
  unfold tvm. rewrite R0.
  replace ((2 * cb * tvJ) ^ 2 - 4 * cb2 * tvJ ^ 2) with 0 by (rewrite <- C; ring).
  rewrite sqrt_0. field. lra.
Qed.

End Template.
