(** C12 library: finite sums over R, the assembled Boltzmann operator as a sum of tensor
    products (factorisation under a change of polynomial basis), linear systems with a left
    inverse, the datatypes of the AST facts about the derivative branches, and a small heap
    model of "copy the solver, mutate the copy".  Hand-written, generic (nothing here
    mentions WallGo code; the generated model GenC12.Boltz is plugged in by Props/C12.v). *)
From Coq Require Import Reals Lra List Bool Arith Lia.
Import ListNotations.
Local Open Scope R_scope.

(** * Kronecker delta (np.identity) and finite sums *)
Definition kron (i j : nat) : R := if Nat.eqb i j then 1 else 0.

Lemma kron_same i : kron i i = 1.
Proof. unfold kron. now rewrite Nat.eqb_refl. Qed.
Lemma kron_diff i j : i <> j -> kron i j = 0.
Proof. intros H. unfold kron. destruct (Nat.eqb_spec i j); [contradiction|reflexivity]. Qed.

Fixpoint rsum (n : nat) (f : nat -> R) : R :=
  match n with O => 0 | S k => rsum k f + f k end.

Lemma rsum_ext n f g : (forall i, (i < n)%nat -> f i = g i) -> rsum n f = rsum n g.
Proof.
  induction n; intros H; cbn [rsum]; [reflexivity|].
  rewrite IHn, (H n) by (intros; try apply H; lia). reflexivity.
Qed.
Lemma rsum_zero n : rsum n (fun _ => 0) = 0.
Proof. induction n; cbn [rsum]; [reflexivity|rewrite IHn; ring]. Qed.
Lemma rsum_scal n c f : rsum n (fun i => c * f i) = c * rsum n f.
Proof. induction n; cbn [rsum]; [ring|rewrite IHn; ring]. Qed.
Lemma rsum_scal_r n c f : rsum n (fun i => f i * c) = rsum n f * c.
Proof. induction n; cbn [rsum]; [ring|rewrite IHn; ring]. Qed.
Lemma rsum_plus n f g : rsum n (fun i => f i + g i) = rsum n f + rsum n g.
Proof. induction n; cbn [rsum]; [ring|rewrite IHn; ring]. Qed.
Lemma rsum_minus n f g : rsum n (fun i => f i - g i) = rsum n f - rsum n g.
Proof. induction n; cbn [rsum]; [ring|rewrite IHn; ring]. Qed.
Lemma rsum_all_zero n f : (forall i, (i < n)%nat -> f i = 0) -> rsum n f = 0.
Proof. intros H. rewrite (rsum_ext n f (fun _ => 0) H). apply rsum_zero. Qed.

Lemma rsum_kron n a f : (a < n)%nat -> rsum n (fun i => kron a i * f i) = f a.
Proof.
  induction n; intros H; [lia|]. cbn [rsum].
  destruct (Nat.eq_dec a n) as [->|Hne].
  - rewrite rsum_all_zero, kron_same; [ring|].
    intros i Hi. rewrite kron_diff by lia. ring.
  - rewrite IHn by lia. rewrite kron_diff by lia. ring.
Qed.

Lemma rsum_swap n m (f : nat -> nat -> R) :
  rsum n (fun i => rsum m (fun j => f i j)) = rsum m (fun j => rsum n (fun i => f i j)).
Proof.
  induction n; cbn [rsum].
  - now rewrite rsum_zero.
  - rewrite IHn, <- rsum_plus. reflexivity.
Qed.

(** double and triple sums that separate *)
Lemma rsum2_sep n g h :
  rsum n (fun j => rsum n (fun k => g j * h k)) = rsum n g * rsum n h.
Proof.
  rewrite (rsum_ext n _ (fun j => g j * rsum n h)) by (intros; apply rsum_scal).
  apply rsum_scal_r.
Qed.

Definition rsum3 (m n : nat) (f : nat -> nat -> nat -> R) : R :=
  rsum m (fun i => rsum n (fun j => rsum n (fun k => f i j k))).

Lemma rsum3_ext m n f g :
  (forall i j k, (i < m)%nat -> (j < n)%nat -> (k < n)%nat -> f i j k = g i j k) ->
  rsum3 m n f = rsum3 m n g.
Proof. intros H. unfold rsum3. repeat (apply rsum_ext; intros). now apply H. Qed.
Lemma rsum3_plus m n f g :
  rsum3 m n (fun i j k => f i j k + g i j k) = rsum3 m n f + rsum3 m n g.
Proof.
  unfold rsum3. rewrite <- rsum_plus. apply rsum_ext; intros.
  rewrite <- rsum_plus. apply rsum_ext; intros. apply rsum_plus.
Qed.
Lemma rsum3_minus m n f g :
  rsum3 m n (fun i j k => f i j k - g i j k) = rsum3 m n f - rsum3 m n g.
Proof.
  unfold rsum3. rewrite <- rsum_minus. apply rsum_ext; intros.
  rewrite <- rsum_minus. apply rsum_ext; intros. apply rsum_minus.
Qed.
Lemma rsum3_sep m n f G :
  rsum3 m n (fun i j k => f i * G j k) = rsum m f * rsum n (fun j => rsum n (fun k => G j k)).
Proof.
  unfold rsum3.
  rewrite (rsum_ext m _ (fun i => f i * rsum n (fun j => rsum n (fun k => G j k)))).
  - apply rsum_scal_r.
  - intros i _. rewrite <- rsum_scal. apply rsum_ext; intros. apply rsum_scal.
Qed.

(** * The assembled operator as a sum of three tensor products *)
Section Factor.
Variables m n : nat.          (* number of position / momentum basis functions *)
Variables K1 K2 K3 : R.       (* row-dependent prefactors: do NOT depend on the column *)

(** row (al,be,ga), column (i,j,k);  X,Y,Z : values of the basis functions at the collocation
    points in chi, rz, rp; DX, DY : their derivatives at the points; C : collision data of
    the row, in the momentum basis *)
Definition opform (X Y Z DX DY C : nat -> nat -> R) (al be ga i j k : nat) : R :=
  K1 * DX al i * Y be j * Z ga k - K2 * X al i * DY be j * Z ga k + K3 * X al i * C j k.

Definition mm (p : nat) (A B : nat -> nat -> R) (r c : nat) : R :=
  rsum p (fun t => A r t * B t c).
Definition tr2 (C Y Z : nat -> nat -> R) (j k : nat) : R :=
  rsum n (fun j' => rsum n (fun k' => C j' k' * Y j' j * Z k' k)).

(** operator in the basis (X,Y,Z) = cardinal operator times the tensor product X (x) Y (x) Z,
    provided the derivative matrices of the basis are (cardinal derivative) . (basis values)
    and the collision data are transformed covariantly. *)
Theorem opform_factor X Y Z Dc DcZ C al be ga i j k :
  (al < m)%nat -> (be < n)%nat -> (ga < n)%nat ->
  rsum3 m n (fun i' j' k' => opform kron kron kron Dc DcZ C al be ga i' j' k'
                             * (X i' i * Y j' j * Z k' k))
  = opform X Y Z (mm m Dc X) (mm n DcZ Y) (tr2 C Y Z) al be ga i j k.
Proof.
  intros Hal Hbe Hga. unfold opform.
  rewrite (rsum3_ext m n _ (fun i' j' k' =>
     (K1 * (Dc al i' * X i' i)) * ((kron be j' * Y j' j) * (kron ga k' * Z k' k))
   - (K2 * (kron al i' * X i' i)) * ((DcZ be j' * Y j' j) * (kron ga k' * Z k' k))
   + (K3 * (kron al i' * X i' i)) * (C j' k' * Y j' j * Z k' k)))
    by (intros; ring).
  rewrite rsum3_plus, rsum3_minus, !rsum3_sep, !rsum2_sep, !rsum_scal.
  rewrite !rsum_kron by assumption.
  unfold mm, tr2. ring.
Qed.
End Factor.

(** * Linear systems with a left inverse (what np.linalg.solve assumes) *)
Section Solve.
Variable n : nat.
Variables A B : nat -> nat -> R.
Hypothesis BA : forall i j, (i < n)%nat -> (j < n)%nat ->
  rsum n (fun k => B i k * A k j) = kron i j.

Definition mv (x : nat -> R) (r : nat) : R := rsum n (fun c => A r c * x c).

Theorem left_inverse_zero x :
  (forall r, (r < n)%nat -> mv x r = 0) -> forall c, (c < n)%nat -> x c = 0.
Proof.
  intros H c Hc.
  rewrite <- (rsum_kron n c x Hc).
  rewrite (rsum_ext n _ (fun c' => rsum n (fun k => B c k * A k c' * x c'))).
  2:{ intros c' Hc'. rewrite <- BA by assumption. symmetry. apply rsum_scal_r. }
  rewrite rsum_swap.
  apply rsum_all_zero. intros k Hk.
  rewrite (rsum_ext n _ (fun c' => B c k * (A k c' * x c'))) by (intros; ring).
  rewrite rsum_scal. fold (mv x k). rewrite H by assumption. ring.
Qed.

Theorem left_inverse_unique x y :
  (forall r, (r < n)%nat -> mv x r = mv y r) -> forall c, (c < n)%nat -> x c = y c.
Proof.
  intros H c Hc.
  enough (E : x c - y c = 0) by lra.
  apply (left_inverse_zero (fun c => x c - y c)); [|assumption].
  intros r Hr. unfold mv.
  rewrite (rsum_ext n _ (fun c => A r c * x c - A r c * y c)) by (intros; ring).
  rewrite rsum_minus. specialize (H r Hr). unfold mv in H. lra.
Qed.
End Solve.

(** matrix product is associative: (A P) y = A (P y) for function-style matrices *)
Lemma mv_assoc n (A P : nat -> nat -> R) y r :
  mv n (mm n A P) y r = mv n A (mv n P y) r.
Proof.
  unfold mv, mm.
  rewrite (rsum_ext n _ (fun c => rsum n (fun t => A r t * P t c * y c)))
    by (intros; symmetry; apply rsum_scal_r).
  rewrite rsum_swap. apply rsum_ext; intros t _.
  rewrite <- rsum_scal. apply rsum_ext; intros. ring.
Qed.

(** * Chain-rule algebra of the source term *)
(** the algebra behind "source = - Liouville[f_eq]" (uses only w^2 = 1 - v^2) *)
Lemma source_algebra w E T0 v0 pz vw gw m' T' v' dfe dchidxi dpzdrz :
  w * w = 1 - v0 * v0 -> w <> 0 -> E <> 0 -> T0 <> 0 -> dpzdrz <> 0 ->
  let ga := 1 / w in
  let Pw := gw * (pz - vw * E) in
  let Ppl := ga * (pz - v0 * E) in
  let Ep := ga * (E - v0 * pz) in
  let Dx := ((v0 * v' / (w * w * w)) * (E - v0 * pz) + (1 / w) * (m' / (2 * E) - v' * pz)) / T0
            - Ep * T' / (T0 * T0) in
  let Dp := (1 / w) * (pz / E - v0) / T0 in
  dfe / T0 * dchidxi * (Pw * Ppl * ga ^ 2 * v' + Pw * Ep * T' / T0 + 1 / 2 * m' * (gw * ga * (vw - v0)))
  = - (dchidxi * Pw * (dfe * Dx) - dchidxi * (1 / dpzdrz) * (gw / 2) * m' * (dfe * Dp * dpzdrz)).
Proof.
  intros Hw Hw0 HE HT Hd. cbv zeta.
  field_simplify_eq; [|repeat split; assumption].
  assert (H2 : w ^ 2 = 1 - v0 ^ 2) by (replace (w ^ 2) with (w * w) by ring; rewrite Hw; ring).
  rewrite !H2. ring.
Qed.

(** * AST facts about the two derivative branches *)
Inductive dmode := Spectral | FiniteDiff.
Inductive dtarget := DT | DV | DM.       (* dTemperaturedChi, dvdChi, dMsqdChi *)
Inductive prof := PT | PV | PM.          (* temperature, velocity, m^2(field) profile *)
Record dfact := mk_dfact { f_mode : dmode; f_target : dtarget;
                           f_profiles : list prof;     (* profiles it is computed from *)
                           f_deriv : bool }.           (* through a derivative operator *)

Definition profile_of (t : dtarget) : prof :=
  match t with DT => PT | DV => PV | DM => PM end.
Definition mode_eqb a b := match a, b with Spectral, Spectral | FiniteDiff, FiniteDiff => true
                                      | _, _ => false end.
Definition target_eqb a b := match a, b with DT, DT | DV, DV | DM, DM => true | _, _ => false end.
Definition prof_eqb a b := match a, b with PT, PT | PV, PV | PM, PM => true | _, _ => false end.
Definition fact_ok (f : dfact) : bool :=
  match f_profiles f with
  | [p] => prof_eqb p (profile_of (f_target f)) && f_deriv f
  | _ => false
  end.
Definition find_fact (fs : list dfact) m t : option dfact :=
  find (fun f => mode_eqb (f_mode f) m && target_eqb (f_target f) t) fs.
Definition all_cases : list (dmode * dtarget) :=
  [(Spectral, DT); (Spectral, DV); (Spectral, DM);
   (FiniteDiff, DT); (FiniteDiff, DV); (FiniteDiff, DM)].
Definition facts_ok (fs : list dfact) : bool :=
  forallb (fun mt => match find_fact fs (fst mt) (snd mt) with
                     | Some f => fact_ok f | None => false end) all_cases
  && forallb fact_ok fs.

Lemma facts_ok_sound fs : facts_ok fs = true ->
  forall m t, exists f, In f fs /\ f_mode f = m /\ f_target f = t /\
                        f_profiles f = [profile_of t] /\ f_deriv f = true.
Proof.
  intros H m t. unfold facts_ok in H. apply andb_prop in H as [H _].
  rewrite forallb_forall in H.
  assert (I : In (m, t) all_cases) by (destruct m, t; cbn; tauto).
  specialize (H _ I). cbn [fst snd] in H.
  destruct (find_fact fs m t) as [f|] eqn:E; [|discriminate].
  unfold find_fact in E. apply find_some in E as [Hin Hmt].
  apply andb_prop in Hmt as [Hm Ht].
  exists f. split; [assumption|].
  assert (f_mode f = m) by (destruct (f_mode f), m; cbn in Hm; congruence).
  assert (f_target f = t) by (destruct (f_target f), t; cbn in Ht; congruence).
  subst. repeat split.
  - unfold fact_ok in H. destruct (f_profiles f) as [|p [|q l]]; try discriminate.
    apply andb_prop in H as [H _].
    destruct p, (f_target f); cbn in H; try discriminate; reflexivity.
  - unfold fact_ok in H. destruct (f_profiles f) as [|p [|q l]]; try discriminate.
    now apply andb_prop in H as [_ H].
Qed.

(** * Copy the solver, mutate the copy *)
Inductive basis := Cardinal | Chebyshev.
Inductive copykind := Deep | Shallow | Alias.
Inductive who := Wcopy | Wowner.
Inductive sop := SetDerivs | SetBasisN | SetBasisM | ChangeCollBasis | Solve.

(** a BoltzmannSolver object: scalar attributes and a REFERENCE to its CollisionArray *)
Record solver := mk_solver { s_derivs : dmode; s_basisM : basis; s_basisN : basis;
                             s_coll : nat }.
(** the heap: in which momentum basis the collision data stored at a location are *)
Definition heap := nat -> basis.
Definition upd (h : heap) (l : nat) (b : basis) : heap :=
  fun l' => if Nat.eqb l' l then b else h l'.

Record world := mk_world { owner : solver; cpy : solver; hp : heap }.

Definition set_attr (o : sop) (s : solver) : solver :=
  match o with
  | SetDerivs => mk_solver FiniteDiff (s_basisM s) (s_basisN s) (s_coll s)
  | SetBasisN => mk_solver (s_derivs s) (s_basisM s) Cardinal (s_coll s)
  | SetBasisM => mk_solver (s_derivs s) Cardinal (s_basisN s) (s_coll s)
  | _ => s
  end.

(** [aliased]: the "copy" IS the owner object (no copy made) *)
Definition step (aliased inplace : bool) (w : world) (op : who * sop) : world :=
  let '(x, o) := op in
  match o with
  | ChangeCollBasis =>
      let l := s_coll (match x with Wcopy => cpy w | Wowner => owner w end) in
      mk_world (owner w) (cpy w) (if inplace then upd (hp w) l Cardinal else hp w)
  | Solve => w
  | _ =>
      match x with
      | Wcopy => mk_world (if aliased then set_attr o (owner w) else owner w)
                          (set_attr o (cpy w)) (hp w)
      | Wowner => mk_world (set_attr o (owner w))
                           (if aliased then set_attr o (cpy w) else cpy w) (hp w)
      end
  end.

Definition make_copy (k : copykind) (fresh : nat) (s : solver) (h : heap) : world :=
  match k with
  | Deep => mk_world s (mk_solver (s_derivs s) (s_basisM s) (s_basisN s) fresh)
                     (upd h fresh (h (s_coll s)))
  | _ => mk_world s s h
  end.

Definition run (k : copykind) (inplace : bool) (ops : list (who * sop)) (fresh : nat)
  (s : solver) (h : heap) : world :=
  fold_left (step (match k with Alias => true | _ => false end) inplace) ops
            (make_copy k fresh s h).

(** what a later spectral solve of the owner depends on *)
Definition observable (s : solver) (h : heap) := (s_derivs s, s_basisM s, s_basisN s, h (s_coll s)).

Definition fd_safe (k : copykind) (ops : list (who * sop)) : bool :=
  match k with Deep => forallb (fun op => match fst op with Wcopy => true | _ => false end) ops
          | _ => false end.

Lemma deep_invariant inplace ops fresh s h w :
  fresh <> s_coll s ->
  forallb (fun op => match fst op with Wcopy => true | _ => false end) ops = true ->
  owner w = s -> s_coll (cpy w) = fresh -> hp w (s_coll s) = h (s_coll s) ->
  let w' := fold_left (step false inplace) ops w in
  owner w' = s /\ hp w' (s_coll s) = h (s_coll s).
Proof.
  intros Hf. revert w. induction ops as [|[x o] ops IH]; intros w Hall Ho Hc Hh; cbn.
  - now split.
  - cbn in Hall. apply andb_prop in Hall as [Hx Hall]. destruct x; [|discriminate].
    apply IH; try assumption.
    + destruct o; cbn; assumption.
    + destruct o; cbn; try assumption; destruct (cpy w); cbn in *; assumption.
    + destruct o; cbn; try assumption. destruct inplace; [|assumption].
      unfold upd. rewrite Hc.
      destruct (Nat.eqb_spec (s_coll s) fresh); [congruence|assumption].
Qed.

Theorem fd_safe_sound k inplace ops fresh s h :
  fd_safe k ops = true -> fresh <> s_coll s ->
  let w := run k inplace ops fresh s h in
  owner w = s /\ observable (owner w) (hp w) = observable s h.
Proof.
  intros Hs Hf. destruct k; try discriminate. cbn in Hs.
  unfold run.
  destruct (deep_invariant inplace ops fresh s h (make_copy Deep fresh s h) Hf Hs)
    as [H1 H2]; try reflexivity.
  - cbn. unfold upd. destruct (Nat.eqb_spec (s_coll s) fresh); [congruence|reflexivity].
  - cbn zeta. split; [assumption|]. unfold observable. rewrite H1, H2. reflexivity.
Qed.

(** the model is discriminating: a shallow copy and an in-place basis change corrupt a
    Chebyshev-momentum-basis owner (its collision data silently become Cardinal) *)
Example shallow_copy_breaks_owner :
  let s := mk_solver Spectral Cardinal Chebyshev 0 in
  let h : heap := fun _ => Chebyshev in
  let w := run Shallow true [(Wcopy, SetDerivs); (Wcopy, SetBasisN);
                              (Wcopy, ChangeCollBasis); (Wcopy, Solve)] 1 s h in
  owner w = s /\ observable (owner w) (hp w) <> observable s h.
Proof. cbn. split; [reflexivity|]. unfold observable, upd; cbn. congruence. Qed.

(** * setBackground: store a copy of the caller's background, boost the copy *)
Inductive frame := WallFrame | PlasmaFrame.
(** a BoltzmannBackground object: a REFERENCE to its velocity array and the scalar
    velocityWall (here: in which frame it is expressed) *)
Record bgobj := mk_bg { bg_vel : nat; bg_vw : frame }.
Definition fheap := nat -> frame.     (* frame the numbers stored in an array belong to *)
Definition fupd (h : fheap) (l : nat) (f : frame) : fheap :=
  fun l' => if Nat.eqb l' l then f else h l'.

(** boostToPlasmaFrame on object o: either it rebinds the attribute to a new array
    ([rebinds] = true, what `self.velocityProfile = boostVelocity(...)` does) or it
    overwrites the array in place *)
Definition boost (rebinds : bool) (fresh : nat) (o : bgobj) (h : fheap) : bgobj * fheap :=
  if rebinds then (mk_bg fresh PlasmaFrame, fupd h fresh PlasmaFrame)
  else (mk_bg (bg_vel o) PlasmaFrame, fupd h (bg_vel o) PlasmaFrame).

(** caller object after `setBackground(caller)`; [target]: on which object the boost is called *)
Definition set_background (k : copykind) (target : who) (rebinds : bool) (f1 f2 : nat)
  (caller : bgobj) (h : fheap) : bgobj * bgobj * fheap :=
  let '(stored, h1) := match k with
                       | Deep => (mk_bg f1 (bg_vw caller), fupd h f1 (h (bg_vel caller)))
                       | _ => (caller, h) end in
  match target, k with
  | Wowner, _ => let '(c', h2) := boost rebinds f2 caller h1 in
                 (c', match k with Alias => c' | _ => stored end, h2)
  | Wcopy, Alias => let '(c', h2) := boost rebinds f2 caller h1 in (c', c', h2)
  | Wcopy, _ => let '(s', h2) := boost rebinds f2 stored h1 in (caller, s', h2)
  end.

Definition bg_observable (o : bgobj) (h : fheap) := (bg_vw o, h (bg_vel o)).
Definition bg_safe (k : copykind) (target : who) (rebinds : bool) : bool :=
  match target, k with
  | Wcopy, Deep => true
  | Wcopy, Shallow => rebinds
  | _, _ => false
  end.

Theorem bg_safe_sound k target rebinds f1 f2 caller h :
  bg_safe k target rebinds = true -> f1 <> bg_vel caller -> f2 <> bg_vel caller ->
  let '(c', s', h') := set_background k target rebinds f1 f2 caller h in
  bg_observable c' h' = bg_observable caller h /\
  bg_observable s' h' = (PlasmaFrame, PlasmaFrame).
Proof.
  intros Hs H1 H2.
  destruct target, k, rebinds; try discriminate; cbn;
    unfold bg_observable, fupd; cbn; rewrite ?Nat.eqb_refl;
    repeat match goal with |- context [Nat.eqb ?a ?b] =>
      destruct (Nat.eqb_spec a b); try congruence end; split; reflexivity.
Qed.

Example alias_background_is_boosted_for_the_caller :
  let '(c', _, h') := set_background Alias Wcopy true 1 2 (mk_bg 0 WallFrame) (fun _ => WallFrame) in
  bg_observable c' h' <> bg_observable (mk_bg 0 WallFrame) (fun _ => WallFrame).
Proof. cbn. unfold bg_observable; cbn. congruence. Qed.
