(** C12 library: finite sums over R, the assembled Boltzmann operator as a sum of tensor
    products (factorisation under a change of polynomial basis), linear systems with a left
    inverse, the datatypes of the AST facts about the derivative branches, and a small heap
    model of "copy the solver, mutate the copy".  Hand-written, generic (nothing here
    mentions WallGo code; the generated model GenC12.Boltz is plugged in by Props/C12.v). *)
From Coq Require Import Reals Lra List Bool Arith Lia.
Import ListNotations.
Local Open Scope R_scope.

(** * Kronecker delta (np.identity) and finite sums *)
Definition kron (i j : nat) : R := if Nat.eqb i j then 1 else 0.

Lemma kron_same i : kron i i = 1.
Proof. unfold kron. now rewrite Nat.eqb_refl. Qed.
Lemma kron_diff i j : i <> j -> kron i j = 0.
Proof. intros H. unfold kron. destruct (Nat.eqb_spec i j); [contradiction|reflexivity]. Qed.

Fixpoint rsum (n : nat) (f : nat -> R) : R :=
  match n with O => 0 | S k => rsum k f + f k end.

Lemma rsum_ext n f g : (forall i, (i < n)%nat -> f i = g i) -> rsum n f = rsum n g.
Proof.
  induction n; intros H; cbn [rsum]; [reflexivity|].
  rewrite IHn, (H n) by (intros; try apply H; lia). reflexivity.
Qed.
Lemma rsum_zero n : rsum n (fun _ => 0) = 0.
Proof. induction n; cbn [rsum]; [reflexivity|rewrite IHn; ring]. Qed.
Lemma rsum_scal n c f : rsum n (fun i => c * f i) = c * rsum n f.
Proof. induction n; cbn [rsum]; [ring|rewrite IHn; ring]. Qed.
Lemma rsum_scal_r n c f : rsum n (fun i => f i * c) = rsum n f * c.
Proof. induction n; cbn [rsum]; [ring|rewrite IHn; ring]. Qed.
Lemma rsum_plus n f g : rsum n (fun i => f i + g i) = rsum n f + rsum n g.
Proof. induction n; cbn [rsum]; [ring|rewrite IHn; ring]. Qed.
Lemma rsum_minus n f g : rsum n (fun i => f i - g i) = rsum n f - rsum n g.
Proof. induction n; cbn [rsum]; [ring|rewrite IHn; ring]. Qed.
Lemma rsum_all_zero n f : (forall i, (i < n)%nat -> f i = 0) -> rsum n f = 0.
Proof. intros H. rewrite (rsum_ext n f (fun _ => 0) H). apply rsum_zero. Qed.

Lemma rsum_kron n a f : (a < n)%nat -> rsum n (fun i => kron a i * f i) = f a.
Proof.
  induction n; intros H; [lia|]. cbn [rsum].
  destruct (Nat.eq_dec a n) as [->|Hne].
  - rewrite rsum_all_zero, kron_same; [ring|].
    intros i Hi. rewrite kron_diff by lia. ring.
  - rewrite IHn by lia. rewrite kron_diff by lia. ring.
Qed.

Lemma rsum_swap n m (f : nat -> nat -> R) :
  rsum n (fun i => rsum m (fun j => f i j)) = rsum m (fun j => rsum n (fun i => f i j)).
Proof.
  induction n; cbn [rsum].
  - now rewrite rsum_zero.
  - rewrite IHn, <- rsum_plus. reflexivity.
Qed.

(** double and triple sums that separate *)
Lemma rsum2_sep n g h :
  rsum n (fun j => rsum n (fun k => g j * h k)) = rsum n g * rsum n h.
Proof.
  rewrite (rsum_ext n _ (fun j => g j * rsum n h)) by (intros; apply rsum_scal).
  apply rsum_scal_r.
Qed.

Definition rsum3 (m n : nat) (f : nat -> nat -> nat -> R) : R :=
  rsum m (fun i => rsum n (fun j => rsum n (fun k => f i j k))).

Lemma rsum3_ext m n f g :
  (forall i j k, (i < m)%nat -> (j < n)%nat -> (k < n)%nat -> f i j k = g i j k) ->
  rsum3 m n f = rsum3 m n g.
Proof. intros H. unfold rsum3. repeat (apply rsum_ext; intros). now apply H. Qed.
Lemma rsum3_plus m n f g :
  rsum3 m n (fun i j k => f i j k + g i j k) = rsum3 m n f + rsum3 m n g.
Proof.
  unfold rsum3. rewrite <- rsum_plus. apply rsum_ext; intros.
  rewrite <- rsum_plus. apply rsum_ext; intros. apply rsum_plus.
Qed.
Lemma rsum3_minus m n f g :
  rsum3 m n (fun i j k => f i j k - g i j k) = rsum3 m n f - rsum3 m n g.
Proof.
  unfold rsum3. rewrite <- rsum_minus. apply rsum_ext; intros.
  rewrite <- rsum_minus. apply rsum_ext; intros. apply rsum_minus.
Qed.
Lemma rsum3_sep m n f G :
  rsum3 m n (fun i j k => f i * G j k) = rsum m f * rsum n (fun j => rsum n (fun k => G j k)).
Proof.
  unfold rsum3.
  rewrite (rsum_ext m _ (fun i => f i * rsum n (fun j => rsum n (fun k => G j k)))).
  - apply rsum_scal_r.
  - intros i _. rewrite <- rsum_scal. apply rsum_ext; intros. apply rsum_scal.
Qed.

(** * The assembled operator as a sum of three tensor products *)
Section Factor.
Variables m n : nat.          (* number of position / momentum basis functions *)
Variables K1 K2 K3 : R.       (* row-dependent prefactors: do NOT depend on the column *)

(** row (al,be,ga), column (i,j,k);  X,Y,Z : values of the basis functions at the collocation
    points in chi, rz, rp; DX, DY : their derivatives at the points; C : collision data of
    the row, in the momentum basis *)
Definition opform (X Y Z DX DY C : nat -> nat -> R) (al be ga i j k : nat) : R :=
  K1 * DX al i * Y be j * Z ga k - K2 * X al i * DY be j * Z ga k + K3 * X al i * C j k.

Definition mm (p : nat) (A B : nat -> nat -> R) (r c : nat) : R :=
  rsum p (fun t => A r t * B t c).
Definition tr2 (C Y Z : nat -> nat -> R) (j k : nat) : R :=
  rsum n (fun j' => rsum n (fun k' => C j' k' * Y j' j * Z k' k)).

(** operator in the basis (X,Y,Z) = cardinal operator times the tensor product X (x) Y (x) Z,
    provided the derivative matrices of the basis are (cardinal derivative) . (basis values)
    and the collision data are transformed covariantly. *)
Theorem opform_factor X Y Z Dc DcZ C al be ga i j k :
  (al < m)%nat -> (be < n)%nat -> (ga < n)%nat ->
  rsum3 m n (fun i' j' k' => opform kron kron kron Dc DcZ C al be ga i' j' k'
                             * (X i' i * Y j' j * Z k' k))
  = opform X Y Z (mm m Dc X) (mm n DcZ Y) (tr2 C Y Z) al be ga i j k.
Proof.
  intros Hal Hbe Hga. unfold opform.
  rewrite (rsum3_ext m n _ (fun i' j' k' =>
     (K1 * (Dc al i' * X i' i)) * ((kron be j' * Y j' j) * (kron ga k' * Z k' k))
   - (K2 * (kron al i' * X i' i)) * ((DcZ be j' * Y j' j) * (kron ga k' * Z k' k))
   + (K3 * (kron al i' * X i' i)) * (C j' k' * Y j' j * Z k' k)))
    by (intros; ring).
  rewrite rsum3_plus, rsum3_minus, !rsum3_sep, !rsum2_sep, !rsum_scal.
  rewrite !rsum_kron by assumption.
  unfold mm, tr2. ring.
Qed.
End Factor.

(** * Linear systems with a left inverse (what np.linalg.solve assumes) *)
Section Solve.
Variable n : nat.
Variables A B : nat -> nat -> R.
Hypothesis BA : forall i j, (i < n)%nat -> (j < n)%nat ->
  rsum n (fun k => B i k * A k j) = kron i j.

Definition mv (x : nat -> R) (r : nat) : R := rsum n (fun c => A r c * x c).

Theorem left_inverse_zero x :
  (forall r, (r < n)%nat -> mv x r = 0) -> forall c, (c < n)%nat -> x c = 0.
Proof.
  intros H c Hc.
  rewrite <- (rsum_kron n c x Hc).
  rewrite (rsum_ext n _ (fun c' => rsum n (fun k => B c k * A k c' * x c'))).
  2:{ intros c' Hc'. rewrite <- BA by assumption. symmetry. apply rsum_scal_r. }
  rewrite rsum_swap.
  apply rsum_all_zero. intros k Hk.
  rewrite (rsum_ext n _ (fun c' => B c k * (A k c' * x c'))) by (intros; ring).
  rewrite rsum_scal. fold (mv x k). rewrite H by assumption. ring.
Qed.

Theorem left_inverse_unique x y :
  (forall r, (r < n)%nat -> mv x r = mv y r) -> forall c, (c < n)%nat -> x c = y c.
Proof.
  intros H c Hc.
  enough (E : x c - y c = 0) by lra.
  apply (left_inverse_zero (fun c => x c - y c)); [|assumption].
  intros r Hr. unfold mv.
  rewrite (rsum_ext n _ (fun c => A r c * x c - A r c * y c)) by (intros; ring).
  rewrite rsum_minus. specialize (H r Hr). unfold mv in H. lra.
Qed.
End Solve.

(** matrix product is associative: (A P) y = A (P y) for function-style matrices *)
Lemma mv_assoc n (A P : nat -> nat -> R) y r :
  mv n (mm n A P) y r = mv n A (mv n P y) r.
Proof.
  unfold mv, mm.
  rewrite (rsum_ext n _ (fun c => rsum n (fun t => A r t * P t c * y c)))
    by (intros; symmetry; apply rsum_scal_r).
  rewrite rsum_swap. apply rsum_ext; intros t _.
  rewrite <- rsum_scal. apply rsum_ext; intros. ring.
Qed.

(** * Chain-rule algebra of the source term *)
(** the algebra behind "source = - Liouville[f_eq]" (uses only w^2 = 1 - v^2) *)
Lemma source_algebra w E T0 v0 pz vw gw m' T' v' dfe dchidxi dpzdrz :
  w * w = 1 - v0 * v0 -> w <> 0 -> E <> 0 -> T0 <> 0 -> dpzdrz <> 0 ->
  let ga := 1 / w in
  let Pw := gw * (pz - vw * E) in
  let Ppl := ga * (pz - v0 * E) in
  let Ep := ga * (E - v0 * pz) in
  let Dx := ((v0 * v' / (w * w * w)) * (E - v0 * pz) + (1 / w) * (m' / (2 * E) - v' * pz)) / T0
            - Ep * T' / (T0 * T0) in
  let Dp := (1 / w) * (pz / E - v0) / T0 in
  dfe / T0 * dchidxi * (Pw * Ppl * ga ^ 2 * v' + Pw * Ep * T' / T0 + 1 / 2 * m' * (gw * ga * (vw - v0)))
  = - (dchidxi * Pw * (dfe * Dx) - dchidxi * (1 / dpzdrz) * (gw / 2) * m' * (dfe * Dp * dpzdrz)).
Proof.
  intros Hw Hw0 HE HT Hd. cbv zeta.
  field_simplify_eq; [|repeat split; assumption].
  assert (H2 : w ^ 2 = 1 - v0 ^ 2) by (replace (w ^ 2) with (w * w) by ring; rewrite Hw; ring).
  rewrite !H2. ring.
Qed.

(** * AST facts about the two derivative branches *)
Inductive dmode := Spectral | FiniteDiff.
Inductive dtarget := DT | DV | DM.       (* dTemperaturedChi, dvdChi, dMsqdChi *)
Inductive prof := PT | PV | PM.          (* temperature, velocity, m^2(field) profile *)
Record dfact := mk_dfact { f_mode : dmode; f_target : dtarget;
                           f_profiles : list prof;     (* profiles it is computed from *)
                           f_deriv : bool;             (* through a derivative operator *)
                           f_along_chi : bool }.       (* that operator acts along chi (axis "z":
                                                          derivative(axis of "z") / the findiff matrix
                                                          built on chiFull) and the result is sliced
                                                          [1:-1] on the position axis only *)

Definition profile_of (t : dtarget) : prof :=
  match t with DT => PT | DV => PV | DM => PM end.
Definition mode_eqb a b := match a, b with Spectral, Spectral | FiniteDiff, FiniteDiff => true
                                      | _, _ => false end.
Definition target_eqb a b := match a, b with DT, DT | DV, DV | DM, DM => true | _, _ => false end.
Definition prof_eqb a b := match a, b with PT, PT | PV, PV | PM, PM => true | _, _ => false end.
Definition fact_ok (f : dfact) : bool :=
  match f_profiles f with
  | [p] => prof_eqb p (profile_of (f_target f)) && f_deriv f && f_along_chi f
  | _ => false
  end.
Definition find_fact (fs : list dfact) m t : option dfact :=
  find (fun f => mode_eqb (f_mode f) m && target_eqb (f_target f) t) fs.
Definition all_cases : list (dmode * dtarget) :=
  [(Spectral, DT); (Spectral, DV); (Spectral, DM);
   (FiniteDiff, DT); (FiniteDiff, DV); (FiniteDiff, DM)].
Definition facts_ok (fs : list dfact) : bool :=
  forallb (fun mt => match find_fact fs (fst mt) (snd mt) with
                     | Some f => fact_ok f | None => false end) all_cases
  && forallb fact_ok fs.

Lemma facts_ok_sound fs : facts_ok fs = true ->
  forall m t, exists f, In f fs /\ f_mode f = m /\ f_target f = t /\
                        f_profiles f = [profile_of t] /\ f_deriv f = true /\ f_along_chi f = true.
Proof.
  intros H m t. unfold facts_ok in H. apply andb_prop in H as [H _].
  rewrite forallb_forall in H.
  assert (I : In (m, t) all_cases) by (destruct m, t; cbn; tauto).
  specialize (H _ I). cbn [fst snd] in H.
  destruct (find_fact fs m t) as [f|] eqn:E; [|discriminate].
  unfold find_fact in E. apply find_some in E as [Hin Hmt].
  apply andb_prop in Hmt as [Hm Ht].
  exists f. split; [assumption|].
  assert (f_mode f = m) by (destruct (f_mode f), m; cbn in Hm; congruence).
  assert (f_target f = t) by (destruct (f_target f), t; cbn in Ht; congruence).
  subst. unfold fact_ok in H. destruct (f_profiles f) as [|p [|q l]]; try discriminate.
  apply andb_prop in H as [H H3]. apply andb_prop in H as [H1 H2].
  repeat split; try assumption.
  destruct p, (f_target f); cbn in H1; try discriminate; reflexivity.
Qed.

(** * Copy the solver, mutate the copy *)
Inductive basis := Cardinal | Chebyshev.
Inductive copykind := Deep | Shallow | Alias.
Inductive who := Wcopy | Wowner.
Inductive sop := SetDerivs | SetBasisN | SetBasisM | ChangeCollBasis | Solve.
Inductive frame := WallFrame | PlasmaFrame.

(** a BoltzmannSolver object: scalar attributes, a REFERENCE to its CollisionArray and a
    REFERENCE to its (stored, boosted) BoltzmannBackground *)
Record solver := mk_solver { s_derivs : dmode; s_basisM : basis; s_basisN : basis;
                             s_coll : nat; s_bg : nat }.
(** the heap: in which momentum basis the collision data stored at a location are; in which
    frame the velocity profile / velocityWall of a background object are *)
Record heap := mk_heap { h_coll : nat -> basis; h_bg : nat -> frame * frame }.
Definition updf {A} (h : nat -> A) (l : nat) (b : A) : nat -> A :=
  fun l' => if Nat.eqb l' l then b else h l'.

Record world := mk_world { owner : solver; cpy : solver; hp : heap }.

Definition set_attr (o : sop) (s : solver) : solver :=
  match o with
  | SetDerivs => mk_solver FiniteDiff (s_basisM s) (s_basisN s) (s_coll s) (s_bg s)
  | SetBasisN => mk_solver (s_derivs s) (s_basisM s) Cardinal (s_coll s) (s_bg s)
  | SetBasisM => mk_solver (s_derivs s) Cardinal (s_basisN s) (s_coll s) (s_bg s)
  | _ => s
  end.

(** [aliased]: the "copy" IS the owner object (no copy made) *)
Definition step (aliased inplace : bool) (w : world) (op : who * sop) : world :=
  let '(x, o) := op in
  match o with
  | ChangeCollBasis =>
      let l := s_coll (match x with Wcopy => cpy w | Wowner => owner w end) in
      mk_world (owner w) (cpy w)
               (if inplace then mk_heap (updf (h_coll (hp w)) l Cardinal) (h_bg (hp w)) else hp w)
  | Solve => w
  | _ =>
      match x with
      | Wcopy => mk_world (if aliased then set_attr o (owner w) else owner w)
                          (set_attr o (cpy w)) (hp w)
      | Wowner => mk_world (set_attr o (owner w))
                           (if aliased then set_attr o (cpy w) else cpy w) (hp w)
      end
  end.

(** copy.deepcopy: fresh CollisionArray and background objects.  [structural] = no class
    reachable from the solver defines a copy hook (__deepcopy__, __copy__, __reduce__, ...);
    only then is the content of the new objects known to be the content of the old ones
    (otherwise it is whatever the hook returns: [junk]). *)
Definition make_copy (k : copykind) (structural : bool) (junk : basis * (frame * frame))
  (fc fb : nat) (s : solver) (h : heap) : world :=
  match k with
  | Deep => mk_world s (mk_solver (s_derivs s) (s_basisM s) (s_basisN s) fc fb)
                     (mk_heap (updf (h_coll h) fc (if structural then h_coll h (s_coll s) else fst junk))
                              (updf (h_bg h) fb (if structural then h_bg h (s_bg s) else snd junk)))
  | _ => mk_world s s h
  end.

Definition run (k : copykind) (structural inplace : bool) junk (ops : list (who * sop))
  (fc fb : nat) (s : solver) (h : heap) : world :=
  fold_left (step (match k with Alias => true | _ => false end) inplace) ops
            (make_copy k structural junk fc fb s h).

(** what a solve with this solver object depends on *)
Definition obs := (dmode * basis * basis * basis * (frame * frame))%type.
Definition observable (s : solver) (h : heap) : obs :=
  (s_derivs s, s_basisM s, s_basisN s, h_coll h (s_coll s), h_bg h (s_bg s)).
(** the same operations on the observable of a faithful private copy *)
Definition obs_step (inplace : bool) (ob : obs) (o : sop) : obs :=
  let '(d, bm, bn, cb, bg) := ob in
  match o with
  | SetDerivs => (FiniteDiff, bm, bn, cb, bg)
  | SetBasisN => (d, bm, Cardinal, cb, bg)
  | SetBasisM => (d, Cardinal, bn, cb, bg)
  | ChangeCollBasis => (d, bm, bn, (if inplace then Cardinal else cb), bg)
  | Solve => ob
  end.

Definition only_copy (ops : list (who * sop)) : bool :=
  forallb (fun op => match fst op with Wcopy => true | _ => false end) ops.
Definition fd_safe (k : copykind) (structural : bool) (ops : list (who * sop)) : bool :=
  match k with Deep => structural && only_copy ops | _ => false end.

Lemma deep_invariant inplace ops fc fb s h w :
  fc <> s_coll s -> fb <> s_bg s -> only_copy ops = true ->
  owner w = s -> s_coll (cpy w) = fc -> s_bg (cpy w) = fb ->
  h_coll (hp w) (s_coll s) = h_coll h (s_coll s) -> h_bg (hp w) (s_bg s) = h_bg h (s_bg s) ->
  let w' := fold_left (step false inplace) ops w in
  owner w' = s /\ observable (owner w') (hp w') = observable s h /\
  observable (cpy w') (hp w') = fold_left (obs_step inplace) (map snd ops) (observable (cpy w) (hp w)).
Proof.
  intros Hfc Hfb. revert w. induction ops as [|[x o] ops IH]; intros w Hall Ho Hc Hb Hh Hg; cbn [fold_left map].
  - cbv zeta. split; [assumption|]. split; [|reflexivity]. unfold observable. rewrite Ho, Hh, Hg. reflexivity.
  - cbn in Hall. apply andb_prop in Hall as [Hx Hall]. destruct x; [|discriminate].
    cbn [snd].
    assert (E : observable (cpy (step false inplace w (Wcopy, o))) (hp (step false inplace w (Wcopy, o)))
                = obs_step inplace (observable (cpy w) (hp w)) o).
    { destruct o; cbn; unfold observable; cbn; try reflexivity.
      destruct inplace; cbn; [|reflexivity]. unfold updf. rewrite Nat.eqb_refl. reflexivity. }
    rewrite <- E. apply IH; try assumption.
    + destruct o; cbn; assumption.
    + destruct o; cbn; assumption.
    + destruct o; cbn; assumption.
    + destruct o; cbn; try assumption. destruct inplace; cbn; [|assumption].
      unfold updf. rewrite Hc. destruct (Nat.eqb_spec (s_coll s) fc); [congruence|assumption].
    + destruct o; cbn; try assumption. destruct inplace; cbn; assumption.
Qed.

(** owner untouched AND the copy is a faithful copy carrying exactly the overrides *)
Theorem fd_safe_sound k structural inplace junk ops fc fb s h :
  fd_safe k structural ops = true -> fc <> s_coll s -> fb <> s_bg s ->
  let w := run k structural inplace junk ops fc fb s h in
  owner w = s /\ observable (owner w) (hp w) = observable s h /\
  observable (cpy w) (hp w) = fold_left (obs_step inplace) (map snd ops) (observable s h).
Proof.
  intros Hs Hfc Hfb. destruct k; try discriminate. cbn in Hs.
  apply andb_prop in Hs as [Hst Hs]. subst structural. unfold run.
  assert (E0 : observable (cpy (make_copy Deep true junk fc fb s h)) (hp (make_copy Deep true junk fc fb s h))
               = observable s h).
  { cbn. unfold observable, updf; cbn. rewrite !Nat.eqb_refl. reflexivity. }
  assert (D : let w' := fold_left (step false inplace) ops (make_copy Deep true junk fc fb s h) in
    owner w' = s /\ observable (owner w') (hp w') = observable s h /\
    observable (cpy w') (hp w') = fold_left (obs_step inplace) (map snd ops)
      (observable (cpy (make_copy Deep true junk fc fb s h)) (hp (make_copy Deep true junk fc fb s h)))).
  { apply (deep_invariant inplace ops fc fb s h); try assumption; try reflexivity.
    - cbn. unfold updf. destruct (Nat.eqb_spec (s_coll s) fc); [congruence|reflexivity].
    - cbn. unfold updf. destruct (Nat.eqb_spec (s_bg s) fb); [congruence|reflexivity]. }
  rewrite E0 in D. exact D.
Qed.

(** the model is discriminating: a shallow copy and an in-place basis change corrupt a
    Chebyshev-momentum-basis owner (its collision data silently become Cardinal) ... *)
Example shallow_copy_breaks_owner :
  let s := mk_solver Spectral Cardinal Chebyshev 0 0 in
  let h := mk_heap (fun _ => Chebyshev) (fun _ => (PlasmaFrame, PlasmaFrame)) in
  let w := run Shallow true true (Cardinal, (WallFrame, WallFrame))
               [(Wcopy, SetDerivs); (Wcopy, SetBasisN); (Wcopy, ChangeCollBasis); (Wcopy, Solve)]
               1 1 s h in
  owner w = s /\ observable (owner w) (hp w) <> observable s h.
Proof. cbn. split; [reflexivity|]. unfold observable, updf; cbn. congruence. Qed.
(** ... and a deep copy through a hook that rebuilds the background in the wall frame gives a
    copy that is NOT the owner with the overrides (its velocityWall is in the wrong frame) *)
Example deepcopy_hook_breaks_copy :
  let s := mk_solver Spectral Cardinal Chebyshev 0 0 in
  let h := mk_heap (fun _ => Chebyshev) (fun _ => (PlasmaFrame, PlasmaFrame)) in
  let ops := [(Wcopy, SetDerivs); (Wcopy, SetBasisN); (Wcopy, ChangeCollBasis); (Wcopy, Solve)] in
  let w := run Deep false true (Chebyshev, (PlasmaFrame, WallFrame)) ops 1 1 s h in
  observable (cpy w) (hp w) <> fold_left (obs_step true) (map snd ops) (observable s h).
Proof. cbn. unfold observable, updf; cbn. congruence. Qed.

(** * setBackground: store a copy of the caller's background, boost the copy *)
(** a BoltzmannBackground object: a REFERENCE to its velocity array and the scalar
    velocityWall (here: in which frame it is expressed) *)
Record bgobj := mk_bg { bg_vel : nat; bg_vw : frame }.
Definition fheap := nat -> frame.     (* frame the numbers stored in an array belong to *)
Definition fupd (h : fheap) (l : nat) (f : frame) : fheap :=
  fun l' => if Nat.eqb l' l then f else h l'.

(** boostToPlasmaFrame on object o: either it rebinds the attribute to a new array
    ([rebinds] = true, what `self.velocityProfile = boostVelocity(...)` does) or it
    overwrites the array in place *)
Definition boost (rebinds : bool) (fresh : nat) (o : bgobj) (h : fheap) : bgobj * fheap :=
  if rebinds then (mk_bg fresh PlasmaFrame, fupd h fresh PlasmaFrame)
  else (mk_bg (bg_vel o) PlasmaFrame, fupd h (bg_vel o) PlasmaFrame).

(** caller object after `setBackground(caller)`; [target]: on which object the boost is called *)
Definition set_background (k : copykind) (structural : bool) (junk : frame * frame)
  (target : who) (rebinds : bool) (f1 f2 : nat)
  (caller : bgobj) (h : fheap) : bgobj * bgobj * fheap :=
  let '(stored, h1) := match k with
                       | Deep => if structural
                                 then (mk_bg f1 (bg_vw caller), fupd h f1 (h (bg_vel caller)))
                                 else (mk_bg f1 (fst junk), fupd h f1 (snd junk))
                       | _ => (caller, h) end in
  match target, k with
  | Wowner, _ => let '(c', h2) := boost rebinds f2 caller h1 in
                 (c', match k with Alias => c' | _ => stored end, h2)
  | Wcopy, Alias => let '(c', h2) := boost rebinds f2 caller h1 in (c', c', h2)
  | Wcopy, _ => let '(s', h2) := boost rebinds f2 stored h1 in (caller, s', h2)
  end.

Definition bg_observable (o : bgobj) (h : fheap) := (bg_vw o, h (bg_vel o)).
Definition bg_safe (k : copykind) (structural : bool) (target : who) (rebinds : bool) : bool :=
  match target, k with
  | Wcopy, Deep => structural
  | Wcopy, Shallow => rebinds
  | _, _ => false
  end.

Theorem bg_safe_sound k structural junk target rebinds f1 f2 caller h :
  bg_safe k structural target rebinds = true -> f1 <> bg_vel caller -> f2 <> bg_vel caller ->
  let '(c', s', h') := set_background k structural junk target rebinds f1 f2 caller h in
  bg_observable c' h' = bg_observable caller h /\
  bg_observable s' h' = (PlasmaFrame, PlasmaFrame).
Proof.
  intros Hs H1 H2.
  destruct target, k, structural, rebinds; try discriminate; cbn;
    unfold bg_observable, fupd; cbn; rewrite ?Nat.eqb_refl;
    repeat match goal with |- context [Nat.eqb ?a ?b] =>
      destruct (Nat.eqb_spec a b); try congruence end; split; reflexivity.
Qed.

Example alias_background_is_boosted_for_the_caller :
  let '(c', _, h') := set_background Alias true (WallFrame, WallFrame) Wcopy true 1 2
                        (mk_bg 0 WallFrame) (fun _ => WallFrame) in
  bg_observable c' h' <> bg_observable (mk_bg 0 WallFrame) (fun _ => WallFrame).
Proof. cbn. unfold bg_observable; cbn. congruence. Qed.

(** * A constant vector is annihilated by any matrix whose rows sum to zero (finite-difference
    weights; for the spectral matrix see Props/C12.v, which uses C16's exactness theorem) *)
Lemma rows_sum_zero_const n (D : nat -> nat -> R) (c : R) i :
  rsum n (fun j => D i j) = 0 -> rsum n (fun j => D i j * c) = 0.
Proof.
  intros H. transitivity (rsum n (fun j => D i j) * c); [apply rsum_scal_r|rewrite H; ring].
Qed.

(** * AST facts about solveBoltzmannEquations and about the uses of deltaF *)
Inductive sstep := SBuild | SSolveDense | SReshapeC | SReturn.
Inductive saxis := AxParticles | AxM1 | AxN1.     (* len(particles), M-1, N-1 *)
Definition saxis_eqb a b := match a, b with AxParticles, AxParticles | AxM1, AxM1 | AxN1, AxN1 => true
                                       | _, _ => false end.
Fixpoint saxes_eqb (a b : list saxis) : bool :=
  match a, b with [], [] => true | x :: a', y :: b' => saxis_eqb x y && saxes_eqb a' b' | _, _ => false end.
Definition sstep_eqb a b := match a, b with SBuild, SBuild | SSolveDense, SSolveDense
                                       | SReshapeC, SReshapeC | SReturn, SReturn => true | _, _ => false end.
Fixpoint ssteps_eqb (a b : list sstep) : bool :=
  match a, b with [], [] => true | x :: a', y :: b' => sstep_eqb x y && ssteps_eqb a' b' | _, _ => false end.
(** the body is build -> np.linalg.solve(operator, source) in double precision -> C-order
    reshape to the SAME axes, in the same order, that buildLinearEquations flattened *)
Definition solve_ok (steps : list sstep) (shape flat : list saxis) : bool :=
  ssteps_eqb steps [SBuild; SSolveDense; SReshapeC; SReturn]
  && saxes_eqb shape [AxParticles; AxM1; AxN1; AxN1] && saxes_eqb flat shape.

Inductive dmeth := MgetDeltas | McheckLinearization | MestimateTruncationError.
Inductive duse :=
| UNoneDefault                (* `if deltaF is None: deltaF = self.solveBoltzmannEquations()` *)
| UPassToSelf                 (* handed to another of the three methods *)
| UResultField                (* BoltzmannResults(deltaF=deltaF, ...) *)
| UPolyThenChange (allCardinal : bool)
      (* Polynomial(deltaF, grid, (Array, basisM, basisN, basisN), .., False) immediately
         followed by changeBasis to all-Cardinal / all-Chebyshev *)
| UTimesBuilt                 (* np.sum(X * deltaF[None x4, ...], axis=(4,5,6,7)), X returned by
                                 buildLinearEquations (operator, liouville or collision) *)
| URaw.                       (* anything else: deltaF used as if it were grid values *)
Definition duse_ok (m : dmeth) (u : duse) : bool :=
  match u, m with
  | URaw, _ => false
  | UPolyThenChange c, MestimateTruncationError => negb c
  | UPolyThenChange c, _ => c
  | _, _ => true
  end.
Definition duses_ok (l : list (dmeth * duse)) : bool := forallb (fun p => duse_ok (fst p) (snd p)) l.
(** every method converts deltaF before integrating it *)
Definition has_poly (m : dmeth) (l : list (dmeth * duse)) : bool :=
  existsb (fun p => match fst p, m, snd p with
                    | MgetDeltas, MgetDeltas, UPolyThenChange _
                    | McheckLinearization, McheckLinearization, UPolyThenChange _
                    | MestimateTruncationError, MestimateTruncationError, UPolyThenChange _ => true
                    | _, _, _ => false end) l.

(** * Finite sums over an arbitrary index list, linear systems on it, change of basis *)
Section LSum.
Context {I : Type}.
Fixpoint lsum (l : list I) (f : I -> R) : R :=
  match l with [] => 0 | a :: t => f a + lsum t f end.
Lemma lsum_ext l f g : (forall i, In i l -> f i = g i) -> lsum l f = lsum l g.
Proof.
  induction l; intros H; cbn [lsum]; [reflexivity|].
  rewrite (H a (or_introl eq_refl)), IHl; [reflexivity|]. intros; apply H; now right.
Qed.
Lemma lsum_zero l : lsum l (fun _ => 0) = 0.
Proof. induction l; cbn [lsum]; [reflexivity|rewrite IHl; ring]. Qed.
Lemma lsum_all_zero l f : (forall i, In i l -> f i = 0) -> lsum l f = 0.
Proof. intros H. rewrite (lsum_ext l f (fun _ => 0) H). apply lsum_zero. Qed.
Lemma lsum_scal l c f : lsum l (fun i => c * f i) = c * lsum l f.
Proof. induction l; cbn [lsum]; [ring|rewrite IHl; ring]. Qed.
Lemma lsum_scal_r l c f : lsum l (fun i => f i * c) = lsum l f * c.
Proof. induction l; cbn [lsum]; [ring|rewrite IHl; ring]. Qed.
Lemma lsum_plus l f g : lsum l (fun i => f i + g i) = lsum l f + lsum l g.
Proof. induction l; cbn [lsum]; [ring|rewrite IHl; ring]. Qed.
Lemma lsum_minus l f g : lsum l (fun i => f i - g i) = lsum l f - lsum l g.
Proof. induction l; cbn [lsum]; [ring|rewrite IHl; ring]. Qed.
Lemma lsum_app l1 l2 f : lsum (l1 ++ l2) f = lsum l1 f + lsum l2 f.
Proof. induction l1; cbn [lsum app]; [ring|rewrite IHl1; ring]. Qed.
Lemma lsum_swap l m (f : I -> I -> R) :
  lsum l (fun i => lsum m (fun j => f i j)) = lsum m (fun j => lsum l (fun i => f i j)).
Proof.
  induction l; cbn [lsum].
  - now rewrite lsum_zero.
  - rewrite IHl, <- lsum_plus. reflexivity.
Qed.

Variable U : list I.                 (* the index set (row = column indices of the system) *)
Variable dl : I -> I -> R.           (* its Kronecker delta *)
Hypothesis dl_sum : forall a f, In a U -> lsum U (fun i => dl a i * f i) = f a.

Definition lmv (A : I -> I -> R) (x : I -> R) (r : I) : R := lsum U (fun c => A r c * x c).
Definition lmm (A P : I -> I -> R) (r c : I) : R := lsum U (fun t => A r t * P t c).

Lemma lmv_assoc A P y r : lmv (lmm A P) y r = lmv A (lmv P y) r.
Proof.
  unfold lmv, lmm.
  rewrite (lsum_ext U _ (fun c => lsum U (fun t => A r t * P t c * y c)))
    by (intros; symmetry; apply lsum_scal_r).
  rewrite lsum_swap. apply lsum_ext; intros t _.
  rewrite <- lsum_scal. apply lsum_ext; intros. ring.
Qed.

Section Solve.
Variables A B : I -> I -> R.
Hypothesis BA : forall i j, In i U -> In j U -> lsum U (fun k => B i k * A k j) = dl i j.

Theorem l_left_inverse_zero x :
  (forall r, In r U -> lmv A x r = 0) -> forall c, In c U -> x c = 0.
Proof.
  intros H c Hc.
  rewrite <- (dl_sum c x Hc).
  rewrite (lsum_ext U _ (fun c' => lsum U (fun k => B c k * A k c' * x c'))).
  2:{ intros c' Hc'. rewrite <- BA by assumption. symmetry. apply lsum_scal_r. }
  rewrite lsum_swap.
  apply lsum_all_zero. intros k Hk.
  rewrite (lsum_ext U _ (fun c' => B c k * (A k c' * x c'))) by (intros; ring).
  rewrite lsum_scal. fold (lmv A x k). rewrite H by assumption. ring.
Qed.

Theorem l_left_inverse_unique x y :
  (forall r, In r U -> lmv A x r = lmv A y r) -> forall c, In c U -> x c = y c.
Proof.
  intros H c Hc.
  enough (E : x c - y c = 0) by lra.
  apply (l_left_inverse_zero (fun c => x c - y c)); [|assumption].
  intros r Hr. unfold lmv.
  rewrite (lsum_ext U _ (fun c => A r c * x c - A r c * y c)) by (intros; ring).
  rewrite lsum_minus. specialize (H r Hr). unfold lmv in H. lra.
Qed.

(** CHANGE OF BASIS, function style.  A = operator assembled in the cardinal basis, Ab = operator
    assembled in another basis, T = values of the new basis functions at the collocation points
    (so that T y = cardinal coefficients = grid values of the function with coefficients y).  If
    Ab = A T, A has a left inverse, x solves the cardinal system and y the other one (same
    right-hand side), then y represents the SAME function, and every linear functional of the
    grid values (the Deltas, pressures, ...) has the same value. *)
Theorem l_basis_change (Ab T : I -> I -> R) (s x y : I -> R) :
  (forall r c, In r U -> In c U -> Ab r c = lmm A T r c) ->
  (forall r, In r U -> lmv A x r = s r) ->
  (forall r, In r U -> lmv Ab y r = s r) ->
  forall r, In r U -> x r = lmv T y r.
Proof.
  intros Hfac Hx Hy. apply l_left_inverse_unique.
  intros r Hr. rewrite Hx by assumption. rewrite <- lmv_assoc, <- Hy by assumption.
  unfold lmv. apply lsum_ext. intros c Hc. rewrite Hfac by assumption. reflexivity.
Qed.

Corollary l_same_functionals (Ab T : I -> I -> R) (s x y w : I -> R) :
  (forall r c, In r U -> In c U -> Ab r c = lmm A T r c) ->
  (forall r, In r U -> lmv A x r = s r) ->
  (forall r, In r U -> lmv Ab y r = s r) ->
  lsum U (fun r => w r * x r) = lsum U (fun r => w r * lmv T y r).
Proof.
  intros Hfac Hx Hy. apply lsum_ext. intros r Hr.
  rewrite (l_basis_change Ab T s x y Hfac Hx Hy r Hr). reflexivity.
Qed.
End Solve.
End LSum.

(** ** the index set (particle, chi, rz, rp) of the Boltzmann system *)
Definition idx := (nat * nat * nat * nat)%type.
Definition p1 (t : idx) := fst (fst (fst t)).
Definition p2 (t : idx) := snd (fst (fst t)).
Definition p3 (t : idx) := snd (fst t).
Definition p4 (t : idx) := snd t.
Definition U4 (P m n : nat) : list idx :=
  flat_map (fun b => flat_map (fun i => flat_map (fun j => map (fun k => (b, i, j, k)) (seq 0 n))
                                                 (seq 0 n)) (seq 0 m)) (seq 0 P).
Definition dl4 (s t : idx) : R := kron (p1 s) (p1 t) * (kron (p2 s) (p2 t) * (kron (p3 s) (p3 t) * kron (p4 s) (p4 t))).

Lemma lsum_map {A B} (g : A -> B) l f : lsum (map g l) f = lsum l (fun a => f (g a)).
Proof. induction l; cbn [lsum map]; [reflexivity|now rewrite IHl]. Qed.
Lemma lsum_flat_map {A B} (g : A -> list B) l f : lsum (flat_map g l) f = lsum l (fun a => lsum (g a) f).
Proof. induction l; cbn [lsum flat_map]; [reflexivity|now rewrite lsum_app, IHl]. Qed.
Lemma lsum_seq n f : lsum (seq 0 n) f = rsum n f.
Proof.
  induction n; [reflexivity|]. rewrite seq_S, lsum_app, IHn. cbn [rsum lsum Nat.add]. ring.
Qed.
Lemma lsum_U4 P m n f :
  lsum (U4 P m n) f = rsum P (fun b => rsum3 m n (fun i j k => f (b, i, j, k))).
Proof.
  unfold U4, rsum3. rewrite lsum_flat_map, lsum_seq. apply rsum_ext; intros b _.
  rewrite lsum_flat_map, lsum_seq. apply rsum_ext; intros i _.
  rewrite lsum_flat_map, lsum_seq. apply rsum_ext; intros j _.
  now rewrite lsum_map, lsum_seq.
Qed.
Lemma in_U4 P m n t :
  In t (U4 P m n) <-> (p1 t < P /\ p2 t < m /\ p3 t < n /\ p4 t < n)%nat.
Proof.
  destruct t as [[[b i] j] k]. unfold U4, p1, p2, p3, p4; cbn [fst snd].
  rewrite in_flat_map. split.
  - intros [b' [Hb H]]. apply in_flat_map in H as [i' [Hi H]]. apply in_flat_map in H as [j' [Hj H]].
    apply in_map_iff in H as [k' [E Hk]]. inversion E; subst.
    apply in_seq in Hb, Hi, Hj, Hk. lia.
  - intros (Hb & Hi & Hj & Hk). exists b. split; [apply in_seq; lia|].
    apply in_flat_map. exists i. split; [apply in_seq; lia|].
    apply in_flat_map. exists j. split; [apply in_seq; lia|].
    apply in_map_iff. exists k. split; [reflexivity|apply in_seq; lia].
Qed.
Lemma dl4_sum P m n a f : In a (U4 P m n) -> lsum (U4 P m n) (fun t => dl4 a t * f t) = f a.
Proof.
  intros H. apply in_U4 in H as (Hb & Hi & Hj & Hk). rewrite lsum_U4.
  destruct a as [[[b i] j] k]. unfold dl4, p1, p2, p3, p4 in *; cbn [fst snd] in *.
  rewrite (rsum_ext P _ (fun b' => kron b b' *
     rsum3 m n (fun i' j' k' => kron i i' * (kron j j' * (kron k k' * f (b', i', j', k')))))).
  2:{ intros b' _. unfold rsum3. rewrite <- rsum_scal. apply rsum_ext; intros.
      rewrite <- rsum_scal. apply rsum_ext; intros. rewrite <- rsum_scal. apply rsum_ext; intros. ring. }
  rewrite rsum_kron by assumption. unfold rsum3.
  rewrite (rsum_ext m _ (fun i' => kron i i' *
     rsum n (fun j' => rsum n (fun k' => kron j j' * (kron k k' * f (b, i', j', k')))))).
  2:{ intros. rewrite <- rsum_scal. apply rsum_ext; intros. rewrite <- rsum_scal. reflexivity. }
  rewrite rsum_kron by assumption.
  rewrite (rsum_ext n _ (fun j' => kron j j' * rsum n (fun k' => kron k k' * f (b, i, j', k'))))
    by (intros; apply rsum_scal).
  rewrite rsum_kron by assumption. now rewrite rsum_kron.
Qed.
Lemma kron_sym i j : kron i j = kron j i.
Proof. unfold kron. rewrite Nat.eqb_sym. reflexivity. Qed.

(** the hypotheses "left inverse" are satisfiable on every index set, e.g. by the identity;
    a 2 x 2 non-diagonal instance for the [rsum] version *)
Example identity_left_inverse P m n :
  forall i j, In i (U4 P m n) -> In j (U4 P m n) ->
    lsum (U4 P m n) (fun k => dl4 i k * dl4 k j) = dl4 i j.
Proof. intros i j Hi Hj. now rewrite dl4_sum. Qed.
Example left_inverse_2x2 :
  let A := fun r c : nat => match r, c with O, O => 2 | _, _ => 1 end in
  let B := fun r c : nat => match r, c with O, O => 1 | O, S _ => -1 | S _, O => -1 | S _, S _ => 2 end in
  forall i j, (i < 2)%nat -> (j < 2)%nat -> rsum 2 (fun k => B i k * A k j) = kron i j.
Proof.
  intros A B i j Hi Hj.
  destruct i as [|[|i]]; [| |lia]; (destruct j as [|[|j]]; [| |lia]); cbn; unfold kron; cbn; ring.
Qed.
