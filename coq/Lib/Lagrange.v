(** Lagrange (cardinal-function) calculus over arbitrary distinct nodes.

    Part 1: an operation record [Ops] so that ONE definition of each piece of
            WallGo's [Polynomial] class is both executed (instance over Q, compared with
            the running implementation by vm_compute) and reasoned about (instance
            over R).
    Part 2: the pieces of polynomial.py that concern cardinal functions, written the
            way the source computes them (value tests [x - y == 0], products over the
            complete grid, diagonal = sum of reciprocals, off-diagonal = product form).
    Part 3: theory over R: roots bound, cardinal_delta, interp_exact,
            derivative of the cardinal functions = the matrix entries, deriv_matrix_exact.
    Repo independent. *)
From Coq Require Import Reals List Lra Lia Bool Arith QArith Qreals.
Import ListNotations.

(** * 1. operations *)
Record Ops (T : Type) := mkOps {
  o0 : T; o1 : T;
  oadd : T -> T -> T; osub : T -> T -> T; omul : T -> T -> T; odiv : T -> T -> T;
  ois0 : T -> bool;           (* numpy's  == 0  *)
  onat : nat -> T }.
Arguments o0 {T}. Arguments o1 {T}. Arguments oadd {T}. Arguments osub {T}.
Arguments omul {T}. Arguments odiv {T}. Arguments ois0 {T}. Arguments onat {T}.

Definition Ris0 (x : R) : bool := if Req_EM_T x 0 then true else false.
Definition ROps : Ops R := mkOps R 0%R 1%R Rplus Rminus Rmult Rdiv Ris0 INR.
Definition Qnat (n : nat) : Q := inject_Z (Z.of_nat n).
Definition QOps : Ops Q :=
  mkOps Q 0%Q 1%Q (fun a b => Qred (a + b)) (fun a b => Qred (a - b))
        (fun a b => Qred (a * b)) (fun a b => Qred (a / b))
        (fun a => Qeq_bool a 0) Qnat.

Lemma Ris0_true x : Ris0 x = true <-> x = 0%R.
Proof. unfold Ris0. destruct (Req_EM_T x 0); split; congruence. Qed.
Lemma Ris0_false x : Ris0 x = false <-> x <> 0%R.
Proof. unfold Ris0. destruct (Req_EM_T x 0); split; congruence. Qed.

(** * 2. the model of the cardinal-function code *)
Section Model.
Context {T : Type} (O : Ops T).

Definition osum (l : list T) : T := fold_right (oadd O) (o0 O) l.
Definition oprod (l : list T) : T := fold_right (omul O) (o1 O) l.

(** Polynomial.cardinal: [np.prod(np.where(nGrid - completeGrid == 0, 1,
    (x - completeGrid)/(nGrid - completeGrid)), axis=0)] *)
Definition cardinal (grid : list T) (xn x : T) : T :=
  oprod (map (fun g => if ois0 O (osub O xn g) then o1 O
                       else odiv O (osub O x g) (osub O xn g)) grid).

(** Polynomial._cardinalDeriv *)
Definition cd_diag (grid : list T) (xi : T) : T :=
  osum (map (fun g => if ois0 O (osub O xi g) then o0 O
                      else odiv O (o1 O) (osub O xi g)) grid).
Definition cd_off (grid : list T) (xi xj : T) : T :=
  oprod (map (fun g => if ois0 O (omul O (osub O xi g) (osub O xj g)) then o1 O
                       else odiv O (osub O xj g) (osub O xi g)) grid).
(** derivWithEndpoints[i, j] *)
Definition cd_entry (grid : list T) (xi xj : T) : T :=
  if ois0 O (osub O xi xj) then cd_diag grid xi
  else odiv O (cd_off grid xi xj) (osub O xi xj).

(** dot product / matrix-vector product on lists *)
Fixpoint odot (a b : list T) : T :=
  match a, b with
  | x :: a', y :: b' => oadd O (omul O x y) (odot a' b')
  | _, _ => o0 O
  end.
Definition omatvec (m : list (list T)) (v : list T) : list T := map (fun r => odot r v) m.

(** polynomial with coefficient list (lowest degree first) *)
Fixpoint opeval (a : list T) (x : T) : T :=
  match a with [] => o0 O | c :: r => oadd O c (omul O x (opeval r x)) end.
End Model.

(** * 3. theory over R *)
Local Open Scope R_scope.

Fixpoint pev (a : list R) (x : R) : R :=
  match a with [] => 0 | c :: r => c + x * pev r x end.
Fixpoint pder_aux (a : list R) (k : nat) : list R :=
  match a with [] => [] | c :: r => (INR k * c) :: pder_aux r (S k) end.
Definition pder (a : list R) : list R :=
  match a with [] => [] | _ :: r => pder_aux r 1 end.

Lemma opeval_R a x : opeval ROps a x = pev a x.
Proof. induction a; cbn; [reflexivity|]. now rewrite IHa. Qed.

(** ** 3.1 synthetic division and the roots bound *)
(* synthetic division: quotient list q with  a(x) = a(r) + (x - r) q(x), |q| = |a| - 1 *)
Fixpoint quot (a : list R) (r : R) : list R :=
  match a with
  | [] => []
  | c :: t => match t with [] => [] | _ => pev t r :: quot t r end
  end.

Lemma quot_length a r : length (quot a r) = pred (length a).
Proof.
  induction a as [|c t IH]; [reflexivity|].
  destruct t as [|d t']; [reflexivity|].
  change (quot (c :: d :: t') r) with (pev (d :: t') r :: quot (d :: t') r).
  cbn [length pred]. rewrite IH. reflexivity.
Qed.

Lemma quot_spec a r x : pev a x = pev a r + (x - r) * pev (quot a r) x.
Proof.
  induction a as [|c t IH]; [cbn; ring|].
  destruct t as [|d t'].
  - cbn. ring.
  - change (quot (c :: d :: t') r) with (pev (d :: t') r :: quot (d :: t') r).
    cbn [pev] in *. rewrite IH. ring.
Qed.

(** a polynomial with at most n coefficients and n distinct roots vanishes identically *)
Lemma roots_bound : forall (rs : list R) (a : list R),
  NoDup rs -> (length a <= length rs)%nat -> (forall r, In r rs -> pev a r = 0) ->
  forall x, pev a x = 0.
Proof.
  induction rs as [|r rs IH]; intros a Hnd Hlen Hroot x.
  - destruct a; [reflexivity|cbn in Hlen; lia].
  - inversion Hnd as [|? ? Hnotin Hnd']; subst.
    rewrite (quot_spec a r x). rewrite (Hroot r (or_introl eq_refl)).
    rewrite (IH (quot a r) Hnd'); [ring| |].
    + rewrite quot_length. cbn in Hlen. lia.
    + intros s Hs. pose proof (quot_spec a r s) as E.
      rewrite (Hroot r (or_introl eq_refl)), (Hroot s (or_intror Hs)) in E.
      assert (s - r <> 0) by (intro K; apply Hnotin; replace r with s by lra; exact Hs).
      apply (Rmult_eq_reg_l (s - r)); [lra|assumption].
Qed.

(** ** 3.2 "is a polynomial with at most n coefficients" as a predicate on functions *)
Definition is_poly (n : nat) (f : R -> R) : Prop :=
  exists a, (length a <= n)%nat /\ forall x, f x = pev a x.

Fixpoint padd (a b : list R) : list R :=
  match a, b with
  | [], _ => b | _, [] => a
  | x :: a', y :: b' => (x + y) :: padd a' b'
  end.
Lemma padd_ev a b x : pev (padd a b) x = pev a x + pev b x.
Proof.
  revert b; induction a as [|c a IH]; intros [|d b]; cbn; try ring.
  rewrite IH. ring.
Qed.
Lemma padd_len a b : length (padd a b) = Nat.max (length a) (length b).
Proof.
  revert b; induction a as [|c a IH]; intros [|d b]; cbn; try reflexivity.
  now rewrite IH.
Qed.
Lemma pscale_ev k a x : pev (map (Rmult k) a) x = k * pev a x.
Proof. induction a; cbn; [ring|]. rewrite IHa. ring. Qed.

Lemma is_poly_mono n m f : (n <= m)%nat -> is_poly n f -> is_poly m f.
Proof. intros H [a [L E]]. exists a. split; [lia|exact E]. Qed.
Lemma is_poly_ext n f g : (forall x, f x = g x) -> is_poly n f -> is_poly n g.
Proof. intros H [a [L E]]. exists a. split; [exact L|]. intro x. rewrite <- H. apply E. Qed.
Lemma is_poly_const c : is_poly 1 (fun _ => c).
Proof. exists [c]. split; [cbn; lia|]. intro x. cbn. ring. Qed.
Lemma is_poly_id : is_poly 2 (fun x => x).
Proof. exists [0; 1]. split; [cbn; lia|]. intro x. cbn. ring. Qed.
Lemma is_poly_plus n f g : is_poly n f -> is_poly n g -> is_poly n (fun x => f x + g x).
Proof.
  intros [a [La Ea]] [b [Lb Eb]]. exists (padd a b). split.
  - rewrite padd_len. lia.
  - intro x. rewrite padd_ev, Ea, Eb. reflexivity.
Qed.
Lemma is_poly_scal n k f : is_poly n f -> is_poly n (fun x => k * f x).
Proof.
  intros [a [La Ea]]. exists (map (Rmult k) a). split.
  - rewrite map_length. exact La.
  - intro x. rewrite pscale_ev, Ea. reflexivity.
Qed.
Lemma is_poly_minus n f g : is_poly n f -> is_poly n g -> is_poly n (fun x => f x - g x).
Proof.
  intros Hf Hg. apply (is_poly_ext n (fun x => f x + (-1) * g x)); [intro; ring|].
  apply is_poly_plus; [exact Hf|]. apply is_poly_scal. exact Hg.
Qed.
(** multiplication by x raises the bound by one *)
Lemma is_poly_mulx n f : is_poly n f -> is_poly (S n) (fun x => x * f x).
Proof.
  intros [a [La Ea]]. exists (0 :: a). split; [cbn; lia|].
  intro x. cbn. rewrite Ea. ring.
Qed.
Lemma is_poly_mul_lin n f c d : is_poly n f -> is_poly (S n) (fun x => (c * x + d) * f x).
Proof.
  intro H.
  apply (is_poly_ext (S n) (fun x => c * (x * f x) + d * f x)); [intro; ring|].
  apply is_poly_plus.
  - apply is_poly_scal, is_poly_mulx, H.
  - apply is_poly_scal. apply (is_poly_mono n); [lia|exact H].
Qed.
Lemma is_poly_pev a : is_poly (length a) (pev a).
Proof. exists a. split; [lia|reflexivity]. Qed.

Lemma is_poly_sum n {A} (fs : A -> R -> R) (l : list A) :
  (forall i, In i l -> is_poly n (fs i)) ->
  is_poly (Nat.max 1 n) (fun x => fold_right Rplus 0 (map (fun i => fs i x) l)).
Proof.
  induction l as [|i l IH]; intro H; cbn [map fold_right].
  - apply (is_poly_mono 1); [lia|apply is_poly_const].
  - apply is_poly_plus.
    + apply (is_poly_mono n); [lia|]. apply H. now left.
    + apply IH. intros j Hj. apply H. now right.
Qed.

(** a function that is a polynomial with <= n coefficients and has n distinct roots is 0 *)
Lemma is_poly_roots n f rs :
  is_poly n f -> NoDup rs -> (n <= length rs)%nat -> (forall r, In r rs -> f r = 0) ->
  forall x, f x = 0.
Proof.
  intros [a [La Ea]] Hnd Hn Hr x. rewrite Ea.
  apply (roots_bound rs a Hnd); [lia|]. intros r Hin. rewrite <- Ea. now apply Hr.
Qed.

(** ** 3.3 cardinal functions *)
(* R-native reading of the model definitions *)
Definition cfac (xn x g : R) : R := if Ris0 (xn - g) then 1 else (x - g) / (xn - g).
Definition Rprod (l : list R) : R := fold_right Rmult 1 l.
Definition Rsum (l : list R) : R := fold_right Rplus 0 l.

Lemma cardinal_R grid xn x : cardinal ROps grid xn x = Rprod (map (cfac xn x) grid).
Proof. reflexivity. Qed.

Lemma Rprod_cons v l : Rprod (v :: l) = v * Rprod l.
Proof. reflexivity. Qed.
Lemma Rsum_cons v l : Rsum (v :: l) = v + Rsum l.
Proof. reflexivity. Qed.
Lemma Rprod_all_one l : (forall v, In v l -> v = 1) -> Rprod l = 1.
Proof.
  induction l as [|v l IH]; intro H; [reflexivity|]. rewrite Rprod_cons.
  rewrite (H v (or_introl eq_refl)), IH; [ring|]. intros w Hw. apply H. now right.
Qed.
Lemma Rprod_has_zero l : In 0 l -> Rprod l = 0.
Proof.
  induction l as [|v l IH]; intros H; [contradiction|]. rewrite Rprod_cons. destruct H as [->|H].
  - ring.
  - rewrite IH; [ring|exact H].
Qed.

(** C_n(x_n) = 1 (no hypothesis on the grid at all) *)
Lemma cardinal_self grid xn : cardinal ROps grid xn xn = 1.
Proof.
  rewrite cardinal_R. apply Rprod_all_one. intros v Hv.
  apply in_map_iff in Hv. destruct Hv as [g [<- _]]. unfold cfac.
  destruct (Ris0 (xn - g)) eqn:E; [reflexivity|]. apply Ris0_false in E. now field.
Qed.
(** C_n(x_m) = 0 at every OTHER grid point *)
Lemma cardinal_other grid xn xm : In xm grid -> xn <> xm -> cardinal ROps grid xn xm = 0.
Proof.
  intros Hin Hne. rewrite cardinal_R. apply Rprod_has_zero.
  apply in_map_iff. exists xm. split; [|exact Hin]. unfold cfac.
  destruct (Ris0 (xn - xm)) eqn:E.
  - apply Ris0_true in E. exfalso. apply Hne. lra.
  - apply Ris0_false in E. field. exact E.
Qed.

Theorem cardinal_delta_R grid xn xm :
  In xm grid -> cardinal ROps grid xn xm = if Req_EM_T xn xm then 1 else 0.
Proof.
  intro Hin. destruct (Req_EM_T xn xm) as [->|Hne].
  - apply cardinal_self.
  - now apply cardinal_other.
Qed.

(** number of grid values different from xn *)
Fixpoint nneq (xn : R) (grid : list R) : nat :=
  match grid with [] => O | g :: r => (if Ris0 (xn - g) then 0 else 1) + nneq xn r end.

Lemma cardinal_is_poly grid xn : is_poly (S (nneq xn grid)) (cardinal ROps grid xn).
Proof.
  induction grid as [|g grid IH].
  - apply (is_poly_ext _ (fun _ => 1)); [reflexivity|]. apply is_poly_const.
  - apply (is_poly_ext _ (fun x => cfac xn x g * cardinal ROps grid xn x));
      [intro x; rewrite !cardinal_R; reflexivity|].
    cbn [nneq]. unfold cfac. destruct (Ris0 (xn - g)) eqn:E.
    + apply (is_poly_ext _ (cardinal ROps grid xn)); [intro; ring|]. exact IH.
    + apply Ris0_false in E.
      apply (is_poly_ext _ (fun x => (/ (xn - g) * x + - g / (xn - g)) * cardinal ROps grid xn x)).
      * intro x. field. exact E.
      * cbn [Nat.add]. apply is_poly_mul_lin. exact IH.
Qed.

Lemma nneq_notin xn grid : ~ In xn grid -> nneq xn grid = length grid.
Proof.
  induction grid as [|g grid IH]; intro H; [reflexivity|]. cbn [nneq length].
  destruct (Ris0 (xn - g)) eqn:E.
  - apply Ris0_true in E. exfalso. apply H. left. lra.
  - rewrite IH; [reflexivity|]. intro K. apply H. now right.
Qed.
Lemma nneq_in xn grid : NoDup grid -> In xn grid -> S (nneq xn grid) = length grid.
Proof.
  induction grid as [|g grid IH]; intros Hnd Hin; [contradiction|].
  inversion Hnd as [|? ? Hni Hnd']; subst. cbn [nneq length].
  destruct (Ris0 (xn - g)) eqn:E.
  - apply Ris0_true in E. assert (xn = g) by lra. subst g.
    rewrite nneq_notin; [reflexivity|exact Hni].
  - apply Ris0_false in E. destruct Hin as [->|Hin]; [exfalso; apply E; lra|].
    cbn [Nat.add]. now rewrite IH.
Qed.

(** the cardinal functions of a grid of n+1 distinct points have at most n+1 coefficients *)
Lemma cardinal_is_poly_grid grid xn :
  NoDup grid -> In xn grid -> is_poly (length grid) (cardinal ROps grid xn).
Proof.
  intros Hnd Hin. rewrite <- (nneq_in xn grid Hnd Hin). apply cardinal_is_poly.
Qed.

(** interpolant through values [v] attached to the sub-list [sel] of grid points:
    sum_n v_n C_n(x); this is what Polynomial.evaluate computes in the cardinal basis
    (sel = the grid without the dropped boundary points) *)
Definition interp (grid sel : list R) (v : R -> R) (x : R) : R :=
  Rsum (map (fun xn => v xn * cardinal ROps grid xn x) sel).

Lemma interp_at_node grid sel v xm :
  NoDup sel -> In xm grid -> interp grid sel v xm = if in_dec Req_EM_T xm sel then v xm else 0.
Proof.
  unfold interp. induction sel as [|s sel IH]; intros Hnd Hin; [reflexivity|].
  inversion Hnd as [|? ? Hni Hnd']; subst. cbn [map Rsum fold_right].
  change (fold_right Rplus 0 ?l) with (Rsum l). rewrite (IH Hnd' Hin).
  rewrite (cardinal_delta_R grid s xm Hin).
  destruct (Req_EM_T s xm) as [->|Hne].
  - destruct (in_dec Req_EM_T xm (xm :: sel)) as [_|K]; [|exfalso; apply K; now left].
    destruct (in_dec Req_EM_T xm sel) as [K|_]; [contradiction|]. ring.
  - destruct (in_dec Req_EM_T xm (s :: sel)) as [[K|K]|K];
      destruct (in_dec Req_EM_T xm sel) as [K'|K']; try contradiction; try ring.
    exfalso. apply K. now right.
Qed.

(** ** interp_exact: interpolation on n+1 distinct nodes reproduces, at EVERY x, every
    polynomial function with at most n+1 coefficients that vanishes at the grid points
    which are NOT selected ([sel] = grid without the dropped boundary points) *)
Theorem interp_exact_fn grid sel f :
  NoDup grid -> NoDup sel -> incl sel grid -> is_poly (length grid) f ->
  (forall g, In g grid -> ~ In g sel -> f g = 0) ->
  forall x, interp grid sel f x = f x.
Proof.
  intros Hnd Hnds Hincl Hf Hz x.
  destruct grid as [|g0 grid'] eqn:Eg.
  { destruct Hf as [a [La Ea]]. destruct a; [|cbn in La; lia].
    destruct sel as [|s sel]; [cbn; rewrite Ea; reflexivity|].
    exfalso. apply (Hincl s). now left. }
  rewrite <- Eg in *. assert (Hpos : (1 <= length grid)%nat) by (rewrite Eg; cbn; lia).
  clear Eg g0 grid'.
  apply Rminus_diag_uniq.
  apply (is_poly_roots (length grid) (fun y => interp grid sel f y - f y) grid);
    [|exact Hnd|lia|].
  - apply is_poly_minus; [|exact Hf].
    replace (length grid) with (Nat.max 1 (length grid)) by lia.
    unfold interp. apply (is_poly_sum (length grid) (fun xn y => f xn * cardinal ROps grid xn y)).
    intros xn Hin. apply is_poly_scal. apply cardinal_is_poly_grid; [exact Hnd|]. now apply Hincl.
  - intros r Hr. rewrite (interp_at_node grid sel f r Hnds Hr).
    destruct (in_dec Req_EM_T r sel) as [K|K]; [ring|]. rewrite (Hz r Hr K). ring.
Qed.

Theorem interp_exact_sel grid sel a :
  NoDup grid -> NoDup sel -> incl sel grid -> (length a <= length grid)%nat ->
  (forall g, In g grid -> ~ In g sel -> pev a g = 0) ->
  forall x, interp grid sel (pev a) x = pev a x.
Proof.
  intros Hnd Hnds Hincl Hlen Hz. apply interp_exact_fn; try assumption.
  apply (is_poly_mono (length a)); [exact Hlen|apply is_poly_pev].
Qed.

Theorem interp_exact_R grid a :
  NoDup grid -> (length a <= length grid)%nat ->
  forall x, interp grid grid (pev a) x = pev a x.
Proof.
  intros Hnd Hlen. apply interp_exact_sel; try assumption; [apply incl_refl|].
  intros g Hg K. contradiction.
Qed.

(** ** 3.4 derivative of the cardinal functions = entries of _cardinalDeriv *)
Lemma derivable_pt_lim_ext f g x l :
  (forall y, f y = g y) -> derivable_pt_lim f x l -> derivable_pt_lim g x l.
Proof.
  intros E H eps Heps. destruct (H eps Heps) as [d Hd]. exists d. intros h Hh Hlt.
  rewrite <- !E. now apply Hd.
Qed.

(* derivative of a coefficient-list polynomial *)
Fixpoint pev' (a : list R) (x : R) : R :=
  match a with [] => 0 | c :: r => pev r x + x * pev' r x end.
Lemma pev_derive a x : derivable_pt_lim (pev a) x (pev' a x).
Proof.
  induction a as [|c a IH]; cbn [pev pev'].
  - apply derivable_pt_lim_const.
  - apply (derivable_pt_lim_ext (fun y => (fun _ => c) y + ((fun z => z) y * pev a y)%R));
      [reflexivity|].
    replace (pev a x + x * pev' a x) with (0 + (1 * pev a x + x * pev' a x)) by ring.
    apply derivable_pt_lim_plus; [apply derivable_pt_lim_const|].
    apply (derivable_pt_lim_mult (fun z => z) (pev a)); [apply derivable_pt_lim_id|exact IH].
Qed.
(* pev' agrees with evaluating the formal derivative list *)
Lemma pder_aux_ev a k x : pev (pder_aux a k) x = INR k * pev a x + x * pev' a x.
Proof.
  revert k; induction a as [|c a IH]; intro k; [cbn; ring|].
  cbn [pder_aux pev pev']. rewrite (IH (S k)), S_INR. ring.
Qed.
Lemma pev'_pder a x : pev' a x = pev (pder a) x.
Proof.
  destruct a as [|c a]; [reflexivity|]. cbn [pev' pder].
  rewrite pder_aux_ev. replace (INR 1) with 1 by reflexivity. ring.
Qed.

(* recursive derivative of the product defining C_n *)
Definition cfac' (xn g : R) : R := if Ris0 (xn - g) then 0 else / (xn - g).
Fixpoint dcard (grid : list R) (xn x : R) : R :=
  match grid with
  | [] => 0
  | g :: r => cfac' xn g * Rprod (map (cfac xn x) r) + cfac xn x g * dcard r xn x
  end.

Lemma derive_lin g d x : d <> 0 -> derivable_pt_lim (fun y => (y - g) / d) x (/ d).
Proof.
  intros Hd eps Heps. exists (mkposreal 1 Rlt_0_1). intros h Hh _.
  replace (((x + h - g) / d - (x - g) / d) / h - / d) with 0 by (field; split; assumption).
  rewrite Rabs_R0. exact Heps.
Qed.

Lemma cardinal_derive grid xn x :
  derivable_pt_lim (cardinal ROps grid xn) x (dcard grid xn x).
Proof.
  induction grid as [|g grid IH].
  - cbn. apply derivable_pt_lim_const.
  - apply (derivable_pt_lim_ext (fun y => ((fun z => cfac xn z g) y * cardinal ROps grid xn y)%R));
      [intro y; rewrite !cardinal_R; reflexivity|].
    cbn [dcard]. rewrite <- cardinal_R.
    apply (derivable_pt_lim_mult (fun z => cfac xn z g) (cardinal ROps grid xn)); [|exact IH].
    unfold cfac, cfac'. destruct (Ris0 (xn - g)) eqn:E.
    + apply derivable_pt_lim_const.
    + apply Ris0_false in E.
      apply derive_lin. exact E.
Qed.

(** diagonal: C_i'(x_i) = sum_{k<>i} 1/(x_i - x_k) (any grid) *)
Lemma cd_diag_R grid xi : cd_diag ROps grid xi = Rsum (map (cfac' xi) grid).
Proof.
  unfold cd_diag, osum, Rsum, cfac'. cbn [ROps o0 o1 oadd osub odiv ois0].
  induction grid as [|g grid IH]; [reflexivity|]. cbn [map fold_right]. rewrite IH.
  destruct (Ris0 (xi - g)); [reflexivity|]. unfold Rdiv. now rewrite Rmult_1_l.
Qed.

Lemma dcard_diag grid xi : dcard grid xi xi = cd_diag ROps grid xi.
Proof.
  rewrite cd_diag_R. induction grid as [|g grid IH]; [reflexivity|].
  cbn [dcard map Rsum fold_right]. change (fold_right Rplus 0 ?l) with (Rsum l).
  rewrite IH, <- cardinal_R, cardinal_self.
  assert (cfac xi xi g = 1) as ->; [|ring].
  unfold cfac. destruct (Ris0 (xi - g)) eqn:E; [reflexivity|]. apply Ris0_false in E. now field.
Qed.

(** off-diagonal: factor of the product form *)
Definition ofac (xi xj g : R) : R :=
  if Ris0 ((xi - g) * (xj - g)) then 1 else (xj - g) / (xi - g).
Lemma cd_off_R grid xi xj : cd_off ROps grid xi xj = Rprod (map (ofac xi xj) grid).
Proof. reflexivity. Qed.

Lemma ofac_cfac xi xj g : xj <> g -> ofac xi xj g = cfac xi xj g.
Proof.
  intro H. unfold ofac, cfac. destruct (Ris0 (xi - g)) eqn:E.
  - apply Ris0_true in E. rewrite E, Rmult_0_l.
    assert (Ris0 0 = true) as -> by (apply Ris0_true; reflexivity). reflexivity.
  - apply Ris0_false in E.
    assert (Ris0 ((xi - g) * (xj - g)) = false) as ->; [|reflexivity].
    apply Ris0_false. apply Rmult_integral_contrapositive_currified; lra.
Qed.

Lemma off_notin grid xi xj :
  ~ In xj grid -> Rprod (map (cfac xi xj) grid) = Rprod (map (ofac xi xj) grid).
Proof.
  induction grid as [|g grid IH]; intro H; [reflexivity|]. cbn [map Rprod fold_right].
  change (fold_right Rmult 1 ?l) with (Rprod l).
  rewrite IH; [|intro K; apply H; now right].
  rewrite ofac_cfac; [reflexivity|]. intro K. apply H. now left.
Qed.

Lemma dcard_off grid xi xj :
  NoDup grid -> In xj grid -> xi <> xj ->
  Rprod (map (cfac xi xj) grid) = 0 /\
  dcard grid xi xj = Rprod (map (ofac xi xj) grid) / (xi - xj).
Proof.
  intros Hnd Hin Hne. induction grid as [|g grid IH]; [contradiction|].
  inversion Hnd as [|? ? Hni Hnd']; subst.
  cbn [map Rprod fold_right dcard]. change (fold_right Rmult 1 ?l) with (Rprod l).
  destruct (Req_EM_T xj g) as [->|Hg].
  - (* this factor is the one that vanishes *)
    assert (Ec : cfac xi g g = 0).
    { unfold cfac. destruct (Ris0 (xi - g)) eqn:E.
      - apply Ris0_true in E. exfalso. apply Hne. lra.
      - apply Ris0_false in E. now field. }
    assert (Eo : ofac xi g g = 1).
    { unfold ofac. replace ((xi - g) * (g - g)) with 0 by ring.
      assert (Ris0 0 = true) as -> by (apply Ris0_true; reflexivity). reflexivity. }
    rewrite Ec, Eo. split; [ring|].
    rewrite (off_notin grid xi g Hni).
    unfold cfac'. destruct (Ris0 (xi - g)) eqn:E.
    + apply Ris0_true in E. exfalso. apply Hne. lra.
    + apply Ris0_false in E. now field.
  - destruct Hin as [K|Hin]; [exfalso; now apply Hg|].
    destruct (IH Hnd' Hin) as [Z D]. rewrite Z, D.
    rewrite (ofac_cfac xi xj g Hg). split; [ring|].
    assert (xi - xj <> 0) by lra. now field.
Qed.

(** every entry of derivWithEndpoints is the derivative of a cardinal function at a node *)
Theorem cd_entry_is_derivative grid xi xj :
  NoDup grid -> In xj grid ->
  derivable_pt_lim (cardinal ROps grid xi) xj (cd_entry ROps grid xi xj).
Proof.
  intros Hnd Hin.
  assert (E : cd_entry ROps grid xi xj = dcard grid xi xj).
  { unfold cd_entry. cbn [ROps ois0 osub odiv]. destruct (Ris0 (xi - xj)) eqn:E.
    - apply Ris0_true in E. assert (xi = xj) by lra. subst xj. symmetry. apply dcard_diag.
    - apply Ris0_false in E. assert (Hne : xi <> xj) by lra.
      destruct (dcard_off grid xi xj Hnd Hin Hne) as [_ D]. rewrite D, cd_off_R. reflexivity. }
  rewrite E. apply cardinal_derive.
Qed.

Lemma Rsum_derive {A} (fs : A -> R -> R) (dfs : A -> R) (l : list A) x :
  (forall i, In i l -> derivable_pt_lim (fs i) x (dfs i)) ->
  derivable_pt_lim (fun y => Rsum (map (fun i => fs i y) l)) x (Rsum (map dfs l)).
Proof.
  induction l as [|i l IH]; intro H; cbn [map Rsum fold_right].
  - apply derivable_pt_lim_const.
  - change (fold_right Rplus 0 ?l) with (Rsum l).
    apply (derivable_pt_lim_plus (fs i) (fun y => Rsum (map (fun i0 => fs i0 y) l))).
    + apply H. now left.
    + apply IH. intros j Hj. apply H. now right.
Qed.

(** ** deriv_matrix_exact: sum_i D[i][j] f(x_i) = f'(x_j) at EVERY grid point x_j
    (boundaries included), for every polynomial function with at most |grid| coefficients
    that vanishes at the dropped points ([sel] = rows kept by _cardinalDeriv) *)
Theorem deriv_matrix_exact_fn grid sel f xj l :
  NoDup grid -> NoDup sel -> incl sel grid -> is_poly (length grid) f ->
  (forall g, In g grid -> ~ In g sel -> f g = 0) ->
  In xj grid -> derivable_pt_lim f xj l ->
  Rsum (map (fun xi => cd_entry ROps grid xi xj * f xi) sel) = l.
Proof.
  intros Hnd Hnds Hincl Hf Hz Hin Hl.
  apply (uniqueness_limite f xj); [|exact Hl].
  apply (derivable_pt_lim_ext (interp grid sel f)).
  - intro y. now apply interp_exact_fn.
  - unfold interp.
    apply (Rsum_derive (fun xn y => f xn * cardinal ROps grid xn y)
                       (fun xi => cd_entry ROps grid xi xj * f xi) sel xj).
    intros xi Hxi. rewrite Rmult_comm.
    apply (derivable_pt_lim_scal (cardinal ROps grid xi) (f xi) xj).
    now apply cd_entry_is_derivative.
Qed.

Theorem deriv_matrix_exact_R grid sel a xj :
  NoDup grid -> NoDup sel -> incl sel grid -> (length a <= length grid)%nat ->
  (forall g, In g grid -> ~ In g sel -> pev a g = 0) ->
  In xj grid ->
  Rsum (map (fun xi => cd_entry ROps grid xi xj * pev a xi) sel) = pev (pder a) xj.
Proof.
  intros Hnd Hnds Hincl Hlen Hz Hin.
  apply deriv_matrix_exact_fn; try assumption.
  - apply (is_poly_mono (length a)); [exact Hlen|apply is_poly_pev].
  - rewrite <- pev'_pder. apply pev_derive.
Qed.
