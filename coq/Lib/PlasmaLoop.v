(** Arrays as functions and python's wrap-around index, used by the generated model of
    EOM.findPlasmaProfile (the loop over the grid). *)
From Coq Require Import Reals Arith Lia.
Local Open Scope R_scope.

(** a[i] = x *)
Definition upd (f : nat -> R) (i : nat) (x : R) : nat -> R :=
  fun j => if Nat.eqb j i then x else f j.
(** position read by python's a[i - c] in an array of length n (0 <= i < n, 0 < c <= n):
    a negative index counts from the end *)
Definition pyidx_sub (n i c : nat) : nat := if Nat.leb c i then (i - c)%nat else (n + i - c)%nat.

Lemma upd_same f i x : upd f i x i = x.
Proof. unfold upd. rewrite Nat.eqb_refl. reflexivity. Qed.
Lemma upd_other f i x j : j <> i -> upd f i x j = f j.
Proof. intro H. unfold upd. destruct (Nat.eqb_spec j i); [contradiction|reflexivity]. Qed.
Lemma pyidx_sub_inside n i c : (c <= i)%nat -> pyidx_sub n i c = (i - c)%nat.
Proof. intro H. unfold pyidx_sub. destruct (Nat.leb_spec c i); [reflexivity|lia]. Qed.
Lemma pyidx_sub_wrap n i c : (i < c)%nat -> pyidx_sub n i c = (n + i - c)%nat.
Proof. intro H. unfold pyidx_sub. destruct (Nat.leb_spec c i); [lia|reflexivity]. Qed.
