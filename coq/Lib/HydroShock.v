(** Self-similar relativistic flow in front of / behind a bubble wall: the conservation laws in
    the similarity variable xi = r/t, their solution for the derivatives, the jump conditions
    at a discontinuity, and the entropy relation T gamma = const.  Pure real algebra; nothing
    here depends on WallGo.  Props/C03.v and Props/C05.v instantiate these statements with the
    definitions GENERATED from the Python source. *)
From Coq Require Import Reals Lra Nsatz.
Local Open Scope R_scope.

Definition gam2 (v : R) : R := 1 / (1 - v * v).
Definition mu (xi v : R) : R := (xi - v) / (1 - xi * v).

Lemma gam2_pos v : -1 < v < 1 -> 0 < gam2 v.
Proof. intros H. unfold gam2. apply Rdiv_lt_0_compat; nra. Qed.

Lemma mu_bounds xi v : 0 <= v < 1 -> 0 < xi < 1 -> -1 < mu xi v < 1.
Proof.
  intros Hv Hx. unfold mu. assert (0 < 1 - xi * v) by nra.
  split.
  - apply Rmult_lt_reg_r with (1 - xi * v); [assumption|].
    unfold Rdiv. rewrite Rmult_assoc, Rinv_l by lra. nra.
  - apply Rmult_lt_reg_r with (1 - xi * v); [assumption|].
    unfold Rdiv. rewrite Rmult_assoc, Rinv_l by lra. nra.
Qed.

(** * Conservation laws of a self-similar flow, d/dxi form.

    For a spherically symmetric flow depending on xi = r/t only, with fluid velocity v(xi)
    (frame of the bubble centre), energy density e, pressure p, enthalpy w = e + p:
      (xi - v) e' = w [ 2 v / xi + gamma^2 (1 - xi v) v' ]        (energy)
      (1 - v xi) p' = w gamma^2 (xi - v) v'                         (momentum)
    and the equation of state enters through  p' = cs^2 e'  and  p' = (w/T) T'  (dp = s dT). *)
Definition xi_laws (w cs2 T xi v dv dT de dp : R) : Prop :=
  (xi - v) * de = w * (2 * v / xi + gam2 v * (1 - xi * v) * dv) /\
  (1 - v * xi) * dp = w * gam2 v * (xi - v) * dv /\
  dp = cs2 * de /\
  dp = w * dT / T.

(** the same laws multiplied by dxi/dv =: X, written for derivatives with respect to v:
    Y = dT/dv, E = de/dv, P = dp/dv *)
Definition v_laws (w cs2 T xi v X Y E P : R) : Prop :=
  (xi - v) * E = w * (2 * v / xi * X + gam2 v * (1 - xi * v)) /\
  (1 - v * xi) * P = w * gam2 v * (xi - v) /\
  P = cs2 * E /\
  P = w * Y / T.

(** the unique solution of the v-form *)
Definition dxi_dv (cs2 xi v : R) : R :=
  gam2 v * (1 - v * xi) * ((mu xi v) ^ 2 / cs2 - 1) * xi / 2 / v.
Definition dT_dv (T xi v : R) : R := T * gam2 v * mu xi v.

Section Flow.
Variables w cs2 T xi v : R.
Hypothesis Hw : w <> 0.
Hypothesis Hc : cs2 <> 0.
Hypothesis HT : T <> 0.
Hypothesis Hxi : xi <> 0.
Hypothesis Hv : v <> 0.
Hypothesis Hg : 1 - v * v <> 0.
Hypothesis Hd : 1 - v * xi <> 0.

Lemma v_laws_solution :
  v_laws w cs2 T xi v (dxi_dv cs2 xi v) (dT_dv T xi v)
         (w * gam2 v * mu xi v / cs2) (w * gam2 v * mu xi v).
Proof.
  assert (Hd' : 1 - xi * v <> 0) by (intro A; apply Hd; lra).
  unfold v_laws, dxi_dv, dT_dv, gam2, mu. repeat split; field; repeat split; assumption.
Qed.

Lemma v_laws_unique X Y E P :
  v_laws w cs2 T xi v X Y E P ->
  X = dxi_dv cs2 xi v /\ Y = dT_dv T xi v /\
  E = w * gam2 v * mu xi v / cs2 /\ P = w * gam2 v * mu xi v.
Proof.
  assert (Hd' : 1 - xi * v <> 0) by (intro A; apply Hd; lra).
  intros (H1 & H2 & H3 & H4).
  assert (EP : P = w * gam2 v * mu xi v).
  { unfold gam2, mu in *. apply Rmult_eq_reg_l with (1 - v * xi); [|assumption].
    rewrite H2. field. split; assumption. }
  assert (EE : E = w * gam2 v * mu xi v / cs2).
  { rewrite <- EP, H3. field. assumption. }
  assert (EY : Y = dT_dv T xi v).
  { unfold dT_dv. apply Rmult_eq_reg_l with (w / T).
    2:{ unfold Rdiv. apply Rmult_integral_contrapositive_currified;
        [assumption|apply Rinv_neq_0_compat; assumption]. }
    replace (w / T * Y) with (w * Y / T) by (field; assumption).
    rewrite <- H4, EP. field. assumption. }
  repeat split; try assumption.
  (* X from the energy equation *)
  rewrite EE in H1. unfold dxi_dv.
  apply Rmult_eq_reg_l with (w * (2 * v / xi)).
  2:{ apply Rmult_integral_contrapositive_currified; [assumption|].
      unfold Rdiv. apply Rmult_integral_contrapositive_currified;
        [lra|apply Rinv_neq_0_compat; assumption]. }
  replace (w * (2 * v / xi) * X) with
      (w * (2 * v / xi * X + gam2 v * (1 - xi * v)) - w * gam2 v * (1 - xi * v)) by ring.
  rewrite <- H1. unfold gam2, mu. field. repeat split; assumption.
Qed.

(** d/dxi form: wherever dxi/dv <> 0 (away from the sonic point mu^2 = cs^2) the reciprocal
    of the v-form solves the xi-form, and it is the only solution. *)
Lemma xi_laws_solution :
  dxi_dv cs2 xi v <> 0 ->
  xi_laws w cs2 T xi v (1 / dxi_dv cs2 xi v) (dT_dv T xi v / dxi_dv cs2 xi v)
          (w * gam2 v * mu xi v / cs2 / dxi_dv cs2 xi v)
          (w * gam2 v * mu xi v / dxi_dv cs2 xi v).
Proof.
  intro HX. destruct v_laws_solution as (H1 & H2 & H3 & H4).
  set (X := dxi_dv cs2 xi v) in *.
  unfold xi_laws. repeat split.
  - replace ((xi - v) * (w * gam2 v * mu xi v / cs2 / X)) with
        ((xi - v) * (w * gam2 v * mu xi v / cs2) / X) by (field; split; assumption).
    rewrite H1. field. split; assumption.
  - replace ((1 - v * xi) * (w * gam2 v * mu xi v / X)) with
        ((1 - v * xi) * (w * gam2 v * mu xi v) / X) by (field; assumption).
    rewrite H2. field. assumption.
  - field. split; assumption.
  - unfold dT_dv. field. split; assumption.
Qed.

Lemma xi_laws_unique dv dT de dp :
  xi_laws w cs2 T xi v dv dT de dp -> dv <> 0 ->
  1 / dv = dxi_dv cs2 xi v /\ dT / dv = dT_dv T xi v.
Proof.
  intros (H1 & H2 & H3 & H4) Hdv.
  assert (V : v_laws w cs2 T xi v (1 / dv) (dT / dv) (de / dv) (dp / dv)).
  { unfold v_laws. repeat split.
    - replace ((xi - v) * (de / dv)) with ((xi - v) * de / dv) by (field; assumption).
      rewrite H1. field. split; assumption.
    - replace ((1 - v * xi) * (dp / dv)) with ((1 - v * xi) * dp / dv) by (field; assumption).
      rewrite H2. field. assumption.
    - rewrite H3. field. assumption.
    - rewrite H4. field. split; assumption. }
  destruct (v_laws_unique _ _ _ _ V) as (A & B & _). split; assumption.
Qed.
End Flow.

(** the laws in the enthalpy form used by the template model (constant cs2; w' = e' + p') *)
Lemma v_laws_enthalpy w cs2 T xi v X Y E P :
  cs2 <> 0 -> v_laws w cs2 T xi v X Y E P -> 1 - v * xi <> 0 -> 1 - v * v <> 0 ->
  E + P = w * (1 + 1 / cs2) * mu xi v / (1 - v ^ 2).
Proof.
  intros Hc (H1 & H2 & H3 & H4) Hd Hg.
  assert (Hd' : 1 - xi * v <> 0) by (intro A; apply Hd; lra).
  assert (EP : P = w * gam2 v * mu xi v).
  { unfold gam2, mu in *. apply Rmult_eq_reg_l with (1 - v * xi); [|assumption].
    rewrite H2. field. split; assumption. }
  assert (EE : E = P / cs2) by (rewrite H3; field; assumption).
  rewrite EE, EP. unfold gam2, mu. field. repeat split; try assumption.
  intro A. apply Hg. lra.
Qed.

(** * Jump conditions at a discontinuity (shock front or wall), in the frame of the
    discontinuity; side 1 / side 2 have velocities v1, v2. *)
Definition energy_flux (w v : R) : R := w * gam2 v * v.
Definition momentum_flux (w p v : R) : R := w * gam2 v * v * v + p.

Lemma junction_momentum_from_energy w1 p1 v1 w2 p2 v2 :
  1 - v1 * v1 <> 0 -> 1 - v2 * v2 <> 0 -> v1 <> 0 -> v2 <> 0 -> 1 + v1 * v2 <> 0 ->
  energy_flux w1 v1 = energy_flux w2 v2 ->
  v1 * v2 * ((w2 - p2) - (w1 - p1)) = p2 - p1 ->
  momentum_flux w1 p1 v1 = momentum_flux w2 p2 v2.
Proof.
  unfold energy_flux, momentum_flux, gam2. intros G1 G2 N1 N2 N12 HE HC.
  (* w1 = F (1 - v1^2)/v1, w2 = F (1 - v2^2)/v2 *)
  set (F := w1 * (1 / (1 - v1 * v1)) * v1) in *.
  assert (W1 : w1 = F * (1 - v1 * v1) / v1) by (unfold F; field; split; assumption).
  assert (W2 : w2 = F * (1 - v2 * v2) / v2) by (rewrite HE; field; split; assumption).
  assert (K : F * (v1 - v2) = p2 - p1).
  { assert (K' : (p2 - p1) * (1 + v1 * v2) = v1 * v2 * (w2 - w1)) .
    { replace ((p2 - p1) * (1 + v1 * v2)) with ((p2 - p1) + v1 * v2 * (p2 - p1)) by ring.
      rewrite <- HC at 1. ring. }
    apply Rmult_eq_reg_r with (1 + v1 * v2); [|assumption].
    rewrite K'. rewrite W2. rewrite W1.
    field. split; assumption. }
  rewrite <- HE. fold F.
  replace (w1 * (1 / (1 - v1 * v1)) * v1 * v1) with (F * v1) by (unfold F; ring).
  lra.
Qed.

Lemma junction_energy_momentum_give_product w1 p1 v1 w2 p2 v2 :
  1 - v1 * v1 <> 0 -> 1 - v2 * v2 <> 0 -> v1 <> 0 -> v2 <> 0 ->
  energy_flux w1 v1 = energy_flux w2 v2 ->
  momentum_flux w1 p1 v1 = momentum_flux w2 p2 v2 ->
  v1 * v2 * ((w2 - p2) - (w1 - p1)) = (p2 - p1) * 1.
Proof.
  unfold energy_flux, momentum_flux, gam2. intros G1 G2 N1 N2 HE HM.
  set (F := w1 * (1 / (1 - v1 * v1)) * v1) in *.
  assert (W1 : w1 = F * (1 - v1 * v1) / v1) by (unfold F; field; split; assumption).
  assert (W2 : w2 = F * (1 - v2 * v2) / v2) by (rewrite HE; field; split; assumption).
  assert (K : p2 - p1 = F * (v1 - v2)).
  { replace (w1 * (1 / (1 - v1 * v1)) * v1 * v1) with (F * v1) in HM by (unfold F; ring).
    rewrite <- HE in HM. fold F in HM. lra. }
  assert (P2 : p2 = p1 + F * (v1 - v2)) by lra.
  rewrite P2, W2, W1. field. split; assumption.
Qed.

(** fluxes across the wall from the two relations the code solves:
    v+ v- = (p+ - p-)/(e+ - e-),  v+/v- = (e- + p+)/(e+ + p-) *)
Lemma junction_poly_energy pp ep pm em vp vm :
  vp * vm * (ep - em) = pp - pm -> vp * (ep + pm) = vm * (em + pp) ->
  (ep + pp) * vp * (1 - vm * vm) - (em + pm) * vm * (1 - vp * vp) = 0.
Proof. intros A1 A2. nsatz. Qed.

Lemma junction_poly_momentum pp ep pm em vp vm :
  vp * vm * (ep - em) = pp - pm -> vp * (ep + pm) = vm * (em + pp) ->
  (ep + pp) * vp * vp * (1 - vm * vm) - (em + pm) * vm * vm * (1 - vp * vp)
  + (pp - pm) * (1 - vp * vp) * (1 - vm * vm) = 0.
Proof. intros A1 A2. nsatz. Qed.

Lemma junction_from_relations pp ep pm em vp vm :
  0 < vp < 1 -> 0 < vm < 1 -> ep - em <> 0 -> ep + pm <> 0 ->
  vp * vm = (pp - pm) / (ep - em) -> vp / vm = (em + pp) / (ep + pm) ->
  energy_flux (ep + pp) vp = energy_flux (em + pm) vm /\
  momentum_flux (ep + pp) pp vp = momentum_flux (em + pm) pm vm.
Proof.
  intros Hp Hm D1 D2 R1 R2.
  assert (A1 : vp * vm * (ep - em) = pp - pm).
  { rewrite R1. field. assumption. }
  assert (A2 : vp * (ep + pm) = vm * (em + pp)).
  { apply Rmult_eq_reg_r with (/ vm); [|apply Rinv_neq_0_compat; lra].
    replace (vp * (ep + pm) * / vm) with (vp / vm * (ep + pm)) by (field; lra).
    rewrite R2. field. split; [lra|assumption]. }
  unfold energy_flux, momentum_flux, gam2.
  assert (G1 : 1 - vp * vp <> 0) by nra. assert (G2 : 1 - vm * vm <> 0) by nra.
  pose proof (junction_poly_energy _ _ _ _ _ _ A1 A2) as PE.
  pose proof (junction_poly_momentum _ _ _ _ _ _ A1 A2) as PM.
  split.
  - apply Rminus_diag_uniq.
    replace ((ep + pp) * (1 / (1 - vp * vp)) * vp - (em + pm) * (1 / (1 - vm * vm)) * vm)
      with (((ep + pp) * vp * (1 - vm * vm) - (em + pm) * vm * (1 - vp * vp)) /
            ((1 - vp * vp) * (1 - vm * vm))) by (field; split; assumption).
    rewrite PE. unfold Rdiv. ring.
  - apply Rminus_diag_uniq.
    replace ((ep + pp) * (1 / (1 - vp * vp)) * vp * vp + pp -
             ((em + pm) * (1 / (1 - vm * vm)) * vm * vm + pm))
      with (((ep + pp) * vp * vp * (1 - vm * vm) - (em + pm) * vm * vm * (1 - vp * vp)
             + (pp - pm) * (1 - vp * vp) * (1 - vm * vm)) /
            ((1 - vp * vp) * (1 - vm * vm))) by (field; split; assumption).
    rewrite PM. unfold Rdiv. ring.
Qed.

(** * Entropy relation across the wall: T+ gamma+ = T- gamma- *)
Lemma entropy_squared_form Tp Tm vp2 vm2 :
  Tm <> 0 -> vp2 = (Tm ^ 2 - Tp ^ 2 * (1 - vm2)) / Tm ^ 2 ->
  Tp ^ 2 * (1 - vm2) = Tm ^ 2 * (1 - vp2).
Proof. intros H ->. field. assumption. Qed.

Lemma entropy_gamma_form Tp Tm vp vm :
  0 < Tp -> 0 < Tm -> -1 < vp < 1 -> -1 < vm < 1 ->
  Tp ^ 2 * (1 - vm * vm) = Tm ^ 2 * (1 - vp * vp) ->
  Tp * sqrt (gam2 vp) = Tm * sqrt (gam2 vm).
Proof.
  intros HTp HTm Hp Hm H.
  pose proof (gam2_pos vp Hp) as Gp. pose proof (gam2_pos vm Hm) as Gm.
  rewrite <- (sqrt_Rsqr Tp) at 1 by lra. rewrite <- (sqrt_Rsqr Tm) at 1 by lra.
  rewrite <- !sqrt_mult by (try apply Rle_0_sqr; lra).
  f_equal. unfold Rsqr, gam2. assert (1 - vp * vp <> 0) by nra. assert (1 - vm * vm <> 0) by nra.
  apply Rmult_eq_reg_r with ((1 - vp * vp) * (1 - vm * vm)).
  2:{ apply Rmult_integral_contrapositive_currified; assumption. }
  replace (Tp * Tp * (1 / (1 - vp * vp)) * ((1 - vp * vp) * (1 - vm * vm))) with
      (Tp ^ 2 * (1 - vm * vm)) by (field; assumption).
  replace (Tm * Tm * (1 / (1 - vm * vm)) * ((1 - vp * vp) * (1 - vm * vm))) with
      (Tm ^ 2 * (1 - vp * vp)) by (field; assumption).
  exact H.
Qed.
