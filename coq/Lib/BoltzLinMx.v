(** C12 library, linear algebra with mathcomp matrices over an arbitrary field: what a
    change of polynomial basis does to the linear system  A x = b  and to the function the
    coefficient vector represents.  Generic; no WallGo code is mentioned. *)
From mathcomp Require Import all_ssreflect ssralg matrix.
Set Implicit Arguments.
Unset Strict Implicit.
Unset Printing Implicit Defensive.
Import GRing.Theory.
Local Open Scope ring_scope.

Section LinAlg.
Variable F : fieldType.
Variable n : nat.
Implicit Types (A P : 'M[F]_n) (x y b : 'cV[F]_n).

(** zero right-hand side, non-singular operator: only the zero solution *)
Lemma mx_zero_rhs A x : A \in unitmx -> A *m x = 0 -> x = 0.
Proof. by move=> uA H; rewrite -(mul1mx x) -(mulVmx uA) -mulmxA H mulmx0. Qed.

(** if x solves the system in the cardinal basis, P^-1 x solves the one assembled in the
    basis whose functions are the columns of P ... *)
Lemma mx_basis_change A P x b :
  P \in unitmx -> A *m x = b -> (A *m P) *m (invmx P *m x) = b.
Proof. by move=> uP H; rewrite -mulmxA (mulmxA P) (mulmxV uP) mul1mx. Qed.

(** ... and it is the only solution when A is non-singular *)
Lemma mx_basis_change_unique A P x y b :
  A \in unitmx -> P \in unitmx -> A *m x = b -> (A *m P) *m y = b -> y = invmx P *m x.
Proof.
  move=> uA uP Hx Hy.
  have E : A *m (P *m y) = A *m x by rewrite mulmxA Hy Hx.
  have E2 : P *m y = x.
    by rewrite -(mul1mx (P *m y)) -(mulVmx uA) -mulmxA E mulmxA (mulVmx uA) mul1mx.
  by rewrite -E2 mulmxA (mulVmx uP) mul1mx.
Qed.

(** the represented function: phi = row of cardinal-function values at any phase-space
    point, phi *m P = the row of the new basis functions' values there *)
Lemma mx_same_function m (phi : 'M[F]_(m, n)) P x :
  P \in unitmx -> (phi *m P) *m (invmx P *m x) = phi *m x.
Proof. by move=> uP; rewrite -mulmxA (mulmxA P) (mulmxV uP) mul1mx. Qed.

(** everything derived linearly from the solution (the Deltas: weights w in the cardinal
    representation) is therefore the same in every basis *)
Lemma mx_same_moments (w : 'rV[F]_n) A P x y b :
  A \in unitmx -> P \in unitmx -> A *m x = b -> (A *m P) *m y = b ->
  (w *m P) *m y = w *m x.
Proof.
  move=> uA uP Hx Hy. rewrite (mx_basis_change_unique uA uP Hx Hy).
  exact: mx_same_function.
Qed.
End LinAlg.
