(** Change of units: real-analysis facts used by Props/C07.v (repo independent).

    A change of the unit of energy by a factor [lam > 0] multiplies a quantity of mass
    dimension [d] by [lam ^ d] (temperatures, field values: d = 1; lengths: d = -1;
    pressures, energy densities: d = 4; velocities, ratios: d = 0). *)
From Coq Require Import Reals Lra List String ZArith.
Local Open Scope R_scope.

(** * Powers *)
Lemma Rpower_scale lam T mu :
  0 < lam -> 0 < T -> Rpower (lam * T) mu = Rpower lam mu * Rpower T mu.
Proof. intros H1 H2. symmetry. apply Rpower_mult_distr; assumption. Qed.

Lemma Rpower_nat lam (n : nat) : 0 < lam -> Rpower lam (INR n) = lam ^ n.
Proof. intro H. apply Rpower_pow. exact H. Qed.

Lemma Rpower_4 lam : 0 < lam -> Rpower lam 4 = lam ^ 4.
Proof. intro H. replace 4 with (INR 4) by (simpl; ring). apply Rpower_pow. exact H. Qed.
Lemma Rpower_3 lam : 0 < lam -> Rpower lam 3 = lam ^ 3.
Proof. intro H. replace 3 with (INR 3) by (simpl; ring). apply Rpower_pow. exact H. Qed.
Lemma Rpower_2 lam : 0 < lam -> Rpower lam 2 = lam ^ 2.
Proof. intro H. replace 2 with (INR 2) by (simpl; ring). apply Rpower_pow. exact H. Qed.

(** the extrapolation coefficient [a] of  p = a T^mu / 3 - eps  has dimension 4 - mu *)
Lemma Rpower_split4 lam mu : 0 < lam -> Rpower lam (4 - mu) * Rpower lam mu = lam ^ 4.
Proof.
  intro H. rewrite <- Rpower_plus. replace (4 - mu + mu) with 4 by ring. apply Rpower_4, H.
Qed.
Lemma Rpower_split3 lam mu : 0 < lam -> Rpower lam (4 - mu) * Rpower lam (mu - 1) = lam ^ 3.
Proof.
  intro H. rewrite <- Rpower_plus. replace (4 - mu + (mu - 1)) with 3 by ring. apply Rpower_3, H.
Qed.
Lemma Rpower_split2 lam mu : 0 < lam -> Rpower lam (4 - mu) * Rpower lam (mu - 2) = lam ^ 2.
Proof.
  intro H. rewrite <- Rpower_plus. replace (4 - mu + (mu - 2)) with 2 by ring. apply Rpower_2, H.
Qed.

Lemma Rpower_gt0 a m : 0 < Rpower a m.
Proof. unfold Rpower. apply exp_pos. Qed.

(** every positive factor is the [d]-th power of some positive [lam], d <> 0 *)
Lemma Rpower_surj d c : d <> 0 -> 0 < c -> exists lam, 0 < lam /\ Rpower lam d = c.
Proof.
  intros Hd Hc. exists (Rpower c (/ d)). split; [apply Rpower_gt0|].
  rewrite Rpower_mult. replace (/ d * d) with 1 by (field; exact Hd).
  apply Rpower_1. exact Hc.
Qed.

(** * Square roots and absolute values *)
Lemma sqrt_scale_sq k x : 0 <= k -> sqrt (k * k * x) = k * sqrt x.
Proof.
  intro Hk. rewrite sqrt_mult_alt by (apply Rle_0_sqr || nra).
  rewrite sqrt_square by exact Hk. reflexivity.
Qed.

Lemma Rabs_scale k x : 0 <= k -> Rabs (k * x) = k * Rabs x.
Proof. intro Hk. rewrite Rabs_mult, (Rabs_pos_eq k) by exact Hk. reflexivity. Qed.

(** ratio of two quantities of the same dimension: no condition on the denominator
    (Coq's total division: both sides are 0 when b = 0) *)
Lemma div_scale k a b : k <> 0 -> (k * a) / (k * b) = a / b.
Proof.
  intro Hk. unfold Rdiv. rewrite Rinv_mult.
  replace (k * a * (/ k * / b)) with ((k * / k) * (a * / b)) by ring.
  rewrite Rinv_r by exact Hk. ring.
Qed.

(** * Tolerances *)
(** an ABSOLUTE test |x| < tol on a quantity of dimension d <> 0 is not unit covariant:
    for every non-zero x some change of units flips it *)
Definition abs_test (tol x : R) : bool := if Rlt_dec (Rabs x) tol then true else false.

Lemma abs_tolerance_not_covariant d tol x :
  d <> 0 -> 0 < tol -> x <> 0 ->
  exists lam, 0 < lam /\ abs_test tol (Rpower lam d * x) <> abs_test tol x.
Proof.
  intros Hd Ht Hx. assert (Hax : 0 < Rabs x) by (apply Rabs_pos_lt; exact Hx).
  unfold abs_test at 2. destruct (Rlt_dec (Rabs x) tol) as [Hlt | Hge].
  - destruct (Rpower_surj d (2 * tol / Rabs x) Hd) as [lam [Hl E]].
    { apply Rdiv_lt_0_compat; lra. }
    exists lam. split; [exact Hl|]. unfold abs_test. rewrite E.
    rewrite Rabs_scale by (apply Rlt_le, Rdiv_lt_0_compat; lra).
    replace (2 * tol / Rabs x * Rabs x) with (2 * tol) by (field; lra).
    destruct (Rlt_dec (2 * tol) tol); [lra | discriminate].
  - destruct (Rpower_surj d (tol / (2 * Rabs x)) Hd) as [lam [Hl E]].
    { apply Rdiv_lt_0_compat; lra. }
    exists lam. split; [exact Hl|]. unfold abs_test. rewrite E.
    rewrite Rabs_scale by (apply Rlt_le, Rdiv_lt_0_compat; lra).
    replace (tol / (2 * Rabs x) * Rabs x) with (tol / 2) by (field; lra).
    destruct (Rlt_dec (tol / 2) tol); [discriminate | lra].
Qed.

(** the same test with the tolerance multiplied by a scale of the same dimension IS *)
Lemma rel_tolerance_covariant k tol x s :
  0 < k -> (Rabs (k * x) < tol * (k * s) <-> Rabs x < tol * s).
Proof.
  intro Hk. rewrite Rabs_scale by lra. split; intro H; nra.
Qed.

(** a dimensionless comparison is covariant *)
Lemma dimensionless_test_covariant k x y : 0 < k -> (k * x < k * y <-> x < y).
Proof. intro Hk. split; intro H; nra. Qed.

(** * Recorded tolerance sites (data emitted by tools/gen_units.py) *)
Record site := mk_site {
  s_file : string; s_fun : string; s_kind : string; s_tol : string;
  s_dim : option Z;        (* mass dimension of the quantity the number meets *)
  s_count : nat }.

(** Use of an input parameter inside an entry point (data emitted by tools/gen_units.py):
    is it consumed on every call ([f_always]) / only under some condition ([f_cond])? *)
Record flow := mk_flow {
  f_fun : string; f_param : string; f_always : bool; f_cond : bool }.

(** State created by the wall-solving entry points of the manager (data emitted by
    tools/gen_units.py): is the attribute rebuilt by a new set-up ([c_rebuilt]), is it read by
    the solving entry points ([c_read])? *)
Record cached := mk_cached { c_name : string; c_rebuilt : bool; c_read : bool }.
