(** C-order index arithmetic of numpy arrays: ravel/unravel, reshape, moveaxis/transpose,
    leading-slice truncation, meshgrid.  Arrays are (shape, index -> value); every operation
    is defined the way numpy defines it (reshape = same flat C-order sequence, moveaxis =
    permutation of the index tuple), so that a pipeline of such operations extracted from
    the Python AST can be evaluated (vm_compute) and reasoned about for ALL sizes.
    Used by C14 (CollisionArray.interpolateCollisionArray).  Standard library only. *)
From Coq Require Import List Arith Lia PeanoNat Bool.
Import ListNotations.

Definition prod (l : list nat) : nat := fold_right Nat.mul 1 l.

(** flat C-order position of a multi-index *)
Fixpoint ravel (shape idx : list nat) : nat :=
  match shape, idx with
  | _ :: shape', i :: idx' => i * prod shape' + ravel shape' idx'
  | _, _ => 0
  end.

(** multi-index of a flat C-order position *)
Fixpoint unravel (shape : list nat) (k : nat) : list nat :=
  match shape with
  | [] => []
  | _ :: shape' => k / prod shape' :: unravel shape' (k mod prod shape')
  end.

(** idx is a valid index of an array of that shape *)
Fixpoint inb (shape idx : list nat) : Prop :=
  match shape, idx with
  | [], [] => True
  | s :: shape', i :: idx' => i < s /\ inb shape' idx'
  | _, _ => False
  end.

Fixpoint inbb (shape idx : list nat) : bool :=
  match shape, idx with
  | [], [] => true
  | s :: shape', i :: idx' => (i <? s) && inbb shape' idx'
  | _, _ => false
  end.

Lemma inbb_spec shape : forall idx, inbb shape idx = true <-> inb shape idx.
Proof.
  induction shape as [|s sh IH]; intros [|i idx]; cbn [inbb inb];
    try (split; [discriminate|tauto]).
  - tauto.
  - rewrite andb_true_iff, Nat.ltb_lt, IH. tauto.
Qed.

Lemma prod_cons s sh : prod (s :: sh) = s * prod sh.
Proof. reflexivity. Qed.

Lemma prod_pos_of_inb shape : forall idx, inb shape idx -> 0 < prod shape.
Proof.
  induction shape as [|s sh IH]; intros [|i idx] H; cbn [inb] in H;
    try (exfalso; exact H).
  - cbn. lia.
  - rewrite prod_cons. destruct H as [H1 H2]. specialize (IH _ H2). nia.
Qed.

Lemma ravel_lt shape : forall idx, inb shape idx -> ravel shape idx < prod shape.
Proof.
  induction shape as [|s sh IH]; intros [|i idx] H; cbn [inb] in H;
    try (exfalso; exact H).
  - cbn. lia.
  - cbn [ravel]. rewrite prod_cons. destruct H as [H1 H2]. specialize (IH _ H2). nia.
Qed.

Theorem unravel_ravel shape : forall idx, inb shape idx -> unravel shape (ravel shape idx) = idx.
Proof.
  induction shape as [|s sh IH]; intros [|i idx] H; cbn [inb] in H;
    try (exfalso; exact H); [reflexivity|].
  cbn [ravel unravel].
  destruct H as [H1 H2]. pose proof (ravel_lt _ _ H2) as Hlt.
  assert (Hp : prod sh <> 0) by lia.
  f_equal.
  - rewrite Nat.div_add_l by exact Hp. rewrite Nat.div_small by exact Hlt. lia.
  - rewrite Nat.add_comm, Nat.mod_add by exact Hp. rewrite Nat.mod_small by exact Hlt.
    apply IH; exact H2.
Qed.

Theorem ravel_unravel shape : forall k, k < prod shape ->
  ravel shape (unravel shape k) = k /\ inb shape (unravel shape k).
Proof.
  induction shape as [|s sh IH]; intros k Hk.
  - cbn in *. split; [lia|exact I].
  - rewrite prod_cons in Hk. cbn [unravel ravel inb].
    assert (Hp : prod sh <> 0) by (intro E; rewrite E in Hk; lia).
    destruct (IH (k mod prod sh)) as [E1 E2]; [apply Nat.mod_upper_bound; exact Hp|].
    split; [|split].
    + rewrite E1. pose proof (Nat.div_mod k (prod sh) Hp). lia.
    + apply Nat.div_lt_upper_bound; [exact Hp|]. lia.
    + exact E2.
Qed.

Lemma prod_app a b : prod (a ++ b) = prod a * prod b.
Proof.
  induction a as [|x a IH]; [cbn [app]; change (prod []) with 1; lia|].
  cbn [app]. rewrite !prod_cons, IH. ring.
Qed.

(** splitting one axis of extent m*n into two axes (m, n) does not move anything:
    position p = q*n + r  <->  (q, r).  This is the only arithmetic fact behind
    "reshape (.., m*n, ..) -> (.., m, n, ..)". *)
Lemma ravel_split_axis pre post m n : forall ipre q r ipost,
  length ipre = length pre ->
  ravel (pre ++ m :: n :: post) (ipre ++ q :: r :: ipost) =
  ravel (pre ++ (m * n) :: post) (ipre ++ (q * n + r) :: ipost).
Proof.
  induction pre as [|s pre IH]; intros [|i ipre] q r ipost Hl; cbn [length] in Hl;
    try discriminate; cbn [app ravel].
  - rewrite !prod_cons. ring.
  - injection Hl as Hl. rewrite (IH ipre q r ipost Hl). f_equal.
    rewrite !prod_app, !prod_cons. ring.
Qed.

(** ** arrays *)
Record arr (A : Type) := mkarr { shape : list nat; get : list nat -> A }.
Arguments mkarr {A}. Arguments shape {A}. Arguments get {A}.

(** x.reshape(new): the same C-order sequence of entries read with the new shape *)
Definition reshape {A} (new : list nat) (a : arr A) : arr A :=
  mkarr new (fun idx => get a (unravel (shape a) (ravel new idx))).

Fixpoint insert_at {X} (k : nat) (x : X) (l : list X) : list X :=
  match k, l with
  | 0, _ => x :: l
  | S k', y :: l' => y :: insert_at k' x l'
  | S _, [] => [x]
  end.
Fixpoint remove_at {X} (k : nat) (l : list X) : list X :=
  match k, l with
  | _, [] => []
  | 0, _ :: l' => l'
  | S k', y :: l' => y :: remove_at k' l'
  end.

(** np.moveaxis(x, s, d) for single ints: result axes = input axes without s, with s
    re-inserted at position d; result[idx] = x[idx without position d, with idx[d]
    inserted at position s]. *)
Definition moveaxis {A} (s d : nat) (a : arr A) : arr A :=
  mkarr (insert_at d (nth s (shape a) 0) (remove_at s (shape a)))
        (fun idx => get a (insert_at s (nth d idx 0) (remove_at d idx))).

(** np.transpose(x, perm): result axis i is input axis perm[i] *)
Fixpoint set_nth {X} (k : nat) (x : X) (l : list X) : list X :=
  match k, l with
  | _, [] => []
  | 0, _ :: l' => x :: l'
  | S k', y :: l' => y :: set_nth k' x l'
  end.
Definition transpose {A} (perm : list nat) (a : arr A) : arr A :=
  mkarr (map (fun p => nth p (shape a) 0) perm)
        (fun idx => get a (fold_left (fun acc pi => set_nth (fst pi) (snd pi) acc)
                                      (combine perm idx) (map (fun _ => 0) perm))).
Definition swapaxes {A} (i j : nat) (a : arr A) : arr A :=
  let r := length (shape a) in
  transpose (map (fun k => if k =? i then j else if k =? j then i else k) (seq 0 r)) a.

(** x[..., :m1, :m2]: leading slices of the last two axes keep the indices *)
Fixpoint set_last2 (m1 m2 : nat) (l : list nat) : list nat :=
  match l with
  | [_; _] => [m1; m2]
  | x :: l' => x :: set_last2 m1 m2 l'
  | [] => []
  end.
Definition trunc_last2 {A} (m1 m2 : nat) (a : arr A) : arr A :=
  mkarr (set_last2 (Nat.min m1 (nth (length (shape a) - 2) (shape a) 0))
                   (Nat.min m2 (nth (length (shape a) - 1) (shape a) 0)) (shape a))
        (get a).

(** np.array(np.meshgrid(u, v, indexing="ij")): shape (2, |u|, |v|), [0,a,b] = u[a],
    [1,a,b] = v[b]; with indexing="xy" the shape is (2, |v|, |u|), [0,a,b] = u[b] *)
Definition meshgrid2 {X} (ij : bool) (nu nv : nat) (u v : nat -> X) (d : X) : arr X :=
  if ij then
    mkarr [2; nu; nv] (fun idx => match idx with
                                  | [0; a; _] => u a | [1; _; b] => v b | _ => d end)
  else
    mkarr [2; nv; nu] (fun idx => match idx with
                                  | [0; _; b] => u b | [1; a; _] => v a | _ => d end).

(** ** executable form: arrays as flat C-order lists *)
Definition of_list {A} (d : A) (sh : list nat) (data : list A) : arr A :=
  mkarr sh (fun idx => nth (ravel sh idx) data d).
Definition to_list {A} (a : arr A) : list A :=
  map (fun k => get a (unravel (shape a) k)) (seq 0 (prod (shape a))).

Lemma to_list_of_list {A} (d : A) sh data : length data = prod sh ->
  to_list (of_list d sh data) = data.
Proof.
  intros Hl. unfold to_list, of_list; cbn [shape get].
  apply nth_ext with (d := d) (d' := d).
  - rewrite map_length, seq_length. symmetry; exact Hl.
  - intros k Hk. rewrite map_length, seq_length in Hk.
    rewrite (nth_indep _ d (get (mkarr sh (fun idx => nth (ravel sh idx) data d)) (unravel sh 0)))
      by (rewrite map_length, seq_length; exact Hk).
    rewrite map_nth with (d := 0). rewrite seq_nth by exact Hk. cbn.
    destruct (ravel_unravel sh k Hk) as [E _]. rewrite E. reflexivity.
Qed.

(** finite sums  sum_{i<n} g i  over a commutative semiring given by its operations
    (instantiated with R in the Props file) *)
Section Sums.
  Variable T : Type.
  Variable zero : T.
  Variable add : T -> T -> T.
  Fixpoint sumn (n : nat) (g : nat -> T) : T :=
    match n with 0 => zero | S m => add (sumn m g) (g m) end.
End Sums.
