(** Piecewise equation of state: tabulated pressure -f(T) on [a,b], template-model
    extrapolation  p = A T^mu / 3 - eps  below a and above b.  Repo independent: the
    generated model of Thermodynamics is shown (in Props/C10.v) to be pointwise equal to
    an instance of this template, and the coefficients computed by the generated
    setExtrapolate to satisfy [matched]. *)
From Coq Require Import Reals Lra.
Local Open Scope R_scope.

(** * Small real-analysis toolkit *)
Lemma Rpower_minus_1 a m : 0 < a -> Rpower a (m - 1) = Rpower a m / a.
Proof.
  intro Ha. unfold Rminus. rewrite Rpower_plus, Rpower_Ropp, Rpower_1 by exact Ha.
  reflexivity.
Qed.
Lemma Rpower_minus_2 a m : 0 < a -> Rpower a (m - 2) = Rpower a m / (a * a).
Proof.
  intro Ha. replace (m - 2) with ((m - 1) - 1) by ring.
  rewrite !Rpower_minus_1 by exact Ha. field. lra.
Qed.
Lemma Rpower_pos a m : 0 < Rpower a m.
Proof. unfold Rpower. apply exp_pos. Qed.

(** f agrees with g on an open neighbourhood of x *)
Definition locally_eq (f g : R -> R) (x : R) : Prop :=
  exists d, 0 < d /\ forall y, Rabs (y - x) < d -> f y = g y.

Lemma derivable_pt_lim_locally_ext f g x l :
  locally_eq f g x -> derivable_pt_lim g x l -> derivable_pt_lim f x l.
Proof.
  intros [d [Hd Heq]] Hg eps Heps.
  destruct (Hg eps Heps) as [delta Hdelta].
  assert (Hm : 0 < Rmin d delta) by (apply Rmin_pos; [exact Hd|apply cond_pos]).
  exists (mkposreal _ Hm). intros h Hh0 Hh. simpl in Hh.
  rewrite (Heq (x + h)), (Heq x).
  - apply Hdelta; [exact Hh0|]. eapply Rlt_le_trans; [exact Hh|apply Rmin_r].
  - replace (x - x) with 0 by ring. rewrite Rabs_R0. exact Hd.
  - replace (x + h - x) with h by ring. eapply Rlt_le_trans; [exact Hh|apply Rmin_l].
Qed.

Lemma continuity_pt_locally_ext f g x :
  locally_eq f g x -> continuity_pt g x -> continuity_pt f x.
Proof.
  intros [d [Hd Heq]] Hg eps Heps.
  destruct (Hg eps Heps) as [alp [Halp H]].
  exists (Rmin d alp). split; [apply Rmin_pos; assumption|].
  intros y [Hy1 Hy2]. unfold dist in *; simpl in *; unfold R_dist in *.
  rewrite (Heq y), (Heq x).
  - apply H. split; [exact Hy1|]. eapply Rlt_le_trans; [exact Hy2|apply Rmin_r].
  - replace (x - x) with 0 by ring. rewrite Rabs_R0. exact Hd.
  - eapply Rlt_le_trans; [exact Hy2|apply Rmin_l].
Qed.

(** gluing two continuous pieces that agree at the junction *)
Lemma continuity_pt_glue f g h x :
  (forall y, y < x -> f y = g y) -> (exists d, 0 < d /\ forall y, x <= y < x + d -> f y = h y) ->
  g x = h x -> continuity_pt g x -> continuity_pt h x -> continuity_pt f x.
Proof.
  intros Hl [d [Hd Hr]] Hjoin Hg Hh eps Heps.
  destruct (Hg eps Heps) as [a1 [Ha1 H1]]. destruct (Hh eps Heps) as [a2 [Ha2 H2]].
  exists (Rmin d (Rmin a1 a2)). split; [repeat apply Rmin_pos; assumption|].
  intros y [Hy1 Hy2]. unfold dist in *; simpl in *; unfold R_dist in *.
  assert (Hfx : f x = h x) by (apply Hr; lra).
  assert (Hd1 : Rabs (y - x) < d) by (eapply Rlt_le_trans; [exact Hy2|apply Rmin_l]).
  assert (Hd2 : Rabs (y - x) < a1).
  { eapply Rlt_le_trans; [exact Hy2|]. eapply Rle_trans; [apply Rmin_r|apply Rmin_l]. }
  assert (Hd3 : Rabs (y - x) < a2).
  { eapply Rlt_le_trans; [exact Hy2|]. eapply Rle_trans; [apply Rmin_r|apply Rmin_r]. }
  destruct (Rlt_dec y x) as [Hlt|Hge].
  - rewrite (Hl y Hlt), Hfx, <- Hjoin. apply H1. split; [exact Hy1|exact Hd2].
  - assert (Hyx : x <= y) by lra.
    rewrite (Hr y), Hfx.
    + apply H2. split; [exact Hy1|exact Hd3].
    + split; [exact Hyx|]. apply Rabs_def2 in Hd1. lra.
Qed.

(** gluing two differentiable pieces with equal value and derivative at the junction *)
Lemma derivable_pt_lim_glue f g h x l :
  (forall y, y < x -> f y = g y) -> (exists d, 0 < d /\ forall y, x <= y < x + d -> f y = h y) ->
  g x = h x -> derivable_pt_lim g x l -> derivable_pt_lim h x l -> derivable_pt_lim f x l.
Proof.
  intros Hl [d [Hd Hr]] Hjoin Hg Hh eps Heps.
  destruct (Hg eps Heps) as [d1 H1]. destruct (Hh eps Heps) as [d2 H2].
  assert (Hm : 0 < Rmin d (Rmin d1 d2)).
  { apply Rmin_pos; [exact Hd|]. apply Rmin_pos; apply cond_pos. }
  exists (mkposreal _ Hm). intros k Hk0 Hk. simpl in Hk.
  assert (Hk1 : Rabs k < d) by (eapply Rlt_le_trans; [exact Hk|apply Rmin_l]).
  assert (Hk2 : Rabs k < d1).
  { eapply Rlt_le_trans; [exact Hk|]. eapply Rle_trans; [apply Rmin_r|apply Rmin_l]. }
  assert (Hk3 : Rabs k < d2).
  { eapply Rlt_le_trans; [exact Hk|]. eapply Rle_trans; [apply Rmin_r|apply Rmin_r]. }
  assert (Hfx : f x = h x) by (apply Hr; lra).
  destruct (Rlt_dec k 0) as [Hneg|Hpos].
  - rewrite (Hl (x + k)) by lra. rewrite Hfx, <- Hjoin. apply H1; assumption.
  - rewrite (Hr (x + k)), Hfx.
    + apply H2; assumption.
    + apply Rabs_def2 in Hk1. lra.
Qed.

Lemma derivable_pt_lim_glue_r f g h x l :
  (forall y, x < y -> f y = g y) -> (exists d, 0 < d /\ forall y, x - d < y <= x -> f y = h y) ->
  g x = h x -> derivable_pt_lim g x l -> derivable_pt_lim h x l -> derivable_pt_lim f x l.
Proof.
  intros Hl [d [Hd Hr]] Hjoin Hg Hh eps Heps.
  destruct (Hg eps Heps) as [d1 H1]. destruct (Hh eps Heps) as [d2 H2].
  assert (Hm : 0 < Rmin d (Rmin d1 d2)).
  { apply Rmin_pos; [exact Hd|]. apply Rmin_pos; apply cond_pos. }
  exists (mkposreal _ Hm). intros k Hk0 Hk. simpl in Hk.
  assert (Hk1 : Rabs k < d) by (eapply Rlt_le_trans; [exact Hk|apply Rmin_l]).
  assert (Hk2 : Rabs k < d1).
  { eapply Rlt_le_trans; [exact Hk|]. eapply Rle_trans; [apply Rmin_r|apply Rmin_l]. }
  assert (Hk3 : Rabs k < d2).
  { eapply Rlt_le_trans; [exact Hk|]. eapply Rle_trans; [apply Rmin_r|apply Rmin_r]. }
  assert (Hfx : f x = h x) by (apply Hr; lra).
  destruct (Rlt_dec 0 k) as [Hpos|Hneg].
  - rewrite (Hl (x + k)) by lra. rewrite Hfx, <- Hjoin. apply H1; assumption.
  - rewrite (Hr (x + k)), Hfx.
    + apply H2; assumption.
    + apply Rabs_def2 in Hk1. lra.
Qed.

(** derivative of  c * T^m - e  *)
Lemma derivable_pt_lim_template c m e T :
  0 < T -> derivable_pt_lim (fun t => c * Rpower t m - e) T (c * (m * Rpower T (m - 1))).
Proof.
  intro HT.
  replace (c * (m * Rpower T (m - 1))) with (c * (m * Rpower T (m - 1)) - 0) by ring.
  apply derivable_pt_lim_minus; [|apply derivable_pt_lim_const].
  apply derivable_pt_lim_scal. apply derivable_pt_lim_power. exact HT.
Qed.

Lemma continuity_pt_template c m e T : 0 < T -> continuity_pt (fun t => c * Rpower t m - e) T.
Proof.
  intro HT. apply derivable_continuous_pt.
  exists (c * (m * Rpower T (m - 1))). apply derivable_pt_lim_template. exact HT.
Qed.

(** * The template *)
Section Template.
Variables a b : R.                       (* tabulated range *)
Variables f df ddf : R -> R.             (* free energy table and its derivatives *)
Variables muL AL epsL muH AH epsH : R.   (* extrapolation coefficients *)

Definition P (T : R) : R :=
  if Rlt_dec T a then 1 / 3 * AL * Rpower T muL - epsL
  else if Rlt_dec b T then 1 / 3 * AH * Rpower T muH - epsH else - f T.
Definition DP (T : R) : R :=
  if Rlt_dec T a then 1 / 3 * muL * AL * Rpower T (muL - 1)
  else if Rlt_dec b T then 1 / 3 * muH * AH * Rpower T (muH - 1) else - df T.
Definition DDP (T : R) : R :=
  if Rlt_dec T a then 1 / 3 * muL * (muL - 1) * AL * Rpower T (muL - 2)
  else if Rlt_dec b T then 1 / 3 * muH * (muH - 1) * AH * Rpower T (muH - 2) else - ddf T.
Definition E (T : R) : R := T * DP T - P T.
Definition DE (T : R) : R := T * DDP T.
Definition W (T : R) : R := T * DP T.
Definition CSQ (T : R) : R :=
  if Rlt_dec T a then DP a / DE a else if Rlt_dec b T then DP b / DE b else DP T / DE T.

(** what setExtrapolate is meant to establish at the end point [x] (x = a or x = b) *)
Definition matched (x mu A eps : R) : Prop :=
  mu = 1 + 1 / ((- df x) / (x * (- ddf x))) /\
  A = 3 * (x * (- df x)) / (mu * Rpower x mu) /\
  eps = 1 / 3 * A * Rpower x mu - (- f x).

Hypothesis Hab : a <= b.
Hypothesis Ha : 0 < a.

Lemma in_range T : a <= T <= b -> P T = - f T /\ DP T = - df T /\ DDP T = - ddf T.
Proof.
  intros [H1 H2]. unfold P, DP, DDP.
  destruct (Rlt_dec T a); [lra|]. destruct (Rlt_dec b T); [lra|]. auto.
Qed.

(** thermodynamic identities hold by construction at every temperature *)
Lemma e_w_de T : E T = T * DP T - P T /\ W T = T * DP T /\ DE T = T * DDP T.
Proof. auto. Qed.

Section Ends.
(** x is an end of the range, with positive enthalpy and heat capacity there *)
Variables x mu A eps : R.
Hypothesis Hx : a <= x <= b.
Hypothesis Hdf : df x < 0.          (* w = -T f' > 0 *)
Hypothesis Hddf : ddf x < 0.        (* de/dT = -T f'' > 0 *)
Hypothesis HM : matched x mu A eps.

Let cs := (- df x) / (x * (- ddf x)).
Lemma x_pos : 0 < x. Proof. lra. Qed.
Lemma cs_pos : 0 < cs.
Proof. unfold cs. apply Rdiv_lt_0_compat; [lra|]. apply Rmult_lt_0_compat; [exact x_pos|lra]. Qed.
Lemma mu_val : mu = 1 + 1 / cs. Proof. destruct HM as [H _]. exact H. Qed.
Lemma mu_gt1 : 1 < mu.
Proof. rewrite mu_val. pose proof cs_pos. assert (0 < 1 / cs) by (apply Rdiv_lt_0_compat; lra). lra. Qed.

Lemma join_p : 1 / 3 * A * Rpower x mu - eps = - f x.
Proof. destruct HM as [_ [_ He]]. rewrite He. ring. Qed.

Lemma join_dp : 1 / 3 * mu * A * Rpower x (mu - 1) = - df x.
Proof.
  destruct HM as [_ [HA _]]. pose proof x_pos. pose proof mu_gt1. pose proof (Rpower_pos x mu).
  rewrite Rpower_minus_1 by assumption. rewrite HA. field. split; lra.
Qed.

Lemma join_ddp : 1 / 3 * mu * (mu - 1) * A * Rpower x (mu - 2) = - ddf x.
Proof.
  destruct HM as [_ [HA _]]. pose proof x_pos. pose proof mu_gt1. pose proof (Rpower_pos x mu).
  rewrite Rpower_minus_2 by assumption. rewrite HA.
  replace (mu - 1) with (1 / cs) by (rewrite mu_val; ring). unfold cs. field.
  repeat split; lra.
Qed.

(** in the extrapolated region dp/de is the constant 1/(mu-1) = c_s^2 at the end point *)
Lemma csq_ext T : 0 < T ->
  (1 / 3 * mu * A * Rpower T (mu - 1)) / (T * (1 / 3 * mu * (mu - 1) * A * Rpower T (mu - 2)))
  = (- df x) / (x * (- ddf x)).
Proof.
  intro HT. destruct HM as [_ [HA _]]. pose proof x_pos. pose proof mu_gt1.
  pose proof (Rpower_pos x mu). pose proof (Rpower_pos T mu).
  assert (HAne : A <> 0).
  { rewrite HA. apply Rgt_not_eq. apply Rdiv_lt_0_compat.
    - apply Rmult_lt_0_compat; [lra|]. apply Rmult_lt_0_compat; lra.
    - apply Rmult_lt_0_compat; lra. }
  rewrite Rpower_minus_1, Rpower_minus_2 by assumption.
  transitivity (1 / (mu - 1)); [field; repeat split; lra|].
  replace (mu - 1) with (1 / cs) by (rewrite mu_val; ring). unfold cs. field.
  repeat split; lra.
Qed.
End Ends.

(** ** Lower end of the range *)
Section Lower.
Hypothesis Hlt : a < b.
Hypothesis Hdf : df a < 0.
Hypothesis Hddf : ddf a < 0.
Hypothesis HM : matched a muL AL epsL.
Let Hxa : a <= a <= b. Proof. lra. Qed.

Lemma P_cont_lo : continuity_pt f a -> continuity_pt P a.
Proof.
  intro Hf.
  apply (continuity_pt_glue P (fun t => 1 / 3 * AL * Rpower t muL - epsL) (fun t => - f t)).
  - intros y Hy. unfold P. destruct (Rlt_dec y a); [reflexivity|lra].
  - exists (b - a). split; [lra|]. intros y Hy. unfold P.
    destruct (Rlt_dec y a); [lra|]. destruct (Rlt_dec b y); [lra|reflexivity].
  - apply (join_p a muL AL epsL HM).
  - apply continuity_pt_template. exact Ha.
  - apply continuity_pt_opp. exact Hf.
Qed.

Lemma DP_cont_lo : continuity_pt df a -> continuity_pt DP a.
Proof.
  intro Hf.
  apply (continuity_pt_glue DP (fun t => 1 / 3 * muL * AL * Rpower t (muL - 1) - 0) (fun t => - df t)).
  - intros y Hy. unfold DP. destruct (Rlt_dec y a); [ring|lra].
  - exists (b - a). split; [lra|]. intros y Hy. unfold DP.
    destruct (Rlt_dec y a); [lra|]. destruct (Rlt_dec b y); [lra|reflexivity].
  - rewrite (join_dp a muL AL epsL Hxa Hdf Hddf HM). ring.
  - apply continuity_pt_template. exact Ha.
  - apply continuity_pt_opp. exact Hf.
Qed.

Lemma DDP_cont_lo : continuity_pt ddf a -> continuity_pt DDP a.
Proof.
  intro Hf.
  apply (continuity_pt_glue DDP (fun t => 1 / 3 * muL * (muL - 1) * AL * Rpower t (muL - 2) - 0)
                            (fun t => - ddf t)).
  - intros y Hy. unfold DDP. destruct (Rlt_dec y a); [ring|lra].
  - exists (b - a). split; [lra|]. intros y Hy. unfold DDP.
    destruct (Rlt_dec y a); [lra|]. destruct (Rlt_dec b y); [lra|reflexivity].
  - rewrite (join_ddp a muL AL epsL Hxa Hdf Hddf HM). ring.
  - apply continuity_pt_template. exact Ha.
  - apply continuity_pt_opp. exact Hf.
Qed.

(** the sound speed is constant below the range, equal to its value at the end: no jump *)
Lemma CSQ_lo T : T < a -> CSQ T = CSQ a.
Proof.
  intro HT. unfold CSQ. destruct (Rlt_dec T a); [|lra].
  destruct (Rlt_dec a a); [lra|]. destruct (Rlt_dec b a); [lra|reflexivity].
Qed.

(** ... and equals (dp/dT)/(de/dT) of the extrapolated pressure *)
Lemma CSQ_consistent_lo T : 0 < T -> T < a -> DP T / DE T = CSQ T.
Proof.
  intros H0 HT. rewrite (CSQ_lo T HT). unfold CSQ, DE.
  destruct (Rlt_dec a a); [lra|]. destruct (Rlt_dec b a); [lra|].
  destruct (in_range a Hxa) as [_ [H1 H2]]. rewrite H1, H2.
  unfold DP, DDP. destruct (Rlt_dec T a); [|lra].
  apply (csq_ext a muL AL epsL Hxa Hdf Hddf HM T H0).
Qed.

(** the sound speed itself is continuous at the lower end (needs df, ddf continuous there) *)
Lemma ratio_cont x : 0 < x -> ddf x < 0 -> continuity_pt df x -> continuity_pt ddf x ->
  continuity_pt (fun t => (- df t) / (t * - ddf t)) x.
Proof.
  intros Hx Hd C1 C2.
  apply (continuity_pt_div (fun t => - df t) (fun t => t * - ddf t)).
  - apply continuity_pt_opp. exact C1.
  - apply (continuity_pt_mult (fun t => t) (fun t => - ddf t)).
    + apply derivable_continuous_pt. apply derivable_pt_id.
    + apply continuity_pt_opp. exact C2.
  - apply Rgt_not_eq. apply Rmult_lt_0_compat; lra.
Qed.

Lemma CSQ_cont_lo : continuity_pt df a -> continuity_pt ddf a -> continuity_pt CSQ a.
Proof.
  intros C1 C2.
  apply (continuity_pt_glue CSQ (fun _ => DP a / DE a) (fun t => (- df t) / (t * - ddf t))).
  - intros y Hy. unfold CSQ. destruct (Rlt_dec y a); [reflexivity|lra].
  - exists (b - a). split; [lra|]. intros y Hy. unfold CSQ, DE.
    destruct (Rlt_dec y a); [lra|]. destruct (Rlt_dec b y); [lra|].
    assert (Hy' : a <= y <= b) by lra.
    destruct (in_range y Hy') as [_ [H1 H2]]. rewrite H1, H2. reflexivity.
  - unfold DE. destruct (in_range a Hxa) as [_ [H1 H2]]. rewrite H1, H2. reflexivity.
  - apply continuity_pt_const. intros u v. reflexivity.
  - apply ratio_cont; assumption.
Qed.

Lemma P_deriv_lo T : 0 < T -> T < a -> derivable_pt_lim P T (DP T).
Proof.
  intros H0 HT.
  apply (derivable_pt_lim_locally_ext P (fun t => 1 / 3 * AL * Rpower t muL - epsL)).
  - exists (a - T). split; [lra|]. intros y Hy. apply Rabs_def2 in Hy. unfold P.
    destruct (Rlt_dec y a); [reflexivity|lra].
  - replace (DP T) with (1 / 3 * AL * (muL * Rpower T (muL - 1))).
    + apply derivable_pt_lim_template. exact H0.
    + unfold DP. destruct (Rlt_dec T a); [ring|lra].
Qed.

Lemma DP_deriv_lo T : 0 < T -> T < a -> derivable_pt_lim DP T (DDP T).
Proof.
  intros H0 HT.
  apply (derivable_pt_lim_locally_ext DP (fun t => 1 / 3 * muL * AL * Rpower t (muL - 1) - 0)).
  - exists (a - T). split; [lra|]. intros y Hy. apply Rabs_def2 in Hy. unfold DP.
    destruct (Rlt_dec y a); [ring|lra].
  - replace (DDP T) with (1 / 3 * muL * AL * ((muL - 1) * Rpower T (muL - 1 - 1))).
    + apply derivable_pt_lim_template. exact H0.
    + unfold DDP. destruct (Rlt_dec T a); [|lra].
      replace (muL - 1 - 1) with (muL - 2) by ring. ring.
Qed.

(** differentiability AT the lower junction (given the table is differentiable there) *)
Lemma P_deriv_at_lo : derivable_pt_lim f a (df a) -> derivable_pt_lim P a (DP a).
Proof.
  intro Hf. destruct (in_range a Hxa) as [_ [Hdp _]]. rewrite Hdp.
  apply (derivable_pt_lim_glue P (fun t => 1 / 3 * AL * Rpower t muL - epsL) (fun t => - f t)).
  - intros y Hy. unfold P. destruct (Rlt_dec y a); [reflexivity|lra].
  - exists (b - a). split; [lra|]. intros y Hy. unfold P.
    destruct (Rlt_dec y a); [lra|]. destruct (Rlt_dec b y); [lra|reflexivity].
  - apply (join_p a muL AL epsL HM).
  - replace (- df a) with (1 / 3 * AL * (muL * Rpower a (muL - 1))).
    + apply derivable_pt_lim_template. exact Ha.
    + rewrite <- (join_dp a muL AL epsL Hxa Hdf Hddf HM). ring.
  - apply derivable_pt_lim_opp. exact Hf.
Qed.

Lemma DP_deriv_at_lo : derivable_pt_lim df a (ddf a) -> derivable_pt_lim DP a (DDP a).
Proof.
  intro Hf. destruct (in_range a Hxa) as [_ [_ Hddp]]. rewrite Hddp.
  apply (derivable_pt_lim_glue DP (fun t => 1 / 3 * muL * AL * Rpower t (muL - 1) - 0) (fun t => - df t)).
  - intros y Hy. unfold DP. destruct (Rlt_dec y a); [ring|lra].
  - exists (b - a). split; [lra|]. intros y Hy. unfold DP.
    destruct (Rlt_dec y a); [lra|]. destruct (Rlt_dec b y); [lra|reflexivity].
  - rewrite (join_dp a muL AL epsL Hxa Hdf Hddf HM). ring.
  - replace (- ddf a) with (1 / 3 * muL * AL * ((muL - 1) * Rpower a (muL - 1 - 1))).
    + apply derivable_pt_lim_template. exact Ha.
    + rewrite <- (join_ddp a muL AL epsL Hxa Hdf Hddf HM).
      replace (muL - 1 - 1) with (muL - 2) by ring. ring.
  - apply derivable_pt_lim_opp. exact Hf.
Qed.
End Lower.

(** ** Upper end of the range *)
Lemma continuity_pt_glue_r f0 g h x :
  (forall y, x < y -> f0 y = g y) -> (exists d, 0 < d /\ forall y, x - d < y <= x -> f0 y = h y) ->
  g x = h x -> continuity_pt g x -> continuity_pt h x -> continuity_pt f0 x.
Proof.
  intros Hl [d [Hd Hr]] Hjoin Hg Hh eps Heps.
  destruct (Hg eps Heps) as [a1 [Ha1 H1]]. destruct (Hh eps Heps) as [a2 [Ha2 H2]].
  exists (Rmin d (Rmin a1 a2)). split; [repeat apply Rmin_pos; assumption|].
  intros y [Hy1 Hy2]. unfold dist in *; simpl in *; unfold R_dist in *.
  assert (Hfx : f0 x = h x) by (apply Hr; lra).
  assert (Hd1 : Rabs (y - x) < d) by (eapply Rlt_le_trans; [exact Hy2|apply Rmin_l]).
  assert (Hd2 : Rabs (y - x) < a1).
  { eapply Rlt_le_trans; [exact Hy2|]. eapply Rle_trans; [apply Rmin_r|apply Rmin_l]. }
  assert (Hd3 : Rabs (y - x) < a2).
  { eapply Rlt_le_trans; [exact Hy2|]. eapply Rle_trans; [apply Rmin_r|apply Rmin_r]. }
  destruct (Rlt_dec x y) as [Hlt|Hge].
  - rewrite (Hl y Hlt), Hfx, <- Hjoin. apply H1. split; [exact Hy1|exact Hd2].
  - assert (Hyx : y <= x) by lra.
    rewrite (Hr y), Hfx.
    + apply H2. split; [exact Hy1|exact Hd3].
    + split; [|exact Hyx]. apply Rabs_def2 in Hd1. lra.
Qed.

Section Upper.
Hypothesis Hlt : a < b.
Hypothesis Hdf : df b < 0.
Hypothesis Hddf : ddf b < 0.
Hypothesis HM : matched b muH AH epsH.
Let Hxb : a <= b <= b. Proof. lra. Qed.
Let Hb : 0 < b. Proof. lra. Qed.

Lemma P_cont_hi : continuity_pt f b -> continuity_pt P b.
Proof.
  intro Hf.
  apply (continuity_pt_glue_r P (fun t => 1 / 3 * AH * Rpower t muH - epsH) (fun t => - f t)).
  - intros y Hy. unfold P. destruct (Rlt_dec y a); [lra|]. destruct (Rlt_dec b y); [reflexivity|lra].
  - exists (b - a). split; [lra|]. intros y Hy. unfold P.
    destruct (Rlt_dec y a); [lra|]. destruct (Rlt_dec b y); [lra|reflexivity].
  - apply (join_p b muH AH epsH HM).
  - apply continuity_pt_template. exact Hb.
  - apply continuity_pt_opp. exact Hf.
Qed.

Lemma DP_cont_hi : continuity_pt df b -> continuity_pt DP b.
Proof.
  intro Hf.
  apply (continuity_pt_glue_r DP (fun t => 1 / 3 * muH * AH * Rpower t (muH - 1) - 0) (fun t => - df t)).
  - intros y Hy. unfold DP. destruct (Rlt_dec y a); [lra|]. destruct (Rlt_dec b y); [ring|lra].
  - exists (b - a). split; [lra|]. intros y Hy. unfold DP.
    destruct (Rlt_dec y a); [lra|]. destruct (Rlt_dec b y); [lra|reflexivity].
  - rewrite (join_dp b muH AH epsH Hxb Hdf Hddf HM). ring.
  - apply continuity_pt_template. exact Hb.
  - apply continuity_pt_opp. exact Hf.
Qed.

Lemma DDP_cont_hi : continuity_pt ddf b -> continuity_pt DDP b.
Proof.
  intro Hf.
  apply (continuity_pt_glue_r DDP (fun t => 1 / 3 * muH * (muH - 1) * AH * Rpower t (muH - 2) - 0)
                              (fun t => - ddf t)).
  - intros y Hy. unfold DDP. destruct (Rlt_dec y a); [lra|]. destruct (Rlt_dec b y); [ring|lra].
  - exists (b - a). split; [lra|]. intros y Hy. unfold DDP.
    destruct (Rlt_dec y a); [lra|]. destruct (Rlt_dec b y); [lra|reflexivity].
  - rewrite (join_ddp b muH AH epsH Hxb Hdf Hddf HM). ring.
  - apply continuity_pt_template. exact Hb.
  - apply continuity_pt_opp. exact Hf.
Qed.

Lemma CSQ_hi T : b < T -> CSQ T = CSQ b.
Proof.
  intro HT. unfold CSQ. destruct (Rlt_dec T a); [lra|]. destruct (Rlt_dec b T); [|lra].
  destruct (Rlt_dec b a); [lra|]. destruct (Rlt_dec b b); [lra|reflexivity].
Qed.

Lemma CSQ_consistent_hi T : b < T -> DP T / DE T = CSQ T.
Proof.
  intros HT. assert (H0 : 0 < T) by lra. rewrite (CSQ_hi T HT). unfold CSQ, DE.
  destruct (Rlt_dec b a); [lra|]. destruct (Rlt_dec b b); [lra|].
  destruct (in_range b Hxb) as [_ [H1 H2]]. rewrite H1, H2.
  unfold DP, DDP. destruct (Rlt_dec T a); [lra|]. destruct (Rlt_dec b T); [|lra].
  apply (csq_ext b muH AH epsH Hxb Hdf Hddf HM T H0).
Qed.

Lemma CSQ_cont_hi : continuity_pt df b -> continuity_pt ddf b -> continuity_pt CSQ b.
Proof.
  intros C1 C2.
  apply (continuity_pt_glue_r CSQ (fun _ => DP b / DE b) (fun t => (- df t) / (t * - ddf t))).
  - intros y Hy. unfold CSQ. destruct (Rlt_dec y a); [lra|]. destruct (Rlt_dec b y); [reflexivity|lra].
  - exists (b - a). split; [lra|]. intros y Hy. unfold CSQ, DE.
    destruct (Rlt_dec y a); [lra|]. destruct (Rlt_dec b y); [lra|].
    assert (Hy' : a <= y <= b) by lra.
    destruct (in_range y Hy') as [_ [H1 H2]]. rewrite H1, H2. reflexivity.
  - unfold DE. destruct (in_range b Hxb) as [_ [H1 H2]]. rewrite H1, H2. reflexivity.
  - apply continuity_pt_const. intros u v. reflexivity.
  - apply ratio_cont; [lra|assumption..].
Qed.

Lemma P_deriv_hi T : b < T -> derivable_pt_lim P T (DP T).
Proof.
  intros HT. assert (H0 : 0 < T) by lra.
  apply (derivable_pt_lim_locally_ext P (fun t => 1 / 3 * AH * Rpower t muH - epsH)).
  - exists (T - b). split; [lra|]. intros y Hy. apply Rabs_def2 in Hy. unfold P.
    destruct (Rlt_dec y a); [lra|]. destruct (Rlt_dec b y); [reflexivity|lra].
  - replace (DP T) with (1 / 3 * AH * (muH * Rpower T (muH - 1))).
    + apply derivable_pt_lim_template. exact H0.
    + unfold DP. destruct (Rlt_dec T a); [lra|]. destruct (Rlt_dec b T); [ring|lra].
Qed.

Lemma DP_deriv_hi T : b < T -> derivable_pt_lim DP T (DDP T).
Proof.
  intros HT. assert (H0 : 0 < T) by lra.
  apply (derivable_pt_lim_locally_ext DP (fun t => 1 / 3 * muH * AH * Rpower t (muH - 1) - 0)).
  - exists (T - b). split; [lra|]. intros y Hy. apply Rabs_def2 in Hy. unfold DP.
    destruct (Rlt_dec y a); [lra|]. destruct (Rlt_dec b y); [ring|lra].
  - replace (DDP T) with (1 / 3 * muH * AH * ((muH - 1) * Rpower T (muH - 1 - 1))).
    + apply derivable_pt_lim_template. exact H0.
    + unfold DDP. destruct (Rlt_dec T a); [lra|]. destruct (Rlt_dec b T); [|lra].
      replace (muH - 1 - 1) with (muH - 2) by ring. ring.
Qed.

(** differentiability AT the upper junction *)
Lemma P_deriv_at_hi : derivable_pt_lim f b (df b) -> derivable_pt_lim P b (DP b).
Proof.
  intro Hf. destruct (in_range b Hxb) as [_ [Hdp _]]. rewrite Hdp.
  apply (derivable_pt_lim_glue_r P (fun t => 1 / 3 * AH * Rpower t muH - epsH) (fun t => - f t)).
  - intros y Hy. unfold P. destruct (Rlt_dec y a); [lra|]. destruct (Rlt_dec b y); [reflexivity|lra].
  - exists (b - a). split; [lra|]. intros y Hy. unfold P.
    destruct (Rlt_dec y a); [lra|]. destruct (Rlt_dec b y); [lra|reflexivity].
  - apply (join_p b muH AH epsH HM).
  - replace (- df b) with (1 / 3 * AH * (muH * Rpower b (muH - 1))).
    + apply derivable_pt_lim_template. exact Hb.
    + rewrite <- (join_dp b muH AH epsH Hxb Hdf Hddf HM). ring.
  - apply derivable_pt_lim_opp. exact Hf.
Qed.

Lemma DP_deriv_at_hi : derivable_pt_lim df b (ddf b) -> derivable_pt_lim DP b (DDP b).
Proof.
  intro Hf. destruct (in_range b Hxb) as [_ [_ Hddp]]. rewrite Hddp.
  apply (derivable_pt_lim_glue_r DP (fun t => 1 / 3 * muH * AH * Rpower t (muH - 1) - 0) (fun t => - df t)).
  - intros y Hy. unfold DP. destruct (Rlt_dec y a); [lra|]. destruct (Rlt_dec b y); [ring|lra].
  - exists (b - a). split; [lra|]. intros y Hy. unfold DP.
    destruct (Rlt_dec y a); [lra|]. destruct (Rlt_dec b y); [lra|reflexivity].
  - rewrite (join_dp b muH AH epsH Hxb Hdf Hddf HM). ring.
  - replace (- ddf b) with (1 / 3 * muH * AH * ((muH - 1) * Rpower b (muH - 1 - 1))).
    + apply derivable_pt_lim_template. exact Hb.
    + rewrite <- (join_ddp b muH AH epsH Hxb Hdf Hddf HM).
      replace (muH - 1 - 1) with (muH - 2) by ring. ring.
  - apply derivable_pt_lim_opp. exact Hf.
Qed.
End Upper.

(** ** Inside the range the reported derivatives are those of the table *)
Lemma P_deriv_in T : a < T < b -> derivable_pt_lim f T (df T) -> derivable_pt_lim P T (DP T).
Proof.
  intros [H1 H2] Hf.
  apply (derivable_pt_lim_locally_ext P (fun t => - f t)).
  - exists (Rmin (T - a) (b - T)). split; [apply Rmin_pos; lra|]. intros y Hy.
    assert (Rabs (y - T) < T - a) by (eapply Rlt_le_trans; [exact Hy|apply Rmin_l]).
    assert (Rabs (y - T) < b - T) by (eapply Rlt_le_trans; [exact Hy|apply Rmin_r]).
    repeat match goal with H : Rabs _ < _ |- _ => apply Rabs_def2 in H end.
    unfold P. destruct (Rlt_dec y a); [lra|]. destruct (Rlt_dec b y); [lra|reflexivity].
  - replace (DP T) with (- df T).
    + apply derivable_pt_lim_opp. exact Hf.
    + unfold DP. destruct (Rlt_dec T a); [lra|]. destruct (Rlt_dec b T); [lra|reflexivity].
Qed.

Lemma DP_deriv_in T : a < T < b -> derivable_pt_lim df T (ddf T) -> derivable_pt_lim DP T (DDP T).
Proof.
  intros [H1 H2] Hf.
  apply (derivable_pt_lim_locally_ext DP (fun t => - df t)).
  - exists (Rmin (T - a) (b - T)). split; [apply Rmin_pos; lra|]. intros y Hy.
    assert (Rabs (y - T) < T - a) by (eapply Rlt_le_trans; [exact Hy|apply Rmin_l]).
    assert (Rabs (y - T) < b - T) by (eapply Rlt_le_trans; [exact Hy|apply Rmin_r]).
    repeat match goal with H : Rabs _ < _ |- _ => apply Rabs_def2 in H end.
    unfold DP. destruct (Rlt_dec y a); [lra|]. destruct (Rlt_dec b y); [lra|reflexivity].
  - replace (DDP T) with (- ddf T).
    + apply derivable_pt_lim_opp. exact Hf.
    + unfold DDP. destruct (Rlt_dec T a); [lra|]. destruct (Rlt_dec b T); [lra|reflexivity].
Qed.

Lemma CSQ_in T : a <= T <= b -> CSQ T = DP T / DE T.
Proof.
  intros [H1 H2]. unfold CSQ. destruct (Rlt_dec T a); [lra|]. destruct (Rlt_dec b T); [lra|reflexivity].
Qed.
End Template.

Lemma continuity_pt_ext f g x : (forall y, f y = g y) -> continuity_pt g x -> continuity_pt f x.
Proof.
  intros H. apply continuity_pt_locally_ext. exists 1. split; [lra|]. intros; apply H.
Qed.
Lemma derivable_pt_lim_ext f g x l :
  (forall y, f y = g y) -> derivable_pt_lim g x l -> derivable_pt_lim f x l.
Proof.
  intros H. apply derivable_pt_lim_locally_ext. exists 1. split; [lra|]. intros; apply H.
Qed.

(** de/dT: the energy density T p' - p has derivative T p'' wherever p' and p'' are the
    derivatives of p and p' *)
Lemma energy_deriv (p dp : R -> R) (ddpT T : R) :
  derivable_pt_lim p T (dp T) -> derivable_pt_lim dp T ddpT ->
  derivable_pt_lim (fun t => t * dp t - p t) T (T * ddpT).
Proof.
  intros Hp Hdp.
  replace (T * ddpT) with ((1 * dp T + T * ddpT) - dp T) by ring.
  apply (derivable_pt_lim_minus (fun t => t * dp t) p).
  - apply (derivable_pt_lim_mult (fun t => t) dp); [apply derivable_pt_lim_id|exact Hdp].
  - exact Hp.
Qed.
