(** Wall-frame matching (junction) conditions and flux conservation -- repo independent.

    Across a planar wall at rest the plasma carries energy flux  w g^2 v  and momentum flux
    w g^2 v^2 + p  (w = e + p enthalpy, g^2 = 1/(1-v^2)).  WallGo does not solve these two
    conservation laws directly: it solves the *junction relations*
        v+ v- = (p+ - p-)/(e+ - e-),      v+/v- = (e- + p+)/(e+ + p-)
    (hydrodynamics.py, vpvmAndvpovm) in squared form.  This file proves that the two
    formulations are equivalent, that the squared form has no spurious roots under the
    stated sign conditions, and gives the explicit bound by which a small residual of the
    squared relations bounds the flux mismatch.  Props/C02.v instantiates it with the
    definitions generated from the source. *)
From Coq Require Import Reals Lra Nsatz Psatz.
Local Open Scope R_scope.

Definition g2 (v : R) : R := 1 / (1 - v * v).
Definition eflux (w v : R) : R := w * g2 v * v.
Definition mflux (w p v : R) : R := w * g2 v * (v * v) + p.

(** the junction relations, with the enthalpies eliminated through w = e + p *)
Definition junction (pp pm ep em vp vm : R) : Prop :=
  vp * vm = (pp - pm) / (ep - em) /\ vp / vm = (em + pp) / (ep + pm).

Lemma Rabs_le_both x d : Rabs x <= d -> - d <= x <= d.
Proof.
  intro H. unfold Rabs in H. destruct (Rcase_abs x); lra.
Qed.

Lemma lin_comb_bound x y a b d :
  Rabs x <= d -> Rabs y <= d -> 0 <= a <= 2 -> 0 <= b <= 2 -> Rabs (x * a - y * b) <= 4 * d.
Proof.
  intros Hx Hy Ha Hb. apply Rabs_le_both in Hx. apply Rabs_le_both in Hy.
  assert (Hd : 0 <= d) by lra.
  assert (X1 : x * a <= d * 2).
  { apply Rle_trans with (d * a); [apply Rmult_le_compat_r; lra|apply Rmult_le_compat_l; lra]. }
  assert (X2 : - (d * 2) <= x * a).
  { apply Rle_trans with (- d * a); [|apply Rmult_le_compat_r; lra].
    replace (- (d * 2)) with (- d * 2) by ring.
    apply Rmult_le_compat_neg_l; lra. }
  assert (Y1 : y * b <= d * 2).
  { apply Rle_trans with (d * b); [apply Rmult_le_compat_r; lra|apply Rmult_le_compat_l; lra]. }
  assert (Y2 : - (d * 2) <= y * b).
  { apply Rle_trans with (- d * b); [|apply Rmult_le_compat_r; lra].
    replace (- (d * 2)) with (- d * 2) by ring.
    apply Rmult_le_compat_neg_l; lra. }
  apply Rabs_le. lra.
Qed.

(** * Polynomial cores (contexts WITHOUT inequalities: nsatz) *)
Lemma junction_flux_poly pp pm ep em vp vm :
  vp * vm * (ep - em) = pp - pm ->
  vp * (ep + pm) = vm * (em + pp) ->
  (ep + pp) * vp * (1 - vm * vm) = (em + pm) * vm * (1 - vp * vp) /\
  ((ep + pp) * (vp * vp) + pp * (1 - vp * vp)) * (1 - vm * vm) =
  ((em + pm) * (vm * vm) + pm * (1 - vm * vm)) * (1 - vp * vp).
Proof. intros H1 H2. split; nsatz. Qed.

Lemma flux_junction_poly pp pm ep em vp vm A :
  (ep + pp) * vp = A * (1 - vp * vp) ->
  (em + pm) * vm = A * (1 - vm * vm) ->
  A * vp + pp = A * vm + pm ->
  vp * vm * (vp * vm * (ep - em) - (pp - pm)) = 0 /\
  vp * (ep + pm) - vm * (em + pp) = 0.
Proof. intros H1 H2 H3. split; nsatz. Qed.

(** * Junction relations  <->  conservation of both fluxes *)
Section Junction.
Variables pp pm ep em vp vm : R.
Hypothesis Hvp : 0 < vp < 1.
Hypothesis Hvm : 0 < vm < 1.

Lemma one_minus_sq_pos v : 0 < v < 1 -> 0 < 1 - v * v.
Proof. intros [H0 H1]. nra. Qed.

Theorem junction_conserves :
  ep <> em -> ep + pm <> 0 -> junction pp pm ep em vp vm ->
  eflux (ep + pp) vp = eflux (em + pm) vm /\
  mflux (ep + pp) pp vp = mflux (em + pm) pm vm.
Proof.
  intros He Hd [J1 J2].
  assert (P1 : vp * vm * (ep - em) = pp - pm).
  { rewrite J1. field. lra. }
  assert (P2 : vp * (ep + pm) = vm * (em + pp)).
  { assert (E : vp = vp / vm * vm) by (field; lra). rewrite E, J2. field. exact Hd. }
  destruct (junction_flux_poly _ _ _ _ _ _ P1 P2) as [F1 F2].
  pose proof (one_minus_sq_pos vp Hvp) as Gp. pose proof (one_minus_sq_pos vm Hvm) as Gm.
  unfold eflux, mflux, g2. split.
  - apply Rmult_eq_reg_r with ((1 - vp * vp) * (1 - vm * vm)); [|nra].
    transitivity ((ep + pp) * vp * (1 - vm * vm)); [field; lra|].
    rewrite F1. field. lra.
  - apply Rmult_eq_reg_r with ((1 - vp * vp) * (1 - vm * vm)); [|nra].
    transitivity (((ep + pp) * (vp * vp) + pp * (1 - vp * vp)) * (1 - vm * vm)); [field; lra|].
    rewrite F2. field. lra.
Qed.

Theorem conserves_junction :
  ep <> em -> ep + pm <> 0 ->
  eflux (ep + pp) vp = eflux (em + pm) vm ->
  mflux (ep + pp) pp vp = mflux (em + pm) pm vm ->
  junction pp pm ep em vp vm.
Proof.
  intros He Hd F1 F2.
  pose proof (one_minus_sq_pos vp Hvp) as Gp. pose proof (one_minus_sq_pos vm Hvm) as Gm.
  set (A := eflux (ep + pp) vp).
  assert (A1 : (ep + pp) * vp = A * (1 - vp * vp)).
  { unfold A, eflux, g2. field. lra. }
  assert (A2 : (em + pm) * vm = A * (1 - vm * vm)).
  { unfold A. rewrite F1. unfold eflux, g2. field. lra. }
  assert (A3 : A * vp + pp = A * vm + pm).
  { unfold mflux in F2. fold (eflux (ep + pp) vp) in A.
    replace (A * vp) with ((ep + pp) * g2 vp * (vp * vp)) by (unfold A, eflux; ring).
    replace (A * vm) with ((em + pm) * g2 vm * (vm * vm)).
    - exact F2.
    - unfold A. rewrite F1. unfold eflux. ring. }
  destruct (flux_junction_poly _ _ _ _ _ _ _ A1 A2 A3) as [Q1 Q2].
  assert (Q1' : vp * vm * (ep - em) - (pp - pm) = 0).
  { apply Rmult_eq_reg_l with (vp * vm); [rewrite Q1; ring|nra]. }
  split.
  - apply Rmult_eq_reg_r with (ep - em); [|lra].
    transitivity (pp - pm); [lra|field; lra].
  - apply Rmult_eq_reg_r with (vm * (ep + pm)); [|nra].
    transitivity (vp * (ep + pm)); [field; lra|].
    transitivity (vm * (em + pp)); [lra|field; lra].
Qed.
End Junction.

(** * The squared form solved by the code has no spurious roots *)
(** the code solves  vpvm * vpovm = vp^2  and  vpvm / vpovm = vm^2 ; with vpovm > 0 (a sign
    condition on e- + p+ and e+ + p-) this gives back  vp vm = vpvm  and  vp/vm = vpovm *)
Lemma squared_relations a b vp vm :
  0 < b -> 0 < vp -> 0 < vm ->
  a * b = vp * vp -> a / b = vm * vm ->
  vp * vm = a /\ vp / vm = b.
Proof.
  intros Hb Hp Hm E1 E2.
  assert (Ha : 0 < a).
  { assert (0 < a * b) by nra. destruct (Rle_or_lt a 0); [nra|assumption]. }
  assert (E2' : a = vm * vm * b).
  { rewrite <- E2. field. lra. }
  assert (S1 : (vp * vm) * (vp * vm) = a * a).
  { replace ((vp * vm) * (vp * vm)) with ((vp * vp) * (vm * vm)) by ring.
    rewrite <- E1. rewrite E2' at 2. ring. }
  assert (R1 : vp * vm = a).
  { assert (0 < vp * vm) by nra.
    assert (Hz : (vp * vm - a) * (vp * vm + a) = 0) by (ring_simplify; nra).
    apply Rmult_integral in Hz. destruct Hz; lra. }
  split; [exact R1|].
  apply Rmult_eq_reg_r with vm; [|lra].
  transitivity vp; [field; lra|].
  apply Rmult_eq_reg_r with vm; [|lra].
  rewrite R1, E2'. ring.
Qed.

(** * Explicit bound: small residuals of the polynomial junction relations => small flux
      mismatch.  r1 = vp vm (e+ - e-) - (p+ - p-),  r2 = vp (e+ + p-) - vm (e- + p+). *)
Lemma flux_mismatch_identity pp pm ep em vp vm :
  let r1 := vp * vm * (ep - em) - (pp - pm) in
  let r2 := vp * (ep + pm) - vm * (em + pp) in
  (ep + pp) * vp * (1 - vm * vm) - (em + pm) * vm * (1 - vp * vp)
    = r2 * (1 + vp * vm) - r1 * (vp + vm) /\
  ((ep + pp) * (vp * vp) + pp * (1 - vp * vp)) * (1 - vm * vm) -
  ((em + pm) * (vm * vm) + pm * (1 - vm * vm)) * (1 - vp * vp)
    = r2 * (vp + vm) - r1 * (1 + vp * vm).
Proof. cbv zeta. split; ring. Qed.

Theorem near_root_flux_bound pp pm ep em vp vm d :
  0 < vp < 1 -> 0 < vm < 1 -> 0 <= d ->
  Rabs (vp * vm * (ep - em) - (pp - pm)) <= d ->
  Rabs (vp * (ep + pm) - vm * (em + pp)) <= d ->
  Rabs (eflux (ep + pp) vp - eflux (em + pm) vm) <= 4 * d * g2 vp * g2 vm /\
  Rabs (mflux (ep + pp) pp vp - mflux (em + pm) pm vm) <= 4 * d * g2 vp * g2 vm.
Proof.
  intros Hp Hm Hd R1 R2.
  destruct (flux_mismatch_identity pp pm ep em vp vm) as [I1 I2]. cbv zeta in I1, I2.
  pose proof (one_minus_sq_pos vp Hp) as Gp. pose proof (one_minus_sq_pos vm Hm) as Gm.
  set (r1 := vp * vm * (ep - em) - (pp - pm)) in *.
  set (r2 := vp * (ep + pm) - vm * (em + pp)) in *.
  assert (K : 0 < g2 vp * g2 vm).
  { unfold g2. apply Rmult_lt_0_compat; apply Rdiv_lt_0_compat; lra. }
  assert (B1 : Rabs (r2 * (1 + vp * vm) - r1 * (vp + vm)) <= 4 * d).
  { apply lin_comb_bound; try assumption; nra. }
  assert (B2 : Rabs (r2 * (vp + vm) - r1 * (1 + vp * vm)) <= 4 * d).
  { apply lin_comb_bound; try assumption; nra. }
  split.
  - replace (eflux (ep + pp) vp - eflux (em + pm) vm)
      with ((r2 * (1 + vp * vm) - r1 * (vp + vm)) * (g2 vp * g2 vm)).
    + rewrite Rabs_mult, (Rabs_pos_eq (g2 vp * g2 vm)) by lra.
      replace (4 * d * g2 vp * g2 vm) with (4 * d * (g2 vp * g2 vm)) by ring.
      apply Rmult_le_compat_r; lra.
    + rewrite <- I1. unfold eflux, g2. field. lra.
  - replace (mflux (ep + pp) pp vp - mflux (em + pm) pm vm)
      with ((r2 * (vp + vm) - r1 * (1 + vp * vm)) * (g2 vp * g2 vm)).
    + rewrite Rabs_mult, (Rabs_pos_eq (g2 vp * g2 vm)) by lra.
      replace (4 * d * g2 vp * g2 vm) with (4 * d * (g2 vp * g2 vm)) by ring.
      apply Rmult_le_compat_r; lra.
    + rewrite <- I2. unfold mflux, g2. field. lra.
Qed.

(** positivity of the rescaling factor used by the code:
    c = (2^2 + a^2 + b^2) (2^2 + c^2 + d^2) >= 16 whatever a b c d are *)
Lemma scale_factor_pos a b c d :
  0 < (2 ^ 2 + a ^ 2 + b ^ 2) * (2 ^ 2 + c ^ 2 + d ^ 2).
Proof.
  apply Rmult_lt_0_compat; simpl; nra.
Qed.

(** * Small facts about sqrt used by the instantiation *)
Lemma sqrt_unit x : 0 < x < 1 -> 0 < sqrt x < 1.
Proof.
  intros [H0 H1]. split; [apply sqrt_lt_R0; exact H0|].
  rewrite <- sqrt_1. apply sqrt_lt_1_alt. lra.
Qed.

Lemma sqrt_sq_pos x : 0 <= x -> sqrt x * sqrt x = x.
Proof. intro H. apply sqrt_sqrt. exact H. Qed.

Lemma sqrt_scaled a t : 0 <= a -> 0 < t -> sqrt (a * (t * t)) / t = sqrt a.
Proof.
  intros Ha Ht. rewrite sqrt_mult_alt by exact Ha.
  rewrite sqrt_square by lra. field. lra.
Qed.

(** np.arctan(np.tan(.)) round trip of the temperature map used by the 2x2 solver *)
Lemma atan_tan_affine T lo hi :
  lo < T < hi ->
  atan (tan (PI / (hi - lo) * (T - (hi + lo) / 2))) * (hi - lo) / PI + (hi + lo) / 2 = T.
Proof.
  intros [H1 H2]. pose proof PI_RGT_0 as HPI.
  rewrite atan_tan.
  - field. split; lra.
  - assert (E : PI / (hi - lo) * (T - (hi + lo) / 2) = PI / 2 * ((2 * T - hi - lo) / (hi - lo))).
    { field. lra. }
    rewrite E.
    assert (B : -1 < (2 * T - hi - lo) / (hi - lo) < 1).
    { split.
      - apply Rmult_lt_reg_r with (hi - lo); [lra|]. unfold Rdiv. rewrite Rmult_assoc, Rinv_l by lra. lra.
      - apply Rmult_lt_reg_r with (hi - lo); [lra|]. unfold Rdiv. rewrite Rmult_assoc, Rinv_l by lra. lra. }
    assert (0 < PI / 2) by lra. split; nra.
Qed.

Lemma scaled_pair_zero x y c : 0 < c -> (x * c, y * c) = (0, 0) -> x = 0 /\ y = 0.
Proof.
  intros Hc H. assert (H1 : x * c = 0) by (apply (f_equal fst) in H; exact H).
  assert (H2 : y * c = 0) by (apply (f_equal snd) in H; exact H).
  split; [apply Rmult_eq_reg_r with c|apply Rmult_eq_reg_r with c]; lra.
Qed.

(** componentwise equality of tuples WITHOUT any reduction of the components
    ([injection] simplifies them, e.g. unfolds x ^ 2) *)
Lemma pair_eq {A B : Type} (a a' : A) (b b' : B) : (a, b) = (a', b') -> a = a' /\ b = b'.
Proof. intro H. split; [exact (f_equal fst H)|exact (f_equal snd H)]. Qed.

Ltac pair_inj H :=
  let H1 := fresh "E" in let H2 := fresh "E" in
  apply pair_eq in H; destruct H as [H1 H2]; try pair_inj H1.

Lemma tuple4_eq {A B C D : Type} (a a' : A) (b b' : B) (c c' : C) (d d' : D) :
  (a, b, c, d) = (a', b', c', d') -> a = a' /\ b = b' /\ c = c' /\ d = d'.
Proof.
  intro H. apply pair_eq in H. destruct H as [H H4]. apply pair_eq in H. destruct H as [H H3].
  apply pair_eq in H. tauto.
Qed.

Lemma tuple5_eq {A B C D E : Type} (a a' : A) (b b' : B) (c c' : C) (d d' : D) (x x' : E) :
  (a, b, c, d, x) = (a', b', c', d', x') -> a = a' /\ b = b' /\ c = c' /\ d = d' /\ x = x'.
Proof.
  intro H. apply pair_eq in H. destruct H as [H H5]. apply tuple4_eq in H. tauto.
Qed.

(** * Roles of the two tolerances in the calls to scipy's root finders (facts extracted from
      the source by tools/gen_hydro_match.py).  scipy: a bracketing root_scalar stops when
      the bracket is shorter than  xtol + rtol*|x|  -- xtol is the ABSOLUTE, rtol the RELATIVE
      tolerance.  The classes carry self.atol (absolute) and self.rtol (relative). *)
Require Import List.
Inductive tolsrc : Set := TAtol | TRtol | TNone | TOther.
Inductive solverkind : Set := RootScalar | RootHybr.
(** (source line, solver, what is passed as xtol, what is passed as rtol) *)
(** tf_plain: the call uses only the pinned keywords (root_scalar: bracket | x0,x1, method in
    {brentq, secant, default}, xtol, rtol, args; root: method="hybr", options={"xtol": ...}) *)
Record tolfact : Set := mk_tolfact { tf_line : nat; tf_kind : solverkind;
                                     tf_xtol : tolsrc; tf_rtol : tolsrc; tf_plain : bool }.
Definition tolsrc_val (s : tolsrc) (rt at_ : R) : R :=
  match s with TAtol => at_ | TRtol => rt | _ => 0 end.
(** accuracy requested from the root finder at a root x *)
Definition requested_accuracy (f : tolfact) (rt at_ x : R) : R :=
  tolsrc_val (tf_xtol f) rt at_ + tolsrc_val (tf_rtol f) rt at_ * Rabs x.
Definition roles_ok (f : tolfact) : bool :=
  tf_plain f &&
  match tf_kind f, tf_xtol f, tf_rtol f with
  | RootScalar, TAtol, TRtol => true
  | RootHybr, TAtol, TNone => true
  | _, _, _ => false
  end.
Lemma roles_ok_meaning f rt at_ x :
  roles_ok f = true -> tf_kind f = RootScalar ->
  requested_accuracy f rt at_ x = at_ + rt * Rabs x.
Proof.
  destruct f as [l k a b pl]. unfold roles_ok, requested_accuracy. cbn.
  intros H K. subst k. destruct pl; destruct a; destruct b; try discriminate. reflexivity.
Qed.

(** * From the residuals the code solves to the polynomial junction residuals (exact) *)
(** the code's residuals are  r1 = A B - vp^2,  r2 = A/B - vm^2  with A = vpvm, B = vpovm *)
Lemma residual_identities A B vp vm r1 r2 :
  0 < B -> A * B = vp * vp + r1 -> A / B = vm * vm + r2 ->
  (vp * vm - A) * (vp * vm + A) = - (vp * vp * r2 + vm * vm * r1 + r1 * r2) /\
  (vp - vm * B) * (vp + vm * B) * (vm * vm + r2) = vp * vp * r2 - vm * vm * r1.
Proof.
  intros HB H1 H2.
  assert (HA : A = (vm * vm + r2) * B) by (rewrite <- H2; field; lra).
  split.
  - replace ((vp * vm - A) * (vp * vm + A)) with (vp * vp * (vm * vm) - A * A) by ring.
    replace (A * A) with ((A * B) * (vm * vm + r2)) by (rewrite HA at 2; ring).
    rewrite H1. ring.
  - replace ((vp - vm * B) * (vp + vm * B) * (vm * vm + r2))
      with (vp * vp * (vm * vm + r2) - vm * vm * (B * ((vm * vm + r2) * B))) by ring.
    rewrite <- HA. replace (B * A) with (A * B) by ring. rewrite H1. ring.
Qed.

(** * Shapes of the return paths of findMatching / findHydroBoundaries (facts extracted from
      the AST by tools/gen_hydro_match.py; nested closures excluded) *)
Inductive pathkind : Set :=
  | KAssignDeton        (* vp, vm, Tp, Tm = self.matchDeton(vwTry) *)
  | KAssignDeflag       (* vp, vm, Tp, Tm = self.matchDeflagOrHyb(vwTry, sol.root) *)
  | KAssignFindMatching (* vp, vm, Tp, Tm = self.findMatching(vwTry) *)
  | KRetTemplate        (* return self.template.findMatching(vwTemplate) *)
  | KRetNames           (* return (vp, vm, Tp, Tm) *)
  | KRetZeros           (* return (0, 0, 0, 0, 0) *)
  | KRetNone            (* return (vp, vm, Tp, Tm, None) *)
  | KRetBoundaries      (* return (c1, c2, Tp, Tm, velocityMid) *)
  | KAssignBoundaries   (* (c1, c2, Tplus, Tminus, velocityMid) =
                             self.hydrodynamics.findHydroBoundaries(wallVelocity) *)
  | KPassBoundaries     (* self._intermediatePressureResults(..., c1, c2, velocityMid, ...,
                             Tplus, Tminus) with these very names *)
  | KOther.             (* any other return, any other (re)definition of vp/vm/Tp/Tm or of the
                           handed-over constants, any store to the velocity PARAMETER, any
                           attribute / subscript store *)
Inductive hmethod : Set := MFindMatching | MFindHydroBoundaries | MWallPressure.
Record pathfact : Set := mk_pathfact { pf_method : hmethod; pf_line : nat; pf_kind : pathkind }.
Definition path_ok (f : pathfact) : bool :=
  match pf_method f, pf_kind f with
  | MFindMatching, (KAssignDeton | KAssignDeflag | KRetTemplate | KRetNames) => true
  | MFindHydroBoundaries, (KAssignFindMatching | KRetZeros | KRetNone | KRetBoundaries) => true
  | MWallPressure, (KAssignBoundaries | KPassBoundaries) => true
  | _, _ => false
  end.
Definition has_path (m : hmethod) (k : pathkind) (l : list pathfact) : bool :=
  existsb (fun f => match pf_method f, m with
                    | MFindMatching, MFindMatching | MFindHydroBoundaries, MFindHydroBoundaries
                    | MWallPressure, MWallPressure =>
                        match pf_kind f, k with
                        | KAssignDeton, KAssignDeton | KAssignDeflag, KAssignDeflag
                        | KAssignFindMatching, KAssignFindMatching | KRetTemplate, KRetTemplate
                        | KRetNames, KRetNames | KRetZeros, KRetZeros | KRetNone, KRetNone
                        | KRetBoundaries, KRetBoundaries
                        | KAssignBoundaries, KAssignBoundaries
                        | KPassBoundaries, KPassBoundaries => true
                        | _, _ => false end
                    | _, _ => false end) l.
(** every value findMatching returns is the result of matchDeton(vwTry), of
    matchDeflagOrHyb(vwTry, sol.root) or of the template fallback, and findHydroBoundaries
    builds its constants from findMatching(vwTry) only *)
Definition paths_wellformed (l : list pathfact) : bool :=
  forallb path_ok l && has_path MFindMatching KAssignDeton l
  && has_path MFindMatching KAssignDeflag l && has_path MFindMatching KRetNames l
  && has_path MFindHydroBoundaries KAssignFindMatching l
  && has_path MFindHydroBoundaries KRetBoundaries l
  && has_path MWallPressure KAssignBoundaries l
  && has_path MWallPressure KPassBoundaries l.
