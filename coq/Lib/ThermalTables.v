(** Reading the shipped interpolation tables inside Coq (C20).

    The text of a data file (decimal numbers separated by blanks, one row per line, written by
    numpy.savetxt with "%.15g") is embedded verbatim as a Coq [string] by the generator; the
    PARSER BELOW, not the generator, gives it its meaning.  Every number is represented exactly
    by the integer  z = value * 10^SDIGITS  (parsing fails if a number needs more digits), so all
    table theorems are statements of exact rational arithmetic.

    Second part: checkers over consecutive rows (windows) and over indexed rows, with their
    soundness lemmas, so that a boolean [vm_compute] run proves a statement about ALL rows. *)
From Coq Require Import ZArith List String Ascii Bool Lia Sint63.
Import ListNotations.
Local Open Scope Z_scope.

Definition SDIGITS : Z := 30.
(* the integer representing 1; stored as a literal so that evaluation does not recompute the power *)
Definition U : Z := Eval vm_compute in 10 ^ SDIGITS.
Lemma U_eq : U = 10 ^ 30.
Proof. reflexivity. Qed.
Lemma U_pos : 0 < U.
Proof. reflexivity. Qed.

(** * parser *)
Record tok := mk_tok {
  t_seen : bool;      (* at least one digit of the mantissa read *)
  t_neg : bool; t_mant : Z; t_indec : bool; t_ndec : Z;
  t_inexp : bool; t_eseen : bool; t_eneg : bool; t_exp : Z }.
Definition tok0 := mk_tok false false 0 false 0 false false false 0.

Definition tok_value (t : tok) : option Z :=
  if negb (t_seen t) then None
  else if t_inexp t && negb (t_eseen t) then None
  else
    let e := SDIGITS - t_ndec t + (if t_eneg t then - t_exp t else t_exp t) in
    if e <? 0 then None
    else Some ((if t_neg t then -1 else 1) * t_mant t * 10 ^ e).

Definition tok_started (t : tok) : bool :=
  t_seen t || t_neg t || t_indec t || t_inexp t.

(** one character; [None] = malformed *)
Definition tok_step (t : tok) (n : Z) : option tok :=
  if (48 <=? n) && (n <=? 57) then
    let d := n - 48 in
    if t_inexp t then
      Some (mk_tok (t_seen t) (t_neg t) (t_mant t) (t_indec t) (t_ndec t) true true (t_eneg t)
                   (10 * t_exp t + d))
    else
      Some (mk_tok true (t_neg t) (10 * t_mant t + d) (t_indec t)
                   (if t_indec t then t_ndec t + 1 else t_ndec t) false false false 0)
  else if n =? 45 (* - *) then
    if t_inexp t then
      if t_eseen t || t_eneg t then None
      else Some (mk_tok (t_seen t) (t_neg t) (t_mant t) (t_indec t) (t_ndec t) true false true 0)
    else if tok_started t then None
    else Some (mk_tok false true 0 false 0 false false false 0)
  else if n =? 43 (* + *) then
    if t_inexp t && negb (t_eseen t) && negb (t_eneg t) then Some t else None
  else if n =? 46 (* . *) then
    if t_indec t || t_inexp t then None
    else Some (mk_tok (t_seen t) (t_neg t) (t_mant t) true 0 false false false 0)
  else if (n =? 101) || (n =? 69) (* e E *) then
    if t_inexp t || negb (t_seen t) then None
    else Some (mk_tok true (t_neg t) (t_mant t) (t_indec t) (t_ndec t) true false false 0)
  else None.

(** rows are accumulated in reverse *)
Fixpoint scan (s : string) (t : tok) (row : list Z) (rows : list (list Z)) :
  option (list (list Z)) :=
  match s with
  | EmptyString =>
      if tok_started t then
        match tok_value t with
        | Some v => Some (rev (rev (v :: row) :: rows))
        | None => None
        end
      else match row with
           | [] => Some (rev rows)
           | _ => Some (rev (rev row :: rows))
           end
  | String c s' =>
      let n := Z.of_N (N_of_ascii c) in
      if (n =? 32) || (n =? 9) then           (* blank *)
        if tok_started t then
          match tok_value t with
          | Some v => scan s' tok0 (v :: row) rows
          | None => None
          end
        else scan s' t row rows
      else if (n =? 10) || (n =? 13) then     (* end of line *)
        if tok_started t then
          match tok_value t with
          | Some v => scan s' tok0 [] (rev (v :: row) :: rows)
          | None => None
          end
        else match row with
             | [] => scan s' t [] rows
             | _ => scan s' t [] (rev row :: rows)
             end
      else match tok_step t n with
           | Some t' => scan s' t' row rows
           | None => None
           end
  end.

Definition row := (Z * Z * Z)%type.
Definition rx (r : row) : Z := fst (fst r).
Definition rre (r : row) : Z := snd (fst r).
Definition rim (r : row) : Z := snd r.

Fixpoint rows3 (l : list (list Z)) : option (list row) :=
  match l with
  | [] => Some []
  | [a; b; c] :: t => match rows3 t with Some r => Some ((a, b, c) :: r) | None => None end
  | _ => None
  end.

Definition parse_table (s : string) : option (list row) :=
  match scan s tok0 [] [] with Some l => rows3 l | None => None end.

(** the generator writes every decimal token of a data file as (mantissa, exponent), two
    primitive 63-bit integers (a 10000-row file then loads in seconds; decimal [Z] literals or a
    400 kB string literal take minutes or overflow coqc's stack); value = mantissa * 10^exponent *)
Definition raw_row := (int * int * int * int * int * int)%type.
Definition dec_value (m e : int) : option Z :=
  let k := SDIGITS + Sint63.to_Z e in
  if k <? 0 then None else Some (Sint63.to_Z m * 10 ^ k).
Definition row_of_raw (r : raw_row) : option row :=
  let '(m1, e1, m2, e2, m3, e3) := r in
  match dec_value m1 e1, dec_value m2 e2, dec_value m3 e3 with
  | Some a, Some b, Some c => Some (a, b, c)
  | _, _, _ => None
  end.
Fixpoint rows_of_raw (l : list raw_row) : option (list row) :=
  match l with
  | [] => Some []
  | r :: t => match row_of_raw r, rows_of_raw t with
              | Some a, Some b => Some (a :: b)
              | _, _ => None
              end
  end.

(** a file is embedded as consecutive chunks of whole lines (a single string literal of 400 kB
    overflows coqc's stack); the table is the concatenation of the parsed chunks *)
Fixpoint parse_chunks (l : list string) : option (list row) :=
  match l with
  | [] => Some []
  | s :: t => match parse_table s, parse_chunks t with
              | Some a, Some b => Some (a ++ b)
              | _, _ => None
              end
  end.

(** sanity: the parser on a small text, exponent and sign forms included *)
Example parse_example :
  parse_table "-20 8.5 7.25
0.0960096009600981 -2.09902526909669 0
1000 -4.38577675321241e-12 0
" = Some [(-20 * U, 85 * 10 ^ 29, 725 * 10 ^ 28);
          (960096009600981 * 10 ^ 14, -209902526909669 * 10 ^ 16, 0);
          (1000 * U, -438577675321241 * 10 ^ 4, 0)].
Proof. vm_compute. reflexivity. Qed.

Example parse_rejects_garbage : parse_table "1 2 x" = None /\ parse_table "1 2" = None
  /\ parse_table "1 2 3e-40" = None /\ parse_table "1 2 3 4" = None.
Proof. vm_compute. repeat split. Qed.

(** * checkers *)
Section Checkers.
Context {A : Type}.

(** a predicate on every suffix of the list: [P] looks at the first few elements (a window) *)
Fixpoint all_tails (P : list A -> bool) (l : list A) : bool :=
  P l && match l with [] => true | _ :: t => all_tails P t end.

Lemma all_tails_sound P l : all_tails P l = true -> forall i, P (skipn i l) = true.
Proof.
  induction l as [|a l IH]; intros H i.
  - simpl in H. rewrite andb_true_r in H. destruct i; exact H.
  - simpl in H. apply andb_true_iff in H. destruct H as [H1 H2].
    destruct i; [exact H1|]. simpl. apply IH. exact H2.
Qed.

(** a predicate on (index, element) *)
Fixpoint all_idx (P : Z -> A -> bool) (i0 : Z) (l : list A) : bool :=
  match l with [] => true | a :: t => P i0 a && all_idx P (i0 + 1) t end.

Lemma all_idx_sound P l : forall i0, all_idx P i0 l = true ->
  forall i a, nth_error l i = Some a -> P (i0 + Z.of_nat i) a = true.
Proof.
  induction l as [|b l IH]; intros i0 H i a E.
  - destruct i; discriminate.
  - simpl in H. apply andb_true_iff in H. destruct H as [H1 H2]. destruct i.
    + simpl in E. inversion E. subst. rewrite Z.add_0_r. exact H1.
    + simpl in E. replace (i0 + Z.of_nat (S i)) with (i0 + 1 + Z.of_nat i) by lia.
      apply (IH _ H2 _ _ E).
Qed.

Lemma forallb_In (P : A -> bool) l : forallb P l = true -> forall a, In a l -> P a = true.
Proof. intros H a Ha. rewrite forallb_forall in H. auto. Qed.
End Checkers.

(** consecutive rows: [skipn i l = a :: b :: ...] *)
Lemma skipn_cons_nth_error {A} (l : list A) i a t : skipn i l = a :: t -> nth_error l i = Some a.
Proof.
  revert l. induction i; intros l H.
  - simpl in H. subst. reflexivity.
  - destruct l; [discriminate|]. simpl in *. auto.
Qed.

(** fourth and second differences *)
Definition d2 (a b c : Z) : Z := a - 2 * b + c.
Definition d4 (a b c d e : Z) : Z := a - 4 * b + 6 * c - 4 * d + e.

(** certified rational enclosures used by the closed forms of the imaginary columns *)
Definition isqrt_lo (n : Z) : Z := Z.sqrt n.
Definition isqrt_hi (n : Z) : Z := Z.sqrt n + 1.
Lemma isqrt_spec n : 0 <= n -> isqrt_lo n * isqrt_lo n <= n < isqrt_hi n * isqrt_hi n.
Proof.
  intros H. unfold isqrt_lo, isqrt_hi. pose proof (Z.sqrt_spec n H) as S.
  replace (Z.succ (Z.sqrt n)) with (Z.sqrt n + 1) in S by lia. exact S.
Qed.

(** * constructor forwarding (AST fact): base parameter j receives the subclass parameter of the
    same name *)
Definition ADAPTIVE_PARAM : string := "bUseAdaptiveInterpolation".
Definition forwards_all (base ctor : list string) (fw : list (option nat)) : bool :=
  (Nat.eqb (List.length fw) (List.length base) &&
   forallb (fun p : string * option nat =>
              match snd p with
              | Some i => match nth_error ctor i with
                          | Some nm => String.eqb nm (fst p)
                          | None => false
                          end
              | None => false
              end) (combine base fw))%bool.

Lemma forwards_all_sound base ctor fw : forwards_all base ctor fw = true ->
  forall j name, nth_error base j = Some name ->
    exists i, nth_error fw j = Some (Some i) /\ nth_error ctor i = Some name.
Proof.
  unfold forwards_all. rewrite andb_true_iff. intros [L F] j name Hj.
  apply Nat.eqb_eq in L.
  assert (Hlt : (j < List.length fw)%nat).
  { rewrite L. apply nth_error_Some. congruence. }
  destruct (nth_error fw j) as [o|] eqn:Ef; [|apply nth_error_None in Ef; lia].
  assert (Hin : In (name, o) (combine base fw)).
  { apply nth_error_In with j. clear - Ef Hj.
    revert fw j Ef Hj. induction base as [|b base IH]; intros fw j Ef Hj.
    - destruct j; discriminate.
    - destruct fw as [|f fw]; [destruct j; discriminate|]. destruct j; simpl in *.
      + congruence.
      + apply IH; assumption. }
  pose proof (forallb_In _ _ F _ Hin) as C. simpl in C.
  destruct o as [i|]; [|discriminate]. exists i. split; [reflexivity|].
  destruct (nth_error ctor i) as [nm|]; [|discriminate].
  apply String.eqb_eq in C. congruence.
Qed.
