(** Calculus of the tanh wall ansatz and of the pressure integral (property C09).

    Hand-written, source-independent theory:
      - tanh: derivative, limits at +-infinity, 1/cosh^2 = 1 - tanh^2;
      - the template profile  Phi = lo + (hi-lo)/2 (1 + tanh(z/w + d))  and its gradient
        dPhi = (hi-lo)/2 / (w cosh^2(z/w+d)): derivative, continuity, limits;
      - total derivative: for a C1 potential V and a C1 path phi,
           int_a^b V'(phi z) phi'(z) dz = V(phi b) - V(phi a)      (one field, two fields)
        its improper limit, and the version on the compactified grid coordinate with the
        Jacobian dz/dchi as a HYPOTHESIS (proved for Grid3Scales by C17).
    The generated model of EOM.wallProfile / EOM._intermediatePressureResults is tied to
    these templates in Props/C09.v. *)
From Coq Require Import Reals Lra.
From Coquelicot Require Import Coquelicot.
Local Open Scope R_scope.

Lemma edc (f : R -> R) (x : R) : ex_derive f x -> continuous f x.
Proof. apply (ex_derive_continuous (K := R_AbsRing) (V := R_NormedModule) f x). Qed.

Lemma filterlim_Rminus (x y : R) :
  filterlim (fun z : R * R => fst z - snd z) (filter_prod (locally x) (locally y))
            (locally (x - y)).
Proof.
  apply (filterlim_comp_2 (fun z : R * R => fst z) (fun z : R * R => - snd z) Rplus
           (G := locally x) (H := locally (- y))).
  - apply filterlim_fst.
  - apply (filterlim_comp _ _ _ (@snd R R) Ropp _ (locally y)); [apply filterlim_snd|].
    apply (filterlim_opp y).
  - apply (filterlim_plus x (- y)).
Qed.

(** * tanh *)
Lemma cosh_pos x : 0 < cosh x.
Proof. unfold cosh. generalize (exp_pos x) (exp_pos (- x)). lra. Qed.

Lemma cosh_neq_0 x : cosh x <> 0.
Proof. generalize (cosh_pos x). lra. Qed.

Lemma cosh2_minus_sinh2' x : cosh x ^ 2 - sinh x ^ 2 = 1.
Proof.
  unfold cosh, sinh.
  replace (((exp x + exp (- x)) / 2) ^ 2 - ((exp x - exp (- x)) / 2) ^ 2)
    with (exp x * exp (- x)) by field.
  rewrite <- exp_plus. replace (x + - x) with 0 by ring. apply exp_0.
Qed.

Lemma inv_cosh2 x : / (cosh x ^ 2) = 1 - tanh x ^ 2.
Proof.
  unfold tanh. generalize (cosh2_minus_sinh2' x) (cosh_neq_0 x). intros H Hc.
  apply Rmult_eq_reg_l with (cosh x ^ 2); [|apply pow_nonzero; exact Hc].
  rewrite Rinv_r by (apply pow_nonzero; exact Hc).
  replace (cosh x ^ 2 * (1 - (sinh x / cosh x) ^ 2)) with (cosh x ^ 2 - sinh x ^ 2)
    by (field; exact Hc).
  symmetry; exact H.
Qed.

Lemma is_derive_sinh x : is_derive sinh x (cosh x).
Proof. apply is_derive_Reals, derivable_pt_lim_sinh. Qed.

Lemma is_derive_cosh x : is_derive cosh x (sinh x).
Proof. apply is_derive_Reals, derivable_pt_lim_cosh. Qed.

Lemma is_derive_tanh x : is_derive tanh x (/ (cosh x ^ 2)).
Proof.
  unfold tanh.
  evar (l : R).
  assert (H : is_derive (fun t => sinh t / cosh t) x l).
  { unfold l. apply (is_derive_div sinh cosh x (cosh x) (sinh x)).
    - apply is_derive_sinh. - apply is_derive_cosh. - apply cosh_neq_0. }
  replace (/ cosh x ^ 2) with l; [exact H|].
  unfold l. generalize (cosh2_minus_sinh2' x) (cosh_neq_0 x). intros H1 H2.
  replace (cosh x * cosh x - sinh x * sinh x) with (cosh x ^ 2 - sinh x ^ 2) by ring.
  rewrite H1. field. exact H2.
Qed.

Lemma continuous_tanh x : continuous tanh x.
Proof. apply edc. eexists. apply is_derive_tanh. Qed.

Lemma tanh_exp x : tanh x = 1 - 2 / (exp (2 * x) + 1).
Proof.
  unfold tanh, sinh, cosh.
  replace (2 * x) with (x + x) by ring. rewrite exp_plus, exp_Ropp.
  generalize (exp_pos x). intro H. field. split; nra.
Qed.

Lemma tanh_opp x : tanh (- x) = - tanh x.
Proof.
  unfold tanh, sinh, cosh. rewrite Ropp_involutive.
  generalize (exp_pos x) (exp_pos (- x)). intros. field. lra.
Qed.

Lemma tanh_close_to_1 (eps : posreal) x : / eps < x -> Rabs (tanh x - 1) < eps.
Proof.
  intros Hx. destruct eps as [eps He]; cbn [pos] in *.
  assert (Hi : 0 < / eps) by (apply Rinv_0_lt_compat; exact He).
  assert (Hx0 : 0 < x) by lra.
  assert (He2 : 1 + 2 * x < exp (2 * x)) by (apply exp_ineq1; lra).
  rewrite tanh_exp.
  replace (1 - 2 / (exp (2 * x) + 1) - 1) with (- (2 / (exp (2 * x) + 1))) by ring.
  rewrite Rabs_Ropp, Rabs_pos_eq.
  2:{ apply Rlt_le, Rdiv_lt_0_compat; lra. }
  apply Rmult_lt_reg_r with (exp (2 * x) + 1); [lra|].
  replace (2 / (exp (2 * x) + 1) * (exp (2 * x) + 1)) with 2 by (field; lra).
  assert (1 < eps * x).
  { replace 1 with (eps * / eps) by (field; lra). apply Rmult_lt_compat_l; assumption. }
  nra.
Qed.

Lemma is_lim_tanh_p : is_lim tanh p_infty 1.
Proof.
  apply is_lim_spec. intros eps. exists (/ eps). intros x Hx.
  apply tanh_close_to_1. exact Hx.
Qed.

Lemma is_lim_tanh_m : is_lim tanh m_infty (-1).
Proof.
  apply is_lim_spec. intros eps. exists (- / eps). intros x Hx.
  replace x with (- - x) by ring. rewrite tanh_opp.
  replace (- tanh (- x) - -1) with (- (tanh (- x) - 1)) by ring. rewrite Rabs_Ropp.
  apply tanh_close_to_1. lra.
Qed.

(** * The template wall profile of one field *)
Definition Phi (lo hi w d z : R) : R := lo + / 2 * (hi - lo) * (1 + tanh (z / w + d)).
Definition dPhi (lo hi w d z : R) : R := / 2 * (hi - lo) / (w * cosh (z / w + d) ^ 2).

Lemma dPhi_alt lo hi w d z : w <> 0 ->
  dPhi lo hi w d z = / 2 * (hi - lo) / w * (1 - tanh (z / w + d) ^ 2).
Proof.
  intros Hw. unfold dPhi. rewrite <- inv_cosh2.
  generalize (cosh_neq_0 (z / w + d)); intro Hc. field. split; assumption.
Qed.

Lemma is_derive_arg w d z : w <> 0 -> is_derive (fun z => z / w + d) z (/ w).
Proof. intros Hw. auto_derive; [exact I|]. field. exact Hw. Qed.

Lemma Phi_is_derive lo hi w d z : w <> 0 ->
  is_derive (Phi lo hi w d) z (dPhi lo hi w d z).
Proof.
  intros Hw. unfold Phi.
  assert (Ht : is_derive (fun z => tanh (z / w + d)) z (/ w * / cosh (z / w + d) ^ 2)).
  { apply (is_derive_comp tanh (fun z => z / w + d)).
    - apply is_derive_tanh. - apply is_derive_arg; exact Hw. }
  evar (l : R).
  assert (H : is_derive (fun z => lo + / 2 * (hi - lo) * (1 + tanh (z / w + d))) z l).
  { unfold l. apply (is_derive_plus (fun _ => lo)); [apply is_derive_const|].
    apply is_derive_scal. apply (is_derive_plus (fun _ => 1)); [apply is_derive_const|].
    exact Ht. }
  replace (dPhi lo hi w d z) with l; [exact H|].
  unfold l, dPhi, zero, plus, scal, mult; cbn.
  generalize (cosh_neq_0 (z / w + d)); intro Hc. field. split; assumption.
Qed.

Lemma Phi_continuous lo hi w d z : w <> 0 -> continuous (Phi lo hi w d) z.
Proof. intros. apply edc. eexists. apply Phi_is_derive; assumption. Qed.

Lemma dPhi_continuous lo hi w d z : w <> 0 -> continuous (dPhi lo hi w d) z.
Proof.
  intros Hw.
  apply continuous_ext with (f := fun z => / 2 * (hi - lo) / w * (1 - tanh (z / w + d) ^ 2)).
  { intro t. symmetry. apply dPhi_alt. exact Hw. }
  apply edc.
  assert (Ht : ex_derive (fun z => tanh (z / w + d)) z).
  { eexists. apply (is_derive_comp tanh (fun z => z / w + d)).
    - apply is_derive_tanh. - apply is_derive_arg; exact Hw. }
  apply ex_derive_scal. apply @ex_derive_minus; [apply ex_derive_const|].
  apply (ex_derive_pow (fun z => tanh (z / w + d))). exact Ht.
Qed.

Lemma is_lim_arg_p w d : 0 < w -> is_lim (fun z => z / w + d) p_infty p_infty.
Proof.
  intros Hw. apply is_lim_spec. intros M. exists ((M - d) * w). intros x Hx.
  assert (M - d < x / w).
  { apply Rmult_lt_reg_r with w; [exact Hw|]. replace (x / w * w) with x by (field; lra). exact Hx. }
  lra.
Qed.

Lemma is_lim_arg_m w d : 0 < w -> is_lim (fun z => z / w + d) m_infty m_infty.
Proof.
  intros Hw. apply is_lim_spec. intros M. exists ((M - d) * w). intros x Hx.
  assert (x / w < M - d).
  { apply Rmult_lt_reg_r with w; [exact Hw|]. replace (x / w * w) with x by (field; lra). exact Hx. }
  lra.
Qed.

Lemma Phi_lim_p lo hi w d : 0 < w -> is_lim (Phi lo hi w d) p_infty hi.
Proof.
  intros Hw. unfold Phi.
  assert (Ht : is_lim (fun z => tanh (z / w + d)) p_infty 1).
  { apply (filterlim_comp _ _ _ (fun z => z / w + d) tanh _ (Rbar_locally p_infty)).
    - apply is_lim_arg_p; exact Hw. - apply is_lim_tanh_p. }
  replace (Finite hi) with (Finite (lo + / 2 * (hi - lo) * (1 + 1))) by (f_equal; field).
  apply (is_lim_plus' (fun _ => lo)); [apply is_lim_const|].
  apply (is_lim_scal_l (fun z => 1 + tanh (z / w + d)) (/ 2 * (hi - lo)) p_infty (1 + 1)).
  apply (is_lim_plus' (fun _ => 1)); [apply is_lim_const|exact Ht].
Qed.

Lemma Phi_lim_m lo hi w d : 0 < w -> is_lim (Phi lo hi w d) m_infty lo.
Proof.
  intros Hw. unfold Phi.
  assert (Ht : is_lim (fun z => tanh (z / w + d)) m_infty (-1)).
  { apply (filterlim_comp _ _ _ (fun z => z / w + d) tanh _ (Rbar_locally m_infty)).
    - apply is_lim_arg_m; exact Hw. - apply is_lim_tanh_m. }
  replace (Finite lo) with (Finite (lo + / 2 * (hi - lo) * (1 + -1))) by (f_equal; field).
  apply (is_lim_plus' (fun _ => lo)); [apply is_lim_const|].
  apply (is_lim_scal_l (fun z => 1 + tanh (z / w + d)) (/ 2 * (hi - lo)) m_infty (1 + -1)).
  apply (is_lim_plus' (fun _ => 1)); [apply is_lim_const|exact Ht].
Qed.

(** * Total derivative along a C1 path: one field, generic potential *)
Section OneField.
Variables V dV : R -> R.
Hypothesis HV : forall x, is_derive V x (dV x).
Hypothesis HdV : forall x, continuous dV x.
Variables phi dphi : R -> R.
Hypothesis Hphi : forall z, is_derive phi z (dphi z).
Hypothesis Hdphi : forall z, continuous dphi z.

Lemma Vphi_is_derive z : is_derive (fun z => V (phi z)) z (dV (phi z) * dphi z).
Proof.
  replace (dV (phi z) * dphi z) with (scal (dphi z) (dV (phi z)))
    by (unfold scal, mult; cbn; ring).
  apply (is_derive_comp V phi); [apply HV|apply Hphi].
Qed.

Lemma integrand_continuous z : continuous (fun z => dV (phi z) * dphi z) z.
Proof.
  apply (continuous_mult (fun z => dV (phi z)) dphi).
  - apply (continuous_comp phi dV); [apply edc; eexists; apply Hphi|apply HdV].
  - apply Hdphi.
Qed.

Theorem total_derivative_1 a b :
  is_RInt (fun z => dV (phi z) * dphi z) a b (V (phi b) - V (phi a)).
Proof.
  apply (is_RInt_derive (fun z => V (phi z)) (fun z => dV (phi z) * dphi z)).
  - intros x _. apply Vphi_is_derive.
  - intros x _. apply integrand_continuous.
Qed.

(** improper integral over the whole wall: the path tends to [lo] behind the wall and to
    [hi] in front of it *)
Variables lo hi : R.
Hypothesis Hlo : is_lim phi m_infty lo.
Hypothesis Hhi : is_lim phi p_infty hi.

Theorem pressure_whole_line_1 :
  filterlim (fun ab : R * R => - RInt (fun z => dV (phi z) * dphi z) (fst ab) (snd ab))
            (filter_prod (Rbar_locally m_infty) (Rbar_locally p_infty))
            (locally (V lo - V hi)).
Proof.
  apply filterlim_ext with (f := fun ab : R * R => V (phi (fst ab)) - V (phi (snd ab))).
  { intros [a b]; cbn [fst snd]. rewrite (is_RInt_unique _ _ _ _ (total_derivative_1 a b)). ring. }
  assert (Cl : filterlim (fun z => V (phi z)) (Rbar_locally m_infty) (locally (V lo))).
  { apply (filterlim_comp _ _ _ phi V _ (locally lo)); [exact Hlo|].
    apply (edc V lo). eexists; apply HV. }
  assert (Ch : filterlim (fun z => V (phi z)) (Rbar_locally p_infty) (locally (V hi))).
  { apply (filterlim_comp _ _ _ phi V _ (locally hi)); [exact Hhi|].
    apply (edc V hi). eexists; apply HV. }
  apply (filterlim_comp_2 (F := filter_prod (Rbar_locally m_infty) (Rbar_locally p_infty))
           (fun ab : R * R => V (phi (fst ab))) (fun ab : R * R => V (phi (snd ab))) Rminus
           (G := locally (V lo)) (H := locally (V hi))).
  - apply (filterlim_comp _ _ _ (@fst R R) (fun z => V (phi z)) _ (Rbar_locally m_infty));
      [apply filterlim_fst|exact Cl].
  - apply (filterlim_comp _ _ _ (@snd R R) (fun z => V (phi z)) _ (Rbar_locally p_infty));
      [apply filterlim_snd|exact Ch].
  - apply (filterlim_Rminus (V lo) (V hi)).
Qed.

(** the same integral in the compactified coordinate chi of the grid: z = zmap chi with
    Jacobian J = dz/dchi (HYPOTHESIS here; C17 proves it for Grid3Scales), integrated with
    the weight -J exactly as [Polynomial.integrate(weight=-dzdchi)] does *)
Variables zmap J : R -> R.
Variables ca cb : R.
Hypothesis HJ : forall c, Rmin ca cb <= c <= Rmax ca cb -> is_derive zmap c (J c).
Hypothesis HJc : forall c, Rmin ca cb <= c <= Rmax ca cb -> continuous J c.

Theorem total_derivative_compact_1 :
  is_RInt (fun c => dV (phi (zmap c)) * dphi (zmap c) * (- J c)) ca cb
          (V (phi (zmap ca)) - V (phi (zmap cb))).
Proof.
  replace (V (phi (zmap ca)) - V (phi (zmap cb)))
    with (minus ((fun c => - V (phi (zmap c))) cb) ((fun c => - V (phi (zmap c))) ca))
    by (unfold minus, plus, opp; cbn; ring).
  apply (is_RInt_derive (fun c => - V (phi (zmap c)))).
  - intros c Hc.
    replace (dV (phi (zmap c)) * dphi (zmap c) * - J c)
      with (opp (scal (J c) (dV (phi (zmap c)) * dphi (zmap c))))
      by (unfold opp, scal, mult; cbn; ring).
    apply @is_derive_opp.
    apply (is_derive_comp (fun z => V (phi z)) zmap); [apply Vphi_is_derive|apply HJ; exact Hc].
  - intros c Hc.
    apply (continuous_mult (fun c => dV (phi (zmap c)) * dphi (zmap c)) (fun c => - J c)).
    + apply (continuous_comp zmap (fun z => dV (phi z) * dphi z)).
      * apply edc. eexists. apply HJ; exact Hc.
      * apply integrand_continuous.
    + apply (continuous_opp J). apply HJc; exact Hc.
Qed.
End OneField.

(** * Two fields, generic differentiable potential *)
Section TwoFields.
Variable V : R -> R -> R.
Variables dV1 dV2 : R -> R -> R.
Hypothesis HV : forall x y, differentiable_pt_lim V x y (dV1 x y) (dV2 x y).
Hypothesis HdV1 : forall x y, continuous (fun p : R * R => dV1 (fst p) (snd p)) (x, y).
Hypothesis HdV2 : forall x y, continuous (fun p : R * R => dV2 (fst p) (snd p)) (x, y).
Variables phi1 dphi1 phi2 dphi2 : R -> R.
Hypothesis Hphi1 : forall z, is_derive phi1 z (dphi1 z).
Hypothesis Hphi2 : forall z, is_derive phi2 z (dphi2 z).
Hypothesis Hdphi1 : forall z, continuous dphi1 z.
Hypothesis Hdphi2 : forall z, continuous dphi2 z.

Let g z := dV1 (phi1 z) (phi2 z) * dphi1 z + dV2 (phi1 z) (phi2 z) * dphi2 z.

Lemma Vphi2_is_derive z : is_derive (fun z => V (phi1 z) (phi2 z)) z (g z).
Proof.
  apply is_derive_Reals. unfold g.
  apply (derivable_pt_lim_comp_2d V phi1 phi2).
  - apply HV. - apply is_derive_Reals, Hphi1. - apply is_derive_Reals, Hphi2.
Qed.

Lemma g_continuous z : continuous g z.
Proof.
  assert (C1 : continuous phi1 z) by (apply edc; eexists; apply Hphi1).
  assert (C2 : continuous phi2 z) by (apply edc; eexists; apply Hphi2).
  unfold g.
  apply (continuous_plus (fun z => dV1 (phi1 z) (phi2 z) * dphi1 z)
                         (fun z => dV2 (phi1 z) (phi2 z) * dphi2 z)).
  - apply (continuous_mult (fun z => dV1 (phi1 z) (phi2 z)) dphi1); [|apply Hdphi1].
    apply (continuous_comp_2 phi1 phi2 dV1); [exact C1|exact C2|apply HdV1].
  - apply (continuous_mult (fun z => dV2 (phi1 z) (phi2 z)) dphi2); [|apply Hdphi2].
    apply (continuous_comp_2 phi1 phi2 dV2); [exact C1|exact C2|apply HdV2].
Qed.

Theorem total_derivative_2 a b :
  is_RInt g a b (V (phi1 b) (phi2 b) - V (phi1 a) (phi2 a)).
Proof.
  apply (is_RInt_derive (fun z => V (phi1 z) (phi2 z)) g).
  - intros x _. apply Vphi2_is_derive.
  - intros x _. apply g_continuous.
Qed.

Variables zmap J : R -> R.
Variables ca cb : R.
Hypothesis HJ : forall c, Rmin ca cb <= c <= Rmax ca cb -> is_derive zmap c (J c).
Hypothesis HJc : forall c, Rmin ca cb <= c <= Rmax ca cb -> continuous J c.

Theorem total_derivative_compact_2 :
  is_RInt (fun c => g (zmap c) * (- J c)) ca cb
          (V (phi1 (zmap ca)) (phi2 (zmap ca)) - V (phi1 (zmap cb)) (phi2 (zmap cb))).
Proof.
  replace (V (phi1 (zmap ca)) (phi2 (zmap ca)) - V (phi1 (zmap cb)) (phi2 (zmap cb)))
    with (minus ((fun c => - V (phi1 (zmap c)) (phi2 (zmap c))) cb)
                ((fun c => - V (phi1 (zmap c)) (phi2 (zmap c))) ca))
    by (unfold minus, plus, opp; cbn; ring).
  apply (is_RInt_derive (fun c => - V (phi1 (zmap c)) (phi2 (zmap c)))).
  - intros c Hc.
    replace (g (zmap c) * - J c) with (opp (scal (J c) (g (zmap c))))
      by (unfold opp, scal, mult; cbn; ring).
    apply @is_derive_opp.
    apply (is_derive_comp (fun z => V (phi1 z) (phi2 z)) zmap);
      [apply Vphi2_is_derive|apply HJ; exact Hc].
  - intros c Hc.
    apply (continuous_mult (fun c => g (zmap c)) (fun c => - J c)).
    + apply (continuous_comp zmap g).
      * apply edc. eexists. apply HJ; exact Hc.
      * apply g_continuous.
    + apply (continuous_opp J). apply HJc; exact Hc.
Qed.

Variables lo1 hi1 lo2 hi2 : R.
Hypothesis Hlo1 : is_lim phi1 m_infty lo1.
Hypothesis Hhi1 : is_lim phi1 p_infty hi1.
Hypothesis Hlo2 : is_lim phi2 m_infty lo2.
Hypothesis Hhi2 : is_lim phi2 p_infty hi2.

Lemma V2_continuous x y : continuous (fun p : R * R => V (fst p) (snd p)) (x, y).
Proof.
  apply (filterdiff_continuous (fun p : R * R => V (fst p) (snd p))).
  eexists. apply filterdiff_differentiable_pt_lim. apply HV.
Qed.

Lemma Vpath_lim (F : (R -> Prop) -> Prop) {FF : Filter F} l1 l2 :
  filterlim phi1 F (locally l1) -> filterlim phi2 F (locally l2) ->
  filterlim (fun z => V (phi1 z) (phi2 z)) F (locally (V l1 l2)).
Proof.
  intros H1 H2.
  apply (filterlim_comp_2 phi1 phi2 V (G := locally l1) (H := locally l2)); [exact H1|exact H2|].
  intros P HP. apply (V2_continuous l1 l2) in HP.
  destruct HP as [eps He]. exists (fun u => ball l1 eps u) (fun v => ball l2 eps v).
  - apply locally_ball. - apply locally_ball.
  - intros u v Hu Hv. apply (He (u, v)). split; assumption.
Qed.

Theorem pressure_whole_line_2 :
  filterlim (fun ab : R * R => - RInt g (fst ab) (snd ab))
            (filter_prod (Rbar_locally m_infty) (Rbar_locally p_infty))
            (locally (V lo1 lo2 - V hi1 hi2)).
Proof.
  apply filterlim_ext with
    (f := fun ab : R * R => V (phi1 (fst ab)) (phi2 (fst ab)) - V (phi1 (snd ab)) (phi2 (snd ab))).
  { intros [a b]; cbn [fst snd]. rewrite (is_RInt_unique _ _ _ _ (total_derivative_2 a b)). ring. }
  assert (Cl := Vpath_lim (Rbar_locally m_infty) lo1 lo2 Hlo1 Hlo2).
  assert (Ch := Vpath_lim (Rbar_locally p_infty) hi1 hi2 Hhi1 Hhi2).
  apply (filterlim_comp_2 (F := filter_prod (Rbar_locally m_infty) (Rbar_locally p_infty))
           (fun ab : R * R => V (phi1 (fst ab)) (phi2 (fst ab)))
           (fun ab : R * R => V (phi1 (snd ab)) (phi2 (snd ab))) Rminus
           (G := locally (V lo1 lo2)) (H := locally (V hi1 hi2))).
  - apply (filterlim_comp _ _ _ (@fst R R) (fun z => V (phi1 z) (phi2 z)) _ (Rbar_locally m_infty));
      [apply filterlim_fst|exact Cl].
  - apply (filterlim_comp _ _ _ (@snd R R) (fun z => V (phi1 z) (phi2 z)) _ (Rbar_locally p_infty));
      [apply filterlim_snd|exact Ch].
  - apply (filterlim_Rminus (V lo1 lo2) (V hi1 hi2)).
Qed.
End TwoFields.

(** * The end points of the compactified integral: chi -> -1+ maps to z -> -infinity (behind
    the wall), chi -> 1- to z -> +infinity; stated for arbitrary filters *)
Lemma endpoint_limit_1 (V phi zmap : R -> R) (lo hi : R)
      (Fa Fb : (R -> Prop) -> Prop) {FFa : Filter Fa} {FFb : Filter Fb} :
  continuous V lo -> continuous V hi ->
  is_lim phi m_infty lo -> is_lim phi p_infty hi ->
  filterlim zmap Fa (Rbar_locally m_infty) -> filterlim zmap Fb (Rbar_locally p_infty) ->
  filterlim (fun ab : R * R => V (phi (zmap (fst ab))) - V (phi (zmap (snd ab))))
            (filter_prod Fa Fb) (locally (V lo - V hi)).
Proof.
  intros Clo Chi Hlo Hhi Za Zb.
  assert (Cl : filterlim (fun c => V (phi (zmap c))) Fa (locally (V lo))).
  { apply (filterlim_comp _ _ _ zmap (fun z => V (phi z)) _ (Rbar_locally m_infty)); [exact Za|].
    apply (filterlim_comp _ _ _ phi V _ (locally lo)); [exact Hlo|exact Clo]. }
  assert (Ch : filterlim (fun c => V (phi (zmap c))) Fb (locally (V hi))).
  { apply (filterlim_comp _ _ _ zmap (fun z => V (phi z)) _ (Rbar_locally p_infty)); [exact Zb|].
    apply (filterlim_comp _ _ _ phi V _ (locally hi)); [exact Hhi|exact Chi]. }
  apply (filterlim_comp_2 (F := filter_prod Fa Fb)
           (fun ab : R * R => V (phi (zmap (fst ab)))) (fun ab : R * R => V (phi (zmap (snd ab))))
           Rminus (G := locally (V lo)) (H := locally (V hi))).
  - apply (filterlim_comp _ _ _ (@fst R R) (fun c => V (phi (zmap c))) _ Fa);
      [apply filterlim_fst|exact Cl].
  - apply (filterlim_comp _ _ _ (@snd R R) (fun c => V (phi (zmap c))) _ Fb);
      [apply filterlim_snd|exact Ch].
  - apply (filterlim_Rminus (V lo) (V hi)).
Qed.

(** * A potential whose field-dependent part does not depend on temperature:
    V(phi, T) = V0(phi) + f(T).  Its field gradient is the same at every temperature, so
    the integral is a total derivative for ANY temperature profile T(z). *)
Section TIndependent.
Variables Vt dVt : R -> R -> R.
Variables V0 f : R -> R.
Hypothesis Hsplit : forall p T, Vt p T = V0 p + f T.
Hypothesis HdVt : forall p T, is_derive (fun q => Vt q T) p (dVt p T).

Lemma gradient_T_independent p T T' : dVt p T = dVt p T'.
Proof.
  assert (H : is_derive (fun q => Vt q T') p (dVt p T)).
  { apply is_derive_ext with (f := fun q => Vt q T + (f T' - f T)).
    { intro q. rewrite !Hsplit. change (V0 q + f T + (f T' - f T) = V0 q + f T'). ring. }
    replace (dVt p T) with (plus (dVt p T) (@zero R_NormedModule)) by (apply plus_zero_r).
    apply (is_derive_plus (fun q => Vt q T) (fun _ => f T' - f T)); [apply HdVt|apply is_derive_const]. }
  rewrite <- (is_derive_unique _ _ _ H). apply is_derive_unique. apply HdVt.
Qed.

Variable T0 : R.
Hypothesis HdVc : forall p, continuous (fun q => dVt q T0) p.
Variables phi dphi : R -> R.
Hypothesis Hphi : forall z, is_derive phi z (dphi z).
Hypothesis Hdphi : forall z, continuous dphi z.

Theorem total_derivative_any_temperature_profile (Tz : R -> R) a b :
  is_RInt (fun z => dVt (phi z) (Tz z) * dphi z) a b (Vt (phi b) T0 - Vt (phi a) T0).
Proof.
  apply is_RInt_ext with (f := fun z => dVt (phi z) T0 * dphi z).
  { intros z _. rewrite (gradient_T_independent (phi z) T0 (Tz z)). reflexivity. }
  apply (total_derivative_1 (fun q => Vt q T0) (fun q => dVt q T0)).
  - intro x. apply HdVt. - exact HdVc. - exact Hphi. - exact Hdphi.
Qed.
End TIndependent.

(** * Two fields: end points of the compactified integral *)
Lemma filterlim_V2 {T : Type} (F : (T -> Prop) -> Prop) {FF : Filter F}
      (V : R -> R -> R) (f1 f2 : T -> R) (l1 l2 : R) :
  continuous (fun p : R * R => V (fst p) (snd p)) (l1, l2) ->
  filterlim f1 F (locally l1) -> filterlim f2 F (locally l2) ->
  filterlim (fun t => V (f1 t) (f2 t)) F (locally (V l1 l2)).
Proof.
  intros CV H1 H2.
  apply (filterlim_comp_2 f1 f2 V (G := locally l1) (H := locally l2)); [exact H1|exact H2|].
  intros P HP. apply CV in HP.
  destruct HP as [eps He]. exists (fun u => ball l1 eps u) (fun v => ball l2 eps v).
  - apply locally_ball. - apply locally_ball.
  - intros u v Hu Hv. apply (He (u, v)). split; assumption.
Qed.

Lemma endpoint_limit_2 (V : R -> R -> R) (phi1 phi2 zmap : R -> R) (lo1 hi1 lo2 hi2 : R)
      (Fa Fb : (R -> Prop) -> Prop) {FFa : Filter Fa} {FFb : Filter Fb} :
  continuous (fun p : R * R => V (fst p) (snd p)) (lo1, lo2) ->
  continuous (fun p : R * R => V (fst p) (snd p)) (hi1, hi2) ->
  is_lim phi1 m_infty lo1 -> is_lim phi1 p_infty hi1 ->
  is_lim phi2 m_infty lo2 -> is_lim phi2 p_infty hi2 ->
  filterlim zmap Fa (Rbar_locally m_infty) -> filterlim zmap Fb (Rbar_locally p_infty) ->
  filterlim (fun ab : R * R => V (phi1 (zmap (fst ab))) (phi2 (zmap (fst ab)))
                               - V (phi1 (zmap (snd ab))) (phi2 (zmap (snd ab))))
            (filter_prod Fa Fb) (locally (V lo1 lo2 - V hi1 hi2)).
Proof.
  intros Clo Chi L1 H1 L2 H2 Za Zb.
  assert (Cl : filterlim (fun c => V (phi1 (zmap c)) (phi2 (zmap c))) Fa (locally (V lo1 lo2))).
  { apply (filterlim_V2 Fa V (fun c => phi1 (zmap c)) (fun c => phi2 (zmap c))); [exact Clo| |].
    - apply (filterlim_comp _ _ _ zmap phi1 _ (Rbar_locally m_infty)); [exact Za|exact L1].
    - apply (filterlim_comp _ _ _ zmap phi2 _ (Rbar_locally m_infty)); [exact Za|exact L2]. }
  assert (Ch : filterlim (fun c => V (phi1 (zmap c)) (phi2 (zmap c))) Fb (locally (V hi1 hi2))).
  { apply (filterlim_V2 Fb V (fun c => phi1 (zmap c)) (fun c => phi2 (zmap c))); [exact Chi| |].
    - apply (filterlim_comp _ _ _ zmap phi1 _ (Rbar_locally p_infty)); [exact Zb|exact H1].
    - apply (filterlim_comp _ _ _ zmap phi2 _ (Rbar_locally p_infty)); [exact Zb|exact H2]. }
  apply (filterlim_comp_2 (F := filter_prod Fa Fb)
           (fun ab : R * R => V (phi1 (zmap (fst ab))) (phi2 (zmap (fst ab))))
           (fun ab : R * R => V (phi1 (zmap (snd ab))) (phi2 (zmap (snd ab))))
           Rminus (G := locally (V lo1 lo2)) (H := locally (V hi1 hi2))).
  - apply (filterlim_comp _ _ _ (@fst R R) (fun c => V (phi1 (zmap c)) (phi2 (zmap c))) _ Fa);
      [apply filterlim_fst|exact Cl].
  - apply (filterlim_comp _ _ _ (@snd R R) (fun c => V (phi1 (zmap c)) (phi2 (zmap c))) _ Fb);
      [apply filterlim_snd|exact Ch].
  - apply (filterlim_Rminus (V lo1 lo2) (V hi1 hi2)).
Qed.

Lemma differentiable_continuous_2 (V : R -> R -> R) (x y lx ly : R) :
  differentiable_pt_lim V x y lx ly -> continuous (fun p : R * R => V (fst p) (snd p)) (x, y).
Proof.
  intro H. apply (filterdiff_continuous (fun p : R * R => V (fst p) (snd p))).
  eexists. apply filterdiff_differentiable_pt_lim. exact H.
Qed.

(** * A witness for the hypotheses on the grid map: z(chi) = 1/(1-chi) - 1/(1+chi) maps
    (-1,1) onto the line, has the continuous Jacobian 1/(1-chi)^2 + 1/(1+chi)^2, and reaches
    -infinity / +infinity at chi = -1 / +1 (the hypotheses of the limit clauses are
    satisfiable) *)
Definition zmapW (c : R) : R := / (1 - c) - / (1 + c).
Definition JW (c : R) : R := / (1 - c) ^ 2 + / (1 + c) ^ 2.

Lemma zmapW_is_derive c : -1 < c < 1 -> is_derive zmapW c (JW c).
Proof.
  intros [H1 H2]. unfold zmapW, JW. auto_derive.
  - split; [lra|]. split; [lra|exact I].
  - field. split; lra.
Qed.

Lemma JW_continuous c : -1 < c < 1 -> continuous JW c.
Proof.
  intros [H1 H2]. apply edc. unfold JW. auto_derive.
  repeat split; try exact I; try lra; try (apply pow_nonzero; lra);
    try (apply Rmult_integral_contrapositive_currified; lra); nra.
Qed.

Lemma zmapW_lim_p : filterlim zmapW (at_left 1) (Rbar_locally p_infty).
Proof.
  intros P [M HM].
  assert (Hpos : 0 < / (Rmax M 0 + 2)).
  { apply Rinv_0_lt_compat. generalize (Rmax_r M 0). lra. }
  exists (mkposreal _ Hpos). intros y Hy Hy1. apply HM.
  unfold ball in Hy; cbn in Hy. unfold AbsRing_ball, abs, minus, plus, opp in Hy; cbn in Hy.
  apply Rabs_def2 in Hy. destruct Hy as [_ Hy].
  assert (Hm : M <= Rmax M 0) by apply Rmax_l.
  assert (H0 : 0 <= Rmax M 0) by apply Rmax_r.
  assert (Hle : / (Rmax M 0 + 2) <= / 2).
  { apply Rinv_le_contravar; lra. }
  assert (Hd : 0 < 1 - y) by lra.
  assert (Hbig : Rmax M 0 + 2 < / (1 - y)).
  { rewrite <- (Rinv_inv (Rmax M 0 + 2)). apply Rinv_lt_contravar; [|lra].
    apply Rmult_lt_0_compat; lra. }
  assert (Hs : / (1 + y) < 1).
  { rewrite <- Rinv_1 at 2. apply Rinv_lt_contravar; lra. }
  unfold zmapW. lra.
Qed.

Lemma zmapW_opp c : zmapW (- c) = - zmapW c.
Proof. unfold zmapW. replace (1 - - c) with (1 + c) by ring. replace (1 + - c) with (1 - c) by ring. ring. Qed.

Lemma zmapW_lim_m : filterlim zmapW (at_right (-1)) (Rbar_locally m_infty).
Proof.
  intros P [M HM].
  destruct (zmapW_lim_p (fun z => - M < z)) as [eps He]; [exists (- M); intros; assumption|].
  exists eps. intros y Hy Hy1.
  apply HM. rewrite <- (Ropp_involutive y), zmapW_opp.
  assert (H : - M < zmapW (- y)).
  { apply He; [|lra].
    unfold ball in *; cbn in *. unfold AbsRing_ball, abs, minus, plus, opp in *; cbn in *.
    replace (- y + - (1)) with (- (y + - (-1))) by ring. rewrite Rabs_Ropp. exact Hy. }
  lra.
Qed.
