(** The constant-sound-speed template model (arXiv:2010.09744, 2303.10171) and the general
    junction conditions -- repo independent algebra.

    Template equation of state (units of the property: any w_n, T_n):
        p+(T) = w+(T)/mu - eps,   w+(T) = w_n (T/T_n)^mu,     mu = 1 + 1/cs2
        p-(T) = w-(T)/nu,         w-(T) = w_n psi_n (T/T_n)^nu, nu = 1 + 1/cb2
        eps   = w_n (1/mu - (1 - 3 alpha_n)/nu).
    The closed-form template solver works with  alpha_+  defined through
        ((1 - 3 alpha_+) mu - nu) w+ = ((1 - 3 alpha_n) mu - nu) w_n
    and with eq. (20a)   (v+ - v-)(v+ v- - cb2) = 3 alpha_+ cb2 v- (1 - v+^2).
    This file proves that eq. (20a) together with conservation of the energy flux is
    conservation of the momentum flux on this equation of state (so the template solver and
    the general solver solve the same wall equations), that the closed forms used by the
    code (getVp, the detonation v-, the Jouguet velocity, _findTm) solve these relations. *)
From Coq Require Import Reals Lra Nsatz Psatz.
From WG Require Import Lib.HydroMatch.
Local Open Scope R_scope.

(** * Polynomial cores *)
(** getVp: both branches (br = +-1) of the quadratic for v+ *)
Lemma getVp_poly cb2 vm al br s :
  br * br = 1 ->
  s * s = vm^4 - 2*cb2*vm^2*(1 - 6*al) + cb2^2*(1 - 12*vm^2*al*(1 - 3*al)) ->
  let N := cb2 + vm^2 + br * s in let D := vm + 3*cb2*vm*al in
  (N - 2*D*vm) * (N*vm - 2*D*cb2) = 3*al*cb2*vm*(4*D*D - N*N).
Proof.
  intros Hb Hs N D.
  assert (Hbs : (br * s) * (br * s) = vm^4 - 2*cb2*vm^2*(1 - 6*al) + cb2^2*(1 - 12*vm^2*al*(1 - 3*al))).
  { rewrite <- Hs. replace (br * s * (br * s)) with ((br * br) * (s * s)) by ring. rewrite Hb. ring. }
  assert (Q : N*N - 2*(cb2+vm^2)*N + 4*D*vm*cb2*(1-3*al) = 0).
  { unfold N, D.
    replace ((cb2 + vm ^ 2 + br * s) * (cb2 + vm ^ 2 + br * s) - 2 * (cb2 + vm ^ 2) * (cb2 + vm ^ 2 + br * s))
      with ((br * s) * (br * s) - (cb2 + vm^2) * (cb2 + vm^2)) by ring.
    rewrite Hbs. ring. }
  replace ((N - 2*D*vm) * (N*vm - 2*D*cb2) - 3*al*cb2*vm*(4*D*D - N*N)) with (D * (N*N - 2*(cb2+vm^2)*N + 4*D*vm*cb2*(1-3*al))) in *.
  - apply Rminus_diag_uniq. 
    replace ((N - 2*D*vm) * (N*vm - 2*D*cb2) - 3*al*cb2*vm*(4*D*D - N*N)) with (D * (N*N - 2*(cb2+vm^2)*N + 4*D*vm*cb2*(1-3*al))).
    + rewrite Q. ring.
    + unfold D. ring.
  - unfold D. ring.
Qed.

(** eq. (20a) + energy flux => momentum flux, on the template equation of state *)
Lemma template_momentum_poly wN mu nu cb2 alN al eps wp wm pp pm vp vm :
  nu * cb2 = cb2 + 1 ->
  eps * mu * nu = wN * (nu - (1 - 3*alN) * mu) ->
  pp * mu = wp - eps * mu ->
  pm * nu = wm ->
  ((1 - 3*al) * mu - nu) * wp = ((1 - 3*alN) * mu - nu) * wN ->
  wp * vp * (1 - vm*vm) = wm * vm * (1 - vp*vp) ->
  (vp - vm) * (vp*vm - cb2) = 3*al*cb2*vm*(1 - vp*vp) ->
  mu * nu * cb2 * vm * ((wp * (vp*vp) + pp * (1 - vp*vp)) * (1 - vm*vm) -
  (wm * (vm*vm) + pm * (1 - vm*vm)) * (1 - vp*vp)) = 0.
Proof. intros. nsatz. Qed.

(** the detonation v- of detonationVAndT solves eq. (20a) with alpha_+ = alpha_n *)
Lemma deton_poly cb2 alN vp s vm :
  let part := vp^2 + cb2*(1 - 3*(1 - vp^2)*alN) in
  s * s = part^2 - 4*cb2*vp^2 ->
  vm * (2*vp) = part + s ->
  4*vp*((vp - vm) * (vp*vm - cb2) - 3*alN*cb2*vm*(1 - vp*vp)) = 0.
Proof.
  intros part Hs Hv.
  replace (4*vp*((vp - vm) * (vp*vm - cb2) - 3*alN*cb2*vm*(1 - vp*vp)))
    with (- ((vm*(2*vp)) * (vm*(2*vp)) - 2*part*(vm*(2*vp)) + 4*cb2*vp^2)) by (unfold part; ring).
  rewrite Hv.
  replace ((part + s) * (part + s) - 2 * part * (part + s) + 4 * cb2 * vp ^ 2)
    with (s * s - part^2 + 4*cb2*vp^2) by ring.
  rewrite Hs. ring.
Qed.

(** the template Jouguet velocity: v- = cb behind the wall (Chapman-Jouguet) *)
Lemma vJ_poly cb cb2 alN s vJ :
  cb * cb = cb2 -> s * s = 3*alN*(1 - cb2 + 3*cb2*alN) ->
  vJ * (1 + 3*cb2*alN) = cb * (1 + s) ->
  (1 + 3*cb2*alN) * (vJ^2 + cb2*(1 - 3*(1 - vJ^2)*alN) - 2*cb*vJ) = 0.
Proof.
  intros Hc Hs Hv.
  replace ((1 + 3*cb2*alN) * (vJ^2 + cb2*(1 - 3*(1 - vJ^2)*alN) - 2*cb*vJ))
    with ((vJ * (1 + 3*cb2*alN)) * (vJ * (1 + 3*cb2*alN)) - 2*cb*(vJ * (1 + 3*cb2*alN))
          + (1 + 3*cb2*alN) * cb2 * (1 - 3*alN)) by ring.
  rewrite Hv.
  replace (cb * (1 + s) * (cb * (1 + s)) - 2 * cb * (cb * (1 + s)))
    with ((cb * cb) * (s * s - 1)) by ring.
  rewrite Hc, Hs. ring.
Qed.

(** converse direction: both fluxes conserved => eq. (20a) *)
Lemma template_20a_poly wN mu nu cb2 alN al eps wp wm pp pm vp vm :
  nu * cb2 = cb2 + 1 ->
  eps * mu * nu = wN * (nu - (1 - 3*alN) * mu) ->
  pp * mu = wp - eps * mu ->
  pm * nu = wm ->
  ((1 - 3*al) * mu - nu) * wp = ((1 - 3*alN) * mu - nu) * wN ->
  wp * vp * (1 - vm*vm) = wm * vm * (1 - vp*vp) ->
  (wp * (vp*vp) + pp * (1 - vp*vp)) * (1 - vm*vm) =
  (wm * (vm*vm) + pm * (1 - vm*vm)) * (1 - vp*vp) ->
  wp * (1 - vm*vm) * ((vp - vm) * (vp*vm - cb2) - 3*al*cb2*vm*(1 - vp*vp)) = 0.
Proof. intros. nsatz. Qed.

(** * Real powers *)
Lemma Rpower_inv_exp x n : 0 < x -> n <> 0 -> Rpower (Rpower x (1 / n)) n = x.
Proof.
  intros Hx Hn. rewrite Rpower_mult. replace (1 / n * n) with 1 by (field; exact Hn).
  apply Rpower_1. exact Hx.
Qed.

Lemma Rpower_scale t x m : 0 < t -> 0 < x -> Rpower (t * x) m = Rpower t m * Rpower x m.
Proof. intros. symmetry. apply Rpower_mult_distr; assumption. Qed.

Lemma Rpower_div t x m : 0 < t -> 0 < x -> Rpower (x / t) m = Rpower x m / Rpower t m.
Proof.
  intros Ht Hx. unfold Rpower, Rdiv.
  rewrite ln_mult by (try apply Rinv_0_lt_compat; assumption). rewrite ln_Rinv by exact Ht.
  replace (m * (ln x + - ln t)) with (m * ln x + - (m * ln t)) by ring.
  rewrite exp_plus, exp_Ropp. reflexivity.
Qed.

(** * The template equation of state and the general junction relations *)
Section Template.
Variables wN Tn alN psiN cb2 cs2 : R.
Hypothesis HwN : 0 < wN.
Hypothesis HTn : 0 < Tn.
Hypothesis Hcb2 : 0 < cb2.
Hypothesis Hcs2 : 0 < cs2.
Hypothesis Hpsi : 0 < psiN.
Definition mu_ := 1 + 1 / cs2.
Definition nu_ := 1 + 1 / cb2.
Definition eps_ := wN * (1 / mu_ - (1 - 3 * alN) / nu_).
Definition wH (T : R) := wN * Rpower (T / Tn) mu_.
Definition wL (T : R) := wN * psiN * Rpower (T / Tn) nu_.
Definition pH (T : R) := wH T / mu_ - eps_.
Definition pL (T : R) := wL T / nu_.
Definition eH (T : R) := wH T - pH T.
Definition eL (T : R) := wL T - pL T.
(** alpha_+ belongs to the enthalpy w+ in front of the wall *)
Definition alpha_of (al wp : R) : Prop :=
  ((1 - 3 * al) * mu_ - nu_) * wp = ((1 - 3 * alN) * mu_ - nu_) * wN.

Lemma mu_pos : 1 < mu_.
Proof. unfold mu_. assert (0 < 1 / cs2) by (apply Rdiv_lt_0_compat; lra). lra. Qed.
Lemma nu_pos : 1 < nu_.
Proof. unfold nu_. assert (0 < 1 / cb2) by (apply Rdiv_lt_0_compat; lra). lra. Qed.
Lemma nu_cb2 : nu_ * cb2 = cb2 + 1.
Proof. unfold nu_. field. lra. Qed.
Lemma wH_pos T : 0 < wH T.
Proof. unfold wH. apply Rmult_lt_0_compat; [exact HwN|apply exp_pos]. Qed.
Lemma wL_pos T : 0 < wL T.
Proof. unfold wL. repeat apply Rmult_lt_0_compat; try assumption. apply exp_pos. Qed.

(** the template solver's two equations are the conservation laws *)
Theorem template_equations_conserve al vp vm Tp Tm :
  0 < vp < 1 -> 0 < vm < 1 ->
  alpha_of al (wH Tp) ->
  (vp - vm) * (vp * vm - cb2) = 3 * al * cb2 * vm * (1 - vp * vp) ->   (* eq. (20a) *)
  eflux (wH Tp) vp = eflux (wL Tm) vm ->                              (* _findTm *)
  mflux (wH Tp) (pH Tp) vp = mflux (wL Tm) (pL Tm) vm.
Proof.
  intros Hp Hm Hal H20 HE.
  pose proof mu_pos as Hmu. pose proof nu_pos as Hnu. pose proof nu_cb2 as Hnc.
  pose proof (one_minus_sq_pos vp Hp) as Gp. pose proof (one_minus_sq_pos vm Hm) as Gm.
  assert (E : wH Tp * vp * (1 - vm * vm) = wL Tm * vm * (1 - vp * vp)).
  { unfold eflux, g2 in HE.
    apply Rmult_eq_reg_r with (/ ((1 - vp * vp) * (1 - vm * vm))); [|apply Rinv_neq_0_compat; nra].
    transitivity (wH Tp * (1 / (1 - vp * vp)) * vp); [field; lra|].
    rewrite HE. field. lra. }
  assert (M := template_momentum_poly wN mu_ nu_ cb2 alN al eps_ (wH Tp) (wL Tm) (pH Tp) (pL Tm) vp vm Hnc).
  assert (M' : mu_ * nu_ * cb2 * vm *
    ((wH Tp * (vp * vp) + pH Tp * (1 - vp * vp)) * (1 - vm * vm) -
     (wL Tm * (vm * vm) + pL Tm * (1 - vm * vm)) * (1 - vp * vp)) = 0).
  { apply M; try assumption.
    - unfold eps_. field. lra.
    - unfold pH. field. lra.
    - unfold pL. field. lra. }
  assert (M2 : (wH Tp * (vp * vp) + pH Tp * (1 - vp * vp)) * (1 - vm * vm) =
               (wL Tm * (vm * vm) + pL Tm * (1 - vm * vm)) * (1 - vp * vp)).
  { apply Rminus_diag_uniq. apply Rmult_eq_reg_l with (mu_ * nu_ * cb2 * vm).
    - rewrite M'. ring.
    - assert (0 < mu_ * nu_ * cb2 * vm) by (repeat apply Rmult_lt_0_compat; lra). lra. }
  unfold mflux, g2.
  apply Rmult_eq_reg_r with ((1 - vp * vp) * (1 - vm * vm)); [|nra].
  transitivity ((wH Tp * (vp * vp) + pH Tp * (1 - vp * vp)) * (1 - vm * vm)); [field; lra|].
  rewrite M2. field. lra.
Qed.

(** conversely the conservation laws give eq. (20a): nothing else is solved *)
Theorem conserve_template_equations al vp vm Tp Tm :
  0 < vp < 1 -> 0 < vm < 1 ->
  alpha_of al (wH Tp) ->
  eflux (wH Tp) vp = eflux (wL Tm) vm ->
  mflux (wH Tp) (pH Tp) vp = mflux (wL Tm) (pL Tm) vm ->
  (vp - vm) * (vp * vm - cb2) = 3 * al * cb2 * vm * (1 - vp * vp).
Proof.
  intros Hp Hm Hal HE HM.
  pose proof mu_pos as Hmu. pose proof nu_pos as Hnu. pose proof nu_cb2 as Hnc.
  pose proof (one_minus_sq_pos vp Hp) as Gp. pose proof (one_minus_sq_pos vm Hm) as Gm.
  assert (E : wH Tp * vp * (1 - vm * vm) = wL Tm * vm * (1 - vp * vp)).
  { unfold eflux, g2 in HE.
    apply Rmult_eq_reg_r with (/ ((1 - vp * vp) * (1 - vm * vm))); [|apply Rinv_neq_0_compat; nra].
    transitivity (wH Tp * (1 / (1 - vp * vp)) * vp); [field; lra|].
    rewrite HE. field. lra. }
  assert (M2 : (wH Tp * (vp * vp) + pH Tp * (1 - vp * vp)) * (1 - vm * vm) =
               (wL Tm * (vm * vm) + pL Tm * (1 - vm * vm)) * (1 - vp * vp)).
  { unfold mflux, g2 in HM.
    apply Rmult_eq_reg_r with (/ ((1 - vp * vp) * (1 - vm * vm))); [|apply Rinv_neq_0_compat; nra].
    transitivity (wH Tp * (1 / (1 - vp * vp)) * (vp * vp) + pH Tp); [field; lra|].
    rewrite HM. field. lra. }
  assert (Q := template_20a_poly wN mu_ nu_ cb2 alN al eps_ (wH Tp) (wL Tm) (pH Tp) (pL Tm) vp vm Hnc).
  assert (Q' : wH Tp * (1 - vm * vm) *
     ((vp - vm) * (vp * vm - cb2) - 3 * al * cb2 * vm * (1 - vp * vp)) = 0).
  { apply Q; try assumption.
    - unfold eps_. field. lra.
    - unfold pH. field. lra.
    - unfold pL. field. lra. }
  apply Rminus_diag_uniq. apply Rmult_eq_reg_l with (wH Tp * (1 - vm * vm)).
  - rewrite Q'. ring.
  - pose proof (wH_pos Tp). assert (0 < wH Tp * (1 - vm * vm)) by (apply Rmult_lt_0_compat; lra). lra.
Qed.

(** the template object's alpha_n, psi_n, eps recomputed from the equation of state *)
Lemma wH_Tn : wH Tn = wN.
Proof.
  unfold wH. replace (Tn / Tn) with 1 by (field; lra).
  unfold Rpower. rewrite ln_1, Rmult_0_r, exp_0. ring.
Qed.
Lemma wL_Tn : wL Tn = wN * psiN.
Proof.
  unfold wL. replace (Tn / Tn) with 1 by (field; lra).
  unfold Rpower. rewrite ln_1, Rmult_0_r, exp_0. ring.
Qed.
Theorem alpha_n_recovered :
  ((wH Tn - pH Tn) - (wL Tn - pL Tn) - (pH Tn - pL Tn) / cb2) / (3 * wH Tn) = alN.
Proof.
  pose proof mu_pos as Hmu. pose proof nu_pos as Hnu.
  unfold pH, pL. rewrite wH_Tn, wL_Tn. unfold eps_, nu_, mu_.
  field. repeat split; lra.
Qed.

(** _findTm: T- from conservation of the energy flux *)
Theorem findTm_energy_flux vp vm Tp :
  0 < vp < 1 -> 0 < vm < 1 -> 0 < Tp ->
  let ap := 3 / (mu_ * Rpower Tn mu_) in
  let am := 3 * psiN / (nu_ * Rpower Tn nu_) in
  let Tm := Rpower (ap * vp * mu_ * (1 - vm ^ 2) * Rpower Tp mu_ /
                    (am * vm * nu_ * (1 - vp ^ 2))) (1 / nu_) in
  0 < Tm /\ eflux (wH Tp) vp = eflux (wL Tm) vm.
Proof.
  intros Hp Hm HTp ap am Tm.
  pose proof mu_pos as Hmu. pose proof nu_pos as Hnu.
  pose proof (one_minus_sq_pos vp Hp) as Gp. pose proof (one_minus_sq_pos vm Hm) as Gm.
  assert (P1 : 0 < Rpower Tn mu_) by apply exp_pos.
  assert (P2 : 0 < Rpower Tn nu_) by apply exp_pos.
  assert (P3 : 0 < Rpower Tp mu_) by apply exp_pos.
  assert (Hap : 0 < ap) by (unfold ap; apply Rdiv_lt_0_compat; [lra|apply Rmult_lt_0_compat; lra]).
  assert (Ham : 0 < am).
  { unfold am. apply Rdiv_lt_0_compat; [|apply Rmult_lt_0_compat; lra].
    apply Rmult_lt_0_compat; lra. }
  set (X := ap * vp * mu_ * (1 - vm ^ 2) * Rpower Tp mu_ / (am * vm * nu_ * (1 - vp ^ 2))) in *.
  assert (G1 : 0 < 1 - vm ^ 2) by (replace (vm ^ 2) with (vm * vm) by ring; lra).
  assert (G2 : 0 < 1 - vp ^ 2) by (replace (vp ^ 2) with (vp * vp) by ring; lra).
  assert (HX : 0 < X).
  { unfold X. apply Rdiv_lt_0_compat; repeat (apply Rmult_lt_0_compat; [|lra]); lra. }
  assert (HT : Rpower Tm nu_ = X) by (unfold Tm; apply Rpower_inv_exp; lra).
  split; [unfold Tm; apply exp_pos|].
  unfold eflux, g2, wH, wL.
  rewrite !Rpower_div by (try lra; unfold Tm; apply exp_pos).
  rewrite HT. unfold X, ap, am.
  replace (vm ^ 2) with (vm * vm) by ring. replace (vp ^ 2) with (vp * vp) by ring.
  field. repeat split; lra.
Qed.

(** T+ = Tn w^(1/mu)  <->  w+(T+) = w_n w *)
Lemma Tp_from_w w : 0 < w -> wH (Tn * Rpower w (1 / mu_)) = wN * w.
Proof.
  intro Hw. pose proof mu_pos as Hmu. unfold wH.
  replace (Tn * Rpower w (1 / mu_) / Tn) with (Rpower w (1 / mu_)) by (field; lra).
  rewrite Rpower_inv_exp by lra. reflexivity.
Qed.
End Template.

(** * _findTm for an arbitrary template object (mu, nu any positive exponents) *)
(** enthalpies as the template class itself uses them (findHydroBoundaries, efficiencyFactor):
    w+ = wN (T+/Tn)^mu,  w- = wN psiN (T-/Tn)^nu *)
Theorem findTm_energy_flux_gen wN Tn psiN mu nu vp vm Tp :
  0 < Tn -> 0 < psiN -> 0 < mu -> 0 < nu -> 0 < vp < 1 -> 0 < vm < 1 -> 0 < Tp ->
  let ap := 3 / (mu * Rpower Tn mu) in
  let am := 3 * psiN / (nu * Rpower Tn nu) in
  let Tm := Rpower (ap * vp * mu * (1 - vm ^ 2) * Rpower Tp mu /
                    (am * vm * nu * (1 - vp ^ 2))) (1 / nu) in
  0 < Tm /\
  eflux (wN * Rpower (Tp / Tn) mu) vp = eflux (wN * psiN * Rpower (Tm / Tn) nu) vm.
Proof.
  intros HTn Hpsi Hmu Hnu Hp Hm HTp ap am Tm.
  pose proof (one_minus_sq_pos vp Hp) as Gp. pose proof (one_minus_sq_pos vm Hm) as Gm.
  assert (P1 : 0 < Rpower Tn mu) by apply exp_pos.
  assert (P2 : 0 < Rpower Tn nu) by apply exp_pos.
  assert (P3 : 0 < Rpower Tp mu) by apply exp_pos.
  assert (Hap : 0 < ap) by (unfold ap; apply Rdiv_lt_0_compat; [lra|apply Rmult_lt_0_compat; lra]).
  assert (Ham : 0 < am).
  { unfold am. apply Rdiv_lt_0_compat; [|apply Rmult_lt_0_compat; lra].
    apply Rmult_lt_0_compat; lra. }
  set (X := ap * vp * mu * (1 - vm ^ 2) * Rpower Tp mu / (am * vm * nu * (1 - vp ^ 2))) in *.
  assert (G1 : 0 < 1 - vm ^ 2) by (replace (vm ^ 2) with (vm * vm) by ring; lra).
  assert (G2 : 0 < 1 - vp ^ 2) by (replace (vp ^ 2) with (vp * vp) by ring; lra).
  assert (HX : 0 < X).
  { unfold X. apply Rdiv_lt_0_compat; repeat (apply Rmult_lt_0_compat; [|lra]); lra. }
  assert (HT : Rpower Tm nu = X) by (unfold Tm; apply Rpower_inv_exp; lra).
  split; [unfold Tm; apply exp_pos|].
  unfold eflux, g2.
  rewrite !Rpower_div by (try lra; unfold Tm; apply exp_pos).
  rewrite HT. unfold X, ap, am.
  replace (vm ^ 2) with (vm * vm) by ring. replace (vp ^ 2) with (vp * vp) by ring.
  field. repeat split; lra.
Qed.
