(** Linear independence of the (restricted) Chebyshev basis functions and injectivity of
    the basis matrix that [Polynomial.changeBasis] inverts.  Repo independent.

    Key fact: T_n is NOT a polynomial with only n coefficients, because it has the n distinct
    roots cos((2j+1) pi / 2n) and T_n(1) = 1. *)
From Coq Require Import Reals List Lra Lia ZArith Arith Bool.
From WG Require Import Lib.Lagrange Lib.Cheb Lib.Spectral.
Import ListNotations.
Local Open Scope R_scope.

Lemma NoDup_map_seq (f : nat -> R) a len :
  (forall i j, (a <= i < j)%nat -> (j < a + len)%nat -> f i <> f j) ->
  NoDup (map f (seq a len)).
Proof.
  revert a. induction len as [|len IH]; intros a H; [constructor|].
  cbn [seq map]. constructor.
  - intro K. apply in_map_iff in K. destruct K as [j [E Hj]]. apply in_seq in Hj.
    apply (H a j); [lia|lia|now symmetry].
  - apply IH. intros i j Hij Hj. apply H; lia.
Qed.

Definition cheb_root (n j : nat) : R := cos ((2 * INR j + 1) * (PI / (2 * INR n))).

Lemma cheb_root_is_root n j : (1 <= n)%nat -> TR n (cheb_root n j) = 0.
Proof.
  intro Hn. unfold cheb_root. rewrite cheb_cos.
  assert (Hn0 : INR n <> 0) by (apply not_0_INR; lia).
  replace (INR n * ((2 * INR j + 1) * (PI / (2 * INR n)))) with (IZR (Z.of_nat j) * PI + PI / 2).
  - apply cos_eq_0_1. exists (Z.of_nat j). reflexivity.
  - rewrite <- INR_IZR_INZ. field. exact Hn0.
Qed.

Lemma cheb_roots_distinct n : (1 <= n)%nat -> NoDup (map (cheb_root n) (seq 0 n)).
Proof.
  intro Hn. apply NoDup_map_seq. intros i j Hij Hj. unfold cheb_root.
  assert (Hn0 : 0 < INR n) by (apply lt_0_INR; lia).
  set (h := PI / (2 * INR n)).
  assert (Hh : 0 < h) by (unfold h; apply Rdiv_lt_0_compat; [apply PI_RGT_0|lra]).
  assert (Hpi : 2 * INR n * h = PI) by (unfold h; field; lra).
  assert (Hi : 0 <= INR i) by apply pos_INR.
  assert (Hlt : INR i < INR j) by (apply lt_INR; lia).
  assert (Hjn : INR j + 1 <= INR n) by (rewrite <- S_INR; apply le_INR; lia).
  apply Rgt_not_eq. apply cos_decreasing_1.
  - nra.
  - nra.
  - nra.
  - nra.
  - nra.
Qed.

(** T_n has exact degree n *)
Lemma TR_not_lower n : ~ is_poly n (TR n).
Proof.
  intro H. destruct n as [|n].
  - destruct H as [a [L E]]. destruct a; [|cbn in L; lia]. specialize (E 0). cbn in E. lra.
  - assert (Hn : (1 <= S n)%nat) by lia.
    pose proof (is_poly_roots (S n) (TR (S n)) (map (cheb_root (S n)) (seq 0 (S n))) H
                              (cheb_roots_distinct (S n) Hn)) as Z.
    rewrite map_length, seq_length in Z. specialize (Z (le_n _)).
    assert (Hr : forall r, In r (map (cheb_root (S n)) (seq 0 (S n))) -> TR (S n) r = 0).
    { intros r Hin. apply in_map_iff in Hin. destruct Hin as [j [<- _]].
      now apply cheb_root_is_root. }
    specialize (Z Hr 1). rewrite TR_at_1 in Z. lra.
Qed.

(** tight degree bound of the basis functions *)
Lemma chebyshev_is_poly_tight n r :
  (r = RFull -> (1 <= n)%nat) -> is_poly (S n) (fun y => chebyshev ROps y n r).
Proof.
  intro Hr. pose proof (TR_is_poly n) as H.
  destruct r; unfold chebyshev; cbn [ROps osub o1].
  - exact H.
  - specialize (Hr eq_refl). destruct (Nat.even n).
    + apply (is_poly_minus _ (TR n) (fun _ => 1)); [exact H|].
      apply (is_poly_mono 1); [lia|apply is_poly_const].
    + apply (is_poly_minus _ (TR n) (fun y => y)); [exact H|].
      apply (is_poly_mono 2); [lia|apply is_poly_id].
  - apply (is_poly_minus _ (TR n) (fun _ => 1)); [exact H|].
    apply (is_poly_mono 1); [lia|apply is_poly_const].
Qed.
(** what is subtracted from T_n has at most n coefficients *)
Lemma restriction_term_low n r :
  (r = RFull -> (2 <= n)%nat) -> (r = RPartial -> (1 <= n)%nat) ->
  is_poly n (fun y => TR n y - chebyshev ROps y n r).
Proof.
  intros HF HP. destruct r; unfold chebyshev; cbn [ROps osub o1]; fold (TR n).
  - apply (is_poly_ext _ (fun _ => 0)); [intro; unfold TR; ring|]. exists []. split; [cbn; lia|reflexivity].
  - specialize (HF eq_refl). destruct (Nat.even n).
    + apply (is_poly_ext _ (fun _ => 1)); [intro; unfold TR; ring|].
      apply (is_poly_mono 1); [lia|apply is_poly_const].
    + apply (is_poly_ext _ (fun y => y)); [intro; unfold TR; ring|].
      apply (is_poly_mono 2); [lia|apply is_poly_id].
  - specialize (HP eq_refl). apply (is_poly_ext _ (fun _ => 1)); [intro; unfold TR; ring|].
    apply (is_poly_mono 1); [lia|apply is_poly_const].
Qed.

Lemma odot_app_R (a1 a2 b1 b2 : list R) : length a1 = length b1 ->
  odot ROps (a1 ++ a2) (b1 ++ b2) = odot ROps a1 b1 + odot ROps a2 b2.
Proof.
  revert b1. induction a1 as [|x a1 IH]; intros [|y b1] L; try discriminate L.
  - cbn. ring.
  - cbn [app odot]. rewrite IH by (cbn in L; lia). cbn. ring.
Qed.

Lemma split_last (c : list R) len : length c = S len ->
  exists c' cK, c = c' ++ [cK] /\ length c' = len.
Proof.
  intro L. assert (Hc : c <> []) by (intro E; subst c; discriminate L).
  exists (removelast c), (last c 0). split; [now apply app_removelast_last|].
  rewrite (app_removelast_last 0 Hc) in L. rewrite app_length in L. cbn in L. lia.
Qed.

(** ** linear independence: a vanishing combination of phi_lo .. phi_{lo+len-1} has zero
    coefficients *)
Lemma cheb_independent r lo : (r = RFull -> (2 <= lo)%nat) -> (r = RPartial -> (1 <= lo)%nat) ->
  forall len c, length c = len ->
  (forall y, odot ROps (map (fun n => chebyshev ROps y n r) (seq lo len)) c = 0) ->
  Forall (fun v => v = 0) c.
Proof.
  intros HF HP. induction len as [|len IH]; intros c L H.
  - destruct c; [constructor|discriminate L].
  - destruct (split_last c len L) as [c' [cK [-> L']]].
    assert (Hsplit : forall y,
      odot ROps (map (fun n => chebyshev ROps y n r) (seq lo len)) c'
      + chebyshev ROps y (lo + len) r * cK = 0).
    { intro y. specialize (H y). rewrite seq_S, map_app in H.
      rewrite odot_app_R in H by (now rewrite map_length, seq_length).
      cbn [map odot] in H. cbn [ROps oadd omul o0] in H. lra. }
    destruct (Req_EM_T cK 0) as [Z|NZ].
    + apply Forall_app. split; [|constructor; [exact Z|constructor]].
      apply IH; [exact L'|]. intro y. specialize (Hsplit y). rewrite Z in Hsplit. lra.
    + exfalso. apply (TR_not_lower (lo + len)).
      (* T_K = (T_K - phi_K) - (1/cK) * sum of the lower terms *)
      apply (is_poly_ext _ (fun y => (TR (lo + len) y - chebyshev ROps y (lo + len) r)
              - (/ cK) * odot ROps (map (fun f => f y)
                   (map (fun n => fun z => chebyshev ROps z n r) (seq lo len))) c')).
      * intro y. rewrite map_map. specialize (Hsplit y).
        apply (Rmult_eq_reg_l cK); [|exact NZ]. field_simplify; [|exact NZ]. lra.
      * apply is_poly_minus.
        -- destruct (Nat.eq_dec (lo + len) 0) as [E0|E0].
           ++ (* only possible without restriction *)
              destruct r; [|specialize (HF eq_refl); lia|specialize (HP eq_refl); lia].
              rewrite E0. apply (is_poly_ext _ (fun _ => 0)); [intro; cbn; ring|].
              exists []. split; [cbn; lia|reflexivity].
           ++ apply restriction_term_low; intro E; [specialize (HF E)|specialize (HP E)]; lia.
        -- apply is_poly_scal.
           destruct (Nat.eq_dec (lo + len) 0) as [E0|E0].
           ++ assert (E1 : len = 0%nat) by lia. rewrite E1 in L'. destruct c'; [|discriminate L'].
              rewrite E0. apply (is_poly_ext _ (fun _ => 0));
                [intro; destruct (map _ _); reflexivity|].
              exists []. split; [cbn; lia|reflexivity].
           ++ apply odot_is_poly; [lia|]. intros f Hf. apply in_map_iff in Hf.
              destruct Hf as [n [<- Hn]]. apply in_seq in Hn.
              apply (is_poly_mono (S n)); [lia|]. apply chebyshev_is_poly_tight.
              intro E. specialize (HF E). lia.
Qed.

(** ** basis_matrix_injective: the matrix changeBasis builds (and inverts) has trivial
    kernel, for every direction and end-point flag, on any well-formed grid *)
Theorem tnMatrix_injective d ep M N grid c :
  grid_ok d M N grid -> sizes_ok d M N ->
  length c = length (cfg_range (cfg_changeBasis d ep M N)) ->
  Forall (fun v => v = 0) (omatvec ROps (tnMatrix ROps d ep grid M N) c) ->
  Forall (fun v => v = 0) c.
Proof.
  intros G HS L HZ. pose proof G as [Hnd [Lg [Hl Hh]]].
  rewrite tnMatrix_values in HZ.
  assert (Hzero : forall y, chebFun d ep M N c y = 0).
  { apply (is_poly_roots (gsize d M N) (chebFun d ep M N c) grid).
    - now apply chebFun_is_poly.
    - exact Hnd.
    - lia.
    - intros g Hg. destruct (in_dec Req_EM_T g (trim d ep grid)) as [K|K].
      + rewrite Forall_forall in HZ. apply HZ. apply in_map_iff. now exists g.
      + now apply (chebFun_vanish d ep M N grid c g G). }
  unfold chebFun, cfg_range, arange in Hzero, L.
  apply (cheb_independent (eff_restr d ep) (c_lo (cfg_changeBasis d ep M N)))
    with (len := (c_hi (cfg_changeBasis d ep M N) - c_lo (cfg_changeBasis d ep M N))%nat).
  - destruct d, ep; cbn; intro E; try discriminate E; lia.
  - destruct d, ep; cbn; intro E; try discriminate E; lia.
  - now rewrite seq_length in L.
  - exact Hzero.
Qed.

(** the number of columns equals the number of rows (square matrix) *)
Lemma tnMatrix_square d ep M N (grid : list R) :
  length grid = gsize d M N -> sizes_ok d M N ->
  length (cfg_range (cfg_changeBasis d ep M N)) = length (trim d ep grid).
Proof.
  intros L HS. rewrite trim_pyslice. unfold pyslice, cfg_range, arange.
  rewrite seq_length, firstn_length, skipn_length, L.
  destruct d, ep; cbn in *; lia.
Qed.

(** ** uniqueness of the Chebyshev coefficients and the round trip *)
Definition vdiff (c c' : list R) : list R := map (fun p => -1 * fst p + snd p) (combine c c').

Lemma vdiff_zero c c' : length c = length c' -> Forall (fun v => v = 0) (vdiff c c') -> c' = c.
Proof.
  revert c'. induction c as [|x c IH]; intros [|y c'] L H; try discriminate L; [reflexivity|].
  unfold vdiff in H. cbn [combine map fst snd] in H. inversion H as [|? ? H1 H2]; subst.
  f_equal; [lra|]. apply IH; [cbn in L; lia|exact H2].
Qed.

Lemma omatvec_vdiff m c c' : length c = length c' ->
  omatvec ROps m (vdiff c c') =
  map (fun p => -1 * fst p + snd p) (combine (omatvec ROps m c) (omatvec ROps m c')).
Proof.
  intro L. unfold omatvec, vdiff. induction m as [|r m IH]; [reflexivity|].
  cbn [map combine fst snd]. rewrite IH. f_equal. now apply odot_linear.
Qed.

Lemma vdiff_self v : Forall (fun x => x = 0) (map (fun p => -1 * fst p + snd p) (combine v v)).
Proof. induction v as [|x v IH]; cbn; constructor; [ring|exact IH]. Qed.

(** two coefficient vectors with the same grid values are equal *)
Theorem tnMatrix_unique d ep M N grid c c' :
  grid_ok d M N grid -> sizes_ok d M N ->
  length c = length (cfg_range (cfg_changeBasis d ep M N)) -> length c' = length c ->
  omatvec ROps (tnMatrix ROps d ep grid M N) c' = omatvec ROps (tnMatrix ROps d ep grid M N) c ->
  c' = c.
Proof.
  intros G HS L L' E. apply vdiff_zero; [now symmetry|].
  apply (tnMatrix_injective d ep M N grid (vdiff c c') G HS).
  - unfold vdiff. rewrite map_length, combine_length, L'. rewrite Nat.min_id. exact L.
  - rewrite omatvec_vdiff by (now symmetry). rewrite E. apply vdiff_self.
Qed.

(** round trip.  [inv] stands for what the implementation computes with np.linalg.inv; the
    only thing assumed about it is the RESIDUAL property  T (inv v) = v  (checked on every
    run by applying the model matrix to the implementation's output).  Then both round trips
    hold: Chebyshev -> Cardinal -> Chebyshev returns the coefficients (this is where
    injectivity of the basis matrix is used), and Cardinal -> Chebyshev -> Cardinal returns
    the grid values. *)
Theorem roundtrip_from_residual d ep M N grid (inv : list R -> list R) :
  grid_ok d M N grid -> sizes_ok d M N ->
  let n := length (cfg_range (cfg_changeBasis d ep M N)) in
  let T := tnMatrix ROps d ep grid M N in
  (forall v, length v = n -> length (inv v) = n /\ omatvec ROps T (inv v) = v) ->
  (forall c, length c = n -> inv (omatvec ROps T c) = c) /\
  (forall v, length v = n -> omatvec ROps T (inv v) = v).
Proof.
  intros G HS n T Hinv. split; [|intros v Lv; now apply Hinv].
  intros c Lc.
  assert (Lt : length (omatvec ROps T c) = n).
  { unfold omatvec, T, tnMatrix. rewrite !map_length.
    destruct G as [_ [Lg _]]. symmetry. now apply tnMatrix_square. }
  destruct (Hinv _ Lt) as [Li Ei].
  apply (tnMatrix_unique d ep M N grid c (inv (omatvec ROps T c)) G HS Lc); [lia|exact Ei].
Qed.
