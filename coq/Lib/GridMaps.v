(** Analysis behind WallGo's grid coordinate maps (property C17), proved once for all parameters.

    - [incr_of_pos_deriv]: positive derivative on an open interval => strictly increasing (MVT);
    - derivative of [atanh_R] (NumpySem: real part of the complex arctanh) inside (-1,1) and above 1;
    - the two kinds of arctanh terms of the three-scale map: their arguments lie above 1 / inside
      (-1,1) on the whole open interval, and their derivative is  K / (2 s (1 -+ x));
    - the simple maps  chi <-> xi, rho_z <-> p_z, rho_par <-> p_par : inverses, Jacobians;
    - [map3]/[jac3]: the five-term map and the separately coded Jacobian of Grid3Scales, in the shape
      of the source ([map3_derive]: jac3 is the derivative of map3 on (-1,1), for all parameters
      with aIn, aOut, r nonzero);
    - [a_of]: the smoothing parameters chosen by _updateParameters; under the asserted parameter
      bounds ([admissible]) the slope at the centre is L/r ([jac3_centre]) and the Jacobian is
      positive when smoothing <= 1 ([jac3_pos]).
    No external numerics, no section hypotheses survive: everything is closed. *)
From Coq Require Import Reals Lra Psatz.
From Coquelicot Require Import Coquelicot.
From WG Require Import Lib.NumpySem.
Local Open Scope R_scope.


Lemma incr_of_pos_deriv (f df : R -> R) (lo hi : R) :
  (forall x, lo < x < hi -> is_derive f x (df x)) ->
  (forall x, lo < x < hi -> 0 < df x) ->
  forall x y, lo < x -> x < y -> y < hi -> f x < f y.
Proof.
  intros Hd Hp x y Hx Hxy Hy.
  destruct (MVT_gen f x y df) as [c [Hc Heq]].
  - intros t Ht. rewrite Rmin_left, Rmax_right in Ht by lra. apply Hd. lra.
  - intros t Ht. rewrite Rmin_left, Rmax_right in Ht by lra.
    apply continuity_pt_filterlim. apply (ex_derive_continuous f t). exists (df t). apply Hd. lra.
  - rewrite Rmin_left, Rmax_right in Hc by lra.
    assert (0 < df c) by (apply Hp; lra). nra.
Qed.

Lemma is_derive_atanh_R_inside u : -1 < u < 1 -> is_derive atanh_R u (/ (1 - u^2)).
Proof.
  intros Hu.
  apply (is_derive_ext_loc (fun t => /2 * ln ((1+t)/(1-t)))).
  - apply (locally_interval _ u (-1) 1); simpl; try lra.
    intros y Hy1 Hy2. simpl in *. symmetry. apply atanh_R_inside. lra.
  - auto_derive.
    + repeat split; try lra. apply Rmult_lt_0_compat; [lra|]. apply Rinv_0_lt_compat; lra.
    + field. split; nra.
Qed.

Lemma is_derive_atanh_R_outside u : 1 < u -> is_derive atanh_R u (/ (1 - u^2)).
Proof.
  intros Hu.
  apply (is_derive_ext_loc (fun t => /2 * ln ((t+1)/(t-1)))).
  - apply (locally_interval _ u 1 p_infty); simpl; try lra; auto.
    intros y Hy1 Hy2. simpl in *. symmetry. apply atanh_R_outside. lra.
  - auto_derive.
    + repeat split; try lra. apply Rmult_lt_0_compat; [lra|]. apply Rinv_0_lt_compat; lra.
    + field. split; nra.
Qed.

Lemma sqrt_gt_abs a t : a <> 0 -> Rabs t < sqrt (a^2 + t^2).
Proof.
  intro Ha. assert (0 < a * a) by (destruct (Rtotal_order a 0) as [|[|]]; [nra|lra|nra]).
  rewrite <- (sqrt_Rsqr_abs t). apply sqrt_lt_1_alt. unfold Rsqr. split; nra.
Qed.
Lemma sq_pos_of_neq a : a <> 0 -> 0 < a ^ 2.
Proof. intro Ha. destruct (Rtotal_order a 0) as [|[|]]; [nra|lra|nra]. Qed.

Section Terms.
Variables a rho : R.
Hypothesis Ha : a <> 0.
Definition Sq (x : R) := sqrt (a^2 + (x - rho)^2).

Lemma Sq_pos x : 0 < Sq x.
Proof. unfold Sq. pose proof (sq_pos_of_neq a Ha). apply sqrt_lt_R0. pose proof (pow2_ge_0 (x - rho)). lra. Qed.
Lemma Sq_sq x : Sq x * Sq x = a^2 + (x - rho)^2.
Proof. unfold Sq. pose proof (sq_pos_of_neq a Ha). apply sqrt_sqrt. pose proof (pow2_ge_0 (x - rho)). lra. Qed.
Lemma Sq_gt x : - Sq x < x - rho < Sq x.
Proof. pose proof (sqrt_gt_abs a (x - rho) Ha) as H. fold (Sq x) in H.
  unfold Rabs in H. destruct (Rcase_abs (x - rho)); lra. Qed.
Lemma is_derive_Sq x : is_derive Sq x ((x - rho) / Sq x).
Proof.
  pose proof (Sq_pos x) as Hp. pose proof (Sq_sq x) as Hs. unfold Sq in *.
  evar_last. apply (is_derive_sqrt (fun t => a^2 + (t - rho)^2) x (2 * (x - rho))).
  - auto_derive. exact I. ring.
  - nra.
  - field. lra.
Qed.

(** the two kinds of arctanh terms of the three-scale map; D is the normalising constant *)
Lemma outer_sq D x : D * D = a^2 + (1 - rho)^2 ->
  (1 - x + Sq x) * (1 - x + Sq x) - D * D = 2 * (1 - x) * (Sq x - (x - rho)).
Proof.
  intro HD. transitivity ((1 - x)^2 + 2 * (1 - x) * Sq x + Sq x * Sq x - D * D); [ring|].
  rewrite Sq_sq, HD. ring.
Qed.

Lemma inner_sq D x : D * D = a^2 + (1 + rho)^2 ->
  D * D - (1 + x - Sq x) * (1 + x - Sq x) = 2 * (1 + x) * (Sq x - (x - rho)).
Proof.
  intro HD. transitivity (D * D - ((1 + x)^2 - 2 * (1 + x) * Sq x + Sq x * Sq x)); [ring|].
  rewrite Sq_sq, HD. ring.
Qed.

Lemma outer_gt1 D x : 0 < D -> D * D = a^2 + (1 - rho)^2 -> x < 1 -> 1 < (1 - x + Sq x) / D.
Proof.
  intros HD0 HD Hx. pose proof (Sq_pos x). pose proof (Sq_gt x). pose proof (outer_sq D x HD) as E.
  assert (0 < 2 * (1 - x) * (Sq x - (x - rho))) by (apply Rmult_lt_0_compat; lra).
  apply Rlt_div_r; [lra|]. nra.
Qed.

Lemma inner_lt1 D x : 0 < D -> D * D = a^2 + (1 + rho)^2 -> -1 < x -> -1 < (1 + x - Sq x) / D < 1.
Proof.
  intros HD0 HD Hx. pose proof (Sq_pos x). pose proof (Sq_gt x). pose proof (inner_sq D x HD) as E.
  assert (0 < 2 * (1 + x) * (Sq x - (x - rho))) by (apply Rmult_lt_0_compat; lra).
  split; [apply Rlt_div_r; [lra|] | apply Rlt_div_l; [lra|]]; nra.
Qed.

Lemma outer_derive D K x : 0 < D -> D * D = a^2 + (1 - rho)^2 -> x < 1 ->
  is_derive (fun t => K * atanh_R ((1 - t + Sq t) / D) / D) x (K / (2 * Sq x * (1 - x))).
Proof.
  intros HD0 HD Hx. pose proof (Sq_pos x) as Hp. pose proof (Sq_gt x) as Hg.
  pose proof (outer_sq D x HD) as E.
  assert (Hu : 1 < (1 + - x + Sq x) * / D).
  { replace ((1 + - x + Sq x) * / D) with ((1 - x + Sq x) / D) by (unfold Rdiv; ring).
    apply outer_gt1; assumption. }
  auto_derive.
  - split; [eexists; apply is_derive_atanh_R_outside; exact Hu|].
    split; [eexists; apply is_derive_Sq | exact I].
  - rewrite (is_derive_unique (fun x0 : R => Sq x0) _ _ (is_derive_Sq x)).
    rewrite (is_derive_unique (fun x0 : R => atanh_R x0) _ _ (is_derive_atanh_R_outside _ Hu)).
    replace (1 - ((1 + - x + Sq x) * / D) ^ 2) with
      (- ((1 - x + Sq x) * (1 - x + Sq x) - D * D) / (D * D)) by (field; lra).
    rewrite E. field. repeat split; lra.
Qed.

Lemma inner_derive D K x : 0 < D -> D * D = a^2 + (1 + rho)^2 -> -1 < x ->
  is_derive (fun t => K * atanh_R ((1 + t - Sq t) / D) / D) x (K / (2 * Sq x * (1 + x))).
Proof.
  intros HD0 HD Hx. pose proof (Sq_pos x) as Hp. pose proof (Sq_gt x) as Hg.
  pose proof (inner_sq D x HD) as E.
  assert (Hu : -1 < (1 + x + - Sq x) * / D < 1).
  { replace ((1 + x + - Sq x) * / D) with ((1 + x - Sq x) / D) by (unfold Rdiv; ring).
    apply inner_lt1; assumption. }
  auto_derive.
  - split; [eexists; apply is_derive_atanh_R_inside; exact Hu|].
    split; [eexists; apply is_derive_Sq | exact I].
  - rewrite (is_derive_unique (fun x0 : R => Sq x0) _ _ (is_derive_Sq x)).
    rewrite (is_derive_unique (fun x0 : R => atanh_R x0) _ _ (is_derive_atanh_R_inside _ Hu)).
    replace (1 - ((1 + x + - Sq x) * / D) ^ 2) with
      ((D * D - (1 + x - Sq x) * (1 + x - Sq x)) / (D * D)) by (field; lra).
    rewrite E. field. repeat split; lra.
Qed.
End Terms.


Definition z_of_chi L chi := L * chi / sqrt (1 - chi^2).
Definition chi_of_z L z := z / sqrt (L^2 + z^2).
Definition dz_dchi L chi := L / Rpower (1 - chi^2) (3/2).
Definition pz_of_rho T rho := 2 * T * atanh_R rho.
Definition rho_of_pz T pz := tanh (pz / 2 / T).
Definition dpz_drho T rho := 2 * T / (1 - rho^2).
Definition pp_of_rho T rho := - T * ln ((1 - rho) / 2).
Definition rho_of_pp T pp := 1 - 2 * exp (- pp / T).
Definition dpp_drho T rho := T / (1 - rho).

Lemma Rpower_3_2 u : 0 < u -> Rpower u (3/2) = u * sqrt u.
Proof.
  intro Hu. replace (3/2) with (1 + /2) by field.
  rewrite Rpower_plus, Rpower_1, Rpower_sqrt by assumption. reflexivity.
Qed.

Lemma chi_of_z_range L z : L <> 0 -> -1 < chi_of_z L z < 1.
Proof.
  intro HL. unfold chi_of_z. pose proof (sqrt_gt_abs L z HL) as H.
  assert (0 < sqrt (L^2 + z^2)) by (pose proof (Rabs_pos z); lra).
  unfold Rabs in H. split; [apply Rlt_div_r | apply Rlt_div_l]; try lra;
  destruct (Rcase_abs z); lra.
Qed.

Lemma chi_z_inverse L chi : 0 < L -> -1 < chi < 1 -> chi_of_z L (z_of_chi L chi) = chi.
Proof.
  intros HL Hc. unfold chi_of_z, z_of_chi.
  assert (Hu : 0 < 1 - chi^2) by nra.
  set (w := sqrt (1 - chi^2)).
  assert (Hw : 0 < w) by (apply sqrt_lt_R0; exact Hu).
  assert (Hww : w * w = 1 - chi^2) by (apply sqrt_sqrt; lra).
  replace (L^2 + (L * chi / w)^2) with ((L / w)^2).
  2:{ field_simplify_eq; [|lra]. replace (chi^2) with (1 - w * w) by lra. ring. }
  rewrite sqrt_pow2. field; lra.
  apply Rlt_le, Rdiv_lt_0_compat; lra.
Qed.

Lemma z_chi_inverse L z : 0 < L -> z_of_chi L (chi_of_z L z) = z.
Proof.
  intros HL. unfold chi_of_z, z_of_chi.
  set (S := sqrt (L^2 + z^2)).
  assert (HS : 0 < S) by (apply sqrt_lt_R0; nra).
  assert (HSS : S * S = L^2 + z^2) by (apply sqrt_sqrt; nra).
  replace (1 - (z / S)^2) with ((L / S)^2).
  2:{ field_simplify_eq; [|lra]. nra. }
  rewrite sqrt_pow2. field; lra.
  apply Rlt_le, Rdiv_lt_0_compat; lra.
Qed.

Lemma z_derive L chi : -1 < chi < 1 -> is_derive (z_of_chi L) chi (dz_dchi L chi).
Proof.
  intros Hc. unfold z_of_chi, dz_dchi.
  assert (Hu : 0 < 1 - chi^2) by nra.
  rewrite Rpower_3_2 by assumption.
  pose proof (sqrt_lt_R0 _ Hu) as Hw. pose proof (sqrt_sqrt (1 - chi^2) (Rlt_le _ _ Hu)) as Hww.
  assert (Hs : is_derive (fun t => sqrt (1 - t^2)) chi (- chi / sqrt (1 - chi^2))).
  { evar_last. apply (is_derive_sqrt (fun t => 1 - t^2) chi (- 2 * chi)).
    auto_derive. exact I. ring. exact Hu. field. lra. }
  evar_last.
  apply (is_derive_div (fun t => L * t) (fun t => sqrt (1 - t^2)) chi L (- chi / sqrt (1 - chi^2))).
  - auto_derive. exact I. ring.
  - exact Hs.
  - lra.
  - set (w := sqrt (1 - chi ^ 2)) in *.
    assert (Hc2 : chi * chi = 1 - w * w) by lra.
    replace (1 - chi ^ 2) with (w * w) by lra.
    replace (L * w - L * chi * (- chi / w)) with (L * (w * w + chi * chi) / w) by (field; lra).
    rewrite Hc2. field. lra.
Qed.


Lemma tanh_exp y : tanh y = (exp y - exp (- y)) / (exp y + exp (- y)).
Proof.
  unfold tanh, sinh, cosh. pose proof (exp_pos y). pose proof (exp_pos (- y)). field. lra.
Qed.

Lemma tanh_range y : -1 < tanh y < 1.
Proof.
  rewrite tanh_exp. pose proof (exp_pos y). pose proof (exp_pos (- y)).
  split; [apply Rlt_div_r | apply Rlt_div_l]; lra.
Qed.

Lemma atanh_R_tanh y : atanh_R (tanh y) = y.
Proof.
  rewrite atanh_R_inside by apply tanh_range. rewrite tanh_exp.
  pose proof (exp_pos y) as H1. pose proof (exp_pos (- y)) as H2.
  assert (E : exp y * exp (- y) = 1) by (rewrite <- exp_plus, Rplus_opp_r; apply exp_0).
  replace ((1 + (exp y - exp (- y)) / (exp y + exp (- y))) /
           (1 - (exp y - exp (- y)) / (exp y + exp (- y)))) with (exp y * exp y).
  - rewrite <- exp_plus, ln_exp. field.
  - field_simplify_eq; [|lra]. nra.
Qed.

Lemma tanh_atanh_R u : -1 < u < 1 -> tanh (atanh_R u) = u.
Proof.
  intro Hu. rewrite atanh_R_inside by assumption.
  assert (Hq : 0 < (1 + u) / (1 - u)) by (apply Rdiv_lt_0_compat; lra).
  set (w := / 2 * ln ((1 + u) / (1 - u))).
  assert (E2 : exp w * exp w = (1 + u) / (1 - u)).
  { rewrite <- exp_plus. replace (w + w) with (ln ((1 + u) / (1 - u))) by (unfold w; field).
    apply exp_ln; assumption. }
  assert (E : exp w * exp (- w) = 1) by (rewrite <- exp_plus, Rplus_opp_r; apply exp_0).
  pose proof (exp_pos w) as H1. pose proof (exp_pos (- w)) as H2.
  rewrite tanh_exp.
  replace (exp (- w)) with (/ exp w) by (apply Rmult_eq_reg_l with (exp w); [rewrite Rinv_r; lra | lra]).
  replace ((exp w - / exp w) / (exp w + / exp w)) with ((exp w * exp w - 1) / (exp w * exp w + 1))
    by (field; split; nra).
  rewrite E2. field. lra.
Qed.

Lemma pz_rho_inverse T pz : T <> 0 -> pz_of_rho T (rho_of_pz T pz) = pz.
Proof. intro HT. unfold pz_of_rho, rho_of_pz. rewrite atanh_R_tanh. field. assumption. Qed.

Lemma rho_pz_inverse T rho : T <> 0 -> -1 < rho < 1 -> rho_of_pz T (pz_of_rho T rho) = rho.
Proof.
  intros HT Hr. unfold pz_of_rho, rho_of_pz.
  replace (2 * T * atanh_R rho / 2 / T) with (atanh_R rho) by (field; assumption).
  apply tanh_atanh_R; assumption.
Qed.

Lemma pz_derive T rho : -1 < rho < 1 -> is_derive (pz_of_rho T) rho (dpz_drho T rho).
Proof.
  intro Hr. unfold pz_of_rho, dpz_drho. auto_derive.
  - eexists; apply is_derive_atanh_R_inside; exact Hr.
  - rewrite (is_derive_unique (fun x0 : R => atanh_R x0) rho _ (is_derive_atanh_R_inside rho Hr)).
    field. nra.
Qed.

Lemma pp_rho_inverse T pp : T <> 0 -> pp_of_rho T (rho_of_pp T pp) = pp.
Proof.
  intro HT. unfold pp_of_rho, rho_of_pp.
  replace ((1 - (1 - 2 * exp (- pp / T))) / 2) with (exp (- pp / T)) by field.
  rewrite ln_exp. field. assumption.
Qed.

Lemma rho_pp_inverse T rho : T <> 0 -> rho < 1 -> rho_of_pp T (pp_of_rho T rho) = rho.
Proof.
  intros HT Hr. unfold pp_of_rho, rho_of_pp.
  replace (- (- T * ln ((1 - rho) / 2)) / T) with (ln ((1 - rho) / 2)) by (field; assumption).
  rewrite exp_ln by lra. field.
Qed.

Lemma pp_derive T rho : rho < 1 -> is_derive (pp_of_rho T) rho (dpp_drho T rho).
Proof.
  intro Hr. unfold pp_of_rho, dpp_drho. auto_derive.
  - lra.
  - field. lra.
Qed.

Lemma rho_of_pp_range T pp : rho_of_pp T pp < 1.
Proof. unfold rho_of_pp. pose proof (exp_pos (- pp / T)). lra. Qed.

(** t / sqrt(a^2 + t^2) is strictly increasing *)
Lemma ratio_increasing a t1 t2 : a <> 0 -> t1 < t2 ->
  t1 / sqrt (a^2 + t1^2) < t2 / sqrt (a^2 + t2^2).
Proof.
  intros Ha Ht.
  pose proof (sq_pos_of_neq a Ha) as Ha2.
  apply (incr_of_pos_deriv (fun t => t / sqrt (a^2 + t^2))
           (fun t => a^2 / ((a^2 + t^2) * sqrt (a^2 + t^2))) (t1 - 1) (t2 + 1)); try lra.
  - intros x _. 
    assert (Hu : 0 < a^2 + x^2) by (pose proof (pow2_ge_0 x); lra).
    pose proof (sqrt_lt_R0 _ Hu) as Hw. pose proof (sqrt_sqrt _ (Rlt_le _ _ Hu)) as Hww.
    evar_last.
    apply (is_derive_div (fun t => t) (fun t => sqrt (a^2 + t^2)) x 1 (x / sqrt (a^2 + x^2))).
    + auto_derive. exact I. ring.
    + evar_last. apply (is_derive_sqrt (fun t => a^2 + t^2) x (2 * x)).
      auto_derive. exact I. ring. exact Hu. field. lra.
    + lra.
    + set (w := sqrt (a^2 + x^2)) in *.
      replace (a^2 + x^2) with (w * w) by lra.
      replace (a^2) with (w * w - x * x) by lra. field. lra.
  - intros x _. assert (Hu : 0 < a^2 + x^2) by (pose proof (pow2_ge_0 x); lra).
    pose proof (sqrt_lt_R0 _ Hu). apply Rdiv_lt_0_compat; [lra|]. apply Rmult_lt_0_compat; lra.
Qed.


(** ** The three-scale position map (shape of Grid3Scales.decompactify / compactificationDerivatives) *)
Ltac asR := match goal with |- ?a = ?b => change (@eq R a b) end.
Section ThreeScales.
Variables tIn tOut L r sm aIn aOut : R.

Definition t1 x := (1 - r) * (2 * r * tOut - L) * atanh_R ((1 - x + sqrt (aOut^2 + (x - r)^2)) / sqrt (aOut^2 + (1 - r)^2)) / sqrt (aOut^2 + (1 - r)^2) / r.
Definition t2 x := - (1 + r) * (2 * r * tOut - L) * atanh_R ((1 + x - sqrt (aOut^2 + (x - r)^2)) / sqrt (aOut^2 + (1 + r)^2)) / sqrt (aOut^2 + (1 + r)^2) / r.
Definition t3 x := (1 - r) * (2 * r * tIn - L) * atanh_R ((1 + x - sqrt (aIn^2 + (x + r)^2)) / sqrt (aIn^2 + (1 - r)^2)) / sqrt (aIn^2 + (1 - r)^2) / r.
Definition t4 x := - (1 + r) * (2 * r * tIn - L) * atanh_R ((1 - x + sqrt (aIn^2 + (x + r)^2)) / sqrt (aIn^2 + (1 + r)^2)) / sqrt (aIn^2 + (1 + r)^2) / r.
Definition t5 x := (2 * tIn + 2 * tOut - 4 * sm * L / r) * atanh_R x.
Definition map3 x := (t1 x + t2 x + t3 x + t4 x + t5 x) / 2.

Definition jac3 x :=
  ((2 * tIn - L / r) * (1 - (x + r) / sqrt (aIn^2 + (x + r)^2)) / 2
   + (2 * tOut - L / r) * (1 + (x - r) / sqrt (aOut^2 + (x - r)^2)) / 2
   + (1 - 2 * sm) * L / r) / (1 - x^2).

Hypothesis HaIn : aIn <> 0.
Hypothesis HaOut : aOut <> 0.
Hypothesis Hr : r <> 0.

Let DD a rho := sqrt (a^2 + (1 - rho)^2).
Lemma DD_pos a rho : a <> 0 -> 0 < DD a rho.
Proof. intro H. pose proof (sq_pos_of_neq a H). pose proof (pow2_ge_0 (1 - rho)). apply sqrt_lt_R0. lra. Qed.
Lemma DD_sq a rho : a <> 0 -> DD a rho * DD a rho = a^2 + (1 - rho)^2.
Proof. intro H. pose proof (sq_pos_of_neq a H). pose proof (pow2_ge_0 (1 - rho)). apply sqrt_sqrt. lra. Qed.

(** per-term derivatives: c / (2 s (1 -+ x)) *)
Lemma t1_derive x : x < 1 ->
  is_derive t1 x ((1 - r) * (2 * r * tOut - L) / r / (2 * sqrt (aOut^2 + (x - r)^2) * (1 - x))).
Proof.
  intro Hx.
  apply (is_derive_ext (fun t => ((1 - r) * (2 * r * tOut - L) / r) * atanh_R ((1 - t + Sq aOut r t) / DD aOut r) / DD aOut r)).
  - intro t. unfold t1, Sq, DD. asR. field. split; try exact Hr; apply Rgt_not_eq, (DD_pos aOut r HaOut).
  - apply (outer_derive aOut r HaOut (DD aOut r)); [apply DD_pos; assumption | apply DD_sq; assumption | exact Hx].
Qed.

Lemma t2_derive x : -1 < x ->
  is_derive t2 x (- (1 + r) * (2 * r * tOut - L) / r / (2 * sqrt (aOut^2 + (x - r)^2) * (1 + x))).
Proof.
  intro Hx.
  assert (HD : 0 < sqrt (aOut^2 + (1 + r)^2)).
  { pose proof (sq_pos_of_neq aOut HaOut). pose proof (pow2_ge_0 (1 + r)). apply sqrt_lt_R0. lra. }
  apply (is_derive_ext (fun t => (- (1 + r) * (2 * r * tOut - L) / r) * atanh_R ((1 + t - Sq aOut r t) / sqrt (aOut^2 + (1 + r)^2)) / sqrt (aOut^2 + (1 + r)^2))).
  - intro t. unfold t2, Sq. asR. field. split; try exact Hr; lra.
  - apply (inner_derive aOut r HaOut); [exact HD | | exact Hx].
    apply sqrt_sqrt. pose proof (sq_pos_of_neq aOut HaOut). pose proof (pow2_ge_0 (1 + r)). lra.
Qed.

Lemma t3_derive x : -1 < x ->
  is_derive t3 x ((1 - r) * (2 * r * tIn - L) / r / (2 * sqrt (aIn^2 + (x + r)^2) * (1 + x))).
Proof.
  intro Hx.
  assert (HD : 0 < sqrt (aIn^2 + (1 - r)^2)).
  { pose proof (sq_pos_of_neq aIn HaIn). pose proof (pow2_ge_0 (1 - r)). apply sqrt_lt_R0. lra. }
  replace (sqrt (aIn^2 + (x + r)^2)) with (Sq aIn (- r) x) by (unfold Sq; f_equal; ring).
  apply (is_derive_ext (fun t => ((1 - r) * (2 * r * tIn - L) / r) * atanh_R ((1 + t - Sq aIn (- r) t) / sqrt (aIn^2 + (1 - r)^2)) / sqrt (aIn^2 + (1 - r)^2))).
  - intro t. unfold t3, Sq. replace (t - - r) with (t + r) by ring. asR. field. split; try exact Hr; lra.
  - apply (inner_derive aIn (- r) HaIn); [exact HD | | exact Hx].
    replace (1 + - r) with (1 - r) by ring.
    apply sqrt_sqrt. pose proof (sq_pos_of_neq aIn HaIn). pose proof (pow2_ge_0 (1 - r)). lra.
Qed.

Lemma t4_derive x : x < 1 ->
  is_derive t4 x (- (1 + r) * (2 * r * tIn - L) / r / (2 * sqrt (aIn^2 + (x + r)^2) * (1 - x))).
Proof.
  intro Hx.
  assert (HD : 0 < sqrt (aIn^2 + (1 + r)^2)).
  { pose proof (sq_pos_of_neq aIn HaIn). pose proof (pow2_ge_0 (1 + r)). apply sqrt_lt_R0. lra. }
  replace (sqrt (aIn^2 + (x + r)^2)) with (Sq aIn (- r) x) by (unfold Sq; f_equal; ring).
  apply (is_derive_ext (fun t => (- (1 + r) * (2 * r * tIn - L) / r) * atanh_R ((1 - t + Sq aIn (- r) t) / sqrt (aIn^2 + (1 + r)^2)) / sqrt (aIn^2 + (1 + r)^2))).
  - intro t. unfold t4, Sq. replace (t - - r) with (t + r) by ring. asR. field. split; try exact Hr; lra.
  - apply (outer_derive aIn (- r) HaIn); [exact HD | | exact Hx].
    replace (1 - - r) with (1 + r) by ring.
    apply sqrt_sqrt. pose proof (sq_pos_of_neq aIn HaIn). pose proof (pow2_ge_0 (1 + r)). lra.
Qed.

Lemma t5_derive x : -1 < x < 1 ->
  is_derive t5 x ((2 * tIn + 2 * tOut - 4 * sm * L / r) / (1 - x^2)).
Proof.
  intro Hx. unfold t5. auto_derive.
  - eexists; apply is_derive_atanh_R_inside; exact Hx.
  - rewrite (is_derive_unique (fun x0 : R => atanh_R x0) x _ (is_derive_atanh_R_inside x Hx)).
    field. split; try exact Hr; nra.
Qed.

(** the reported Jacobian is the derivative of the map, at every point of (-1,1) *)
Theorem map3_derive x : -1 < x < 1 -> is_derive map3 x (jac3 x).
Proof.
  intro Hx. unfold map3.
  pose proof (t1_derive x (proj2 Hx)) as H1. pose proof (t2_derive x (proj1 Hx)) as H2.
  pose proof (t3_derive x (proj1 Hx)) as H3. pose proof (t4_derive x (proj2 Hx)) as H4.
  pose proof (t5_derive x Hx) as H5.
  auto_derive.
  - repeat split; eexists; eassumption.
  - rewrite (is_derive_unique (fun x0 : R => t1 x0) x _ H1), (is_derive_unique (fun x0 : R => t2 x0) x _ H2),
      (is_derive_unique (fun x0 : R => t3 x0) x _ H3), (is_derive_unique (fun x0 : R => t4 x0) x _ H4),
      (is_derive_unique (fun x0 : R => t5 x0) x _ H5).
    unfold jac3.
    pose proof (Sq_pos aOut r HaOut x) as P1. pose proof (Sq_pos aIn (- r) HaIn x) as P2.
    unfold Sq in P1, P2. replace (x - - r) with (x + r) in P2 by ring.
    field. repeat split; try lra; try exact Hr; nra.
Qed.
End ThreeScales.


(** ** The smoothing parameters aIn / aOut chosen by Grid3Scales._updateParameters *)
Definition a_of (L r sm t : R) : R :=
  sqrt (4 * sm * L * r^2 * (2 * r * t - L * (1 + sm))) / Rabs (2 * r * t - L * (1 + 2 * sm)).

(** the assertions of _updateParameters *)
Definition admissible (tIn tOut L r sm : R) : Prop :=
  L > 0 /\ sm > 0 /\ tIn > L * (1 / 2 + sm) / r /\ tOut > L * (1 / 2 + sm) / r /\ 0 < r < 1.

Section AOf.
Variables L r sm t : R.
Hypothesis HL : L > 0.
Hypothesis Hsm : sm > 0.
Hypothesis Hr : 0 < r < 1.
Hypothesis Ht : t > L * (1 / 2 + sm) / r.

Lemma tail_bound : 2 * r * t - L * (1 + 2 * sm) > 0.
Proof.
  assert (H : L * (1 / 2 + sm) / r * r < t * r) by (apply Rmult_lt_compat_r; lra).
  replace (L * (1 / 2 + sm) / r * r) with (L * (1 / 2 + sm)) in H by (field; lra). lra.
Qed.

Lemma a_of_pos : 0 < a_of L r sm t.
Proof.
  pose proof tail_bound as Hb. unfold a_of.
  apply Rdiv_lt_0_compat.
  - apply sqrt_lt_R0. repeat apply Rmult_lt_0_compat; try lra; nra.
  - apply Rabs_pos_lt. lra.
Qed.

Lemma a_of_sq : (a_of L r sm t)^2 =
  4 * sm * L * r^2 * (2 * r * t - L * (1 + sm)) / (2 * r * t - L * (1 + 2 * sm))^2.
Proof.
  pose proof tail_bound as Hb. unfold a_of.
  rewrite Rabs_pos_eq by lra.
  assert (Hn : 0 <= 4 * sm * L * r^2 * (2 * r * t - L * (1 + sm))).
  { apply Rlt_le. repeat apply Rmult_lt_0_compat; try lra; nra. }
  unfold Rdiv. rewrite Rpow_mult_distr. rewrite <- Rsqr_pow2, Rsqr_sqrt by exact Hn.
  field. lra.
Qed.

(** the defining identity: sqrt(a^2 + r^2) = r K / (K - 2 sm L), K = 2 r t - L *)
Lemma a_of_key : sqrt ((a_of L r sm t)^2 + r^2) = r * (2 * r * t - L) / (2 * r * t - L * (1 + 2 * sm)).
Proof.
  pose proof tail_bound as Hb. rewrite a_of_sq.
  apply sqrt_lem_1.
  - apply Rplus_le_le_0_compat; [|nra]. apply Rlt_le, Rdiv_lt_0_compat; [|nra].
    repeat apply Rmult_lt_0_compat; try lra; nra.
  - apply Rlt_le, Rdiv_lt_0_compat; [|lra]. apply Rmult_lt_0_compat; nra.
  - field. lra.
Qed.

(** each smoothed step contributes exactly sm * L / r to the slope at the origin *)
Lemma a_of_step : (2 * t - L / r) * (1 - r / sqrt ((a_of L r sm t)^2 + r^2)) / 2 = sm * L / r.
Proof.
  pose proof tail_bound as Hb. rewrite a_of_key. field. repeat split; nra.
Qed.
End AOf.

Section Slope.
Variables tIn tOut L r sm : R.
Hypothesis Hadm : admissible tIn tOut L r sm.
Notation aIn := (a_of L r sm tIn).
Notation aOut := (a_of L r sm tOut).
Notation J := (jac3 tIn tOut L r sm aIn aOut).

Lemma adm_aIn : aIn <> 0.
Proof. destruct Hadm as (H1 & H2 & H3 & H4 & H5). apply Rgt_not_eq, a_of_pos; assumption. Qed.
Lemma adm_aOut : aOut <> 0.
Proof. destruct Hadm as (H1 & H2 & H3 & H4 & H5). apply Rgt_not_eq, a_of_pos; assumption. Qed.

(** slope at the centre = wall thickness / fraction of points in the wall *)
Theorem jac3_centre : J 0 = L / r.
Proof.
  destruct Hadm as (H1 & H2 & H3 & H4 & H5).
  pose proof (a_of_step L r sm tIn H1 H2 H5 H3) as E1.
  pose proof (a_of_step L r sm tOut H1 H2 H5 H4) as E2.
  unfold jac3.
  replace (0 + r) with r by ring. replace ((0 - r)^2) with (r^2) by ring.
  replace ((2 * tOut - L / r) * (1 + (0 - r) / sqrt (aOut ^ 2 + r ^ 2)) / 2)
    with ((2 * tOut - L / r) * (1 - r / sqrt (aOut ^ 2 + r ^ 2)) / 2).
  2:{ unfold Rdiv. ring. }
  rewrite E1, E2. field. lra.
Qed.

(** lower bound of the Jacobian on (-1,1): J(x) > (1 - sm) (L/r) / (1 - x^2) *)
Theorem jac3_lower x : -1 < x < 1 -> (1 - sm) * L / r / (1 - x^2) < J x.
Proof.
  intros Hx. destruct Hadm as (H1 & H2 & H3 & H4 & H5).
  pose proof adm_aIn as HaI. pose proof adm_aOut as HaO.
  pose proof (a_of_step L r sm tIn H1 H2 H5 H3) as E1.
  pose proof (a_of_step L r sm tOut H1 H2 H5 H4) as E2.
  pose proof (tail_bound L r sm tIn H5 H3) as B1.
  pose proof (tail_bound L r sm tOut H5 H4) as B2.
  assert (A1 : 0 < 2 * tIn - L / r).
  { replace (2 * tIn - L / r) with ((2 * r * tIn - L) / r) by (field; lra).
    apply Rdiv_lt_0_compat; nra. }
  assert (A2 : 0 < 2 * tOut - L / r).
  { replace (2 * tOut - L / r) with ((2 * r * tOut - L) / r) by (field; lra).
    apply Rdiv_lt_0_compat; nra. }
  assert (HLr : 0 < L / r) by (apply Rdiv_lt_0_compat; lra).
  unfold jac3. unfold Rdiv at 1 5.
  apply Rmult_lt_compat_r; [apply Rinv_0_lt_compat; nra|].
  replace ((1 - sm) * L * / r) with ((1 - sm) * (L / r)) by (unfold Rdiv; ring).
  replace ((1 - 2 * sm) * L / r) with ((1 - 2 * sm) * (L / r)) by (unfold Rdiv; ring).
  replace (sm * L / r) with (sm * (L / r)) in E1, E2 by (unfold Rdiv; ring).
  (* p = (x+r)/S_in, q = (x-r)/S_out, both in (-1,1) and increasing in x *)
  pose proof (Sq_gt aIn (- r) HaI x) as G1. pose proof (Sq_pos aIn (- r) HaI x) as P1.
  pose proof (Sq_gt aOut r HaO x) as G2. pose proof (Sq_pos aOut r HaO x) as P2.
  unfold Sq in G1, P1, G2, P2. replace (x - - r) with (x + r) in * by ring.
  set (p := (x + r) / sqrt (aIn ^ 2 + (x + r) ^ 2)).
  set (q := (x - r) / sqrt (aOut ^ 2 + (x - r) ^ 2)).
  assert (Hp : -1 < p < 1) by (unfold p; split; [apply Rlt_div_r | apply Rlt_div_l]; lra).
  assert (Hq : -1 < q < 1) by (unfold q; split; [apply Rlt_div_r | apply Rlt_div_l]; lra).
  set (p0 := r / sqrt (aIn ^ 2 + r ^ 2)) in *.
  set (q0 := r / sqrt (aOut ^ 2 + r ^ 2)) in *.
  destruct (Rle_lt_dec 0 x) as [Hx0 | Hx0].
  - (* x >= 0 : q >= q(0) = - q0 *)
    assert (Hq0 : - q0 <= q).
    { destruct (Req_dec x 0) as [->|Hne].
      - unfold q, q0. replace ((0 - r)^2) with (r^2) by ring. unfold Rdiv. lra.
      - assert (Hlt : (0 - r) / sqrt (aOut ^ 2 + (0 - r) ^ 2) < q)
          by (apply ratio_increasing; [exact HaO | lra]).
        replace ((0 - r)^2) with (r^2) in Hlt by ring. unfold q0. unfold Rdiv in *. lra. }
    assert (0 < (2 * tIn - L / r) * (1 - p)) by (apply Rmult_lt_0_compat; lra).
    assert (0 <= (2 * tOut - L / r) * (q - - q0)) by (apply Rmult_le_pos; lra).
    nra.
  - (* x < 0 : p < p(0) = p0 *)
    assert (Hp0 : p < p0).
    { assert (Hlt : p < (0 + r) / sqrt (aIn ^ 2 + (0 + r) ^ 2))
        by (apply ratio_increasing; [exact HaI | lra]).
      replace (0 + r) with r in Hlt by ring. exact Hlt. }
    assert (0 < (2 * tOut - L / r) * (1 + q)) by (apply Rmult_lt_0_compat; lra).
    assert (0 < (2 * tIn - L / r) * (p0 - p)) by (apply Rmult_lt_0_compat; lra).
    nra.
Qed.

(** positivity of the Jacobian on (-1,1) when smoothing <= 1 *)
Theorem jac3_pos x : sm <= 1 -> -1 < x < 1 -> 0 < J x.
Proof.
  intros Hsm1 Hx. pose proof (jac3_lower x Hx) as H.
  destruct Hadm as (H1 & H2 & H3 & H4 & H5).
  assert (0 < L / r) by (apply Rdiv_lt_0_compat; lra).
  assert (0 <= (1 - sm) * L / r / (1 - x^2)).
  { apply Rmult_le_pos; [|apply Rlt_le, Rinv_0_lt_compat; nra].
    replace ((1 - sm) * L / r) with ((1 - sm) * (L / r)) by (unfold Rdiv; ring).
    apply Rmult_le_pos; lra. }
  lra.
Qed.
End Slope.

(** ** Behaviour at the ends of the compact interval *)
Lemma atanh_R_opp x : -1 < x < 1 -> atanh_R (- x) = - atanh_R x.
Proof.
  intro Hx. rewrite !atanh_R_inside by lra.
  replace ((1 + - x) / (1 - - x)) with (/ ((1 + x) / (1 - x))) by (field; lra).
  rewrite ln_Rinv by (apply Rdiv_lt_0_compat; lra). ring.
Qed.

Lemma atanh_R_0' : atanh_R 0 = 0.
Proof.
  rewrite atanh_R_inside by lra. replace ((1 + 0) / (1 - 0)) with 1 by field. rewrite ln_1. ring.
Qed.

(** atanh_R exceeds every bound close enough to 1 *)
Lemma atanh_R_large B : exists d, 0 < d /\ forall x, 1 - d < x < 1 -> B < atanh_R x.
Proof.
  exists (Rmin (/ 2) (exp (- (2 * B)))). split.
  - apply Rmin_glb_lt; [lra | apply exp_pos].
  - intros x [H1 H2].
    pose proof (Rmin_l (/ 2) (exp (- (2 * B)))). pose proof (Rmin_r (/ 2) (exp (- (2 * B)))).
    assert (Hx : 0 < x) by lra.
    rewrite atanh_R_inside by lra.
    assert (Hlt : exp (2 * B) < (1 + x) / (1 - x)).
    { apply Rlt_div_r; [lra|].
      assert (E : exp (2 * B) * exp (- (2 * B)) = 1) by (rewrite <- exp_plus, Rplus_opp_r; apply exp_0).
      pose proof (exp_pos (2 * B)). pose proof (exp_pos (- (2 * B))). nra. }
    assert (2 * B < ln ((1 + x) / (1 - x))).
    { rewrite <- (ln_exp (2 * B)). apply ln_increasing; [apply exp_pos | exact Hlt]. }
    lra.
Qed.

Section Ends.
Variables tIn tOut L r sm : R.
Hypothesis Hadm : admissible tIn tOut L r sm.
Hypothesis Hsm : sm < 1.
Notation aIn := (a_of L r sm tIn).
Notation aOut := (a_of L r sm tOut).
Notation F := (map3 tIn tOut L r sm aIn aOut).
Notation J := (jac3 tIn tOut L r sm aIn aOut).
Let m := (1 - sm) * L / r.

Lemma m_pos : 0 < m.
Proof.
  destruct Hadm as (H1 & H2 & H3 & H4 & H5). unfold m.
  apply Rdiv_lt_0_compat; [apply Rmult_lt_0_compat|]; lra.
Qed.

Lemma r_nonzero : r <> 0.
Proof. destruct Hadm as (_ & _ & _ & _ & H). lra. Qed.

(** h = F - m atanh has a positive derivative on (-1,1) *)
Lemma h_derive x : -1 < x < 1 ->
  is_derive (fun t => F t - m * atanh_R t) x (J x - m / (1 - x^2)).
Proof.
  intro Hx.
  pose proof (map3_derive tIn tOut L r sm aIn aOut (adm_aIn _ _ _ _ _ Hadm)
                (adm_aOut _ _ _ _ _ Hadm) r_nonzero x Hx) as H.
  pose proof (is_derive_atanh_R_inside x Hx) as Ha.
  auto_derive.
  - split; [eexists; exact H | split; [eexists; exact Ha | exact I]].
  - rewrite (is_derive_unique (fun x0 : R => F x0) x _ H).
    rewrite (is_derive_unique (fun x0 : R => atanh_R x0) x _ Ha). field. nra.
Qed.

Lemma h_cont x : -1 < x < 1 -> continuity_pt (fun t => F t - m * atanh_R t) x.
Proof.
  intro Hx. apply continuity_pt_filterlim.
  apply (ex_derive_continuous (fun t => F t - m * atanh_R t) x). eexists. apply h_derive; exact Hx.
Qed.

(** the map grows at least like m atanh on both sides of the centre *)
Lemma map3_above x : 0 <= x < 1 -> F 0 + m * atanh_R x <= F x.
Proof.
  intros [H0 H1]. destruct (Req_dec x 0) as [->|Hne]; [rewrite atanh_R_0'; lra|].
  destruct (MVT_gen (fun t => F t - m * atanh_R t) 0 x (fun t => J t - m / (1 - t^2))) as [c [Hc Heq]].
  - intros t Ht. rewrite Rmin_left, Rmax_right in Ht by lra. apply h_derive. lra.
  - intros t Ht. rewrite Rmin_left, Rmax_right in Ht by lra. apply h_cont. lra.
  - rewrite Rmin_left, Rmax_right in Hc by lra.
    assert (Hc' : -1 < c < 1) by lra.
    pose proof (jac3_lower tIn tOut L r sm Hadm c Hc') as Hl. fold m in Hl.
    rewrite atanh_R_0' in Heq. nra.
Qed.

Lemma map3_below x : -1 < x <= 0 -> F x <= F 0 + m * atanh_R x.
Proof.
  intros [H0 H1]. destruct (Req_dec x 0) as [->|Hne]; [rewrite atanh_R_0'; lra|].
  destruct (MVT_gen (fun t => F t - m * atanh_R t) x 0 (fun t => J t - m / (1 - t^2))) as [c [Hc Heq]].
  - intros t Ht. rewrite Rmin_left, Rmax_right in Ht by lra. apply h_derive. lra.
  - intros t Ht. rewrite Rmin_left, Rmax_right in Ht by lra. apply h_cont. lra.
  - rewrite Rmin_left, Rmax_right in Hc by lra.
    assert (Hc' : -1 < c < 1) by lra.
    pose proof (jac3_lower tIn tOut L r sm Hadm c Hc') as Hl. fold m in Hl.
    rewrite atanh_R_0' in Heq. nra.
Qed.

(** the position map is unbounded above towards chi = 1 and below towards chi = -1, so (being
    continuous and increasing) it maps (-1,1) ONTO the real line *)
Theorem map3_ends (c B : R) :
  (exists d, 0 < d /\ forall x, 1 - d < x < 1 -> B < F x - F 0 + c) /\
  (exists d, 0 < d /\ forall x, -1 < x < -1 + d -> F x - F 0 + c < B).
Proof.
  pose proof m_pos as Hm. split.
  - destruct (atanh_R_large ((B - c) / m)) as [d [Hd H]].
    exists (Rmin d 1). split; [apply Rmin_glb_lt; lra|]. intros x [Hx1 Hx2].
    pose proof (Rmin_l d 1). pose proof (Rmin_r d 1).
    assert (Hb : (B - c) / m < atanh_R x) by (apply H; lra).
    pose proof (map3_above x ltac:(lra)).
    assert ((B - c) / m * m < atanh_R x * m) by (apply Rmult_lt_compat_r; lra).
    replace ((B - c) / m * m) with (B - c) in * by (field; lra). lra.
  - destruct (atanh_R_large ((c - B) / m)) as [d [Hd H]].
    exists (Rmin d 1). split; [apply Rmin_glb_lt; lra|]. intros x [Hx1 Hx2].
    pose proof (Rmin_l d 1). pose proof (Rmin_r d 1).
    assert (Hb : (c - B) / m < atanh_R (- x)) by (apply H; lra).
    rewrite atanh_R_opp in Hb by lra.
    pose proof (map3_below x ltac:(lra)).
    assert ((c - B) / m * m < - atanh_R x * m) by (apply Rmult_lt_compat_r; lra).
    replace ((c - B) / m * m) with (c - B) in * by (field; lra). lra.
Qed.
End Ends.
