(** Trigonometric facts behind the negative-argument integrands of the thermal integrals
    (C20).  For y^2 + x < 0 the square root in  ln(1 -+ exp(-sqrt(y^2+x)))  is imaginary,
    sqrt(y^2+x) = i s  with  s = sqrt(-y^2-x) > 0, and

        1 - exp(-i s) = (1 - cos s) + i sin s        1 + exp(-i s) = (1 + cos s) - i sin s.

    A complex number is a pair (re, im) of reals here.  We prove the polar decompositions

        1 - exp(-i s) = 2|sin(s/2)| * exp(i theta_b),   theta_b = pi/2 - u,   s = 2u + 2k pi, 0 < u < pi
        1 + exp(-i s) = 2|cos(s/2)| * exp(i theta_f),   theta_f = - v,       s = 2v + 2k pi, |v| < pi/2

    with theta in (-pi/2, pi/2): theta IS the principal argument and ln(2|sin(s/2)|) the real
    part of the principal logarithm.  Then we show that the arctan expressions used by the code,
    including its regulator eps, produce theta up to eps.  Nothing here is axiomatised. *)
From Coq Require Import Reals Lra Lia.
Local Open Scope R_scope.

(** * moduli *)
Lemma mod_one_minus_expi s :
  sqrt ((1 - cos s) ^ 2 + (sin s) ^ 2) = 2 * Rabs (sin (s / 2)).
Proof.
  assert (E : (1 - cos s) ^ 2 + (sin s) ^ 2 = Rsqr (2 * sin (s / 2))).
  { replace s with (2 * (s / 2)) at 1 2 by field.
    pose proof (sin2_cos2 (2 * (s / 2))) as H. unfold Rsqr in *.
    rewrite cos_2a_sin in *. nra. }
  rewrite E, sqrt_Rsqr_abs, Rabs_mult, (Rabs_pos_eq 2) by lra. reflexivity.
Qed.

Lemma mod_one_plus_expi s :
  sqrt ((1 + cos s) ^ 2 + (- sin s) ^ 2) = 2 * Rabs (cos (s / 2)).
Proof.
  assert (E : (1 + cos s) ^ 2 + (- sin s) ^ 2 = Rsqr (2 * cos (s / 2))).
  { replace s with (2 * (s / 2)) at 1 2 by field.
    pose proof (sin2_cos2 (2 * (s / 2))) as H. unfold Rsqr in *.
    rewrite cos_2a_cos in *. nra. }
  rewrite E, sqrt_Rsqr_abs, Rabs_mult, (Rabs_pos_eq 2) by lra. reflexivity.
Qed.

(** * shifts by multiples of pi *)
Lemma sin_cos_shift_kpi u (k : nat) :
  (sin (u + INR k * PI) = sin u /\ cos (u + INR k * PI) = cos u) \/
  (sin (u + INR k * PI) = - sin u /\ cos (u + INR k * PI) = - cos u).
Proof.
  induction k as [|k IH].
  - left. simpl. rewrite Rmult_0_l, Rplus_0_r. split; reflexivity.
  - replace (u + INR (S k) * PI) with ((u + INR k * PI) + PI) by (rewrite S_INR; ring).
    rewrite neg_sin, neg_cos. destruct IH as [[-> ->]|[-> ->]]; [right|left]; split; ring.
Qed.

Lemma Rabs_sin_shift u k : Rabs (sin (u + INR k * PI)) = Rabs (sin u).
Proof. destruct (sin_cos_shift_kpi u k) as [[-> _]|[-> _]]; [reflexivity|apply Rabs_Ropp]. Qed.

Lemma Rabs_cos_shift u k : Rabs (cos (u + INR k * PI)) = Rabs (cos u).
Proof. destruct (sin_cos_shift_kpi u k) as [[_ ->]|[_ ->]]; [reflexivity|apply Rabs_Ropp]. Qed.

Lemma tan_shift u k : tan (u + INR k * PI) = tan u.
Proof.
  unfold tan. destruct (sin_cos_shift_kpi u k) as [[-> ->]|[-> ->]]; [reflexivity|].
  unfold Rdiv. rewrite Rinv_opp. ring.
Qed.

(** * polar forms: the angle is in (-pi/2, pi/2), hence the principal argument *)
Lemma polar_one_minus_expi u (k : nat) : 0 < u < PI ->
  let s := 2 * u + 2 * INR k * PI in
  let theta := PI / 2 - u in
  1 - cos s = 2 * Rabs (sin (s / 2)) * cos theta /\
  sin s = 2 * Rabs (sin (s / 2)) * sin theta /\
  - PI / 2 < theta < PI / 2 /\ 0 < 2 * Rabs (sin (s / 2)).
Proof.
  intros [H0 H1] s theta. unfold s, theta.
  rewrite cos_period, sin_period.
  replace ((2 * u + 2 * INR k * PI) / 2) with (u + INR k * PI) by field.
  rewrite Rabs_sin_shift, cos_shift, sin_shift.
  assert (Hs : 0 < sin u) by (apply sin_gt_0; lra).
  rewrite (Rabs_pos_eq (sin u)) by lra.
  rewrite cos_2a_sin, sin_2a. repeat split; try lra; ring.
Qed.

Lemma polar_one_plus_expi v (k : nat) : - PI / 2 < v < PI / 2 ->
  let s := 2 * v + 2 * INR k * PI in
  let theta := - v in
  1 + cos s = 2 * Rabs (cos (s / 2)) * cos theta /\
  - sin s = 2 * Rabs (cos (s / 2)) * sin theta /\
  - PI / 2 < theta < PI / 2 /\ 0 < 2 * Rabs (cos (s / 2)).
Proof.
  intros [H0 H1] s theta. unfold s, theta.
  rewrite cos_period, sin_period.
  replace ((2 * v + 2 * INR k * PI) / 2) with (v + INR k * PI) by field.
  rewrite Rabs_cos_shift, cos_neg, sin_neg.
  assert (Hc : 0 < cos v) by (apply cos_gt_0; lra).
  rewrite (Rabs_pos_eq (cos v)) by lra.
  rewrite cos_2a_cos, sin_2a. repeat split; try lra; ring.
Qed.

(** the polar angle in (-pi/2,pi/2) is unique: it is atan (im/re) *)
Lemma principal_arg_unique r theta a b :
  0 < r -> - PI / 2 < theta < PI / 2 -> a = r * cos theta -> b = r * sin theta ->
  0 < a /\ theta = atan (b / a).
Proof.
  intros Hr Ht -> ->.
  assert (Hc : 0 < cos theta) by (apply cos_gt_0; lra).
  split; [nra|].
  replace (r * sin theta / (r * cos theta)) with (tan theta) by (unfold tan; field; lra).
  symmetry. apply atan_tan. lra.
Qed.

(** * every s > 0 has such a representation (so the hypotheses below are not vacuous) *)
Lemma decompose_period (s p : R) : 0 < p -> 0 <= s ->
  exists (k : nat) (r : R), s = r + INR k * p /\ 0 <= r < p.
Proof.
  intros Hp Hs.
  set (q := s / p).
  assert (Hq : 0 <= q) by (unfold q; apply Rmult_le_pos; [lra|left; apply Rinv_0_lt_compat; lra]).
  destruct (archimed q) as [A1 A2].
  set (n := (up q - 1)%Z).
  assert (Hn : (0 <= n)%Z).
  { unfold n. assert (0 < IZR (up q)) by lra. apply lt_IZR in H. lia. }
  exists (Z.to_nat n), (s - IZR n * p).
  rewrite INR_IZR_INZ, Z2Nat.id by exact Hn.
  split; [ring|].
  assert (En : IZR n = IZR (up q) - 1) by (unfold n; rewrite minus_IZR; reflexivity).
  assert (Es : s = q * p) by (unfold q; field; lra).
  rewrite En. split; nra.
Qed.

(** * arctan is 1-Lipschitz and increasing *)
Lemma atan_lipschitz a b : a <= b -> 0 <= atan b - atan a <= b - a.
Proof.
  intros [Hab | ->]; [|lra].
  destruct (MVT_cor2 atan (fun x => / (1 + x ^ 2)) a b Hab) as [c [Hc _]].
  { intros c _. apply derivable_pt_lim_atan. }
  assert (H1 : 0 < / (1 + c ^ 2) <= 1).
  { assert (0 <= c ^ 2) by (simpl; nra). split.
    - apply Rinv_0_lt_compat; lra.
    - replace 1 with (/ 1) at 2 by apply Rinv_1. apply Rinv_le_contravar; lra. }
  rewrite Hc. nra.
Qed.

(** * the code's formulas, regulator included *)

(** bosonic: arctan(1 / (tan(s/2) + eps)) is the principal argument pi/2 - u up to eps, except
    in the sliver -eps <= tan(s/2) <= 0 just below s/2 = pi (mod pi), where the regulated
    denominator changes sign before tan does *)
Lemma atan_inv_tan_regulated u (k : nat) eps : 0 <= eps -> 0 < u < PI ->
  let t := tan (u + INR k * PI) in
  ~ (- eps <= t <= 0) ->
  PI / 2 - u - eps <= atan (1 / (t + eps)) <= PI / 2 - u.
Proof.
  intros He [H0 H1] t Ht. unfold t in *. clear t. rewrite tan_shift in *.
  (* cos u <> 0, otherwise tan u = 0 (division by zero convention) which is excluded *)
  assert (Hc : cos u <> 0).
  { intros E. apply Ht. unfold tan. rewrite E. unfold Rdiv. rewrite Rinv_0, Rmult_0_r. lra. }
  assert (Hs : 0 < sin u) by (apply sin_gt_0; lra).
  replace (1 / (tan u + eps)) with (/ (tan u + eps)) by (unfold Rdiv; ring).
  destruct (Rlt_dec 0 (tan u)) as [Hp | Hn].
  - (* 0 < u < pi/2 *)
    assert (Hu : u < PI / 2).
    { destruct (Rlt_dec u (PI / 2)) as [|N]; [assumption|exfalso].
      assert (cos u <= 0) by (apply cos_le_0; lra).
      assert (tan u <= 0); [|lra].
      unfold tan, Rdiv. assert (/ cos u < 0) by (apply Rinv_lt_0_compat; lra). nra. }
    rewrite atan_inv by lra.
    assert (E : atan (tan u) = u) by (apply atan_tan; lra).
    pose proof (atan_lipschitz (tan u) (tan u + eps) ltac:(lra)). lra.
  - assert (Hlt : tan u < - eps) by lra.
    (* pi/2 < u < pi *)
    assert (Hu : PI / 2 < u).
    { destruct (Rlt_dec (PI / 2) u) as [|N]; [assumption|exfalso].
      assert (0 < cos u).
      { apply cos_gt_0; try lra. destruct (Req_dec u (PI / 2)) as [E|E]; [|lra].
        exfalso. apply Hc. rewrite E. apply cos_PI2. }
      assert (0 < tan u); [|lra].
      unfold tan, Rdiv. apply Rmult_lt_0_compat; [lra|apply Rinv_0_lt_compat; lra]. }
    assert (E : atan (tan u) = u - PI).
    { assert (T : tan u = tan (u - PI)).
      { rewrite <- (tan_shift (u - PI) 1). f_equal. simpl INR. ring. }
      rewrite T. apply atan_tan. lra. }
    replace (tan u + eps) with (- (- (tan u + eps))) by ring.
    rewrite Rinv_opp, atan_opp, atan_inv by lra.
    rewrite atan_opp.
    pose proof (atan_lipschitz (tan u) (tan u + eps) ltac:(lra)). lra.
Qed.

(** fermionic: arctan(tan(s/2) + eps) = v up to eps, where s/2 = v + k pi, |v| < pi/2 *)
Lemma atan_tan_regulated v (k : nat) eps : 0 <= eps -> - PI / 2 < v < PI / 2 ->
  v <= atan (tan (v + INR k * PI) + eps) <= v + eps.
Proof.
  intros He Hv. rewrite tan_shift.
  assert (E : atan (tan v) = v) by (apply atan_tan; lra).
  pose proof (atan_lipschitz (tan v) (tan v + eps) ltac:(lra)). lra.
Qed.

(** any arctan lies strictly inside (-pi/2, pi/2): an integrand  y^2 * atan(..)  is bounded by
    y^2 pi/2 whatever its argument -- the unwrapped closed form (pi - s)/2 is not *)
Lemma atan_abs_bound z : Rabs (atan z) < PI / 2.
Proof. pose proof (atan_bound z). apply Rabs_def1; lra. Qed.
