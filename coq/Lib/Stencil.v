(** Finite-difference stencils: polynomial exactness (over R) and the executable
    evaluation-point / row-selection model (over Q).  Repo independent: the tables and
    the row-selection rule are parameters, instantiated by the file generated from
    helpers.py. *)
From Coq Require Import Reals List ZArith QArith Qabs Qreals Lra Lia Bool.
Import ListNotations.

(** * Polynomials as coefficient lists (lowest degree first) *)
Section PolyR.
Local Open Scope R_scope.

Fixpoint peval (a : list R) (y : R) : R :=
  match a with [] => 0 | c :: r => c + y * peval r y end.
Fixpoint pderiv_aux (a : list R) (k : nat) : list R :=
  match a with [] => [] | c :: r => (INR k * c) :: pderiv_aux r (S k) end.
Definition pderiv (a : list R) : list R :=
  match a with [] => [] | _ :: r => pderiv_aux r 1 end.
Fixpoint pderivn (n : nat) (a : list R) : list R :=
  match n with O => a | S m => pderivn m (pderiv a) end.

(** value of a stencil row: sum_i c_i f(x + p_i dx) / dx^n *)
Definition stencilR (coef pos : list Q) (n : nat) (f : R -> R) (x dx : R) : R :=
  fold_right Rplus 0
    (map (fun cp => Q2R (fst cp) * f (x + Q2R (snd cp) * dx)) (combine coef pos))
  / dx ^ n.

(** the row differentiates every polynomial of degree <= d exactly, n times *)
Definition row_exact (n d : nat) (coef pos : list Q) : Prop :=
  forall a, (length a <= S d)%nat -> forall x dx, dx <> 0 ->
    stencilR coef pos n (peval a) x dx = peval (pderivn n a) x.

(** every row of a table is exact to degree (#points - 1) *)
Definition table_exact (n : nat) (coefT posT : list (list Q)) : Prop :=
  Forall2 (fun c p => length c = length p /\ row_exact n (length c - 1) c p) coefT posT.

End PolyR.

Ltac row_exact_tac :=
  let a := fresh "a" in let Ha := fresh "Ha" in
  let x := fresh "x" in let dx := fresh "dx" in let Hdx := fresh "Hdx" in
  intros a Ha x dx Hdx;
  do 8 (try (destruct a as [|? a]; [|cbn [length] in Ha]));
  try (exfalso; cbn [length] in Ha; lia);
  unfold stencilR;
  cbn [combine map fold_right fst snd pderivn pderiv pderiv_aux peval INR];
  unfold Q2R; cbn [Qnum Qden]; field; assumption.

Ltac table_exact_tac :=
  unfold table_exact;
  repeat (first [apply Forall2_nil
                |apply Forall2_cons; [split; [reflexivity|cbn [length Nat.sub]; row_exact_tac]|]]).

(** * Bivariate polynomials for the mixed-derivative (Hessian) stencil.
    [a] is a list of rows: a_ij = nth j (nth i a) is the coefficient of u^i v^j. *)
Section Poly2.
Local Open Scope R_scope.
Fixpoint peval2 (a : list (list R)) (u v : R) : R :=
  match a with [] => 0 | r :: rest => peval r v + u * peval2 rest u v end.
(* d/du d/dv *)
Definition pderiv2 (a : list (list R)) : list (list R) :=
  match a with [] => [] | _ :: rest =>
    (fix go (l : list (list R)) (k : nat) :=
       match l with [] => [] | r :: t => map (Rmult (INR k)) (pderiv r) :: go t (S k) end)
    rest 1%nat end.

(** mixed stencil: sum_k c_k f(x + sx_k dx, y + sy_k dy) / (dx dy) *)
Definition stencil2R (coef sx sy : list Q) (f : R -> R -> R) (x y dx dy : R) : R :=
  fold_right Rplus 0
    (map (fun t => Q2R (fst t) * f (x + Q2R (fst (snd t)) * dx) (y + Q2R (snd (snd t)) * dy))
         (combine coef (combine sx sy)))
  / (dx * dy).
End Poly2.

(** * Executable model over Q: bounds, python indexing, evaluation points *)
Inductive bound := NegInf | PosInf | Fin (q : Q).

Definition qlt (a b : Q) : bool := negb (Qle_bool b a).
(** comparisons of a finite value with a possibly infinite bound (numpy semantics) *)
Definition gt_b (v : Q) (b : bound) : bool :=
  match b with NegInf => true | PosInf => false | Fin u => qlt u v end.
Definition lt_b (v : Q) (b : bound) : bool :=
  match b with NegInf => false | PosInf => true | Fin l => qlt v l end.
Definition ge_b (v : Q) (b : bound) : bool := negb (lt_b v b).
Definition le_b (v : Q) (b : bound) : bool := negb (gt_b v b).
Definition b2z (b : bool) : Z := if b then 1%Z else 0%Z.

(** Python/numpy indexing with negative indices *)
Definition pyindex {A} (l : list A) (i : Z) : option A :=
  if (i <? 0)%Z then
    (if (Z.of_nat (length l) + i <? 0)%Z then None
     else nth_error l (Z.to_nat (Z.of_nat (length l) + i)))
  else nth_error l (Z.to_nat i).

Section ModelQ.
Local Open Scope Q_scope.
(** [offset] is the row-selection rule (generated from the source) *)
Variable offset : Z -> Q -> Q -> bound -> bound -> Z.

Definition eval_points (posT : list (list Q)) (order : Z) (x dx : Q) (lb ub : bound)
  : option (list Q) :=
  option_map (map (fun p => x + p * dx)) (pyindex posT (offset order x dx lb ub)).

Fixpoint qpow (q : Q) (n : nat) : Q := match n with O => 1 | S m => q * qpow q m end.

Definition sumQ (l : list Q) : Q := fold_right Qplus 0 l.

Definition derivQ (coefT posT : list (list Q)) (n : nat) (order : Z) (f : Q -> Q)
           (x dx : Q) (lb ub : bound) : option Q :=
  match pyindex coefT (offset order x dx lb ub), pyindex posT (offset order x dx lb ub) with
  | Some c, Some p =>
      Some (sumQ (map (fun cp => (fst cp / qpow dx n) * f (x + snd cp * dx)) (combine c p)))
  | _, _ => None
  end.

Definition in_bounds (lb ub : bound) (v : Q) : Prop :=
  match lb with NegInf => True | PosInf => False | Fin l => l <= v end /\
  match ub with PosInf => True | NegInf => False | Fin u => v <= u end.

Definition in_boundsb (lb ub : bound) (v : Q) : bool :=
  le_b v ub && ge_b v lb.

(** width of the admissible interval is at least k*dx (true when a side is infinite) *)
Definition wide (lb ub : bound) (k : Q) (dx : Q) : Prop :=
  match lb, ub with Fin l, Fin u => k * dx <= u - l | _, _ => True end.
End ModelQ.

Lemma qlt_true a b : qlt a b = true <-> (a < b)%Q.
Proof.
  unfold qlt. rewrite negb_true_iff. split; intro H.
  - apply Qnot_le_lt. intro K. apply Qle_bool_iff in K. congruence.
  - destruct (Qle_bool b a) eqn:E; [|reflexivity].
    apply Qle_bool_iff in E. exfalso. apply (Qlt_not_le _ _ H E).
Qed.
Lemma qlt_false a b : qlt a b = false <-> (b <= a)%Q.
Proof.
  unfold qlt. rewrite negb_false_iff. apply Qle_bool_iff.
Qed.

(** polynomial with rational coefficients, evaluated in Q (for the exact comparison
    with the implementation on dyadic inputs) *)
Fixpoint pevalQ (a : list Q) (y : Q) : Q :=
  match a with [] => 0%Q | c :: r => (c + y * pevalQ r y)%Q end.

Definition Qabs_le (a b tol : Q) : bool := Qle_bool (Qabs (a - b)) tol.

(** * Composition: what the executable value model [derivQ] returns is the real stencil of
      the selected row, hence exact whenever the table rows are *)


Lemma Forall2_nth_error_pair {A B} (P : A -> B -> Prop) l1 l2 k a b :
  Forall2 P l1 l2 -> nth_error l1 k = Some a -> nth_error l2 k = Some b -> P a b.
Proof.
  intro H; revert k; induction H; intros [|k]; cbn; try discriminate.
  - intros E1 E2; injection E1 as <-; injection E2 as <-; assumption.
  - apply IHForall2.
Qed.

Lemma pyindex_pair {A B} (l1 : list A) (l2 : list B) z a b :
  length l1 = length l2 -> pyindex l1 z = Some a -> pyindex l2 z = Some b ->
  exists k, nth_error l1 k = Some a /\ nth_error l2 k = Some b.
Proof.
  intro E; unfold pyindex; rewrite E.
  destruct (z <? 0)%Z; [destruct (Z.of_nat (length l2) + z <? 0)%Z; [discriminate|]|]; eauto.
Qed.

Lemma pyindex_in_range {A} (l : list A) z :
  (- Z.of_nat (length l) <= z < Z.of_nat (length l))%Z -> exists a, pyindex l z = Some a.
Proof.
  intro H; unfold pyindex.
  destruct (Z.ltb_spec z 0).
  - destruct (Z.ltb_spec (Z.of_nat (length l) + z) 0); [lia|].
    destruct (nth_error l (Z.to_nat (Z.of_nat (length l) + z))) eqn:E; [eauto|].
    apply nth_error_None in E; lia.
  - destruct (nth_error l (Z.to_nat z)) eqn:E; [eauto|].
    apply nth_error_None in E; lia.
Qed.

Lemma pyindex_In {A} (l : list A) z a : pyindex l z = Some a -> In a l.
Proof.
  unfold pyindex.
  destruct (z <? 0)%Z; [destruct (Z.of_nat (length l) + z <? 0)%Z; [discriminate|]|];
    apply nth_error_In.
Qed.

Lemma table_exact_length n cT pT : table_exact n cT pT -> length cT = length pT.
Proof. intro H; induction H; cbn; [reflexivity|f_equal; assumption]. Qed.

Lemma table_exact_pyindex n cT pT z c p :
  table_exact n cT pT -> pyindex cT z = Some c -> pyindex pT z = Some p ->
  length c = length p /\ row_exact n (length c - 1) c p.
Proof.
  intros H Hc Hp.
  destruct (pyindex_pair cT pT z c p (table_exact_length _ _ _ H) Hc Hp) as [k [E1 E2]].
  exact (Forall2_nth_error_pair _ _ _ _ _ _ H E1 E2).
Qed.

Local Open Scope R_scope.

Lemma Q2R_zero : Q2R 0 = 0.
Proof. unfold Q2R; cbn; lra. Qed.
Lemma Q2R_one : Q2R 1 = 1.
Proof. unfold Q2R; cbn; lra. Qed.

Lemma Q2R_pevalQ a y : Q2R (pevalQ a y) = peval (map Q2R a) (Q2R y).
Proof.
  induction a as [|c r IH]; cbn [pevalQ map peval].
  - apply Q2R_zero.
  - rewrite Q2R_plus, Q2R_mult, IH; reflexivity.
Qed.

Lemma Q2R_qpow q n : Q2R (qpow q n) = Q2R q ^ n.
Proof.
  induction n as [|n IH]; cbn [qpow pow].
  - apply Q2R_one.
  - rewrite Q2R_mult, IH; reflexivity.
Qed.

Lemma Q2R_sumQ l : Q2R (sumQ l) = fold_right Rplus 0 (map Q2R l).
Proof.
  unfold sumQ; induction l as [|a l IH]; cbn [fold_right map].
  - apply Q2R_zero.
  - rewrite Q2R_plus, IH; reflexivity.
Qed.

Lemma Q2R_nonzero q : ~ (q == 0)%Q -> Q2R q <> 0.
Proof. intros H E; apply H; apply eqR_Qeq; rewrite E, Q2R_zero; reflexivity. Qed.

Lemma qpow_nonzero q n : ~ (q == 0)%Q -> ~ (qpow q n == 0)%Q.
Proof.
  intros H E. apply Qeq_eqR in E. rewrite Q2R_qpow, Q2R_zero in E.
  exact (pow_nonzero _ _ (Q2R_nonzero _ H) E).
Qed.

(** the value computed by the executable model is the real-valued stencil of the row
    that the row-selection rule picks *)
Lemma derivQ_value offset coefT posT n order (f : Q -> Q) (F : R -> R) x dx lb ub c p :
  (forall y, Q2R (f y) = F (Q2R y)) ->
  pyindex coefT (offset order x dx lb ub) = Some c ->
  pyindex posT (offset order x dx lb ub) = Some p ->
  ~ (dx == 0)%Q ->
  exists v, derivQ offset coefT posT n order f x dx lb ub = Some v /\
            Q2R v = stencilR c p n F (Q2R x) (Q2R dx).
Proof.
  intros Hf Hc Hp Hdx. unfold derivQ. rewrite Hc, Hp.
  eexists; split; [reflexivity|].
  unfold stencilR. rewrite Q2R_sumQ, map_map.
  assert (Hd : Q2R dx ^ n <> 0) by (apply pow_nonzero, Q2R_nonzero, Hdx).
  induction (combine c p) as [|cp l IH]; cbn [map fold_right].
  - unfold Rdiv; rewrite Rmult_0_l; reflexivity.
  - rewrite IH, Q2R_mult, Q2R_div by (apply qpow_nonzero, Hdx).
    rewrite Hf, Q2R_plus, Q2R_mult, Q2R_qpow. field. exact Hd.
Qed.

(** ** the composition theorem, generic in the tables and the row-selection rule *)
Theorem derivQ_exact offset n coefT posT order d a x dx lb ub :
  table_exact n coefT posT ->
  Forall (fun c => length c = S d) coefT ->
  (- Z.of_nat (length coefT) <= offset order x dx lb ub < Z.of_nat (length coefT))%Z ->
  ~ (dx == 0)%Q -> (length a <= S d)%nat ->
  exists v, derivQ offset coefT posT n order (pevalQ a) x dx lb ub = Some v /\
            Q2R v = peval (pderivn n (map Q2R a)) (Q2R x).
Proof.
  intros HT HL Hr Hdx Ha.
  destruct (pyindex_in_range coefT _ Hr) as [c Hc].
  assert (Hr' := Hr). rewrite (table_exact_length _ _ _ HT) in Hr'.
  destruct (pyindex_in_range posT _ Hr') as [p Hp].
  destruct (table_exact_pyindex _ _ _ _ _ _ HT Hc Hp) as [_ Hrow].
  assert (Hlen : length c = S d).
  { rewrite Forall_forall in HL. apply HL. eapply pyindex_In; exact Hc. }
  rewrite Hlen in Hrow. cbn [Nat.sub] in Hrow. rewrite Nat.sub_0_r in Hrow.
  destruct (derivQ_value offset coefT posT n order (pevalQ a) (peval (map Q2R a))
              x dx lb ub c p (Q2R_pevalQ a) Hc Hp Hdx) as [v [Hv Ev]].
  exists v; split; [exact Hv|]. rewrite Ev.
  apply Hrow; [rewrite map_length; exact Ha|apply Q2R_nonzero, Hdx].
Qed.

Local Close Scope R_scope.


(** * Index-level model of numpy selections on the last axis (for the call sites of the
      derivative helpers in EffectivePotential) *)
Inductive pysel := Idx (z : Z) | UpTo (z : Z) | AllSel.   (* a[..., z]   a[..., :z]   a[..., :] *)

Definition pynorm (len : nat) (z : Z) : option nat :=
  if (z <? 0)%Z then
    (if (Z.of_nat len + z <? 0)%Z then None else Some (Z.to_nat (Z.of_nat len + z)))
  else if (z <? Z.of_nat len)%Z then Some (Z.to_nat z) else None.

Definition sel (s : pysel) (len : nat) : option (list nat) :=
  match s with
  | Idx z => option_map (fun k => [k]) (pynorm len z)
  | UpTo z =>
      let stop := if (z <? 0)%Z then Z.max 0 (Z.of_nat len + z) else Z.min z (Z.of_nat len) in
      Some (seq 0 (Z.to_nat stop))
  | AllSel => Some (seq 0 len)
  end.

(** the [axis]/[xAxis]/[yAxis] argument of gradient/hessian: None, an int, or
    [np.arange(self.fieldCount).tolist()] *)
Inductive axes := AxNone | AxInt (z : Z) | AxFieldRange.
Definition axes_sel (a : axes) (nf len : nat) : option (list nat) :=
  match a with
  | AxNone => Some (seq 0 len)
  | AxInt z => option_map (fun k => [k]) (pynorm len z)
  | AxFieldRange => Some (seq 0 nf)
  end.

Inductive scale_kind := FieldScale | TempScale.
(** slots of [np.append(a, b)] where a field-scale array has one entry per field *)
Definition scale_slots (layout : list scale_kind) (nf : nat) : list scale_kind :=
  flat_map (fun s => match s with FieldScale => repeat FieldScale nf | TempScale => [TempScale] end)
           layout.

Lemma pynorm_last nf : pynorm (S nf) (-1) = Some nf.
Proof.
  unfold pynorm. change (-1 <? 0)%Z with true. cbv iota.
  destruct (Z.ltb_spec (Z.of_nat (S nf) + -1) 0); [lia|]. f_equal; lia.
Qed.
Lemma sel_last nf : sel (Idx (-1)) (S nf) = Some [nf].
Proof. unfold sel. rewrite pynorm_last. reflexivity. Qed.
Lemma sel_upto_last nf : sel (UpTo (-1)) (S nf) = Some (seq 0 nf).
Proof.
  unfold sel. change (-1 <? 0)%Z with true. cbv iota. do 2 f_equal. lia.
Qed.
Lemma axes_last nf : axes_sel (AxInt (-1)) nf (S nf) = Some [nf].
Proof. unfold axes_sel. rewrite pynorm_last. reflexivity. Qed.
Lemma sel_first len : sel (Idx 0) (S len) = Some [0%nat].
Proof. unfold sel, pynorm. change (0 <? 0)%Z with false. cbv iota.
  destruct (Z.ltb_spec 0 (Z.of_nat (S len))); [reflexivity|lia]. Qed.
Lemma seq_snoc nf : seq 0 (S nf) = seq 0 nf ++ [nf].
Proof. rewrite seq_S. reflexivity. Qed.
