(** Finite-difference stencils: polynomial exactness (over R) and the executable
    evaluation-point / row-selection model (over Q).  Repo independent: the tables and
    the row-selection rule are parameters, instantiated by the file generated from
    helpers.py. *)
From Coq Require Import Reals List ZArith QArith Qabs Qreals Lra Lia Bool.
Import ListNotations.

(** * Polynomials as coefficient lists (lowest degree first) *)
Section PolyR.
Local Open Scope R_scope.

Fixpoint peval (a : list R) (y : R) : R :=
  match a with [] => 0 | c :: r => c + y * peval r y end.
Fixpoint pderiv_aux (a : list R) (k : nat) : list R :=
  match a with [] => [] | c :: r => (INR k * c) :: pderiv_aux r (S k) end.
Definition pderiv (a : list R) : list R :=
  match a with [] => [] | _ :: r => pderiv_aux r 1 end.
Fixpoint pderivn (n : nat) (a : list R) : list R :=
  match n with O => a | S m => pderivn m (pderiv a) end.

(** value of a stencil row: sum_i c_i f(x + p_i dx) / dx^n *)
Definition stencilR (coef pos : list Q) (n : nat) (f : R -> R) (x dx : R) : R :=
  fold_right Rplus 0
    (map (fun cp => Q2R (fst cp) * f (x + Q2R (snd cp) * dx)) (combine coef pos))
  / dx ^ n.

(** the row differentiates every polynomial of degree <= d exactly, n times *)
Definition row_exact (n d : nat) (coef pos : list Q) : Prop :=
  forall a, (length a <= S d)%nat -> forall x dx, dx <> 0 ->
    stencilR coef pos n (peval a) x dx = peval (pderivn n a) x.

(** every row of a table is exact to degree (#points - 1) *)
Definition table_exact (n : nat) (coefT posT : list (list Q)) : Prop :=
  Forall2 (fun c p => length c = length p /\ row_exact n (length c - 1) c p) coefT posT.

End PolyR.

Ltac row_exact_tac :=
  let a := fresh "a" in let Ha := fresh "Ha" in
  let x := fresh "x" in let dx := fresh "dx" in let Hdx := fresh "Hdx" in
  intros a Ha x dx Hdx;
  do 8 (try (destruct a as [|? a]; [|cbn [length] in Ha]));
  try (exfalso; cbn [length] in Ha; lia);
  unfold stencilR;
  cbn [combine map fold_right fst snd pderivn pderiv pderiv_aux peval INR];
  unfold Q2R; cbn [Qnum Qden]; field; assumption.

Ltac table_exact_tac :=
  unfold table_exact;
  repeat (first [apply Forall2_nil
                |apply Forall2_cons; [split; [reflexivity|cbn [length Nat.sub]; row_exact_tac]|]]).

(** * Bivariate polynomials for the mixed-derivative (Hessian) stencil.
    [a] is a list of rows: a_ij = nth j (nth i a) is the coefficient of u^i v^j. *)
Section Poly2.
Local Open Scope R_scope.
Fixpoint peval2 (a : list (list R)) (u v : R) : R :=
  match a with [] => 0 | r :: rest => peval r v + u * peval2 rest u v end.
(* d/du d/dv *)
Definition pderiv2 (a : list (list R)) : list (list R) :=
  match a with [] => [] | _ :: rest =>
    (fix go (l : list (list R)) (k : nat) :=
       match l with [] => [] | r :: t => map (Rmult (INR k)) (pderiv r) :: go t (S k) end)
    rest 1%nat end.

(** mixed stencil: sum_k c_k f(x + sx_k dx, y + sy_k dy) / (dx dy) *)
Definition stencil2R (coef sx sy : list Q) (f : R -> R -> R) (x y dx dy : R) : R :=
  fold_right Rplus 0
    (map (fun t => Q2R (fst t) * f (x + Q2R (fst (snd t)) * dx) (y + Q2R (snd (snd t)) * dy))
         (combine coef (combine sx sy)))
  / (dx * dy).
End Poly2.

(** * Executable model over Q: bounds, python indexing, evaluation points *)
Inductive bound := NegInf | PosInf | Fin (q : Q).

Definition qlt (a b : Q) : bool := negb (Qle_bool b a).
(** comparisons of a finite value with a possibly infinite bound (numpy semantics) *)
Definition gt_b (v : Q) (b : bound) : bool :=
  match b with NegInf => true | PosInf => false | Fin u => qlt u v end.
Definition lt_b (v : Q) (b : bound) : bool :=
  match b with NegInf => false | PosInf => true | Fin l => qlt v l end.
Definition ge_b (v : Q) (b : bound) : bool := negb (lt_b v b).
Definition le_b (v : Q) (b : bound) : bool := negb (gt_b v b).
Definition b2z (b : bool) : Z := if b then 1%Z else 0%Z.

(** Python/numpy indexing with negative indices *)
Definition pyindex {A} (l : list A) (i : Z) : option A :=
  if (i <? 0)%Z then
    (if (Z.of_nat (length l) + i <? 0)%Z then None
     else nth_error l (Z.to_nat (Z.of_nat (length l) + i)))
  else nth_error l (Z.to_nat i).

Section ModelQ.
Local Open Scope Q_scope.
(** [offset] is the row-selection rule (generated from the source) *)
Variable offset : Z -> Q -> Q -> bound -> bound -> Z.

Definition eval_points (posT : list (list Q)) (order : Z) (x dx : Q) (lb ub : bound)
  : option (list Q) :=
  option_map (map (fun p => x + p * dx)) (pyindex posT (offset order x dx lb ub)).

Fixpoint qpow (q : Q) (n : nat) : Q := match n with O => 1 | S m => q * qpow q m end.

Definition sumQ (l : list Q) : Q := fold_right Qplus 0 l.

Definition derivQ (coefT posT : list (list Q)) (n : nat) (order : Z) (f : Q -> Q)
           (x dx : Q) (lb ub : bound) : option Q :=
  match pyindex coefT (offset order x dx lb ub), pyindex posT (offset order x dx lb ub) with
  | Some c, Some p =>
      Some (sumQ (map (fun cp => (fst cp / qpow dx n) * f (x + snd cp * dx)) (combine c p)))
  | _, _ => None
  end.

Definition in_bounds (lb ub : bound) (v : Q) : Prop :=
  match lb with NegInf => True | PosInf => False | Fin l => l <= v end /\
  match ub with PosInf => True | NegInf => False | Fin u => v <= u end.

Definition in_boundsb (lb ub : bound) (v : Q) : bool :=
  le_b v ub && ge_b v lb.

(** width of the admissible interval is at least k*dx (true when a side is infinite) *)
Definition wide (lb ub : bound) (k : Q) (dx : Q) : Prop :=
  match lb, ub with Fin l, Fin u => k * dx <= u - l | _, _ => True end.
End ModelQ.

Lemma qlt_true a b : qlt a b = true <-> (a < b)%Q.
Proof.
  unfold qlt. rewrite negb_true_iff. split; intro H.
  - apply Qnot_le_lt. intro K. apply Qle_bool_iff in K. congruence.
  - destruct (Qle_bool b a) eqn:E; [|reflexivity].
    apply Qle_bool_iff in E. exfalso. apply (Qlt_not_le _ _ H E).
Qed.
Lemma qlt_false a b : qlt a b = false <-> (b <= a)%Q.
Proof.
  unfold qlt. rewrite negb_false_iff. apply Qle_bool_iff.
Qed.

(** polynomial with rational coefficients, evaluated in Q (for the exact comparison
    with the implementation on dyadic inputs) *)
Fixpoint pevalQ (a : list Q) (y : Q) : Q :=
  match a with [] => 0%Q | c :: r => (c + y * pevalQ r y)%Q end.

Definition Qabs_le (a b tol : Q) : bool := Qle_bool (Qabs (a - b)) tol.
