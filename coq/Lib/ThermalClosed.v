(** Closed forms of the imaginary parts on the first sheet, and the soundness of the integer
    checks that compare a table row with them (C20).

      Im Jf(x) = int_0^c y^2 (s/2) dy           = pi x^2 / 32                 (-pi^2 <= x <= 0)
      Im Jb(x) = int_0^c y^2 (pi - s)/2 dy      = pi (c^3/6 - x^2/32)         (-4 pi^2 <= x <= 0)

    with c = sqrt(-x), s = sqrt(c^2 - y^2) (the integrands are the ones proved in Props/C20.v to
    be what the code integrates; the elementary integrals themselves are NOT proved here: the
    harness compares the formulas with an independent quadrature).  What IS proved: a boolean
    integer check on a row (x, im), using certified rational enclosures of pi and of the square
    root, implies the real-number inequality |im - closed form| <= 1e-9. *)
From Coq Require Import Reals Lra ZArith Lia Bool List.
From Interval Require Import Tactic.
From WG Require Import Lib.ThermalTables.
Local Open Scope R_scope.

Definition PLO : Z := 314159265358979323846.
Definition PHI : Z := 314159265358979323847.
Definition PDEN : Z := 100000000000000000000.
Lemma PI_enclosure : IZR PLO / IZR PDEN <= PI <= IZR PHI / IZR PDEN.
Proof. unfold PLO, PHI, PDEN. split; interval with (i_prec 100). Qed.

Lemma div_le_l a b c : 0 < c -> a <= b * c -> a / c <= b.
Proof.
  intros Hc H. apply Rmult_le_reg_r with c; [lra|].
  unfold Rdiv. rewrite Rmult_assoc, Rinv_l by lra. lra.
Qed.
Lemma le_div_r a b c : 0 < c -> a * c <= b -> a <= b / c.
Proof.
  intros Hc H. apply Rmult_le_reg_r with c; [lra|].
  unfold Rdiv. rewrite Rmult_assoc, Rinv_l by lra. lra.
Qed.

(** real-number cores *)
Lemma closed_f_real a X u P plo phi T tol :
  0 < u -> 0 < P -> plo / P <= PI <= phi / P ->
  32 * a * u * P - plo * X ^ 2 <= T -> phi * X ^ 2 - 32 * a * u * P <= T ->
  T = 32 * P * u ^ 2 * tol ->
  Rabs (a / u - PI * (X / u) ^ 2 / 32) <= tol.
Proof.
  intros Hu HP [P1 P2] H1 H2 HT.
  assert (E : a / u - PI * (X / u) ^ 2 / 32 = (32 * a * u - PI * X ^ 2) / (32 * u ^ 2))
    by (field; lra).
  rewrite E.
  assert (Q1 : plo <= PI * P).
  { apply Rmult_le_reg_r with (/ P); [apply Rinv_0_lt_compat; lra|]. rewrite Rmult_assoc, Rinv_r by lra. unfold Rdiv in P1. lra. }
  assert (Q2 : PI * P <= phi).
  { apply Rmult_le_reg_r with (/ P); [apply Rinv_0_lt_compat; lra|]. rewrite Rmult_assoc, Rinv_r by lra. unfold Rdiv in P2. lra. }
  assert (X2 : 0 <= X ^ 2) by (simpl; nra).
  assert (U2 : 0 < 32 * u ^ 2) by (simpl; nra).
  assert (K1 : plo * X ^ 2 <= PI * P * X ^ 2) by nra.
  assert (K2 : PI * P * X ^ 2 <= phi * X ^ 2) by nra.
  apply Rabs_le. split.
  - apply le_div_r; [lra|].
    apply Rmult_le_reg_r with P; [lra|]. nra.
  - apply div_le_l; [lra|].
    apply Rmult_le_reg_r with P; [lra|]. nra.
Qed.

Lemma closed_b_real a X u P plo phi T tol clo :
  0 < u -> 0 < P -> 0 <= plo -> plo / P <= PI <= phi / P -> 0 <= X -> 0 <= clo ->
  clo ^ 2 <= X * u -> X * u <= (clo + 1) ^ 2 ->
  0 <= 16 * clo ^ 3 - 3 * X ^ 2 * u ->
  96 * a * u ^ 2 * P - plo * (16 * clo ^ 3 - 3 * X ^ 2 * u) <= T ->
  phi * (16 * (clo + 1) ^ 3 - 3 * X ^ 2 * u) - 96 * a * u ^ 2 * P <= T ->
  T = 96 * P * u ^ 3 * tol ->
  Rabs (a / u - PI * ((sqrt (X / u)) ^ 3 / 6 - (X / u) ^ 2 / 32)) <= tol.
Proof.
  intros Hu HP Hplo [P1 P2] HX Hclo S1 S2 HA H1 H2 HT.
  set (s := sqrt (X / u)).
  assert (Hxu : 0 <= X / u) by (apply Rmult_le_pos; [lra|left; apply Rinv_0_lt_compat; lra]).
  assert (Hs : 0 <= s) by apply sqrt_pos.
  assert (Hss : s * s = X / u) by (apply sqrt_sqrt; exact Hxu).
  set (C := s * u).
  assert (HC : 0 <= C) by (unfold C; nra).
  assert (HCC : C ^ 2 = X * u).
  { unfold C. replace ((s * u) ^ 2) with (s * s * (u * u)) by ring. rewrite Hss. field. lra. }
  assert (B1 : clo <= C) by nra.
  assert (B2 : C <= clo + 1) by nra.
  assert (C3lo : clo ^ 3 <= C ^ 3) by (apply pow_incr; lra).
  assert (C3hi : C ^ 3 <= (clo + 1) ^ 3) by (apply pow_incr; lra).
  set (A := 16 * C ^ 3 - 3 * X ^ 2 * u).
  assert (E : a / u - PI * (s ^ 3 / 6 - (X / u) ^ 2 / 32) = (96 * a * u ^ 2 - PI * A) / (96 * u ^ 3)).
  { unfold A, C. field. lra. }
  rewrite E.
  assert (Q1 : plo <= PI * P).
  { apply Rmult_le_reg_r with (/ P); [apply Rinv_0_lt_compat; lra|]. rewrite Rmult_assoc, Rinv_r by lra. unfold Rdiv in P1. lra. }
  assert (Q2 : PI * P <= phi).
  { apply Rmult_le_reg_r with (/ P); [apply Rinv_0_lt_compat; lra|]. rewrite Rmult_assoc, Rinv_r by lra. unfold Rdiv in P2. lra. }
  assert (U3 : 0 < 96 * u ^ 3) by (assert (0 < u ^ 3) by (apply pow_lt; lra); lra).
  set (Alo := 16 * clo ^ 3 - 3 * X ^ 2 * u) in *.
  set (Ahi := 16 * (clo + 1) ^ 3 - 3 * X ^ 2 * u) in *.
  assert (A1 : Alo <= A) by (unfold Alo, A; lra).
  assert (A2 : A <= Ahi) by (unfold Ahi, A; lra).
  assert (K1 : plo * Alo <= PI * P * A) by nra.
  assert (K2 : PI * P * A <= phi * Ahi) by nra.
  apply Rabs_le. split.
  - apply le_div_r; [lra|].
    apply Rmult_le_reg_r with P; [lra|]. nra.
  - apply div_le_l; [lra|].
    apply Rmult_le_reg_r with P; [lra|]. nra.
Qed.

(** integer checks on a row and their soundness *)
Local Open Scope Z_scope.
Definition TOLF : Z := Eval vm_compute in 32 * PDEN * (U * U / 10 ^ 9).
Definition TOLB : Z := Eval vm_compute in 96 * PDEN * (U * U * U / 10 ^ 9).

Definition imf_check (tol x im : Z) : bool :=
  let X2 := x * x in
  let L := 32 * im * U * PDEN in
  ((L - PLO * X2 <=? tol) && (PHI * X2 - L <=? tol))%bool.

Definition imb_check (tol x im : Z) : bool :=
  let X := - x in
  let clo := Z.sqrt (X * U) in
  let chi := clo + 1 in
  let t := 3 * (X * X) * U in
  let Alo := 16 * (clo * clo * clo) - t in
  let Ahi := 16 * (chi * chi * chi) - t in
  let L := 96 * im * (U * U) * PDEN in
  ((0 <=? X) && (0 <=? Alo) && (L - PLO * Alo <=? tol) && (PHI * Ahi - L <=? tol))%bool.

Local Open Scope R_scope.
Lemma IZR_U_pos : 0 < IZR U.
Proof. apply IZR_lt. reflexivity. Qed.

Lemma imf_sound x im : imf_check TOLF x im = true ->
  Rabs (IZR im / IZR U - PI * (IZR x / IZR U) ^ 2 / 32) <= / 1000000000.
Proof.
  unfold imf_check. cbv zeta. rewrite andb_true_iff, !Z.leb_le. intros [H1 H2].
  apply IZR_le in H1, H2. rewrite minus_IZR, !mult_IZR in H1, H2.
  apply closed_f_real with (P := IZR PDEN) (plo := IZR PLO) (phi := IZR PHI) (T := IZR TOLF).
  - exact IZR_U_pos.
  - apply IZR_lt. reflexivity.
  - exact PI_enclosure.
  - simpl pow. lra.
  - simpl pow. lra.
  - unfold TOLF, PDEN, U. simpl pow. lra.
Qed.

Lemma imb_sound x im : imb_check TOLB x im = true ->
  Rabs (IZR im / IZR U -
        PI * ((sqrt (IZR (- x) / IZR U)) ^ 3 / 6 - (IZR (- x) / IZR U) ^ 2 / 32)) <= / 1000000000.
Proof.
  unfold imb_check. cbv zeta. rewrite !andb_true_iff, !Z.leb_le. intros [[[HX HA] H1] H2].
  set (X := (- x)%Z) in *.
  assert (HXU : (0 <= X * U)%Z) by (pose proof U_pos; nia).
  pose proof (Z.sqrt_spec (X * U) HXU) as [S1 S2].
  pose proof (Z.sqrt_nonneg (X * U)) as S0.
  set (clo := Z.sqrt (X * U)) in *.
  replace (Z.succ clo) with (clo + 1)%Z in S2 by lia.
  apply Z.lt_le_incl in S2.
  apply IZR_le in HX, HA, H1, H2, S0, S1, S2.
  repeat rewrite ?minus_IZR, ?mult_IZR, ?plus_IZR in HA.
  repeat rewrite ?minus_IZR, ?mult_IZR, ?plus_IZR in H1.
  repeat rewrite ?minus_IZR, ?mult_IZR, ?plus_IZR in H2.
  repeat rewrite ?minus_IZR, ?mult_IZR, ?plus_IZR in S1.
  repeat rewrite ?minus_IZR, ?mult_IZR, ?plus_IZR in S2.
  apply closed_b_real with (P := IZR PDEN) (plo := IZR PLO) (phi := IZR PHI) (T := IZR TOLB)
                           (clo := IZR clo).
  - exact IZR_U_pos.
  - apply IZR_lt. reflexivity.
  - apply IZR_le. discriminate.
  - exact PI_enclosure.
  - exact HX.
  - exact S0.
  - simpl pow. lra.
  - simpl pow. lra.
  - simpl pow. lra.
  - simpl pow. lra.
  - simpl pow. lra.
  - unfold TOLB, PDEN, U. simpl pow. lra.
Qed.

(** whole columns *)
Definition imag_closed_Jf (lo : Z) (rows : list row) : Prop :=
  forall r, In r rows -> (lo <= rx r < 0)%Z ->
    Rabs (IZR (rim r) / IZR U - PI * (IZR (rx r) / IZR U) ^ 2 / 32) <= / 1000000000.
Definition imag_closed_Jb (rows : list row) : Prop :=
  forall r, In r rows -> (rx r < 0)%Z ->
    Rabs (IZR (rim r) / IZR U -
          PI * ((sqrt (IZR (- rx r) / IZR U)) ^ 3 / 6 - (IZR (- rx r) / IZR U) ^ 2 / 32))
    <= / 1000000000.

Definition imf_row (lo : Z) (r : row) : bool :=
  if ((lo <=? rx r) && (rx r <? 0))%Z then imf_check TOLF (rx r) (rim r) else true.
Definition imb_row (r : row) : bool :=
  if (rx r <? 0)%Z then imb_check TOLB (rx r) (rim r) else true.

Lemma imag_closed_Jf_sound lo rows : forallb (imf_row lo) rows = true -> imag_closed_Jf lo rows.
Proof.
  intros H r Hr [L0 L1]. pose proof (forallb_In _ _ H r Hr) as C. unfold imf_row in C.
  apply Z.leb_le in L0. apply Z.ltb_lt in L1. rewrite L0, L1 in C. simpl in C.
  apply imf_sound. exact C.
Qed.
Lemma imag_closed_Jb_sound rows : forallb imb_row rows = true -> imag_closed_Jb rows.
Proof.
  intros H r Hr L1. pose proof (forallb_In _ _ H r Hr) as C. unfold imb_row in C.
  apply Z.ltb_lt in L1. rewrite L1 in C. apply imb_sound. exact C.
Qed.
