(** Change of units for the piecewise equation-of-state template of Lib/EosTemplate.v
    (tabulated pressure -f on [a,b], extrapolation A T^mu / 3 - eps outside).
    Repo independent.  In units rescaled by lam:  T -> lam T,  f -> lam^4 f(./lam),
    f' -> lam^3 f'(./lam), f'' -> lam^2 f''(./lam),  mu -> mu,  A -> lam^(4-mu) A,
    eps -> lam^4 eps. *)
From Coq Require Import Reals Lra.
From WG Require Import Lib.EosTemplate Lib.Units.
Local Open Scope R_scope.

Section Scale.
Variable lam : R.
Hypothesis Hlam : 0 < lam.

Definition sc4 (f : R -> R) : R -> R := fun T => lam ^ 4 * f (T / lam).
Definition sc3 (f : R -> R) : R -> R := fun T => lam ^ 3 * f (T / lam).
Definition sc2 (f : R -> R) : R -> R := fun T => lam ^ 2 * f (T / lam).
Definition scA (mu A : R) : R := Rpower lam (4 - mu) * A.

Lemma unscale_l T : lam * T / lam = T.
Proof. field. lra. Qed.

Lemma lt_scale x y : lam * x < lam * y <-> x < y.
Proof. split; intro; nra. Qed.

Variables a b : R.
Variables f df ddf : R -> R.
Variables muL AL epsL muH AH epsH : R.

Notation P' := (P (lam * a) (lam * b) (sc4 f) muL (scA muL AL) (lam ^ 4 * epsL)
                  muH (scA muH AH) (lam ^ 4 * epsH)).
Notation DP' := (DP (lam * a) (lam * b) (sc3 df) muL (scA muL AL) muH (scA muH AH)).
Notation DDP' := (DDP (lam * a) (lam * b) (sc2 ddf) muL (scA muL AL) muH (scA muH AH)).
Notation DE' := (DE (lam * a) (lam * b) (sc2 ddf) muL (scA muL AL) muH (scA muH AH)).
Notation CSQ' := (CSQ (lam * a) (lam * b) (sc3 df) (sc2 ddf) muL (scA muL AL) muH (scA muH AH)).

Lemma Rlt_dec_scale (A : Type) x y (X Y : A) :
  (if Rlt_dec (lam * x) (lam * y) then X else Y) = (if Rlt_dec x y then X else Y).
Proof.
  destruct (Rlt_dec (lam * x) (lam * y)) as [H1|H1]; destruct (Rlt_dec x y) as [H2|H2];
    try reflexivity; exfalso; destruct (lt_scale x y) as [F G]; auto.
Qed.

Ltac cases T :=
  rewrite !Rlt_dec_scale;
  destruct (Rlt_dec T a) as [H2|H2]; [| destruct (Rlt_dec b T) as [H4|H4]].

Lemma P_scale T : 0 < T ->
  P' (lam * T) = lam ^ 4 * P a b f muL AL epsL muH AH epsH T.
Proof.
  intro HT. unfold P, sc4, scA. cases T.
  - rewrite Rpower_scale by assumption. rewrite <- (Rpower_split4 lam muL Hlam). ring.
  - rewrite Rpower_scale by assumption. rewrite <- (Rpower_split4 lam muH Hlam). ring.
  - rewrite unscale_l. ring.
Qed.

Lemma DP_scale T : 0 < T ->
  DP' (lam * T) = lam ^ 3 * DP a b df muL AL muH AH T.
Proof.
  intro HT. unfold DP, sc3, scA. cases T.
  - rewrite Rpower_scale by assumption. rewrite <- (Rpower_split3 lam muL Hlam). ring.
  - rewrite Rpower_scale by assumption. rewrite <- (Rpower_split3 lam muH Hlam). ring.
  - rewrite unscale_l. ring.
Qed.

Lemma DDP_scale T : 0 < T ->
  DDP' (lam * T) = lam ^ 2 * DDP a b ddf muL AL muH AH T.
Proof.
  intro HT. unfold DDP, sc2, scA. cases T.
  - rewrite Rpower_scale by assumption. rewrite <- (Rpower_split2 lam muL Hlam). ring.
  - rewrite Rpower_scale by assumption. rewrite <- (Rpower_split2 lam muH Hlam). ring.
  - rewrite unscale_l. ring.
Qed.

Lemma DE_scale T : 0 < T ->
  DE' (lam * T) = lam ^ 3 * DE a b ddf muL AL muH AH T.
Proof. intro HT. unfold DE. rewrite DDP_scale by exact HT. ring. Qed.

Lemma ratio_scale T : 0 < T ->
  DP' (lam * T) / DE' (lam * T) = DP a b df muL AL muH AH T / DE a b ddf muL AL muH AH T.
Proof.
  intro HT. rewrite DP_scale, DE_scale by exact HT. apply div_scale.
  apply Rgt_not_eq. apply pow_lt. exact Hlam.
Qed.

(** the sound speed does not depend on the units *)
Lemma CSQ_scale T : 0 < a -> 0 < b ->
  0 < T -> CSQ' (lam * T) = CSQ a b df ddf muL AL muH AH T.
Proof.
  intros Ha Hb HT. unfold CSQ. cases T; apply ratio_scale; assumption.
Qed.
End Scale.

(** the matching conditions that determine (mu, A, eps) at an end point x are covariant *)
Lemma matched_scale lam f df ddf x mu A eps :
  0 < lam -> 0 < x ->
  matched f df ddf x mu A eps ->
  matched (sc4 lam f) (sc3 lam df) (sc2 lam ddf) (lam * x) mu (scA lam mu A) (lam ^ 4 * eps).
Proof.
  intros Hl Hx [Hmu [HA He]]. unfold matched, sc4, sc3, sc2, scA.
  rewrite !unscale_l by exact Hl.
  assert (H3 : lam ^ 3 <> 0) by (apply Rgt_not_eq, pow_lt; exact Hl).
  assert (Hr : (- (lam ^ 3 * df x)) / (lam * x * - (lam ^ 2 * ddf x)) =
               (- df x) / (x * - ddf x)).
  { replace (- (lam ^ 3 * df x)) with (lam ^ 3 * (- df x)) by ring.
    replace (lam * x * - (lam ^ 2 * ddf x)) with (lam ^ 3 * (x * - ddf x)) by ring.
    apply div_scale. exact H3. }
  pose proof (Rpower_gt0 lam mu) as Rm.
  repeat split.
  - rewrite Hr. exact Hmu.
  - rewrite HA. rewrite Rpower_scale by assumption.
    replace (lam * x * - (lam ^ 3 * df x))
      with (Rpower lam (4 - mu) * Rpower lam mu * (x * - df x))
      by (rewrite (Rpower_split4 lam mu Hl); ring).
    unfold Rdiv. rewrite !Rinv_mult.
    set (i1 := / mu). set (i2 := / Rpower x mu). field. lra.
  - rewrite He. rewrite Rpower_scale by assumption.
    rewrite <- (Rpower_split4 lam mu Hl). ring.
Qed.

(** (mu, A, eps) are functions of the end point data *)
Lemma matched_unique f df ddf x mu A eps mu' A' eps' :
  matched f df ddf x mu A eps -> matched f df ddf x mu' A' eps' ->
  mu' = mu /\ A' = A /\ eps' = eps.
Proof.
  intros [H1 [H2 H3]] [K1 [K2 K3]].
  assert (E : mu' = mu) by (rewrite H1, K1; reflexivity).
  rewrite E in K2, K3. assert (E2 : A' = A) by (rewrite H2, K2; reflexivity).
  rewrite E2 in K3. repeat split; try assumption. rewrite H3, K3. reflexivity.
Qed.
