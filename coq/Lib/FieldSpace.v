(** Lib/FieldSpace.v -- vocabulary for C08 (covariance under relabelling of field space).

    A wall configuration is a LIST of per-field records (one per background field, in the
    order the user listed the fields).  numpy code that is elementwise/broadcast over the
    field axis is a [map] over this list; [np.sum / np.max / np.min] over the field axis
    are [sumR / maxR / minR].  A relabelling of field space is a list of triples
    (i, s, c): new field j is  s * (old field i) + c.

    The Fields (points x fields) container is a [list (list A)] (rows = points); its
    helpers are index maps, polymorphic in A so that they can be run by vm_compute. *)
From Coq Require Import Reals List Lra Lia Permutation Arith.
Import ListNotations.
Local Open Scope R_scope.

(** * reductions over the field axis *)
Fixpoint sumR (l : list R) : R := match l with [] => 0 | x :: t => x + sumR t end.
Fixpoint maxR (l : list R) : R :=
  match l with [] => 0 | x :: t => match t with [] => x | _ => Rmax x (maxR t) end end.
Fixpoint minR (l : list R) : R :=
  match l with [] => 0 | x :: t => match t with [] => x | _ => Rmin x (minR t) end end.

Lemma maxR_cons x t : t <> [] -> maxR (x :: t) = Rmax x (maxR t).
Proof. destruct t; [congruence|reflexivity]. Qed.
Lemma minR_cons x t : t <> [] -> minR (x :: t) = Rmin x (minR t).
Proof. destruct t; [congruence|reflexivity]. Qed.

Lemma sumR_app a b : sumR (a ++ b) = sumR a + sumR b.
Proof. induction a; cbn [sumR app]; lra. Qed.

Lemma sumR_perm l l' : Permutation l l' -> sumR l = sumR l'.
Proof. induction 1; cbn [sumR]; lra. Qed.

Lemma Rmax_lcomm a b c : Rmax a (Rmax b c) = Rmax b (Rmax a c).
Proof. now rewrite !Rmax_assoc, (Rmax_comm a b). Qed.
Lemma Rmin_lcomm a b c : Rmin a (Rmin b c) = Rmin b (Rmin a c).
Proof. now rewrite !Rmin_assoc, (Rmin_comm a b). Qed.
Lemma Rmax_shift a b c : Rmax (a + c) (b + c) = Rmax a b + c.
Proof. unfold Rmax. repeat match goal with |- context [Rle_dec ?x ?y] => destruct (Rle_dec x y) end; lra. Qed.
Lemma Rmin_shift a b c : Rmin (a + c) (b + c) = Rmin a b + c.
Proof. unfold Rmin. repeat match goal with |- context [Rle_dec ?x ?y] => destruct (Rle_dec x y) end; lra. Qed.

Lemma maxR_perm l l' : Permutation l l' -> maxR l = maxR l'.
Proof.
  induction 1.
  - reflexivity.
  - destruct l as [|a l].
    + apply Permutation_nil in H. subst. reflexivity.
    + destruct l' as [|a' l']; [apply Permutation_sym, Permutation_nil in H; discriminate|].
      rewrite !maxR_cons by discriminate. now rewrite IHPermutation.
  - destruct l as [|a l].
    + cbn [maxR]. apply Rmax_comm.
    + rewrite (maxR_cons y) by discriminate. rewrite (maxR_cons x (a :: l)) by discriminate.
      rewrite (maxR_cons x) by discriminate. rewrite (maxR_cons y (a :: l)) by discriminate.
      apply Rmax_lcomm.
  - congruence.
Qed.

Lemma minR_perm l l' : Permutation l l' -> minR l = minR l'.
Proof.
  induction 1.
  - reflexivity.
  - destruct l as [|a l].
    + apply Permutation_nil in H. subst. reflexivity.
    + destruct l' as [|a' l']; [apply Permutation_sym, Permutation_nil in H; discriminate|].
      rewrite !minR_cons by discriminate. now rewrite IHPermutation.
  - destruct l as [|a l].
    + cbn [minR]. apply Rmin_comm.
    + rewrite (minR_cons y) by discriminate. rewrite (minR_cons x (a :: l)) by discriminate.
      rewrite (minR_cons x) by discriminate. rewrite (minR_cons y (a :: l)) by discriminate.
      apply Rmin_lcomm.
  - congruence.
Qed.

Lemma maxR_shift c l : l <> [] -> maxR (map (fun x => x + c) l) = maxR l + c.
Proof.
  induction l as [|a l IH]; [congruence|]. intros _.
  destruct l as [|b l]; [reflexivity|].
  change (map (fun x => x + c) (a :: b :: l)) with ((a + c) :: map (fun x => x + c) (b :: l)).
  rewrite maxR_cons by (cbn [map]; discriminate).
  rewrite IH by discriminate. rewrite (maxR_cons a) by discriminate. apply Rmax_shift.
Qed.

Lemma minR_shift c l : l <> [] -> minR (map (fun x => x + c) l) = minR l + c.
Proof.
  induction l as [|a l IH]; [congruence|]. intros _.
  destruct l as [|b l]; [reflexivity|].
  change (map (fun x => x + c) (a :: b :: l)) with ((a + c) :: map (fun x => x + c) (b :: l)).
  rewrite minR_cons by (cbn [map]; discriminate).
  rewrite IH by discriminate. rewrite (minR_cons a) by discriminate. apply Rmin_shift.
Qed.

(** the maximum of a non-empty list is one of its elements and bounds them all (so the
    totalised value 0 for the empty list is never what a statement relies on) *)
Lemma maxR_in l : l <> [] -> In (maxR l) l.
Proof.
  induction l as [|a l IH]; [congruence|]. intros _. destruct l as [|b l]; [left; reflexivity|].
  rewrite maxR_cons by discriminate. unfold Rmax. destruct (Rle_dec a (maxR (b :: l))).
  - right. apply IH. discriminate.
  - left. reflexivity.
Qed.
Lemma maxR_ub l x : In x l -> x <= maxR l.
Proof.
  induction l as [|a l IH]; [intros []|]. destruct l as [|b l].
  - intros [<-|[]]. cbn [maxR]. lra.
  - rewrite maxR_cons by discriminate. intros [<-|H].
    + apply Rmax_l.
    + eapply Rle_trans; [apply IH, H|apply Rmax_r].
Qed.

Lemma minR_in l : l <> [] -> In (minR l) l.
Proof.
  induction l as [|a l IH]; [congruence|]. intros _. destruct l as [|b l]; [left; reflexivity|].
  rewrite minR_cons by discriminate. unfold Rmin. destruct (Rle_dec a (minR (b :: l))).
  - left. reflexivity.
  - right. apply IH. discriminate.
Qed.
Lemma minR_lb l x : In x l -> minR l <= x.
Proof.
  induction l as [|a l IH]; [intros []|]. destruct l as [|b l].
  - intros [<-|[]]. cbn [minR]. lra.
  - rewrite minR_cons by discriminate. intros [<-|H].
    + apply Rmin_l.
    + eapply Rle_trans; [apply Rmin_r|apply IH, H].
Qed.

(** * per-field record and relabellings *)
Record wfield := mk_wfield { vevLow : R; vevHigh : R; width : R; offset : R }.
Definition wf0 := mk_wfield 0 0 1 0.

Definition triple := (nat * R * R)%type.
Definition t_idx (t : triple) : nat := fst (fst t).
Definition t_sgn (t : triple) : R := snd (fst t).
Definition t_shift (t : triple) : R := snd t.

(** new field = s * old + c : the two phases move, width and offset stay *)
Definition relabel1 (s c : R) (f : wfield) : wfield :=
  mk_wfield (s * vevLow f + c) (s * vevHigh f + c) (width f) (offset f).
Definition relabel (T : list triple) (fs : list wfield) : list wfield :=
  map (fun t => relabel1 (t_sgn t) (t_shift t) (nth (t_idx t) fs wf0)) T.
(** how a point of field space / a tangent vector (or gradient, s = +-1) moves *)
Definition relabel_point (T : list triple) (v : list R) : list R :=
  map (fun t => t_sgn t * nth (t_idx t) v 0 + t_shift t) T.
Definition relabel_vec (T : list triple) (v : list R) : list R :=
  map (fun t => t_sgn t * nth (t_idx t) v 0) T.

(** well-formed: the indices are a permutation of 0..n-1 and the signs are +-1 *)
Definition wf_relab (n : nat) (T : list triple) : Prop :=
  Permutation (map t_idx T) (seq 0 n) /\ Forall (fun t => t_sgn t = 1 \/ t_sgn t = -1) T.

Lemma nth_map_in {A B} (f : A -> B) (l : list A) (n : nat) (da : A) (db : B) :
  (n < length l)%nat -> nth n (map f l) db = f (nth n l da).
Proof.
  intros H. rewrite nth_indep with (d' := f da) by (now rewrite map_length). apply map_nth.
Qed.

Lemma map_nth_seq {A} (d : A) (l : list A) : map (fun i => nth i l d) (seq 0 (length l)) = l.
Proof.
  apply nth_ext with (d := d) (d' := d).
  - now rewrite map_length, seq_length.
  - intros n Hn. rewrite map_length, seq_length in Hn.
    rewrite nth_map_in with (da := 0%nat) by (now rewrite seq_length).
    rewrite seq_nth by assumption. reflexivity.
Qed.

Lemma wf_relab_length n T : wf_relab n T -> length T = n.
Proof. intros [H _]. apply Permutation_length in H. now rewrite map_length, seq_length in H. Qed.

Lemma wf_relab_idx n T t : wf_relab n T -> In t T -> (t_idx t < n)%nat.
Proof.
  intros [H _] Hin. assert (In (t_idx t) (seq 0 n)).
  { eapply Permutation_in; [exact H|]. now apply in_map. }
  apply in_seq in H0. lia.
Qed.

Lemma relabel_picks_perm {A} (d : A) (l : list A) T :
  wf_relab (length l) T -> Permutation (map (fun t => nth (t_idx t) l d) T) l.
Proof.
  intros [H _].
  replace (map (fun t => nth (t_idx t) l d) T) with (map (fun i => nth i l d) (map t_idx T))
    by (rewrite map_map; reflexivity).
  eapply Permutation_trans; [apply Permutation_map; exact H|].
  rewrite map_nth_seq. apply Permutation_refl.
Qed.

(** general form, for any per-field payload A acted on by the sign *)
Lemma relabel_gen_invariant {A} (d : A) (act : R -> A -> A) (g : A -> R) T (l : list A) :
  (forall s x, s = 1 \/ s = -1 -> g (act s x) = g x) ->
  wf_relab (length l) T ->
  Permutation (map g (map (fun t => act (t_sgn t) (nth (t_idx t) l d)) T)) (map g l).
Proof.
  intros Hg HT. rewrite map_map.
  rewrite map_ext_in with (g := fun t => g (nth (t_idx t) l d)).
  - replace (map (fun t => g (nth (t_idx t) l d)) T)
      with (map g (map (fun t => nth (t_idx t) l d) T)) by (rewrite map_map; reflexivity).
    apply Permutation_map. now apply relabel_picks_perm.
  - intros t Ht. apply Hg. destruct HT as [_ HS]. rewrite Forall_forall in HS. now apply HS.
Qed.

(** any per-field quantity that does not see sign and shift is carried along unchanged:
    its values over the relabelled configuration are a permutation of the old ones *)
Lemma relabel_map_invariant (g : wfield -> R) T fs :
  (forall s c f, s = 1 \/ s = -1 -> g (relabel1 s c f) = g f) ->
  wf_relab (length fs) T -> Permutation (map g (relabel T fs)) (map g fs).
Proof.
  intros Hg HT. unfold relabel. rewrite map_map.
  rewrite map_ext_in with (g := fun t => g (nth (t_idx t) fs wf0)).
  - replace (map (fun t => g (nth (t_idx t) fs wf0)) T)
      with (map g (map (fun t => nth (t_idx t) fs wf0) T)) by (rewrite map_map; reflexivity).
    apply Permutation_map. now apply relabel_picks_perm.
  - intros t Ht. apply Hg. destruct HT as [_ HS]. rewrite Forall_forall in HS. now apply HS.
Qed.

(** pointwise form: component j of a map over the relabelled list *)
Lemma nth_relabel {B} (g : wfield -> B) (db : B) T fs j :
  (j < length T)%nat ->
  nth j (map g (relabel T fs)) db =
  g (relabel1 (t_sgn (nth j T (0%nat, 0, 0))) (t_shift (nth j T (0%nat, 0, 0)))
              (nth (t_idx (nth j T (0%nat, 0, 0))) fs wf0)).
Proof.
  intros Hj. unfold relabel. rewrite map_map.
  now rewrite nth_map_in with (da := (0%nat, 0, 0)).
Qed.

Lemma map_neq_nil {A B} (g : A -> B) l : l <> [] -> map g l <> [].
Proof. destruct l; [congruence|discriminate]. Qed.

Lemma nth_repeat_lt {A} (a d : A) m k : (k < m)%nat -> nth k (repeat a m) d = a.
Proof. revert k. induction m; intros k H; [lia|]. destruct k; [reflexivity|]. cbn. apply IHm. lia. Qed.

Lemma nth_skipn_add {A} (l : list A) d m k : nth k (skipn m l) d = nth (m + k) l d.
Proof.
  revert l. induction m; intros l; [reflexivity|]. destruct l; [now destruct k|]. cbn. apply IHm.
Qed.

(** * z-translation / re-pinning: offsets become  d_i - c / L_i  (c = L_p d_p pins field p) *)
Definition shift_offsets (c : R) (fs : list wfield) : list wfield :=
  map (fun f => mk_wfield (vevLow f) (vevHigh f) (width f) (offset f - c / width f)) fs.
Definition repin (p : wfield) (fs : list wfield) : list wfield :=
  shift_offsets (width p * offset p) fs.

Lemma repin_offset p fs j : (j < length fs)%nat -> width (nth j fs wf0) <> 0 ->
  offset (nth j (repin p fs) wf0) =
  offset (nth j fs wf0) - (width p / width (nth j fs wf0)) * offset p.
Proof.
  intros Hj Hw. unfold repin, shift_offsets.
  rewrite nth_map_in with (da := wf0) by assumption. cbn [offset]. field. exact Hw.
Qed.

Lemma repin_pinned p : width p <> 0 ->
  offset (nth 0 (repin p [p]) wf0) = 0.
Proof. intros H. cbn. field. exact H. Qed.

(** * the Fields container: rows = field-space points, columns = fields *)
Section Mat.
Context {A : Type} (d : A).
Definition mrow (M : list (list A)) (i : nat) : list A := nth i M [].
Definition mcol (M : list (list A)) (j : nat) : list A := map (fun r => nth j r d) M.
Definition mrows_slice (a b : nat) (M : list (list A)) := firstn (b - a) (skipn a M).
Definition mcols_slice (a b : nat) (M : list (list A)) :=
  map (fun r => firstn (b - a) (skipn a r)) M.
Definition zipapp (X Y : list (list A)) := map (fun p => fst p ++ snd p) (combine X Y).
(** np.concatenate((X, Y, Z), axis) *)
Definition mconcat3 (axis : nat) (X Y Z : list (list A)) : list (list A) :=
  match axis with O => X ++ Y ++ Z | _ => zipapp X (zipapp Y Z) end.
(** shape[k] *)
Definition mshape (M : list (list A)) (k : nat) : nat :=
  match k with O => length M | _ => length (nth 0 M []) end.

Definition permute_vec (p : list nat) (r : list A) : list A := map (fun j => nth j r d) p.
Definition permute_cols (p : list nat) (M : list (list A)) := map (permute_vec p) M.

Lemma mcol_permute_cols p M j : (j < length p)%nat ->
  mcol (permute_cols p M) j = mcol M (nth j p 0%nat).
Proof.
  intros Hj. unfold mcol, permute_cols. rewrite map_map. apply map_ext. intros r.
  unfold permute_vec. now rewrite nth_map_in with (da := 0%nat).
Qed.

Lemma mrow_permute_cols p M i : (i < length M)%nat ->
  mrow (permute_cols p M) i = permute_vec p (mrow M i).
Proof.
  intros Hi. unfold mrow, permute_cols.
  now rewrite nth_map_in with (da := []).
Qed.

Lemma mrows_slice_permute_cols p a b M :
  mrows_slice a b (permute_cols p M) = permute_cols p (mrows_slice a b M).
Proof. unfold mrows_slice, permute_cols. now rewrite skipn_map, firstn_map. Qed.

Lemma mconcat_rows_permute_cols p X Y Z :
  mconcat3 0 (permute_cols p X) (permute_cols p Y) (permute_cols p Z) =
  permute_cols p (mconcat3 0 X Y Z).
Proof. unfold mconcat3, permute_cols. now rewrite !map_app. Qed.

Lemma mshape_permute_cols p M : M <> [] ->
  mshape (permute_cols p M) 0 = mshape M 0 /\ mshape (permute_cols p M) 1 = length p.
Proof.
  intros HM. destruct M as [|r M]; [congruence|]. split.
  - unfold mshape, permute_cols. now rewrite map_length.
  - cbn. unfold permute_vec. now rewrite map_length.
Qed.
End Mat.

(** * position of an index in a permutation (inverse relabelling of the parameters) *)
Fixpoint pos (i : nat) (l : list nat) : nat :=
  match l with [] => 0%nat | x :: t => if Nat.eqb x i then 0%nat else S (pos i t) end.

Lemma nth_pos l i : In i l -> (pos i l < length l)%nat /\ nth (pos i l) l 0%nat = i.
Proof.
  induction l as [|x t IH]; [intros []|]. intros Hin. cbn [pos].
  destruct (Nat.eqb x i) eqn:E.
  - apply Nat.eqb_eq in E. split; [cbn; lia|exact E].
  - apply Nat.eqb_neq in E. destruct Hin as [->|Hin]; [congruence|].
    destruct (IH Hin) as [A B]. split; [cbn; lia|exact B].
Qed.

Lemma pos_nth l j : NoDup l -> (j < length l)%nat -> pos (nth j l 0%nat) l = j.
Proof.
  revert j. induction l as [|x t IH]; intros j Hnd Hj; [cbn in Hj; lia|].
  inversion Hnd as [|? ? Hx Ht]; subst. destruct j as [|j].
  - cbn. now rewrite Nat.eqb_refl.
  - cbn [nth pos]. cbn in Hj.
    destruct (Nat.eqb x (nth j t 0%nat)) eqn:E.
    + apply Nat.eqb_eq in E. exfalso. apply Hx. rewrite E. apply nth_In. lia.
    + f_equal. apply IH; [exact Ht|lia].
Qed.

Lemma wf_relab_NoDup n T : wf_relab n T -> NoDup (map t_idx T).
Proof.
  intros [H _]. eapply Permutation_NoDup; [apply Permutation_sym, H|apply seq_NoDup].
Qed.

Lemma wf_relab_In n T i : wf_relab n T -> (i < n)%nat -> In i (map t_idx T).
Proof.
  intros [H _] Hi. eapply Permutation_in; [apply Permutation_sym, H|]. apply in_seq. lia.
Qed.
