(** Continuous side of the Gauss-Chebyshev-Lobatto rule for property C13: the integral of a
    member of the class  sqrt(1-x^2) * sum_j c_j U_j(x)  over [-1,1], written in the angle
    x = cos t (dx = - sin t dt, sqrt(1-x^2) = sin t):
        int_0^pi sin(t)^2 * Ucomb c (cos t) dt = (pi/2) c_0 .
    Uses cos_integral / is_RInt_lin_R of Lib.Quadrature (property C16's library). *)
From Coq Require Import Reals Lra Lia List Arith.
Set Warnings "-ambiguous-paths".
From Coquelicot Require Import Coquelicot.
From WG Require Import Lib.Moments Lib.MomentsGCL Lib.Quadrature.
Import ListNotations.
Local Open Scope R_scope.

Lemma is_RInt_ext_R (f g : R -> R) (a b l : R) :
  (forall x : R, f x = g x) -> is_RInt f a b l -> is_RInt g a b l.
Proof. intros H. apply is_RInt_ext. intros x _. apply H. Qed.

Lemma sin2_U_angle j t :
  sin t ^ 2 * chebU j (cos t) =
  / 2 * cos (INR j * t) + (- / 2 * cos (INR (S (S j)) * t) + 0).
Proof.
  replace (sin t ^ 2 * chebU j (cos t)) with (sin t * (chebU j (cos t) * sin t)) by ring.
  rewrite (proj1 (chebU_sin j t)).
  apply (Rmult_eq_reg_l 2); [|lra].
  replace (2 * (sin t * sin (INR (S j) * t))) with (2 * sin t * sin (INR (S j) * t)) by ring.
  rewrite sin_sin_prod.
  replace (INR (S j) * t - t) with (INR j * t) by (rewrite S_INR; ring).
  replace (INR (S j) * t + t) with (INR (S (S j)) * t) by (rewrite (S_INR (S j)); ring).
  field.
Qed.

Lemma U_angle_integral j :
  is_RInt (fun t => sin t ^ 2 * chebU j (cos t)) 0 PI (if Nat.eqb j 0 then PI / 2 else 0).
Proof.
  apply (is_RInt_ext_R (fun t => / 2 * cos (INR j * t) + (- / 2 * cos (INR (S (S j)) * t) + 0))).
  { intros x. symmetry. apply sin2_U_angle. }
  match goal with |- is_RInt _ _ _ ?l => replace l with
    (/ 2 * ifz j PI 0 + (- / 2 * ifz (S (S j)) PI 0 + 0))
    by (destruct j; cbn [ifz Nat.eqb]; field) end.
  apply is_RInt_lin_R; [apply cos_integral|].
  apply is_RInt_lin_R; [apply cos_integral|apply is_RInt_zero_R].
Qed.

Lemma Ucomb_from_angle_integral c : forall j,
  is_RInt (fun t => sin t ^ 2 * Ucomb_from j c (cos t)) 0 PI
          (match j, c with O, a :: _ => PI / 2 * a | _, _ => 0 end).
Proof.
  induction c as [|a r IH]; intros j.
  - apply (is_RInt_ext_R (fun _ => 0)).
    { intros x. cbn [Ucomb_from]. ring. }
    destruct j; apply is_RInt_zero_R.
  - apply (is_RInt_ext_R (fun t => a * (sin t ^ 2 * chebU j (cos t))
                                + sin t ^ 2 * Ucomb_from (S j) r (cos t))).
    { intros x. cbn [Ucomb_from]. ring. }
    match goal with |- is_RInt _ _ _ ?l => replace l with
      (a * (if Nat.eqb j 0 then PI / 2 else 0)
       + match S j, r with O, b :: _ => PI / 2 * b | _, _ => 0 end)
      by (destruct j, r; cbn [Nat.eqb]; ring) end.
    apply is_RInt_lin_R; [apply U_angle_integral|apply IH].
Qed.

Theorem Ucomb_angle_integral c :
  is_RInt (fun t => sin t ^ 2 * Ucomb c (cos t)) 0 PI (PI / 2 * nth 0 c 0).
Proof.
  match goal with |- is_RInt _ _ _ ?l => replace l with
    (match O, c with O, a :: _ => PI / 2 * a | _, _ => 0 end)
    by (destruct c; cbn [nth]; ring) end.
  apply Ucomb_from_angle_integral.
Qed.
