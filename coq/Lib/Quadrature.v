(* Gauss-Chebyshev-Lobatto quadrature exactness (all sizes n).

   Nodes t_k = k*pi/n (x_k = -cos t_k up to orientation), weights pi/n with the two end-point
   weights halved.  This is the rule used by WallGo's Polynomial.integrate.

   Contents
     1. discrete orthogonality of cos(m t_k)           gcl_cos_sum, gcl_cos_sum_0
     2. exactness on cosine polynomials of degree <2n   gcl_trig_exact, trig_integral, gcl_exact
     3. the weighted form the code uses                 endpoint_terms_vanish, gcl_weighted_exact *)

From Coq Require Import Reals List Lra Lia Arith.
Set Warnings "-ambiguous-paths".
From Coquelicot Require Import Coquelicot.
Local Open Scope R_scope.

(* sum_{k=0}^{n} with the first and the last term halved *)
Definition sum_pp (f : nat -> R) (n : nat) : R := sum_f_R0 f n - (f 0%nat + f n) / 2.

(* ------------------------------------------------------------------------------------------ *)
(* generic facts about sum_pp                                                                  *)

Lemma sum_pp_ext : forall f g n, (forall k, (k <= n)%nat -> f k = g k) -> sum_pp f n = sum_pp g n.
Proof.
  intros f g n H. unfold sum_pp.
  rewrite (sum_eq f g n H), (H 0%nat), (H n); auto with arith.
Qed.

Lemma sum_f_R0_lin : forall f g c n,
  sum_f_R0 (fun k => c * f k + g k) n = c * sum_f_R0 f n + sum_f_R0 g n.
Proof.
  intros f g c n. induction n as [|n IH]; cbn [sum_f_R0].
  - reflexivity.
  - rewrite IH. ring.
Qed.

Lemma sum_pp_lin : forall f g c n,
  sum_pp (fun k => c * f k + g k) n = c * sum_pp f n + sum_pp g n.
Proof.
  intros. unfold sum_pp. rewrite sum_f_R0_lin. field.
Qed.

Lemma sum_f_R0_zero : forall n, sum_f_R0 (fun _ => 0) n = 0.
Proof.
  induction n as [|n IH]; cbn [sum_f_R0]; [reflexivity | rewrite IH; ring].
Qed.

Lemma sum_pp_zero : forall n, sum_pp (fun _ => 0) n = 0.
Proof.
  intros. unfold sum_pp. rewrite sum_f_R0_zero. field.
Qed.

Lemma sum_f_R0_one : forall n, sum_f_R0 (fun _ => 1) n = INR n + 1.
Proof.
  induction n as [|n IH]; cbn [sum_f_R0].
  - cbn [INR]. ring.
  - rewrite IH, S_INR. ring.
Qed.

(* ------------------------------------------------------------------------------------------ *)
(* 1. discrete orthogonality                                                                   *)

(* closed form of the cosine partial sums (Dirichlet kernel) *)
Lemma cos_partial_sum : forall a j,
  2 * sin (a / 2) * sum_f_R0 (fun k => cos (INR k * a)) j = sin (a / 2) + sin ((INR j + / 2) * a).
Proof.
  intros a j. induction j as [|j IH]; cbn [sum_f_R0].
  - cbn [INR]. rewrite Rmult_0_l, cos_0.
    replace ((0 + / 2) * a) with (a / 2) by field. ring.
  - rewrite Rmult_plus_distr_l, IH. rewrite S_INR.
    replace ((INR j + 1 + / 2) * a) with ((INR j + 1) * a + a / 2) by field.
    replace ((INR j + / 2) * a) with ((INR j + 1) * a - a / 2) by field.
    rewrite sin_plus, sin_minus. ring.
Qed.

Lemma sum_pp_cos_closed : forall a n,
  2 * sin (a / 2) * sum_pp (fun k => cos (INR k * a)) n = sin (INR n * a) * cos (a / 2).
Proof.
  intros a n. unfold sum_pp.
  unfold Rminus. rewrite Rmult_plus_distr_l, cos_partial_sum.
  cbn [INR]. rewrite Rmult_0_l, cos_0.
  replace ((INR n + / 2) * a) with (INR n * a + a / 2) by field.
  rewrite sin_plus. field.
Qed.

Lemma sin_INR_PI : forall m, sin (INR m * PI) = 0.
Proof.
  induction m as [|m IH].
  - cbn [INR]. rewrite Rmult_0_l. apply sin_0.
  - rewrite S_INR, Rmult_plus_distr_r, Rmult_1_l, neg_sin, IH. ring.
Qed.

Theorem gcl_cos_sum : forall n m : nat, (1 <= n)%nat -> (1 <= m <= 2 * n - 1)%nat ->
  sum_pp (fun k => cos (INR m * (INR k * PI / INR n))) n = 0.
Proof.
  intros n m Hn Hm.
  assert (Hn0 : 0 < INR n) by (apply lt_0_INR; lia).
  assert (Hm1 : 1 <= INR m) by (change 1 with (INR 1); apply le_INR; lia).
  assert (Hm2 : INR m + 1 <= 2 * INR n).
  { change 2 with (INR 2). rewrite <- mult_INR. change 1 with (INR 1) at 1.
    rewrite <- plus_INR. apply le_INR. lia. }
  set (a := INR m * PI / INR n).
  rewrite (sum_pp_ext _ (fun k => cos (INR k * a)) n).
  2:{ intros k _. f_equal. unfold a. field. lra. }
  assert (Hcl := sum_pp_cos_closed a n).
  replace (INR n * a) with (INR m * PI) in Hcl by (unfold a; field; lra).
  rewrite sin_INR_PI, Rmult_0_l in Hcl.
  assert (Hs : 0 < sin (a / 2)).
  { assert (HPI := PI_RGT_0).
    assert (Ha : a / 2 = PI * (INR m / (2 * INR n))) by (unfold a; field; lra).
    assert (Hq1 : 0 < INR m / (2 * INR n)) by (apply Rdiv_lt_0_compat; lra).
    assert (Hq2 : INR m / (2 * INR n) < 1).
    { apply Rmult_lt_reg_r with (2 * INR n); [lra|].
      unfold Rdiv. rewrite Rmult_assoc, Rinv_l by lra. lra. }
    apply sin_gt_0; rewrite Ha.
    - apply Rmult_lt_0_compat; lra.
    - rewrite <- (Rmult_1_r PI) at 2. apply Rmult_lt_compat_l; lra. }
  apply Rmult_eq_reg_l with (2 * sin (a / 2)); [|lra].
  rewrite Rmult_0_r. exact Hcl.
Qed.

Theorem gcl_cos_sum_0 : forall n : nat, (1 <= n)%nat ->
  sum_pp (fun k => cos (INR 0 * (INR k * PI / INR n))) n = INR n.
Proof.
  intros n Hn.
  rewrite (sum_pp_ext _ (fun _ => 1) n).
  2:{ intros k _. cbn [INR]. rewrite Rmult_0_l. apply cos_0. }
  unfold sum_pp. rewrite sum_f_R0_one. field.
Qed.

(* both cases at once *)
Lemma gcl_cos_sum_gen : forall n m : nat, (1 <= n)%nat -> (m <= 2 * n - 1)%nat ->
  sum_pp (fun k => cos (INR m * (INR k * PI / INR n))) n = match m with O => INR n | S _ => 0 end.
Proof.
  intros n [|m] Hn Hm.
  - apply gcl_cos_sum_0; assumption.
  - apply gcl_cos_sum; lia.
Qed.

(* ------------------------------------------------------------------------------------------ *)
(* 2. trigonometric (cosine) polynomials  g(t) = sum_m a_m cos(m t)                            *)

Fixpoint trigpoly_aux (a : list R) (m : nat) (t : R) : R :=
  match a with nil => 0 | c :: r => c * cos (INR m * t) + trigpoly_aux r (S m) t end.
Definition trigpoly (a : list R) (t : R) : R := trigpoly_aux a 0 t.

Lemma gcl_trig_sum_aux : forall (n : nat) (a : list R) (m : nat),
  (1 <= n)%nat -> (m + length a <= 2 * n)%nat ->
  sum_pp (fun k => trigpoly_aux a m (INR k * PI / INR n)) n
  = match m with O => INR n * nth 0 a 0 | S _ => 0 end.
Proof.
  intros n a. induction a as [|c r IH]; intros m Hn Hlen; cbn [trigpoly_aux].
  - rewrite sum_pp_zero. destruct m; cbn [nth]; ring.
  - cbn [length] in Hlen.
    rewrite (sum_pp_lin (fun k => cos (INR m * (INR k * PI / INR n)))
                        (fun k => trigpoly_aux r (S m) (INR k * PI / INR n)) c n).
    rewrite (IH (S m) Hn) by lia.
    rewrite gcl_cos_sum_gen by lia.
    destruct m; cbn [nth]; ring.
Qed.

Theorem gcl_trig_exact : forall (n : nat) (a : list R), (1 <= n)%nat -> (length a <= 2 * n)%nat ->
  PI / INR n * sum_pp (fun k => trigpoly a (INR k * PI / INR n)) n = PI * nth 0 a 0.
Proof.
  intros n a Hn Hlen. unfold trigpoly.
  rewrite gcl_trig_sum_aux by (auto; lia).
  assert (0 < INR n) by (apply lt_0_INR; lia).
  field. lra.
Qed.

(* the integral side *)

Lemma is_RInt_lin_R : forall (f g : R -> R) (a b c lf lg : R),
  is_RInt f a b lf -> is_RInt g a b lg ->
  is_RInt (fun t => c * f t + g t) a b (c * lf + lg).
Proof.
  intros f g a b c lf lg Hf Hg.
  exact (is_RInt_plus _ _ a b _ _ (is_RInt_scal f a b c lf Hf) Hg).
Qed.

Lemma is_RInt_zero_R : forall a b : R, is_RInt (fun _ : R => 0) a b 0.
Proof.
  intros a b.
  generalize (is_RInt_const a b (0 : R)). unfold scal; simpl; unfold mult; simpl.
  rewrite Rmult_0_r. exact (fun H => H).
Qed.

Definition ifz (m : nat) (x y : R) : R := match m with O => x | S _ => y end.

Lemma cos_integral : forall m : nat,
  is_RInt (fun t => cos (INR m * t)) 0 PI (ifz m PI 0).
Proof.
  intros [|m]; cbn [ifz].
  - apply is_RInt_ext with (f := fun _ => 1).
    { intros x _. cbn [INR]. rewrite Rmult_0_l, cos_0. reflexivity. }
    generalize (is_RInt_const 0 PI (1 : R)). unfold scal; simpl; unfold mult; simpl.
    rewrite Rminus_0_r, Rmult_1_r. exact (fun H => H).
  - set (c := INR (S m)).
    assert (Hc : c <> 0) by (apply not_0_INR; discriminate).
    replace 0 with (minus (sin (c * PI) / c) (sin (c * 0) / c)) at 2.
    2:{ unfold c at 1. rewrite sin_INR_PI, Rmult_0_r, sin_0.
        unfold minus, plus, opp; simpl. field. exact Hc. }
    apply (is_RInt_derive (fun t => sin (c * t) / c) (fun t => cos (c * t))).
    + intros x _. auto_derive; [exact I|]. field. exact Hc.
    + intros x _. apply continuous_comp.
      * apply continuous_scal_r with (k := c) (f := fun t : R => t). apply continuous_id.
      * apply continuity_pt_filterlim. apply continuity_cos.
Qed.

Lemma trig_integral_aux : forall (a : list R) (m : nat),
  is_RInt (trigpoly_aux a m) 0 PI (ifz m (PI * nth 0 a 0) 0).
Proof.
  induction a as [|c r IH]; intros m.
  - cbn [trigpoly_aux].
    assert (E : ifz m (PI * nth 0 (@nil R) 0) 0 = 0)
      by (destruct m; cbn [nth ifz]; ring).
    rewrite E. apply is_RInt_zero_R.
  - assert (E : ifz m (PI * nth 0 (c :: r) 0) 0 = c * ifz m PI 0 + ifz (S m) (PI * nth 0 r 0) 0)
      by (destruct m; cbn [nth ifz]; ring).
    rewrite E.
    apply (is_RInt_lin_R (fun t => cos (INR m * t)) (trigpoly_aux r (S m)) 0 PI c).
    + apply cos_integral.
    + exact (IH (S m)).
Qed.

Theorem trig_integral : forall a : list R, is_RInt (trigpoly a) 0 PI (PI * nth 0 a 0).
Proof.
  intros a. exact (trig_integral_aux a 0).
Qed.

Theorem gcl_exact : forall n a, (1 <= n)%nat -> (length a <= 2 * n)%nat ->
  is_RInt (trigpoly a) 0 PI (PI / INR n * sum_pp (fun k => trigpoly a (INR k * PI / INR n)) n).
Proof.
  intros n a Hn Hlen. rewrite gcl_trig_exact by assumption. apply trig_integral.
Qed.

(* ------------------------------------------------------------------------------------------ *)
(* 3. the weighted form used by the code                                                       *)

(* "the n-interval Lobatto rule integrates g exactly over [0,PI]" *)
Definition gcl_exact_for (n : nat) (g : R -> R) : Prop :=
  is_RInt g 0 PI (PI / INR n * sum_pp (fun k => g (INR k * PI / INR n)) n).

Lemma gcl_exact_for_ext : forall n f g, (forall t, f t = g t) ->
  gcl_exact_for n f -> gcl_exact_for n g.
Proof.
  intros n f g H Hf. unfold gcl_exact_for in *.
  rewrite (sum_pp_ext (fun k => g (INR k * PI / INR n)) (fun k => f (INR k * PI / INR n)) n)
    by (intros; symmetry; apply H).
  apply is_RInt_ext with (f := f); [|exact Hf].
  intros x _. apply H.
Qed.

Lemma gcl_exact_for_lin : forall n f g c,
  gcl_exact_for n f -> gcl_exact_for n g -> gcl_exact_for n (fun t => c * f t + g t).
Proof.
  intros n f g c Hf Hg. unfold gcl_exact_for in *.
  rewrite (sum_pp_lin (fun k => f (INR k * PI / INR n)) (fun k => g (INR k * PI / INR n)) c n).
  replace (PI / INR n * (c * sum_pp (fun k => f (INR k * PI / INR n)) n
                         + sum_pp (fun k => g (INR k * PI / INR n)) n))
    with (c * (PI / INR n * sum_pp (fun k => f (INR k * PI / INR n)) n)
          + PI / INR n * sum_pp (fun k => g (INR k * PI / INR n)) n) by ring.
  apply is_RInt_lin_R; assumption.
Qed.

Lemma gcl_exact_for_zero : forall n, gcl_exact_for n (fun _ => 0).
Proof.
  intros n. unfold gcl_exact_for. rewrite sum_pp_zero, Rmult_0_r. apply is_RInt_zero_R.
Qed.

Lemma gcl_exact_for_cos : forall n m, (1 <= n)%nat -> (m <= 2 * n - 1)%nat ->
  gcl_exact_for n (fun t => cos (INR m * t)).
Proof.
  intros n m Hn Hm. unfold gcl_exact_for.
  rewrite gcl_cos_sum_gen by assumption.
  assert (0 < INR n) by (apply lt_0_INR; lia).
  assert (E : PI / INR n * match m with O => INR n | S _ => 0 end = ifz m PI 0)
    by (destruct m; cbn [ifz]; field; lra).
  rewrite E. apply cos_integral.
Qed.

(* product-to-sum:  sin^2 t cos x = cos x / 2 - cos (x + 2t) / 4 - cos (x - 2t) / 4 *)
Lemma sin2_cos_prod : forall t x,
  sin t ^ 2 * cos x = / 2 * cos x + (- / 4 * cos (x + 2 * t) + (- / 4 * cos (x - 2 * t) + 0)).
Proof.
  intros t x. rewrite cos_plus, cos_minus, cos_2a_sin. field.
Qed.

(* |j - 2| as a natural number *)
Definition absm2 (j : nat) : nat :=
  match j with O => 2%nat | S O => 1%nat | S (S j') => j' end.

Lemma cos_absm2 : forall j t, cos (INR j * t - 2 * t) = cos (INR (absm2 j) * t).
Proof.
  intros [|[|j]] t; cbn [absm2].
  - rewrite <- cos_neg. f_equal. cbn [INR]. ring.
  - rewrite <- cos_neg. f_equal. cbn [INR]. ring.
  - f_equal. rewrite !S_INR. ring.
Qed.

Lemma gcl_exact_for_sin2cos : forall n j, (2 <= n)%nat -> (j <= 2 * n - 3)%nat ->
  gcl_exact_for n (fun t => sin t ^ 2 * cos (INR j * t)).
Proof.
  intros n j Hn Hj.
  apply gcl_exact_for_ext with
    (f := fun t => / 2 * cos (INR j * t)
                   + (- / 4 * cos (INR (j + 2) * t) + (- / 4 * cos (INR (absm2 j) * t) + 0))).
  { intros t. rewrite sin2_cos_prod, cos_absm2. rewrite plus_INR. cbn [INR].
    replace (INR j * t + 2 * t) with ((INR j + (1 + 1)) * t) by ring. reflexivity. }
  apply gcl_exact_for_lin; [apply gcl_exact_for_cos; lia|].
  apply gcl_exact_for_lin; [apply gcl_exact_for_cos; lia|].
  apply gcl_exact_for_lin; [|apply gcl_exact_for_zero].
  apply gcl_exact_for_cos; [lia|].
  destruct j as [|[|j]]; cbn [absm2]; lia.
Qed.

Lemma gcl_weighted_aux : forall n b m, (2 <= n)%nat -> (m + length b <= 2 * n - 2)%nat ->
  gcl_exact_for n (fun t => sin t ^ 2 * trigpoly_aux b m t).
Proof.
  intros n b. induction b as [|c r IH]; intros m Hn Hlen.
  - apply gcl_exact_for_ext with (f := fun _ => 0); [|apply gcl_exact_for_zero].
    intros t. cbn [trigpoly_aux]. ring.
  - cbn [length] in Hlen.
    apply gcl_exact_for_ext with
      (f := fun t => c * (sin t ^ 2 * cos (INR m * t)) + sin t ^ 2 * trigpoly_aux r (S m) t).
    { intros t. cbn [trigpoly_aux]. ring. }
    apply gcl_exact_for_lin.
    + apply gcl_exact_for_sin2cos; lia.
    + apply IH; lia.
Qed.

Theorem gcl_weighted_exact : forall n b, (2 <= n)%nat -> (length b <= 2 * n - 2)%nat ->
  is_RInt (fun t => sin t ^ 2 * trigpoly b t) 0 PI
          (PI / INR n * sum_pp (fun k => sin (INR k * PI / INR n) ^ 2 * trigpoly b (INR k * PI / INR n)) n).
Proof.
  intros n b Hn Hlen. exact (gcl_weighted_aux n b 0 Hn Hlen).
Qed.

(* the two end-point terms vanish (sin 0 = sin PI = 0): halving the end-point weights or not
   gives the same value *)
Lemma endpoint_terms_vanish : forall n (f : nat -> R), (1 <= n)%nat ->
  sum_pp (fun k => sin (INR k * PI / INR n) ^ 2 * f k) n
  = sum_f_R0 (fun k => sin (INR k * PI / INR n) ^ 2 * f k) n.
Proof.
  intros n f Hn. unfold sum_pp.
  assert (H0 : 0 < INR n) by (apply lt_0_INR; lia).
  replace (INR 0 * PI / INR n) with 0 by (cbn [INR]; field; lra).
  replace (INR n * PI / INR n) with PI by (field; lra).
  rewrite sin_0, sin_PI. field.
Qed.

(* the same statement with a plain (un-halved) sum *)
Corollary gcl_weighted_exact_plain : forall n b, (2 <= n)%nat -> (length b <= 2 * n - 2)%nat ->
  is_RInt (fun t => sin t ^ 2 * trigpoly b t) 0 PI
          (PI / INR n * sum_f_R0 (fun k => sin (INR k * PI / INR n) ^ 2 * trigpoly b (INR k * PI / INR n)) n).
Proof.
  intros n b Hn Hlen.
  rewrite <- (endpoint_terms_vanish n (fun k => trigpoly b (INR k * PI / INR n))) by lia.
  apply gcl_weighted_exact; assumption.
Qed.
