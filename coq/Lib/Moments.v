(** Generic facts used by property C13 (out-of-equilibrium moments).

    Nothing here mentions WallGo's formulas: finite sums and their linearity, the
    bookkeeping of Polynomial bases, derivatives of the two momentum compactification
    shapes, the algebra of the boost, the azimuthal integral.  The generated module
    (GenC13.MomentsGen) instantiates them with the definitions extracted from the source. *)
From Coq Require Import Reals Lra Lia List Bool Arith.
From Coquelicot Require Import Coquelicot.
From WG Require Import Lib.NumpySem.
Import ListNotations.
Local Open Scope R_scope.

(** * 1. finite sums  sum_{lo <= i < hi} g i *)
Fixpoint sumn (g : nat -> R) (lo n : nat) : R :=
  match n with O => 0 | S k => sumn g lo k + g (lo + k)%nat end.
Definition sumf (lo hi : nat) (g : nat -> R) : R := sumn g lo (hi - lo).

Lemma sumn_ext g h lo n :
  (forall i, (lo <= i < lo + n)%nat -> g i = h i) -> sumn g lo n = sumn h lo n.
Proof.
  induction n; intros H; cbn [sumn]; [reflexivity|].
  rewrite IHn, H; [reflexivity|lia|]. intros; apply H; lia.
Qed.
Lemma sumf_ext lo hi g h :
  (forall i, (lo <= i < hi)%nat -> g i = h i) -> sumf lo hi g = sumf lo hi h.
Proof. intros H; apply sumn_ext; intros; apply H; lia. Qed.

Lemma sumn_lin a b g h lo n :
  sumn (fun i => a * g i + b * h i) lo n = a * sumn g lo n + b * sumn h lo n.
Proof. induction n; cbn [sumn]; [ring|rewrite IHn; ring]. Qed.
Lemma sumf_lin a b g h lo hi :
  sumf lo hi (fun i => a * g i + b * h i) = a * sumf lo hi g + b * sumf lo hi h.
Proof. apply sumn_lin. Qed.
Lemma sumf_scal c g lo hi : sumf lo hi (fun i => c * g i) = c * sumf lo hi g.
Proof.
  rewrite (sumf_ext lo hi _ (fun i => c * g i + 0 * g i)) by (intros; ring).
  rewrite sumf_lin; ring.
Qed.
Lemma sumf_scal_r c g lo hi : sumf lo hi (fun i => g i * c) = sumf lo hi g * c.
Proof.
  rewrite (sumf_ext lo hi _ (fun i => c * g i)) by (intros; ring).
  rewrite sumf_scal; ring.
Qed.
Lemma sumf_plus g h lo hi : sumf lo hi (fun i => g i + h i) = sumf lo hi g + sumf lo hi h.
Proof.
  rewrite (sumf_ext lo hi _ (fun i => 1 * g i + 1 * h i)) by (intros; ring).
  rewrite sumf_lin; ring.
Qed.
Lemma sumf_zero lo hi g : (forall i, (lo <= i < hi)%nat -> g i = 0) -> sumf lo hi g = 0.
Proof.
  intros H. rewrite (sumf_ext lo hi g (fun _ => 0 * 0 + 0 * 0)) by (intros; rewrite H by lia; ring).
  rewrite sumf_lin; ring.
Qed.
(** product of two sums is the double sum *)
Lemma sumf_prod a b g c d h :
  sumf a b g * sumf c d h = sumf a b (fun i => sumf c d (fun j => g i * h j)).
Proof.
  rewrite <- sumf_scal_r. apply sumf_ext; intros. rewrite sumf_scal. ring.
Qed.
(** splitting off the first / last term *)
Lemma sumn_first g lo n : sumn g lo (S n) = g lo + sumn g (S lo) n.
Proof.
  induction n.
  - cbn [sumn]. rewrite Nat.add_0_r. ring.
  - change (sumn g lo (S (S n))) with (sumn g lo (S n) + g (lo + S n)%nat).
    rewrite IHn. cbn [sumn]. replace (S lo + n)%nat with (lo + S n)%nat by lia. ring.
Qed.
Lemma sumf_first g lo hi : (lo < hi)%nat -> sumf lo hi g = g lo + sumf (S lo) hi g.
Proof.
  intros H. unfold sumf. replace (hi - lo)%nat with (S (hi - S lo)) by lia.
  apply sumn_first.
Qed.
Lemma sumf_last g lo hi : (lo <= hi)%nat -> sumf lo (S hi) g = sumf lo hi g + g hi.
Proof.
  intros H. unfold sumf. replace (S hi - lo)%nat with (S (hi - lo)) by lia.
  cbn [sumn]. replace (lo + (hi - lo))%nat with hi by lia. reflexivity.
Qed.
Lemma sumf_empty g lo hi : (hi <= lo)%nat -> sumf lo hi g = 0.
Proof. intros H. unfold sumf. replace (hi - lo)%nat with O by lia. reflexivity. Qed.

(** double sums are linear in the summand's last factor *)
Lemma sumf2_lin a b (w f g : nat -> nat -> R) l1 h1 l2 h2 :
  sumf l1 h1 (fun i => sumf l2 h2 (fun j => w i j * (a * f i j + b * g i j))) =
  a * sumf l1 h1 (fun i => sumf l2 h2 (fun j => w i j * f i j)) +
  b * sumf l1 h1 (fun i => sumf l2 h2 (fun j => w i j * g i j)).
Proof.
  rewrite <- sumf_lin. apply sumf_ext; intros. rewrite <- sumf_lin.
  apply sumf_ext; intros. ring.
Qed.

(** * 2. bases of a Polynomial object and the operations getDeltas applies to deltaF *)
Inductive basis := BArray | BCardinal | BChebyshev.
Inductive pop :=
| PNew (b : list basis)              (* Polynomial(coefficients, grid, basis, ...) *)
| PChangeBasis (b : list basis)      (* .changeBasis(b): ends with self.basis = b, an Array
                                        axis keeping its label *)
| PIntegrate (axes : list nat).      (* .integrate(axes, weight) *)

Definition basis_eqb (a b : basis) : bool :=
  match a, b with
  | BArray, BArray | BCardinal, BCardinal | BChebyshev, BChebyshev => true
  | _, _ => false
  end.
(** coefficients along an axis ARE the values at the grid nodes (so that multiplying them
    point-wise by a node-dependent weight multiplies the function by that weight, and
    reading `.coefficients[:, index]` reads the value at node `index`) *)
Definition nodal (b : basis) : bool :=
  match b with BChebyshev => false | _ => true end.

Section Ops.
(** rule of Polynomial.integrate for the basis of each axis just before
    `integrand = weight * self.coefficients` (generated from the source) *)
Variable inb : bool -> basis -> basis.
Definition integ_basis (axes : list nat) (cur : list basis) : list basis :=
  map (fun p => inb (existsb (Nat.eqb (fst p)) axes) (snd p))
      (combine (seq 0 (List.length cur)) cur).
(** Polynomial.changeBasis: the new labels, except that an 'Array' axis stays 'Array' *)
Definition keep_array (cur b : list basis) : list basis :=
  match cur with
  | [] => b
  | _ => map (fun p => match fst p with BArray => BArray | _ => snd p end) (combine cur b)
  end.
Definition remaining (axes : list nat) (cur : list basis) : list basis :=
  map snd (filter (fun p => negb (existsb (Nat.eqb (fst p)) axes))
                  (combine (seq 0 (List.length cur)) cur)).
(** bases at the moment of every weight multiplication / bases of every returned object *)
Fixpoint at_multiply (ops : list pop) (cur : list basis) : list (list basis) :=
  match ops with
  | [] => []
  | PNew b :: r => at_multiply r b
  | PChangeBasis b :: r => at_multiply r (keep_array cur b)
  | PIntegrate axes :: r =>
      let c := integ_basis axes cur in c :: at_multiply r c
  end.
Fixpoint results (ops : list pop) (cur : list basis) : list (list basis) :=
  match ops with
  | [] => []
  | PNew b :: r => results r b
  | PChangeBasis b :: r => results r (keep_array cur b)
  | PIntegrate axes :: r =>
      let c := integ_basis axes cur in remaining axes c :: results r c
  end.
(** basis of the object after each operation (observable: poly.basis) *)
Fixpoint trace (ops : list pop) (cur : list basis) : list (list basis) :=
  match ops with
  | [] => []
  | PNew b :: r => b :: trace r b
  | PChangeBasis b :: r => keep_array cur b :: trace r (keep_array cur b)
  | PIntegrate axes :: r => let c := integ_basis axes cur in c :: trace r c
  end.
Definition all_nodal (l : list (list basis)) : bool := forallb (forallb nodal) l.
End Ops.

(** why it matters: along a non-nodal axis the coefficients are related to the nodal values
    by a matrix V; multiplying coefficients by a node-dependent weight is NOT multiplying the
    function.  Two-node witness with V = [[1,1],[1,-1]]. *)
Lemma weight_in_spectral_basis_is_not_weight_on_values :
  exists (V : (nat -> R) -> nat -> R) (w c : nat -> R),
    (forall a b f g i, V (fun k => a * f k + b * g k) i = a * V f i + b * V g i) /\
    V (fun k => w k * c k) O <> w O * V c O.
Proof.
  exists (fun c i => match i with O => c O + c 1%nat | _ => c O - c 1%nat end),
         (fun k => match k with O => 1 | _ => 2 end),
         (fun k => match k with O => 0 | _ => 1 end).
  split.
  - intros a b f g [|i]; ring.
  - cbv beta iota. intro H. lra.
Qed.

(** * 3. the two momentum compactifications and their Jacobians *)
Lemma atanh_R_is_derive r : -1 < r < 1 -> is_derive atanh_R r (/ (1 - r ^ 2)).
Proof.
  intros [H1 H2].
  apply (is_derive_ext_loc (fun u => / 2 * ln ((1 + u) / (1 - u)))).
  - assert (Hd : 0 < Rmin (r + 1) (1 - r)) by (apply Rmin_pos; lra).
    exists (mkposreal _ Hd). intros y Hy. symmetry. apply atanh_R_inside.
    unfold ball in Hy; cbn in Hy. unfold AbsRing_ball, abs, minus, plus, opp in Hy; cbn in Hy.
    apply Rabs_def2 in Hy. destruct Hy as [Ha Hb].
    pose proof (Rmin_l (r + 1) (1 - r)). pose proof (Rmin_r (r + 1) (1 - r)). lra.
  - auto_derive.
    + split; [lra|split; [|exact I]].
      apply Rmult_lt_0_compat; [lra|apply Rinv_0_lt_compat; lra].
    + field. repeat split; nra.
Qed.

Lemma atanh_R_zero r : -1 < r < 1 -> atanh_R r = 0 -> r = 0.
Proof.
  intros H E. rewrite atanh_R_inside in E by exact H.
  assert (Hp : 0 < (1 + r) / (1 - r)) by (apply Rdiv_lt_0_compat; lra).
  assert (El : ln ((1 + r) / (1 - r)) = ln 1) by (rewrite ln_1; lra).
  apply ln_inv in El; [|exact Hp|lra].
  assert (1 + r = 1 - r).
  { replace (1 + r) with ((1 + r) / (1 - r) * (1 - r)) by (field; lra). rewrite El. ring. }
  lra.
Qed.

(** interior Gauss-Lobatto nodes -cos(i pi/N) are inside (-1,1), and for ODD N none is 0 *)
Lemma lobatto_node_inside N i : (0 < i < N)%nat -> -1 < - cos (INR i * PI / INR N) < 1.
Proof.
  intros H. assert (HN : 0 < INR N) by (apply lt_0_INR; lia).
  assert (Hi : 0 < INR i) by (apply lt_0_INR; lia).
  assert (HiN : INR i < INR N) by (apply lt_INR; lia).
  pose proof PI_RGT_0 as Hpi.
  set (x := INR i * PI / INR N).
  assert (H0 : 0 < x) by (unfold x; apply Rdiv_lt_0_compat; [nra|lra]).
  assert (H1 : x < PI).
  { unfold x. apply (Rmult_lt_reg_r (INR N)); [lra|].
    replace (INR i * PI / INR N * INR N) with (INR i * PI) by (field; lra). nra. }
  pose proof (sin_gt_0 x H0 H1) as Hs. pose proof (sin2_cos2 x) as Hq. unfold Rsqr in Hq.
  split; nra.
Qed.
Lemma lobatto_node_nonzero k i : (0 < i < 2 * k + 1)%nat ->
  - cos (INR i * PI / INR (2 * k + 1)) <> 0.
Proof.
  intros H. set (N := (2 * k + 1)%nat) in *.
  assert (HN : 0 < INR N) by (apply lt_0_INR; lia).
  pose proof PI_RGT_0 as Hpi.
  set (x := INR i * PI / INR N).
  assert (H0 : 0 < x).
  { unfold x. apply Rdiv_lt_0_compat; [|lra]. assert (0 < INR i) by (apply lt_0_INR; lia). nra. }
  assert (H1 : x < PI).
  { unfold x. apply (Rmult_lt_reg_r (INR N)); [lra|].
    replace (INR i * PI / INR N * INR N) with (INR i * PI) by (field; lra).
    assert (INR i < INR N) by (apply lt_INR; lia). nra. }
  destruct (Rtotal_order x (PI / 2)) as [Hl | [He | Hg]].
  - pose proof (cos_gt_0 x). lra.
  - exfalso. unfold x in He.
    assert (E2 : 2 * INR i = INR N).
    { apply (Rmult_eq_reg_r (PI / (2 * INR N))); [|apply Rgt_not_eq, Rdiv_lt_0_compat; lra].
      replace (2 * INR i * (PI / (2 * INR N))) with (INR i * PI / INR N) by (field; lra).
      rewrite He. field. lra. }
    replace (2 * INR i) with (INR (2 * i)) in E2 by (rewrite mult_INR; cbn [INR]; ring).
    apply INR_eq in E2. unfold N in E2. lia.
  - pose proof (cos_lt_0 x). lra.
Qed.

Lemma pzmap_is_derive T r : -1 < r < 1 ->
  is_derive (fun x => 2 * T * atanh_R x) r (2 * T / (1 - r ^ 2)).
Proof.
  intros H.
  replace (2 * T / (1 - r ^ 2)) with (2 * T * / (1 - r ^ 2)) by (field; nra).
  apply (is_derive_scal atanh_R r (2 * T)). apply atanh_R_is_derive; exact H.
Qed.

Lemma ppmap_is_derive T r : r < 1 ->
  is_derive (fun x => - T * ln ((1 - x) / 2)) r (T / (1 - r)).
Proof.
  intros H. auto_derive.
  - lra.
  - field. lra.
Qed.

(** * 4. algebra of the boost used by deltaToTmunu *)
Lemma gamma_norm v : -1 < v < 1 ->
  let u0 := sqrt (1 / (1 - v * v)) in let u3 := u0 * v in u0 * u0 - u3 * u3 = 1.
Proof.
  intros H u0 u3. unfold u3.
  assert (Hp : 0 < 1 - v * v) by nra.
  assert (Hs : u0 * u0 = 1 / (1 - v * v)).
  { unfold u0. apply sqrt_sqrt. apply Rlt_le, Rdiv_lt_0_compat; lra. }
  replace (u0 * u0 - u0 * v * (u0 * v)) with ((u0 * u0) * (1 - v * v)) by ring.
  rewrite Hs. field. lra.
Qed.

Lemma boost_T30_algebra D00 D02 D20 D11 m u0 u3 :
  ((3 * D20 - D02 - m * D00) * u3 * u0 + (3 * D02 - D20 + m * D00) * u0 * u3
   + 2 * D11 * (u3 * u3 + u0 * u0)) / 2
  = D20 * (u3 * u0) + D11 * (u3 * u3 + u0 * u0) + D02 * (u0 * u3).
Proof. field. Qed.

Lemma boost_T33_algebra D00 D02 D20 D11 m u0 u3 : u0 * u0 - u3 * u3 = 1 ->
  ((3 * D20 - D02 - m * D00) * u3 * u3 + (3 * D02 - D20 + m * D00) * u0 * u0
   + 4 * D11 * u3 * u0) / 2 - (m * D00 + D02 - D20) / 2
  = D20 * (u3 * u3) + D11 * (2 * (u3 * u0)) + D02 * (u0 * u0).
Proof.
  intros H. apply Rminus_diag_uniq.
  match goal with |- ?L = 0 =>
    replace L with ((D02 - D20 + m * D00) / 2 * (u0 * u0 - u3 * u3 - 1)) by field end.
  rewrite H. field.
Qed.

(** * 5. the azimuthal integral: d^3p/((2 pi)^3 E) -> p_par dp_par dp_z / (4 pi^2 E) *)
Lemma azimuthal_integral pp E : E <> 0 ->
  RInt (fun _ : R => pp / ((2 * PI) ^ 3 * E)) 0 (2 * PI) = pp / (4 * PI ^ 2 * E).
Proof.
  intros HE. rewrite RInt_const. unfold scal; cbn. unfold mult; cbn.
  pose proof PI_RGT_0. field. split; lra.
Qed.
