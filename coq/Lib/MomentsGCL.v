(** Gauss-Chebyshev-Lobatto rule on the class  sqrt(1-x^2) * (polynomial of degree <= 2n-3),
    in the form needed by property C13 (self-contained: discrete orthogonality of cosines
    at the Lobatto angles, Chebyshev polynomials of the second kind by recurrence).

    Main result  lobatto_U :  for n >= 2 and j <= 2n-3,
        sum_{i=1}^{n-1} (pi/n) (1 - x_i^2) U_j(x_i) = (pi/2) [j = 0],   x_i = -cos(i pi/n),
    i.e. the interior-node rule with weights (pi/n) sqrt(1-x_i^2) applied to
    F = sqrt(1-x^2) U_j gives the value of  int_{-1}^{1} F  (= (pi/2)[j=0], the classical
    orthogonality of the U_j, which is NOT proved here). *)
From Coq Require Import Reals Lra Lia List Arith.
From WG Require Import Lib.Moments.
Import ListNotations.
Local Open Scope R_scope.

(** * trigonometric preliminaries *)
Lemma sin_cos_prod a b : 2 * sin a * cos b = sin (b + a) - sin (b - a).
Proof. rewrite sin_plus, sin_minus. ring. Qed.
Lemma sin_sin_prod a b : 2 * sin a * sin b = cos (b - a) - cos (b + a).
Proof. rewrite cos_plus, cos_minus. ring. Qed.

Lemma sin_nPI (m : nat) : sin (INR m * PI) = 0.
Proof.
  induction m.
  - cbn [INR]. rewrite Rmult_0_l. apply sin_0.
  - rewrite S_INR, Rmult_plus_distr_r, Rmult_1_l, sin_plus, IHm, sin_PI. ring.
Qed.
Lemma cos_SSn_PI (m : nat) : cos (INR (S (S m)) * PI) = cos (INR m * PI).
Proof.
  rewrite !S_INR. replace ((INR m + 1 + 1) * PI) with (INR m * PI + 2 * PI) by ring.
  rewrite cos_plus, cos_2PI, sin_2PI. ring.
Qed.
Lemma cos_PI_minus x : cos (PI - x) = - cos x.
Proof. rewrite cos_minus, cos_PI, sin_PI. ring. Qed.
Lemma sin_PI_minus x : sin (PI - x) = sin x.
Proof. rewrite sin_minus, cos_PI, sin_PI. ring. Qed.

(** * Dirichlet kernel: 2 sin(t/2) sum_{k=0}^{n} cos(k t) = sin((n+1/2) t) + sin(t/2) *)
Lemma dirichlet n t :
  2 * sin (t / 2) * sumf 0 (S n) (fun k => cos (INR k * t)) =
  sin ((INR n + 1 / 2) * t) + sin (t / 2).
Proof.
  induction n.
  - unfold sumf. cbn [Nat.sub sumn Nat.add INR]. rewrite Rmult_0_l, cos_0.
    replace ((0 + 1 / 2) * t) with (t / 2) by field. ring.
  - rewrite sumf_last by lia. rewrite Rmult_plus_distr_l, IHn.
    rewrite sin_cos_prod. rewrite !S_INR.
    replace (((INR n + 1) * t) + t / 2) with ((INR n + 1 + 1 / 2) * t) by field.
    replace (((INR n + 1) * t) - t / 2) with ((INR n + 1 / 2) * t) by field.
    ring.
Qed.

(** trapezoidal (double-primed) cosine sum at the Lobatto angles *)
Definition trap (n m : nat) : R :=
  sumf 0 (S n) (fun k => cos (INR m * (INR k * PI / INR n)))
  - (1 + cos (INR m * PI)) / 2.

Lemma trap_zero n m : (0 < n)%nat -> (0 < m < 2 * n)%nat -> trap n m = 0.
Proof.
  intros Hn Hm. unfold trap.
  assert (Hn' : 0 < INR n) by (apply lt_0_INR; lia).
  set (t := INR m * PI / INR n).
  assert (E : forall k, cos (INR m * (INR k * PI / INR n)) = cos (INR k * t)).
  { intros k. f_equal. unfold t. field. lra. }
  rewrite (sumf_ext _ _ _ (fun k => cos (INR k * t))) by (intros; apply E).
  assert (Hs : 0 < sin (t / 2)).
  { apply sin_gt_0.
    - unfold t. pose proof PI_RGT_0. assert (0 < INR m) by (apply lt_0_INR; lia).
      apply Rdiv_lt_0_compat; [|lra]. apply Rdiv_lt_0_compat; [nra|lra].
    - unfold t. assert (Hlt : INR m < 2 * INR n).
      { replace (2 * INR n) with (INR (2 * n)) by (rewrite mult_INR; cbn [INR]; ring).
        apply lt_INR; lia. }
      pose proof PI_RGT_0.
      apply (Rmult_lt_reg_r (2 * INR n)); [lra|].
      replace (INR m * PI / INR n / 2 * (2 * INR n)) with (INR m * PI) by (field; lra).
      nra. }
  pose proof (dirichlet n t) as D.
  assert (Ent : INR n * t = INR m * PI) by (unfold t; field; lra).
  assert (Eh : (INR n + 1 / 2) * t = INR m * PI + t / 2) by (rewrite <- Ent; field).
  rewrite Eh, sin_plus, sin_nPI in D.
  apply (Rmult_eq_reg_l (2 * sin (t / 2))); [|lra].
  rewrite Rmult_minus_distr_l, D. field.
Qed.

Lemma trap_m0 n : trap n 0 = INR n.
Proof.
  unfold trap. cbn [INR]. rewrite Rmult_0_l, cos_0.
  rewrite (sumf_ext _ _ _ (fun _ => 1 * 1 + 0 * 0)) by (intros; rewrite Rmult_0_l, cos_0; ring).
  assert (H : forall k, sumf 0 k (fun _ => 1 * 1 + 0 * 0) = INR k).
  { induction k; [reflexivity|]. rewrite sumf_last by lia. rewrite IHk, S_INR. ring. }
  rewrite H, S_INR. field.
Qed.

(** interior sum of cos(m theta_i), theta_i = i pi/n *)
Lemma interior_cos_sum n m : (0 < n)%nat ->
  sumf 1 n (fun i => cos (INR m * (INR i * PI / INR n))) =
  trap n m - (1 + cos (INR m * PI)) / 2.
Proof.
  intros Hn. unfold trap.
  rewrite sumf_last by lia. rewrite (sumf_first _ 0 n) by lia.
  assert (Hn' : INR n <> 0) by (apply not_0_INR; lia).
  cbn [INR]. replace (INR m * (0 * PI / INR n)) with 0 by (field; exact Hn').
  replace (INR m * (INR n * PI / INR n)) with (INR m * PI) by (field; exact Hn').
  rewrite cos_0. field.
Qed.

(** * Chebyshev polynomials of the second kind *)
Fixpoint Upair (n : nat) (x : R) : R * R :=
  match n with
  | O => (1, 2 * x)
  | S k => let p := Upair k x in (snd p, 2 * x * snd p - fst p)
  end.
Definition chebU (n : nat) (x : R) : R := fst (Upair n x).
Lemma chebU_0 x : chebU 0 x = 1. Proof. reflexivity. Qed.
Lemma chebU_1 x : chebU 1 x = 2 * x. Proof. reflexivity. Qed.
Lemma chebU_SS n x : chebU (S (S n)) x = 2 * x * chebU (S n) x - chebU n x.
Proof. unfold chebU. cbn [Upair fst snd]. reflexivity. Qed.

Lemma chebU_sin n t : chebU n (cos t) * sin t = sin (INR (S n) * t) /\
                      chebU (S n) (cos t) * sin t = sin (INR (S (S n)) * t).
Proof.
  induction n.
  - split.
    + rewrite chebU_0, Rmult_1_l. f_equal. cbn [INR]. ring.
    + rewrite chebU_1. replace (INR 2 * t) with (t + t) by (cbn [INR]; ring).
      rewrite sin_plus. ring.
  - destruct IHn as [A B]. split; [exact B|].
    rewrite chebU_SS, Rmult_minus_distr_r.
    replace (2 * cos t * chebU (S n) (cos t) * sin t) with
      (2 * cos t * (chebU (S n) (cos t) * sin t)) by ring.
    rewrite A, B.
    replace (INR (S (S (S n))) * t) with (INR (S (S n)) * t + t) by (rewrite (S_INR (S (S n))); ring).
    replace (INR (S n) * t) with (INR (S (S n)) * t - t) by (rewrite (S_INR (S n)); ring).
    rewrite sin_plus, sin_minus. ring.
Qed.

(** (1 - x^2) U_j(x) at x = -cos(theta) *)
Lemma weightU_at_node j th :
  (1 - (- cos th) ^ 2) * chebU j (- cos th) =
  (cos (INR j * (PI - th)) - cos (INR (S (S j)) * (PI - th))) / 2.
Proof.
  rewrite <- cos_PI_minus. set (t := PI - th).
  replace (1 - cos t ^ 2) with (sin t * sin t) by (pose proof (sin2_cos2 t); unfold Rsqr in *; nra).
  replace (sin t * sin t * chebU j (cos t)) with (sin t * (chebU j (cos t) * sin t)) by ring.
  rewrite (proj1 (chebU_sin j t)).
  apply (Rmult_eq_reg_l 2); [|lra].
  replace (2 * (sin t * sin (INR (S j) * t))) with (2 * sin t * sin (INR (S j) * t)) by ring.
  rewrite sin_sin_prod.
  replace (INR (S j) * t - t) with (INR j * t) by (rewrite S_INR; ring).
  replace (INR (S j) * t + t) with (INR (S (S j)) * t) by (rewrite (S_INR (S j)); ring).
  field.
Qed.

Lemma cos_reflect m th : cos (INR m * (PI - th)) = cos (INR m * PI) * cos (INR m * th).
Proof.
  replace (INR m * (PI - th)) with (INR m * PI - INR m * th) by ring.
  rewrite cos_minus, sin_nPI. ring.
Qed.

(** * the rule on the interior Lobatto nodes *)
Theorem lobatto_U n j : (2 <= n)%nat -> (j + 3 <= 2 * n)%nat ->
  sumf 1 n (fun i => PI / INR n * ((1 - (- cos (INR i * PI / INR n)) ^ 2)
                                  * chebU j (- cos (INR i * PI / INR n)))) =
  if Nat.eqb j 0 then PI / 2 else 0.
Proof.
  intros Hn Hj.
  assert (Hn' : 0 < INR n) by (apply lt_0_INR; lia).
  rewrite sumf_scal.
  rewrite (sumf_ext _ _ _ (fun i =>
     (cos (INR j * PI) / 2) * cos (INR j * (INR i * PI / INR n)) +
     (- cos (INR j * PI) / 2) * cos (INR (S (S j)) * (INR i * PI / INR n)))).
  2:{ intros i _. rewrite weightU_at_node, !cos_reflect, cos_SSn_PI. field. }
  rewrite sumf_lin, !interior_cos_sum by lia.
  rewrite cos_SSn_PI.
  destruct j as [|j].
  - rewrite trap_m0. rewrite (trap_zero n 2) by lia.
    cbn [Nat.eqb INR]. rewrite Rmult_0_l, cos_0. field. lra.
  - rewrite (trap_zero n (S j)) by lia. rewrite (trap_zero n (S (S (S j)))) by lia.
    cbn [Nat.eqb]. field. lra.
Qed.

(** finite combinations  q(x) = sum_j c_j U_j(x)  (they span the polynomials of degree
    < length c) *)
Fixpoint Ucomb_from (j : nat) (c : list R) (x : R) : R :=
  match c with [] => 0 | a :: r => a * chebU j x + Ucomb_from (S j) r x end.
Definition Ucomb (c : list R) (x : R) : R := Ucomb_from 0 c x.

Lemma lobatto_Ucomb_from n c : (2 <= n)%nat -> forall j, (j + List.length c + 2 <= 2 * n)%nat ->
  sumf 1 n (fun i => PI / INR n * ((1 - (- cos (INR i * PI / INR n)) ^ 2)
                                  * Ucomb_from j c (- cos (INR i * PI / INR n)))) =
  match j, c with O, a :: _ => PI / 2 * a | _, _ => 0 end.
Proof.
  intros Hn. induction c as [|a r IH]; intros j Hj.
  - cbn [Ucomb_from]. rewrite sumf_zero by (intros; ring). destruct j; reflexivity.
  - cbn [Ucomb_from List.length] in *.
    rewrite (sumf_ext _ _ _ (fun i =>
      a * (PI / INR n * ((1 - (- cos (INR i * PI / INR n)) ^ 2) * chebU j (- cos (INR i * PI / INR n))))
      + 1 * (PI / INR n * ((1 - (- cos (INR i * PI / INR n)) ^ 2)
                           * Ucomb_from (S j) r (- cos (INR i * PI / INR n))))))
      by (intros; ring).
    rewrite sumf_lin, lobatto_U by lia. rewrite IH by lia.
    destruct j; cbn [Nat.eqb]; [|destruct r; ring].
    destruct r; ring.
Qed.

Theorem lobatto_Ucomb n c : (2 <= n)%nat -> (List.length c + 2 <= 2 * n)%nat ->
  sumf 1 n (fun i => PI / INR n * ((1 - (- cos (INR i * PI / INR n)) ^ 2)
                                  * Ucomb c (- cos (INR i * PI / INR n)))) =
  PI / 2 * nth 0 c 0.
Proof.
  intros Hn Hc. unfold Ucomb. rewrite lobatto_Ucomb_from by lia.
  destruct c; cbn [nth]; ring.
Qed.
