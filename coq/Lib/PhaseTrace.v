(** PhaseTrace -- mathematics behind WallGo's phase tracer (freeEnergy.py::tracePhase).

    Part A  the tracer's ODE  phi' = -H^{-1} d_T grad V  keeps a critical point critical
            (one field; V of class C2 in the sense that grad V is differentiable as a
            function of (phi, T));
    Part B  the closed-form oracle family used by the harness
              V = D (T^2 - T0^2) phi^2 - E T phi^3 + lam/4 phi^4   (tools/wgmodels.py)
            branches, spinodal temperatures, critical temperature, orientation;
    Part C  "smallest eigenvalue of the Hessian > 0" is positive definiteness (2 fields),
            "smallest diagonal entry > 0" is not;
    Part D  the Z2xZ2 two-field family used by the harness (axis phases, spinodals).

    Nothing here is assumed: external numerics appear only as hypotheses of theorems. *)
From Coq Require Import Reals Lra Lia List.
From Coquelicot Require Import Coquelicot.
Import ListNotations.
Local Open Scope R_scope.

(* ------------------------------------------------------------------------------------ *)
(** * Part A : the ODE keeps criticality *)

Section TraceODE.
(** g = dV/dphi,  Hs = d2V/dphi2,  gT = d2V/dphi dT  as functions of (phi, T) *)
Variables g Hs gT : R -> R -> R.
Variables phi dphi : R -> R.
Variables a b : R.

Hypothesis g_C1 : forall T, a <= T <= b ->
  differentiable_pt_lim g (phi T) T (Hs (phi T) T) (gT (phi T) T).
Hypothesis phi_deriv : forall T, a <= T <= b -> derivable_pt_lim phi T (dphi T).
Hypothesis H_regular : forall T, a <= T <= b -> Hs (phi T) T <> 0.
(** the ODE integrated by the tracer (1 field: solve(hess, -dgraddT) = -dgraddT / hess) *)
Hypothesis ode : forall T, a <= T <= b -> dphi T = - gT (phi T) T / Hs (phi T) T.

Let F (T : R) := g (phi T) T.

Lemma F_deriv_zero T : a <= T <= b -> derivable_pt_lim F T 0.
Proof.
  intros HT.
  replace 0 with (Hs (phi T) T * dphi T + gT (phi T) T * 1).
  - unfold F. apply (derivable_pt_lim_comp_2d g phi (fun t => t)).
    + apply g_C1; exact HT.
    + apply phi_deriv; exact HT.
    + apply derivable_pt_lim_id.
  - rewrite (ode T HT). field. apply H_regular; exact HT.
Qed.

Lemma F_constant T : a <= T <= b -> F T = F a.
Proof.
  intros HT.
  assert (pr : forall x, a < x < b -> derivable_pt F x).
  { intros x Hx. exists 0. apply F_deriv_zero. lra. }
  assert (Hc : forall x, a <= x <= b -> continuity_pt F x).
  { intros x Hx. apply derivable_continuous_pt. exists 0. apply F_deriv_zero; exact Hx. }
  assert (Hd : forall x (P : a < x < b), derive_pt F x (pr x P) = 0).
  { intros x P. apply (derive_pt_eq_0 F x 0 (pr x P)). apply F_deriv_zero. lra. }
  exact (null_derivative_loc F a b pr Hc Hd T HT).
Qed.

Theorem ode_keeps_critical T0 :
  a <= T0 <= b -> g (phi T0) T0 = 0 -> forall T, a <= T <= b -> g (phi T) T = 0.
Proof.
  intros H0 Hg T HT. change (F T = 0). rewrite (F_constant T HT).
  rewrite <- (F_constant T0 H0). exact Hg.
Qed.
End TraceODE.

(** differentiability of polynomials in two variables (to instantiate [g_C1]) *)
Lemma diff2_const c x y : differentiable_pt_lim (fun _ _ => c) x y 0 0.
Proof.
  intros eps. exists (mkposreal 1 Rlt_0_1). intros u v _ _.
  replace (c - c - (0 * (u - x) + 0 * (v - y))) with 0 by ring.
  rewrite Rabs_R0. apply Rmult_le_pos; [left; apply cond_pos|].
  eapply Rle_trans; [apply Rabs_pos|apply Rmax_l].
Qed.
Lemma diff2_fst x y : differentiable_pt_lim (fun u _ => u) x y 1 0.
Proof.
  intros eps. exists (mkposreal 1 Rlt_0_1). intros u v _ _.
  replace (u - x - (1 * (u - x) + 0 * (v - y))) with 0 by ring.
  rewrite Rabs_R0. apply Rmult_le_pos; [left; apply cond_pos|].
  eapply Rle_trans; [apply Rabs_pos|apply Rmax_l].
Qed.
Lemma diff2_snd x y : differentiable_pt_lim (fun _ v => v) x y 0 1.
Proof.
  intros eps. exists (mkposreal 1 Rlt_0_1). intros u v _ _.
  replace (v - y - (0 * (u - x) + 1 * (v - y))) with 0 by ring.
  rewrite Rabs_R0. apply Rmult_le_pos; [left; apply cond_pos|].
  eapply Rle_trans; [apply Rabs_pos|apply Rmax_l].
Qed.
Lemma diff2_Rplus x y : differentiable_pt_lim Rplus x y 1 1.
Proof.
  intros eps. exists (mkposreal 1 Rlt_0_1). intros u v _ _.
  replace (u + v - (x + y) - (1 * (u - x) + 1 * (v - y))) with 0 by ring.
  rewrite Rabs_R0. apply Rmult_le_pos; [left; apply cond_pos|].
  eapply Rle_trans; [apply Rabs_pos|apply Rmax_l].
Qed.
Lemma diff2_Rmult x y : differentiable_pt_lim Rmult x y y x.
Proof.
  intros eps. exists eps. intros u v Hu Hv.
  replace (u * v - x * y - (y * (u - x) + x * (v - y))) with ((u - x) * (v - y)) by ring.
  rewrite Rabs_mult.
  apply Rle_trans with (eps * Rabs (v - y)).
  - apply Rmult_le_compat_r; [apply Rabs_pos|lra].
  - apply Rmult_le_compat_l; [left; apply cond_pos|apply Rmax_r].
Qed.
Lemma diff2_plus f1 f2 x y a1 b1 a2 b2 :
  differentiable_pt_lim f1 x y a1 b1 -> differentiable_pt_lim f2 x y a2 b2 ->
  differentiable_pt_lim (fun u v => f1 u v + f2 u v) x y (a1 + a2) (b1 + b2).
Proof.
  intros H1 H2.
  replace (a1 + a2) with (1 * a1 + 1 * a2) by ring.
  replace (b1 + b2) with (1 * b1 + 1 * b2) by ring.
  apply (differentiable_pt_lim_comp Rplus f1 f2); [apply diff2_Rplus|exact H1|exact H2].
Qed.
Lemma diff2_mult f1 f2 x y a1 b1 a2 b2 :
  differentiable_pt_lim f1 x y a1 b1 -> differentiable_pt_lim f2 x y a2 b2 ->
  differentiable_pt_lim (fun u v => f1 u v * f2 u v) x y
    (f2 x y * a1 + f1 x y * a2) (f2 x y * b1 + f1 x y * b2).
Proof.
  intros H1 H2.
  apply (differentiable_pt_lim_comp Rmult f1 f2); [apply diff2_Rmult|exact H1|exact H2].
Qed.

(* ------------------------------------------------------------------------------------ *)
(** * Part B : the one-field quartic oracle family *)

Section Quartic1.
Variables D E lam T0 : R.
Hypothesis HD : 0 < D.
Hypothesis HE : 0 < E.
Hypothesis Hlam : 0 < lam.
Hypothesis HT0 : 0 < T0.
(** the cubic term is small enough for the broken phase to disappear at finite T *)
Hypothesis Hbarrier : 9 * E ^ 2 < 8 * lam * D.

Definition qV (phi T : R) := D * (T ^ 2 - T0 ^ 2) * phi ^ 2 - E * T * phi ^ 3 + lam / 4 * phi ^ 4.
Definition qg (phi T : R) := 2 * D * (T ^ 2 - T0 ^ 2) * phi - 3 * E * T * phi ^ 2 + lam * phi ^ 3.
Definition qH (phi T : R) := 2 * D * (T ^ 2 - T0 ^ 2) - 6 * E * T * phi + 3 * lam * phi ^ 2.
Definition qgT (phi T : R) := 4 * D * T * phi - 3 * E * phi ^ 2.
(** exactly the expressions of tools/wgmodels.py::quartic1_exact *)
Definition qdisc (T : R) := 9 * E ^ 2 * T ^ 2 - 8 * lam * D * (T ^ 2 - T0 ^ 2).
Definition phi_b (T : R) := (3 * E * T + sqrt (qdisc T)) / (2 * lam).
Definition T1sq := 8 * lam * D * T0 ^ 2 / (8 * lam * D - 9 * E ^ 2).
Definition Tcsq := lam * D * T0 ^ 2 / (lam * D - E ^ 2).

(** qg, qH, qgT are the derivatives of qV (so the oracle's gradient is the gradient) *)
Lemma qg_is_dV phi T : derivable_pt_lim (fun p => qV p T) phi (qg phi T).
Proof.
  unfold qV, qg.
  assert (H : is_derive (fun p => D * (T ^ 2 - T0 ^ 2) * p ^ 2 - E * T * p ^ 3 + lam / 4 * p ^ 4) phi
            (2 * D * (T ^ 2 - T0 ^ 2) * phi - 3 * E * T * phi ^ 2 + lam * phi ^ 3)).
  { auto_derive; [exact I|field]. }
  apply is_derive_Reals. exact H.
Qed.
Lemma qH_is_dg phi T : derivable_pt_lim (fun p => qg p T) phi (qH phi T).
Proof.
  unfold qg, qH. apply is_derive_Reals. auto_derive; [exact I|ring].
Qed.
Lemma qg_C1 phi T : differentiable_pt_lim qg phi T (qH phi T) (qgT phi T).
Proof.
  unfold qg.
  pose (c := fun k : R => (fun _ _ : R => k)).
  pose (U := fun u _ : R => u). pose (W := fun _ v : R => v).
  assert (HU := diff2_fst phi T). assert (HW := diff2_snd phi T).
  assert (HW2 : differentiable_pt_lim (fun u v => v * v) phi T 0 (2 * T)).
  { replace 0 with (T * 0 + T * 0) by ring. replace (2 * T) with (T * 1 + T * 1) by ring.
    apply (diff2_mult W W); exact HW. }
  assert (HU2 : differentiable_pt_lim (fun u v => u * u) phi T (2 * phi) 0).
  { replace 0 with (phi * 0 + phi * 0) by ring. replace (2 * phi) with (phi * 1 + phi * 1) by ring.
    apply (diff2_mult U U); exact HU. }
  assert (HU3 : differentiable_pt_lim (fun u v => u * u * u) phi T (3 * phi ^ 2) 0).
  { replace 0 with (phi * 0 + phi * phi * 0) by ring.
    replace (3 * phi ^ 2) with (phi * (2 * phi) + phi * phi * 1) by ring.
    apply (diff2_mult (fun u v => u * u) U); [exact HU2|exact HU]. }
  (* term 1: 2 D (v^2 - T0^2) u *)
  assert (A1 : differentiable_pt_lim (fun u v => (2 * D) * ((v * v + - T0 ^ 2) * u)) phi T
                 (2 * D * (T ^ 2 - T0 ^ 2)) (4 * D * T * phi)).
  { replace (2 * D * (T ^ 2 - T0 ^ 2)) with
      ((T * T + - T0 ^ 2) * phi * 0 + 2 * D * (phi * (0 + 0) + (T * T + - T0 ^ 2) * 1)) by ring.
    replace (4 * D * T * phi) with
      ((T * T + - T0 ^ 2) * phi * 0 + 2 * D * (phi * (2 * T + 0) + (T * T + - T0 ^ 2) * 0)) by ring.
    apply (diff2_mult (c (2 * D)) (fun u v => (v * v + - T0 ^ 2) * u)); [apply diff2_const|].
    apply (diff2_mult (fun u v => v * v + - T0 ^ 2) U); [|exact HU].
    apply (diff2_plus (fun u v => v * v) (c (- T0 ^ 2))); [exact HW2|apply diff2_const]. }
  (* term 2: - 3 E v u^2 *)
  assert (A2 : differentiable_pt_lim (fun u v => (- 3 * E) * (v * (u * u))) phi T
                 (- 6 * E * T * phi) (- 3 * E * phi ^ 2)).
  { replace (- 6 * E * T * phi) with
      (T * (phi * phi) * 0 + - 3 * E * (phi * phi * 0 + T * (2 * phi))) by ring.
    replace (- 3 * E * phi ^ 2) with
      (T * (phi * phi) * 0 + - 3 * E * (phi * phi * 1 + T * 0)) by ring.
    apply (diff2_mult (c (- 3 * E)) (fun u v => v * (u * u))); [apply diff2_const|].
    apply (diff2_mult W (fun u v => u * u)); [exact HW|exact HU2]. }
  (* term 3: lam u^3 *)
  assert (A3 : differentiable_pt_lim (fun u v => lam * (u * u * u)) phi T (3 * lam * phi ^ 2) 0).
  { replace (3 * lam * phi ^ 2) with (phi * phi * phi * 0 + lam * (3 * phi ^ 2)) by ring.
    replace 0 with (phi * phi * phi * 0 + lam * 0) at 2 by ring.
    apply (diff2_mult (c lam) (fun u v => u * u * u)); [apply diff2_const|exact HU3]. }
  apply differentiable_pt_lim_ext with
    (f1 := fun u v => (2 * D) * ((v * v + - T0 ^ 2) * u) + (- 3 * E) * (v * (u * u)) + lam * (u * u * u)).
  { exists (mkposreal 1 Rlt_0_1). intros u v _ _. ring. }
  replace (qH phi T) with (2 * D * (T ^ 2 - T0 ^ 2) + - 6 * E * T * phi + 3 * lam * phi ^ 2)
    by (unfold qH; ring).
  replace (qgT phi T) with (4 * D * T * phi + - 3 * E * phi ^ 2 + 0) by (unfold qgT; ring).
  apply diff2_plus; [apply diff2_plus; [exact A1|exact A2]|exact A3].
Qed.

(** ** symmetric branch phi = 0 : a minimum exactly for T > T0 *)
Lemma sym_branch T : 0 < T -> qg 0 T = 0 /\ (0 < qH 0 T <-> T0 < T).
Proof.
  intros HT. unfold qg, qH. split; [ring|].
  replace (2 * D * (T ^ 2 - T0 ^ 2) - 6 * E * T * 0 + 3 * lam * 0 ^ 2)
    with (2 * D * ((T - T0) * (T + T0))) by ring.
  split; intros H.
  - destruct (Rlt_dec T0 T) as [|n]; [assumption|exfalso].
    assert (T - T0 <= 0) by lra. assert (0 < T + T0) by lra.
    assert ((T - T0) * (T + T0) <= 0) by nra.
    assert (0 < (T - T0) * (T + T0)).
    { apply Rmult_lt_reg_l with (2 * D); [lra|]. lra. }
    lra.
  - apply Rmult_lt_0_compat; [lra|]. apply Rmult_lt_0_compat; lra.
Qed.

(** ** broken branch *)
Lemma den_pos : 0 < 8 * lam * D - 9 * E ^ 2. Proof. lra. Qed.
Lemma T1sq_pos : 0 < T1sq.
Proof.
  unfold T1sq. apply Rdiv_lt_0_compat; [|apply den_pos].
  assert (0 < T0 ^ 2) by (apply pow2_gt_0; lra).
  repeat apply Rmult_lt_0_compat; lra.
Qed.

Lemma disc_sign T : (0 < qdisc T <-> T ^ 2 < T1sq) /\ (0 <= qdisc T <-> T ^ 2 <= T1sq).
Proof.
  assert (Hd := den_pos).
  assert (E1 : qdisc T = (8 * lam * D - 9 * E ^ 2) * (T1sq - T ^ 2)).
  { unfold qdisc, T1sq. field. lra. }
  rewrite E1. split; split; intros H; nra.
Qed.

Lemma phi_b_root T : 0 <= qdisc T ->
  lam * phi_b T ^ 2 - 3 * E * T * phi_b T + 2 * D * (T ^ 2 - T0 ^ 2) = 0.
Proof.
  intros Hd. unfold phi_b.
  assert (Hs : sqrt (qdisc T) * sqrt (qdisc T) = qdisc T) by (apply sqrt_sqrt; exact Hd).
  set (s := sqrt (qdisc T)) in *.
  replace (lam * ((3 * E * T + s) / (2 * lam)) ^ 2 - 3 * E * T * ((3 * E * T + s) / (2 * lam))
           + 2 * D * (T ^ 2 - T0 ^ 2))
    with ((s * s - (9 * E ^ 2 * T ^ 2 - 8 * lam * D * (T ^ 2 - T0 ^ 2))) / (4 * lam))
    by (field; lra).
  rewrite Hs. unfold qdisc. field. lra.
Qed.

Lemma qg_factor phi T :
  qg phi T = phi * (lam * phi ^ 2 - 3 * E * T * phi + 2 * D * (T ^ 2 - T0 ^ 2)).
Proof. unfold qg. ring. Qed.

Lemma broken_branch_critical T : 0 <= qdisc T -> qg (phi_b T) T = 0.
Proof. intros Hd. rewrite qg_factor, (phi_b_root T Hd). ring. Qed.

Lemma phi_b_pos T : 0 < T -> 0 < phi_b T.
Proof.
  intros HT. unfold phi_b. apply Rdiv_lt_0_compat; [|lra].
  assert (0 <= sqrt (qdisc T)) by apply sqrt_pos. nra.
Qed.

Lemma broken_curvature T : 0 <= qdisc T -> qH (phi_b T) T = phi_b T * sqrt (qdisc T).
Proof.
  intros Hd. assert (R := phi_b_root T Hd).
  assert (E2 : 2 * lam * phi_b T - 3 * E * T = sqrt (qdisc T)).
  { unfold phi_b. field. lra. }
  rewrite <- E2. unfold qH. nra.
Qed.

(** the broken branch is a critical point for T^2 <= T1sq, a minimum exactly for T^2 < T1sq *)
Theorem broken_branch T : 0 < T -> T ^ 2 <= T1sq ->
  qg (phi_b T) T = 0 /\ (0 < qH (phi_b T) T <-> T ^ 2 < T1sq).
Proof.
  intros HT HT1. destruct (disc_sign T) as [S1 S2].
  assert (Hd : 0 <= qdisc T) by (apply S2; exact HT1).
  split; [apply broken_branch_critical; exact Hd|].
  rewrite (broken_curvature T Hd). assert (Hp := phi_b_pos T HT).
  split; intros H.
  - apply S1. destruct Hd as [Hd|Hd]; [exact Hd|].
    rewrite <- Hd, sqrt_0 in H. lra.
  - apply Rmult_lt_0_compat; [exact Hp|]. apply sqrt_lt_R0. apply S1. exact H.
Qed.

(** beyond the spinodal there is no broken phase at all: the only critical point is 0 *)
Theorem no_broken_phase_beyond_spinodal T phi : T1sq < T ^ 2 -> qg phi T = 0 -> phi = 0.
Proof.
  intros HT Hg. destruct (disc_sign T) as [_ S2].
  assert (Hd : qdisc T < 0).
  { destruct (Rlt_dec (qdisc T) 0) as [|n]; [assumption|]. assert (T ^ 2 <= T1sq) by (apply S2; lra). lra. }
  rewrite qg_factor in Hg. apply Rmult_integral in Hg. destruct Hg as [|Hq]; [assumption|exfalso].
  (* 4 lam * quadratic = (2 lam phi - 3 E T)^2 - disc > 0 *)
  assert (4 * lam * (lam * phi ^ 2 - 3 * E * T * phi + 2 * D * (T ^ 2 - T0 ^ 2))
          = (2 * lam * phi - 3 * E * T) ^ 2 - qdisc T) by (unfold qdisc; ring).
  rewrite Hq in H. assert (0 <= (2 * lam * phi - 3 * E * T) ^ 2) by apply pow2_ge_0. lra.
Qed.

(** ** critical temperature and orientation *)
Hypothesis Hfirst_order : E ^ 2 < lam * D.   (* implied by Hbarrier; kept explicit for lra *)

Lemma V_on_branch T : 0 <= qdisc T ->
  qV (phi_b T) T = phi_b T ^ 2 * (2 * D * (T ^ 2 - T0 ^ 2) - E * T * phi_b T) / 4.
Proof.
  intros Hd. assert (R := phi_b_root T Hd). unfold qV.
  replace (lam / 4 * phi_b T ^ 4) with (phi_b T ^ 2 * (lam * phi_b T ^ 2) / 4) by field.
  replace (lam * phi_b T ^ 2) with (3 * E * T * phi_b T - 2 * D * (T ^ 2 - T0 ^ 2)) by lra.
  field.
Qed.

Lemma Tcsq_lt_T1sq : Tcsq < T1sq.
Proof.
  unfold Tcsq, T1sq.
  assert (0 < lam * D - E ^ 2) by lra. assert (Hd := den_pos).
  apply Rmult_lt_reg_r with ((lam * D - E ^ 2) * (8 * lam * D - 9 * E ^ 2)).
  { apply Rmult_lt_0_compat; assumption. }
  replace (lam * D * T0 ^ 2 / (lam * D - E ^ 2) * ((lam * D - E ^ 2) * (8 * lam * D - 9 * E ^ 2)))
    with (lam * D * T0 ^ 2 * (8 * lam * D - 9 * E ^ 2)) by (field; lra).
  replace (8 * lam * D * T0 ^ 2 / (8 * lam * D - 9 * E ^ 2) * ((lam * D - E ^ 2) * (8 * lam * D - 9 * E ^ 2)))
    with (8 * lam * D * T0 ^ 2 * (lam * D - E ^ 2)) by (field; lra).
  assert (0 < lam * D * T0 ^ 2 * E ^ 2).
  { repeat apply Rmult_lt_0_compat; try assumption; nra. }
  nra.
Qed.

(** sign of (free energy of broken phase) - (free energy of symmetric phase = qV 0 T = 0):
    negative (broken phase favoured) exactly below Tc, zero exactly at Tc *)
Theorem critical_temperature T : 0 < T -> T ^ 2 <= T1sq ->
  (qV (phi_b T) T - qV 0 T < 0 <-> T ^ 2 < Tcsq) /\
  (qV (phi_b T) T - qV 0 T = 0 <-> T ^ 2 = Tcsq).
Proof.
  intros HT HT1. destruct (disc_sign T) as [_ S2].
  assert (Hd : 0 <= qdisc T) by (apply S2; exact HT1).
  assert (Hs : sqrt (qdisc T) * sqrt (qdisc T) = qdisc T) by (apply sqrt_sqrt; exact Hd).
  assert (Hs0 : 0 <= sqrt (qdisc T)) by apply sqrt_pos.
  assert (Hp := phi_b_pos T HT).
  assert (V0 : qV 0 T = 0) by (unfold qV; ring).
  rewrite V0, Rminus_0_r, (V_on_branch T Hd).
  set (s := sqrt (qdisc T)) in *.
  (* 2 D (T^2-T0^2) - E T phi_b = - (s + 3 E T) (s - E T) / (4 lam) *)
  assert (K : 2 * D * (T ^ 2 - T0 ^ 2) - E * T * phi_b T = - ((s + 3 * E * T) * (s - E * T)) / (4 * lam)).
  { unfold phi_b. fold s.
    replace (2 * D * (T ^ 2 - T0 ^ 2)) with ((9 * E ^ 2 * T ^ 2 - s * s) / (4 * lam)).
    - field. lra.
    - rewrite Hs. unfold qdisc. field. lra. }
  rewrite K.
  assert (Hq : 0 < phi_b T ^ 2) by nra.
  assert (Hpos : 0 < s + 3 * E * T) by nra.
  assert (Hc : 0 < lam * D - E ^ 2) by lra.
  (* s ? E T  <->  disc ? E^2 T^2  <->  T^2 ? Tcsq *)
  assert (Ed : qdisc T - (E * T) ^ 2 = 8 * (lam * D - E ^ 2) * (Tcsq - T ^ 2)).
  { unfold qdisc, Tcsq. field. lra. }
  assert (ET : 0 < E * T) by nra.
  assert (Fac : qdisc T - (E * T) ^ 2 = (s - E * T) * (s + E * T)) by (rewrite <- Hs; ring).
  assert (Hpos2 : 0 < s + E * T) by nra.
  set (q := phi_b T ^ 2) in *. set (u := s - E * T) in *. set (w := s + 3 * E * T) in *.
  replace (q * (- (w * u) / (4 * lam)) / 4) with (- (q * w / (16 * lam)) * u) by (field; lra).
  assert (Hk : 0 < q * w / (16 * lam)).
  { apply Rdiv_lt_0_compat; [apply Rmult_lt_0_compat; assumption|lra]. }
  set (k := q * w / (16 * lam)) in *.
  assert (Hv : 0 < s + E * T) by exact Hpos2.
  assert (Lnk : 8 * (lam * D - E ^ 2) * (Tcsq - T ^ 2) = u * (s + E * T)) by lra.
  set (v := s + E * T) in *. set (d := Tcsq - T ^ 2) in *.
  assert (Hc8 : 0 < 8 * (lam * D - E ^ 2)) by lra.
  set (c8 := 8 * (lam * D - E ^ 2)) in *.
  assert (sgn_pos : 0 < u <-> 0 < d).
  { split; intros Hx.
    - assert (0 < u * v) by (apply Rmult_lt_0_compat; assumption).
      apply Rmult_lt_reg_l with c8; [exact Hc8|]. lra.
    - assert (0 < c8 * d) by (apply Rmult_lt_0_compat; assumption).
      apply Rmult_lt_reg_r with v; [exact Hv|]. lra. }
  assert (sgn_zero : u = 0 <-> d = 0).
  { split; intros Hx.
    - assert (c8 * d = 0) by (rewrite Lnk, Hx; ring).
      apply Rmult_integral in H. destruct H; lra.
    - assert (u * v = 0) by (rewrite <- Lnk, Hx; ring).
      apply Rmult_integral in H. destruct H; lra. }
  split; split; intros H.
  - assert (0 < u). { apply Rmult_lt_reg_l with k; [exact Hk|]. lra. }
    apply sgn_pos in H0. unfold d in H0. lra.
  - assert (0 < u) by (apply sgn_pos; unfold d; lra).
    assert (0 < k * u) by (apply Rmult_lt_0_compat; assumption). lra.
  - assert (k * u = 0) by lra. apply Rmult_integral in H0. destruct H0 as [|H0]; [lra|].
    apply sgn_zero in H0. unfold d in H0. lra.
  - assert (u = 0) by (apply sgn_zero; unfold d; lra). rewrite H0. ring.
Qed.
End Quartic1.

(* ------------------------------------------------------------------------------------ *)
(** * Part C : spinodal test = smallest Hessian eigenvalue (symmetric 2x2: [[a,b],[b,c]]) *)

Definition posdef2 (a b c : R) := forall x y, (x <> 0 \/ y <> 0) -> 0 < a * x ^ 2 + 2 * b * x * y + c * y ^ 2.
Definition eig_min2 (a b c : R) := ((a + c) - sqrt ((a - c) ^ 2 + 4 * b ^ 2)) / 2.
Definition eig_max2 (a b c : R) := ((a + c) + sqrt ((a - c) ^ 2 + 4 * b ^ 2)) / 2.

Lemma posdef2_iff a b c : posdef2 a b c <-> (0 < a /\ b ^ 2 < a * c).
Proof.
  split.
  - intros P. assert (Ha : 0 < a). { specialize (P 1 0). lra. }
    split; [exact Ha|]. specialize (P (- b) a).
    assert (a <> 0) by lra. specialize (P (or_intror H)).
    replace (a * (- b) ^ 2 + 2 * b * - b * a + c * a ^ 2) with (a * (a * c - b ^ 2)) in P by ring.
    nra.
  - intros [Ha Hdet] x y Hxy.
    (* a q = (a x + b y)^2 + (ac - b^2) y^2 *)
    assert (Eq : a * (a * x ^ 2 + 2 * b * x * y + c * y ^ 2) = (a * x + b * y) ^ 2 + (a * c - b ^ 2) * y ^ 2) by ring.
    assert (0 <= (a * x + b * y) ^ 2) by apply pow2_ge_0.
    assert (0 <= y ^ 2) by apply pow2_ge_0.
    destruct (Req_dec y 0) as [Hy|Hy].
    + subst y. destruct Hxy as [Hx|Hx]; [|lra].
      assert (0 < x ^ 2) by (apply pow2_gt_0; exact Hx). nra.
    + assert (0 < y ^ 2) by (apply pow2_gt_0; exact Hy).
      assert (0 < (a * c - b ^ 2) * y ^ 2) by (apply Rmult_lt_0_compat; lra).
      nra.
Qed.

Theorem eig_min2_posdef a b c : 0 < eig_min2 a b c <-> posdef2 a b c.
Proof.
  rewrite posdef2_iff. unfold eig_min2.
  assert (Hr : 0 <= (a - c) ^ 2 + 4 * b ^ 2).
  { assert (0 <= (a - c) ^ 2) by apply pow2_ge_0. assert (0 <= b ^ 2) by apply pow2_ge_0. lra. }
  assert (Hs := sqrt_sqrt _ Hr). assert (Hs0 := sqrt_pos ((a - c) ^ 2 + 4 * b ^ 2)).
  set (s := sqrt ((a - c) ^ 2 + 4 * b ^ 2)) in *.
  assert (0 <= b ^ 2) by apply pow2_ge_0.
  split.
  - intros H0. assert (s < a + c) by lra.
    assert (s * s < (a + c) * (a + c)) by nra.
    assert (b ^ 2 < a * c) by nra. split; [|assumption]. nra.
  - intros [Ha Hdet]. assert (0 < c) by nra.
    assert (s * s < (a + c) * (a + c)) by nra.
    assert (s < a + c) by nra. lra.
Qed.

(** the rule "smallest diagonal entry > 0" does not imply positive definiteness *)
Theorem diag_min_not_posdef : exists a b c, 0 < Rmin a c /\ ~ posdef2 a b c.
Proof.
  exists 1, 2, 1. split.
  - unfold Rmin. destruct (Rle_dec 1 1); lra.
  - rewrite posdef2_iff. lra.
Qed.

(** smallest element of a list of reals (python's min(list)); [lmin [] = 0] is never used
    by a theorem: all statements require a non-empty list *)
Fixpoint lmin (l : list R) : R :=
  match l with [] => 0 | [x] => x | x :: r => Rmin x (lmin r) end.
Fixpoint lmax (l : list R) : R :=
  match l with [] => 0 | [x] => x | x :: r => Rmax x (lmax r) end.

Lemma lmin_cons x y r : lmin (x :: y :: r) = Rmin x (lmin (y :: r)). Proof. reflexivity. Qed.
Lemma lmax_cons x y r : lmax (x :: y :: r) = Rmax x (lmax (y :: r)). Proof. reflexivity. Qed.

Lemma lmin_spec l : l <> [] -> List.In (lmin l) l /\ List.Forall (fun x => lmin l <= x) l.
Proof.
  induction l as [|x [|y r] IH]; intros Hne; [congruence| |].
  - cbn. split; [left; reflexivity|constructor; [lra|constructor]].
  - rewrite lmin_cons. destruct IH as [I1 I2]; [discriminate|].
    unfold Rmin. destruct (Rle_dec x (lmin (y :: r))) as [Hle|Hgt].
    + split; [left; reflexivity|]. constructor; [lra|].
      eapply Forall_impl; [|exact I2]. cbn beta. intros; lra.
    + split; [right; exact I1|]. constructor; [lra|exact I2].
Qed.
Lemma lmax_spec l : l <> [] -> List.In (lmax l) l /\ List.Forall (fun x => x <= lmax l) l.
Proof.
  induction l as [|x [|y r] IH]; intros Hne; [congruence| |].
  - cbn. split; [left; reflexivity|constructor; [lra|constructor]].
  - rewrite lmax_cons. destruct IH as [I1 I2]; [discriminate|].
    unfold Rmax. destruct (Rle_dec x (lmax (y :: r))) as [Hle|Hgt].
    + split; [right; exact I1|]. constructor; [lra|exact I2].
    + split; [left; reflexivity|]. constructor; [lra|].
      eapply Forall_impl; [|exact I2]. cbn beta. intros; lra.
Qed.

Lemma lmin_pos_iff l : l <> [] -> (0 < lmin l <-> List.Forall (fun x => 0 < x) l).
Proof.
  intros Hne. destruct (lmin_spec l Hne) as [I1 I2]. split.
  - intros H. eapply Forall_impl; [|exact I2]. cbn beta. intros; lra.
  - intros H. rewrite Forall_forall in H. apply H. exact I1.
Qed.

(* ------------------------------------------------------------------------------------ *)
(** * Part D : the two-field Z2 x Z2 family of the harness, and rotated field bases *)

Section TwoField.
(** V = mua/2 a^2 + la/4 a^4 + mub/2 b^2 + lb/4 b^4 + lab/4 a^2 b^2 (+ field-independent
    terms) at one temperature; mua, mub are the temperature-dependent mass parameters *)
Variables mua mub la lb lab : R.
Hypothesis Hlb : 0 < lb.

Definition zga (a b : R) := mua * a + la * a ^ 3 + lab / 2 * a * b ^ 2.
Definition zgb (a b : R) := mub * b + lb * b ^ 3 + lab / 2 * a ^ 2 * b.
Definition zHaa (a b : R) := mua + 3 * la * a ^ 2 + lab / 2 * b ^ 2.
Definition zHab (a b : R) := lab * a * b.
Definition zHbb (a b : R) := mub + 3 * lb * b ^ 2 + lab / 2 * a ^ 2.

(** the phase (0, b) with lb b^2 = -mub: critical; a minimum exactly when the curvature in
    the a direction, mua - lab mub / (2 lb), and -2 mub are both positive *)
Theorem z2_phase_B b : lb * b ^ 2 = - mub ->
  zga 0 b = 0 /\ zgb 0 b = 0 /\ zHab 0 b = 0 /\
  zHaa 0 b = mua - lab * mub / (2 * lb) /\ zHbb 0 b = - 2 * mub /\
  (posdef2 (zHaa 0 b) (zHab 0 b) (zHbb 0 b) <->
   0 < mua - lab * mub / (2 * lb) /\ 0 < - mub).
Proof.
  intros Hb. unfold zga, zgb, zHaa, zHab, zHbb.
  assert (Eb : b ^ 2 = - mub / lb) by (field_simplify_eq; lra).
  assert (E1 : mua + 3 * la * 0 ^ 2 + lab / 2 * b ^ 2 = mua - lab * mub / (2 * lb)).
  { rewrite Eb. field. lra. }
  assert (E2 : mub + 3 * lb * b ^ 2 + lab / 2 * 0 ^ 2 = - 2 * mub) by nra.
  split; [ring|]. split; [|split; [ring|split; [exact E1|split; [exact E2|split]]]].
  - replace (mub * b + lb * b ^ 3 + lab / 2 * 0 ^ 2 * b) with (b * (mub + lb * b ^ 2)) by ring.
    rewrite Hb. ring.
  - rewrite E1, E2. replace (lab * 0 * b) with 0 by ring. intros P.
    apply posdef2_iff in P. destruct P as [P1 P2]. split; [exact P1|].
    replace (0 ^ 2) with 0 in P2 by ring.
    assert (0 < (mua - lab * mub / (2 * lb)) * (- 2 * mub)) by lra.
    assert (0 < - 2 * mub). { apply Rmult_lt_reg_l with (mua - lab * mub / (2 * lb)); lra. }
    lra.
  - rewrite E1, E2. replace (lab * 0 * b) with 0 by ring. intros [P1 P2].
    apply posdef2_iff. split; [exact P1|]. replace (0 ^ 2) with 0 by ring.
    apply Rmult_lt_0_compat; lra.
Qed.
End TwoField.

(** positive definiteness does not depend on the field basis: H' = R H R^T with R a rotation
    (so the spinodal of a phase is the same temperature in every rotated basis, while the
    diagonal entries of H' are not the eigenvalues) *)
Theorem posdef2_rotation a b c co si : co ^ 2 + si ^ 2 = 1 ->
  let a' := co ^ 2 * a - 2 * co * si * b + si ^ 2 * c in
  let b' := co * si * (a - c) + (co ^ 2 - si ^ 2) * b in
  let c' := si ^ 2 * a + 2 * co * si * b + co ^ 2 * c in
  posdef2 a' b' c' <-> posdef2 a b c.
Proof.
  intros Hr a' b' c'.
  assert (Q : forall x y, a' * x ^ 2 + 2 * b' * x * y + c' * y ^ 2 =
              a * (co * x + si * y) ^ 2 + 2 * b * (co * x + si * y) * (- si * x + co * y)
              + c * (- si * x + co * y) ^ 2).
  { intros. unfold a', b', c'. ring. }
  split; intros P x y Hxy.
  - (* (x,y) = rotation of (u,v) with u = co x - si y, v = si x + co y *)
    specialize (P (co * x - si * y) (si * x + co * y)).
    rewrite Q in P.
    replace (co * (co * x - si * y) + si * (si * x + co * y)) with ((co ^ 2 + si ^ 2) * x) in P by ring.
    replace (- si * (co * x - si * y) + co * (si * x + co * y)) with ((co ^ 2 + si ^ 2) * y) in P by ring.
    rewrite Hr, !Rmult_1_l in P. apply P.
    destruct (Req_dec (co * x - si * y) 0) as [E1|E1]; [|left; exact E1].
    destruct (Req_dec (si * x + co * y) 0) as [E2|E2]; [|right; exact E2].
    exfalso.
    assert (X0 : x = 0).
    { replace x with ((co ^ 2 + si ^ 2) * x) by (rewrite Hr; ring).
      replace ((co ^ 2 + si ^ 2) * x) with (co * (co * x - si * y) + si * (si * x + co * y)) by ring.
      rewrite E1, E2. ring. }
    assert (Y0 : y = 0).
    { replace y with ((co ^ 2 + si ^ 2) * y) by (rewrite Hr; ring).
      replace ((co ^ 2 + si ^ 2) * y) with (- si * (co * x - si * y) + co * (si * x + co * y)) by ring.
      rewrite E1, E2. ring. }
    destruct Hxy; contradiction.
  - rewrite Q. apply P.
    destruct (Req_dec (co * x + si * y) 0) as [E1|E1]; [|left; exact E1].
    destruct (Req_dec (- si * x + co * y) 0) as [E2|E2]; [|right; exact E2].
    exfalso.
    assert (X0 : x = 0).
    { replace x with ((co ^ 2 + si ^ 2) * x) by (rewrite Hr; ring).
      replace ((co ^ 2 + si ^ 2) * x) with (co * (co * x + si * y) - si * (- si * x + co * y)) by ring.
      rewrite E1, E2. ring. }
    assert (Y0 : y = 0).
    { replace y with ((co ^ 2 + si ^ 2) * y) by (rewrite Hr; ring).
      replace ((co ^ 2 + si ^ 2) * y) with (si * (co * x + si * y) + co * (- si * x + co * y)) by ring.
      rewrite E1, E2. ring. }
    destruct Hxy; contradiction.
Qed.
