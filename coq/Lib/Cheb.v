(** Chebyshev polynomials T_n, U_n by recurrence; the restricted bases of WallGo's
    Polynomial class ("full": T_n - T_0 / T_n - T_1, "partial": T_n - T_0); their values at
    the end points, their derivative n U_{n-1}, T_n(cos t) = cos(n t), polynomial degree.
    The definitions are generic in the operation record of Lib.Lagrange (executed over Q,
    reasoned about over R).  Repo independent. *)
From Coq Require Import Reals List Lra Lia Bool Arith.
From WG Require Import Lib.Lagrange.
Import ListNotations.

Inductive restr := RNone | RFull | RPartial.

Section Model.
Context {T : Type} (O : Ops T).

Definition otwo : T := oadd O (o1 O) (o1 O).
(** (P_n, P_{n+1}) for the three-term recurrence P_{n+2} = 2x P_{n+1} - P_n, P_0 = 1 *)
Fixpoint cheb_pair (second : T) (n : nat) (x : T) : T * T :=
  match n with
  | 0%nat => (o1 O, second)
  | S m => let p := cheb_pair second m x in
           (snd p, osub O (omul O (omul O otwo x) (snd p)) (fst p))
  end.
(** scipy.special.eval_chebyt(n, x), eval_chebyu(n, x) for integer n >= 0 *)
Definition chebT (n : nat) (x : T) : T := fst (cheb_pair x n x).
Definition chebU (n : nat) (x : T) : T := fst (cheb_pair (omul O otwo x) n x).
(** eval_chebyu(n - 1, x), which is 0 for n = 0 *)
Definition chebUm1 (n : nat) (x : T) : T := match n with 0%nat => o0 O | S m => chebU m x end.

(** Polynomial.chebyshev(x, n, restriction) *)
Definition chebyshev (x : T) (n : nat) (r : restr) : T :=
  match r with
  | RNone => chebT n x
  | RPartial => osub O (chebT n x) (o1 O)
  | RFull => osub O (chebT n x) (if Nat.even n then o1 O else x)
  end.

(** one entry of Polynomial._chebyshevDeriv: [r] is the restriction selected by the
    direction alone, the correction is applied only when [endpoints] is false *)
Definition chebyshevDeriv (x : T) (n : nat) (r : restr) (endpoints : bool) : T :=
  let d := omul O (onat O n) (chebUm1 n x) in
  match r with
  | RFull => if endpoints then d else osub O d (if Nat.even n then o0 O else o1 O)
  | _ => d
  end.
End Model.

Local Open Scope R_scope.

Definition TR := chebT ROps.
Definition UR := chebU ROps.
Definition Um1R := chebUm1 ROps.

Lemma TR_0 x : TR 0 x = 1. Proof. reflexivity. Qed.
Lemma TR_1 x : TR 1 x = x. Proof. reflexivity. Qed.
Lemma TR_SS n x : TR (S (S n)) x = 2 * x * TR (S n) x - TR n x.
Proof. unfold TR, chebT. cbn. ring. Qed.
Lemma UR_0 x : UR 0 x = 1. Proof. reflexivity. Qed.
Lemma UR_1 x : UR 1 x = 2 * x. Proof. unfold UR, chebU. cbn. ring. Qed.
Lemma UR_SS n x : UR (S (S n)) x = 2 * x * UR (S n) x - UR n x.
Proof. unfold UR, chebU. cbn. ring. Qed.
(** U_{n+1} = 2x U_n - U_{n-1} with U_{-1} = 0 *)
Lemma UR_S n x : UR (S n) x = 2 * x * UR n x - Um1R n x.
Proof.
  destruct n; [rewrite UR_1, UR_0; unfold Um1R; cbn; ring|].
  rewrite UR_SS. reflexivity.
Qed.

(** two-step induction *)
Lemma pair_ind (P : nat -> Prop) :
  P O -> P 1%nat -> (forall n, P n -> P (S n) -> P (S (S n))) -> forall n, P n.
Proof.
  intros H0 H1 HS n. enough (P n /\ P (S n)) by tauto.
  induction n as [|n [IH1 IH2]]; [tauto|]. split; [exact IH2|]. now apply HS.
Qed.

(** ** values at the end points *)
Lemma TR_at_1 n : TR n 1 = 1.
Proof.
  induction n using pair_ind; [reflexivity|reflexivity|]. rewrite TR_SS, IHn, IHn0. ring.
Qed.
Lemma even_SS n : Nat.even (S (S n)) = Nat.even n. Proof. reflexivity. Qed.
Lemma TR_at_m1 n : TR n (-1) = if Nat.even n then 1 else -1.
Proof.
  induction n using pair_ind; [reflexivity|reflexivity|].
  rewrite TR_SS, IHn, IHn0, even_SS.
  replace (Nat.even (S n)) with (negb (Nat.even n)).
  - destruct (Nat.even n); cbn; ring.
  - rewrite Nat.even_succ. apply Nat.negb_even.
Qed.

(** the restricted functions vanish where the source says they do *)
Theorem restricted_full_vanish n :
  chebyshev ROps 1 n RFull = 0 /\ chebyshev ROps (-1) n RFull = 0.
Proof.
  unfold chebyshev. cbn [ROps osub o1]. fold (TR n 1). fold (TR n (-1)).
  rewrite TR_at_1, TR_at_m1. destruct (Nat.even n); split; ring.
Qed.
Theorem restricted_partial_vanish n : chebyshev ROps 1 n RPartial = 0.
Proof. unfold chebyshev. cbn [ROps osub o1]. fold (TR n 1). rewrite TR_at_1. ring. Qed.

(** ** T_n(cos t) = cos(n t),  U_n(cos t) sin t = sin((n+1) t) *)
Theorem cheb_cos n t : TR n (cos t) = cos (INR n * t).
Proof.
  induction n using pair_ind.
  - cbn. rewrite Rmult_0_l, cos_0. reflexivity.
  - rewrite TR_1. cbn. now rewrite Rmult_1_l.
  - rewrite TR_SS, IHn, IHn0.
    replace (INR (S (S n)) * t) with (INR (S n) * t + t) by (rewrite (S_INR (S n)); ring).
    replace (INR n * t) with (INR (S n) * t - t) by (rewrite S_INR; ring).
    rewrite cos_plus, cos_minus. ring.
Qed.
Theorem chebU_sin n t : UR n (cos t) * sin t = sin (INR (S n) * t).
Proof.
  induction n using pair_ind.
  - rewrite UR_0. cbn. now rewrite !Rmult_1_l.
  - rewrite UR_1. replace (INR 2 * t) with (t + t) by (cbn; ring). rewrite sin_plus. ring.
  - rewrite UR_SS. replace ((2 * cos t * UR (S n) (cos t) - UR n (cos t)) * sin t)
      with (2 * cos t * (UR (S n) (cos t) * sin t) - UR n (cos t) * sin t) by ring.
    rewrite IHn, IHn0.
    replace (INR (S (S (S n))) * t) with (INR (S (S n)) * t + t) by (rewrite (S_INR (S (S n))); ring).
    replace (INR (S n) * t) with (INR (S (S n)) * t - t) by (rewrite (S_INR (S n)); ring).
    rewrite sin_plus, sin_minus. ring.
Qed.

(** ** T_{n+1} = x U_n - U_{n-1} *)
Lemma TU n x : TR (S n) x = x * UR n x - Um1R n x.
Proof.
  induction n using pair_ind.
  - rewrite TR_1, UR_0. unfold Um1R; cbn. ring.
  - rewrite TR_SS, TR_1, TR_0, UR_1. unfold Um1R; cbn [chebUm1]. fold (UR 0 x). rewrite UR_0. ring.
  - rewrite TR_SS, IHn0, IHn. unfold Um1R in *; cbn [chebUm1] in *. fold (UR (S n) x) (UR n x).
    rewrite (UR_SS n x). rewrite (UR_S n x). unfold Um1R. ring.
Qed.

(** ** derivative: T_n' = n U_{n-1} *)
Theorem cheb_deriv n x : derivable_pt_lim (TR n) x (INR n * Um1R n x).
Proof.
  revert x. induction n using pair_ind; intro x.
  - apply (derivable_pt_lim_ext (fun _ => 1)); [reflexivity|].
    replace (INR 0 * Um1R 0 x) with 0 by (cbn; ring). apply derivable_pt_lim_const.
  - apply (derivable_pt_lim_ext (fun y => y)); [reflexivity|].
    replace (INR 1 * Um1R 1 x) with 1 by (unfold Um1R; cbn; ring). apply derivable_pt_lim_id.
  - apply (derivable_pt_lim_ext (fun y => ((fun z => 2 * z) y * TR (S n) y - TR n y)%R));
      [intro y; rewrite TR_SS; reflexivity|].
    replace (INR (S (S n)) * Um1R (S (S n)) x)
      with ((2 * TR (S n) x + (2 * x) * (INR (S n) * Um1R (S n) x)) - INR n * Um1R n x).
    + apply (derivable_pt_lim_minus (fun y => (fun z => 2 * z) y * TR (S n) y)%R (TR n));
        [|apply IHn].
      apply (derivable_pt_lim_mult (fun z => 2 * z) (TR (S n))); [|apply IHn0].
      replace 2 with (2 * 1) at 1 by ring.
      apply (derivable_pt_lim_scal (fun z => z) 2 x). apply derivable_pt_lim_id.
    + rewrite TU. unfold Um1R; cbn [chebUm1]. fold (UR (S n) x) (UR n x) (Um1R n x).
      rewrite (UR_S n x). rewrite !S_INR. ring.
Qed.

(** derivative of the restricted functions = entries of _chebyshevDeriv
    (without end points: restricted basis; with end points: plain T_n) *)
Theorem chebyshev_restricted_deriv n r x :
  derivable_pt_lim (fun y => chebyshev ROps y n r) x (chebyshevDeriv ROps x n r false).
Proof.
  pose proof (cheb_deriv n x) as D.
  destruct r; unfold chebyshev, chebyshevDeriv; cbn [ROps osub omul onat o0 o1];
    fold (Um1R n x).
  - exact D.
  - destruct (Nat.even n).
    + apply (derivable_pt_lim_minus (TR n) (fun _ => 1)); [exact D|apply derivable_pt_lim_const].
    + apply (derivable_pt_lim_minus (TR n) (fun y => y)); [exact D|apply derivable_pt_lim_id].
  - replace (INR n * Um1R n x) with (INR n * Um1R n x - 0) by ring.
    apply (derivable_pt_lim_minus (TR n) (fun _ => 1)); [exact D|apply derivable_pt_lim_const].
Qed.
Theorem chebyshev_plain_deriv n r x :
  derivable_pt_lim (fun y => chebyshev ROps y n RNone) x (chebyshevDeriv ROps x n r true).
Proof.
  pose proof (cheb_deriv n x) as D.
  destruct r; unfold chebyshev, chebyshevDeriv; cbn [ROps osub omul onat o0 o1];
    fold (Um1R n x); exact D.
Qed.

(** ** T_n is a polynomial with n+1 coefficients *)
Lemma TR_is_poly n : is_poly (S n) (TR n).
Proof.
  induction n using pair_ind.
  - apply (is_poly_ext _ (fun _ => 1)); [reflexivity|apply is_poly_const].
  - apply (is_poly_ext _ (fun y => y)); [reflexivity|apply is_poly_id].
  - apply (is_poly_ext _ (fun y => (2 * y + 0) * TR (S n) y - TR n y));
      [intro y; rewrite TR_SS; ring|].
    apply is_poly_minus.
    + apply is_poly_mul_lin. exact IHn0.
    + apply (is_poly_mono (S n)); [lia|exact IHn].
Qed.

Lemma chebyshev_is_poly n r : is_poly (Nat.max 2 (S n)) (fun y => chebyshev ROps y n r).
Proof.
  pose proof (TR_is_poly n) as H.
  assert (H' : is_poly (Nat.max 2 (S n)) (TR n)) by (apply (is_poly_mono (S n)); [lia|exact H]).
  destruct r; unfold chebyshev; cbn [ROps osub o1].
  - exact H'.
  - destruct (Nat.even n).
    + apply (is_poly_minus _ (TR n) (fun _ => 1)); [exact H'|].
      apply (is_poly_mono 1); [lia|apply is_poly_const].
    + apply (is_poly_minus _ (TR n) (fun y => y)); [exact H'|].
      apply (is_poly_mono 2); [lia|apply is_poly_id].
  - apply (is_poly_minus _ (TR n) (fun _ => 1)); [exact H'|].
    apply (is_poly_mono 1); [lia|apply is_poly_const].
Qed.
