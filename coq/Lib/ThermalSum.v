(** List semantics of the numpy idioms used by the one-loop thermal sum (C20):
    elementwise product of two 1-D arrays of equal length and np.sum. *)
From Coq Require Import Reals List Lra.
Import ListNotations.
Local Open Scope R_scope.

(** elementwise binary operation (numpy on equal shapes; for unequal lengths numpy raises or
    broadcasts -- not modelled: zipR truncates, and the theorems assume equal lengths) *)
Fixpoint zipR (f : R -> R -> R) (a b : list R) : list R :=
  match a, b with
  | x :: a', y :: b' => f x y :: zipR f a' b'
  | _, _ => []
  end.

Fixpoint sumR (l : list R) : R :=
  match l with [] => 0 | x :: t => x + sumR t end.

Lemma sumR_zip_const (n l : list R) (c : R) :
  length n = length l -> Forall (fun v => v = c) l ->
  sumR (zipR (fun a b => a * b) n l) = c * sumR n.
Proof.
  revert l. induction n as [|x n IH]; intros [|v l] Hl Hc; simpl in *; try discriminate; try ring.
  inversion Hc; subst. rewrite (IH l); [ring|congruence|assumption].
Qed.

Lemma sumR_zip_bound (n l : list R) (d : R) :
  length n = length l -> Forall (fun v => Rabs v <= d) l ->
  Rabs (sumR (zipR (fun a b => a * b) n l)) <= d * sumR (map Rabs n).
Proof.
  revert l. induction n as [|x n IH]; intros [|v l] Hl Hc; simpl in *; try discriminate.
  - rewrite Rabs_R0. lra.
  - inversion Hc; subst.
    eapply Rle_trans; [apply Rabs_triang|].
    rewrite Rabs_mult.
    assert (H : Rabs (sumR (zipR (fun a b => a * b) n l)) <= d * sumR (map Rabs n))
      by (apply IH; [congruence|assumption]).
    pose proof (Rabs_pos x). pose proof (Rabs_pos v). nra.
Qed.

Lemma existsb_neg_false (l : list R) :
  Forall (fun m => 0 <= m) l ->
  existsb (fun m => if Rlt_dec m 0 then true else false) l = false.
Proof.
  induction 1 as [|m l Hm _ IH]; simpl; [reflexivity|].
  destruct (Rlt_dec m 0); [lra|]. exact IH.
Qed.

Lemma existsb_neg_true (l : list R) :
  Exists (fun m => m < 0) l ->
  existsb (fun m => if Rlt_dec m 0 then true else false) l = true.
Proof.
  induction 1 as [m l Hm | m l _ IH]; simpl.
  - destruct (Rlt_dec m 0); [reflexivity|lra].
  - rewrite IH. apply Bool.orb_true_r.
Qed.

Lemma Forall_map {A B} (f : A -> B) (P : B -> Prop) l :
  Forall (fun a => P (f a)) l -> Forall P (map f l).
Proof. induction 1; simpl; constructor; assumption. Qed.

Lemma Forall_abs_nonneg (l : list R) : Forall (fun m => 0 <= m) (map Rabs l).
Proof. apply Forall_map. apply Forall_forall. intros. apply Rabs_pos. Qed.

(** array of temperatures: every intermediate of the generated model is [map F Ts] *)
Lemma zipR_map_same {A} (op : R -> R -> R) (F G : A -> R) (l : list A) :
  zipR op (map F l) (map G l) = map (fun x => op (F x) (G x)) l.
Proof. induction l as [|a l IH]; simpl; [reflexivity|]. rewrite IH. reflexivity. Qed.

(** Lipschitz dependence of a weighted sum on its arguments; the Lipschitz bound is only required
    on a set [P] (an interval in the application) that contains all arguments *)
Lemma sumR_zip_lipschitz (P : R -> Prop) (f : R -> R) (L : R) (n a b : list R) :
  (forall x y, P x -> P y -> Rabs (f x - f y) <= L * Rabs (x - y)) ->
  Forall P a -> Forall P b ->
  length n = length a -> length a = length b ->
  Rabs (sumR (zipR (fun p q => p * q) n (map f a)) - sumR (zipR (fun p q => p * q) n (map f b)))
  <= L * sumR (zipR (fun p q => p * q) (map Rabs n) (map Rabs (zipR (fun p q => p - q) a b))).
Proof.
  intros HL. revert a b. induction n as [|x n IH]; intros [|u a] [|v b] Pa Pb H1 H2; simpl in *;
    try discriminate.
  - rewrite Rminus_0_r, Rabs_R0. lra.
  - inversion Pa; subst. inversion Pb; subst.
    replace (x * f u + sumR (zipR (fun p q => p * q) n (map f a)) -
             (x * f v + sumR (zipR (fun p q => p * q) n (map f b))))
      with (x * (f u - f v) + (sumR (zipR (fun p q => p * q) n (map f a)) -
                               sumR (zipR (fun p q => p * q) n (map f b)))) by ring.
    eapply Rle_trans; [apply Rabs_triang|].
    rewrite Rabs_mult.
    assert (I := IH a b ltac:(assumption) ltac:(assumption) ltac:(congruence) ltac:(congruence)).
    assert (F := HL u v ltac:(assumption) ltac:(assumption)).
    pose proof (Rabs_pos x). pose proof (Rabs_pos (f u - f v)).
    assert (Rabs x * Rabs (f u - f v) <= Rabs x * (L * Rabs (u - v))) by
      (apply Rmult_le_compat_l; assumption).
    lra.
Qed.
