(** Executable model of WallGo's [Polynomial] class (src/WallGo/polynomial.py) on top of
    Lib.Lagrange / Lib.Cheb: node selection per direction and end-point flag, the index
    ranges and restrictions each method uses, the matrices it builds, and the action on
    rank-r coefficient arrays (nested lists).  Generic in the operation record: executed
    over Q (exact comparison with the implementation), reasoned about over R.
    Hand-written from the source; tied to it by the correspondence in tools/props/C16.py
    and by the index-range facts regenerated from the AST (tools/gen_poly.py). *)
From Coq Require Import Reals List Lra Lia Bool Arith QArith Qabs.
From WG Require Import Lib.Lagrange Lib.Cheb.
Import ListNotations.
Local Open Scope nat_scope.

Inductive dir := Dz | Dpz | Dpp.
Inductive basis := Cardinal | Chebyshev.
Definition arange (a b : nat) : list nat := seq a (b - a).
Definition b2n (b : bool) : nat := if b then 1 else 0.

(** index range + restriction used by one method for one (direction, endpoints) *)
Record axcfg := mkcfg { c_lo : nat; c_hi : nat; c_restr : restr }.
Definition cfg_range (c : axcfg) : list nat := arange (c_lo c) (c_hi c).

(** ** index ranges, as written in polynomial.py (M = grid.M, N = grid.N) *)
Definition full_restr (d : dir) : restr := match d with Dpp => RPartial | _ => RFull end.

(** changeBasis *)
Definition cfg_changeBasis (d : dir) (ep : bool) (M N : nat) : axcfg :=
  if ep then match d with Dz => mkcfg 0 (M + 1) RNone | Dpz => mkcfg 0 (N + 1) RNone
                     | Dpp => mkcfg 0 N RNone end
  else match d with Dz => mkcfg 2 (M + 1) RFull | Dpz => mkcfg 2 (N + 1) RFull
               | Dpp => mkcfg 1 N RPartial end.
(** evaluate, cardinal basis: indices into the complete grid *)
Definition cfg_evalCard (d : dir) (ep : bool) (M N : nat) : axcfg :=
  if ep then match d with Dz => mkcfg 0 (M + 1) RNone | Dpz => mkcfg 0 (N + 1) RNone
                     | Dpp => mkcfg 0 N RNone end
  else match d with Dz => mkcfg 1 M RNone | Dpz => mkcfg 1 N RNone
               | Dpp => mkcfg 0 (N - 1) RNone end.
(** evaluate, Chebyshev basis: the same range, shifted by one without end points *)
Definition cfg_evalCheb (d : dir) (ep : bool) (M N : nat) : axcfg :=
  let c := cfg_evalCard d ep M N in
  if ep then mkcfg (c_lo c) (c_hi c) RNone
  else mkcfg (c_lo c + 1) (c_hi c + 1) (full_restr d).
(** _chebyshevMatrix: n = arange(size) + 2 - 2 endpoints  (pp: + 1 - endpoints) *)
Definition cfg_chebMatrix (d : dir) (ep : bool) (size : nat) : axcfg :=
  let off := match d with Dpp => 1 - b2n ep | _ => 2 - 2 * b2n ep end in
  mkcfg off (size + off) (if ep then RNone else full_restr d).
(** _chebyshevDeriv: n = arange(2 - 2 endpoints, grid.size) (pp: 1 - endpoints); the
    restriction depends on the direction only, the correction on [endpoints] *)
Definition cfg_chebDeriv (d : dir) (ep : bool) (gridsize : nat) : axcfg :=
  let off := match d with Dpp => 1 - b2n ep | _ => 2 - 2 * b2n ep end in
  mkcfg off gridsize (full_restr d).

Section Model.
Context {T : Type} (O : Ops T).

(** Grid.getCompactCoordinates(endpoints, direction) from the complete grid:
    [1:-1] for z, pz; [:-1] for pp *)
Definition trim {A} (d : dir) (ep : bool) (l : list A) : list A :=
  if ep then l else match d with Dpp => removelast l | _ => removelast (tl l) end.

(** changeBasis: tnMatrix[x, n] (Chebyshev -> Cardinal; its inverse the other way) *)
Definition tnMatrix (d : dir) (ep : bool) (grid : list T) (M N : nat) : list (list T) :=
  let c := cfg_changeBasis d ep M N in
  map (fun x => map (fun n => chebyshev O x n (c_restr c)) (cfg_range c)) (trim d ep grid).

(** evaluate: the row of basis-function values pn[x, :] along one axis *)
Definition evalRow (b : basis) (d : dir) (ep : bool) (grid : list T) (M N : nat) (x : T)
  : list T :=
  match b with
  | Cardinal =>
      map (fun n => cardinal O grid (nth n grid (o0 O)) x) (cfg_range (cfg_evalCard d ep M N))
  | Chebyshev =>
      let c := cfg_evalCheb d ep M N in
      map (fun n => chebyshev O x n (c_restr c)) (cfg_range c)
  end.

(** _chebyshevMatrix / _cardinalMatrix *)
Definition chebyshevMatrix (d : dir) (ep : bool) (grid : list T) : list (list T) :=
  let g := trim d ep grid in
  let c := cfg_chebMatrix d ep (length g) in
  map (fun x => map (fun n => chebyshev O x n (c_restr c)) (cfg_range c)) g.

(** _cardinalDeriv (already transposed: [j, i] = derivWithEndpoints[i, j], rows i kept) *)
Definition cardinalDeriv (d : dir) (ep : bool) (grid : list T) : list (list T) :=
  map (fun xj => map (fun xi => cd_entry O grid xi xj) (trim d ep grid)) grid.

(** _chebyshevDeriv *)
Definition chebyshevDerivM (d : dir) (ep : bool) (grid : list T) : list (list T) :=
  let c := cfg_chebDeriv d ep (length grid) in
  map (fun x => map (fun n => chebyshevDeriv O x n (c_restr c) ep) (cfg_range c)) grid.

Definition derivMatrix (b : basis) (d : dir) (ep : bool) (grid : list T) : list (list T) :=
  match b with Cardinal => cardinalDeriv d ep grid | Chebyshev => chebyshevDerivM d ep grid end.

(** integrate: weights / pi for the nodes of getCompactCoordinates(endpoints, direction) *)
Definition wdiv (d : dir) (M N : nat) : nat := match d with Dz => M | Dpz => N | Dpp => N - 1 end.
Definition half (w : T) : T := odiv O w (otwo O).
Definition intWeights (d : dir) (ep : bool) (size M N : nat) : list T :=
  let base := odiv O (o1 O) (onat O (wdiv d M N)) in
  map (fun k =>
         let w := base in
         let w := match d with Dpp => if negb ep && (k =? 0)%nat then half w else w | _ => w end in
         let w := if ep && (k =? 0)%nat then half w else w in
         let w := if ep && (k =? size - 1)%nat then half w else w in w)
      (seq 0 size).
(** (1 - x^2) * (weight/pi)^2 : the square of the factor multiplying the coefficients *)
Definition intFactorSq (d : dir) (ep : bool) (grid : list T) (M N : nat) : list T :=
  let g := trim d ep grid in
  map (fun xw => omul O (osub O (o1 O) (omul O (fst xw) (fst xw))) (omul O (snd xw) (snd xw)))
      (combine g (intWeights d ep (length g) M N)).

(** ** rank-r arrays as nested lists *)
Inductive tens := Sc (v : T) | Vec (l : list tens).

Fixpoint tscale (k : T) (t : tens) : tens :=
  match t with Sc v => Sc (omul O k v) | Vec l => Vec (map (tscale k) l) end.
Fixpoint tadd (a b : tens) : tens :=
  match a, b with
  | Sc x, Sc y => Sc (oadd O x y)
  | Vec l, Vec m =>
      Vec ((fix go (l : list tens) (m : list tens) : list tens :=
              match l, m with x :: l', y :: m' => tadd x y :: go l' m' | _, _ => [] end) l m)
  | _, _ => a
  end.
(** sum_k c_k t_k (empty sum: scalar 0) *)
Fixpoint lincomb (c : list T) (ts : list tens) : tens :=
  match c, ts with
  | k :: c', t :: ts' => match c', ts' with
                         | _ :: _, _ :: _ => tadd (tscale k t) (lincomb c' ts')
                         | _, _ => tscale k t
                         end
  | _, _ => Sc (o0 O)
  end.
(** np.sum(matrix[..., :, :, ...] * expand_dims(coefficients, i), axis=i+1): the matrix
    acts along axis i, every other index is a spectator *)
Fixpoint apply_axis (i : nat) (m : list (list T)) (t : tens) : tens :=
  match t with
  | Sc v => Sc v
  | Vec l => match i with
             | 0%nat => Vec (map (fun row => lincomb row l) m)
             | S j => Vec (map (apply_axis j m) l)
             end
  end.
(** contraction of axis i with a vector (evaluate at one point / integrate) *)
Fixpoint contract_axis (i : nat) (row : list T) (t : tens) : tens :=
  match t with
  | Sc v => Sc v
  | Vec l => match i with
             | 0%nat => lincomb row l
             | S j => Vec (map (contract_axis j row) l)
             end
  end.
Fixpoint tflat (t : tens) : list T :=
  match t with Sc v => [v] | Vec l => flat_map tflat l end.
End Model.
Arguments Sc {T}. Arguments Vec {T}.

(** ** comparison helpers for the Q instance *)
Definition qclose (tol a b : Q) : bool := Qle_bool (Qabs (a - b)%Q) tol.
Fixpoint lclose (tol : Q) (a b : list Q) : bool :=
  match a, b with
  | [], [] => true
  | x :: a', y :: b' => qclose tol x y && lclose tol a' b'
  | _, _ => false
  end.
Fixpoint mclose (tol : Q) (a b : list (list Q)) : bool :=
  match a, b with
  | [], [] => true
  | x :: a', y :: b' => lclose tol x y && mclose tol a' b'
  | _, _ => false
  end.
Definition tclose (tol : Q) (a b : tens (T:=Q)) : bool := lclose tol (tflat a) (tflat b).
(** same nesting structure *)
Fixpoint tshape_eq (a b : tens (T:=Q)) : bool :=
  match a, b with
  | Sc _, Sc _ => true
  | Vec l, Vec m =>
      (fix go (l m : list (tens (T:=Q))) : bool :=
         match l, m with
         | [], [] => true
         | x :: l', y :: m' => tshape_eq x y && go l' m'
         | _, _ => false
         end) l m
  | _, _ => false
  end.
Definition tsame (tol : Q) (a b : tens (T:=Q)) : bool := tshape_eq a b && tclose tol a b.
