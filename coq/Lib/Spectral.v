(** Executable model of WallGo's [Polynomial] class (src/WallGo/polynomial.py) on top of
    Lib.Lagrange / Lib.Cheb: node selection per direction and end-point flag, the index
    ranges and restrictions each method uses, the matrices it builds, and the action on
    rank-r coefficient arrays (nested lists).  Generic in the operation record: executed
    over Q (exact comparison with the implementation), reasoned about over R.
    Hand-written from the source; tied to it by the correspondence in tools/props/C16.py
    and by the index-range facts regenerated from the AST (tools/gen_poly.py). *)
From Coq Require Import Reals List Lra Lia Bool Arith QArith Qabs.
From WG Require Import Lib.Lagrange Lib.Cheb.
Import ListNotations.
Local Open Scope nat_scope.

Inductive dir := Dz | Dpz | Dpp.
Inductive basis := Cardinal | Chebyshev.
Definition arange (a b : nat) : list nat := seq a (b - a).
Definition b2n (b : bool) : nat := if b then 1 else 0.

(** index range + restriction used by one method for one (direction, endpoints) *)
Record axcfg := mkcfg { c_lo : nat; c_hi : nat; c_restr : restr }.
Definition cfg_range (c : axcfg) : list nat := arange (c_lo c) (c_hi c).

(** ** index ranges, as written in polynomial.py (M = grid.M, N = grid.N) *)
Definition full_restr (d : dir) : restr := match d with Dpp => RPartial | _ => RFull end.

(** changeBasis *)
Definition cfg_changeBasis (d : dir) (ep : bool) (M N : nat) : axcfg :=
  if ep then match d with Dz => mkcfg 0 (M + 1) RNone | Dpz => mkcfg 0 (N + 1) RNone
                     | Dpp => mkcfg 0 N RNone end
  else match d with Dz => mkcfg 2 (M + 1) RFull | Dpz => mkcfg 2 (N + 1) RFull
               | Dpp => mkcfg 1 N RPartial end.
(** evaluate, cardinal basis: indices into the complete grid *)
Definition cfg_evalCard (d : dir) (ep : bool) (M N : nat) : axcfg :=
  if ep then match d with Dz => mkcfg 0 (M + 1) RNone | Dpz => mkcfg 0 (N + 1) RNone
                     | Dpp => mkcfg 0 N RNone end
  else match d with Dz => mkcfg 1 M RNone | Dpz => mkcfg 1 N RNone
               | Dpp => mkcfg 0 (N - 1) RNone end.
(** evaluate, Chebyshev basis: the same range, shifted by one without end points *)
Definition cfg_evalCheb (d : dir) (ep : bool) (M N : nat) : axcfg :=
  let c := cfg_evalCard d ep M N in
  if ep then mkcfg (c_lo c) (c_hi c) RNone
  else mkcfg (c_lo c + 1) (c_hi c + 1) (full_restr d).
(** _chebyshevMatrix: n = arange(size) + 2 - 2 endpoints  (pp: + 1 - endpoints) *)
Definition cfg_chebMatrix (d : dir) (ep : bool) (size : nat) : axcfg :=
  let off := match d with Dpp => 1 - b2n ep | _ => 2 - 2 * b2n ep end in
  mkcfg off (size + off) (if ep then RNone else full_restr d).
(** _chebyshevDeriv: n = arange(2 - 2 endpoints, grid.size) (pp: 1 - endpoints); the
    restriction depends on the direction only, the correction on [endpoints] *)
Definition cfg_chebDeriv (d : dir) (ep : bool) (gridsize : nat) : axcfg :=
  let off := match d with Dpp => 1 - b2n ep | _ => 2 - 2 * b2n ep end in
  mkcfg off gridsize (full_restr d).

Section Model.
Context {T : Type} (O : Ops T).

(** Grid.getCompactCoordinates(endpoints, direction) from the complete grid:
    [1:-1] for z, pz; [:-1] for pp *)
Definition trim {A} (d : dir) (ep : bool) (l : list A) : list A :=
  if ep then l else match d with Dpp => removelast l | _ => removelast (tl l) end.

(** the same selection as a python slice [a : len-b] *)
Definition trim_rows (d : dir) (ep : bool) : nat * nat :=
  if ep then (0, 0)%nat else match d with Dpp => (0, 1)%nat | _ => (1, 1)%nat end.
Definition pyslice {A} (ab : nat * nat) (l : list A) : list A :=
  firstn (length l - fst ab - snd ab) (skipn (fst ab) l).

(** changeBasis: tnMatrix[x, n] (Chebyshev -> Cardinal; its inverse the other way) *)
Definition tnMatrix (d : dir) (ep : bool) (grid : list T) (M N : nat) : list (list T) :=
  let c := cfg_changeBasis d ep M N in
  map (fun x => map (fun n => chebyshev O x n (c_restr c)) (cfg_range c)) (trim d ep grid).

(** evaluate: the row of basis-function values pn[x, :] along one axis *)
Definition evalRow (b : basis) (d : dir) (ep : bool) (grid : list T) (M N : nat) (x : T)
  : list T :=
  match b with
  | Cardinal =>
      map (fun n => cardinal O grid (nth n grid (o0 O)) x) (cfg_range (cfg_evalCard d ep M N))
  | Chebyshev =>
      let c := cfg_evalCheb d ep M N in
      map (fun n => chebyshev O x n (c_restr c)) (cfg_range c)
  end.

(** _chebyshevMatrix / _cardinalMatrix *)
Definition chebyshevMatrix (d : dir) (ep : bool) (grid : list T) : list (list T) :=
  let g := trim d ep grid in
  let c := cfg_chebMatrix d ep (length g) in
  map (fun x => map (fun n => chebyshev O x n (c_restr c)) (cfg_range c)) g.

(** _cardinalMatrix: np.identity(number of nodes) *)
Definition identityM (size : nat) : list (list T) :=
  map (fun i => map (fun j => if (i =? j)%nat then o1 O else o0 O) (seq 0 size)) (seq 0 size).
Definition cardinalMatrix (d : dir) (ep : bool) (grid : list T) : list (list T) :=
  identityM (length (trim d ep grid)).
(** what it stands for: M_ij = C_j(x_i) on the nodes of getCompactCoordinates(ep, d), with
    the cardinal functions that [evaluate] uses for the same axis kind *)
Definition cardinalMatrixDef (d : dir) (ep : bool) (grid : list T) (M N : nat)
  : list (list T) :=
  map (fun x => evalRow Cardinal d ep grid M N x) (trim d ep grid).
(** Polynomial.matrix(basis, direction, endpoints) *)
Definition matrix (b : basis) (d : dir) (ep : bool) (grid : list T) : list (list T) :=
  match b with Cardinal => cardinalMatrix d ep grid | Chebyshev => chebyshevMatrix d ep grid end.

(** _cardinalDeriv (already transposed: [j, i] = derivWithEndpoints[i, j], rows i kept) *)
Definition cardinalDeriv (d : dir) (ep : bool) (grid : list T) : list (list T) :=
  map (fun xj => map (fun xi => cd_entry O grid xi xj) (trim d ep grid)) grid.

(** _chebyshevDeriv *)
Definition chebyshevDerivM (d : dir) (ep : bool) (grid : list T) : list (list T) :=
  let c := cfg_chebDeriv d ep (length grid) in
  map (fun x => map (fun n => chebyshevDeriv O x n (c_restr c) ep) (cfg_range c)) grid.

Definition derivMatrix (b : basis) (d : dir) (ep : bool) (grid : list T) : list (list T) :=
  match b with Cardinal => cardinalDeriv d ep grid | Chebyshev => chebyshevDerivM d ep grid end.

(** integrate: weights / pi for the nodes of getCompactCoordinates(endpoints, direction) *)
Definition wdiv (d : dir) (M N : nat) : nat := match d with Dz => M | Dpz => N | Dpp => N - 1 end.
Definition half (w : T) : T := odiv O w (otwo O).
(* entries halved: weights[0] /= 2 (pp without end point); weights[0], weights[-1] with *)
Definition int_halved (d : dir) (ep : bool) : list Z :=
  if ep then [0%Z; (-1)%Z] else match d with Dpp => [0%Z] | _ => [] end.
Definition pyidx (size : nat) (z : Z) : nat :=
  if (z <? 0)%Z then Z.to_nat (Z.of_nat size + z) else Z.to_nat z.
(** weights/pi from the divisor and the list of halved entries *)
Definition intWeightsH (halved : list Z) (divisor size : nat) : list T :=
  let base := odiv O (o1 O) (onat O divisor) in
  map (fun k => fold_right (fun z w => if (pyidx size z =? k)%nat then half w else w) base halved)
      (seq 0 size).
Definition intWeights (d : dir) (ep : bool) (size M N : nat) : list T :=
  intWeightsH (int_halved d ep) (wdiv d M N) size.
(** (1 - x^2) * (weight/pi)^2 : the square of the factor multiplying the coefficients *)
Definition intFactorSq (d : dir) (ep : bool) (grid : list T) (M N : nat) : list T :=
  let g := trim d ep grid in
  map (fun xw => omul O (osub O (o1 O) (omul O (fst xw) (fst xw))) (omul O (snd xw) (snd xw)))
      (combine g (intWeights d ep (length g) M N)).

(** ** rank-r arrays as nested lists *)
Inductive tens := Sc (v : T) | Vec (l : list tens).

Fixpoint tscale (k : T) (t : tens) : tens :=
  match t with Sc v => Sc (omul O k v) | Vec l => Vec (map (tscale k) l) end.
Fixpoint tadd (a b : tens) : tens :=
  match a, b with
  | Sc x, Sc y => Sc (oadd O x y)
  | Vec l, Vec m =>
      Vec ((fix go (l : list tens) (m : list tens) : list tens :=
              match l, m with x :: l', y :: m' => tadd x y :: go l' m' | _, _ => [] end) l m)
  | _, _ => a
  end.
(** sum_k c_k t_k (empty sum: scalar 0) *)
Fixpoint lincomb (c : list T) (ts : list tens) : tens :=
  match c, ts with
  | k :: c', t :: ts' => match c', ts' with
                         | _ :: _, _ :: _ => tadd (tscale k t) (lincomb c' ts')
                         | _, _ => tscale k t
                         end
  | _, _ => Sc (o0 O)
  end.
(** np.sum(matrix[..., :, :, ...] * expand_dims(coefficients, i), axis=i+1): the matrix
    acts along axis i, every other index is a spectator *)
Fixpoint apply_axis (i : nat) (m : list (list T)) (t : tens) : tens :=
  match t with
  | Sc v => Sc v
  | Vec l => match i with
             | 0%nat => Vec (map (fun row => lincomb row l) m)
             | S j => Vec (map (apply_axis j m) l)
             end
  end.
(** contraction of axis i with a vector (evaluate at one point / integrate) *)
Fixpoint contract_axis (i : nat) (row : list T) (t : tens) : tens :=
  match t with
  | Sc v => Sc v
  | Vec l => match i with
             | 0%nat => lincomb row l
             | S j => Vec (map (contract_axis j row) l)
             end
  end.
Fixpoint tflat (t : tens) : list T :=
  match t with Sc v => [v] | Vec l => flat_map tflat l end.
End Model.
Arguments Sc {T}. Arguments Vec {T}.

(** ** comparison helpers (generic in the closeness test; instantiated over Q and, in the
    generated case files, over Bignums' bigQ for speed) *)
Section Compare.
Context {T : Type} (close : T -> T -> bool).
Fixpoint lclose (a b : list T) : bool :=
  match a, b with
  | [], [] => true
  | x :: a', y :: b' => close x y && lclose a' b'
  | _, _ => false
  end.
Fixpoint mclose (a b : list (list T)) : bool :=
  match a, b with
  | [], [] => true
  | x :: a', y :: b' => lclose x y && mclose a' b'
  | _, _ => false
  end.
Definition tclose (a b : tens (T:=T)) : bool := lclose (tflat a) (tflat b).
(** same nesting structure *)
Fixpoint tshape_eq (a b : tens (T:=T)) : bool :=
  match a, b with
  | Sc _, Sc _ => true
  | Vec l, Vec m =>
      (fix go (l m : list (tens (T:=T))) : bool :=
         match l, m with
         | [], [] => true
         | x :: l', y :: m' => tshape_eq x y && go l' m'
         | _, _ => false
         end) l m
  | _, _ => false
  end.
Definition tsame (a b : tens (T:=T)) : bool := tshape_eq a b && tclose a b.
End Compare.
Definition qclose (tol a b : Q) : bool := Qle_bool (Qabs (a - b)%Q) tol.

(** * Theory over R for the model above *)
Local Open Scope R_scope.

(** ** list facts about the node selection *)
Lemma In_removelast {A} (x : A) l : In x (removelast l) -> In x l.
Proof.
  induction l as [|a l IH]; [contradiction|]. destruct l as [|b l]; [contradiction|].
  change (removelast (a :: b :: l)) with (a :: removelast (b :: l)).
  intros [->|H]; [now left|right; now apply IH].
Qed.
Lemma NoDup_removelast {A} (l : list A) : NoDup l -> NoDup (removelast l).
Proof.
  induction l as [|a l IH]; intro H; [constructor|]. destruct l as [|b l]; [constructor|].
  change (removelast (a :: b :: l)) with (a :: removelast (b :: l)).
  inversion H; subst. constructor.
  - intro K. apply In_removelast in K. contradiction.
  - now apply IH.
Qed.
Lemma In_tl {A} (x : A) l : In x (tl l) -> In x l.
Proof. destruct l; [contradiction|]. intro H. now right. Qed.
Lemma NoDup_tl {A} (l : list A) : NoDup l -> NoDup (tl l).
Proof. destruct l; [trivial|]. intro H. now inversion H. Qed.

Lemma trim_incl {A} d ep (l : list A) : incl (trim d ep l) l.
Proof.
  intros x. unfold trim. destruct ep; [trivial|]. destruct d; intro H;
    try (apply In_tl; now apply In_removelast); now apply In_removelast.
Qed.
Lemma trim_NoDup {A} d ep (l : list A) : NoDup l -> NoDup (trim d ep l).
Proof.
  intro H. unfold trim. destruct ep; [exact H|].
  destruct d; try (apply NoDup_removelast; now apply NoDup_tl); now apply NoDup_removelast.
Qed.

Lemma dropped_last (l : list R) g : In g l -> ~ In g (removelast l) -> g = last l 0.
Proof.
  intros Hin Hn. destruct l as [|a t]; [contradiction|].
  assert (E : a :: t <> []) by discriminate.
  rewrite (app_removelast_last 0 E) in Hin. apply in_app_or in Hin.
  destruct Hin as [K|[K|[]]]; [contradiction|now symmetry].
Qed.
Lemma dropped_ends (l : list R) g :
  In g l -> ~ In g (removelast (tl l)) -> g = hd 0 l \/ g = last l 0.
Proof.
  intros Hin Hn. destruct l as [|a t]; [contradiction|]. cbn [tl hd] in *.
  destruct Hin as [->|Hin]; [now left|]. right.
  destruct t as [|b t']; [contradiction|].
  change (last (a :: b :: t') 0) with (last (b :: t') 0). now apply dropped_last.
Qed.
(** the points dropped by [trim] are the end points *)
Lemma trim_dropped d ep (l : list R) g :
  In g l -> ~ In g (trim d ep l) ->
  match d with Dpp => g = last l 0 | _ => g = hd 0 l \/ g = last l 0 end.
Proof.
  unfold trim. destruct ep; [intros H K; contradiction|].
  destruct d; intros H K; try (now apply dropped_ends); now apply dropped_last.
Qed.

Lemma map_nth_seq {A} (l : list A) (dflt : A) a k :
  (a + k <= length l)%nat -> map (fun n => nth n l dflt) (seq a k) = firstn k (skipn a l).
Proof.
  revert a l; induction k as [|k IH]; intros a l H; [reflexivity|].
  cbn [seq map]. rewrite (IH (S a) l) by lia.
  assert (Hlt : (a < length l)%nat) by lia.
  clear IH H. revert l Hlt. induction a as [|a IHa]; intros l Hlt.
  - destruct l; [cbn in Hlt; lia|reflexivity].
  - destruct l as [|x l]; [cbn in Hlt; lia|]. cbn [nth]. cbn [skipn].
    apply IHa. cbn in Hlt. lia.
Qed.
Lemma removelast_firstn {A} (l : list A) : removelast l = firstn (length l - 1) l.
Proof. rewrite removelast_firstn_len. f_equal. lia. Qed.

Lemma trim_pyslice {A} d ep (l : list A) : trim d ep l = pyslice (trim_rows d ep) l.
Proof.
  unfold trim, trim_rows, pyslice. destruct ep.
  - cbn [fst snd skipn]. replace (length l - 0 - 0)%nat with (length l) by lia.
    symmetry. apply firstn_all.
  - destruct d; cbn [fst snd].
    + destruct l as [|a t]; [reflexivity|]. cbn [tl skipn length]. rewrite removelast_firstn.
      f_equal. lia.
    + destruct l as [|a t]; [reflexivity|]. cbn [tl skipn length]. rewrite removelast_firstn.
      f_equal. lia.
    + cbn [skipn]. rewrite removelast_firstn. f_equal. lia.
Qed.

(** size of the complete grid of a direction *)
Definition gsize (d : dir) (M N : nat) : nat :=
  match d with Dz => M + 1 | Dpz => N + 1 | Dpp => N end%nat.
Definition sizes_ok (d : dir) (M N : nat) : Prop :=
  match d with Dz => (2 <= M)%nat | _ => (2 <= N)%nat end.

(** the cardinal indices that [evaluate] uses select exactly the nodes of
    getCompactCoordinates(endpoints, direction) *)
Lemma evalCard_nodes d ep (grid : list R) M N :
  length grid = gsize d M N -> sizes_ok d M N ->
  map (fun n => nth n grid 0) (cfg_range (cfg_evalCard d ep M N)) = trim d ep grid.
Proof.
  intros L HS. unfold cfg_range, arange, trim.
  destruct d, ep; cbn [cfg_evalCard c_lo c_hi gsize sizes_ok] in *;
    rewrite map_nth_seq by lia; cbn [skipn].
  all: try (replace (M + 1 - 0)%nat with (length grid) by lia; apply firstn_all).
  all: try (replace (N + 1 - 0)%nat with (length grid) by lia; apply firstn_all).
  all: try (replace (N - 0)%nat with (length grid) by lia; apply firstn_all).
  - destruct grid as [|a t]; [cbn in L; lia|]. cbn [skipn tl]. rewrite removelast_firstn.
    f_equal. cbn in L. lia.
  - destruct grid as [|a t]; [cbn in L; lia|]. cbn [skipn tl]. rewrite removelast_firstn.
    f_equal. cbn in L. lia.
  - rewrite removelast_firstn. f_equal. lia.
Qed.

(** ** _cardinalMatrix: the hard-coded identity IS the matrix C_j(x_i) *)
Lemma map_via_seq {A B} (f : A -> B) (l : list A) (dflt : A) :
  map f l = map (fun i => f (nth i l dflt)) (seq 0 (length l)).
Proof.
  rewrite <- (map_map (fun i => nth i l dflt) f), (map_nth_seq l dflt 0 (length l)) by lia.
  cbn [skipn]. now rewrite firstn_all.
Qed.

Theorem cardinalMatrix_is_definition d ep (grid : list R) M N :
  NoDup grid -> length grid = gsize d M N -> sizes_ok d M N ->
  cardinalMatrixDef ROps d ep grid M N = cardinalMatrix ROps d ep grid.
Proof.
  intros Hnd L HS. unfold cardinalMatrixDef, cardinalMatrix, identityM, evalRow.
  pose proof (evalCard_nodes d ep grid M N L HS) as E.
  pose proof (trim_NoDup d ep grid Hnd) as Hs. pose proof (@trim_incl R d ep grid) as Hi.
  set (sel := trim d ep grid) in *.
  assert (Erow : forall x, map (fun n => cardinal ROps grid (nth n grid (o0 ROps)) x)
                               (cfg_range (cfg_evalCard d ep M N))
                           = map (fun xn => cardinal ROps grid xn x) sel).
  { intro x. rewrite <- E. now rewrite map_map. }
  rewrite (map_ext _ _ Erow).
  rewrite (map_via_seq _ sel 0). apply map_ext_in. intros i Hi'. apply in_seq in Hi'.
  rewrite (map_via_seq _ sel 0). apply map_ext_in. intros j Hj. apply in_seq in Hj.
  rewrite cardinal_delta_R by (apply Hi, nth_In; lia).
  destruct (Req_EM_T (nth j sel 0) (nth i sel 0)) as [K|K].
  - apply (proj1 (NoDup_nth sel 0) Hs) in K; [|lia|lia]. subst j.
    now rewrite Nat.eqb_refl.
  - destruct (Nat.eqb_spec i j) as [->|_]; [contradiction|reflexivity].
Qed.

(** ** the Chebyshev index ranges of the four methods agree (for the grid sizes that
    Grid produces), and so do the effective restrictions *)
Definition eff_restr (d : dir) (ep : bool) : restr := if ep then RNone else full_restr d.

Lemma cfg_evalCheb_eq d ep M N : sizes_ok d M N ->
  cfg_range (cfg_evalCheb d ep M N) = cfg_range (cfg_changeBasis d ep M N) /\
  c_restr (cfg_evalCheb d ep M N) = c_restr (cfg_changeBasis d ep M N).
Proof.
  intro HS. unfold cfg_range, arange.
  destruct d, ep; cbn [cfg_evalCheb cfg_evalCard cfg_changeBasis c_lo c_hi c_restr full_restr sizes_ok] in *;
    split; try reflexivity; f_equal; lia.
Qed.
Lemma cfg_chebMatrix_eq d ep M N : sizes_ok d M N ->
  cfg_range (cfg_chebMatrix d ep (gsize d M N - match d with Dpp => 1 - b2n ep | _ => 2 - 2 * b2n ep end))
    = cfg_range (cfg_changeBasis d ep M N) /\
  c_restr (cfg_chebMatrix d ep (gsize d M N - match d with Dpp => 1 - b2n ep | _ => 2 - 2 * b2n ep end))
    = c_restr (cfg_changeBasis d ep M N).
Proof.
  intro HS. unfold cfg_range, arange.
  destruct d, ep; cbn [cfg_chebMatrix cfg_changeBasis c_lo c_hi c_restr full_restr sizes_ok gsize b2n Nat.mul Nat.sub Nat.add] in *;
    split; try reflexivity; f_equal; lia.
Qed.
Lemma cfg_chebDeriv_eq d ep M N : sizes_ok d M N ->
  cfg_range (cfg_chebDeriv d ep (gsize d M N)) = cfg_range (cfg_changeBasis d ep M N) /\
  (if ep then RNone else c_restr (cfg_chebDeriv d ep (gsize d M N))) = c_restr (cfg_changeBasis d ep M N).
Proof.
  intro HS. unfold cfg_range, arange.
  destruct d, ep; cbn [cfg_chebDeriv cfg_changeBasis c_lo c_hi c_restr full_restr sizes_ok gsize b2n Nat.mul Nat.sub Nat.add] in *;
    split; try reflexivity; f_equal; lia.
Qed.
Lemma cfg_changeBasis_restr d ep M N : c_restr (cfg_changeBasis d ep M N) = eff_restr d ep.
Proof. destruct d, ep; reflexivity. Qed.
Lemma cfg_changeBasis_bound d ep M N n :
  In n (cfg_range (cfg_changeBasis d ep M N)) -> (S n <= gsize d M N)%nat.
Proof.
  unfold cfg_range, arange. rewrite in_seq.
  destruct d, ep; cbn [cfg_changeBasis c_lo c_hi gsize]; lia.
Qed.

(** ** dot products over R *)
Lemma odot_R_map {A} (f g : A -> R) (l : list A) :
  odot ROps (map f l) (map g l) = Rsum (map (fun a => f a * g a) l).
Proof. induction l as [|a l IH]; [reflexivity|]. cbn [map odot]. rewrite IH. reflexivity. Qed.

Lemma odot_is_poly n (fs : list (R -> R)) (c : list R) :
  (1 <= n)%nat -> (forall f, In f fs -> is_poly n f) ->
  is_poly n (fun y => odot ROps (map (fun f => f y) fs) c).
Proof.
  intros Hn. revert c. induction fs as [|f fs IH]; intros c H.
  - apply (is_poly_mono 1); [exact Hn|]. apply (is_poly_ext _ (fun _ => 0)); [reflexivity|apply is_poly_const].
  - destruct c as [|k c].
    + apply (is_poly_mono 1); [exact Hn|]. apply (is_poly_ext _ (fun _ => 0)); [reflexivity|apply is_poly_const].
    + cbn [map odot]. apply (is_poly_plus n (fun y => f y * k) (fun y => odot ROps (map (fun f0 => f0 y) fs) c)).
      * apply (is_poly_ext _ (fun y => k * f y)); [intro; cbn; ring|]. apply is_poly_scal. apply H. now left.
      * apply IH. intros g Hg. apply H. now right.
Qed.

Lemma odot_derive (fs : list (R -> R)) (dfs : list R) (c : list R) x :
  Forall2 (fun f df => derivable_pt_lim f x df) fs dfs ->
  derivable_pt_lim (fun y => odot ROps (map (fun f => f y) fs) c) x (odot ROps dfs c).
Proof.
  intro H. revert c. induction H as [|f df fs dfs Hf _ IH]; intro c.
  - cbn. apply derivable_pt_lim_const.
  - destruct c as [|k c]; [cbn; apply derivable_pt_lim_const|].
    cbn [map odot]. cbn [ROps oadd omul].
    apply (derivable_pt_lim_plus (fun y => f y * k) (fun y => odot ROps (map (fun f0 => f0 y) fs) c)).
    + apply (derivable_pt_lim_ext (fun y => k * f y)); [intro; ring|].
      rewrite Rmult_comm. apply (derivable_pt_lim_scal f k x). exact Hf.
    + apply IH.
Qed.

(** ** well-formed complete grid of a direction: distinct nodes, right size, the end
    points are -1 (not for pp) and +1 *)
Definition grid_ok (d : dir) (M N : nat) (grid : list R) : Prop :=
  NoDup grid /\ length grid = gsize d M N /\ last grid 0 = 1 /\
  match d with Dpp => True | _ => hd 0 grid = -1 end.

(** the function a coefficient vector represents in the (restricted) Chebyshev basis *)
Definition chebFun (d : dir) (ep : bool) (M N : nat) (c : list R) (y : R) : R :=
  odot ROps (map (fun n => chebyshev ROps y n (eff_restr d ep))
                 (cfg_range (cfg_changeBasis d ep M N))) c.

Lemma chebFun_is_poly d ep M N c : sizes_ok d M N -> is_poly (gsize d M N) (chebFun d ep M N c).
Proof.
  intro HS. unfold chebFun.
  apply (is_poly_ext _ (fun y => odot ROps (map (fun f => f y)
      (map (fun n => fun z => chebyshev ROps z n (eff_restr d ep)) (cfg_range (cfg_changeBasis d ep M N)))) c)).
  { intro y. now rewrite map_map. }
  apply odot_is_poly.
  - destruct d; cbn [gsize sizes_ok] in *; lia.
  - intros f Hf. apply in_map_iff in Hf. destruct Hf as [n [<- Hn]].
    apply cfg_changeBasis_bound in Hn.
    apply (is_poly_mono (Nat.max 2 (S n))); [|apply chebyshev_is_poly].
    destruct d; cbn [gsize sizes_ok] in *; lia.
Qed.

Lemma odot_all_zero (l : list R) c : (forall v, In v l -> v = 0) -> odot ROps l c = 0.
Proof.
  revert c. induction l as [|v l IH]; intros c H; [reflexivity|]. destruct c as [|k c]; [reflexivity|].
  cbn [odot]. rewrite IH by (intros w Hw; apply H; now right).
  rewrite (H v (or_introl eq_refl)). cbn. ring.
Qed.

(** the represented function vanishes at the dropped boundary points *)
Lemma chebFun_vanish d ep M N grid c g :
  grid_ok d M N grid -> In g grid -> ~ In g (trim d ep grid) -> chebFun d ep M N c g = 0.
Proof.
  intros [Hnd [L [Hl Hh]]] Hin Hn. pose proof (trim_dropped d ep grid g Hin Hn) as Hg.
  unfold chebFun. apply odot_all_zero. intros v Hv. apply in_map_iff in Hv.
  destruct Hv as [n [<- _]].
  destruct ep; [exfalso; apply Hn; exact Hin|]. unfold eff_restr.
  destruct d; cbn [full_restr].
  - destruct Hg as [->| ->]; [rewrite Hh|rewrite Hl]; apply restricted_full_vanish.
  - destruct Hg as [->| ->]; [rewrite Hh|rewrite Hl]; apply restricted_full_vanish.
  - rewrite Hg, Hl. apply restricted_partial_vanish.
Qed.

(** tnMatrix c = values of the represented function at the selected nodes *)
Lemma tnMatrix_values d ep M N grid c :
  omatvec ROps (tnMatrix ROps d ep grid M N) c = map (chebFun d ep M N c) (trim d ep grid).
Proof.
  unfold omatvec, tnMatrix, chebFun. rewrite map_map. apply map_ext. intro x.
  now rewrite cfg_changeBasis_restr.
Qed.

(** ** evaluate_agrees: evaluation in the Chebyshev representation equals evaluation in
    the cardinal representation of the converted coefficients, at EVERY x *)
Theorem evaluate_agrees_R d ep M N grid c x :
  grid_ok d M N grid -> sizes_ok d M N ->
  odot ROps (evalRow ROps Chebyshev d ep grid M N x) c =
  odot ROps (evalRow ROps Cardinal d ep grid M N x)
       (omatvec ROps (tnMatrix ROps d ep grid M N) c).
Proof.
  intros G HS. pose proof G as [Hnd [L [Hl Hh]]].
  transitivity (chebFun d ep M N c x).
  { unfold evalRow, chebFun. destruct (cfg_evalCheb_eq d ep M N HS) as [-> ->].
    now rewrite cfg_changeBasis_restr. }
  rewrite tnMatrix_values.
  unfold evalRow.
  rewrite <- (map_map (fun n => nth n grid 0) (fun xn => cardinal ROps grid xn x)).
  cbn [ROps o0]. rewrite (evalCard_nodes d ep grid M N L HS).
  rewrite odot_R_map.
  rewrite <- (interp_exact_fn grid (trim d ep grid) (chebFun d ep M N c)).
  - unfold interp. f_equal. apply map_ext. intro a. ring.
  - exact Hnd.
  - now apply trim_NoDup.
  - apply trim_incl.
  - rewrite L. now apply chebFun_is_poly.
  - intros g Hg Hn. now apply (chebFun_vanish d ep M N grid c g G).
Qed.

(** evaluation at a selected grid point returns the grid value (cardinal coefficient) *)
Theorem evaluate_at_node_R grid sel v xm :
  NoDup sel -> In xm sel -> incl sel grid ->
  odot ROps (map (fun xn => cardinal ROps grid xn xm) sel) (map v sel) = v xm.
Proof.
  intros Hnd Hin Hincl. rewrite odot_R_map.
  transitivity (interp grid sel v xm); [unfold interp; f_equal; apply map_ext; intro; ring|].
  rewrite interp_at_node; [|exact Hnd|now apply Hincl].
  destruct (in_dec Req_EM_T xm sel); [reflexivity|contradiction].
Qed.

(** ** derivative matrices *)
(** cardinal basis: D v = f' on the complete grid (boundaries included) *)
Theorem cardinalDeriv_exact_R d ep grid f f' :
  NoDup grid -> is_poly (length grid) f ->
  (forall g, In g grid -> ~ In g (trim d ep grid) -> f g = 0) ->
  (forall x, derivable_pt_lim f x (f' x)) ->
  omatvec ROps (cardinalDeriv ROps d ep grid) (map f (trim d ep grid)) = map f' grid.
Proof.
  intros Hnd Hp Hz Hd. unfold omatvec, cardinalDeriv. rewrite map_map.
  apply map_ext_in. intros xj Hj. rewrite odot_R_map.
  apply deriv_matrix_exact_fn; try assumption.
  - now apply trim_NoDup.
  - apply trim_incl.
  - apply Hd.
Qed.

(** Chebyshev basis: each entry of _chebyshevDeriv is the derivative, at that grid point,
    of the basis function that changeBasis / evaluate / _chebyshevMatrix use for the same
    direction and end-point flag *)
Theorem chebyshevDeriv_entry_R d ep n x :
  derivable_pt_lim (fun y => chebyshev ROps y n (eff_restr d ep)) x
                   (chebyshevDeriv ROps x n (full_restr d) ep).
Proof.
  unfold eff_restr. destruct ep.
  - apply chebyshev_plain_deriv.
  - apply chebyshev_restricted_deriv.
Qed.

Lemma Forall2_map_both {A B C} (P : B -> C -> Prop) (f : A -> B) (g : A -> C) l :
  (forall a, P (f a) (g a)) -> Forall2 P (map f l) (map g l).
Proof. intro H. induction l; cbn; constructor; auto. Qed.

Theorem chebyshevDeriv_exact_R d ep M N grid c :
  length grid = gsize d M N -> sizes_ok d M N ->
  Forall2 (fun xj dj => derivable_pt_lim (chebFun d ep M N c) xj dj)
          grid (omatvec ROps (chebyshevDerivM ROps d ep grid) c).
Proof.
  intros L HS. unfold omatvec, chebyshevDerivM. rewrite map_map.
  destruct (cfg_chebDeriv_eq d ep M N HS) as [E _]. rewrite L, E.
  assert (Er : c_restr (cfg_chebDeriv d ep (gsize d M N)) = full_restr d) by (destruct d, ep; reflexivity).
  rewrite Er. clear E Er L.
  induction grid as [|xj grid IH]; [constructor|]. cbn [map]. constructor; [|exact IH].
  unfold chebFun.
  apply (derivable_pt_lim_ext (fun y => odot ROps (map (fun f => f y)
      (map (fun n => fun z => chebyshev ROps z n (eff_restr d ep)) (cfg_range (cfg_changeBasis d ep M N)))) c)).
  { intro y. now rewrite !map_map. }
  apply odot_derive. apply Forall2_map_both. intro n. apply chebyshevDeriv_entry_R.
Qed.

(** ** linearity of every matrix action *)
Lemma odot_linear (r a b : list R) k :
  length a = length b ->
  odot ROps r (map (fun p => k * fst p + snd p) (combine a b)) = k * odot ROps r a + odot ROps r b.
Proof.
  revert a b. induction r as [|x r IH]; intros a b L; [cbn; ring|].
  destruct a as [|u a], b as [|w b]; try discriminate L; [cbn; ring|].
  cbn [combine map odot fst snd]. rewrite IH by (cbn in L; lia). cbn. ring.
Qed.

(** ** the matrices act independently along each axis: along axis i+1 the operator is the
    same operator along axis i mapped over the leading index (definitional), and the
    action along axis 0 of a vector of scalars is the matrix-vector product *)
Lemma apply_axis_S {T} (O : Ops T) i m l :
  apply_axis O (S i) m (Vec l) = Vec (map (apply_axis O i m) l).
Proof. reflexivity. Qed.
Lemma contract_axis_S {T} (O : Ops T) i r l :
  contract_axis O (S i) r (Vec l) = Vec (map (contract_axis O i r) l).
Proof. reflexivity. Qed.
