(** Mathematical meaning given once to the numpy idioms that the translator emits. *)
From Coq Require Import Reals Lra.
Local Open Scope R_scope.

(** np.arctanh(u + 0j).real : real part of the complex arctanh, for every real u <> +-1 *)
Definition atanh_R (u : R) : R := / 2 * ln (Rabs ((1 + u) / (1 - u))).

(** np.sign *)
Definition sign_R (x : R) : R :=
  if Rlt_dec 0 x then 1 else if Rlt_dec x 0 then -1 else 0.

Lemma atanh_R_inside u : -1 < u < 1 -> atanh_R u = / 2 * ln ((1 + u) / (1 - u)).
Proof.
  intros [H1 H2]. unfold atanh_R. rewrite Rabs_pos_eq; [reflexivity|].
  apply Rlt_le, Rdiv_lt_0_compat; lra.
Qed.

Lemma atanh_R_outside u : 1 < u -> atanh_R u = / 2 * ln ((u + 1) / (u - 1)).
Proof.
  intros H. unfold atanh_R.
  replace ((1 + u) / (1 - u)) with (- ((u + 1) / (u - 1))) by (field; lra).
  rewrite Rabs_Ropp, Rabs_pos_eq; [reflexivity|].
  apply Rlt_le, Rdiv_lt_0_compat; lra.
Qed.
