(** Hand-written model of the decision logic of Hydrodynamics.fastestDeflag and
    Hydrodynamics.slowestDeton (src/WallGo/hydrodynamics.py), over two oracles:
      - Tp, Tm : the temperatures returned by findMatching(vw)      (external numerics)
      - brentq : scipy.optimize.root_scalar(method="brentq")         (external numerics)
                 None  = ValueError ("f(a) and f(b) must have different signs")
    ONE definition, polymorphic in the number type, is used twice:
      - instantiated on Q it is executable; tools/props/C06.py runs the real methods on
        Hydrodynamics objects whose findMatching is replaced by synthetic curves and
        compares result and doesPhaseTraceLimitvmax flags with [vm_compute] of the model
        (that comparison is what ties this file to the source);
      - instantiated on R the theorems below are proved for ALL curves.
    Hypotheses about the external numerics are Section hypotheses (never axioms):
      brent_spec (what brentq returns, with an explicit tolerance) for the three calls made, and
      monotonicity of T+-(vw) inside the window (physics; validated by scanning). *)
From Coq Require Import Reals Lra QArith Qreals Bool.

Record ops (A : Type) := mk_ops {
  ltb : A -> A -> bool;          (* strict < *)
  add : A -> A -> A;
  sub : A -> A -> A;
  ofQ : Q -> A }.
Arguments ltb {A}. Arguments add {A}. Arguments sub {A}. Arguments ofQ {A}.

Record cfg (A : Type) := mk_cfg {
  vJ : A; vMin : A; vBracketLow : A;
  TMaxLowT : A; TMaxHighT : A;
  lowEnds : bool;    (* thermodynamics.freeEnergyLow.maxPossibleTemperature[1]  *)
  highEnds : bool }. (* thermodynamics.freeEnergyHigh.maxPossibleTemperature[1] *)
Arguments vJ {A}. Arguments vMin {A}. Arguments vBracketLow {A}. Arguments TMaxLowT {A}.
Arguments TMaxHighT {A}. Arguments lowEnds {A}. Arguments highEnds {A}.

Section Model.
Context {A : Type} (O : ops A).
Variable c : cfg A.
Variables Tp Tm : A -> A.
Variable brentq : (A -> A) -> A -> A -> option A.

Definition minA (x y : A) : A := if ltb O y x then y else x.   (* Python min(x, y) *)

(** flags = doesPhaseTraceLimitvmax = (entry [0]: high-T phase, entry [1]: low-T phase) *)
Definition fastestDeflag (flags : bool * bool) : A * (bool * bool) :=
  let hi := sub O (vJ c) (vBracketLow c) in
  if ltb O (Tm hi) (TMaxLowT c) && ltb O (Tp hi) (TMaxHighT c) then (vJ c, flags)
  else
    let lo := add O (vMin c) (vBracketLow c) in
    let r1 := match brentq (fun v => sub O (Tm v) (TMaxLowT c)) lo hi with
              | Some r => (r, if lowEnds c then snd flags else true)
              | None => (vJ c, false)
              end in
    let r2 := match brentq (fun v => sub O (Tp v) (TMaxHighT c)) lo hi with
              | Some r => (r, if highEnds c then fst flags else true)
              | None => (vJ c, false)
              end in
    (minA (fst r1) (fst r2), (snd r2, snd r1)).

Definition slowestDeton : A :=
  let one := ofQ O 1 in
  if ltb O (TMaxLowT c) (Tm one) then one
  else match brentq (fun v => sub O (Tm v) (TMaxLowT c)) (add O (vJ c) (ofQ O (1 # 10000))) one with
       | Some r => minA one (add O r (ofQ O (1 # 100)))
       | None => vJ c
       end.
End Model.

(** * Executable instance (correspondence) *)
Definition Qltb (x y : Q) : bool := negb (Qle_bool y x).
Definition opsQ : ops Q := mk_ops Q Qltb Qplus Qminus (fun q => q).

(** exact "brentq" for the synthetic curves of the harness: the secant point is the root of
    an affine function; otherwise bisection (the harness compares within the solver's
    tolerance) *)
Fixpoint bisectQ (n : nat) (f : Q -> Q) (a b : Q) : Q :=
  match n with
  | O => Qred ((a + b) / 2)
  | S n' => let m := Qred ((a + b) / 2) in
            let fm := f m in
            if Qeq_bool fm 0 then m
            else if Qltb (f a * fm) 0 then bisectQ n' f a m else bisectQ n' f m b
  end.
Definition brentqQ (f : Q -> Q) (a b : Q) : option Q :=
  let fa := f a in let fb := f b in
  if Qltb 0 (fa * fb) then None
  else if Qeq_bool fa 0 then Some a
  else if Qeq_bool fb 0 then Some b
  else let s := Qred (a - fa * (b - a) / (fb - fa)) in
       if Qeq_bool (f s) 0 then Some s else Some (bisectQ 60 f a b).

(** * Real instance and theorems *)
Local Open Scope R_scope.
Definition Rltb (x y : R) : bool := if Rlt_dec x y then true else false.
Definition opsR : ops R := mk_ops R Rltb Rplus Rminus Q2R.

Lemma Rltb_true x y : Rltb x y = true <-> x < y.
Proof. unfold Rltb. destruct (Rlt_dec x y); split; intros; try assumption; try reflexivity; try discriminate; contradiction. Qed.
Lemma Rltb_false x y : Rltb x y = false <-> y <= x.
Proof. unfold Rltb. destruct (Rlt_dec x y); split; intros; try discriminate; try reflexivity; lra. Qed.

Lemma minA_R x y : minA opsR x y = Rmin x y.
Proof.
  unfold minA, opsR, ltb, Rltb. destruct (Rlt_dec y x).
  - rewrite Rmin_right; lra.
  - rewrite Rmin_left; lra.
Qed.

Lemma Rabs_def2b x y : Rabs x <= y -> - y <= x <= y.
Proof. unfold Rabs. destruct (Rcase_abs x); lra. Qed.

Lemma Q2R_1 : Q2R 1 = 1. Proof. unfold Q2R; cbn; lra. Qed.
Lemma Q2R_1e4 : Q2R (1 # 10000) = / 10000. Proof. unfold Q2R; cbn; lra. Qed.
Lemma Q2R_1e2 : Q2R (1 # 100) = / 100. Proof. unfold Q2R; cbn; lra. Qed.

Section Theorems.
Variable c : cfg R.
Variables Tp Tm : R -> R.
Variable brentq : (R -> R) -> R -> R -> option R.
Variable tol : R.                        (* accuracy of the root finder *)
Hypothesis tol_nonneg : 0 <= tol.

(** scipy brentq on f over [a,b]: ValueError exactly when both ends have the same strict
    sign; otherwise a point of the bracket within [tol] of a zero of f that lies in the
    bracket.  Assumed ONLY for the three calls the code makes (so that the hypotheses are
    satisfiable: see Example brent_spec_satisfiable in Props/C06.v). *)
Definition brent_spec (f : R -> R) (a b : R) : Prop :=
  (brentq f a b = None -> 0 < f a * f b) /\
  (forall r, brentq f a b = Some r ->
     a <= r <= b /\ exists r0, a <= r0 <= b /\ f r0 = 0 /\ Rabs (r - r0) <= tol).

Notation lo := (vMin c + vBracketLow c).
Notation hi := (vJ c - vBracketLow c).
Notation FD := (fastestDeflag opsR c Tp Tm brentq).

Hypothesis Hbr : 0 < vBracketLow c.
Hypothesis Hwin : lo <= hi.
Hypothesis brent_Tm : brent_spec (fun v => Tm v - TMaxLowT c) lo hi.
Hypothesis brent_Tp : brent_spec (fun v => Tp v - TMaxHighT c) lo hi.

Definition incr_on (f : R -> R) a b := forall x y, a <= x -> x <= y -> y <= b -> f x <= f y.
Definition sincr_on (f : R -> R) a b := forall x y, a <= x -> x < y -> y <= b -> f x < f y.
Definition decr_on (f : R -> R) a b := forall x y, a <= x -> x <= y -> y <= b -> f y <= f x.

(** ** fastestDeflag *)
Lemma FD_cases flags :
  (Tm hi < TMaxLowT c /\ Tp hi < TMaxHighT c /\ FD flags = (vJ c, flags)) \/
  (~ (Tm hi < TMaxLowT c /\ Tp hi < TMaxHighT c) /\
   exists v1 f1 v2 f2, FD flags = (Rmin v1 v2, (f2, f1)) /\
     ((brentq (fun v => Tm v - TMaxLowT c) lo hi = Some v1 /\
        f1 = (if lowEnds c then snd flags else true)) \/
      (brentq (fun v => Tm v - TMaxLowT c) lo hi = None /\ v1 = vJ c /\ f1 = false)) /\
     ((brentq (fun v => Tp v - TMaxHighT c) lo hi = Some v2 /\
        f2 = (if highEnds c then fst flags else true)) \/
      (brentq (fun v => Tp v - TMaxHighT c) lo hi = None /\ v2 = vJ c /\ f2 = false))).
Proof.
  unfold fastestDeflag. cbn [opsR ltb add sub].
  destruct (Rltb (Tm hi) (TMaxLowT c)) eqn:E1; destruct (Rltb (Tp hi) (TMaxHighT c)) eqn:E2; cbn [andb].
  1: { left. apply Rltb_true in E1. apply Rltb_true in E2. auto. }
  all: right; split;
    [ intros [H1 H2]; try (apply Rltb_false in E1; lra); try (apply Rltb_false in E2; lra) | ].
  all: destruct (brentq (fun v => Tm v - TMaxLowT c) lo hi) as [v1|] eqn:B1;
       destruct (brentq (fun v => Tp v - TMaxHighT c) lo hi) as [v2|] eqn:B2;
       cbn [fst snd]; rewrite minA_R;
       do 4 eexists; (split; [reflexivity|]); split; auto.
Qed.

(** never beyond the Jouguet velocity *)
Theorem fastest_le_vJ flags : fst (FD flags) <= vJ c.
Proof.
  destruct (FD_cases flags) as [[_ [_ E]]|[_ [v1 [f1 [v2 [f2 [E [[[B1 _]|[_ [V1 _]]] _]]]]]]]];
    rewrite E; cbn [fst].
  - lra.
  - destruct (proj2 brent_Tm _ B1) as [[_ H] _].
    apply Rle_trans with v1; [apply Rmin_l|lra].
  - subst v1. apply Rmin_l.
Qed.

(** if it is below vJ, it is (within the solver tolerance) a velocity of the window where
    T- reaches TMaxLowT or T+ reaches TMaxHighT *)
Theorem fastest_is_range_hit flags : fst (FD flags) < vJ c ->
  lo <= fst (FD flags) <= hi /\
  exists r0, lo <= r0 <= hi /\ Rabs (fst (FD flags) - r0) <= tol /\
             (Tm r0 = TMaxLowT c \/ Tp r0 = TMaxHighT c).
Proof.
  destruct (FD_cases flags) as [[_ [_ E]]|[_ [v1 [f1 [v2 [f2 [E [H1 H2]]]]]]]];
    rewrite E; cbn [fst]; [lra|].
  intro Hlt.
  destruct (Rle_dec v1 v2) as [L|L].
  - rewrite Rmin_left in * by exact L.
    destruct H1 as [[B1 _]|[_ [V1 _]]]; [|lra].
    destruct (proj2 brent_Tm _ B1) as [Hr [r0 [Hr0 [Z D]]]].
    split; [exact Hr|]. exists r0. repeat split; try tauto. left. lra.
  - rewrite Rmin_right in * by lra.
    destruct H2 as [[B2 _]|[_ [V2 _]]]; [|lra].
    destruct (proj2 brent_Tp _ B2) as [Hr [r0 [Hr0 [Z D]]]].
    split; [exact Hr|]. exists r0. repeat split; try tauto. right. lra.
Qed.

Section Monotone.
(** physics: T-(vw), T+(vw) do not decrease across the deflagration/hybrid window, and the
    slow end of the window is inside the tabulated ranges *)
Hypothesis Tm_incr : incr_on Tm lo hi.
Hypothesis Tp_incr : incr_on Tp lo hi.
Hypothesis Tm_lo : Tm lo <= TMaxLowT c.
Hypothesis Tp_lo : Tp lo <= TMaxHighT c.

Lemma limit_ok (T : R -> R) TMax v :
  brent_spec (fun x => T x - TMax) lo hi ->
  incr_on T lo hi -> T lo <= TMax ->
  (brentq (fun x => T x - TMax) lo hi = Some v \/
   (brentq (fun x => T x - TMax) lo hi = None /\ v = vJ c)) ->
  forall vw, lo <= vw <= hi -> vw <= v - tol -> T vw <= TMax.
Proof.
  intros BS Hi Hl [B|[B V]] vw Hvw Hle.
  - destruct (proj2 BS _ B) as [Hr [r0 [Hr0 [Z D]]]].
    apply Rabs_def2b in D. assert (vw <= r0) by lra.
    apply Rle_trans with (T r0); [apply Hi; lra|lra].
  - apply (proj1 BS) in B.
    assert (T lo - TMax < 0).
    { destruct (Rle_lt_or_eq_dec _ _ Hl) as [|E]; [lra|]. rewrite E in B.
      replace (TMax - TMax) with 0 in B by ring. lra. }
    assert (T hi - TMax < 0) by nra.
    apply Rle_trans with (T hi); [apply Hi; lra|lra].
Qed.

(** every slower wall of the window has both temperatures inside the tabulated ranges *)
Theorem fastest_slower_walls_in_range flags : forall vw,
  lo <= vw <= hi -> vw <= fst (FD flags) - tol ->
  Tm vw <= TMaxLowT c /\ Tp vw <= TMaxHighT c.
Proof.
  intros vw Hvw.
  destruct (FD_cases flags) as [[A1 [A2 E]]|[_ [v1 [f1 [v2 [f2 [E [H1 H2]]]]]]]];
    rewrite E; cbn [fst]; intro Hle.
  - split.
    + apply Rle_trans with (Tm hi); [apply Tm_incr; lra|lra].
    + apply Rle_trans with (Tp hi); [apply Tp_incr; lra|lra].
  - pose proof (Rmin_l v1 v2). pose proof (Rmin_r v1 v2). split.
    + apply (limit_ok Tm (TMaxLowT c) v1 brent_Tm Tm_incr Tm_lo); [tauto|exact Hvw|lra].
    + apply (limit_ok Tp (TMaxHighT c) v2 brent_Tp Tp_incr Tp_lo); [tauto|exact Hvw|lra].
Qed.
End Monotone.

(** and it is the LARGEST such velocity: with strictly increasing temperatures every faster
    wall of the window leaves a range *)
Theorem fastest_is_maximal flags :
  sincr_on Tm lo hi -> sincr_on Tp lo hi ->
  fst (FD flags) < vJ c ->
  forall vw, fst (FD flags) + tol < vw -> vw <= hi ->
  TMaxLowT c < Tm vw \/ TMaxHighT c < Tp vw.
Proof.
  intros Sm Sp Hlt vw Hv Hh.
  destruct (fastest_is_range_hit flags Hlt) as [Hr [r0 [Hr0 [D [Z|Z]]]]];
    apply Rabs_def2b in D; [left|right]; rewrite <- Z; [apply Sm|apply Sp]; lra.
Qed.

(** what the code does when the tabulated range of the high-T phase is ALREADY exceeded at
    the slow end of the window (hypothesis Tp_lo above fails): no sign change, both root
    searches raise ValueError, and vJ is returned with no flag although every wall of the
    window is outside the range.  (Documented behaviour; the property only speaks of ranges
    reached INSIDE the window.) *)
Theorem fastest_blind_when_window_starts_out_of_range flags :
  incr_on Tm lo hi -> incr_on Tp lo hi ->
  Tm hi < TMaxLowT c -> TMaxHighT c < Tp lo ->
  FD flags = (vJ c, (false, false)) /\ forall vw, lo <= vw <= hi -> TMaxHighT c < Tp vw.
Proof.
  intros Im Ip Hm Hp. split.
  - destruct (FD_cases flags) as [[_ [A _]]|[_ [v1 [f1 [v2 [f2 [E [H1 H2]]]]]]]].
    + assert (Tp lo <= Tp hi) by (apply Ip; lra). lra.
    + rewrite E.
      destruct H1 as [[B1 _]|[_ [V1 F1]]].
      { destruct (proj2 brent_Tm _ B1) as [_ [r0 [Hr0 [Z _]]]].
        assert (Tm r0 <= Tm hi) by (apply Im; lra). lra. }
      destruct H2 as [[B2 _]|[_ [V2 F2]]].
      { destruct (proj2 brent_Tp _ B2) as [_ [r0 [Hr0 [Z _]]]].
        assert (Tp lo <= Tp r0) by (apply Ip; lra). lra. }
      subst. rewrite Rmin_left by lra. reflexivity.
  - intros vw Hvw. apply Rlt_le_trans with (Tp lo); [exact Hp|apply Ip; lra].
Qed.

(** the flags, for a freshly constructed object (both False): a flag is raised only if the
    corresponding range is reached inside the window AND the range end is not a genuine
    end of the phase *)
Theorem fastest_flags_sound :
  let out := snd (FD (false, false)) in
  (snd out = true -> lowEnds c = false /\
     exists r0, lo <= r0 <= hi /\ Tm r0 = TMaxLowT c) /\
  (fst out = true -> highEnds c = false /\
     exists r0, lo <= r0 <= hi /\ Tp r0 = TMaxHighT c).
Proof.
  cbv zeta.
  destruct (FD_cases (false, false)) as [[_ [_ E]]|[_ [v1 [f1 [v2 [f2 [E [H1 H2]]]]]]]];
    rewrite E; cbn [fst snd].
  - split; discriminate.
  - split; intro F.
    + destruct H1 as [[B1 F1]|[_ [_ F1]]]; [|congruence].
      destruct (lowEnds c); [cbn in F1; congruence|]. split; [reflexivity|].
      destruct (proj2 brent_Tm _ B1) as [_ [r0 [Hr0 [Z _]]]]. exists r0. split; [tauto|lra].
    + destruct H2 as [[B2 F2]|[_ [_ F2]]]; [|congruence].
      destruct (highEnds c); [cbn in F2; congruence|]. split; [reflexivity|].
      destruct (proj2 brent_Tp _ B2) as [_ [r0 [Hr0 [Z _]]]]. exists r0. split; [tauto|lra].
Qed.

(** the limiting velocity itself does not depend on the flags or on whether a range end is
    a genuine end of the phase *)
Theorem fastest_value_independent_of_flags f1 f2 : fst (FD f1) = fst (FD f2).
Proof.
  unfold fastestDeflag. cbn [opsR ltb add sub].
  destruct (Rltb (Tm hi) (TMaxLowT c) && Rltb (Tp hi) (TMaxHighT c)); [reflexivity|].
  destruct (brentq (fun v => Tm v - TMaxLowT c) lo hi);
    destruct (brentq (fun v => Tp v - TMaxHighT c) lo hi); reflexivity.
Qed.

(** ** slowestDeton *)
Notation dlo := (vJ c + / 10000).
Notation SD := (slowestDeton opsR c Tm brentq).
Hypothesis HvJ1 : dlo <= 1.
Hypothesis Htol : tol <= / 100.
Hypothesis brent_Tm_deton : brent_spec (fun v => Tm v - TMaxLowT c) dlo 1.

Lemma SD_cases :
  (TMaxLowT c < Tm 1 /\ SD = 1) \/
  (Tm 1 <= TMaxLowT c /\
   ((exists r, brentq (fun v => Tm v - TMaxLowT c) dlo 1 = Some r /\ SD = Rmin 1 (r + / 100)) \/
    (brentq (fun v => Tm v - TMaxLowT c) dlo 1 = None /\ SD = vJ c))).
Proof.
  unfold slowestDeton. cbn [opsR ltb add sub ofQ]. rewrite Q2R_1, Q2R_1e4, Q2R_1e2.
  destruct (Rltb (TMaxLowT c) (Tm 1)) eqn:E.
  - left. apply Rltb_true in E. auto.
  - right. apply Rltb_false in E. split; [exact E|].
    destruct (brentq (fun v => Tm v - TMaxLowT c) dlo 1) as [r|].
    + left. exists r. rewrite minA_R. auto.
    + right. auto.
Qed.

Theorem slowest_bounds : vJ c <= SD <= 1.
Proof.
  assert (0 < / 10000) by (apply Rinv_0_lt_compat; lra).
  assert (0 < / 100) by (apply Rinv_0_lt_compat; lra).
  destruct SD_cases as [[_ E]|[_ [[r [B E]]|[_ E]]]]; rewrite E.
  - lra.
  - destruct (proj2 brent_Tm_deton _ B) as [Hr _]. split; [|apply Rmin_l].
    apply Rmin_glb; lra.
  - lra.
Qed.

Section Antitone.
(** physics: on the detonation branch T-(vw) does not increase with vw *)
Hypothesis Tm_decr : decr_on Tm dlo 1.

(** every faster detonation has T- inside the tabulated range of the low-T phase (T+ = Tn) *)
Theorem slowest_faster_walls_in_range : Tm 1 <= TMaxLowT c ->
  forall vw, dlo <= vw <= 1 -> SD <= vw -> Tm vw <= TMaxLowT c.
Proof.
  intros H1 vw Hvw.
  assert (0 < / 10000) by (apply Rinv_0_lt_compat; lra).
  destruct SD_cases as [[A _]|[_ [[r [B E]]|[B E]]]]; [lra| |]; rewrite E; intro Hle.
  - destruct (proj2 brent_Tm_deton _ B) as [Hr [r0 [Hr0 [Z D]]]].
    apply Rabs_def2b in D.
    destruct (Rle_dec 1 (r + / 100)) as [L|L].
    + rewrite Rmin_left in Hle by exact L. assert (vw = 1) by lra. subst vw. exact H1.
    + rewrite Rmin_right in Hle by lra. assert (r0 <= vw) by lra.
      apply Rle_trans with (Tm r0); [apply Tm_decr; lra|lra].
  - apply (proj1 brent_Tm_deton) in B.
    assert (Tm 1 - TMaxLowT c < 0).
    { destruct (Rle_lt_or_eq_dec _ _ H1) as [|Q]; [lra|]. rewrite Q in B.
      replace (TMaxLowT c - TMaxLowT c) with 0 in B by ring. lra. }
    assert (Tm dlo - TMaxLowT c < 0) by nra.
    apply Rle_trans with (Tm dlo); [apply Tm_decr; lra|lra].
Qed.

(** 1 is returned exactly when no detonation is admissible *)
Theorem slowest_one_means_none_admissible : TMaxLowT c < Tm 1 ->
  SD = 1 /\ forall vw, dlo <= vw <= 1 -> TMaxLowT c < Tm vw.
Proof.
  intro H1. split.
  - destruct SD_cases as [[_ E]|[A _]]; [exact E|lra].
  - intros vw Hvw. apply Rlt_le_trans with (Tm 1); [exact H1|apply Tm_decr; lra].
Qed.
End Antitone.

(** strictly inside (vJ, 1) the result is 0.01 above a velocity where T- reaches TMaxLowT *)
Theorem slowest_is_range_hit : vJ c < SD -> SD < 1 ->
  exists r0, dlo <= r0 <= 1 /\ Tm r0 = TMaxLowT c /\ Rabs (SD - / 100 - r0) <= tol.
Proof.
  intros Hl Hu.
  destruct SD_cases as [[_ E]|[_ [[r [B E]]|[_ E]]]]; [lra| |lra].
  destruct (proj2 brent_Tm_deton _ B) as [Hr [r0 [Hr0 [Z D]]]].
  rewrite E in *.
  destruct (Rle_dec 1 (r + / 100)) as [L|L].
  - rewrite Rmin_left in Hu by exact L. lra.
  - rewrite Rmin_right by lra. exists r0. repeat split; try tauto; [lra|].
    replace (r + / 100 - / 100 - r0) with (r - r0) by ring. exact D.
Qed.

End Theorems.
