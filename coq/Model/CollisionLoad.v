(** State machine of collision loading:
      CollisionArray.newFromDirectory   (double loop over ordered particle pairs, per-file
                                         checks, direct / interpolation branch, final
                                         changeBasis)
      BoltzmannSolver.loadCollisions    (when is solver.collisionArray assigned)
    The model is PARAMETRISED by a record [cfg] of facts that tools/gen_collision.py
    extracts from the Python AST on every run (order and exception class of every check,
    which basis names label the polynomials, statement list of loadCollisions, handlers).
    Theorems are proved for every cfg satisfying the decidable predicate [cfg_good]; the
    Props file proves [cfg_good the_cfg] for the generated instance by computation.
    Numbers are abstract: a file carries a data id; a block of the loaded array records
    whose numbers it holds, on which grid size and in which basis they TRULY are, and
    whether some transformation was applied under a wrong basis label ([b_ok]). *)
From Coq Require Import List Arith Lia Bool PeanoNat FinFun.
Import ListNotations.

Inductive basis := Cardinal | Chebyshev | UnknownBasis.
Inductive errkind := CollisionLoadError | AssertionError | OtherError.
Inductive outcome (A : Type) := Ok (a : A) | Err (k : errkind).
Arguments Ok {A}. Arguments Err {A}.

Definition basis_eqb (a b : basis) : bool :=
  match a, b with
  | Cardinal, Cardinal | Chebyshev, Chebyshev | UnknownBasis, UnknownBasis => true
  | _, _ => false
  end.
Lemma basis_eqb_eq a b : basis_eqb a b = true <-> a = b.
Proof. destruct a, b; cbn; split; congruence. Qed.
Definition known (b : basis) : bool := negb (basis_eqb b UnknownBasis).

Definition errkind_eqb (a b : errkind) : bool :=
  match a, b with
  | CollisionLoadError, CollisionLoadError | AssertionError, AssertionError
  | OtherError, OtherError => true
  | _, _ => false
  end.
Lemma errkind_eqb_eq a b : errkind_eqb a b = true <-> a = b.
Proof. destruct a, b; cbn; split; congruence. Qed.

(** shape of the dataset relative to the (N-1)^4 its own metadata announces: as announced /
    not broadcastable into the slot (numpy ValueError on the store) / lower rank or extent 1
    (numpy broadcasts it silently) / dataset absent (KeyError on the read) *)
Inductive dshape := ShapeOk | ShapeSmaller | ShapeBroadcast | ShapeMissing
                 | FileUnreadable.   (* the file exists but h5py cannot open it (OSError):
                                        not HDF5, e.g. a git-lfs pointer; a directory; ... *)
Definition dshape_eqb (a b : dshape) : bool :=
  match a, b with
  | ShapeOk, ShapeOk | ShapeSmaller, ShapeSmaller | ShapeBroadcast, ShapeBroadcast
  | ShapeMissing, ShapeMissing | FileUnreadable, FileUnreadable => true
  | _, _ => false
  end.
Lemma dshape_eqb_eq a b : dshape_eqb a b = true <-> a = b.
Proof. destruct a, b; cbn; split; congruence. Qed.

(** one collision file: "Basis Size", "Basis Type", the identity of its numbers, and the shape
    of the dataset *)
Record file := mkfile { f_size : nat; f_basis : basis; f_data : nat; f_shape : dshape }.
(** a directory, keyed by the ordered pair of particle ids (names) *)
Definition directory := nat -> nat -> option file.

(** *** facts extracted from the source *)
(** [GDatasetMissing]: the dataset is looked up (explicit check, or the read itself: KeyError);
    [GDatasetShape]: explicit comparison of the dataset's shape with 4 * (size - 1,) *)
Inductive guard := GOversized | GUnknownBasis | GSizeMismatch | GBasisMismatch
                 | GDatasetMissing | GDatasetShape.
Inductive whichbasis := FileBasis | RequestedBasis | ConstBasis (b : basis).
Inductive whichsize := FileSize | TargetSize.
Inductive lstmt := SClear | SLoadStore.
Inductive hact := HReraise | HSwallow | HRaise (k : errkind).

Record cfg := mkcfg {
  c_row_major : bool;        (* outer loop runs over the FIRST particle index *)
  c_key_order : bool;        (* file name and dataset name are built from (particle1, particle2) *)
  c_store_order : bool;      (* collisionFileArray[i, :, :, j, :, :] = ...  *)
  c_kind_missing : errkind;  (* what a FileNotFoundError at the open becomes *)
  c_kind_unreadable : errkind;  (* what any other OSError at the open becomes *)
  c_guards_every : list (guard * errkind);  (* checks on every file, in source order *)
  c_guards_later : list (guard * errkind);  (* checks on every file but the first one *)
  c_kind_nointerp : errkind;
  c_direct_label : whichbasis;   (* basis label of the polynomial, sizes equal *)
  c_interp_label : whichbasis;   (* basis label of the full-size polynomial, interpolation branch *)
  c_interp_size : whichsize;     (* N of the dummy grid of the interpolation branch *)
  c_final_basis : whichbasis;    (* argument of the final changeBasis *)
  c_interp_via : basis;          (* basis the interpolation converts to before evaluating *)
  c_interp_back : bool;          (* converts back to the source's basis afterwards *)
  c_prog_pre : list lstmt;       (* loadCollisions: statements before the try *)
  c_prog_try : list lstmt;       (* statements inside the try *)
  c_handlers : list (errkind * hact)
}.

(** *** the loaded array *)
Record block := mkblock { b_data : nat; b_size : nat; b_basis : basis; b_ok : bool }.
Record carray := mkcarray { a_N : nat; a_label : basis; a_blocks : nat -> nat -> option block }.

Definition upd (m : nat -> nat -> option block) (i j : nat) (b : block) :=
  fun i' j' => if (i' =? i) && (j' =? j) then Some b else m i' j'.

Definition resolve (w : whichbasis) (bfile breq : basis) : basis :=
  match w with FileBasis => bfile | RequestedBasis => breq | ConstBasis b => b end.

(** CollisionArray.changeBasis: nothing if the label already is [new]; otherwise the numbers
    are multiplied by the matrices that are right for going from the LABEL to [new] *)
Definition changeBasis (a : carray) (new : basis) : outcome carray :=
  if basis_eqb (a_label a) new then Ok a
  else if negb (known new) then Err AssertionError
  else Ok (mkcarray (a_N a) new (fun i j =>
         match a_blocks a i j with
         | None => None
         | Some b => Some (if basis_eqb (b_basis b) (a_label a)
                           then mkblock (b_data b) (b_size b) new (b_ok b)
                           else mkblock (b_data b) (b_size b) new false)
         end)).

Section WithCfg.
Variable c : cfg.

(** CollisionArray.interpolateCollisionArray(src, targetGrid) *)
Definition interpolate (src : carray) (N : nat) : outcome carray :=
  if a_N src - 1 <? N then Err AssertionError else
  match changeBasis src (c_interp_via c) with
  | Err k => Err k
  | Ok s1 =>
    let s2 := mkcarray N (c_interp_via c) (fun i j =>
        match a_blocks s1 i j with
        | None => None
        | Some b => Some (mkblock (b_data b) N (b_basis b)
                            (b_ok b && basis_eqb (b_basis b) Chebyshev && (b_size b =? a_N src)))
        end) in
    if c_interp_back c then changeBasis s2 (a_label src) else Ok s2
  end.

Definition guard_fails (g : guard) (N : nat) (f : file) (hd : option (nat * basis)) : bool :=
  match g, hd with
  | GOversized, _ => f_size f <? N
  | GUnknownBasis, _ => negb (known (f_basis f))
  | GSizeMismatch, Some (sz, _) => negb (f_size f =? sz)
  | GBasisMismatch, Some (_, bt) => negb (basis_eqb (f_basis f) bt)
  | GDatasetMissing, _ => dshape_eqb (f_shape f) ShapeMissing
  | GDatasetShape, _ => negb (dshape_eqb (f_shape f) ShapeOk)
  | _, None => false
  end.

Fixpoint first_fail (gs : list (guard * errkind)) (N : nat) (f : file)
         (hd : option (nat * basis)) : option errkind :=
  match gs with
  | [] => None
  | (g, k) :: gs' => if guard_fails g N f hd then Some k else first_fail gs' N f hd
  end.

Definition lstate := (option (nat * basis) * (nat -> nat -> option block))%type.

Definition swap_if (keep : bool) (p : nat * nat) : nat * nat :=
  if keep then p else (snd p, fst p).

Definition step (dir : directory) (N : nat) (parts : list nat) (st : lstate) (p : nat * nat)
  : outcome lstate :=
  let kp := swap_if (c_key_order c) p in
  let sp := swap_if (c_store_order c) p in
  match dir (nth (fst kp) parts 0) (nth (snd kp) parts 0) with
  | None => Err (c_kind_missing c)
  | Some f =>
    if dshape_eqb (f_shape f) FileUnreadable then Err (c_kind_unreadable c) else
    match first_fail (c_guards_every c) N f (fst st) with
    | Some k => Err k
    | None =>
      (* collisionFileArray[i, :, :, j, :, :] = collisionDataset : numpy broadcasting *)
      let stored := match f_shape f with
                    | ShapeOk => Ok (mkblock (f_data f) (f_size f) (f_basis f) true)
                    | ShapeBroadcast => Ok (mkblock (f_data f) (f_size f) (f_basis f) false)
                    | ShapeSmaller | ShapeMissing | FileUnreadable => Err OtherError
                    end in
      match fst st with
      | None => match stored with
                | Ok blk => Ok (Some (f_size f, f_basis f), upd (snd st) (fst sp) (snd sp) blk)
                | Err k => Err k
                end
      | Some hd =>
        match first_fail (c_guards_later c) N f (Some hd) with
        | Some k => Err k
        | None => match stored with
                  | Ok blk => Ok (Some hd, upd (snd st) (fst sp) (snd sp) blk)
                  | Err k => Err k
                  end
        end
      end
    end
  end.

Fixpoint loop (dir : directory) (N : nat) (parts : list nat) (ps : list (nat * nat))
         (st : lstate) : outcome lstate :=
  match ps with
  | [] => Ok st
  | p :: ps' => match step dir N parts st p with
                | Ok st' => loop dir N parts ps' st'
                | Err k => Err k
                end
  end.

Definition pairs (P : nat) : list (nat * nat) :=
  if c_row_major c then list_prod (seq 0 P) (seq 0 P)
  else map (fun p => (snd p, fst p)) (list_prod (seq 0 P) (seq 0 P)).

Definition newFromDirectory (dir : directory) (N : nat) (req : basis) (parts : list nat)
           (bInterpolate : bool) : outcome carray :=
  match loop dir N parts (pairs (length parts)) (None, fun _ _ => None) with
  | Err k => Err k
  | Ok (None, _) => Err OtherError            (* no particle: unbound local *)
  | Ok (Some (sz, bt), blocks) =>
    let fin := resolve (c_final_basis c) bt req in
    if sz =? N then
      changeBasis (mkcarray N (resolve (c_direct_label c) bt req) blocks) fin
    else if negb bInterpolate then Err (c_kind_nointerp c)
    else
      let n0 := match c_interp_size c with FileSize => sz | TargetSize => N end in
      if negb (n0 =? sz) then Err AssertionError   (* Polynomial._checkCoefficients *)
      else match interpolate (mkcarray n0 (resolve (c_interp_label c) bt req) blocks) N with
           | Err k => Err k
           | Ok a => changeBasis a fin
           end
  end.

(** *** BoltzmannSolver.loadCollisions *)
Definition solver := option carray.      (* the attribute collisionArray *)

Fixpoint exec (ss : list lstmt) (load : outcome carray) (s : solver) : solver * outcome unit :=
  match ss with
  | [] => (s, Ok tt)
  | SClear :: ss' => exec ss' load None
  | SLoadStore :: ss' => match load with
                         | Ok a => exec ss' load (Some a)
                         | Err k => (s, Err k)
                         end
  end.

Fixpoint handler (hs : list (errkind * hact)) (k : errkind) : outcome unit :=
  match hs with
  | [] => Err k
  | (k', h) :: hs' => if errkind_eqb k k'
                      then match h with HReraise => Err k | HSwallow => Ok tt | HRaise k2 => Err k2 end
                      else handler hs' k
  end.

Definition loadCollisions (s : solver) (dir : directory) (N : nat) (req : basis)
           (parts : list nat) : solver * outcome unit :=
  let load := newFromDirectory dir N req parts true in
  match exec (c_prog_pre c) load s with
  | (s1, Err k) => (s1, Err k)
  | (s1, Ok _) => match exec (c_prog_try c) load s1 with
                  | (s2, Err k) => (s2, handler (c_handlers c) k)
                  | (s2, Ok _) => (s2, Ok tt)
                  end
  end.

(** an operation sequence on one solver: particle list updates and loads *)
Inductive op := OpParticles (parts : list nat) | OpLoad (dir : directory).

Fixpoint run (N : nat) (req : basis) (ops : list op) (parts : list nat) (s : solver)
  : solver * list (outcome unit) :=
  match ops with
  | [] => (s, [])
  | OpParticles ps :: ops' => run N req ops' ps s
  | OpLoad dir :: ops' =>
    let (s1, o) := loadCollisions s dir N req parts in
    let (s2, os) := run N req ops' parts s1 in (s2, o :: os)
  end.

(** what the property demands of the same sequence: install exactly on success *)
Fixpoint run_spec (N : nat) (req : basis) (ops : list op) (parts : list nat) (s : solver)
  : solver * list (outcome unit) :=
  match ops with
  | [] => (s, [])
  | OpParticles ps :: ops' => run_spec N req ops' ps s
  | OpLoad dir :: ops' =>
    match newFromDirectory dir N req parts true with
    | Ok a => let (s2, os) := run_spec N req ops' parts (Some a) in (s2, Ok tt :: os)
    | Err k => let (s2, os) := run_spec N req ops' parts s in (s2, Err k :: os)
    end
  end.

(** *** the decidable goodness predicate on extracted facts *)
Definition is_cle (k : errkind) : bool := errkind_eqb k CollisionLoadError.
Definition guard_eqb (a b : guard) : bool :=
  match a, b with
  | GOversized, GOversized | GUnknownBasis, GUnknownBasis
  | GSizeMismatch, GSizeMismatch | GBasisMismatch, GBasisMismatch
  | GDatasetMissing, GDatasetMissing | GDatasetShape, GDatasetShape => true
  | _, _ => false
  end.
Definition has_guard (g : guard) (gs : list (guard * errkind)) : bool :=
  existsb (fun p => guard_eqb (fst p) g) gs.
(** every check that a well-formed directory can trip raises CollisionLoadError *)
Definition guard_kind_ok (p : guard * errkind) : bool :=
  match fst p with GUnknownBasis => true | _ => is_cle (snd p) end.
Definition is_file (w : whichbasis) : bool := match w with FileBasis => true | _ => false end.
Definition is_req (w : whichbasis) : bool := match w with RequestedBasis => true | _ => false end.

(** loadCollisions: the attribute is written only by the load itself, and a failing load
    reaches the caller as the same error *)
Definition prog_ok : bool :=
  match c_prog_pre c, c_prog_try c with
  | [], [SLoadStore] => true
  | _, _ => false
  end.
Fixpoint handlers_ok (hs : list (errkind * hact)) : bool :=
  match hs with
  | [] => true
  | (_, HReraise) :: hs' => handlers_ok hs'
  | _ => false
  end.

(** loadCollisions touches the attribute only through the load, errors pass unchanged *)
Definition prog_good : bool := prog_ok && handlers_ok (c_handlers c).

(** the data path: pairs/keys/stores line up, all files are forced to agree, polynomials are
    labelled with the basis their numbers are in, the result is converted to the request *)
Definition data_good : bool :=
  c_key_order c && c_store_order c &&
  forallb (fun p => match fst p with GSizeMismatch | GBasisMismatch => false | _ => true end)
          (c_guards_every c) &&
  has_guard GOversized (c_guards_every c) &&
  has_guard GDatasetShape (c_guards_every c) &&
  has_guard GSizeMismatch (c_guards_later c) && has_guard GBasisMismatch (c_guards_later c) &&
  is_file (c_direct_label c) && is_file (c_interp_label c) &&
  match c_interp_size c with FileSize => true | _ => false end &&
  is_req (c_final_basis c) &&
  basis_eqb (c_interp_via c) Chebyshev && c_interp_back c.

(** every fault of the property's quantifier is reported as CollisionLoadError *)
Definition kinds_good : bool :=
  is_cle (c_kind_missing c) && is_cle (c_kind_unreadable c) &&
  forallb guard_kind_ok (c_guards_every c) && forallb guard_kind_ok (c_guards_later c) &&
  is_cle (c_kind_nointerp c).

Definition cfg_good : bool := prog_good && data_good && kinds_good.

End WithCfg.

(** ** Theorems for every good cfg *)
Section ProgTheorems.
Variable c : cfg.
Hypothesis good : prog_good c = true.

Lemma g_prog : prog_ok c = true.
Proof. pose proof good as G. unfold prog_good in G. apply andb_true_iff in G. tauto. Qed.
Lemma g_handlers : handlers_ok (c_handlers c) = true.
Proof. pose proof good as G. unfold prog_good in G. apply andb_true_iff in G. tauto. Qed.

(** *** loadCollisions installs exactly on success and reports the load's own error *)
Lemma handler_reraise hs k : handlers_ok hs = true -> handler hs k = Err k.
Proof.
  induction hs as [|[k' h] hs IH]; cbn; [reflexivity|].
  destruct h; try discriminate. intros H. destruct (errkind_eqb k k'); auto.
Qed.

Theorem loadCollisions_spec s dir N req parts :
  loadCollisions c s dir N req parts =
  match newFromDirectory c dir N req parts true with
  | Ok a => (Some a, Ok tt)
  | Err k => (s, Err k)
  end.
Proof.
  pose proof g_prog as Hp. pose proof g_handlers as Hh.
  unfold loadCollisions. unfold prog_ok in Hp.
  destruct (c_prog_pre c); [|discriminate].
  destruct (c_prog_try c) as [|[|] [|? ?]]; try discriminate.
  cbn. destruct (newFromDirectory c dir N req parts true); [reflexivity|].
  rewrite handler_reraise by assumption. reflexivity.
Qed.

Theorem load_atomic s dir N req parts k :
  snd (loadCollisions c s dir N req parts) = Err k ->
  fst (loadCollisions c s dir N req parts) = s /\
  newFromDirectory c dir N req parts true = Err k.
Proof.
  rewrite loadCollisions_spec.
  destruct (newFromDirectory c dir N req parts true); cbn; [discriminate|].
  intros H; injection H as ->. split; reflexivity.
Qed.

Theorem load_sequences N req ops : forall parts s,
  run c N req ops parts s = run_spec c N req ops parts s.
Proof.
  induction ops as [|[ps|dir] ops IH]; intros parts s; cbn [run run_spec]; [reflexivity|apply IH|].
  rewrite loadCollisions_spec.
  destruct (newFromDirectory c dir N req parts true); rewrite IH; reflexivity.
Qed.

End ProgTheorems.

Section DataTheorems.
Variable c : cfg.
Hypothesis good : data_good c = true.

Ltac split_good :=
  let H := fresh "G" in
  pose proof good as H; unfold data_good in H;
  repeat (apply andb_true_iff in H; let H' := fresh "G" in destruct H as [H H']).

Lemma g_key : c_key_order c = true. Proof. split_good; assumption. Qed.
Lemma g_store : c_store_order c = true. Proof. split_good; assumption. Qed.
Lemma g_over : has_guard GOversized (c_guards_every c) = true. Proof. split_good; assumption. Qed.
Lemma g_shape : has_guard GDatasetShape (c_guards_every c) = true. Proof. split_good; assumption. Qed.
Lemma g_size : has_guard GSizeMismatch (c_guards_later c) = true. Proof. split_good; assumption. Qed.
Lemma g_basis : has_guard GBasisMismatch (c_guards_later c) = true. Proof. split_good; assumption. Qed.
Lemma g_direct : c_direct_label c = FileBasis.
Proof. split_good. destruct (c_direct_label c); try discriminate; reflexivity. Qed.
Lemma g_interp : c_interp_label c = FileBasis.
Proof. split_good. destruct (c_interp_label c); try discriminate; reflexivity. Qed.
Lemma g_isize : c_interp_size c = FileSize.
Proof. split_good. destruct (c_interp_size c); try discriminate; reflexivity. Qed.
Lemma g_final : c_final_basis c = RequestedBasis.
Proof. split_good. destruct (c_final_basis c); try discriminate; reflexivity. Qed.
Lemma g_via : c_interp_via c = Chebyshev.
Proof. split_good. apply basis_eqb_eq. assumption. Qed.
Lemma g_back : c_interp_back c = true. Proof. split_good; assumption. Qed.

(** *** the loop *)
Definition hd_ok (N : nat) (f : file) (hd : nat * basis) : Prop :=
  f_size f = fst hd /\ f_basis f = snd hd.

Lemma first_fail_none gs N f hd g :
  first_fail gs N f hd = None -> has_guard g gs = true -> guard_fails g N f hd = false.
Proof.
  induction gs as [|[g' k] gs IH]; cbn; [discriminate|].
  destruct (guard_fails g' N f hd) eqn:E; [discriminate|].
  intros H Hg. apply orb_true_iff in Hg. destruct Hg as [Hg|Hg]; [|auto].
  destruct g, g'; try discriminate; exact E.
Qed.

Lemma first_fail_kind gs N f hd k :
  forallb guard_kind_ok gs = true -> known (f_basis f) = true ->
  first_fail gs N f hd = Some k -> k = CollisionLoadError.
Proof.
  induction gs as [|[g' k'] gs IH]; cbn; [discriminate|].
  intros H Hk. apply andb_true_iff in H. destruct H as [H1 H2].
  destruct (guard_fails g' N f hd) eqn:E; [|auto].
  intros Hs; injection Hs as <-. unfold guard_kind_ok in H1; cbn in H1.
  destruct g'; try (apply errkind_eqb_eq; exact H1).
  cbn in E. destruct hd; rewrite Hk in E; discriminate.
Qed.

(** invariant of the loop: processed pairs hold their file's block, every file agrees
    with the header, untouched positions are unchanged *)
(** the only demand on a directory: the files that CAN be opened carry a recognised
    "Basis Type" (an unreadable file has no metadata to speak of) *)
Definition wf_dir (dir : directory) (parts : list nat) : Prop :=
  forall i j f, dir i j = Some f -> f_shape f <> FileUnreadable -> known (f_basis f) = true.

Record inv (dir : directory) (N : nat) (parts : list nat) (done : list (nat * nat))
       (st : lstate) : Prop := {
  inv_hd : done <> [] -> exists hd, fst st = Some hd;
  inv_blocks : forall p, In p done -> exists f hd,
      dir (nth (fst p) parts 0) (nth (snd p) parts 0) = Some f /\ fst st = Some hd /\
      hd_ok N f hd /\ N <= f_size f /\
      snd st (fst p) (snd p) = Some (mkblock (f_data f) (f_size f) (f_basis f) true);
  inv_other : forall i j, ~ In (i, j) done -> snd st i j = None;
  inv_shape : forall p f, In p done ->
      dir (nth (fst p) parts 0) (nth (snd p) parts 0) = Some f -> f_shape f = ShapeOk
}.

Lemma step_inv dir N parts done st p st' :
  inv dir N parts done st -> ~ In p done ->
  step c dir N parts st p = Ok st' -> inv dir N parts (done ++ [p]) st'.
Proof.
  intros I Hp Hs. unfold step in Hs.
  rewrite g_key, g_store in Hs. cbn [swap_if] in Hs.
  destruct (dir (nth (fst p) parts 0) (nth (snd p) parts 0)) as [f|] eqn:Ef; [|discriminate].
  destruct (dshape_eqb (f_shape f) FileUnreadable); [discriminate|].
  destruct (first_fail (c_guards_every c) N f (fst st)) eqn:E1; [discriminate|].
  pose proof (first_fail_none _ _ _ _ GOversized E1 g_over) as Hov. cbn in Hov.
  apply Nat.ltb_ge in Hov.
  pose proof (first_fail_none _ _ _ _ GDatasetShape E1 g_shape) as Hsh. cbn in Hsh.
  apply negb_false_iff in Hsh. apply dshape_eqb_eq in Hsh. rewrite Hsh in Hs.
  assert (Hupd : forall m b i j, (i, j) <> p ->
            upd m (fst p) (snd p) b i j = m i j).
  { intros m b i j Hne. unfold upd.
    destruct (i =? fst p) eqn:Ei; destruct (j =? snd p) eqn:Ej; cbn; try reflexivity.
    apply Nat.eqb_eq in Ei, Ej. exfalso; apply Hne. destruct p; cbn in *; subst; reflexivity. }
  assert (Hself : forall m b, upd m (fst p) (snd p) b (fst p) (snd p) = Some b).
  { intros m b. unfold upd. rewrite !Nat.eqb_refl. reflexivity. }
  destruct (fst st) as [hd|] eqn:Eh.
  - destruct (first_fail (c_guards_later c) N f (Some hd)) eqn:E2; [discriminate|].
    injection Hs as <-.
    pose proof (first_fail_none _ _ _ _ GSizeMismatch E2 g_size) as Hsz.
    pose proof (first_fail_none _ _ _ _ GBasisMismatch E2 g_basis) as Hbt.
    destruct hd as [sz bt]. cbn in Hsz, Hbt.
    apply negb_false_iff in Hsz, Hbt. apply Nat.eqb_eq in Hsz. apply basis_eqb_eq in Hbt.
    constructor; cbn [fst snd].
    + intros _. eauto.
    + intros q Hq. apply in_app_or in Hq. destruct Hq as [Hq|[<-|[]]].
      * destruct (inv_blocks _ _ _ _ _ I q Hq) as (f' & hd' & A & B & C & D & E).
        exists f', hd'. rewrite Eh in B. repeat split; auto; try apply C.
        rewrite Hupd; [exact E|]. intros Heq. apply Hp. destruct q; cbn in Heq. rewrite <- Heq. exact Hq.
      * exists f, (sz, bt). repeat split; auto.
    + intros i j Hn. rewrite Hupd.
      * apply (inv_other _ _ _ _ _ I). intros Hin. apply Hn. apply in_or_app; left; exact Hin.
      * intros Heq. apply Hn. apply in_or_app; right; left; symmetry; exact Heq.
    + intros q f' Hq Hf'. apply in_app_or in Hq. destruct Hq as [Hq|[<-|[]]].
      * eapply (inv_shape _ _ _ _ _ I); eauto.
      * rewrite Ef in Hf'. injection Hf' as <-. exact Hsh.
  - injection Hs as <-.
    assert (Hd : done = []).
    { destruct done as [|q done']; [reflexivity|].
      destruct (inv_hd _ _ _ _ _ I) as [hd Hhd]; [discriminate|]. rewrite Eh in Hhd. discriminate. }
    subst done. constructor; cbn [fst snd app].
    + intros _. eauto.
    + intros q [<-|[]]. exists f, (f_size f, f_basis f). repeat split; auto.
    + intros i j Hn. rewrite Hupd.
      * apply (inv_other _ _ _ _ _ I). intros [].
      * intros Heq. apply Hn. left; symmetry; exact Heq.
    + intros q f' [<-|[]] Hf'. rewrite Ef in Hf'. injection Hf' as <-. exact Hsh.
Qed.

Lemma loop_inv dir N parts : forall ps done st st',
  inv dir N parts done st -> NoDup (done ++ ps) ->
  loop c dir N parts ps st = Ok st' -> inv dir N parts (done ++ ps) st'.
Proof.
  induction ps as [|p ps IH]; intros done st st' I Hnd Hl; cbn [loop] in Hl.
  - injection Hl as <-. rewrite app_nil_r. exact I.
  - destruct (step c dir N parts st p) as [st1|] eqn:Es; [|discriminate].
    replace (done ++ p :: ps) with ((done ++ [p]) ++ ps) in * by (rewrite <- app_assoc; reflexivity).
    apply IH with (st := st1); auto.
    eapply step_inv; eauto.
    rewrite <- app_assoc in Hnd. cbn in Hnd. apply NoDup_remove_2 in Hnd.
    intros Hin. apply Hnd. apply in_or_app; left; exact Hin.
Qed.

Lemma NoDup_app_intro {X} (l l' : list X) :
  NoDup l -> NoDup l' -> (forall x, In x l -> ~ In x l') -> NoDup (l ++ l').
Proof.
  induction l as [|x l IH]; intros Hl Hl' Hd; cbn; [exact Hl'|].
  inversion Hl; subst. constructor.
  - intros Hin. apply in_app_or in Hin. destruct Hin as [Hin|Hin]; [tauto|].
    apply (Hd x); [left; reflexivity|exact Hin].
  - apply IH; auto. intros y Hy. apply Hd. right; exact Hy.
Qed.

Lemma NoDup_list_prod (l l' : list nat) : NoDup l -> NoDup l' -> NoDup (list_prod l l').
Proof.
  induction l as [|x l IH]; intros Hl Hl'; cbn [list_prod]; [constructor|].
  inversion Hl; subst. apply NoDup_app_intro.
  - apply FinFun.Injective_map_NoDup; [|exact Hl']. intros a b E; congruence.
  - apply IH; assumption.
  - intros [a b] Hin Hin2. apply in_map_iff in Hin. destruct Hin as (y & E & _).
    injection E as <- <-. apply in_prod_iff in Hin2. tauto.
Qed.

Lemma pairs_nodup P : NoDup (pairs c P).
Proof.
  assert (H : NoDup (list_prod (seq 0 P) (seq 0 P)))
    by (apply NoDup_list_prod; apply seq_NoDup).
  unfold pairs. destruct (c_row_major c); [exact H|].
  apply FinFun.Injective_map_NoDup; [|exact H].
  intros [a b] [a' b'] E; cbn in E; congruence.
Qed.

Lemma pairs_complete P i j : i < P -> j < P -> In (i, j) (pairs c P).
Proof.
  intros Hi Hj. unfold pairs. destruct (c_row_major c).
  - apply in_prod_iff. split; apply in_seq; lia.
  - apply in_map_iff. exists (j, i). split; [reflexivity|].
    apply in_prod_iff. split; apply in_seq; lia.
Qed.

Lemma pairs_sound P i j : In (i, j) (pairs c P) -> i < P /\ j < P.
Proof.
  unfold pairs. destruct (c_row_major c); intros H.
  - apply in_prod_iff in H. destruct H as [H1 H2]. apply in_seq in H1, H2. lia.
  - apply in_map_iff in H. destruct H as ([a b] & E & H). cbn in E. injection E as <- <-.
    apply in_prod_iff in H. destruct H as [H1 H2]. apply in_seq in H1, H2. lia.
Qed.

(** *** what a successful load holds *)
Definition uniform (dir : directory) (parts : list nat) (sz : nat) (a : carray) : Prop :=
  forall i j, i < length parts -> j < length parts ->
    exists f, dir (nth i parts 0) (nth j parts 0) = Some f /\
              a_blocks a i j = Some (mkblock (f_data f) sz (a_label a) true).

Lemma changeBasis_uniform dir parts sz a new a' :
  uniform dir parts sz a -> changeBasis a new = Ok a' ->
  uniform dir parts sz a' /\ a_label a' = new /\ a_N a' = a_N a.
Proof.
  intros U H. unfold changeBasis in H.
  destruct (basis_eqb (a_label a) new) eqn:E.
  - injection H as <-. apply basis_eqb_eq in E. auto.
  - destruct (negb (known new)); [discriminate|]. injection H as <-. cbn.
    split; [|auto]. intros i j Hi Hj. destruct (U i j Hi Hj) as (f & Hf & Hb).
    exists f. split; [exact Hf|]. cbn. rewrite Hb. cbn.
    assert (Hr : basis_eqb (a_label a) (a_label a) = true) by (apply basis_eqb_eq; reflexivity).
    rewrite Hr. reflexivity.
Qed.

Lemma interpolate_uniform dir parts src N a' :
  uniform dir parts (a_N src) src -> interpolate c src N = Ok a' ->
  uniform dir parts N a' /\ a_label a' = a_label src /\ a_N a' = N.
Proof.
  intros U H. unfold interpolate in H. rewrite g_via, g_back in H.
  destruct (a_N src - 1 <? N); [discriminate|].
  destruct (changeBasis src Chebyshev) as [s1|] eqn:E1; [|discriminate].
  destruct (changeBasis_uniform _ _ _ _ _ _ U E1) as (U1 & L1 & N1).
  match type of H with changeBasis ?s2 _ = _ => set (S2 := s2) in * end.
  assert (U2 : uniform dir parts N S2).
  { intros i j Hi Hj. destruct (U1 i j Hi Hj) as (f & Hf & Hb). exists f. split; [exact Hf|].
    unfold S2; cbn. rewrite Hb. cbn. rewrite L1. cbn. rewrite Nat.eqb_refl. reflexivity. }
  destruct (changeBasis_uniform _ _ _ _ _ _ U2 H) as (U3 & L3 & N3).
  split; [exact U3|]. split; [exact L3|]. rewrite N3. reflexivity.
Qed.

Lemma inv_nil dir N parts : inv dir N parts [] (None, fun _ _ => None).
Proof. constructor; cbn; [congruence|intros p []|reflexivity|intros p f []]. Qed.

Theorem load_complete dir N req parts a :
  newFromDirectory c dir N req parts true = Ok a ->
  a_N a = N /\ a_label a = req /\
  forall i j, i < length parts -> j < length parts ->
    exists f, dir (nth i parts 0) (nth j parts 0) = Some f /\
              a_blocks a i j = Some (mkblock (f_data f) N req true).
Proof.
  unfold newFromDirectory.
  destruct (loop c dir N parts (pairs c (length parts)) (None, fun _ _ => None))
    as [[[[sz bt]|] blocks]|] eqn:El; try discriminate.
  pose proof (loop_inv dir N parts _ [] _ _ (inv_nil dir N parts) (pairs_nodup _) El) as I.
  cbn [app] in I.
  rewrite g_final, g_direct, g_interp, g_isize. cbn [resolve].
  assert (U0 : forall n0 : nat, uniform dir parts sz (mkcarray n0 bt blocks)).
  { intros n0 i j Hi Hj.
    destruct (inv_blocks _ _ _ _ _ I (i, j) (pairs_complete _ i j Hi Hj))
      as (f & hd & A & B & [C1 C2] & D & E). cbn in *. injection B as <-. cbn in *.
    exists f. split; [exact A|]. rewrite E. subst. reflexivity. }
  assert (Hfin : forall a0, uniform dir parts N a0 -> a_N a0 = N -> changeBasis a0 req = Ok a ->
            a_N a = N /\ a_label a = req /\
            forall i j, i < length parts -> j < length parts ->
              exists f, dir (nth i parts 0) (nth j parts 0) = Some f /\
                        a_blocks a i j = Some (mkblock (f_data f) N req true)).
  { intros a0 Ua Na Hc. destruct (changeBasis_uniform _ _ _ _ _ _ Ua Hc) as (U1 & L1 & N1).
    split; [congruence|]. split; [exact L1|]. intros i j Hi Hj.
    destruct (U1 i j Hi Hj) as (f & Hf & Hb). exists f. rewrite Hb, L1. auto. }
  destruct (sz =? N) eqn:Esz.
  - apply Nat.eqb_eq in Esz. subst sz. intros H. eapply Hfin; [apply (U0 N)|reflexivity|exact H].
  - cbn [negb]. rewrite Nat.eqb_refl. cbn [negb].
    destruct (interpolate c (mkcarray sz bt blocks) N) as [a1|] eqn:Ei; [|discriminate].
    intros H.
    destruct (interpolate_uniform dir parts _ N a1 (U0 sz) Ei) as (U1 & L1 & N1).
    eapply Hfin; eauto.
Qed.

(** *** error kinds *)
Hypothesis kgood : kinds_good c = true.
Ltac split_kgood :=
  let H := fresh "G" in
  pose proof kgood as H; unfold kinds_good in H;
  repeat (apply andb_true_iff in H; let H' := fresh "G" in destruct H as [H H']).
Lemma g_missing : c_kind_missing c = CollisionLoadError.
Proof. split_kgood. apply errkind_eqb_eq. assumption. Qed.
Lemma g_unreadable : c_kind_unreadable c = CollisionLoadError.
Proof. split_kgood. apply errkind_eqb_eq. assumption. Qed.
Lemma g_every_kind : forallb guard_kind_ok (c_guards_every c) = true.
Proof. split_kgood; assumption. Qed.
Lemma g_later_kind : forallb guard_kind_ok (c_guards_later c) = true.
Proof. split_kgood; assumption. Qed.
Lemma g_nointerp : c_kind_nointerp c = CollisionLoadError.
Proof. split_kgood. apply errkind_eqb_eq. assumption. Qed.

Lemma loop_err_kind dir N parts : wf_dir dir parts -> forall ps st k,
  loop c dir N parts ps st = Err k -> k = CollisionLoadError.
Proof.
  intros W. induction ps as [|p ps IH]; intros st k H; cbn [loop] in H; [discriminate|].
  destruct (step c dir N parts st p) as [st1|k1] eqn:Es; [eauto|].
  injection H as <-. unfold step in Es.
  destruct (dir _ _) as [f|] eqn:Ef; [|injection Es as <-; apply g_missing].
  destruct (dshape_eqb (f_shape f) FileUnreadable) eqn:Eu;
    [injection Es as <-; apply g_unreadable|].
  assert (Hk : known (f_basis f) = true).
  { apply (W _ _ _ Ef). intros E. rewrite E in Eu. discriminate. }
  destruct (first_fail (c_guards_every c) N f (fst st)) eqn:E1.
  - injection Es as <-. eapply first_fail_kind; eauto. apply g_every_kind.
  - pose proof (first_fail_none _ _ _ _ GDatasetShape E1 g_shape) as Hsh. cbn in Hsh.
    apply negb_false_iff in Hsh. apply dshape_eqb_eq in Hsh. rewrite Hsh in Es.
    destruct (fst st); [|discriminate].
    destruct (first_fail (c_guards_later c) N f (Some p0)) eqn:E2; [|discriminate].
    injection Es as <-. eapply first_fail_kind; eauto. apply g_later_kind.
Qed.

Lemma changeBasis_err a new k : changeBasis a new = Err k -> known new = false.
Proof.
  unfold changeBasis. destruct (basis_eqb (a_label a) new); [discriminate|].
  destruct (known new); [discriminate|reflexivity].
Qed.

Theorem load_error_kind dir N req parts k :
  wf_dir dir parts -> known req = true -> parts <> [] ->
  newFromDirectory c dir N req parts true = Err k -> k = CollisionLoadError.
Proof.
  intros W Kr Hne. unfold newFromDirectory.
  destruct (loop c dir N parts (pairs c (length parts)) (None, fun _ _ => None))
    as [[[[sz bt]|] blocks]|k0] eqn:El.
  - pose proof (loop_inv dir N parts _ [] _ _ (inv_nil dir N parts) (pairs_nodup _) El) as I.
    cbn [app] in I.
    assert (H0 : 0 < length parts) by (destruct parts; [congruence|cbn; lia]).
    destruct (inv_blocks _ _ _ _ _ I (0, 0) (pairs_complete _ 0 0 H0 H0))
      as (f & hd & A & B & [C1 C2] & D & E). cbn in B. injection B as <-. cbn in C1, C2.
    assert (Kf : known (f_basis f) = true).
    { apply (W _ _ _ A). rewrite (inv_shape _ _ _ _ _ I (0, 0) f (pairs_complete _ 0 0 H0 H0) A).
      discriminate. }
    rewrite C2 in Kf.
    rewrite g_final, g_direct, g_interp, g_isize. cbn [resolve].
    destruct (sz =? N) eqn:Esz.
    + intros H. apply changeBasis_err in H. congruence.
    + cbn [negb]. rewrite Nat.eqb_refl. cbn [negb].
      apply Nat.eqb_neq in Esz.
      destruct (interpolate c (mkcarray sz bt blocks) N) as [a1|k1] eqn:Ei.
      * intros H. apply changeBasis_err in H. congruence.
      * intros H; injection H as <-. exfalso. unfold interpolate in Ei.
        rewrite g_via, g_back in Ei. cbn [a_N a_label] in Ei.
        destruct (sz - 1 <? N) eqn:E3; [apply Nat.ltb_lt in E3; lia|].
        destruct (changeBasis (mkcarray sz bt blocks) Chebyshev) eqn:E4;
          [|apply changeBasis_err in E4; discriminate].
        apply changeBasis_err in Ei. congruence.
  - exfalso.
    pose proof (loop_inv dir N parts _ [] _ _ (inv_nil dir N parts) (pairs_nodup _) El) as I.
    cbn [app] in I. destruct (inv_hd _ _ _ _ _ I) as [hd Hhd]; [|discriminate].
    assert (H0 : 0 < length parts) by (destruct parts; [congruence|cbn; lia]).
    intros E. pose proof (pairs_complete (length parts) 0 0 H0 H0) as Hin. rewrite E in Hin. exact Hin.
  - intros H; injection H as <-. eapply loop_err_kind; eauto.
Qed.

(** *** a fault-free directory loads (so errors come only from the stated faults) *)
Lemma first_fail_clean gs N f hd :
  N <= f_size f -> known (f_basis f) = true -> f_shape f = ShapeOk ->
  (forall sz bt, hd = Some (sz, bt) -> f_size f = sz /\ f_basis f = bt) ->
  first_fail gs N f hd = None.
Proof.
  intros Hn Hk Hs Hh. induction gs as [|[g k] gs IH]; cbn; [reflexivity|].
  replace (guard_fails g N f hd) with false; [exact IH|]. symmetry.
  destruct g; cbn.
  - apply Nat.ltb_ge; exact Hn.
  - rewrite Hk; reflexivity.
  - destruct hd as [[sz bt]|]; [|reflexivity]. destruct (Hh sz bt eq_refl) as [-> _].
    rewrite Nat.eqb_refl; reflexivity.
  - destruct hd as [[sz bt]|]; [|reflexivity]. destruct (Hh sz bt eq_refl) as [_ ->].
    replace (basis_eqb bt bt) with true; [reflexivity|]. symmetry; apply basis_eqb_eq; reflexivity.
  - rewrite Hs; destruct hd; reflexivity.
  - rewrite Hs; destruct hd; reflexivity.
Qed.

Definition fault_free (dir : directory) (N : nat) (parts : list nat) : Prop :=
  exists sz bt, N <= sz /\ known bt = true /\
    forall i j, i < length parts -> j < length parts ->
      exists f, dir (nth i parts 0) (nth j parts 0) = Some f /\ f_size f = sz /\ f_basis f = bt /\
                f_shape f = ShapeOk.

Lemma loop_clean dir N parts sz bt :
  N <= sz -> known bt = true ->
  forall ps st,
  (forall p, In p ps -> exists f, dir (nth (fst p) parts 0) (nth (snd p) parts 0) = Some f /\
                                  f_size f = sz /\ f_basis f = bt /\ f_shape f = ShapeOk) ->
  (forall hd, fst st = Some hd -> hd = (sz, bt)) ->
  exists st', loop c dir N parts ps st = Ok st'.
Proof.
  intros Hn Hk. induction ps as [|p ps IH]; intros st Hf Hh; cbn [loop]; [eauto|].
  destruct (Hf p (or_introl eq_refl)) as (f & Ef & Es & Eb & Esh).
  unfold step. rewrite g_key, g_store. cbn [swap_if]. rewrite Ef, Esh. cbn [dshape_eqb].
  assert (Hc : forall hd, (forall h, hd = Some h -> h = (sz, bt)) ->
               forall gs, first_fail gs N f hd = None).
  { intros hd Hhd gs. apply first_fail_clean; [lia|congruence|exact Esh|].
    intros sz' bt' E. specialize (Hhd _ E). injection Hhd as -> ->. auto. }
  rewrite Hc by (intros h E; apply Hh; exact E).
  destruct (fst st) as [hd|] eqn:Eh.
  - rewrite Hc by (intros h E; injection E as <-; apply Hh; reflexivity).
    apply IH; [intros q Hq; apply Hf; right; exact Hq|]. cbn. intros h E; injection E as <-.
    apply Hh; reflexivity.
  - apply IH; [intros q Hq; apply Hf; right; exact Hq|]. cbn. intros h E; injection E as <-.
    congruence.
Qed.

Theorem load_succeeds_iff dir N req parts :
  known req = true -> parts <> [] -> wf_dir dir parts ->
  ((exists a, newFromDirectory c dir N req parts true = Ok a) <-> fault_free dir N parts).
Proof.
  intros Kr Hne W. split.
  - intros [a H]. unfold newFromDirectory in H.
    destruct (loop c dir N parts (pairs c (length parts)) (None, fun _ _ => None))
      as [[[[sz bt]|] blocks]|k0] eqn:El; try discriminate.
    pose proof (loop_inv dir N parts _ [] _ _ (inv_nil dir N parts) (pairs_nodup _) El) as I.
    cbn [app] in I.
    assert (H0 : 0 < length parts) by (destruct parts; [congruence|cbn; lia]).
    exists sz, bt.
    destruct (inv_blocks _ _ _ _ _ I (0, 0) (pairs_complete _ 0 0 H0 H0))
      as (f & hd & A & B & [C1 C2] & D & E). cbn in B. injection B as <-. cbn in C1, C2.
    split; [lia|]. split.
    { rewrite <- C2. apply (W _ _ _ A).
      rewrite (inv_shape _ _ _ _ _ I (0, 0) f (pairs_complete _ 0 0 H0 H0) A). discriminate. }
    intros i j Hi Hj.
    destruct (inv_blocks _ _ _ _ _ I (i, j) (pairs_complete _ i j Hi Hj))
      as (f' & hd' & A' & B' & [C1' C2'] & _). cbn in B'. injection B' as <-.
    pose proof (inv_shape _ _ _ _ _ I (i, j) f' (pairs_complete _ i j Hi Hj) A') as Sh'.
    cbn in *. exists f'. auto.
  - intros (sz & bt & Hn & Kb & Hall).
    destruct (loop_clean dir N parts sz bt Hn Kb (pairs c (length parts)) (None, fun _ _ => None))
      as [st' El].
    { intros [i j] Hin. apply pairs_sound in Hin. destruct Hin. cbn. apply Hall; assumption. }
    { cbn. congruence. }
    destruct (newFromDirectory c dir N req parts true) as [a|k] eqn:E; [eauto|].
    exfalso. pose proof (load_error_kind _ _ _ _ _ W Kr Hne E) as ->.
    (* an Err would have to come from the loop, the branch test or a basis change *)
    unfold newFromDirectory in E. rewrite El in E.
    pose proof (loop_inv dir N parts _ [] _ _ (inv_nil dir N parts) (pairs_nodup _) El) as I.
    cbn [app] in I.
    assert (H0 : 0 < length parts) by (destruct parts; [congruence|cbn; lia]).
    destruct (inv_blocks _ _ _ _ _ I (0, 0) (pairs_complete _ 0 0 H0 H0))
      as (f & hd & A & B & [C1 C2] & D & E5).
    destruct st' as [[[sz' bt']|] blocks]; cbn in B; [|discriminate]. injection B as <-.
    cbn in C1, C2. cbn [fst snd] in A. destruct (Hall 0 0 H0 H0) as (f0 & A0 & S0 & B0 & Sh0). rewrite A in A0.
    injection A0 as <-. subst sz' bt'. rewrite S0, B0 in *.
    rewrite g_final, g_direct, g_interp, g_isize in E. cbn [resolve] in E.
    destruct (sz =? N) eqn:Esz.
    + apply changeBasis_err in E. congruence.
    + cbn [negb] in E. rewrite Nat.eqb_refl in E. cbn [negb] in E. apply Nat.eqb_neq in Esz.
      destruct (interpolate c (mkcarray sz bt blocks) N) as [a1|k1] eqn:Ei.
      * apply changeBasis_err in E. congruence.
      * unfold interpolate in Ei. rewrite g_via, g_back in Ei. cbn [a_N a_label] in Ei.
        destruct (sz - 1 <? N) eqn:E3; [apply Nat.ltb_lt in E3; lia|].
        destruct (changeBasis (mkcarray sz bt blocks) Chebyshev) eqn:E4;
          [|apply changeBasis_err in E4; discriminate].
        apply changeBasis_err in Ei. congruence.
Qed.

End DataTheorems.

(** ** The two in-package call sites *)

(** *** EOM.getBoltzmannFiniteDifference: the only caller of CollisionArray.changeBasis on a
    live array.  The method binds a second solver object from self.boltzmannSolver, rebinds
    attributes on it, converts ITS collision array in place and calls getDeltas on it.
    A CollisionArray is a mutable object: changeBasis rewrites the object it is called on, so
    what the spectral solver sees afterwards depends on whether the two solvers share it. *)
Inductive copykind := CDeep | CShallow | CAlias.
Inductive fdstmt :=
  | FBind (k : copykind)        (* X = copy.deepcopy(self.boltzmannSolver) / copy.copy / alias *)
  | FSetField                   (* X.<other attribute> = ... *)
  | FSetBasisN (b : basis)      (* X.basisN = b *)
  | FChangeBasis (b : basis)    (* X.collisionArray.changeBasis(b) *)
  | FGetDeltas.                 (* X.getDeltas(): uses X.collisionArray as if in basis X.basisN *)

Record fdstate := mkfd {
  fd_orig : carray;  fd_orig_basisN : basis;          (* the spectral solver *)
  fd_copy : carray;  fd_copy_basisN : basis;          (* the finite-difference solver *)
  fd_share_array : bool; fd_share_solver : bool;
  fd_used : list (basis * basis)                      (* (basisN, array label) at each getDeltas *)
}.

Definition fd_step (s : fdstate) (st : fdstmt) : outcome fdstate :=
  match st with
  | FBind k =>
    Ok (mkfd (fd_orig s) (fd_orig_basisN s) (fd_orig s) (fd_orig_basisN s)
             (match k with CDeep => false | _ => true end)
             (match k with CAlias => true | _ => false end) (fd_used s))
  | FSetField => Ok s
  | FSetBasisN b =>
    Ok (mkfd (fd_orig s) (if fd_share_solver s then b else fd_orig_basisN s)
             (fd_copy s) b (fd_share_array s) (fd_share_solver s) (fd_used s))
  | FChangeBasis b =>
    match changeBasis (fd_copy s) b with
    | Err k => Err k
    | Ok a => Ok (mkfd (if fd_share_array s then a else fd_orig s) (fd_orig_basisN s)
                       a (fd_copy_basisN s) (fd_share_array s) (fd_share_solver s) (fd_used s))
    end
  | FGetDeltas =>
    Ok (mkfd (fd_orig s) (fd_orig_basisN s) (fd_copy s) (fd_copy_basisN s)
             (fd_share_array s) (fd_share_solver s)
             (fd_used s ++ [(fd_copy_basisN s, a_label (fd_copy s))]))
  end.

Fixpoint fd_run (prog : list fdstmt) (s : fdstate) : outcome fdstate :=
  match prog with
  | [] => Ok s
  | st :: prog' => match fd_step s st with Ok s' => fd_run prog' s' | Err k => Err k end
  end.

Definition fd_init (a : carray) (bN : basis) : fdstate := mkfd a bN a bN true true [].

(** label bookkeeping alone (labels evolve independently of the numbers) *)
Fixpoint fd_labels (prog : list fdstmt) (bN lab : basis) : list (basis * basis) :=
  match prog with
  | [] => []
  | FBind _ :: p | FSetField :: p => fd_labels p bN lab
  | FSetBasisN b :: p => fd_labels p b lab
  | FChangeBasis b :: p => fd_labels p bN b
  | FGetDeltas :: p => (bN, lab) :: fd_labels p bN lab
  end.

Definition all_bases := [Cardinal; Chebyshev].
(** decidable goodness: the first statement deep-copies the solver, nothing rebinds it
    later, and whatever the incoming basis, every getDeltas sees basisN = array label *)
Definition fd_good (prog : list fdstmt) : bool :=
  match prog with
  | FBind CDeep :: rest =>
    forallb (fun st => match st with FBind _ => false | _ => true end) rest &&
    forallb (fun b0 => forallb (fun pr => basis_eqb (fst pr) (snd pr)) (fd_labels rest b0 b0))
            all_bases &&
    negb (Nat.eqb (length (fd_labels rest Cardinal Cardinal)) 0)
  | _ => false
  end.

Lemma changeBasis_label a b a' : changeBasis a b = Ok a' -> a_label a' = b.
Proof.
  unfold changeBasis. destruct (basis_eqb (a_label a) b) eqn:E.
  - intros H; injection H as <-. apply basis_eqb_eq; exact E.
  - destruct (negb (known b)); [discriminate|]. intros H; injection H as <-. reflexivity.
Qed.

Lemma fd_run_unshared rest : forall s s',
  forallb (fun st => match st with FBind _ => false | _ => true end) rest = true ->
  fd_share_array s = false -> fd_share_solver s = false ->
  fd_run rest s = Ok s' ->
  fd_orig s' = fd_orig s /\ fd_orig_basisN s' = fd_orig_basisN s /\
  fd_used s' = fd_used s ++ fd_labels rest (fd_copy_basisN s) (a_label (fd_copy s)).
Proof.
  induction rest as [|st rest IH]; intros s s' Hnb Ha Hs Hr; cbn [fd_run] in Hr.
  - injection Hr as <-. cbn. rewrite app_nil_r. auto.
  - cbn [forallb] in Hnb. apply andb_true_iff in Hnb. destruct Hnb as [Hst Hnb].
    destruct (fd_step s st) as [s1|] eqn:E1; [|discriminate].
    destruct st; try discriminate; cbn [fd_step] in E1.
    + injection E1 as <-. exact (IH _ _ Hnb Ha Hs Hr).
    + injection E1 as <-.
      pose proof (fun A B => IH _ _ Hnb A B Hr) as IH'. cbn in IH'.
      destruct (IH' Ha Hs) as (A & B & C). rewrite Hs in B. auto.
    + destruct (changeBasis (fd_copy s) b) as [a|] eqn:Ec; [|discriminate].
      injection E1 as <-.
      pose proof (fun A B => IH _ _ Hnb A B Hr) as IH'. cbn in IH'.
      destruct (IH' Ha Hs) as (A & B & C).
      rewrite Ha in A. rewrite (changeBasis_label _ _ _ Ec) in C. auto.
    + injection E1 as <-.
      pose proof (fun A B => IH _ _ Hnb A B Hr) as IH'. cbn in IH'.
      destruct (IH' Ha Hs) as (A & B & C). rewrite C, <- app_assoc. auto.
Qed.

(** the finite-difference estimate leaves the spectral solver's array (numbers AND label) and
    its basisN untouched, and the finite-difference solver only ever applies an array whose
    label is its own basisN *)
Theorem fd_isolated prog : fd_good prog = true -> forall a bN s',
  a_label a = bN -> known bN = true ->
  fd_run prog (fd_init a bN) = Ok s' ->
  fd_orig s' = a /\ fd_orig_basisN s' = bN /\
  fd_used s' <> [] /\ forall pr, In pr (fd_used s') -> fst pr = snd pr.
Proof.
  intros G a bN s' Hl Hk Hr. unfold fd_good in G.
  destruct prog as [|[[| |]| | | |] rest]; try discriminate.
  apply andb_true_iff in G. destruct G as [G G3]. apply andb_true_iff in G. destruct G as [G1 G2].
  cbn [fd_run fd_step fd_init] in Hr.
  pose proof (fun X Y => fd_run_unshared rest _ s' G1 X Y Hr) as HU. cbn in HU.
  destruct (HU eq_refl eq_refl) as (A & B & C). split; [exact A|]. split; [exact B|].
  rewrite C, Hl.
  assert (Hlen : forall b1 b2 b3 b4, length (fd_labels rest b1 b2) = length (fd_labels rest b3 b4)).
  { clear. induction rest as [|[]]; intros; cbn; auto. }
  split.
  - intros E. apply (f_equal (@length _)) in E. cbn in E.
    rewrite (Hlen bN bN Cardinal Cardinal) in E.
    apply negb_true_iff, Nat.eqb_neq in G3. lia.
  - unfold all_bases in G2. cbn [forallb] in G2.
    apply andb_true_iff in G2. destruct G2 as [Gc G2]. apply andb_true_iff in G2.
    destruct G2 as [Gh _].
    intros pr Hin. destruct bN.
    + rewrite forallb_forall in Gc. apply basis_eqb_eq. apply Gc. exact Hin.
    + rewrite forallb_forall in Gh. apply basis_eqb_eq. apply Gh. exact Hin.
    + discriminate Hk.
Qed.

(** *** WallGoManager.setupWallSolver: the only caller of loadCollisions.  [hs] are the
    handlers of every try statement enclosing the call (none in the shipped code); the load
    runs iff the setting bIncludeOffEquilibrium is on, and eom.includeOffEq is that setting
    (both required by the extractor). *)
Definition manager_setup (hs : list (errkind * hact)) (include : bool) (s : solver)
           (load : solver * outcome unit) : outcome (solver * bool) :=
  if include then
    match snd load with
    | Ok _ => Ok (fst load, true)
    | Err k => match handler hs k with
               | Err k' => Err k'
               | Ok _ => Ok (fst load, true)     (* swallowed: goes on without an array *)
               end
    end
  else Ok (s, false).

(** with off-equilibrium requested: a complete array, or the load's own error -- never a
    wall solver that silently runs without collisions *)
Theorem manager_propagates hs : handlers_ok hs = true -> forall s load,
  manager_setup hs true s load =
  match snd load with Ok _ => Ok (fst load, true) | Err k => Err k end.
Proof.
  intros H s load. unfold manager_setup. destruct (snd load); [reflexivity|].
  rewrite handler_reraise by exact H. reflexivity.
Qed.
