(** Decision logic of Hydrodynamics.findvwLTE (src/WallGo/hydrodynamics.py) as an executable
    model over exact rationals (every binary64 float is a rational, and float comparisons are
    exact, so the model decides exactly like the code on the values the code saw).

    HAND-WRITTEN model.  Ties to the source, checked on every run by tools/props/C05.py:
      * gen_hydro_shock.findvwlte_facts checks on the AST that findvwLTE consists of exactly
        the three decisions `shock(vmax) > 0`, `shockTnuclDiffMax > 0 or not self.success`,
        `shockTnuclDiffMin < 0` with returns 1, 1, 0, float(sol.root), and extracts the two
        literal offsets (vJ - epsJ, root - epsS), which are passed to the model;
      * the running findvwLTE is instrumented from outside (matchDeflagOrHyb,
        solveHydroShock, root_scalar as seen by the module) and the model, fed with the
        recorded oracle values, must return the same outcome (vm_compute).

    The numerics are ORACLES (record fields, never axioms):
      shock v      = v+ v - cs^2(T+) at the entropy-conserving matching for wall velocity v
      diff v       = (shockTnuclDiff v, Hydrodynamics.success after that call)
      rootShock    = root_scalar(shock, bracket=[a, b]).root, None when it raises ValueError
      rootDiff     = root_scalar(shockTnuclDiff, bracket=(a, b)).root *)
From Coq Require Import QArith Qabs Bool Lia.
Local Open Scope Q_scope.

Record oracles := mk_oracles {
  shock : Q -> Q;
  diff : Q -> Q * bool;
  rootShock : Q -> Q -> option Q;
  rootDiff : Q -> Q -> Q }.

Inductive outcome := Static | Runaway | Interior (v : Q).

(** what the Python function returns *)
Definition value (r : outcome) : Q :=
  match r with Static => 0 | Runaway => 1 | Interior v => v end.

Definition pos (x : Q) : bool := if Qlt_le_dec 0 x then true else false.
Definition neg (x : Q) : bool := if Qlt_le_dec x 0 then true else false.

(** largest wall velocity with the shock front ahead of the wall *)
Definition vmax_of (epsJ epsS : Q) (o : oracles) (vJ csTn : Q) : option Q :=
  if pos (shock o (vJ - epsJ)) then
    match rootShock o csTn vJ with Some r => Some (r - epsS) | None => None end
  else Some (vJ - epsJ).

Definition findvwLTE (epsJ epsS : Q) (o : oracles) (vMin vJ csTn : Q) : outcome :=
  match vmax_of epsJ epsS o vJ csTn with
  | None => Runaway
  | Some vmax =>
      if pos (fst (diff o vmax)) || negb (snd (diff o vmax)) then Runaway
      else if neg (fst (diff o vMin)) then Static
      else Interior (rootDiff o vMin vmax)
  end.

Lemma pos_true x : pos x = true <-> 0 < x.
Proof. unfold pos. destruct (Qlt_le_dec 0 x); split; intro; try discriminate; auto.
  exfalso. apply (Qlt_irrefl 0). eapply Qlt_le_trans; eassumption. Qed.
Lemma pos_false x : pos x = false <-> x <= 0.
Proof. unfold pos. destruct (Qlt_le_dec 0 x); split; intro; try discriminate; auto.
  exfalso. apply (Qlt_irrefl 0). eapply Qlt_le_trans; eassumption. Qed.
Lemma neg_true x : neg x = true <-> x < 0.
Proof. unfold neg. destruct (Qlt_le_dec x 0); split; intro; try discriminate; auto.
  exfalso. apply (Qlt_irrefl x). eapply Qlt_le_trans; eassumption. Qed.
Lemma neg_false x : neg x = false <-> 0 <= x.
Proof. unfold neg. destruct (Qlt_le_dec x 0); split; intro; try discriminate; auto.
  exfalso. apply (Qlt_irrefl x). eapply Qlt_le_trans; eassumption. Qed.

Section Decisions.
Variables epsJ epsS : Q.
Variable o : oracles.
Variables vMin vJ csTn : Q.
Notation run := (findvwLTE epsJ epsS o vMin vJ csTn).
Notation vmaxo := (vmax_of epsJ epsS o vJ csTn).

(** where the upper end of the bracket comes from *)
Lemma vmax_origin vmax : vmaxo = Some vmax ->
  (shock o (vJ - epsJ) <= 0 /\ vmax = vJ - epsJ) \/
  (0 < shock o (vJ - epsJ) /\ exists r, rootShock o csTn vJ = Some r /\ vmax = r - epsS).
Proof.
  unfold vmax_of. destruct (pos (shock o (vJ - epsJ))) eqn:E.
  - apply pos_true in E. destruct (rootShock o csTn vJ) as [r|]; [|discriminate].
    intro H; inversion H; subst. right. split; [assumption|]. exists r. split; reflexivity.
  - apply pos_false in E. intro H; inversion H; subst. left. split; [assumption|reflexivity].
Qed.

(** interior result: the mismatch changes sign between the two ends of the bracket, the
    matching at the upper end converged, and the result is the root finder's output on
    exactly that bracket *)
Lemma interior_sound v : run = Interior v ->
  exists vmax, vmaxo = Some vmax /\
    fst (diff o vmax) <= 0 /\ snd (diff o vmax) = true /\ 0 <= fst (diff o vMin) /\
    v = rootDiff o vMin vmax.
Proof.
  unfold findvwLTE. destruct vmaxo as [vmax|]; [|discriminate].
  destruct (pos (fst (diff o vmax))) eqn:E1; [discriminate|].
  destruct (snd (diff o vmax)) eqn:E2; [|discriminate]. cbn [negb orb].
  destruct (neg (fst (diff o vMin))) eqn:E3; [discriminate|].
  intro H; inversion H; subst. exists vmax. repeat split; try reflexivity; try assumption.
  - apply pos_false; assumption.
  - apply neg_false; assumption.
Qed.

(** static sentinel: the mismatch already has the stopping (negative) sign at vMin *)
Lemma static_sound : run = Static ->
  exists vmax, vmaxo = Some vmax /\
    fst (diff o vmax) <= 0 /\ snd (diff o vmax) = true /\ fst (diff o vMin) < 0.
Proof.
  unfold findvwLTE. destruct vmaxo as [vmax|]; [|discriminate].
  destruct (pos (fst (diff o vmax))) eqn:E1; [discriminate|].
  destruct (snd (diff o vmax)) eqn:E2; [|discriminate]. cbn [negb orb].
  destruct (neg (fst (diff o vMin))) eqn:E3; [|discriminate].
  intros _. exists vmax. repeat split; try reflexivity; try assumption.
  - apply pos_false; assumption.
  - apply neg_true; assumption.
Qed.

(** runaway sentinel: per code -- no shock bracket, or positive mismatch at the last velocity
    with a shock, or no converged matching there.  Only ONE end is tested. *)
Lemma runaway_sound : run = Runaway ->
  (0 < shock o (vJ - epsJ) /\ rootShock o csTn vJ = None) \/
  exists vmax, vmaxo = Some vmax /\ (0 < fst (diff o vmax) \/ snd (diff o vmax) = false).
Proof.
  unfold findvwLTE. destruct vmaxo as [vmax|] eqn:EV.
  - destruct (pos (fst (diff o vmax))) eqn:E1.
    + intros _. right. exists vmax. split; [reflexivity|]. left. apply pos_true; assumption.
    + destruct (snd (diff o vmax)) eqn:E2; cbn [negb orb].
      * destruct (neg (fst (diff o vMin))); discriminate.
      * intros _. right. exists vmax. split; [reflexivity|]. right. assumption.
  - intros _. left. unfold vmax_of in EV.
    destruct (pos (shock o (vJ - epsJ))) eqn:E; [|discriminate].
    apply pos_true in E. destruct (rootShock o csTn vJ); [discriminate|]. split; auto.
Qed.

(** completeness: the three outcomes are characterised (the converse implications) *)
Lemma static_complete vmax : vmaxo = Some vmax ->
  fst (diff o vmax) <= 0 -> snd (diff o vmax) = true -> fst (diff o vMin) < 0 -> run = Static.
Proof.
  intros EV H1 H2 H3. unfold findvwLTE. rewrite EV.
  apply pos_false in H1. apply neg_true in H3. rewrite H1, H2, H3. reflexivity.
Qed.

Lemma interior_complete vmax : vmaxo = Some vmax ->
  fst (diff o vmax) <= 0 -> snd (diff o vmax) = true -> 0 <= fst (diff o vMin) ->
  run = Interior (rootDiff o vMin vmax).
Proof.
  intros EV H1 H2 H3. unfold findvwLTE. rewrite EV.
  apply pos_false in H1. apply neg_false in H3. rewrite H1, H2, H3. reflexivity.
Qed.

(** the value returned to the caller strictly between the sentinels => interior *)
Lemma value_interior : 0 < value run < 1 -> exists v, run = Interior v /\ v == value run.
Proof.
  destruct run as [| |v]; cbn [value]; intros [H1 H2].
  - exfalso. apply (Qlt_irrefl 0); assumption.
  - exfalso. apply (Qlt_irrefl 1); assumption.
  - exists v. split; reflexivity.
Qed.

(** bracketing root finder (scipy brentq contract): given a sign change it answers inside
    the bracket.  Then an interior result lies in [vMin, vmax]. *)
Hypothesis rootDiff_in_bracket : forall a b,
  a <= b -> fst (diff o b) <= 0 -> 0 <= fst (diff o a) -> a <= rootDiff o a b <= b.

Lemma interior_in_window v : run = Interior v -> forall vmax, vmaxo = Some vmax ->
  vMin <= vmax -> vMin <= v <= vmax.
Proof.
  intros H vmax EV Hle. destruct (interior_sound v H) as (vm' & EV' & H1 & _ & H3 & ->).
  rewrite EV in EV'. inversion EV'; subst. apply rootDiff_in_bracket; assumption.
Qed.

(** whole-window sign: the code tests one end only.  If the mismatch is non-increasing in the
    wall velocity (physics: the docstring's "T+ gamma+ > T- gamma- for small velocities, <
    for large ones") the sign extends to the whole window. *)
Hypothesis diff_monotone : forall a b, a <= b -> fst (diff o b) <= fst (diff o a).

Lemma runaway_whole_window vmax : vmaxo = Some vmax -> 0 < fst (diff o vmax) ->
  forall v, v <= vmax -> 0 < fst (diff o v).
Proof. intros _ H v Hv. eapply Qlt_le_trans; [exact H|]. apply diff_monotone; assumption. Qed.

Lemma static_whole_window : run = Static -> forall v, vMin <= v -> fst (diff o v) < 0.
Proof.
  intros H v Hv. destruct (static_sound H) as (vmax & _ & _ & _ & H3).
  eapply Qle_lt_trans; [|exact H3]. apply diff_monotone; assumption.
Qed.
End Decisions.

(** SIGN BRIDGE.  The code decides on `diff` = (shock temperature of the ENTROPY-conserving
    matching) - Tn; the property speaks about the entropy mismatch `mism` of the matching that
    REACHES Tn.  Their signs agree (hypothesis, physics: both vanish exactly at the LTE
    velocity and neither changes sign elsewhere; validated by the harness on the scan grid).
    Under it the sentinel clauses read as the property states them. *)
Section Bridge.
Variables epsJ epsS : Q.
Variable o : oracles.
Variables vMin vJ csTn : Q.
Variable mism : Q -> Q.
Hypothesis bridge_pos : forall v, 0 < fst (diff o v) <-> 0 < mism v.
Hypothesis bridge_neg : forall v, fst (diff o v) < 0 <-> mism v < 0.

Lemma static_mismatch : findvwLTE epsJ epsS o vMin vJ csTn = Static -> mism vMin < 0.
Proof. intro H. destruct (static_sound _ _ _ _ _ _ H) as (vmax & _ & _ & _ & H3).
  apply bridge_neg. exact H3. Qed.

Lemma runaway_mismatch : findvwLTE epsJ epsS o vMin vJ csTn = Runaway ->
  (0 < shock o (vJ - epsJ) /\ rootShock o csTn vJ = None) \/
  exists vmax, vmax_of epsJ epsS o vJ csTn = Some vmax /\
    (0 < mism vmax \/ snd (diff o vmax) = false).
Proof.
  intro H. destruct (runaway_sound _ _ _ _ _ _ H) as [A|(vmax & E & [B|B])].
  - left. exact A.
  - right. exists vmax. split; [exact E|]. left. apply bridge_pos. exact B.
  - right. exists vmax. split; [exact E|]. right. exact B.
Qed.

Lemma interior_mismatch v : findvwLTE epsJ epsS o vMin vJ csTn = Interior v ->
  exists vmax, vmax_of epsJ epsS o vJ csTn = Some vmax /\
    ~ 0 < mism vmax /\ ~ mism vMin < 0 /\ v = rootDiff o vMin vmax.
Proof.
  intro H. destruct (interior_sound _ _ _ _ _ _ v H) as (vmax & E & H1 & _ & H3 & Hv).
  exists vmax. split; [exact E|]. repeat split.
  - intro A. apply bridge_pos in A. apply (Qlt_irrefl 0). eapply Qlt_le_trans; eassumption.
  - intro A. apply bridge_neg in A. apply (Qlt_irrefl 0). eapply Qle_lt_trans; eassumption.
  - exact Hv.
Qed.

(** Tn boundary: on a bracket with a sign change the root finder returns a point where the
    shooting function is small (scipy brentq contract; the harness measures tol on the
    recorded run) => at an interior result the shock temperature of the entropy-conserving
    matching differs from Tn by at most tol *)
Variable tol : Q.
Hypothesis rootDiff_small : forall a b, a <= b -> fst (diff o b) <= 0 -> 0 <= fst (diff o a) ->
  Qabs (fst (diff o (rootDiff o a b))) <= tol.

Lemma interior_reaches_Tn v : findvwLTE epsJ epsS o vMin vJ csTn = Interior v ->
  forall vmax, vmax_of epsJ epsS o vJ csTn = Some vmax -> vMin <= vmax ->
  Qabs (fst (diff o v)) <= tol.
Proof.
  intros H vmax E Hle. destruct (interior_sound _ _ _ _ _ _ v H) as (vm' & E' & H1 & _ & H3 & ->).
  rewrite E in E'. inversion E'; subst. apply rootDiff_small; assumption.
Qed.
End Bridge.

(** helpers for the correspondence files (oracles tabulated from a recorded run) *)
Definition near (a v : Q) : bool :=
  if Qlt_le_dec (Qabs (v - a)) (1 # 1000000000000) then true else false.

Definition outcome_eqb (a b : outcome) : bool :=
  match a, b with
  | Static, Static => true
  | Runaway, Runaway => true
  | Interior x, Interior y => Qeq_bool x y
  | _, _ => false
  end.
