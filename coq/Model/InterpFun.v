(** InterpFun -- executable state-machine model of WallGo's [InterpolatableFunction]
    (src/WallGo/interpolatableFunction.py), property C18.

    Hand-written, tied to the running class by an op-sequence differential on every run
    (tools/props/C18.py): the same random operation sequences are executed on the real class
    and on [step] below (by [vm_compute]) and the canonicalised observations are compared.

    What is abstract.  The spline (scipy CubicSpline) and the user's function are EXTERNAL:
    a value is represented by its provenance [tag] ("the spline of the current table,
    evaluated at q, which lies inside / outside its knots, with / without extrapolation",
    "the function itself at q").  The only fact about the user's function the class looks at
    is which rows are finite: the Section variable [fin] (true = every component finite);
    every theorem holds for ALL [fin].  CubicSpline's constructor precondition (at least two
    strictly increasing knots, else ValueError) is part of the model ([interpolate]). *)
From Coq Require Import List Bool Arith ZArith QArith Qabs Qround Lia Lqa.
Import ListNotations.
Local Open Scope Q_scope.

(* ------------------------------------------------------------------------------------ *)
(** * Vocabulary *)

Inductive mode := ERROR | NONE | CONSTANT | FUNCTION.          (* EExtrapolationType *)
Definition is_fun (m : mode) : bool := match m with FUNCTION => true | _ => false end.
Definition mode_eqb (a b : mode) : bool :=
  match a, b with ERROR, ERROR | NONE, NONE | CONSTANT, CONSTANT | FUNCTION, FUNCTION => true
  | _, _ => false end.

(** where a call of the spline object lands *)
Inductive kind := KIn      (* between first and last knot *)
                | KExt     (* outside the knots, spline built with extrapolate=True *)
                | KNan.    (* outside the knots, extrapolate=False: scipy returns nan *)

(** provenance of one returned element *)
Inductive tag :=
  | Spl (d : nat) (k : kind) (q : Q)   (* d-th derivative (0 = value) of the spline at q *)
  | Dir (q : Q)                        (* _functionImplementation(q), finite *)
  | DirNaN (q : Q)                     (* _functionImplementation(q), a non-finite row *)
  | Uninit.                            (* np.empty cell never written *)

(** one element of a derivative result: a spline derivative, or a finite-difference stencil
    over out-of-range evaluations *)
Inductive dtag := DOne (t : tag) | DFD (ts : list tag).

Inductive err := EValue | EAssert | EIndex.                    (* exception class *)
Inductive res (A : Type) := Ok (a : A) | Err (e : err).
Arguments Ok {A}. Arguments Err {A}.

Record st := mkst {
  cfg_k : nat;            (* _RETURN_VALUE_COUNT *)
  cfg_thr : nat;          (* _evaluationsUntilAdaptiveUpdate *)
  cfg_n0 : nat;           (* _initialInterpolationPointCount *)
  hasT : bool;            (* hasInterpolation() *)
  tab : list Q;           (* _interpolationPoints == knots of _interpolatedFunction *)
  vals : list Q;          (* _interpolationValues, by provenance: entry i is the abscissa at which
                             the stored value i was computed (the function is external) *)
  rmin : Q; rmax : Q;     (* _rangeMin, _rangeMax *)
  extrap : bool;          (* _interpolatedFunction.extrapolate *)
  mlo : mode; mhi : mode; (* extrapolationTypeLower / Upper *)
  adaptive : bool;        (* _bUseAdaptiveInterpolation *)
  cnt : nat;              (* _directEvaluateCount *)
  pend : list Q           (* _directlyEvaluatedAt *)
}.

Definition set_table (s : st) (t v : list Q) (lo hi : Q) (e : bool) : st :=
  mkst (cfg_k s) (cfg_thr s) (cfg_n0 s) true t v lo hi e (mlo s) (mhi s) (adaptive s) (cnt s) (pend s).
Definition set_modes (s : st) (a b : mode) : st :=
  mkst (cfg_k s) (cfg_thr s) (cfg_n0 s) (hasT s) (tab s) (vals s) (rmin s) (rmax s) (extrap s) a b
       (adaptive s) (cnt s) (pend s).
Definition set_adapt (s : st) (a : bool) (c : nat) (p : list Q) : st :=
  mkst (cfg_k s) (cfg_thr s) (cfg_n0 s) (hasT s) (tab s) (vals s) (rmin s) (rmax s) (extrap s) (mlo s) (mhi s)
       a c p.

Definition init (k thr n0 : nat) (adapt : bool) : st :=
  mkst k thr n0 false [] [] 0 0 false NONE NONE adapt 0 [].

(* ------------------------------------------------------------------------------------ *)
(** * numpy idioms on exact rationals *)

Definition Qlt_bool (a b : Q) : bool := negb (Qle_bool b a).
Lemma Qlt_bool_iff a b : Qlt_bool a b = true <-> a < b.
Proof.
  unfold Qlt_bool. rewrite negb_true_iff. split; intro H.
  - apply Qnot_le_lt. intro Hle. apply Qle_bool_iff in Hle. congruence.
  - destruct (Qle_bool b a) eqn:E; [|reflexivity]. apply Qle_bool_iff in E. lra.
Qed.

Definition qZ (n : nat) : Q := inject_Z (Z.of_nat n).

(** np.min / np.max of a non-empty array (0 on the empty one: numpy raises there, and the
    class never calls them on an empty array -- see [schedule]) *)
Definition qmin (l : list Q) : Q :=
  match l with [] => 0 | x :: r => fold_left (fun a b => if Qlt_bool b a then b else a) r x end.
Definition qmax (l : list Q) : Q :=
  match l with [] => 0 | x :: r => fold_left (fun a b => if Qlt_bool a b then b else a) r x end.

(** strictly increasing *)
Fixpoint incr (l : list Q) : Prop :=
  match l with [] => True | x :: r => (match r with [] => True | y :: _ => x < y end) /\ incr r end.
Fixpoint incrb (l : list Q) : bool :=
  match l with [] => true | x :: r => (match r with [] => true | y :: _ => Qlt_bool x y end) && incrb r end.

(** np.linspace(a, b, n) *)
Definition linspace (a b : Q) (n : nat) : list Q :=
  match n with
  | O => []
  | S O => [a]
  | S m => map (fun i => Qred (a + qZ i * ((b - a) / qZ m))) (seq 0 n)
  end.

(** np.linspace(a, b, n, endpoint=False): n points a + i*(b-a)/n *)
Definition linspace_open (a b : Q) (n : nat) : list Q :=
  map (fun i => Qred (a + qZ i * ((b - a) / qZ n))) (seq 0 n).

(** np.unique: sorted, duplicates removed *)
Fixpoint uinsert (x : Q) (l : list Q) : list Q :=
  match l with
  | [] => [x]
  | y :: r => match Qcompare x y with Lt => x :: l | Eq => l | Gt => y :: uinsert x r end
  end.
Definition usort (l : list Q) : list Q := fold_right uinsert [] l.

(** res[mask] = vals : write [vals] successively into the cells where [mask] holds *)
Fixpoint scatter {A} (mask : list bool) (vals : list A) (base : list A) : list A :=
  match mask, base with
  | m :: mr, b :: br =>
      if m then match vals with v :: vr => v :: scatter mr vr br | [] => b :: scatter mr [] br end
      else b :: scatter mr vals br
  | _, _ => base
  end.
(** x[mask] *)
Fixpoint select {A} (mask : list bool) (l : list A) : list A :=
  match mask, l with
  | m :: mr, x :: r => if m then x :: select mr r else select mr r
  | _, _ => []
  end.

(** finite-difference positions of helpers.derivative without bounds (central rows of
    FIRST_DERIV_POS["4"], SECOND_DERIV_POS["4"]; checked against helpers.py on every run) *)
Definition stencil (order : nat) : list Z :=
  match order with 1%nat => [-2; -1; 1; 2]%Z | _ => [-2; -1; 0; 1; 2]%Z end.

(** the array  x[None, ...] + POS * dx , flattened row-major: one row per stencil offset *)
Definition fd_pos (order : nat) (dx : Q) (pts : list Q) : list Q :=
  flat_map (fun s => map (fun q => Qred (q + inject_Z s * dx)) pts) (stencil order).

(** column j of a row-major (rows x m) array *)
Fixpoint column {A} (rows m j : nat) (l : list A) : list A :=
  match rows with
  | O => []
  | S r => match nth_error l j with Some a => [a] | None => [] end ++ column r m j (skipn m l)
  end.

Definition oshape (k : nat) (shape : list nat) : list nat :=
  if (1 <? k)%nat then shape ++ [k] else shape.

(* ------------------------------------------------------------------------------------ *)
(** * The class *)
Section Model.
Variable fin : Q -> bool.          (* is the function's row at q finite? *)

(** _dropBadPoints + CubicSpline(...) + range bookkeeping  (_interpolate(x, fx)).
    [ys] : the abscissae at which the rows of fx were computed; a row is kept iff it is finite,
    and the abscissa kept with it is the one at the SAME index *)
Definition interpolate2 (s : st) (xs ys : list Q) : st * res unit :=
  let keep := map fin ys in
  let xf := select keep xs in
  let yf := select keep ys in
  if (2 <=? length xf)%nat && incrb xf then
    (set_table s xf yf (qmin xf) (qmax xf) (is_fun (mlo s) || is_fun (mhi s)), Ok tt)
  else (s, Err EValue).

(** the function evaluated on the abscissae themselves *)
Definition interpolate (s : st) (xs : list Q) : st * res unit := interpolate2 s xs xs.

(** min(p, int(width / (1e-8 * tableWidth))), 0 when not positive (computed in Z: the quotient
    is typically ~1e8) *)
Definition fit (p : nat) (width tableWidth : Q) : nat :=
  Z.to_nat (Z.min (Z.of_nat p) (Qfloor (width / ((1 # 100000000) * tableWidth)))).

Definition newTable (s : st) (a b : Q) (n : nat) : st * res unit :=
  interpolate s (linspace a b n).

Definition extend (s : st) (newMin newMax : Q) (pLo pHi : nat) : st * res unit :=
  if negb (hasT s) then newTable s newMin newMax (pLo + pHi) else
  (* at most as many points as fit at 1e-8 of the table width (an extension by a few ulp
     appends nothing) *)
  let pLo := fit pLo (rmin s - newMin) (rmax s - rmin s) in
  let pHi := fit pHi (newMax - rmax s) (rmax s - rmin s) in
  let lo := if Qlt_bool newMin (rmin s) && (0 <? pLo)%nat
            then linspace_open newMin (rmin s) pLo else [] in
  let hi := if Qlt_bool (rmax s) newMax && (0 <? pHi)%nat
            then tl (linspace (rmax s) newMax (S pHi)) else [] in
  match interpolate2 s (lo ++ tab s ++ hi) (lo ++ vals s ++ hi) with
  | (s', Ok _) => ((if adaptive s' then set_adapt s' true 0 [] else s'), Ok tt)
  | r => r
  end.

Definition adaptiveUpdate (s : st) : st * res unit :=
  let emin := qmin (pend s) in
  let emax := qmax (pend s) in
  let s0 := set_adapt s (adaptive s) 0 [] in
  if hasT s then extend s0 emin emax (cfg_n0 s / 5)%nat (cfg_n0 s / 5)%nat
  else
    (* a single distinct point, or points only a rounding error apart (relative to their
       magnitude), cannot seed a table: wait *)
    let scale := if Qle_bool (Qabs emin) (Qabs emax) then Qabs emax else Qabs emin in
    if Qle_bool (emax - emin) ((1 # 100000000) * scale * qZ (2 * (cfg_n0 s / 2)))
    then (s0, Ok tt)
    else extend s0 emin emax (cfg_n0 s / 2)%nat (cfg_n0 s / 2)%nat.

Definition schedule (s : st) (pts : list Q) : st * res unit :=
  match usort (filter fin pts) with
  | [] => (s, Ok tt)
  | xv => let s1 := set_adapt s (adaptive s) (cnt s + length xv) (pend s ++ xv) in
          if (cfg_thr s1 <=? cnt s1)%nat then adaptiveUpdate s1 else (s1, Ok tt)
  end.

Definition dtags (pts : list Q) : list tag := map (fun q => if fin q then Dir q else DirNaN q) pts.

Definition evalDirect (s : st) (pts : list Q) : st * res (list tag) :=
  if adaptive s then
    match schedule s pts with
    | (s', Ok _) => (s', Ok (dtags pts))
    | (s', Err e) => (s', Err e)
    end
  else (s, Ok (dtags pts)).

(** calling the current spline object (its d-th derivative) at q *)
Definition splineAt (s : st) (d : nat) (q : Q) : tag :=
  if Qle_bool (hd 0 (tab s)) q && Qle_bool q (last (tab s) 0) then Spl d KIn q
  else if extrap s then Spl d KExt q else Spl d KNan q.

(** one side of _evaluateOutOfBounds *)
Definition side (s0 s : st) (m : mode) (edge : Q) (mask : list bool) (pts : list Q) (acc : list tag)
  : st * res (list tag) :=
  (* s0: the state when _evaluateOutOfBounds was entered -- its spline answers the whole call;
     s: the current state (direct evaluations may have triggered an adaptive update) *)
  if existsb (fun b => b) mask then
    match m with
    | ERROR => (s, Err EValue)
    | NONE => match evalDirect s (select mask pts) with
              | (s', Ok ts) => (s', Ok (scatter mask ts acc))
              | (s', Err e) => (s', Err e)
              end
    | CONSTANT => (s, Ok (scatter mask (map (fun _ => splineAt s0 0 edge) (select mask pts)) acc))
    | FUNCTION => (s, Ok (scatter mask (map (splineAt s0 0) (select mask pts)) acc))
    end
  else (s, Ok acc).

Definition evalOOB (s : st) (pts : list Q) : st * res (list tag) :=
  if mode_eqb (mlo s) ERROR && mode_eqb (mhi s) ERROR then (s, Err EValue)
  else if negb (hasT s) || (mode_eqb (mlo s) NONE && mode_eqb (mhi s) NONE) then evalDirect s pts
  else
    let lower := map (fun q => Qle_bool q (rmin s)) pts in
    let upper := map (fun q => Qle_bool (rmax s) q) pts in
    let acc0 := map (fun q => if Qle_bool q (rmin s) || Qle_bool (rmax s) q then Uninit
                              else splineAt s 0 q) pts in
    match side s s (mlo s) (rmin s) lower pts acc0 with
    | (s1, Ok acc1) => side s s1 (mhi s1) (rmax s) upper pts acc1
    | r => r
    end.

Definition inrange (s : st) (q : Q) : bool := Qle_bool q (rmax s) && Qle_bool (rmin s) q.

Definition evaluate (s : st) (useInterp : bool) (shape : list nat) (pts : list Q)
  : st * res (list nat * list tag) :=
  if negb useInterp || negb (hasT s) then
    match evalDirect s pts with
    | (s', Ok ts) => (s', Ok (oshape (cfg_k s) shape, ts))
    | (s', Err e) => (s', Err e)
    end
  else
    let mask := map (inrange s) pts in
    let base := map (fun q => if inrange s q then splineAt s 0 q else Uninit) pts in
    let out := select (map negb mask) pts in
    match out with
    | [] => (s, Ok (oshape (cfg_k s) shape, base))
    | _ => match evalOOB s out with
           | (s', Ok ts) => (s', Ok (oshape (cfg_k s) shape, scatter (map negb mask) ts base))
           | (s', Err e) => (s', Err e)
           end
    end.

(** helpers.derivative(f, x, n): f is called TWICE on the stencil array; the result is
    built from the second call *)
Definition twice (f : st -> list Q -> st * res (list tag)) (s : st) (pos : list Q)
  : st * res (list tag) :=
  match f s pos with
  | (s1, Ok _) => f s1 pos
  | r => r
  end.

Definition fd_columns (order m : nat) (ts : list tag) : list dtag :=
  map (fun j => DFD (column (length (stencil order)) m j ts)) (seq 0 m).

(** [dx]: step of the finite differences outside the table (scale * epsilon^(1/(n+4)), made
    dyadic by the harness); [pos]: the stencil array of the no-table path, which uses the
    default step and is therefore supplied (and cross-checked) by the harness *)
Definition derivative (s : st) (order : nat) (useInterp : bool) (shape : list nat) (pts : list Q)
  (dx : Q) (pos : list Q) : st * res (list nat * list dtag) :=
  if negb useInterp || negb (hasT s) || (2 <? order)%nat then
    if (2 <? order)%nat || (order =? 0)%nat then (s, Err EAssert) else
    match twice evalDirect s pos with
    | (s', Ok ts) => (s', Ok (oshape (cfg_k s) shape, fd_columns order (length pts) ts))
    | (s', Err e) => (s', Err e)
    end
  else
    let mask := map (inrange s) pts in
    let base := map (fun q => DOne (if inrange s q then splineAt s order q else Uninit)) pts in
    let out := select (map negb mask) pts in
    match out with
    | [] => (s, Ok (oshape (cfg_k s) shape, base))
    | _ => match twice evalOOB s (fd_pos order dx out) with
           | (s', Ok ts) =>
               (s', Ok (oshape (cfg_k s) shape,
                        scatter (map negb mask) (fd_columns order (length out) ts) base))
           | (s', Err e) => (s', Err e)
           end
    end.

Definition setModes (s : st) (a b : mode) : st * res unit :=
  let s1 := set_modes s a b in
  if hasT s1 then interpolate2 s1 (tab s1) (vals s1) else (s1, Ok tt).

(** writeInterpolationTable + readInterpolationTable of the same file *)
Definition writeRead (s : st) : st * res unit :=
  if hasT s then interpolate2 s (tab s) (vals s) else (s, Err EIndex).

Inductive op :=
  | NewTable (a b : Q) (n : nat)
  | Evaluate (useInterp : bool) (shape : list nat) (pts : list Q)
  | Derivative (order : nat) (useInterp : bool) (shape : list nat) (pts : list Q) (dx : Q)
               (pos : list Q)
  | Extend (a b : Q) (nlo nhi : nat)
  | SetModes (lo hi : mode)
  | EnableAdaptive | DisableAdaptive
  | Schedule (pts : list Q)
  | WriteRead
  | FromValues (xs : list Q)   (* newInterpolationTableFromValues(xs, f(xs)), xs in ANY order *)
  | ReadFile (xs : list Q)     (* readInterpolationTable of a file with rows (x, f(x)), x in xs *)
  | ReadMissing.               (* readInterpolationTable of a file that does not exist *)

Inductive out :=
  | OUnit (r : res unit)
  | OEval (r : res (list nat * list tag))
  | ODeriv (r : res (list nat * list dtag)).

Definition step (s : st) (o : op) : st * out :=
  match o with
  | NewTable a b n => let (s', r) := newTable s a b n in (s', OUnit r)
  | Evaluate u sh pts => let (s', r) := evaluate s u sh pts in (s', OEval r)
  | Derivative n u sh pts dx pos => let (s', r) := derivative s n u sh pts dx pos in (s', ODeriv r)
  | Extend a b nl nh => let (s', r) := extend s a b nl nh in (s', OUnit r)
  | SetModes a b => let (s', r) := setModes s a b in (s', OUnit r)
  | EnableAdaptive => (set_adapt s true 0 [], OUnit (Ok tt))
  | DisableAdaptive => (set_adapt s false (cnt s) (pend s), OUnit (Ok tt))
  | Schedule pts => let (s', r) := schedule s pts in (s', OUnit r)
  | WriteRead => let (s', r) := writeRead s in (s', OUnit r)
  | FromValues xs => let (s', r) := interpolate s xs in (s', OUnit r)
  | ReadFile xs => let (s', r) := interpolate s xs in (s', OUnit r)
  | ReadMissing => (s, OUnit (Ok tt))          (* IOError is logged, nothing changes *)
  end.

Fixpoint run (s : st) (ops : list op) : st :=
  match ops with [] => s | o :: r => run (fst (step s o)) r end.

(** the observation sequence compared with the implementation *)
Fixpoint trace (s : st) (ops : list op) : list (out * st) :=
  match ops with
  | [] => []
  | o :: r => let (s', x) := step s o in (x, s') :: trace s' r
  end.

End Model.

(* ------------------------------------------------------------------------------------ *)
(** * Comparison of observations (used by the generated correspondence files) *)

Definition Qlist_eqb (a b : list Q) : bool :=
  (length a =? length b)%nat && forallb (fun p => Qeq_bool (fst p) (snd p)) (combine a b).
(** knots are compared up to 2^-40: interior knots of np.linspace with a non-dyadic step are
    rounded by the implementation *)
Definition Qclose (a b : Q) : bool := Qle_bool (Qabs (a - b)) (1 # 1099511627776).
(* abscissae that are interior points of an np.linspace with a non-dyadic step are rounded by the
   implementation and exact in the model; they can also become a table END (non-finite end rows
   dropped) and then appear in tags and in the range.  Which side of an end a point lies on is
   never decided by this tolerance: the classification is part of the tag (KIn/KExt, Spl/Dir). *)
Definition Qlist_close (a b : list Q) : bool :=
  (length a =? length b)%nat && forallb (fun p => Qclose (fst p) (snd p)) (combine a b).
Definition kind_eqb (a b : kind) : bool :=
  match a, b with KIn, KIn | KExt, KExt | KNan, KNan => true | _, _ => false end.
Definition tag_eqb (a b : tag) : bool :=
  match a, b with
  | Spl d k q, Spl d' k' q' => (d =? d')%nat && kind_eqb k k' && Qclose q q'
  | Dir q, Dir q' => Qclose q q'
  | DirNaN q, DirNaN q' => Qclose q q'
  | Uninit, Uninit => true
  | _, _ => false
  end.
Fixpoint list_eqb {A} (e : A -> A -> bool) (a b : list A) : bool :=
  match a, b with
  | [], [] => true
  | x :: r, y :: r' => e x y && list_eqb e r r'
  | _, _ => false
  end.
Definition dtag_eqb (a b : dtag) : bool :=
  match a, b with
  | DOne t, DOne t' => tag_eqb t t'
  | DFD l, DFD l' => list_eqb tag_eqb l l'
  | _, _ => false
  end.
Definition err_eqb (a b : err) : bool :=
  match a, b with EValue, EValue | EAssert, EAssert | EIndex, EIndex => true | _, _ => false end.
Definition res_eqb {A} (e : A -> A -> bool) (a b : res A) : bool :=
  match a, b with Ok x, Ok y => e x y | Err x, Err y => err_eqb x y | _, _ => false end.
Definition out_eqb (a b : out) : bool :=
  match a, b with
  | OUnit r, OUnit r' => res_eqb (fun _ _ => true) r r'
  | OEval r, OEval r' =>
      res_eqb (fun x y => list_eqb Nat.eqb (fst x) (fst y) && list_eqb tag_eqb (snd x) (snd y)) r r'
  | ODeriv r, ODeriv r' =>
      res_eqb (fun x y => list_eqb Nat.eqb (fst x) (fst y) && list_eqb dtag_eqb (snd x) (snd y)) r r'
  | _, _ => false
  end.
(** the observable part of the state.  Without a table, range and knots are not observable
    (the attributes do not exist). *)
Definition st_eqb (a b : st) : bool :=
  Bool.eqb (hasT a) (hasT b) &&
  (if hasT a then Qlist_close (tab a) (tab b) && Qlist_close (vals a) (vals b) && Qclose (rmin a) (rmin b) &&
                  Qclose (rmax a) (rmax b) && Bool.eqb (extrap a) (extrap b) else true) &&
  mode_eqb (mlo a) (mlo b) && mode_eqb (mhi a) (mhi b) && Bool.eqb (adaptive a) (adaptive b) &&
  (cnt a =? cnt b)%nat && Qlist_eqb (pend a) (pend b).
Definition obs_eqb (a b : out * st) : bool := out_eqb (fst a) (fst b) && st_eqb (snd a) (snd b).

(** index of the first differing observation, or None *)
Fixpoint first_diff (i : nat) (a b : list (out * st)) : option nat :=
  match a, b with
  | [], [] => None
  | x :: r, y :: r' => if obs_eqb x y then first_diff (S i) r r' else Some i
  | _, _ => Some i
  end.
Definition agree (fin : Q -> bool) (s0 : st) (ops : list op) (expected : list (out * st)) : bool :=
  match first_diff 0 (trace fin s0 ops) expected with None => true | Some _ => false end.
