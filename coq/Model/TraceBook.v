(** TraceBook -- the vocabulary in which tools/gen_trace.py re-expresses the tracer's
    bookkeeping code (freeEnergy.py::tracePhase, thermodynamics.py::findCriticalTemperature).

    Only *meanings of idioms* live here (records for the mutable variables, the while loop
    with fuel, boolean comparisons, the external numerics as a record [ext]).  Which
    statements are executed, in which order and under which tests is GENERATED from the
    Python AST on every run (build/C11/TraceGen.v); the theorems are in Props/C11.v. *)
From Coq Require Import Reals List Bool Lra Lia.
From WG Require Import Lib.PhaseTrace.
Import ListNotations.
Local Open Scope R_scope.

Definition Rltb (x y : R) : bool := if Rlt_dec x y then true else false.
Definition Rleb (x y : R) : bool := if Rle_dec x y then true else false.
Definition Reqb (x y : R) : bool := if Req_EM_T x y then true else false.
Lemma Rltb_true x y : Rltb x y = true <-> x < y.
Proof. unfold Rltb. destruct (Rlt_dec x y); split; intros; try lra; try discriminate; reflexivity. Qed.
Lemma Rltb_false x y : Rltb x y = false <-> y <= x.
Proof. unfold Rltb. destruct (Rlt_dec x y); split; intros; try lra; try discriminate; reflexivity. Qed.
Lemma Rleb_true x y : Rleb x y = true <-> x <= y.
Proof. unfold Rleb. destruct (Rle_dec x y); split; intros; try lra; try discriminate; reflexivity. Qed.
Lemma Rleb_false x y : Rleb x y = false <-> y < x.
Proof. unfold Rleb. destruct (Rle_dec x y); split; intros; try lra; try discriminate; reflexivity. Qed.
Lemma Reqb_true x y : Reqb x y = true <-> x = y.
Proof. unfold Reqb. destruct (Req_EM_T x y); split; intros; try lra; try discriminate; try reflexivity; congruence. Qed.
Lemma Reqb_false x y : Reqb x y = false <-> x <> y.
Proof. unfold Reqb. destruct (Req_EM_T x y); split; intros; try discriminate; try reflexivity; congruence. Qed.

(** np.sign *)
Definition sgn (x : R) : R := if Rlt_dec 0 x then 1 else if Rlt_dec x 0 then -1 else 0.

(** [while c: body] with fuel; the body returns (state, did-it-break) *)
Fixpoint run_while {S : Type} (fuel : nat) (c : S -> bool) (body : S -> S * bool) (s : S) : S :=
  match fuel with
  | O => s
  | Datatypes.S n => if c s then (let '(s', brk) := body s in if brk then s' else run_while n c body s')
                     else s
  end.

(** invariant rule for the loop: anything preserved by the body holds at exit *)
Lemma run_while_inv {S : Type} (I : S -> Prop) c body :
  (forall s, I s -> c s = true -> I (fst (body s))) ->
  forall fuel s, I s -> I (run_while fuel c body s).
Proof.
  intros Hb fuel. induction fuel as [|n IH]; intros s Hs; [exact Hs|].
  cbn [run_while]. destruct (c s) eqn:Hc; [|exact Hs].
  specialize (Hb s Hs Hc). destruct (body s) as [s' brk]. cbn [fst] in Hb.
  destruct brk; [exact Hb|apply IH; exact Hb].
Qed.

(* ------------------------------------------------------------------------------------ *)
(** scipy.integrate.RK45 object, as far as the tracer reads it *)
Record ode (Fld : Type) := mk_ode { ode_t : R; ode_y : Fld; ode_h : R; ode_running : bool }.
Arguments mk_ode {Fld}. Arguments ode_t {Fld}. Arguments ode_y {Fld}.
Arguments ode_h {Fld}. Arguments ode_running {Fld}.
Definition set_y {Fld} (o : ode Fld) (y : Fld) : ode Fld :=
  mk_ode (ode_t o) y (ode_h o) (ode_running o).

(** external numerics of the tracer (finite differences, BFGS, LAPACK, RK45): a record, so
    every theorem is about ALL possible behaviours of these collaborators *)
Record ext (Fld Hess : Type) := mk_ext {
  allSecondDerivatives : Fld -> R -> Hess * Fld * R;   (* effectivePotential.allSecondDerivatives *)
  deriv2Field2 : Fld -> R -> Hess;
  derivField : Fld -> R -> Fld;
  evaluate : Fld -> R -> R;
  findLocalMinimum : Fld -> R -> R -> Fld * R;         (* guess, T, tol -> (location, value) *)
  linsolve : Hess -> Fld -> Fld;                       (* scipy.linalg.solve(A, b, assume_a="sym") *)
  vneg : Fld -> Fld;                                   (* unary minus on arrays *)
  norm : Fld -> R;                                     (* np.linalg.norm *)
  eigvalsh : Hess -> list R;                           (* scipy.linalg.eigvalsh *)
  rk_step : ode Fld -> option (ode Fld)                (* ode.step(); None = RuntimeWarning *)
}.
Arguments allSecondDerivatives {Fld Hess}. Arguments deriv2Field2 {Fld Hess}.
Arguments derivField {Fld Hess}. Arguments evaluate {Fld Hess}.
Arguments findLocalMinimum {Fld Hess}. Arguments linsolve {Fld Hess}.
Arguments vneg {Fld Hess}. Arguments norm {Fld Hess}. Arguments eigvalsh {Fld Hess}.
Arguments rk_step {Fld Hess}.

(** kinds of the straight-line segments of the generated loop body *)
Inductive segkind := KUpd | KBrk | KCont.

(** mutable variables of one integration direction of tracePhase *)
Record lstate (Fld : Type) := mk_lstate {
  l_ode : ode Fld;                 (* ode *)
  l_pot : option R;                (* potentialEffT (None: not yet bound) *)
  l_T : list R;                    (* TList *)
  l_F : list Fld;                  (* fieldList *)
  l_P : list (option R)            (* potentialEffList *)
}.
Arguments mk_lstate {Fld}. Arguments l_ode {Fld}. Arguments l_pot {Fld}.
Arguments l_T {Fld}. Arguments l_F {Fld}. Arguments l_P {Fld}.
Definition set_l_ode {Fld} (s : lstate Fld) v := mk_lstate v (l_pot s) (l_T s) (l_F s) (l_P s).
Definition set_l_pot {Fld} (s : lstate Fld) v := mk_lstate (l_ode s) v (l_T s) (l_F s) (l_P s).
Definition set_l_T {Fld} (s : lstate Fld) v := mk_lstate (l_ode s) (l_pot s) v (l_F s) (l_P s).
Definition set_l_F {Fld} (s : lstate Fld) v := mk_lstate (l_ode s) (l_pot s) (l_T s) v (l_P s).
Definition set_l_P {Fld} (s : lstate Fld) v := mk_lstate (l_ode s) (l_pot s) (l_T s) (l_F s) v.

(** [min/maxPossibleTemperature] of a FreeEnergy object: [value, is-a-genuine-end] *)
Record ranges := mk_ranges { minT : R; minFlag : bool; maxT : R; maxFlag : bool }.
Definition set_minT (s : ranges) v := mk_ranges v (minFlag s) (maxT s) (maxFlag s).
Definition set_minFlag (s : ranges) v := mk_ranges (minT s) v (maxT s) (maxFlag s).
Definition set_maxT (s : ranges) v := mk_ranges (minT s) (minFlag s) v (maxFlag s).
Definition set_maxFlag (s : ranges) v := mk_ranges (minT s) (minFlag s) (maxT s) v.

(** mutable variables of the stepping loop of findCriticalTemperature *)
Record cstate := mk_cstate { c_T : R; c_conv : bool }.
Definition set_c_T (s : cstate) v := mk_cstate v (c_conv s).
Definition set_c_conv (s : cstate) v := mk_cstate (c_T s) v.

(** how an argument reaches a parameter at a call site (AST facts about calls) *)
Inductive argsrc := ByKeyword (expr : nat) | ByPosition (expr : nat) | ByDefault (expr : nat).
(** expression codes used in call facts *)
Definition X_True := 1%nat.  Definition X_False := 2%nat.  Definition X_other := 0%nat.
Definition X_caller_paranoid := 3%nat.  Definition X_caller_rTol := 4%nat.
Definition X_caller_dT := 5%nat.
Record tracecall := mk_tracecall { tc_rTol : argsrc; tc_spinodal : argsrc; tc_paranoid : argsrc;
                                   tc_positional : nat }.
Definition src_expr (a : argsrc) : nat :=
  match a with ByKeyword e | ByPosition e | ByDefault e => e end.

(** strictly increasing lists *)
Fixpoint incr (l : list R) : Prop :=
  match l with [] => True | x :: r => (match r with [] => True | y :: _ => x < y end) /\ incr r end.

Lemma incr_app l1 l2 : incr l1 -> incr l2 ->
  (forall x y, In x l1 -> In y l2 -> x < y) -> incr (l1 ++ l2).
Proof.
  induction l1 as [|x r IH]; intros H1 H2 Hc; [exact H2|].
  cbn [app]. destruct H1 as [Hx Hr]. split.
  - destruct r as [|y r'].
    + cbn. destruct l2 as [|z l2']; [exact I|]. apply Hc; left; reflexivity.
    + exact Hx.
  - apply IH; [exact Hr|exact H2|]. intros u v Hu Hv. apply Hc; [right; exact Hu|exact Hv].
Qed.

Lemma incr_snoc l x : incr l -> (forall y, In y l -> y < x) -> incr (l ++ [x]).
Proof.
  intros Hl Hx. apply incr_app; [exact Hl|cbn; auto|].
  intros u v Hu [Hv|[]]. subst v. apply Hx; exact Hu.
Qed.

(** strictly decreasing = reverse is increasing *)
Definition decr (l : list R) : Prop := incr (rev l).
Lemma decr_snoc l x : decr l -> (forall y, In y l -> x < y) -> decr (l ++ [x]).
Proof.
  unfold decr. intros Hl Hx. rewrite rev_app_distr. cbn [rev app].
  change (x :: rev l) with ([x] ++ rev l). apply incr_app; [cbn; auto|exact Hl|].
  intros u v [Hu|[]] Hv. subst u. apply Hx. apply in_rev. exact Hv.
Qed.

Lemma incr_bounds l : incr l -> l <> [] -> lmin l = hd 0 l /\ lmax l = last l 0.
Proof.
  induction l as [|x [|y r] IH]; intros Hi Hne; [congruence|cbn; split; reflexivity|].
  destruct Hi as [Hxy Hr]. destruct (IH Hr) as [I1 I2]; [discriminate|].
  rewrite lmin_cons, lmax_cons. split.
  - rewrite I1. cbn [hd]. unfold Rmin. destruct (Rle_dec x y); lra.
  - rewrite I2. change (last (x :: y :: r) 0) with (last (y :: r) 0).
    destruct (lmax_spec (y :: r)) as [_ Hall]; [discriminate|].
    rewrite I2 in Hall. inversion Hall as [|? ? Hy _]; subst.
    unfold Rmax. destruct (Rle_dec x (last (y :: r) 0)); lra.
Qed.

(** certificates for min/max of a concrete list (used by the correspondence files) *)
Lemma lmin_is l m : In m l -> Forall (fun x => m <= x) l -> lmin l = m.
Proof.
  intros Hin Hall. assert (Hne : l <> []) by (intros E; subst l; destruct Hin).
  destruct (lmin_spec l Hne) as [I1 I2].
  rewrite Forall_forall in Hall, I2. specialize (Hall _ I1). specialize (I2 _ Hin). lra.
Qed.
Lemma lmax_is l m : In m l -> Forall (fun x => x <= m) l -> lmax l = m.
Proof.
  intros Hin Hall. assert (Hne : l <> []) by (intros E; subst l; destruct Hin).
  destruct (lmax_spec l Hne) as [I1 I2].
  rewrite Forall_forall in Hall, I2. specialize (Hall _ I1). specialize (I2 _ Hin). lra.
Qed.

(** the same loop, also reporting WHY it ended and the state on which the body last ran *)
Inductive endreason := EFuel | ECond | EBreak.
Fixpoint run_while_r {S : Type} (fuel : nat) (c : S -> bool) (body : S -> S * bool) (s : S)
  : S * endreason * S :=
  match fuel with
  | O => (s, EFuel, s)
  | Datatypes.S n => if c s then (let '(s', brk) := body s in
                                  if brk then (s', EBreak, s) else run_while_r n c body s')
                     else (s, ECond, s)
  end.
Lemma run_while_r_spec {S : Type} (c : S -> bool) (body : S -> S * bool) fuel s :
  let '(s', why, s0) := run_while_r fuel c body s in
  s' = run_while fuel c body s /\
  match why with
  | EFuel => True
  | ECond => c s' = false
  | EBreak => c s0 = true /\ body s0 = (s', true)
  end.
Proof.
  revert s. induction fuel as [|n IH]; intros s; cbn [run_while_r run_while]; [split; auto|].
  destruct (c s) eqn:Hc; [|split; auto].
  destruct (body s) as [s1 brk] eqn:Hb. destruct brk; [split; auto|]. apply IH.
Qed.
