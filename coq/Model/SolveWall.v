(** Model of the decision logic of [EOM.solveWall] (src/WallGo/equationOfMotion.py) and of
    [EOM.findWallVelocityDeflagrationHybrid] around it, over exact rationals.

    External numerics are *Section variables* (never axioms):
      - [P atol v g]   : one call of [EOM.wallPressure(v, g)] made while
                         [self.pressAbsErrTol = atol]; it returns the pressure, the wall
                         parameters, T+/T- and the two flags the call leaves behind on the
                         EOM object ([successTemperatureProfile], [successWallPressure]);
      - [rootfind W a b xtol] : [scipy.optimize.root_scalar(W, method="brentq",
                         bracket=[a,b], xtol=xtol)]: root, converged flag and the ordered list
                         of points at which it called [W].
    The model is executable ([vm_compute] on [Q]) and is compared on every run with the real
    [EOM.solveWall] driven by synthetic pressure curves (tools/props/C01.py). *)
From Coq Require Import QArith Qabs Qminmax Qround Lqa List Bool ZArith Lia.
Import ListNotations.
Local Open Scope Q_scope.

(** ** booleans on Q *)
Definition Qltb (x y : Q) : bool := negb (Qle_bool y x).

Lemma Qltb_true x y : Qltb x y = true <-> x < y.
Proof.
  unfold Qltb. rewrite negb_true_iff. split; intro H.
  - apply Qnot_le_lt. intro L. apply Qle_bool_iff in L. congruence.
  - destruct (Qle_bool y x) eqn:E; [|reflexivity].
    apply Qle_bool_iff in E. exfalso. apply (Qlt_not_le _ _ H E).
Qed.

Lemma Qltb_false x y : Qltb x y = false <-> y <= x.
Proof.
  unfold Qltb. rewrite negb_false_iff. apply Qle_bool_iff.
Qed.

Lemma Qleb_false x y : Qle_bool x y = false <-> y < x.
Proof.
  split; intro H.
  - apply Qnot_le_lt. intro L. apply Qle_bool_iff in L. congruence.
  - destruct (Qle_bool x y) eqn:E; [|reflexivity].
    apply Qle_bool_iff in E. exfalso. apply (Qlt_not_le _ _ H E).
Qed.

(** ** data *)
(** [WallParams]: widths and offsets, one per field. *)
Record guess := mkGuess { g_widths : list Q; g_offsets : list Q }.

Fixpoint map2 (f : Q -> Q -> Q) (a b : list Q) : list Q :=
  match a, b with
  | x :: a', y :: b' => f x y :: map2 f a' b'
  | _, _ => []
  end.

(** [pMin + (pMax - pMin) * t], the interpolated first guess *)
Definition interp (gmin gmax : guess) (t : Q) : guess :=
  {| g_widths := map2 (fun a b => a + (b - a) * t) (g_widths gmin) (g_widths gmax);
     g_offsets := map2 (fun a b => a + (b - a) * t) (g_offsets gmin) (g_offsets gmax) |}.

(** what one [wallPressure] call returns and leaves behind *)
Record evalOut := mkEvalOut {
  eo_pressure : Q;
  eo_params : guess;       (* wallParams returned *)
  eo_Tplus : Q;            (* hydroResults.temperaturePlus *)
  eo_Tminus : Q;           (* hydroResults.temperatureMinus *)
  eo_tprofOk : bool;       (* self.successTemperatureProfile after the call *)
  eo_pressOk : bool        (* self.successWallPressure after the call *)
}.

(** one entry of the evaluation trace *)
Record evalRec := mkEvalRec { ev_v : Q; ev_atol : Q; ev_guess : guess; ev_out : evalOut }.

(** the mutable attributes of the EOM object that [solveWall] reads or writes *)
Record eomState := mkState { st_atol : Q; st_tprofOk : bool; st_pressOk : bool }.

(** where the tuple handed to [results.set*] came from: the n-th [wallPressure] call of
    this [solveWall] run, or one of the optional precomputed tuples *)
Inductive origin := FromEval (n : nat) | GivenMin | GivenMax.

Record sourced := mkSourced { so_out : evalOut; so_from : origin }.

Inductive solType := Deflagration | Detonation | Runaway | DeflagrationOrRunaway | ErrorType.

Inductive msgKind :=
  | MsgRunaway | MsgPositiveAtZero | MsgTemperatureProfile | MsgTminusRange | MsgTplusRange
  | MsgPressureNotConverged | MsgRootFinder | MsgSaturated | MsgFound.

Record rfOut := mkRf { rf_root : Q; rf_converged : bool; rf_evals : list Q }.

(** constants of the EOM / Hydrodynamics objects and the literals of [solveWall]
    (the literals are regenerated from the source by tools/gen_eom_facts.py and put here
    by the Props file) *)
Record config := mkConfig {
  c_errTol : Q;            (* self.errTol *)
  c_pressRelErrTol : Q;    (* self.pressRelErrTol *)
  c_vJ : Q;                (* self.hydrodynamics.vJ *)
  c_vLTE : Q;              (* self.hydrodynamics.findvwLTE() *)
  c_TMinLow : Q; c_TMaxLow : Q; c_TMinHigh : Q; c_TMaxHigh : Q;
  c_widthLo : Q; c_widthHi : Q;   (* wallThicknessBounds[i] / Tnucl *)
  c_offLo : Q; c_offHi : Q;       (* wallOffsetBounds[i] *)
  c_atol0 : Q;             (* literal: first value of pressAbsErrTol (1e-8) *)
  c_atolFactor : Q;        (* literal factor of the second one (0.01 / 4) *)
  c_endTol : Q;            (* literal of pressureWrapper (1e-10) *)
  c_xtol : Q;              (* what is passed as xtol to root_scalar *)
  c_velErr : Q -> Q        (* root |-> wallVelocityMinError *)
}.

Record results := mkResults {
  r_velocity : option Q;
  r_velErr : option Q;
  r_vLTE : Q;
  r_src : sourced;          (* the evaluation handed to setWallParams / setHydroResults /
                               setBoltzmannBackground / setBoltzmannResults *)
  r_success : bool;
  r_type : solType;
  r_msg : msgKind
}.

Definition r_Tplus (r : results) := eo_Tplus (so_out (r_src r)).
Definition r_Tminus (r : results) := eo_Tminus (so_out (r_src r)).
Definition r_params (r : results) := eo_params (so_out (r_src r)).

Record outcome := mkOutcome {
  o_res : results;
  o_state : eomState;        (* attributes left on the EOM object *)
  o_trace : list evalRec;    (* every wallPressure call, in order *)
  o_doublings : nat;         (* how often wallVelocityMin was doubled *)
  o_vmin : Q                 (* final wallVelocityMin *)
}.

Definition brentq_rtol : Q := 1 # 1125899906842624.   (* 4 * eps = 2^-50, scipy's default *)

Section Model.
Variable P : Q -> Q -> guess -> evalOut.
Variable rootfind : (Q -> Q) -> Q -> Q -> Q -> rfOut.
Variable c : config.

(** one wallPressure call: reads pressAbsErrTol, overwrites both flags *)
Definition evalAt (s : eomState) (tr : list evalRec) (v : Q) (g : guess)
  : eomState * list evalRec * sourced :=
  let o := P (st_atol s) v g in
  (mkState (st_atol s) (eo_tprofOk o) (eo_pressOk o),
   tr ++ [mkEvalRec v (st_atol s) g o],
   mkSourced o (FromEval (length tr))).

Definition setAtol (s : eomState) (a : Q) : eomState :=
  mkState a (st_tprofOk s) (st_pressOk s).

Definition pressureOf (x : sourced) : Q := eo_pressure (so_out x).

(** *** bracketing phase *)
Inductive loopOut :=
  | LOutOfFuel
  | LError (s : eomState) (tr : list evalRec) (cur : sourced) (k : nat) (vmin : Q)
  | LDone (s : eomState) (tr : list evalRec) (cur : sourced) (k : nat) (vmin : Q).

(** [while pressureMin > 0: wallVelocityMin *= 2; if wallVelocityMin >= wallVelocityMax:
     error; evaluate] *)
Fixpoint doubling (fuel : nat) (s : eomState) (tr : list evalRec) (cur : sourced) (k : nat)
         (vmin vmax : Q) (g0 : guess) : loopOut :=
  if Qltb 0 (pressureOf cur) then
    match fuel with
    | O => LOutOfFuel
    | S f =>
        let vmin2 := vmin * 2 in
        if Qle_bool vmax vmin2 then LError s tr cur (S k) vmin2
        else let '(s', tr', cur') := evalAt s tr vmin2 g0 in
             doubling f s' tr' cur' (S k) vmin2 vmax g0
    end
  else LDone s tr cur k vmin.

Definition failResults (src : sourced) (succ : bool) (ty : solType) (m : msgKind) : results :=
  mkResults None None (c_vLTE c) src succ ty m.

Inductive bracketOut :=
  | BOutOfFuel
  | BStop (o : outcome)                 (* runaway, or positive pressure up to vmax *)
  | BOk (s : eomState) (tr : list evalRec) (cMin cMax : sourced) (k : nat) (vmin : Q).

(** the pressure tuple at one end: computed, or the one supplied by the caller *)
Definition optEval (opt : option evalOut) (given : origin) (s : eomState) (tr : list evalRec)
           (v : Q) (g : guess) : eomState * list evalRec * sourced :=
  match opt with
  | None => evalAt s tr v g
  | Some o => (s, tr, mkSourced o given)
  end.

Definition bracket_phase (s0 : eomState) (vmin vmax : Q) (g0 : guess)
           (optMin optMax : option evalOut) (fuel : nat) : bracketOut :=
  let s1 := setAtol s0 (c_atol0 c) in
  let '(s2, tr2, cMax) := optEval optMax GivenMax s1 [] vmax g0 in
  if Qltb (pressureOf cMax) 0 then
    BStop (mkOutcome (failResults cMax true Runaway MsgRunaway) s2 tr2 0 vmin)
  else
    let '(s3, tr3, cMin) := optEval optMin GivenMin s2 tr2 vmin g0 in
    match doubling fuel s3 tr3 cMin 0 vmin vmax g0 with
    | LOutOfFuel => BOutOfFuel
    | LError s tr cur k v =>
        BStop (mkOutcome (failResults cur false ErrorType MsgPositiveAtZero) s tr k v)
    | LDone s tr cur k v => BOk s tr cur cMax k v
    end.

(** *** root phase *)
Definition atol2 (cMin cMax : sourced) : Q :=
  c_atolFactor c * c_errTol c * (1 - c_pressRelErrTol c) *
  Qmin (Qabs (pressureOf cMin)) (Qabs (pressureOf cMax)).

Definition nearOrBelow (x v : Q) : bool := Qltb (Qabs (x - v)) (c_endTol c) || Qltb x v.
Definition nearOrAbove (x v : Q) : bool := Qltb (Qabs (x - v)) (c_endTol c) || Qltb v x.

Definition guessAt (cMin cMax : sourced) (vmin vmax x : Q) : guess :=
  interp (eo_params (so_out cMin)) (eo_params (so_out cMax)) ((x - vmin) / (vmax - vmin)).

(** the closure [pressureWrapper] *)
Definition wrapper (a : Q) (cMin cMax : sourced) (vmin vmax : Q) (x : Q) : Q :=
  if nearOrBelow x vmin then pressureOf cMin
  else if nearOrAbove x vmax then pressureOf cMax
  else eo_pressure (P a x (guessAt cMin cMax vmin vmax x)).

(** replay of the calls the root finder made to [pressureWrapper]: those that are not
    answered from the cached end values reach wallPressure *)
Fixpoint replay (s : eomState) (tr : list evalRec) (cMin cMax : sourced) (vmin vmax : Q)
         (xs : list Q) : eomState * list evalRec :=
  match xs with
  | [] => (s, tr)
  | x :: xs' =>
      if nearOrBelow x vmin || nearOrAbove x vmax then replay s tr cMin cMax vmin vmax xs'
      else let '(s', tr', _) := evalAt s tr x (guessAt cMin cMax vmin vmax x) in
           replay s' tr' cMin cMax vmin vmax xs'
  end.

Definition inRange (x lo hi : Q) : bool := negb (Qltb x lo || Qltb hi x).

Definition saturated (g : guess) : bool :=
  existsb (fun w => Qeq_bool w (c_widthLo c)) (g_widths g)
  || existsb (fun w => Qeq_bool w (c_offLo c)) (g_offsets g)
  || existsb (fun w => Qeq_bool w (c_widthHi c)) (g_widths g)
  || existsb (fun w => Qeq_bool w (c_offHi c)) (g_offsets g).

(** the if/elif cascade that sets success, solution type and message *)
Definition verdict (s : eomState) (o : evalOut) (converged : bool) (v : Q)
  : bool * solType * msgKind :=
  if negb (st_tprofOk s) then (false, ErrorType, MsgTemperatureProfile)
  else if negb (inRange (eo_Tminus o) (c_TMinLow c) (c_TMaxLow c))
       then (false, ErrorType, MsgTminusRange)
  else if negb (inRange (eo_Tplus o) (c_TMinHigh c) (c_TMaxHigh c))
       then (false, ErrorType, MsgTplusRange)
  else if negb (st_pressOk s) then (false, ErrorType, MsgPressureNotConverged)
  else if negb converged then (false, ErrorType, MsgRootFinder)
  else if saturated (eo_params o) then (false, ErrorType, MsgSaturated)
  else (true, if Qltb (c_vJ c) v then Detonation else Deflagration, MsgFound).

Definition root_phase (s : eomState) (tr : list evalRec) (cMin cMax : sourced) (k : nat)
           (vmin vmax : Q) : outcome :=
  let a := atol2 cMin cMax in
  let s4 := setAtol s a in
  let rf := rootfind (wrapper a cMin cMax vmin vmax) vmin vmax (c_xtol c) in
  let '(s5, tr5) := replay s4 tr cMin cMax vmin vmax (rf_evals rf) in
  let v := rf_root rf in
  let '(s6, tr6, fin) := evalAt s5 tr5 v (guessAt cMin cMax vmin vmax v) in
  let '(succ, ty, m) := verdict s6 (so_out fin) (rf_converged rf) v in
  mkOutcome (mkResults (Some v) (Some (c_velErr c v)) (c_vLTE c) fin succ ty m) s6 tr6 k vmin.

(** brentq refuses a bracket whose end values have the same strict sign (ValueError, which
    solveWall does not catch).  With the cached end values this can only happen when the
    doubled lower end comes within [c_endTol] of the upper end (theorem
    [raises_only_degenerate]). *)
Definition sameSign (s : eomState) (cMin cMax : sourced) (vmin vmax : Q) : bool :=
  let W := wrapper (atol2 cMin cMax) cMin cMax vmin vmax in
  Qltb 0 (W vmin * W vmax).

Inductive run :=
  | ROutOfFuel                          (* artefact of the fuel; excluded by [solveWall_fuel] *)
  | RRaises (k : nat) (vmin : Q)        (* ValueError out of root_scalar *)
  | RDone (o : outcome).

Definition solveWall (s0 : eomState) (vmin vmax : Q) (g0 : guess)
           (optMin optMax : option evalOut) (fuel : nat) : run :=
  match bracket_phase s0 vmin vmax g0 optMin optMax fuel with
  | BOutOfFuel => ROutOfFuel
  | BStop o => RDone o
  | BOk s tr cMin cMax k v =>
      if sameSign s cMin cMax v vmax then RRaises k v
      else RDone (root_phase s tr cMin cMax k v vmax)
  end.

(** [findWallVelocityDeflagrationHybrid]: window [vMin, min(vJ, fastestDeflag)], uniform
    initial guess *)
Definition findDeflag (s0 : eomState) (vMinHydro fastestDeflag thickIni : Q) (nFields fuel : nat)
  : run :=
  solveWall s0 vMinHydro (Qmin (c_vJ c) fastestDeflag)
            (mkGuess (repeat thickIni nFields) (repeat 0 nFields)) None None fuel.

(** ** fuel that is always enough *)
Fixpoint pow2 (n : nat) : Q := match n with O => 1 | S m => pow2 m * 2 end.

Lemma pow2_pos n : 0 < pow2 n.
Proof. induction n; cbn [pow2]; lra. Qed.

Lemma pow2_linear n : inject_Z (Z.of_nat n) + 1 <= pow2 n.
Proof.
  induction n.
  - cbn [pow2 Z.of_nat]. change (inject_Z 0) with 0. lra.
  - rewrite Nat2Z.inj_succ. unfold Z.succ. rewrite inject_Z_plus. cbn [pow2].
    assert (0 <= inject_Z (Z.of_nat n)).
    { change 0 with (inject_Z 0). rewrite <- Zle_Qle. lia. }
    change (inject_Z 1) with 1. lra.
Qed.

(** enough fuel for the doubling loop (any larger number works as well) *)
Definition fuel_for (vmin vmax : Q) : nat := Z.to_nat (Qceiling (vmax / vmin)).

Lemma fuel_for_enough vmin vmax : 0 < vmin -> vmax <= vmin * pow2 (fuel_for vmin vmax).
Proof.
  intro Hpos. unfold fuel_for.
  set (z := Qceiling (vmax / vmin)).
  assert (Hz : vmax / vmin <= inject_Z z) by apply Qle_ceiling.
  assert (Hv : vmax == vmin * (vmax / vmin)) by (field; lra).
  pose proof (pow2_linear (Z.to_nat z)) as Hp.
  assert (Hz2 : inject_Z z <= inject_Z (Z.of_nat (Z.to_nat z))).
  { rewrite <- Zle_Qle. lia. }
  assert (H1 : vmax / vmin <= pow2 (Z.to_nat z)) by lra.
  rewrite Hv at 1.
  apply Qmult_le_l; assumption.
Qed.

Lemma doubling_fuel : forall fuel s tr cur k vmin vmax g0,
  0 < vmin -> vmin < vmax -> vmax <= vmin * pow2 fuel ->
  doubling fuel s tr cur k vmin vmax g0 <> LOutOfFuel.
Proof.
  induction fuel as [|f IH]; intros s tr cur k vmin vmax g0 Hpos Hlt Hf; cbn [doubling pow2] in *.
  - exfalso. lra.
  - destruct (Qltb 0 (pressureOf cur)); [|discriminate].
    destruct (Qle_bool vmax (vmin * 2)) eqn:E; [discriminate|].
    apply Qleb_false in E.
    destruct (evalAt s tr (vmin * 2) g0) as [[s' tr'] cur'].
    apply IH; lra.
Qed.

(** ** invariants of the doubling loop *)
Lemma doubling_done : forall fuel s tr cur k vmin vmax g0 s' tr' cur' k' vmin',
  vmin < vmax -> 0 < vmin ->
  doubling fuel s tr cur k vmin vmax g0 = LDone s' tr' cur' k' vmin' ->
  pressureOf cur' <= 0 /\ vmin <= vmin' /\ vmin' < vmax /\ (k <= k')%nat /\
  vmin' == vmin * pow2 (k' - k).
Proof.
  induction fuel as [|f IH]; intros s tr cur k vmin vmax g0 s' tr' cur' k' vmin' Hlt Hpos H;
    cbn [doubling] in H.
  - destruct (Qltb 0 (pressureOf cur)) eqn:E; [discriminate|].
    inversion H; subst. apply Qltb_false in E.
    rewrite Nat.sub_diag. cbn [pow2]. repeat split; try lra; try lia.
  - destruct (Qltb 0 (pressureOf cur)) eqn:E.
    + destruct (Qle_bool vmax (vmin * 2)) eqn:E2; [discriminate|].
      apply Qleb_false in E2.
      destruct (evalAt s tr (vmin * 2) g0) as [[s1 tr1] cur1].
      apply IH in H; try lra.
      destruct H as [H1 [H2 [H3 [H4 H5]]]].
      repeat split; try lra; try lia.
      replace (k' - k)%nat with (S (k' - S k)) by lia. cbn [pow2]. rewrite H5. ring.
    + inversion H; subst. apply Qltb_false in E.
      rewrite Nat.sub_diag. cbn [pow2]. repeat split; try lra; try lia.
Qed.

(** without positivity of vmin (the loop still keeps its order invariants when it ends) *)
Lemma doubling_done_weak : forall fuel s tr cur k vmin vmax g0 s' tr' cur' k' vmin',
  vmin < vmax ->
  doubling fuel s tr cur k vmin vmax g0 = LDone s' tr' cur' k' vmin' ->
  pressureOf cur' <= 0 /\ vmin' < vmax.
Proof.
  induction fuel as [|f IH]; intros s tr cur k vmin vmax g0 s' tr' cur' k' vmin' Hlt H;
    cbn [doubling] in H.
  - destruct (Qltb 0 (pressureOf cur)) eqn:E; [discriminate|].
    inversion H; subst. apply Qltb_false in E. split; lra.
  - destruct (Qltb 0 (pressureOf cur)) eqn:E.
    + destruct (Qle_bool vmax (vmin * 2)) eqn:E2; [discriminate|].
      apply Qleb_false in E2.
      destruct (evalAt s tr (vmin * 2) g0) as [[s1 tr1] cur1].
      apply IH in H; [exact H|lra].
    + inversion H; subst. apply Qltb_false in E. split; lra.
Qed.

(** ** facts about one evaluation *)
Lemma evalAt_spec s tr v g :
  evalAt s tr v g =
  (mkState (st_atol s) (eo_tprofOk (P (st_atol s) v g)) (eo_pressOk (P (st_atol s) v g)),
   tr ++ [mkEvalRec v (st_atol s) g (P (st_atol s) v g)],
   mkSourced (P (st_atol s) v g) (FromEval (length tr))).
Proof. reflexivity. Qed.

(** the mutable flags do not influence an evaluation; only pressAbsErrTol does *)
Lemma evalAt_atol_only s s' tr v g : st_atol s = st_atol s' -> evalAt s tr v g = evalAt s' tr v g.
Proof. intro H. rewrite !evalAt_spec, H. reflexivity. Qed.

Lemma replay_atol : forall xs s tr cMin cMax vmin vmax,
  st_atol (fst (replay s tr cMin cMax vmin vmax xs)) = st_atol s.
Proof.
  induction xs as [|x xs IH]; intros; cbn [replay]; [reflexivity|].
  destruct (nearOrBelow x vmin || nearOrAbove x vmax); [apply IH|].
  rewrite evalAt_spec. rewrite IH. reflexivity.
Qed.

(** the trace only grows *)
Lemma replay_trace : forall xs s tr cMin cMax vmin vmax,
  exists ext, snd (replay s tr cMin cMax vmin vmax xs) = tr ++ ext.
Proof.
  induction xs as [|x xs IH]; intros; cbn [replay].
  - exists []. symmetry. apply app_nil_r.
  - destruct (nearOrBelow x vmin || nearOrAbove x vmax); [apply IH|].
    rewrite evalAt_spec.
    destruct (IH (mkState (st_atol s) (eo_tprofOk (P (st_atol s) x (guessAt cMin cMax vmin vmax x)))
                          (eo_pressOk (P (st_atol s) x (guessAt cMin cMax vmin vmax x))))
                 (tr ++ [mkEvalRec x (st_atol s) (guessAt cMin cMax vmin vmax x)
                                   (P (st_atol s) x (guessAt cMin cMax vmin vmax x))])
                 cMin cMax vmin vmax) as [ext Hext].
    eexists. rewrite Hext. rewrite <- app_assoc. reflexivity.
Qed.

(** ** the verdict cascade *)
Definition allChecks (s : eomState) (o : evalOut) (converged : bool) : bool :=
  st_tprofOk s && inRange (eo_Tminus o) (c_TMinLow c) (c_TMaxLow c)
  && inRange (eo_Tplus o) (c_TMinHigh c) (c_TMaxHigh c)
  && st_pressOk s && converged && negb (saturated (eo_params o)).

Lemma verdict_spec s o cv v :
  verdict s o cv v =
  if allChecks s o cv
  then (true, if Qltb (c_vJ c) v then Detonation else Deflagration, MsgFound)
  else (false, ErrorType, snd (verdict s o cv v)).
Proof.
  unfold verdict, allChecks.
  destruct (st_tprofOk s); cbn [negb andb]; [|reflexivity].
  destruct (inRange (eo_Tminus o) (c_TMinLow c) (c_TMaxLow c)); cbn [negb andb]; [|reflexivity].
  destruct (inRange (eo_Tplus o) (c_TMinHigh c) (c_TMaxHigh c)); cbn [negb andb]; [|reflexivity].
  destruct (st_pressOk s); cbn [negb andb]; [|reflexivity].
  destruct cv; cbn [negb andb]; [|reflexivity].
  destruct (saturated (eo_params o)); cbn [negb andb]; reflexivity.
Qed.

Lemma verdict_error_iff s o cv v :
  snd (fst (verdict s o cv v)) = ErrorType <-> fst (fst (verdict s o cv v)) = false.
Proof.
  rewrite verdict_spec. destruct (allChecks s o cv); cbn [fst snd].
  - destruct (Qltb (c_vJ c) v); split; discriminate.
  - split; reflexivity.
Qed.

Lemma inRange_true x lo hi : inRange x lo hi = true <-> lo <= x /\ x <= hi.
Proof.
  unfold inRange. rewrite negb_true_iff, orb_false_iff, !Qltb_false. tauto.
Qed.

(** ** history independence at the level of the EOM object: nothing [solveWall] returns
       depends on the values of pressAbsErrTol / successTemperatureProfile /
       successWallPressure it finds on entry *)
Lemma replay_indep : forall xs s s' tr cMin cMax vmin vmax,
  st_atol s = st_atol s' ->
  st_atol (fst (replay s tr cMin cMax vmin vmax xs)) = st_atol (fst (replay s' tr cMin cMax vmin vmax xs))
  /\ snd (replay s tr cMin cMax vmin vmax xs) = snd (replay s' tr cMin cMax vmin vmax xs).
Proof.
  induction xs as [|x xs IH]; intros s s' tr cMin cMax vmin vmax H; cbn [replay].
  - split; [exact H|reflexivity].
  - destruct (nearOrBelow x vmin || nearOrAbove x vmax); [apply IH; exact H|].
    rewrite (evalAt_atol_only s s' _ _ _ H). split; reflexivity.
Qed.

Lemma root_phase_indep s s' tr cMin cMax k vmin vmax :
  root_phase s tr cMin cMax k vmin vmax = root_phase s' tr cMin cMax k vmin vmax.
Proof.
  unfold root_phase.
  set (a := atol2 cMin cMax).
  set (rf := rootfind (wrapper a cMin cMax vmin vmax) vmin vmax (c_xtol c)).
  destruct (replay_indep (rf_evals rf) (setAtol s a) (setAtol s' a) tr cMin cMax vmin vmax
                         eq_refl) as [Ha Ht].
  destruct (replay (setAtol s a) tr cMin cMax vmin vmax (rf_evals rf)) as [s5 tr5].
  destruct (replay (setAtol s' a) tr cMin cMax vmin vmax (rf_evals rf)) as [s5' tr5'].
  cbn [fst snd] in Ha, Ht. subst tr5'.
  rewrite (evalAt_atol_only s5 s5' _ _ _ Ha). reflexivity.
Qed.

(** what of an outcome is visible to the caller and to later calls, except the two flags
    when no evaluation was made at all (both tuples supplied, no doubling) *)
Definition visible (o : outcome) := (o_res o, o_trace o, o_doublings o, o_vmin o, st_atol (o_state o)).

Definition run_visible (r : run) :=
  match r with
  | ROutOfFuel => None
  | RRaises k v => Some (inl (k, v))
  | RDone o => Some (inr (visible o))
  end.

Lemma doubling_indep fuel s s' tr cur k vmin vmax g0 :
  st_atol s = st_atol s' ->
  match doubling fuel s tr cur k vmin vmax g0, doubling fuel s' tr cur k vmin vmax g0 with
  | LOutOfFuel, LOutOfFuel => True
  | LError a tr1 c1 k1 v1, LError b tr2 c2 k2 v2
  | LDone a tr1 c1 k1 v1, LDone b tr2 c2 k2 v2 =>
      st_atol a = st_atol b /\ tr1 = tr2 /\ c1 = c2 /\ k1 = k2 /\ v1 = v2
  | _, _ => False
  end.
Proof.
  intro H. destruct fuel as [|f]; cbn [doubling].
  - destruct (Qltb 0 (pressureOf cur)); [exact I|repeat split; assumption].
  - destruct (Qltb 0 (pressureOf cur)); [|repeat split; assumption].
    destruct (Qle_bool vmax (vmin * 2)); [repeat split; assumption|].
    rewrite (evalAt_atol_only s s' _ _ _ H).
    destruct (evalAt s' tr (vmin * 2) g0) as [[s1 tr1] cur1].
    destruct (doubling f s1 tr1 cur1 (S k) (vmin * 2) vmax g0); try exact I; repeat split.
Qed.

Lemma optEval_spec opt given s tr v g :
  exists s2 tr2 c2, optEval opt given s tr v g = (s2, tr2, c2) /\
    st_atol s2 = st_atol s /\
    so_out c2 = match opt with Some o => o | None => P (st_atol s) v g end.
Proof.
  destruct opt; cbn [optEval]; [|rewrite evalAt_spec]; do 3 eexists; repeat split.
Qed.

Lemma optEval_indep opt given s s' tr v g :
  st_atol s = st_atol s' ->
  exists s2 s2' tr2 c2, optEval opt given s tr v g = (s2, tr2, c2) /\
    optEval opt given s' tr v g = (s2', tr2, c2) /\ st_atol s2 = st_atol s2'.
Proof.
  intro H. destruct opt; cbn [optEval].
  - do 4 eexists. repeat split. exact H.
  - rewrite (evalAt_atol_only s s' _ _ _ H). rewrite evalAt_spec. do 4 eexists. repeat split.
Qed.

Theorem solveWall_state_independent s0 s0' vmin vmax g0 optMin optMax fuel :
  run_visible (solveWall s0 vmin vmax g0 optMin optMax fuel) =
  run_visible (solveWall s0' vmin vmax g0 optMin optMax fuel).
Proof.
  unfold solveWall, bracket_phase.
  destruct (optEval_indep optMax GivenMax (setAtol s0 (c_atol0 c)) (setAtol s0' (c_atol0 c))
                          [] vmax g0 eq_refl) as [s2 [s2' [tr2 [cMax [E2 [E2' Ha2]]]]]].
  rewrite E2, E2'.
  destruct (Qltb (pressureOf cMax) 0).
  { unfold run_visible, visible. cbn [o_res o_trace o_doublings o_vmin o_state]. rewrite Ha2. reflexivity. }
  destruct (optEval_indep optMin GivenMin s2 s2' tr2 vmin g0 Ha2)
    as [s3 [s3' [tr3 [cMin [E3 [E3' Ha3]]]]]].
  rewrite E3, E3'.
  pose proof (doubling_indep fuel s3 s3' tr3 cMin 0 vmin vmax g0 Ha3) as HD.
  destruct (doubling fuel s3 tr3 cMin 0 vmin vmax g0) as [|a tr4 c4 k4 v4|a tr4 c4 k4 v4];
    destruct (doubling fuel s3' tr3 cMin 0 vmin vmax g0) as [|b tr5 c5 k5 v5|b tr5 c5 k5 v5];
    try contradiction; try reflexivity.
  - destruct HD as [Ha [-> [-> [-> ->]]]].
    unfold run_visible, visible. cbn [o_res o_trace o_doublings o_vmin o_state]. rewrite Ha. reflexivity.
  - destruct HD as [Ha [-> [-> [-> ->]]]].
    unfold sameSign. destruct (Qltb 0 _); [reflexivity|].
    rewrite (root_phase_indep a b). reflexivity.
Qed.

(** ** the contract of the root finder (hypothesis, validated at run time on the recorded
       evaluation trace of every real run) *)
Definition brentq_spec (W : Q -> Q) (a b xtol : Q) (r : rfOut) : Prop :=
  a <= rf_root r /\ rf_root r <= b /\
  (rf_converged r = true ->
   exists lo hi, a <= lo /\ lo <= rf_root r /\ rf_root r <= hi /\ hi <= b /\
                 W lo <= 0 /\ 0 <= W hi /\
                 hi - lo < xtol + brentq_rtol * Qabs (rf_root r)).

Definition rootfind_contract : Prop :=
  forall W a b xtol, a < b -> W a <= 0 -> 0 <= W b -> brentq_spec W a b xtol (rootfind W a b xtol).

(** the bracketing phase hands the root finder a genuine bracket *)
Lemma doubling_atol : forall fuel s tr cur k vmin vmax g0 s' tr' cur' k' vmin',
  doubling fuel s tr cur k vmin vmax g0 = LDone s' tr' cur' k' vmin' -> st_atol s' = st_atol s.
Proof.
  induction fuel as [|f IH]; intros s tr cur k vmin vmax g0 s' tr' cur' k' vmin' ED;
    cbn [doubling] in ED.
  - destruct (Qltb 0 (pressureOf cur)); [discriminate|]. inversion ED; subst. reflexivity.
  - destruct (Qltb 0 (pressureOf cur)); [|inversion ED; subst; reflexivity].
    destruct (Qle_bool vmax (vmin * 2)); [discriminate|].
    rewrite evalAt_spec in ED. apply IH in ED. exact ED.
Qed.

Lemma bracket_ok s0 vmin vmax g0 optMin optMax fuel s tr cMin cMax k v :
  vmin < vmax ->
  bracket_phase s0 vmin vmax g0 optMin optMax fuel = BOk s tr cMin cMax k v ->
  pressureOf cMin <= 0 /\ 0 <= pressureOf cMax /\ v < vmax /\
  st_atol s = c_atol0 c /\
  so_out cMax = match optMax with Some o => o | None => P (c_atol0 c) vmax g0 end.
Proof.
  intros Hlt H. unfold bracket_phase in H.
  destruct (optEval_spec optMax GivenMax (setAtol s0 (c_atol0 c)) [] vmax g0)
    as [s2 [tr2 [cM [E2 [Ha2 HcM]]]]].
  rewrite E2 in H. cbn [setAtol st_atol] in Ha2, HcM.
  destruct (Qltb (pressureOf cM) 0) eqn:Ep; [discriminate|]. apply Qltb_false in Ep.
  destruct (optEval_spec optMin GivenMin s2 tr2 vmin g0) as [s3 [tr3 [cm [E3 [Ha3 _]]]]].
  rewrite E3 in H.
  destruct (doubling fuel s3 tr3 cm 0 vmin vmax g0) as [|? ? ? ? ?|s' tr' cur' k' v'] eqn:ED;
    try discriminate.
  inversion H; subst. clear H.
  destruct (doubling_done_weak _ _ _ _ _ _ _ _ _ _ _ _ _ Hlt ED) as [H1 H2].
  apply doubling_atol in ED.
  repeat split; try assumption. congruence.
Qed.

(** values of the wrapper at the two ends of the bracket *)
Lemma wrapper_at_vmin a cMin cMax vmin vmax :
  0 < c_endTol c -> wrapper a cMin cMax vmin vmax vmin = pressureOf cMin.
Proof.
  intro H. unfold wrapper, nearOrBelow.
  assert (E : Qltb (Qabs (vmin - vmin)) (c_endTol c) = true).
  { apply Qltb_true. assert (Hz : vmin - vmin == 0) by ring. rewrite Hz. exact H. }
  rewrite E. reflexivity.
Qed.

Lemma wrapper_at_vmax a cMin cMax vmin vmax :
  0 < c_endTol c ->
  wrapper a cMin cMax vmin vmax vmax = pressureOf cMin \/
  wrapper a cMin cMax vmin vmax vmax = pressureOf cMax.
Proof.
  intro H. unfold wrapper.
  destruct (nearOrBelow vmax vmin); [left; reflexivity|right].
  unfold nearOrAbove.
  assert (E : Qltb (Qabs (vmax - vmax)) (c_endTol c) = true).
  { apply Qltb_true. assert (Hz : vmax - vmax == 0) by ring. rewrite Hz. exact H. }
  rewrite E. reflexivity.
Qed.

(** inside the bracket and away from its ends the wrapper IS the pressure evaluated with the
    tolerance and first guess of this run *)
Lemma wrapper_inside a cMin cMax vmin vmax x :
  vmin + c_endTol c <= x -> x <= vmax - c_endTol c -> 0 <= c_endTol c ->
  wrapper a cMin cMax vmin vmax x = eo_pressure (P a x (guessAt cMin cMax vmin vmax x)).
Proof.
  intros H1 H2 H0. unfold wrapper, nearOrBelow, nearOrAbove.
  assert (E1 : Qltb (Qabs (x - vmin)) (c_endTol c) = false).
  { apply Qltb_false. rewrite Qabs_pos; lra. }
  assert (E2 : Qltb x vmin = false) by (apply Qltb_false; lra).
  assert (E3 : Qltb (Qabs (x - vmax)) (c_endTol c) = false).
  { apply Qltb_false. rewrite Qabs_neg; lra. }
  assert (E4 : Qltb vmax x = false) by (apply Qltb_false; lra).
  rewrite E1, E2, E3, E4. reflexivity.
Qed.

(** *** the outcomes, classified *)
Inductive classified (s0 : eomState) (vmin vmax : Q) (g0 : guess)
          (optMin optMax : option evalOut) (fuel : nat) : run -> Prop :=
  | CFuel : classified s0 vmin vmax g0 optMin optMax fuel ROutOfFuel
  | CStop o : bracket_phase s0 vmin vmax g0 optMin optMax fuel = BStop o ->
              classified s0 vmin vmax g0 optMin optMax fuel (RDone o)
  | CRaise s tr cMin cMax k v :
      bracket_phase s0 vmin vmax g0 optMin optMax fuel = BOk s tr cMin cMax k v ->
      sameSign s cMin cMax v vmax = true ->
      classified s0 vmin vmax g0 optMin optMax fuel (RRaises k v)
  | CRoot s tr cMin cMax k v :
      bracket_phase s0 vmin vmax g0 optMin optMax fuel = BOk s tr cMin cMax k v ->
      sameSign s cMin cMax v vmax = false ->
      classified s0 vmin vmax g0 optMin optMax fuel (RDone (root_phase s tr cMin cMax k v vmax)).

Lemma solveWall_classified s0 vmin vmax g0 optMin optMax fuel :
  classified s0 vmin vmax g0 optMin optMax fuel (solveWall s0 vmin vmax g0 optMin optMax fuel).
Proof.
  unfold solveWall.
  destruct (bracket_phase s0 vmin vmax g0 optMin optMax fuel) as [|o|s tr cMin cMax k v] eqn:E.
  - constructor.
  - apply CStop. exact E.
  - destruct (sameSign s cMin cMax v vmax) eqn:ES.
    + eapply CRaise; eassumption.
    + eapply CRoot; eassumption.
Qed.

(** a stop in the bracketing phase never carries a velocity *)
Lemma doubling_error : forall fuel s tr cur k vmin vmax g0 s' tr' cur' k' vmin',
  doubling fuel s tr cur k vmin vmax g0 = LError s' tr' cur' k' vmin' ->
  0 < pressureOf cur' /\ vmax <= vmin' /\ (k < k')%nat.
Proof.
  induction fuel as [|f IH]; intros s tr cur k vmin vmax g0 s' tr' cur' k' vmin' ED;
    cbn [doubling] in ED.
  - destruct (Qltb 0 (pressureOf cur)); discriminate.
  - destruct (Qltb 0 (pressureOf cur)) eqn:E0; [|discriminate].
    destruct (Qle_bool vmax (vmin * 2)) eqn:E1.
    + inversion ED; subst. apply Qltb_true in E0. apply Qle_bool_iff in E1.
      repeat split; try assumption. lia.
    + rewrite evalAt_spec in ED. apply IH in ED. destruct ED as [A [B C]].
      repeat split; try assumption. lia.
Qed.

Lemma bracket_stop_shape s0 vmin vmax g0 optMin optMax fuel o :
  bracket_phase s0 vmin vmax g0 optMin optMax fuel = BStop o ->
  r_velocity (o_res o) = None /\ r_velErr (o_res o) = None /\ r_vLTE (o_res o) = c_vLTE c /\
  ((r_success (o_res o) = true /\ r_type (o_res o) = Runaway /\ r_msg (o_res o) = MsgRunaway /\
    pressureOf (r_src (o_res o)) < 0 /\
    so_out (r_src (o_res o)) = match optMax with Some x => x | None => P (c_atol0 c) vmax g0 end)
   \/
   (r_success (o_res o) = false /\ r_type (o_res o) = ErrorType /\
    r_msg (o_res o) = MsgPositiveAtZero /\ 0 < pressureOf (r_src (o_res o)) /\
    vmax <= o_vmin o /\ (0 < o_doublings o)%nat)).
Proof.
  intro H. unfold bracket_phase in H.
  destruct (optEval_spec optMax GivenMax (setAtol s0 (c_atol0 c)) [] vmax g0)
    as [s2 [tr2 [cM [E2 [Ha2 HcM]]]]].
  rewrite E2 in H. cbn [setAtol st_atol] in Ha2, HcM.
  destruct (Qltb (pressureOf cM) 0) eqn:Ep.
  - inversion H; subst. cbn. repeat split. left. apply Qltb_true in Ep.
    repeat split; assumption.
  - destruct (optEval optMin GivenMin s2 tr2 vmin g0) as [[s3 tr3] cm].
    destruct (doubling fuel s3 tr3 cm 0 vmin vmax g0) as [|s' tr' cur' k' v'|] eqn:ED;
      try discriminate.
    inversion H; subst. cbn. repeat split. right.
    apply doubling_error in ED. destruct ED as [A [B C]]. repeat split; assumption.
Qed.

(** shape of a root-phase outcome: the LAST evaluation of the run is made at the returned
    velocity, with the run's final tolerance and the interpolated guess; the result's
    fields, the flags left on the object and the verdict all come from it *)
Lemma root_phase_shape s tr cMin cMax k vmin vmax :
  let a := atol2 cMin cMax in
  let rf := rootfind (wrapper a cMin cMax vmin vmax) vmin vmax (c_xtol c) in
  let v := rf_root rf in
  let g := guessAt cMin cMax vmin vmax v in
  let fin := P a v g in
  let out := root_phase s tr cMin cMax k vmin vmax in
  exists ext,
    o_trace out = (tr ++ ext) ++ [mkEvalRec v a g fin] /\
    r_src (o_res out) = mkSourced fin (FromEval (length (tr ++ ext))) /\
    r_velocity (o_res out) = Some v /\ r_velErr (o_res out) = Some (c_velErr c v) /\
    r_vLTE (o_res out) = c_vLTE c /\
    o_state out = mkState a (eo_tprofOk fin) (eo_pressOk fin) /\
    (r_success (o_res out), r_type (o_res out), r_msg (o_res out)) =
      verdict (mkState a (eo_tprofOk fin) (eo_pressOk fin)) fin (rf_converged rf) v /\
    o_doublings out = k /\ o_vmin out = vmin.
Proof.
  intros a rf v g fin out. unfold out, root_phase. fold a. fold rf.
  pose proof (replay_atol (rf_evals rf) (setAtol s a) tr cMin cMax vmin vmax) as Ha.
  destruct (replay_trace (rf_evals rf) (setAtol s a) tr cMin cMax vmin vmax) as [ext Hext].
  destruct (replay (setAtol s a) tr cMin cMax vmin vmax (rf_evals rf)) as [s5 tr5].
  cbn [fst snd] in Ha, Hext. subst tr5. cbn [setAtol st_atol] in Ha.
  rewrite evalAt_spec. rewrite Ha. fold v. fold g. fold fin.
  exists ext. cbn.
  destruct (verdict (mkState a (eo_tprofOk fin) (eo_pressOk fin)) fin (rf_converged rf) v)
    as [[succ ty] m] eqn:EV.
  cbn. repeat split.
Qed.

(** ** main theorems *)
Lemma done_inv s0 vmin vmax g0 optMin optMax fuel o :
  solveWall s0 vmin vmax g0 optMin optMax fuel = RDone o ->
  bracket_phase s0 vmin vmax g0 optMin optMax fuel = BStop o \/
  exists s tr cMin cMax k v,
    bracket_phase s0 vmin vmax g0 optMin optMax fuel = BOk s tr cMin cMax k v /\
    sameSign s cMin cMax v vmax = false /\ o = root_phase s tr cMin cMax k v vmax.
Proof.
  intro H. pose proof (solveWall_classified s0 vmin vmax g0 optMin optMax fuel) as C.
  rewrite H in C. inversion C; subst.
  - left. assumption.
  - right. do 6 eexists. repeat split; eassumption.
Qed.

Lemma root_inv s0 vmin vmax g0 optMin optMax fuel o v :
  solveWall s0 vmin vmax g0 optMin optMax fuel = RDone o ->
  r_velocity (o_res o) = Some v ->
  exists s tr cMin cMax,
    bracket_phase s0 vmin vmax g0 optMin optMax fuel = BOk s tr cMin cMax (o_doublings o) (o_vmin o) /\
    sameSign s cMin cMax (o_vmin o) vmax = false /\
    o = root_phase s tr cMin cMax (o_doublings o) (o_vmin o) vmax.
Proof.
  intros H Hv. destruct (done_inv _ _ _ _ _ _ _ _ H) as [HS|[s [tr [cMin [cMax [k [v' [HB [HS Ho]]]]]]]]].
  - apply bracket_stop_shape in HS. destruct HS as [HN _]. congruence.
  - destruct (root_phase_shape s tr cMin cMax k v' vmax) as [ext [_ [_ [_ [_ [_ [_ [_ [Hk Hvm]]]]]]]]].
    rewrite <- Ho in Hk, Hvm. subst k v'. do 4 eexists. repeat split; eassumption.
Qed.

Lemma sq_nonpos_zero x : x <= 0 -> ~ 0 < x * x -> x == 0.
Proof.
  intros H1 H2. destruct (Qlt_le_dec x 0) as [L|L]; [|lra].
  exfalso. apply H2. setoid_replace (x * x) with ((- x) * (- x)) by ring.
  apply Qmult_lt_0_compat; lra.
Qed.

(** C01, first clause: on success with a velocity [v], the root finder's bracket
    [lo <= v <= hi] is narrower than xtol + rtol |v|, lies in the searched window, and the
    pressure seen by the root finder is <= 0 at [lo] and >= 0 at [hi]. *)
Theorem success_brackets s0 vmin vmax g0 optMin optMax fuel o v :
  rootfind_contract -> 0 < c_endTol c -> vmin < vmax ->
  solveWall s0 vmin vmax g0 optMin optMax fuel = RDone o ->
  r_success (o_res o) = true -> r_velocity (o_res o) = Some v ->
  exists s tr cMin cMax,
    bracket_phase s0 vmin vmax g0 optMin optMax fuel = BOk s tr cMin cMax (o_doublings o) (o_vmin o) /\
    pressureOf cMin <= 0 /\ 0 <= pressureOf cMax /\ o_vmin o < vmax /\
    o_vmin o <= v /\ v <= vmax /\
    let W := wrapper (atol2 cMin cMax) cMin cMax (o_vmin o) vmax in
    exists lo hi, o_vmin o <= lo /\ lo <= v /\ v <= hi /\ hi <= vmax /\
                  W lo <= 0 /\ 0 <= W hi /\ hi - lo < c_xtol c + brentq_rtol * Qabs v.
Proof.
  intros HRF Hend Hlt H Hs Hv.
  destruct (root_inv _ _ _ _ _ _ _ _ _ H Hv) as [s [tr [cMin [cMax [HB [HS Ho]]]]]].
  exists s, tr, cMin, cMax. split; [exact HB|].
  destruct (bracket_ok _ _ _ _ _ _ _ _ _ _ _ _ _ Hlt HB) as [Hmin [Hmax [Hvm _]]].
  repeat (split; [assumption|]).
  set (vm := o_vmin o) in *. set (k := o_doublings o) in *.
  destruct (root_phase_shape s tr cMin cMax k vm vmax)
    as [ext [_ [_ [Hvel [_ [_ [_ [Hverd _]]]]]]]].
  rewrite <- Ho in Hvel, Hverd. rewrite Hv in Hvel. inversion Hvel as [Hroot]. clear Hvel.
  rewrite Hs in Hverd. rewrite verdict_spec in Hverd.
  set (a := atol2 cMin cMax) in *.
  set (W := wrapper a cMin cMax vm vmax) in *.
  set (rf := rootfind W vm vmax (c_xtol c)) in *.
  assert (Hconv : rf_converged rf = true).
  { destruct (allChecks _ _ (rf_converged rf)) eqn:EA; [|inversion Hverd].
    unfold allChecks in EA. rewrite !andb_true_iff in EA. tauto. }
  assert (HWa : W vm <= 0).
  { unfold W. rewrite wrapper_at_vmin by exact Hend. exact Hmin. }
  assert (HWb : 0 <= W vmax).
  { unfold sameSign in HS. fold a in HS. fold W in HS. apply Qltb_false in HS.
    destruct (wrapper_at_vmax a cMin cMax vm vmax Hend) as [E|E]; fold W in E.
    - assert (Ea : W vm == pressureOf cMin).
      { unfold W. rewrite wrapper_at_vmin by exact Hend. reflexivity. }
      assert (Hz : pressureOf cMin == 0).
      { apply sq_nonpos_zero; [exact Hmin|]. intro L. rewrite E, Ea in HS. lra. }
      rewrite E. lra.
    - rewrite E. exact Hmax. }
  destruct (HRF W vm vmax (c_xtol c) Hvm HWa HWb) as [R1 [R2 R3]]. fold rf in R1, R2, R3.
  rewrite <- Hroot in *.
  split; [exact R1|]. split; [exact R2|].
  destruct (R3 Hconv) as [lo [hi R]]. exists lo, hi. exact R.
Qed.

(** when it reports a runaway: pressure at the top of the window negative, no velocity,
    success; the fields come from the evaluation at vmax *)
Theorem runaway_sound s0 vmin vmax g0 optMin optMax fuel o :
  solveWall s0 vmin vmax g0 optMin optMax fuel = RDone o ->
  r_type (o_res o) = Runaway ->
  r_success (o_res o) = true /\ r_velocity (o_res o) = None /\
  so_out (r_src (o_res o)) = match optMax with Some x => x | None => P (c_atol0 c) vmax g0 end /\
  eo_pressure (match optMax with Some x => x | None => P (c_atol0 c) vmax g0 end) < 0.
Proof.
  intros H Ht.
  destruct (done_inv _ _ _ _ _ _ _ _ H) as [HS|[s [tr [cMin [cMax [k [v' [HB [HS Ho]]]]]]]]].
  - apply bracket_stop_shape in HS.
    destruct HS as [HN [_ [_ [[A [_ [_ [Pn Src]]]]|[_ [B _]]]]]]; [|congruence].
    repeat split; try assumption. rewrite <- Src. exact Pn.
  - exfalso.
    destruct (root_phase_shape s tr cMin cMax k v' vmax) as [ext [_ [_ [_ [_ [_ [_ [Hverd _]]]]]]]].
    rewrite <- Ho in Hverd. rewrite verdict_spec in Hverd. rewrite Ht in Hverd.
    destruct (allChecks _ _ _); [destruct (Qltb _ _)|]; inversion Hverd.
Qed.

(** an unsuccessful run is always labelled as an error, and only those are *)
Theorem error_iff_not_success s0 vmin vmax g0 optMin optMax fuel o :
  solveWall s0 vmin vmax g0 optMin optMax fuel = RDone o ->
  (r_type (o_res o) = ErrorType <-> r_success (o_res o) = false).
Proof.
  intro H.
  destruct (done_inv _ _ _ _ _ _ _ _ H) as [HS|[s [tr [cMin [cMax [k [v' [HB [HS Ho]]]]]]]]].
  - apply bracket_stop_shape in HS.
    destruct HS as [_ [_ [_ [[A [B _]]|[A [B _]]]]]]; rewrite A, B; split; congruence.
  - destruct (root_phase_shape s tr cMin cMax k v' vmax) as [ext [_ [_ [_ [_ [_ [_ [Hverd _]]]]]]]].
    rewrite <- Ho in Hverd.
    pose proof (verdict_error_iff (mkState (atol2 cMin cMax)
       (eo_tprofOk (P (atol2 cMin cMax) (rf_root (rootfind (wrapper (atol2 cMin cMax) cMin cMax v' vmax) v' vmax (c_xtol c)))
            (guessAt cMin cMax v' vmax (rf_root (rootfind (wrapper (atol2 cMin cMax) cMin cMax v' vmax) v' vmax (c_xtol c))))))
       (eo_pressOk (P (atol2 cMin cMax) (rf_root (rootfind (wrapper (atol2 cMin cMax) cMin cMax v' vmax) v' vmax (c_xtol c)))
            (guessAt cMin cMax v' vmax (rf_root (rootfind (wrapper (atol2 cMin cMax) cMin cMax v' vmax) v' vmax (c_xtol c)))))))
       (P (atol2 cMin cMax) (rf_root (rootfind (wrapper (atol2 cMin cMax) cMin cMax v' vmax) v' vmax (c_xtol c)))
            (guessAt cMin cMax v' vmax (rf_root (rootfind (wrapper (atol2 cMin cMax) cMin cMax v' vmax) v' vmax (c_xtol c)))))
       (rf_converged (rootfind (wrapper (atol2 cMin cMax) cMin cMax v' vmax) v' vmax (c_xtol c)))
       (rf_root (rootfind (wrapper (atol2 cMin cMax) cMin cMax v' vmax) v' vmax (c_xtol c)))) as HV.
    rewrite <- Hverd in HV. cbn [fst snd] in HV. exact HV.
Qed.

(** no velocity is reported exactly in the two bracketing-phase stops *)
Theorem velocity_none_iff s0 vmin vmax g0 optMin optMax fuel o :
  solveWall s0 vmin vmax g0 optMin optMax fuel = RDone o ->
  (r_velocity (o_res o) = None <->
   (r_msg (o_res o) = MsgRunaway \/ r_msg (o_res o) = MsgPositiveAtZero)).
Proof.
  intro H.
  destruct (done_inv _ _ _ _ _ _ _ _ H) as [HS|[s [tr [cMin [cMax [k [v' [HB [HS Ho]]]]]]]]].
  - apply bracket_stop_shape in HS.
    destruct HS as [N [_ [_ [[_ [_ [M _]]]|[_ [_ [M _]]]]]]]; rewrite N, M; split; auto.
  - destruct (root_phase_shape s tr cMin cMax k v' vmax) as [ext [_ [_ [Hvel [_ [_ [_ [Hverd _]]]]]]]].
    rewrite <- Ho in Hvel, Hverd. rewrite Hvel. split; [discriminate|].
    intros [M|M]; exfalso; rewrite M in Hverd; unfold verdict in Hverd;
      repeat match type of Hverd with
             | context [if ?b then _ else _] => destruct b
             end; inversion Hverd.
Qed.

(** a success with a velocity has passed every check of the cascade, evaluated on the final
    evaluation (the one made at the returned velocity), and is typed by v > vJ *)
Theorem success_checks s0 vmin vmax g0 optMin optMax fuel o v :
  solveWall s0 vmin vmax g0 optMin optMax fuel = RDone o ->
  r_success (o_res o) = true -> r_velocity (o_res o) = Some v ->
  let fin := so_out (r_src (o_res o)) in
  eo_tprofOk fin = true /\ eo_pressOk fin = true /\
  c_TMinLow c <= eo_Tminus fin /\ eo_Tminus fin <= c_TMaxLow c /\
  c_TMinHigh c <= eo_Tplus fin /\ eo_Tplus fin <= c_TMaxHigh c /\
  saturated (eo_params fin) = false /\
  r_msg (o_res o) = MsgFound /\
  ((r_type (o_res o) = Detonation /\ c_vJ c < v) \/ (r_type (o_res o) = Deflagration /\ v <= c_vJ c)).
Proof.
  intros H Hs Hv fin.
  destruct (root_inv _ _ _ _ _ _ _ _ _ H Hv) as [s [tr [cMin [cMax [HB [HS Ho]]]]]].
  destruct (root_phase_shape s tr cMin cMax (o_doublings o) (o_vmin o) vmax)
    as [ext [_ [Hsrc [Hvel [_ [_ [_ [Hverd _]]]]]]]].
  rewrite <- Ho in Hsrc, Hvel, Hverd. rewrite Hv in Hvel. inversion Hvel as [Hroot]. clear Hvel.
  unfold fin. rewrite Hsrc. cbn [so_out].
  rewrite <- Hroot in *.
  set (a := atol2 cMin cMax) in *.
  set (f := P a v (guessAt cMin cMax (o_vmin o) vmax v)) in *.
  rewrite verdict_spec in Hverd. rewrite Hs in Hverd.
  destruct (allChecks _ f _) eqn:EA; [|inversion Hverd].
  unfold allChecks in EA. rewrite !andb_true_iff in EA. cbn [st_tprofOk st_pressOk] in EA.
  destruct EA as [[[[[A1 A2] A3] A4] A5] A6].
  apply inRange_true in A2. apply inRange_true in A3. apply negb_true_iff in A6.
  destruct (Qltb (c_vJ c) v) eqn:EJ; inversion Hverd as [[Ht Hm]]; repeat split; try tauto.
  - left. split; [reflexivity|]. apply Qltb_true. exact EJ.
  - right. split; [reflexivity|]. apply Qltb_false. exact EJ.
Qed.

(** the fields returned with a velocity are those of the evaluation made AT that velocity,
    which is the last evaluation of the run; the flags left on the object are its flags *)
Theorem results_from_final_eval s0 vmin vmax g0 optMin optMax fuel o v :
  solveWall s0 vmin vmax g0 optMin optMax fuel = RDone o ->
  r_velocity (o_res o) = Some v ->
  exists earlier a g,
    o_trace o = earlier ++ [mkEvalRec v a g (P a v g)] /\
    r_src (o_res o) = mkSourced (P a v g) (FromEval (length earlier)) /\
    o_state o = mkState a (eo_tprofOk (P a v g)) (eo_pressOk (P a v g)) /\
    r_velErr (o_res o) = Some (c_velErr c v) /\ r_vLTE (o_res o) = c_vLTE c.
Proof.
  intros H Hv.
  destruct (root_inv _ _ _ _ _ _ _ _ _ H Hv) as [s [tr [cMin [cMax [HB [HS Ho]]]]]].
  destruct (root_phase_shape s tr cMin cMax (o_doublings o) (o_vmin o) vmax)
    as [ext [Htr [Hsrc [Hvel [Herr [Hlte [Hst _]]]]]]].
  rewrite <- Ho in Htr, Hsrc, Hvel, Herr, Hlte, Hst.
  rewrite Hv in Hvel. inversion Hvel as [Hroot]. rewrite <- Hroot in *.
  do 3 eexists. repeat split; eassumption.
Qed.

(** the doubling loop terminates: with fuel >= fuel_for the out-of-fuel outcome is unreachable *)
Lemma pow2_mono n m : (n <= m)%nat -> pow2 n <= pow2 m.
Proof.
  induction 1; [lra|]. cbn [pow2]. pose proof (pow2_pos m). lra.
Qed.

Theorem doubling_terminates s0 vmin vmax g0 optMin optMax fuel :
  0 < vmin -> vmin < vmax -> (fuel_for vmin vmax <= fuel)%nat ->
  solveWall s0 vmin vmax g0 optMin optMax fuel <> ROutOfFuel.
Proof.
  intros Hpos Hlt Hf. unfold solveWall, bracket_phase.
  destruct (optEval optMax GivenMax (setAtol s0 (c_atol0 c)) [] vmax g0) as [[s2 tr2] cM].
  destruct (Qltb (pressureOf cM) 0); [discriminate|].
  destruct (optEval optMin GivenMin s2 tr2 vmin g0) as [[s3 tr3] cm].
  pose proof (doubling_fuel fuel s3 tr3 cm 0 vmin vmax g0 Hpos Hlt) as HD.
  assert (Hfuel : vmax <= vmin * pow2 fuel).
  { pose proof (fuel_for_enough vmin vmax Hpos). pose proof (pow2_mono _ _ Hf).
    assert (vmin * pow2 (fuel_for vmin vmax) <= vmin * pow2 fuel).
    { apply Qmult_le_l; assumption. }
    lra. }
  specialize (HD Hfuel).
  destruct (doubling fuel s3 tr3 cm 0 vmin vmax g0); try congruence; try discriminate.
  destruct (sameSign _ _ _ _ _); discriminate.
Qed.

(** the lower end after k doublings is vmin * 2^k and stays inside the window *)
Theorem doubled_vmin s0 vmin vmax g0 optMin optMax fuel o v :
  0 < vmin -> vmin < vmax ->
  solveWall s0 vmin vmax g0 optMin optMax fuel = RDone o -> r_velocity (o_res o) = Some v ->
  o_vmin o == vmin * pow2 (o_doublings o) /\ vmin <= o_vmin o /\ o_vmin o < vmax.
Proof.
  intros Hpos Hlt H Hv.
  destruct (root_inv _ _ _ _ _ _ _ _ _ H Hv) as [s [tr [cMin [cMax [HB [HS Ho]]]]]].
  unfold bracket_phase in HB.
  destruct (optEval optMax GivenMax (setAtol s0 (c_atol0 c)) [] vmax g0) as [[s2 tr2] cM].
  destruct (Qltb (pressureOf cM) 0); [discriminate|].
  destruct (optEval optMin GivenMin s2 tr2 vmin g0) as [[s3 tr3] cm].
  destruct (doubling fuel s3 tr3 cm 0 vmin vmax g0) as [| |s' tr' cur' k' v'] eqn:ED; try discriminate.
  inversion HB as [[E1 E2 E3 E4 E5 E6]]. rewrite E5, E6 in ED.
  destruct (doubling_done _ _ _ _ _ _ _ _ _ _ _ _ _ Hlt Hpos ED) as [_ [A [B [_ D]]]].
  rewrite Nat.sub_0_r in D. repeat split; assumption.
Qed.

(** the only exception [solveWall] lets escape from the root finder needs the doubled lower
    end within [c_endTol] of the upper end *)
Theorem raises_only_degenerate s0 vmin vmax g0 optMin optMax fuel k v :
  0 < c_endTol c -> vmin < vmax ->
  solveWall s0 vmin vmax g0 optMin optMax fuel = RRaises k v ->
  v < vmax /\ vmax - v < c_endTol c.
Proof.
  intros Hend Hlt H.
  pose proof (solveWall_classified s0 vmin vmax g0 optMin optMax fuel) as C.
  rewrite H in C. inversion C; subst.
  match goal with HB : bracket_phase _ _ _ _ _ _ _ = BOk _ _ _ _ _ _ |- _ =>
    destruct (bracket_ok _ _ _ _ _ _ _ _ _ _ _ _ _ Hlt HB) as [Hmin [Hmax [Hvm _]]] end.
  split; [exact Hvm|].
  match goal with HS : sameSign _ _ _ _ _ = true |- _ => rename HS into H5 end.
  unfold sameSign in H5. apply Qltb_true in H5.
  rewrite wrapper_at_vmin in H5 by exact Hend.
  unfold wrapper in H5.
  destruct (nearOrBelow vmax v) eqn:EN.
  - unfold nearOrBelow in EN. apply orb_true_iff in EN. destruct EN as [EN|EN].
    + apply Qltb_true in EN. rewrite Qabs_pos in EN; lra.
    + apply Qltb_true in EN. lra.
  - exfalso. unfold nearOrAbove in H5.
    assert (E : Qltb (Qabs (vmax - vmax)) (c_endTol c) = true).
    { apply Qltb_true. assert (Hz : vmax - vmax == 0) by ring. rewrite Hz. exact Hend. }
    rewrite E in H5. cbn [orb] in H5.
    assert (pressureOf cMin * pressureOf cMax <= 0).
    { setoid_replace (pressureOf cMin * pressureOf cMax) with (- ((- pressureOf cMin) * pressureOf cMax)) by ring.
      assert (0 <= (- pressureOf cMin) * pressureOf cMax) by (apply Qmult_le_0_compat; lra). lra. }
    lra.
Qed.

(** the call made by [findWallVelocityDetonation]: both end tuples supplied, the lower one with
    non-positive pressure.  No doubling happens, the bracket is not moved, a reported velocity
    lies in it and is typed as a detonation when the bracket lies above vJ. *)
Theorem given_bracket_window s0 vlo vhi g0 oMin oMax fuel o v :
  rootfind_contract -> 0 < c_endTol c -> vlo < vhi -> eo_pressure oMin <= 0 ->
  solveWall s0 vlo vhi g0 (Some oMin) (Some oMax) fuel = RDone o ->
  r_success (o_res o) = true -> r_velocity (o_res o) = Some v ->
  o_doublings o = 0%nat /\ o_vmin o = vlo /\ vlo <= v /\ v <= vhi /\
  (c_vJ c < vlo -> r_type (o_res o) = Detonation) /\
  (vhi <= c_vJ c -> r_type (o_res o) = Deflagration).
Proof.
  intros HRF Hend Hlt Hp H Hs Hv.
  destruct (success_brackets _ _ _ _ _ _ _ _ _ HRF Hend Hlt H Hs Hv)
    as [s [tr [cMin [cMax [HB [_ [_ [_ [Hlo [Hhi _]]]]]]]]]].
  assert (Hk : o_doublings o = 0%nat /\ o_vmin o = vlo).
  { unfold bracket_phase in HB. cbn [optEval] in HB.
    destruct (Qltb (pressureOf (mkSourced oMax GivenMax)) 0); [discriminate|].
    assert (E : Qltb 0 (pressureOf (mkSourced oMin GivenMin)) = false).
    { apply Qltb_false. exact Hp. }
    destruct fuel as [|f]; cbn [doubling] in HB; rewrite E in HB;
      inversion HB; split; reflexivity. }
  destruct Hk as [Hk Hvm]. rewrite Hvm in Hlo.
  repeat split; try assumption.
  - intro HJ.
    destruct (success_checks _ _ _ _ _ _ _ _ _ H Hs Hv) as [_ [_ [_ [_ [_ [_ [_ [_ [[D _]|[_ D]]]]]]]]]].
    + exact D.
    + exfalso. lra.
  - intro HJ.
    destruct (success_checks _ _ _ _ _ _ _ _ _ H Hs Hv) as [_ [_ [_ [_ [_ [_ [_ [_ [[_ D]|[D _]]]]]]]]]].
    + exfalso. lra.
    + exact D.
Qed.

(** [findWallVelocityDeflagrationHybrid]: a reported velocity lies in
    [vMin, min(vJ, fastestDeflag)] and is typed as a deflagration *)
Theorem success_in_window s0 vMinHydro fastestDeflag thickIni nFields fuel o v :
  rootfind_contract -> 0 < c_endTol c ->
  0 < vMinHydro -> vMinHydro < Qmin (c_vJ c) fastestDeflag ->
  findDeflag s0 vMinHydro fastestDeflag thickIni nFields fuel = RDone o ->
  r_success (o_res o) = true -> r_velocity (o_res o) = Some v ->
  vMinHydro <= v /\ v <= c_vJ c /\ v <= fastestDeflag /\ r_type (o_res o) = Deflagration.
Proof.
  intros HRF Hend Hpos Hlt H Hs Hv. unfold findDeflag in H.
  destruct (success_brackets _ _ _ _ _ _ _ _ _ HRF Hend Hlt H Hs Hv)
    as [s [tr [cMin [cMax [_ [_ [_ [_ [Hlo [Hhi _]]]]]]]]]].
  destruct (doubled_vmin _ _ _ _ _ _ _ _ _ Hpos Hlt H Hv) as [_ [Hge _]].
  pose proof (Q.le_min_l (c_vJ c) fastestDeflag). pose proof (Q.le_min_r (c_vJ c) fastestDeflag).
  assert (HvJ : v <= c_vJ c) by lra.
  repeat split; try lra.
  destruct (success_checks _ _ _ _ _ _ _ _ _ H Hs Hv) as [_ [_ [_ [_ [_ [_ [_ [_ [[_ D]|[D _]]]]]]]]]].
  - exfalso. lra.
  - exact D.
Qed.

End Model.

(** * The contract of the root finder is satisfiable
*)
(** a root finder that satisfies the contract for every function: plain bisection *)
Fixpoint bisect (W : Q -> Q) (n : nat) (a b : Q) : Q * Q :=
  match n with
  | O => (a, b)
  | S m => let mid := (a + b) / 2 in
           if Qle_bool (W mid) 0 then bisect W m mid b else bisect W m a mid
  end.

Lemma bisect_spec W : forall n a b, a <= b -> W a <= 0 -> 0 <= W b ->
  let '(lo, hi) := bisect W n a b in
  a <= lo /\ lo <= hi /\ hi <= b /\ W lo <= 0 /\ 0 <= W hi /\ (hi - lo) * pow2 n == b - a.
Proof.
  induction n as [|n IH]; intros a b Hab Ha Hb; cbn [bisect pow2].
  - repeat split; try lra.
  - destruct (Qle_bool (W ((a + b) / 2)) 0) eqn:E.
    + apply Qle_bool_iff in E.
      assert (Hm : (a + b) / 2 <= b) by (apply Qle_shift_div_r; lra).
      assert (Hm' : a <= (a + b) / 2) by (apply Qle_shift_div_l; lra).
      specialize (IH ((a + b) / 2) b Hm E Hb).
      destruct (bisect W n ((a + b) / 2) b) as [lo hi].
      destruct IH as [A [B [C [D [F G]]]]]. repeat split; try lra.
      setoid_replace ((hi - lo) * (pow2 n * 2)) with (((hi - lo) * pow2 n) * 2) by ring.
      rewrite G. field.
    + apply Qleb_false in E.
      assert (Hm : (a + b) / 2 <= b) by (apply Qle_shift_div_r; lra).
      assert (Hm' : a <= (a + b) / 2) by (apply Qle_shift_div_l; lra).
      assert (E' : 0 <= W ((a + b) / 2)) by lra.
      specialize (IH a ((a + b) / 2) Hm' Ha E').
      destruct (bisect W n a ((a + b) / 2)) as [lo hi].
      destruct IH as [A [B [C [D [F G]]]]]. repeat split; try lra.
      setoid_replace ((hi - lo) * (pow2 n * 2)) with (((hi - lo) * pow2 n) * 2) by ring.
      rewrite G. field.
Qed.

Definition bisect_rf (W : Q -> Q) (a b xtol : Q) : rfOut :=
  if Qle_bool xtol 0 then mkRf a false []
  else let '(lo, hi) := bisect W (S (fuel_for xtol (b - a))) a b in mkRf lo true [].

Theorem bisect_contract : rootfind_contract bisect_rf.
Proof.
  intros W a b xtol Hab Ha Hb. unfold bisect_rf, brentq_spec.
  destruct (Qle_bool xtol 0) eqn:E.
  - cbn. split; [lra|]. split; [lra|]. discriminate.
  - apply Qleb_false in E.
    pose proof (bisect_spec W (S (fuel_for xtol (b - a))) a b (Qlt_le_weak _ _ Hab) Ha Hb) as H.
    destruct (bisect W (S (fuel_for xtol (b - a))) a b) as [lo hi].
    destruct H as [A [B [C [D [F G]]]]]. cbn [rf_root rf_converged].
    split; [exact A|]. split; [lra|]. intros _.
    exists lo, hi. repeat split; try lra.
    pose proof (fuel_for_enough xtol (b - a) E) as HF.
    cbn [pow2] in G.
    assert (Hp : 0 < pow2 (fuel_for xtol (b - a))) by apply pow2_pos.
    assert (Hr : 0 <= brentq_rtol * Qabs lo).
    { apply Qmult_le_0_compat; [discriminate|apply Qabs_nonneg]. }
    assert (Hlt : hi - lo < xtol); [|lra].
    apply Qnot_le_lt. intro L.
    set (p := pow2 (fuel_for xtol (b - a))) in *.
    assert (K1 : xtol * (p * 2) <= (hi - lo) * (p * 2)).
    { apply Qmult_le_compat_r; lra. }
    assert (K3 : 0 < xtol * p) by (apply Qmult_lt_0_compat; assumption).
    assert (K2 : xtol * (p * 2) == (xtol * p) * 2) by ring.
    set (T := xtol * p) in *. set (U := xtol * (p * 2)) in *.
    set (V := (hi - lo) * (p * 2)) in *. lra.
Qed.

(** * Executable instance used by the correspondence harness
    Synthetic pressure curves: piecewise-linear in the velocity with per-segment outputs and
    flags; the flags may differ between the bracketing phase (pressAbsErrTol = first literal)
    and the root phase.  The same curve is implemented in Python (exact rational arithmetic,
    then rounded to binary64) and drives the REAL [EOM.solveWall]. *)
Record seg := mkSeg {
  sg_x0 : Q; sg_p0 : Q; sg_slope : Q;
  sg_tprofA : bool; sg_pressA : bool;    (* flags when atol = atol0 *)
  sg_tprofB : bool; sg_pressB : bool;    (* flags otherwise *)
  sg_Tplus : Q; sg_Tminus : Q;
  sg_widths : list Q; sg_offsets : list Q
}.

Fixpoint findSeg (segs : list seg) (v : Q) (cur : seg) : seg :=
  match segs with
  | [] => cur
  | s :: r => if Qle_bool (sg_x0 s) v then findSeg r v s else cur
  end.

Definition Pcurve (atol0 : Q) (first : seg) (rest : list seg) (atol v : Q) (g : guess) : evalOut :=
  let s := findSeg rest v first in
  let phaseA := Qeq_bool atol atol0 in
  mkEvalOut (sg_p0 s + sg_slope s * (v - sg_x0 s))
            (mkGuess (sg_widths s) (sg_offsets s)) (sg_Tplus s) (sg_Tminus s)
            (if phaseA then sg_tprofA s else sg_tprofB s)
            (if phaseA then sg_pressA s else sg_pressB s).

(** what the harness observed on the implementation *)
Inductive expKind := ExpRaises | ExpDone.
Record expect := mkExpect {
  x_kind : expKind;
  x_success : bool; x_type : solType; x_msg : msgKind;
  x_velocity : option Q; x_velErr : option Q; x_vLTE : Q;
  x_src : origin; x_Tplus : Q; x_Tminus : Q;
  x_widths : list Q; x_offsets : list Q;
  x_doublings : nat; x_vmin : Q;
  x_traceV : list Q;               (* velocities of all wallPressure calls, in order *)
  x_traceAtol : list Q;            (* pressAbsErrTol seen by each *)
  x_traceGuess : list (list Q);    (* widths ++ offsets of the guess passed to each *)
  x_flags : bool * bool;           (* successTemperatureProfile, successWallPressure at exit *)
  x_atolEnd : Q                    (* pressAbsErrTol at exit *)
}.

Definition close (a b : Q) : bool :=
  Qle_bool (Qabs (a - b)) ((1 # 1000000000) * Qabs b + (1 # 1000000000000000000000000000000)).
(* first guesses are sums with cancellation: absolute floor 1e-12 *)
Definition closeAbs (a b : Q) : bool :=
  Qle_bool (Qabs (a - b)) ((1 # 1000000000) * Qabs b + (1 # 1000000000000)).
Fixpoint all2 {A B} (f : A -> B -> bool) (a : list A) (b : list B) : bool :=
  match a, b with
  | [], [] => true
  | x :: a', y :: b' => f x y && all2 f a' b'
  | _, _ => false
  end.
Definition solType_eqb (a b : solType) : bool :=
  match a, b with
  | Deflagration, Deflagration | Detonation, Detonation | Runaway, Runaway
  | DeflagrationOrRunaway, DeflagrationOrRunaway | ErrorType, ErrorType => true
  | _, _ => false
  end.
Definition msg_eqb (a b : msgKind) : bool :=
  match a, b with
  | MsgRunaway, MsgRunaway | MsgPositiveAtZero, MsgPositiveAtZero
  | MsgTemperatureProfile, MsgTemperatureProfile | MsgTminusRange, MsgTminusRange
  | MsgTplusRange, MsgTplusRange | MsgPressureNotConverged, MsgPressureNotConverged
  | MsgRootFinder, MsgRootFinder | MsgSaturated, MsgSaturated | MsgFound, MsgFound => true
  | _, _ => false
  end.
Definition origin_eqb (a b : origin) : bool :=
  match a, b with
  | FromEval n, FromEval m => Nat.eqb n m
  | GivenMin, GivenMin | GivenMax, GivenMax => true
  | _, _ => false
  end.
Definition optQ_eqb (f : Q -> Q -> bool) (a b : option Q) : bool :=
  match a, b with
  | None, None => true
  | Some x, Some y => f x y
  | _, _ => false
  end.

(** list of the components that disagree (empty = agreement); numbered for the log *)
Definition disagreements (r : run) (e : expect) : list nat :=
  match r, x_kind e with
  | ROutOfFuel, _ => [99%nat]
  | RRaises k v, ExpRaises =>
      (if Nat.eqb k (x_doublings e) then [] else [13%nat]) ++
      (if Qeq_bool v (x_vmin e) then [] else [14%nat])
  | RRaises _ _, ExpDone => [98%nat]
  | RDone _, ExpRaises => [97%nat]
  | RDone o, ExpDone =>
      let res := o_res o in
      let chk (n : nat) (b : bool) := if b then [] else [n] in
      chk 1%nat (Bool.eqb (r_success res) (x_success e)) ++
      chk 2%nat (solType_eqb (r_type res) (x_type e)) ++
      chk 3%nat (msg_eqb (r_msg res) (x_msg e)) ++
      chk 4%nat (optQ_eqb Qeq_bool (r_velocity res) (x_velocity e)) ++
      chk 5%nat (optQ_eqb close (r_velErr res) (x_velErr e)) ++
      chk 6%nat (Qeq_bool (r_vLTE res) (x_vLTE e)) ++
      chk 7%nat (origin_eqb (so_from (r_src res)) (x_src e)) ++
      chk 8%nat (Qeq_bool (r_Tplus res) (x_Tplus e) && Qeq_bool (r_Tminus res) (x_Tminus e)) ++
      chk 9%nat (all2 Qeq_bool (g_widths (r_params res)) (x_widths e)
                 && all2 Qeq_bool (g_offsets (r_params res)) (x_offsets e)) ++
      chk 10%nat (Nat.eqb (o_doublings o) (x_doublings e)) ++
      chk 11%nat (Qeq_bool (o_vmin o) (x_vmin e)) ++
      chk 12%nat (all2 Qeq_bool (map ev_v (o_trace o)) (x_traceV e)) ++
      chk 15%nat (all2 close (map ev_atol (o_trace o)) (x_traceAtol e)) ++
      chk 16%nat (all2 (fun g l => all2 closeAbs (g_widths g ++ g_offsets g) l)
                       (map ev_guess (o_trace o)) (x_traceGuess e)) ++
      chk 17%nat (Bool.eqb (st_tprofOk (o_state o)) (fst (x_flags e))
                  && Bool.eqb (st_pressOk (o_state o)) (snd (x_flags e))) ++
      chk 18%nat (close (st_atol (o_state o)) (x_atolEnd e))
  end.

Definition agrees (r : run) (e : expect) : bool :=
  match disagreements r e with [] => true | _ => false end.
