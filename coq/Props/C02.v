(** C02 -- energy and momentum flux are conserved across the wall.

    Every statement is about the model GENERATED on this run (module GenC02.HydroGen) from
    src/WallGo/hydrodynamics.py, helpers.py and hydrodynamicsTemplateModel.py:
      gammaSq, vpvmAndvpovm, _mappingT, _inverseMappingT,
      matching_given / matching_lte       the residual closure handed to scipy `root(hybr)`
                                          in matchDeflagOrHyb, for `vp` given / `vp is None`,
      deflag_result_given / _lte          what matchDeflagOrHyb returns from the final point,
      tmFromvpsq, deton_result            the residual handed to `brentq` in matchDeton and
                                          what matchDeton returns from the root,
      findHydroBoundaries                 (c1, c2, Tp, Tm, vMid) from findMatching's result.
    External (hypotheses, validated at run time by tools/props/C02.py on the real code):
      the equation of state  pHighT eHighT wHighT csqLowT ... : R -> R  (fields of [env]);
      scipy: the point returned by root / brentq is a zero of the residual. *)
From Coq Require Import Reals Lra Psatz List.
From WG Require Import Lib.NumpySem Lib.HydroMatch Lib.HydroMatchTemplate.
From GenC02 Require Import HydroGen.
Local Open Scope R_scope.

Section C02.
Variable e : env.

(** w = e + p in both phases -- the identity proved for the generated Thermodynamics in
    Props/C10.v (identities_High/Low); here the EOS functions are the env's fields *)
Hypothesis enthalpyHigh : forall T, wHighT e T = eHighT e T + pHighT e T.
Hypothesis enthalpyLow : forall T, wLowT e T = eLowT e T + pLowT e T.

(** the property's conclusion for a returned matching (vp, vm, Tp, Tm), written with the
    generated gammaSq and the env's own equation of state *)
Definition energy_flux_high vp Tp := wHighT e Tp * gammaSq vp * vp.
Definition energy_flux_low vm Tm := wLowT e Tm * gammaSq vm * vm.
Definition momentum_flux_high vp Tp := wHighT e Tp * gammaSq vp * vp ^ 2 + pHighT e Tp.
Definition momentum_flux_low vm Tm := wLowT e Tm * gammaSq vm * vm ^ 2 + pLowT e Tm.
Definition conserved (vp vm Tp Tm : R) : Prop :=
  energy_flux_high vp Tp = energy_flux_low vm Tm /\
  momentum_flux_high vp Tp = momentum_flux_low vm Tm.

(** sign conditions under which the squared relations have no spurious roots *)
Definition admissible (Tp Tm : R) : Prop :=
  eHighT e Tp <> eLowT e Tm /\ 0 < eHighT e Tp + pLowT e Tm /\ 0 < eLowT e Tm + pHighT e Tp.

Lemma gammaSq_is_g2 v : gammaSq v = g2 v.
Proof. unfold gammaSq, g2. f_equal; ring. Qed.

Lemma conserved_iff_fluxes vp vm Tp Tm :
  conserved vp vm Tp Tm <->
  eflux (eHighT e Tp + pHighT e Tp) vp = eflux (eLowT e Tm + pLowT e Tm) vm /\
  mflux (eHighT e Tp + pHighT e Tp) (pHighT e Tp) vp =
  mflux (eLowT e Tm + pLowT e Tm) (pLowT e Tm) vm.
Proof.
  unfold conserved, energy_flux_high, energy_flux_low, momentum_flux_high, momentum_flux_low,
    eflux, mflux.
  rewrite !gammaSq_is_g2, !enthalpyHigh, !enthalpyLow.
  replace (vp ^ 2) with (vp * vp) by ring. replace (vm ^ 2) with (vm * vm) by ring.
  tauto.
Qed.

(** the generated vpvmAndvpovm away from its degenerate branch *)
Lemma vpvmAndvpovm_regular Tp Tm : eHighT e Tp <> eLowT e Tm ->
  vpvmAndvpovm e Tp Tm =
  ((pHighT e Tp - pLowT e Tm) / (eHighT e Tp - eLowT e Tm),
   (eLowT e Tm + pHighT e Tp) / (eHighT e Tp + pLowT e Tm)).
Proof.
  intro H. unfold vpvmAndvpovm. cbv zeta.
  destruct (Req_EM_T (eHighT e Tp) (eLowT e Tm)) as [E|E]; [contradiction|].
  cbn [negb]. f_equal; field; lra.
Qed.

(** ** junction relations (squared, as the code solves them) => both fluxes conserved *)
Theorem junction_conserves vp vm Tp Tm :
  0 < vp < 1 -> 0 < vm < 1 -> admissible Tp Tm ->
  fst (vpvmAndvpovm e Tp Tm) * snd (vpvmAndvpovm e Tp Tm) = vp ^ 2 ->
  fst (vpvmAndvpovm e Tp Tm) / snd (vpvmAndvpovm e Tp Tm) = vm ^ 2 ->
  conserved vp vm Tp Tm.
Proof.
  intros Hp Hm [Hne [Hd1 Hd2]] E1 E2.
  rewrite vpvmAndvpovm_regular in E1, E2 by exact Hne. cbn [fst snd] in E1, E2.
  apply conserved_iff_fluxes.
  assert (Hb : 0 < (eLowT e Tm + pHighT e Tp) / (eHighT e Tp + pLowT e Tm))
    by (apply Rdiv_lt_0_compat; lra).
  assert (J : junction (pHighT e Tp) (pLowT e Tm) (eHighT e Tp) (eLowT e Tm) vp vm).
  { apply squared_relations; first [lra | rewrite E1; ring | rewrite E2; ring]. }
  apply HydroMatch.junction_conserves; try assumption; lra.
Qed.

(** and conversely: every exact solution of the conservation laws satisfies the relations
    the code solves (no exact matching is excluded by the residual) *)
Theorem conserved_junction vp vm Tp Tm :
  0 < vp < 1 -> 0 < vm < 1 -> admissible Tp Tm ->
  conserved vp vm Tp Tm ->
  fst (vpvmAndvpovm e Tp Tm) * snd (vpvmAndvpovm e Tp Tm) = vp ^ 2 /\
  fst (vpvmAndvpovm e Tp Tm) / snd (vpvmAndvpovm e Tp Tm) = vm ^ 2.
Proof.
  intros Hp Hm [Hne [Hd1 Hd2]] C.
  apply conserved_iff_fluxes in C. destruct C as [C1 C2].
  assert (Hd : eHighT e Tp + pLowT e Tm <> 0) by lra.
  destruct (conserves_junction _ _ _ _ _ _ Hp Hm Hne Hd C1 C2) as [J1 J2].
  rewrite vpvmAndvpovm_regular by exact Hne. cbn [fst snd].
  rewrite <- J1, <- J2. split; field; lra.
Qed.

(** ** deflagrations / hybrids: zeros of the generated residual [matching] *)
Definition Tp_of (x : R * R) := fst (_inverseMappingT e x).
Definition Tm_of (x : R * R) := snd (_inverseMappingT e x).

Lemma matching_given_zero vw vp Tpm0 x :
  matching_given e vw vp Tpm0 x = (0, 0) ->
  fst (vpvmAndvpovm e (Tp_of x) (Tm_of x)) * snd (vpvmAndvpovm e (Tp_of x) (Tm_of x)) = vp ^ 2 /\
  fst (vpvmAndvpovm e (Tp_of x) (Tm_of x)) / snd (vpvmAndvpovm e (Tp_of x) (Tm_of x))
    = Rmin (vw ^ 2) (csqLowT e (Tm_of x)).
Proof.
  unfold matching_given, Tp_of, Tm_of. cbv zeta.
  destruct (vpvmAndvpovm e (fst (_inverseMappingT e x)) (snd (_inverseMappingT e x))) as [a b].
  cbn [fst snd]. intro H.
  apply scaled_pair_zero in H; [|apply scale_factor_pos].
  destruct H as [H1 H2]. split; lra.
Qed.

Lemma matching_lte_zero vw Tpm0 x :
  matching_lte e vw Tpm0 x = (0, 0) ->
  fst (vpvmAndvpovm e (Tp_of x) (Tm_of x)) * snd (vpvmAndvpovm e (Tp_of x) (Tm_of x))
    = (Tm_of x ^ 2 - Tp_of x ^ 2 * (1 - Rmin (vw ^ 2) (csqLowT e (Tm_of x)))) / Tm_of x ^ 2 /\
  fst (vpvmAndvpovm e (Tp_of x) (Tm_of x)) / snd (vpvmAndvpovm e (Tp_of x) (Tm_of x))
    = Rmin (vw ^ 2) (csqLowT e (Tm_of x)).
Proof.
  unfold matching_lte, Tp_of, Tm_of. cbv zeta.
  destruct (vpvmAndvpovm e (fst (_inverseMappingT e x)) (snd (_inverseMappingT e x))) as [a b].
  cbn [fst snd]. intro H.
  apply scaled_pair_zero in H; [|apply scale_factor_pos].
  destruct H as [H1 H2]. split; lra.
Qed.

Lemma vmsq_unit vw c : 0 < vw < 1 -> 0 < c -> 0 < Rmin (vw ^ 2) c < 1.
Proof.
  intros Hv Hc. unfold Rmin. destruct (Rle_dec (vw ^ 2) c); nra.
Qed.

(** vp handed in by the shooting loop (findMatching) *)
Theorem matching_root_conserves vw vp Tpm0 x vp' vm' Tp Tm :
  0 < vw < 1 -> 0 < vp < 1 ->
  matching_given e vw vp Tpm0 x = (0, 0) ->
  deflag_result_given e vw vp x = (vp', vm', Tp, Tm) ->
  0 < csqLowT e Tm -> admissible Tp Tm ->
  conserved vp' vm' Tp Tm /\ vm' ^ 2 = Rmin (vw ^ 2) (csqLowT e Tm) /\ vp' = vp /\
  0 < vm' < 1.
Proof.
  intros Hw Hp Hz Hr Hc Hadm.
  apply matching_given_zero in Hz. unfold Tp_of, Tm_of in Hz.
  unfold deflag_result_given in Hr.
  destruct (_inverseMappingT e x) as [tp tm]. cbn [fst snd] in Hz. cbv zeta in Hr.
  apply tuple4_eq in Hr. destruct Hr as (E1 & E2 & E3 & E4). subst tp tm vp'.
  pose proof (vmsq_unit vw (csqLowT e Tm) Hw Hc) as Hu.
  rewrite Rmax_left in E2 by lra.
  assert (Hvm : 0 < vm' < 1) by (subst vm'; apply sqrt_unit; exact Hu).
  assert (Hsq : vm' ^ 2 = Rmin (vw ^ 2) (csqLowT e Tm)).
  { subst vm'. apply pow2_sqrt. lra. }
  destruct Hz as [Z1 Z2].
  repeat split; try lra.
  - apply junction_conserves; try assumption. rewrite Hsq. exact Z2.
  - apply junction_conserves; try assumption. rewrite Hsq. exact Z2.
Qed.

(** vp determined by entropy conservation (findvwLTE): additionally T+ g+ = T- g- *)
Theorem matching_root_conserves_lte vw Tpm0 x vp' vm' Tp Tm :
  0 < vw < 1 ->
  matching_lte e vw Tpm0 x = (0, 0) ->
  deflag_result_lte e vw x = (vp', vm', Tp, Tm) ->
  0 < csqLowT e Tm -> admissible Tp Tm -> 0 < Tp -> 0 < Tm ->
  conserved vp' vm' Tp Tm /\ vm' ^ 2 = Rmin (vw ^ 2) (csqLowT e Tm) /\
  Tp ^ 2 * gammaSq vp' = Tm ^ 2 * gammaSq vm' /\ 0 < vp' < 1 /\ 0 < vm' < 1.
Proof.
  intros Hw Hz Hr Hc Hadm HTp HTm.
  apply matching_lte_zero in Hz. unfold Tp_of, Tm_of in Hz.
  unfold deflag_result_lte in Hr.
  destruct (_inverseMappingT e x) as [tp tm]. cbn [fst snd] in Hz. cbv zeta in Hr.
  apply tuple4_eq in Hr. destruct Hr as (E1 & E2 & E3 & E4). subst tp tm.
  pose proof (vmsq_unit vw (csqLowT e Tm) Hw Hc) as Hu.
  rewrite Rmax_left in E2, E1 by lra.
  set (q := Rmin (vw ^ 2) (csqLowT e Tm)) in *.
  assert (Hvm : 0 < vm' < 1) by (subst vm'; apply sqrt_unit; exact Hu).
  assert (Hsq : vm' ^ 2 = q).
  { subst vm'. apply pow2_sqrt. lra. }
  rewrite E2 in E1. rewrite Hsq in E1.
  destruct Hz as [Z1 Z2].
  destruct Hadm as [Hne [Hd1 Hd2]].
  (* the squared velocity in front *)
  set (s := (Tm ^ 2 - Tp ^ 2 * (1 - q)) / Tm ^ 2) in *.
  assert (Hs1 : s < 1).
  { assert (Es : s = 1 - Tp ^ 2 * (1 - q) / Tm ^ 2) by (unfold s; field; lra).
    assert (0 < Tp ^ 2) by nra. assert (0 < Tm ^ 2) by nra.
    assert (0 < Tp ^ 2 * (1 - q) / Tm ^ 2).
    { apply Rdiv_lt_0_compat; [apply Rmult_lt_0_compat; lra|lra]. }
    lra. }
  assert (Hb : 0 < snd (vpvmAndvpovm e Tp Tm)).
  { rewrite vpvmAndvpovm_regular by exact Hne. cbn [snd]. apply Rdiv_lt_0_compat; lra. }
  assert (Ha : 0 < fst (vpvmAndvpovm e Tp Tm)).
  { assert (E : fst (vpvmAndvpovm e Tp Tm) = q * snd (vpvmAndvpovm e Tp Tm)).
    { rewrite <- Z2. field. lra. }
    rewrite E. nra. }
  assert (Hs0 : 0 < s) by (rewrite <- Z1; nra).
  assert (Evp : vp' = sqrt s).
  { subst vp'. replace (Tm ^ 2 - Tp ^ 2 * (1 - q)) with (s * (Tm * Tm)).
    - apply sqrt_scaled; lra.
    - unfold s. field. lra. }
  assert (Hvp : 0 < vp' < 1) by (rewrite Evp; apply sqrt_unit; lra).
  assert (Hsp : vp' ^ 2 = s).
  { rewrite Evp. apply pow2_sqrt. lra. }
  assert (C : conserved vp' vm' Tp Tm).
  { apply junction_conserves; try assumption; [repeat split; assumption| |].
    - rewrite Hsp. exact Z1.
    - rewrite Hsq. exact Z2. }
  destruct C as [C1 C2].
  repeat split; try lra; try assumption.
  assert (G : forall v, gammaSq v = 1 / (1 - v ^ 2)).
  { intro v. rewrite gammaSq_is_g2. unfold g2. f_equal. ring. }
  rewrite !G, Hsp, Hsq.
  assert (Es : 1 - s = Tp ^ 2 * (1 - q) / Tm ^ 2) by (unfold s; field; lra).
  rewrite Es. field. repeat split; nra.
Qed.

(** ** detonations: zero of the generated residual [tmFromvpsq] *)
Theorem deton_root_conserves vw tm vp' vm' Tp Tm :
  0 < vw < 1 ->
  tmFromvpsq e vw tm = 0 ->
  deton_result e vw tm = (vp', vm', Tp, Tm) ->
  admissible Tp Tm -> vm' < 1 ->
  conserved vp' vm' Tp Tm /\ vp' = vw /\ Tp = Tnucl e /\ Tm = tm /\ 0 < vm'.
Proof.
  intros Hw Hz Hr Hadm Hlt.
  unfold deton_result in Hr. cbv zeta in Hr.
  destruct (Req_EM_T vw 1) as [E|_]; [lra|].
  destruct (vpvmAndvpovm e (Tnucl e) tm) as [a b] eqn:Eab.
  apply tuple4_eq in Hr. destruct Hr as (E1 & E2 & E3 & E4). subst vp' Tp Tm.
  destruct Hadm as [Hne [Hd1 Hd2]].
  pose proof (vpvmAndvpovm_regular (Tnucl e) tm Hne) as R. rewrite Eab in R.
  apply pair_eq in R. destruct R as [Ea Eb].
  assert (Hb : 0 < b) by (rewrite Eb; apply Rdiv_lt_0_compat; lra).
  (* the residual says  vw^2 = a * b *)
  assert (Z : a * b = vw ^ 2).
  { unfold tmFromvpsq in Hz. cbv zeta in Hz.
    rewrite enthalpyHigh, enthalpyLow in Hz.
    replace (eHighT e (Tnucl e) + pHighT e (Tnucl e) - pHighT e (Tnucl e))
      with (eHighT e (Tnucl e)) in Hz by ring.
    replace (eLowT e tm + pLowT e tm - pLowT e tm) with (eLowT e tm) in Hz by ring.
    rewrite Ea, Eb.
    apply Rmult_eq_reg_r with (eHighT e (Tnucl e) - eLowT e tm); [|lra].
    transitivity ((pHighT e (Tnucl e) - pLowT e tm) * (eLowT e tm + pHighT e (Tnucl e)) /
                  (eHighT e (Tnucl e) + pLowT e tm)); [field; lra|lra]. }
  assert (Ha : 0 < a) by (destruct (Rle_or_lt a 0); [nra|assumption]).
  assert (Hq : 0 < a / b) by (apply Rdiv_lt_0_compat; lra).
  assert (Hvm : 0 < vm') by (subst vm'; apply sqrt_lt_R0; exact Hq).
  assert (Hsq : vm' ^ 2 = a / b).
  { subst vm'. apply pow2_sqrt. lra. }
  repeat split; try reflexivity; try assumption.
  - apply junction_conserves; try lra; [repeat split; assumption| |]; rewrite Eab; cbn [fst snd]; lra.
  - apply junction_conserves; try lra; [repeat split; assumption| |]; rewrite Eab; cbn [fst snd]; lra.
Qed.

(** ** the boundary constants handed to the wall equations *)
Theorem boundary_constants vw vp vm Tp Tm c1 c2 Tp' Tm' vmid :
  ~ vw < vMin e ->
  findHydroBoundaries e vw vp vm Tp Tm = (c1, c2, Tp', Tm', vmid) ->
  c1 = - energy_flux_high vp Tp /\ c2 = momentum_flux_high vp Tp /\
  Tp' = Tp /\ Tm' = Tm /\ vmid = - ((vp + vm) / 2) /\
  (conserved vp vm Tp Tm ->
   c1 = - energy_flux_low vm Tm /\ c2 = momentum_flux_low vm Tm).
Proof.
  intros Hv H. unfold findHydroBoundaries in H.
  destruct (Rlt_dec vw (vMin e)) as [?|_]; [contradiction|]. cbv zeta in H.
  apply tuple5_eq in H. destruct H as (H1 & H2 & H3 & H4 & H5). subst Tp' Tm'.
  assert (A1 : c1 = - energy_flux_high vp Tp) by (subst c1; unfold energy_flux_high; ring).
  assert (A2 : c2 = momentum_flux_high vp Tp) by (subst c2; unfold momentum_flux_high; ring).
  repeat split; try assumption; try reflexivity.
  - subst vmid. field.
  - destruct H as [C1 C2]. rewrite A1, C1. reflexivity.
  - destruct H as [C1 C2]. rewrite A2, C2. reflexivity.
Qed.

Theorem boundary_below_vMin vw vp vm Tp Tm :
  vw < vMin e -> findHydroBoundaries e vw vp vm Tp Tm = (0, 0, 0, 0, 0).
Proof.
  intro H. unfold findHydroBoundaries. destruct (Rlt_dec vw (vMin e)); [|contradiction].
  repeat f_equal; ring.
Qed.

(** ** completeness of the residual: an exact matching inside the temperature window is a
    zero of [matching] -- the solver's residual cannot exclude it *)
Lemma inverse_mapping Tp Tm :
  TMinHydro e < Tp < TMaxHydro e -> TMinHydro e < Tm < TMaxHydro e ->
  _inverseMappingT e (_mappingT e (Tp, Tm)) = (Tp, Tm).
Proof.
  intros H1 H2. unfold _inverseMappingT, _mappingT. cbv zeta beta iota.
  f_equal; apply atan_tan_affine; assumption.
Qed.

Theorem exact_matching_is_root vw vp vm Tp Tm Tpm0 :
  0 < vp < 1 -> 0 < vm < 1 -> admissible Tp Tm ->
  TMinHydro e < Tp < TMaxHydro e -> TMinHydro e < Tm < TMaxHydro e ->
  conserved vp vm Tp Tm -> vm ^ 2 = Rmin (vw ^ 2) (csqLowT e Tm) ->
  matching_given e vw vp Tpm0 (_mappingT e (Tp, Tm)) = (0, 0).
Proof.
  intros Hp Hm Hadm HTp HTm C Hvm.
  destruct (conserved_junction vp vm Tp Tm Hp Hm Hadm C) as [J1 J2].
  unfold matching_given. cbv zeta.
  rewrite inverse_mapping by assumption. cbn [fst snd].
  destruct (vpvmAndvpovm e Tp Tm) as [a b]. cbn [fst snd] in J1, J2.
  rewrite J1, J2, Hvm. f_equal; ring.
Qed.

(** ** from the solver's acceptance threshold to a flux bound *)
(** polynomial residuals of the junction relations at a returned point *)
Definition res1 vp vm Tp Tm :=
  vp * vm * (eHighT e Tp - eLowT e Tm) - (pHighT e Tp - pLowT e Tm).
Definition res2 vp vm Tp Tm :=
  vp * (eHighT e Tp + pLowT e Tm) - vm * (eLowT e Tm + pHighT e Tp).

Theorem near_root_flux_bound vp vm Tp Tm d :
  0 < vp < 1 -> 0 < vm < 1 -> 0 <= d ->
  Rabs (res1 vp vm Tp Tm) <= d -> Rabs (res2 vp vm Tp Tm) <= d ->
  Rabs (energy_flux_high vp Tp - energy_flux_low vm Tm) <= 4 * d * gammaSq vp * gammaSq vm /\
  Rabs (momentum_flux_high vp Tp - momentum_flux_low vm Tm) <= 4 * d * gammaSq vp * gammaSq vm.
Proof.
  intros Hp Hm Hd R1 R2.
  destruct (HydroMatch.near_root_flux_bound _ _ _ _ _ _ _ Hp Hm Hd R1 R2) as [B1 B2].
  unfold energy_flux_high, energy_flux_low, momentum_flux_high, momentum_flux_low.
  rewrite !gammaSq_is_g2, !enthalpyHigh, !enthalpyLow.
  unfold eflux, mflux in B1, B2.
  replace (vp ^ 2) with (vp * vp) by ring. replace (vm ^ 2) with (vm * vm) by ring.
  split; assumption.
Qed.

(** ** the code's own residual at a returned point determines the junction residuals exactly
    (so the flux tolerance of the direct validation is DERIVED from sol.fun through
    [near_root_flux_bound], not calibrated) *)
Definition scale_of (Tpm0 : R * R) (Tp Tm : R) : R :=
  (2 ^ 2 + (Tp / fst Tpm0) ^ 2 + (Tm / snd Tpm0) ^ 2) *
  (2 ^ 2 + (fst Tpm0 / Tp) ^ 2 + (snd Tpm0 / Tm) ^ 2).

Lemma matching_given_components vw vp Tpm0 x :
  matching_given e vw vp Tpm0 x =
  ((fst (vpvmAndvpovm e (Tp_of x) (Tm_of x)) * snd (vpvmAndvpovm e (Tp_of x) (Tm_of x)) - vp ^ 2)
     * scale_of Tpm0 (Tp_of x) (Tm_of x),
   (fst (vpvmAndvpovm e (Tp_of x) (Tm_of x)) / snd (vpvmAndvpovm e (Tp_of x) (Tm_of x))
      - Rmin (vw ^ 2) (csqLowT e (Tm_of x))) * scale_of Tpm0 (Tp_of x) (Tm_of x)).
Proof.
  unfold matching_given, Tp_of, Tm_of, scale_of. cbv zeta.
  destruct (vpvmAndvpovm e (fst (_inverseMappingT e x)) (snd (_inverseMappingT e x))) as [a b].
  cbn [fst snd]. f_equal; ring.
Qed.

Theorem residual_to_junction vw vp vm Tpm0 x f1 f2 :
  0 < vp -> 0 < vm -> admissible (Tp_of x) (Tm_of x) ->
  matching_given e vw vp Tpm0 x = (f1, f2) ->
  vm ^ 2 = Rmin (vw ^ 2) (csqLowT e (Tm_of x)) ->
  let Tp := Tp_of x in let Tm := Tm_of x in
  let c := scale_of Tpm0 Tp Tm in let r1 := f1 / c in let r2 := f2 / c in
  let A := fst (vpvmAndvpovm e Tp Tm) in let B := snd (vpvmAndvpovm e Tp Tm) in
  0 < c /\
  res1 vp vm Tp Tm * (vp * vm + A)
    = - (eHighT e Tp - eLowT e Tm) * (vp ^ 2 * r2 + vm ^ 2 * r1 + r1 * r2) /\
  res2 vp vm Tp Tm * (vp + vm * B) * (vm ^ 2 + r2)
    = (eHighT e Tp + pLowT e Tm) * (vp ^ 2 * r2 - vm ^ 2 * r1).
Proof.
  intros Hp Hm Hadm Hf Hvm Tp Tm c r1 r2 A B.
  assert (Hc : 0 < c) by (unfold c, scale_of; apply scale_factor_pos).
  rewrite matching_given_components in Hf. apply pair_eq in Hf. destruct Hf as [F1 F2].
  rewrite <- Hvm in F2. fold Tp Tm in F1, F2. fold c in F1, F2. fold A B in F1, F2.
  destruct Hadm as [Hne [Hd1 Hd2]]. fold Tp Tm in Hne, Hd1, Hd2.
  pose proof (vpvmAndvpovm_regular Tp Tm Hne) as Reg.
  assert (EA : A = (pHighT e Tp - pLowT e Tm) / (eHighT e Tp - eLowT e Tm))
    by (unfold A; rewrite Reg; reflexivity).
  assert (EB : B = (eLowT e Tm + pHighT e Tp) / (eHighT e Tp + pLowT e Tm))
    by (unfold B; rewrite Reg; reflexivity).
  assert (HB : 0 < B) by (rewrite EB; apply Rdiv_lt_0_compat; lra).
  clearbody A B c.
  assert (R1 : A * B = vp * vp + r1) by (unfold r1; rewrite <- F1; field; lra).
  assert (R2 : A / B = vm * vm + r2) by (unfold r2; rewrite <- F2; field; lra).
  destruct (residual_identities A B vp vm r1 r2 HB R1 R2) as [I1 I2].
  split; [exact Hc|]. split.
  - replace (res1 vp vm Tp Tm) with ((eHighT e Tp - eLowT e Tm) * (vp * vm - A)).
    + replace ((eHighT e Tp - eLowT e Tm) * (vp * vm - A) * (vp * vm + A))
        with ((eHighT e Tp - eLowT e Tm) * ((vp * vm - A) * (vp * vm + A))) by ring.
      rewrite I1. ring.
    + unfold res1. rewrite EA. field. lra.
  - replace (res2 vp vm Tp Tm) with ((eHighT e Tp + pLowT e Tm) * (vp - vm * B)).
    + replace ((eHighT e Tp + pLowT e Tm) * (vp - vm * B) * (vp + vm * B) * (vm ^ 2 + r2))
        with ((eHighT e Tp + pLowT e Tm) * ((vp - vm * B) * (vp + vm * B) * (vm * vm + r2))) by ring.
      rewrite I2. ring.
    + unfold res2. rewrite EB. field. lra.
Qed.

(** detonations: the residual handed to brentq is (e+ - e-) (vw^2 - A B); the returned v- has
    v-^2 = A/B exactly, so r2 = 0 and r1 = - f / (e+ - e-) *)
Theorem deton_residual vw tm :
  admissible (Tnucl e) tm ->
  tmFromvpsq e vw tm = (eHighT e (Tnucl e) - eLowT e tm) *
    (vw ^ 2 - fst (vpvmAndvpovm e (Tnucl e) tm) * snd (vpvmAndvpovm e (Tnucl e) tm)).
Proof.
  intros [Hne [Hd1 Hd2]]. rewrite (vpvmAndvpovm_regular _ _ Hne). cbn [fst snd].
  unfold tmFromvpsq. cbv zeta. rewrite enthalpyHigh, enthalpyLow. field. split; lra.
Qed.

End C02.

(** ** the closed-form template solver (HydrodynamicsTemplateModel), for EVERY template
    object: T- comes from conservation of the energy flux, with the enthalpies the class
    itself uses (w+ = wN (T/Tn)^mu in findHydroBoundaries/efficiencyFactor, w- = wN psiN
    (T/Tn)^nu); momentum conservation on the template equation of state is C15 *)
Section TemplateClass.
Variable e : t_env.
Hypothesis HTn : 0 < t_Tnucl e.
Hypothesis Hpsi : 0 < t_psiN e.
Hypothesis Hmu : 0 < t_mu e.
Hypothesis Hnu : 0 < t_nu e.
Definition t_wHigh (T : R) := t_wN e * Rpower (T / t_Tnucl e) (t_mu e).
Definition t_wLow (T : R) := t_wN e * t_psiN e * Rpower (T / t_Tnucl e) (t_nu e).
Definition t_energy_conserved (vp vm Tp Tm : R) : Prop :=
  t_wHigh Tp * gammaSq vp * vp = t_wLow Tm * gammaSq vm * vm.

Theorem template_findTm_conserves_energy vp vm Tp :
  0 < vp < 1 -> 0 < vm < 1 -> 0 < Tp ->
  0 < t__findTm e vm vp Tp /\ t_energy_conserved vp vm Tp (t__findTm e vm vp Tp).
Proof.
  intros Hp Hm HT.
  pose proof (findTm_energy_flux_gen (t_wN e) (t_Tnucl e) (t_psiN e) (t_mu e) (t_nu e)
                vp vm Tp HTn Hpsi Hmu Hnu Hp Hm HT) as F.
  cbv zeta in F. destruct F as [F1 F2]. unfold eflux in F2.
  unfold t_energy_conserved, t_wHigh, t_wLow, t__findTm. cbv zeta.
  rewrite !gammaSq_is_g2. split; assumption.
Qed.

(** what template.findMatching returns (deflagration / hybrid branch), for any shooting root *)
Theorem template_matching_conserves_energy vw vp vp' vm Tp Tm :
  ~ t_vJ e < vw -> 0 < vp < 1 -> 0 < Rmin (t_cb e) vw < 1 ->
  t_findMatching_result e vw vp = (vp', vm, Tp, Tm) ->
  vp' = vp /\ vm = Rmin (t_cb e) vw /\ 0 < Tp /\ 0 < Tm /\ t_energy_conserved vp' vm Tp Tm.
Proof.
  intros HvJ Hp Hm Hres. unfold t_findMatching_result in Hres.
  destruct (Rlt_dec (t_vJ e) vw) as [?|_]; [contradiction|]. cbv zeta in Hres.
  apply tuple4_eq in Hres. destruct Hres as (E1 & E2 & E3 & E4).
  assert (HTp : 0 < Tp) by (rewrite <- E3; apply Rmult_lt_0_compat; [exact HTn|apply exp_pos]).
  rewrite E3 in E4. subst vp' vm.
  destruct (template_findTm_conserves_energy vp (Rmin (t_cb e) vw) Tp Hp Hm HTp) as [F1 F2].
  rewrite E4 in F1, F2. repeat split; assumption.
Qed.

(** what template.detonationVAndT returns *)
Theorem template_deton_conserves_energy vw vp vm Tp Tm :
  0 < vw < 1 -> t_detonationVAndT e vw = (vp, vm, Tp, Tm) -> 0 < vm < 1 ->
  vp = vw /\ Tp = t_Tnucl e /\ 0 < Tm /\ t_energy_conserved vp vm Tp Tm.
Proof.
  intros Hw Hres Hm. unfold t_detonationVAndT in Hres. cbv zeta in Hres.
  apply tuple4_eq in Hres. destruct Hres as (E1 & E2 & E3 & E4).
  subst vp Tp. rewrite E2 in E4.
  destruct (template_findTm_conserves_energy vw vm (t_Tnucl e) Hw Hm HTn) as [F1 F2].
  rewrite E4 in F1, F2. repeat split; assumption.
Qed.

(** c1 = -(energy flux in front) with the same enthalpy; Tp, Tm, vMid passed on *)
Theorem template_boundary_constants vw vp vm Tp Tm c1 c2 Tp' Tm' vmid :
  ~ vw < t_vMin e -> 0 < vp < 1 ->
  t_findHydroBoundaries e vw vp vm Tp Tm = (c1, c2, Tp', Tm', vmid) ->
  c1 = - (t_wHigh Tp * gammaSq vp * vp) /\
  c2 = (t_pN e + (Rpower (Tp / t_Tnucl e) (t_mu e) - 1) * t_wN e / t_mu e)
       + t_wHigh Tp * gammaSq vp * vp ^ 2 /\
  Tp' = Tp /\ Tm' = Tm /\ vmid = - ((vp + vm) / 2) /\
  (t_energy_conserved vp vm Tp Tm -> c1 = - (t_wLow Tm * gammaSq vm * vm)).
Proof.
  intros Hv Hp H. unfold t_findHydroBoundaries in H.
  destruct (Rlt_dec vw (t_vMin e)) as [?|_]; [contradiction|]. cbv zeta in H.
  apply tuple5_eq in H. destruct H as (H1 & H2 & H3 & H4 & H5). subst Tp' Tm'.
  assert (G : 1 - vp ^ 2 <> 0) by nra. assert (G' : 1 - vp * vp <> 0) by nra.
  assert (A1 : c1 = - (t_wHigh Tp * gammaSq vp * vp)).
  { subst c1. unfold t_wHigh, gammaSq. field; repeat split; first [assumption|lra]. }
  repeat split; try reflexivity; try assumption.
  - subst c2. unfold t_wHigh, gammaSq. field; repeat split; first [assumption|lra].
  - subst vmid. field.
  - intro C. rewrite A1, C. reflexivity.
Qed.
End TemplateClass.


(** ** return paths (syntactic facts [path_facts], fail closed): the only statements of
    findMatching / findHydroBoundaries that define vp, vm, Tp, Tm or return are
    vp,vm,Tp,Tm = matchDeton(vwTry) | matchDeflagOrHyb(vwTry, sol.root) | findMatching(vwTry),
    return (vp,vm,Tp,Tm) | template.findMatching(vwTemplate) | zeros | (..,None) |
    (c1,c2,Tp,Tm,velocityMid); no statement stores to the velocity parameter, to an attribute
    or to a subscript; EOM.wallPressure defines (c1,c2,Tplus,Tminus,velocityMid) once, as
    self.hydrodynamics.findHydroBoundaries(wallVelocity), never stores to them or to
    wallVelocity again and passes these names to _intermediatePressureResults.  (Under which
    CONDITION a path runs is not a fact; the harness ties every returned matching to the
    requested velocity.) *)
Theorem return_paths : paths_wellformed path_facts = true.
Proof. vm_compute. reflexivity. Qed.

(** ** roles of the tolerances in EVERY root_scalar / root call of the two classes (facts
    [tol_facts] regenerated from the source): the bracket solvers are asked for the accuracy
    atol + rtol |x| -- self.atol is the absolute and self.rtol the relative tolerance; the
    flux tolerance of the direct validation is derived from exactly this accuracy *)
Theorem tolerance_roles f rt at_ x :
  In f tol_facts -> roles_ok f = true /\
  (tf_kind f = RootScalar -> requested_accuracy f rt at_ x = at_ + rt * Rabs x).
Proof.
  intro H.
  assert (A : forallb roles_ok tol_facts = true) by (vm_compute; reflexivity).
  rewrite forallb_forall in A. specialize (A f H).
  split; [exact A|]. intro K. apply roles_ok_meaning; assumption.
Qed.
Example tolerance_facts_nonempty : tol_facts <> nil.
Proof. discriminate. Qed.

(** the hypotheses are satisfiable: a bag-like equation of state with an exact matching *)
Example hypotheses_satisfiable :
  exists (e : env) vp vm Tp Tm,
    (forall T, wHighT e T = eHighT e T + pHighT e T) /\
    (forall T, wLowT e T = eLowT e T + pLowT e T) /\
    0 < vp < 1 /\ 0 < vm < 1 /\ admissible e Tp Tm /\ conserved e vp vm Tp Tm.
Proof.
  (* p+ = 1, e+ = 5 (w+ = 6), vp = 1/2, vm = 1/4  =>  p- = 2, e- = 13 (w- = 15) *)
  exists (mk_env 1 10 (1/10) 0 1 (fun _ => 1) (fun _ => 2) (fun _ => 5) (fun _ => 13)
                 (fun _ => 6) (fun _ => 15) (fun _ => 1/3) (fun _ => 1/3)).
  exists (1/2), (1/4), 1, 1.
  unfold admissible, conserved, energy_flux_high, energy_flux_low, momentum_flux_high,
    momentum_flux_low, gammaSq. cbn [wHighT eHighT pHighT wLowT eLowT pLowT].
  repeat split; try lra; try (intros; lra); field.
Qed.

(** witnesses for the hypotheses of the root theorems, on the same constant equation of
    state: vw = v- = 1/4, v+ = 1/2 is a zero of [matching] at every point x, and vw = 1/2 a
    zero of [tmFromvpsq] *)
Definition e_const : env :=
  mk_env 1 10 (1/10) 0 1 (fun _ => 1) (fun _ => 2) (fun _ => 5) (fun _ => 13)
         (fun _ => 6) (fun _ => 15) (fun _ => 1/3) (fun _ => 1/3).
Example matching_root_exists : forall Tpm0 x,
  matching_given e_const (1/4) (1/2) Tpm0 x = (0, 0) /\ admissible e_const (Tp_of e_const x) (Tm_of e_const x)
  /\ 0 < csqLowT e_const (Tm_of e_const x).
Proof.
  intros Tpm0 x. split; [|split].
  - rewrite matching_given_components. unfold vpvmAndvpovm. cbv zeta.
    cbn [pHighT pLowT eHighT eLowT csqLowT e_const fst snd].
    destruct (Req_EM_T 5 13) as [E|_]; [lra|]. cbn [negb fst snd].
    rewrite Rmin_left by lra. f_equal; field.
  - unfold admissible. cbn [pHighT pLowT eHighT eLowT e_const]. repeat split; lra.
  - cbn [csqLowT e_const]. lra.
Qed.
Example deton_root_exists : forall tm,
  tmFromvpsq e_const (1/2) tm = 0 /\ admissible e_const (Tnucl e_const) tm.
Proof.
  intro tm. split.
  - unfold tmFromvpsq. cbv zeta. cbn [pHighT pLowT wHighT wLowT Tnucl e_const]. field.
  - unfold admissible. cbn [pHighT pLowT eHighT eLowT Tnucl e_const]. repeat split; lra.
Qed.

(** ------------------------------------------------------------------------------ *)
Theorem C02_junction_conserves : forall e,
  (forall T, wHighT e T = eHighT e T + pHighT e T) ->
  (forall T, wLowT e T = eLowT e T + pLowT e T) ->
  forall vp vm Tp Tm, 0 < vp < 1 -> 0 < vm < 1 -> admissible e Tp Tm ->
  fst (vpvmAndvpovm e Tp Tm) * snd (vpvmAndvpovm e Tp Tm) = vp ^ 2 ->
  fst (vpvmAndvpovm e Tp Tm) / snd (vpvmAndvpovm e Tp Tm) = vm ^ 2 ->
  conserved e vp vm Tp Tm.
Proof. exact junction_conserves. Qed.
Print Assumptions C02_junction_conserves.

Theorem C02_conserved_junction : forall e,
  (forall T, wHighT e T = eHighT e T + pHighT e T) ->
  (forall T, wLowT e T = eLowT e T + pLowT e T) ->
  forall vp vm Tp Tm, 0 < vp < 1 -> 0 < vm < 1 -> admissible e Tp Tm ->
  conserved e vp vm Tp Tm ->
  fst (vpvmAndvpovm e Tp Tm) * snd (vpvmAndvpovm e Tp Tm) = vp ^ 2 /\
  fst (vpvmAndvpovm e Tp Tm) / snd (vpvmAndvpovm e Tp Tm) = vm ^ 2.
Proof. exact conserved_junction. Qed.
Print Assumptions C02_conserved_junction.

Theorem C02_matching_root_conserves : forall e,
  (forall T, wHighT e T = eHighT e T + pHighT e T) ->
  (forall T, wLowT e T = eLowT e T + pLowT e T) ->
  forall vw vp Tpm0 x vp' vm' Tp Tm,
  0 < vw < 1 -> 0 < vp < 1 ->
  matching_given e vw vp Tpm0 x = (0, 0) ->
  deflag_result_given e vw vp x = (vp', vm', Tp, Tm) ->
  0 < csqLowT e Tm -> admissible e Tp Tm ->
  conserved e vp' vm' Tp Tm /\ vm' ^ 2 = Rmin (vw ^ 2) (csqLowT e Tm) /\ vp' = vp /\
  0 < vm' < 1.
Proof. exact matching_root_conserves. Qed.
Print Assumptions C02_matching_root_conserves.

Theorem C02_matching_root_conserves_lte : forall e,
  (forall T, wHighT e T = eHighT e T + pHighT e T) ->
  (forall T, wLowT e T = eLowT e T + pLowT e T) ->
  forall vw Tpm0 x vp' vm' Tp Tm,
  0 < vw < 1 ->
  matching_lte e vw Tpm0 x = (0, 0) ->
  deflag_result_lte e vw x = (vp', vm', Tp, Tm) ->
  0 < csqLowT e Tm -> admissible e Tp Tm -> 0 < Tp -> 0 < Tm ->
  conserved e vp' vm' Tp Tm /\ vm' ^ 2 = Rmin (vw ^ 2) (csqLowT e Tm) /\
  Tp ^ 2 * gammaSq vp' = Tm ^ 2 * gammaSq vm' /\ 0 < vp' < 1 /\ 0 < vm' < 1.
Proof. exact matching_root_conserves_lte. Qed.
Print Assumptions C02_matching_root_conserves_lte.

Theorem C02_deton_root_conserves : forall e,
  (forall T, wHighT e T = eHighT e T + pHighT e T) ->
  (forall T, wLowT e T = eLowT e T + pLowT e T) ->
  forall vw tm vp' vm' Tp Tm,
  0 < vw < 1 ->
  tmFromvpsq e vw tm = 0 ->
  deton_result e vw tm = (vp', vm', Tp, Tm) ->
  admissible e Tp Tm -> vm' < 1 ->
  conserved e vp' vm' Tp Tm /\ vp' = vw /\ Tp = Tnucl e /\ Tm = tm /\ 0 < vm'.
Proof. exact deton_root_conserves. Qed.
Print Assumptions C02_deton_root_conserves.

Theorem C02_boundary_constants : forall e vw vp vm Tp Tm c1 c2 Tp' Tm' vmid,
  ~ vw < vMin e ->
  findHydroBoundaries e vw vp vm Tp Tm = (c1, c2, Tp', Tm', vmid) ->
  c1 = - energy_flux_high e vp Tp /\ c2 = momentum_flux_high e vp Tp /\
  Tp' = Tp /\ Tm' = Tm /\ vmid = - ((vp + vm) / 2) /\
  (conserved e vp vm Tp Tm ->
   c1 = - energy_flux_low e vm Tm /\ c2 = momentum_flux_low e vm Tm).
Proof. exact boundary_constants. Qed.
Print Assumptions C02_boundary_constants.

Theorem C02_exact_matching_is_root : forall e,
  (forall T, wHighT e T = eHighT e T + pHighT e T) ->
  (forall T, wLowT e T = eLowT e T + pLowT e T) ->
  forall vw vp vm Tp Tm Tpm0,
  0 < vp < 1 -> 0 < vm < 1 -> admissible e Tp Tm ->
  TMinHydro e < Tp < TMaxHydro e -> TMinHydro e < Tm < TMaxHydro e ->
  conserved e vp vm Tp Tm -> vm ^ 2 = Rmin (vw ^ 2) (csqLowT e Tm) ->
  matching_given e vw vp Tpm0 (_mappingT e (Tp, Tm)) = (0, 0).
Proof. exact exact_matching_is_root. Qed.
Print Assumptions C02_exact_matching_is_root.

Theorem C02_near_root_flux_bound : forall e,
  (forall T, wHighT e T = eHighT e T + pHighT e T) ->
  (forall T, wLowT e T = eLowT e T + pLowT e T) ->
  forall vp vm Tp Tm d,
  0 < vp < 1 -> 0 < vm < 1 -> 0 <= d ->
  Rabs (res1 e vp vm Tp Tm) <= d -> Rabs (res2 e vp vm Tp Tm) <= d ->
  Rabs (energy_flux_high e vp Tp - energy_flux_low e vm Tm) <= 4 * d * gammaSq vp * gammaSq vm /\
  Rabs (momentum_flux_high e vp Tp - momentum_flux_low e vm Tm) <= 4 * d * gammaSq vp * gammaSq vm.
Proof. exact near_root_flux_bound. Qed.
Print Assumptions C02_near_root_flux_bound.

Theorem C02_hypotheses_satisfiable :
  exists (e : env) vp vm Tp Tm,
    (forall T, wHighT e T = eHighT e T + pHighT e T) /\
    (forall T, wLowT e T = eLowT e T + pLowT e T) /\
    0 < vp < 1 /\ 0 < vm < 1 /\ admissible e Tp Tm /\ conserved e vp vm Tp Tm.
Proof. exact hypotheses_satisfiable. Qed.
Print Assumptions C02_hypotheses_satisfiable.

Theorem C02_template_findTm_conserves_energy : forall e : t_env,
  0 < t_Tnucl e -> 0 < t_psiN e -> 0 < t_mu e -> 0 < t_nu e ->
  forall vp vm Tp, 0 < vp < 1 -> 0 < vm < 1 -> 0 < Tp ->
  0 < t__findTm e vm vp Tp /\ t_energy_conserved e vp vm Tp (t__findTm e vm vp Tp).
Proof. exact template_findTm_conserves_energy. Qed.
Print Assumptions C02_template_findTm_conserves_energy.

Theorem C02_template_matching_conserves_energy : forall e : t_env,
  0 < t_Tnucl e -> 0 < t_psiN e -> 0 < t_mu e -> 0 < t_nu e ->
  forall vw vp vp' vm Tp Tm,
  ~ t_vJ e < vw -> 0 < vp < 1 -> 0 < Rmin (t_cb e) vw < 1 ->
  t_findMatching_result e vw vp = (vp', vm, Tp, Tm) ->
  vp' = vp /\ vm = Rmin (t_cb e) vw /\ 0 < Tp /\ 0 < Tm /\ t_energy_conserved e vp' vm Tp Tm.
Proof. exact template_matching_conserves_energy. Qed.
Print Assumptions C02_template_matching_conserves_energy.

Theorem C02_template_deton_conserves_energy : forall e : t_env,
  0 < t_Tnucl e -> 0 < t_psiN e -> 0 < t_mu e -> 0 < t_nu e ->
  forall vw vp vm Tp Tm,
  0 < vw < 1 -> t_detonationVAndT e vw = (vp, vm, Tp, Tm) -> 0 < vm < 1 ->
  vp = vw /\ Tp = t_Tnucl e /\ 0 < Tm /\ t_energy_conserved e vp vm Tp Tm.
Proof. exact template_deton_conserves_energy. Qed.
Print Assumptions C02_template_deton_conserves_energy.

Theorem C02_template_boundary_constants : forall (e : t_env), 0 < t_mu e ->
  forall vw vp vm Tp Tm c1 c2 Tp' Tm' vmid,
  ~ vw < t_vMin e -> 0 < vp < 1 ->
  t_findHydroBoundaries e vw vp vm Tp Tm = (c1, c2, Tp', Tm', vmid) ->
  c1 = - (t_wHigh e Tp * gammaSq vp * vp) /\
  c2 = (t_pN e + (Rpower (Tp / t_Tnucl e) (t_mu e) - 1) * t_wN e / t_mu e)
       + t_wHigh e Tp * gammaSq vp * vp ^ 2 /\
  Tp' = Tp /\ Tm' = Tm /\ vmid = - ((vp + vm) / 2) /\
  (t_energy_conserved e vp vm Tp Tm -> c1 = - (t_wLow e Tm * gammaSq vm * vm)).
Proof. exact template_boundary_constants. Qed.
Print Assumptions C02_template_boundary_constants.

Theorem C02_tolerance_roles : forall f rt at_ x,
  In f tol_facts -> roles_ok f = true /\
  (tf_kind f = RootScalar -> requested_accuracy f rt at_ x = at_ + rt * Rabs x).
Proof. exact tolerance_roles. Qed.
Print Assumptions C02_tolerance_roles.

Theorem C02_residual_to_junction : forall e vw vp vm Tpm0 x f1 f2,
  0 < vp -> 0 < vm -> admissible e (Tp_of e x) (Tm_of e x) ->
  matching_given e vw vp Tpm0 x = (f1, f2) ->
  vm ^ 2 = Rmin (vw ^ 2) (csqLowT e (Tm_of e x)) ->
  let Tp := Tp_of e x in let Tm := Tm_of e x in
  let c := scale_of Tpm0 Tp Tm in let r1 := f1 / c in let r2 := f2 / c in
  let A := fst (vpvmAndvpovm e Tp Tm) in let B := snd (vpvmAndvpovm e Tp Tm) in
  0 < c /\
  res1 e vp vm Tp Tm * (vp * vm + A)
    = - (eHighT e Tp - eLowT e Tm) * (vp ^ 2 * r2 + vm ^ 2 * r1 + r1 * r2) /\
  res2 e vp vm Tp Tm * (vp + vm * B) * (vm ^ 2 + r2)
    = (eHighT e Tp + pLowT e Tm) * (vp ^ 2 * r2 - vm ^ 2 * r1).
Proof. exact residual_to_junction. Qed.
Print Assumptions C02_residual_to_junction.

Theorem C02_deton_residual : forall e,
  (forall T, wHighT e T = eHighT e T + pHighT e T) ->
  (forall T, wLowT e T = eLowT e T + pLowT e T) ->
  forall vw tm, admissible e (Tnucl e) tm ->
  tmFromvpsq e vw tm = (eHighT e (Tnucl e) - eLowT e tm) *
    (vw ^ 2 - fst (vpvmAndvpovm e (Tnucl e) tm) * snd (vpvmAndvpovm e (Tnucl e) tm)).
Proof. exact deton_residual. Qed.
Print Assumptions C02_deton_residual.

Theorem C02_return_paths : paths_wellformed path_facts = true.
Proof. exact return_paths. Qed.
Print Assumptions C02_return_paths.

Print Assumptions matching_root_exists.
Print Assumptions deton_root_exists.
