(** C18 -- stub, replaced below *)
From Coq Require Import List Bool Arith ZArith QArith Lia Lqa.
From WG Require Import Model.InterpFun.
From GenC18 Require Import InterpFacts.
Import ListNotations.

Lemma facts_agree_l :
  src_stencil1 = stencil 1 /\ src_stencil2 = stencil 2 /\ src_fd_order = 4%nat /\
  src_fd_call_plain = true /\ src_modes_before_rebuild = true /\ src_range_from_filtered = true /\
  src_flag_is_function_mode = true /\ src_append_frac_table == 1 # 5 /\
  src_append_frac_notable == 1 # 2 /\ src_skip_single_point = true.
Proof. vm_compute. repeat split; reflexivity || discriminate. Qed.
Theorem facts_agree : src_stencil1 = stencil 1 /\ src_stencil2 = stencil 2 /\ src_fd_order = 4%nat /\
  src_fd_call_plain = true /\ src_modes_before_rebuild = true /\ src_range_from_filtered = true /\
  src_flag_is_function_mode = true /\ src_append_frac_table == 1 # 5 /\
  src_append_frac_notable == 1 # 2 /\ src_skip_single_point = true.
Proof. exact facts_agree_l. Qed.
Print Assumptions facts_agree.
